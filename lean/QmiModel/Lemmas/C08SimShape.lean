import QmiModel.Lemmas.C08NetTok
/-! C08, simulation layer — what a micro step does to the program of its thread (`microStep_prog`), and the programs
the socket thread starts when a message arrives (`DspInv`): the request handler, the handler of a positive reply and
the handler of a removal notice are whole programs of socket threads; a handler works for the alias of a connection
whose server end belongs to its context. -/
set_option linter.unusedSimpArgs false
namespace QmiModel.PubSub

/-- the operations a micro-operation may put in front of the rest of its program -/
def Pushes : MOp → MOp → Prop
  | .snapLocal k p, op' => ∃ sid rs, op' = .deliver sid rs k p
  | .deliver sid _ k p, op' => ∃ rs, op' = .deliver sid rs k p
  | .snapRemote ob sg p, op' => ∃ ps, op' = .pubSend ps ob sg p
  | .pubSend _ ob sg p, op' => (∃ d, op' = .enq d (.signal ob sg p)) ∨ ∃ ps, op' = .pubSend ps ob sg p
  | .sendChk d m, op' => op' = .enq d m ∨ op' ∈ onSendFail m
  | .chkObj2 k r, op' => op' = .removeLocal k r
  | .subRemote k _, op' => (∃ pid, op' = .wait pid) ∨ ∃ id, op' = .sendChk k.pc (.subReq id k.ob k.sg true)
  | .unsubRemote k _, op' => ∃ id, op' = .sendChk k.pc (.subReq id k.ob k.sg false)
  | .handleReply _ _, op' => ∃ d id ob sg, op' = .sendChk d (.subReq id ob sg true)
  | .objRemoved ob, op' => ∃ ns, op' = .notify ns ob
  | .notify _ ob, op' => (∃ d sg, op' = .enq d (.removed ob sg)) ∨ ∃ ns, op' = .notify ns ob
  | .reqChk1 src id ob sg, op' => op' = .addRemote src ob sg ∨ op' = .reqChk2 src id ob sg ∨ op' = .sendChk src (.subReply id false)
  | .reqChk2 src id ob sg, op' =>
    op' = .sendChk src (.subReply id true) ∨ op' = .removeRemote src ob sg ∨ op' = .sendChk src (.subReply id false)
  | .closeConn _ _, op' => ∃ id, op' = .handleReply id false
  | _, _ => False

theorem handleReplyStep_pushes {cs cs' : CtxSt} {id : ReqId} {ok : Bool} {more : List MOp} {o : Out}
    (h : handleReplyStep cs id ok = some (cs', more, o)) : ∀ op' ∈ more, ∃ d id ob sg, op' = .sendChk d (.subReq id ob sg true) := by
  unfold handleReplyStep at h
  split at h
  · simp only [Option.some.injEq, Prod.mk.injEq] at h; obtain ⟨-, rfl, -⟩ := h; simp
  · split at h
    · simp only [Option.some.injEq, Prod.mk.injEq] at h; obtain ⟨-, rfl, -⟩ := h; simp
    · split at h
      · simp only [Option.some.injEq, Prod.mk.injEq] at h; obtain ⟨-, rfl, -⟩ := h; simp
      · split at h
        · simp only [Option.some.injEq, Prod.mk.injEq] at h; obtain ⟨-, rfl, -⟩ := h
          intro op' hm; simp only [List.mem_singleton] at hm; exact ⟨_, _, _, _, hm⟩
        · simp only [Option.some.injEq, Prod.mk.injEq] at h; obtain ⟨-, rfl, -⟩ := h; simp

set_option maxHeartbeats 4000000 in
/-- the program of the acting thread after a micro step: something pushed in front of the rest, or an exception
(the whole program is replaced by `raise`), or the end of the call -/
theorem microStep_prog {s s' : State} {th : Th} {ch ch2 : Nat} {op : MOp} {rest : List MOp} {o : Out}
    (hs : microStep s th ch ch2 op rest = some (s', o)) :
    (∃ pushed, s'.prog th = pushed ++ rest ∧ ∀ op' ∈ pushed, Pushes op op') ∨
    ((∃ e t, s'.prog th = [.raise e t]) ∧ op.isCar = false) ∨ (s'.prog th = [] ∧ op.isCar = false) := by
  cases op <;> simp only [microStep] at hs
  all_goals (try (split at hs))
  all_goals (try (split at hs))
  all_goals (try (split at hs))
  all_goals (try (split at hs))
  all_goals (try (simp at hs))
  all_goals (try (have f2 := handleReplyStep_pushes ‹handleReplyStep _ _ _ = some _›))
  all_goals (try (obtain ⟨rfl, -⟩ := hs))
  all_goals (simp only [if_true, State.setProg, upd])
  all_goals (first
    | (refine Or.inr (Or.inl ⟨⟨_, _, rfl⟩, rfl⟩); done)
    | (refine Or.inr (Or.inr ⟨rfl, rfl⟩); done)
    | (refine Or.inl ⟨[], rfl, ?_⟩; simp; done)
    | (refine Or.inl ⟨[_], rfl, ?_⟩; simp [Pushes]; done)
    | (refine Or.inl ⟨[_, _], rfl, ?_⟩; simp [Pushes]; done)
    | (refine Or.inl ⟨_, rfl, ?_⟩; simp [Pushes]; done)
    | (exact Or.inl ⟨_, rfl, f2⟩)
    | (exact Or.inl ⟨_, rfl, fun _ h => Or.inr h⟩)
    | (exact Or.inr (Or.inr ⟨trivial, rfl⟩))
    | skip)

/-! ### programs that the socket thread starts when a message arrives -/

def MOp.isDsp : MOp → Bool
  | .reqChk1 .. => true
  | .addRemote .. => true
  | .reqChk2 .. => true
  | .removeRemote .. => true
  | .sendChk _ (.subReply ..) => true
  | .enq _ (.subReply ..) => true
  | .handleReply _ true => true
  | .sigRemoved _ => true
  | _ => false

def dspFree (l : List MOp) : Prop := ∀ op ∈ l, op.isDsp = false

theorem dspFree_nil : dspFree [] := by simp [dspFree]
theorem dspFree_append {l m : List MOp} : dspFree (l ++ m) ↔ dspFree l ∧ dspFree m := by
  simp only [dspFree, List.mem_append]
  exact ⟨fun h => ⟨fun op ho => h op (Or.inl ho), fun op ho => h op (Or.inr ho)⟩, fun h op ho => ho.elim (h.1 op) (h.2 op)⟩

/-- the request handler, the reply handler for a positive reply and the removal-notice handler are whole programs -/
inductive DspForm : List MOp → Prop
  | chk1 (src : Peer) (id : ReqId) (ob : Obj) (sg : Sg) : DspForm [.reqChk1 src id ob sg]
  | add (src : Peer) (id : ReqId) (ob : Obj) (sg : Sg) : DspForm [.addRemote src ob sg, .reqChk2 src id ob sg]
  | chk2 (src : Peer) (id : ReqId) (ob : Obj) (sg : Sg) : DspForm [.reqChk2 src id ob sg]
  | rem (src : Peer) (id : ReqId) (ob : Obj) (sg : Sg) (ok : Bool) : DspForm [.removeRemote src ob sg, .sendChk src (.subReply id ok)]
  | snd (src : Peer) (id : ReqId) (ok : Bool) : DspForm [.sendChk src (.subReply id ok)]
  | enq (src : Peer) (id : ReqId) (ok : Bool) : DspForm [.enq src (.subReply id ok)]
  | hr (id : ReqId) : DspForm [.handleReply id true]
  | sr (k : Key) : DspForm [.sigRemoved k]

/-- the peer a handler operation works for -/
def MOp.hdlSrc : MOp → Option Peer
  | .reqChk1 src _ _ _ => some src
  | .addRemote src _ _ => some src
  | .reqChk2 src _ _ _ => some src
  | .sendChk d (.subReply ..) => some d
  | .enq d (.subReply ..) => some d
  | _ => none

structure DspInv (s : State) : Prop where
  user : ∀ c t, dspFree (s.prog (.user c t))
  sock : ∀ c, dspFree (s.prog (.sock c)) ∨ DspForm (s.prog (.sock c))
  own : ∀ th op n, op ∈ s.prog th → op.hdlSrc = some (.alias n) → th.ctx = ((s.conn n).half false).owner

theorem pushes_dspFree {op op' : MOp} (h : op.isDsp = false) (hp : Pushes op op') : op'.isDsp = false := by
  cases op with
  | snapLocal k p => obtain ⟨_, _, rfl⟩ := hp; rfl
  | deliver sid rs k p => obtain ⟨_, rfl⟩ := hp; rfl
  | snapRemote ob sg p => obtain ⟨_, rfl⟩ := hp; rfl
  | pubSend ps ob sg p => rcases hp with ⟨_, rfl⟩ | ⟨_, rfl⟩ <;> rfl
  | sendChk d m =>
    rcases hp with rfl | hp
    · cases m <;> first | rfl | (simp [MOp.isDsp] at h)
    · cases m <;> simp [onSendFail] at hp
      subst hp; rfl
  | chkObj2 k r => simp only [Pushes] at hp; subst hp; rfl
  | subRemote k r => rcases hp with ⟨_, rfl⟩ | ⟨_, rfl⟩ <;> rfl
  | unsubRemote k r => obtain ⟨_, rfl⟩ := hp; rfl
  | handleReply id ok => obtain ⟨_, _, _, _, rfl⟩ := hp; rfl
  | objRemoved ob => obtain ⟨_, rfl⟩ := hp; rfl
  | notify ns ob => rcases hp with ⟨_, _, rfl⟩ | ⟨_, rfl⟩ <;> rfl
  | reqChk1 src id ob sg => simp [MOp.isDsp] at h
  | reqChk2 src id ob sg => simp [MOp.isDsp] at h
  | closeConn cn cli => obtain ⟨_, rfl⟩ := hp; rfl
  | _ => simp only [Pushes] at hp

theorem dspFree_micro {s s' : State} {th : Th} {ch ch2 : Nat} {op : MOp} {rest : List MOp} {o : Out}
    (h : dspFree (op :: rest)) (hs : microStep s th ch ch2 op rest = some (s', o)) : dspFree (s'.prog th) := by
  rcases microStep_prog hs with ⟨pushed, hp, hpu⟩ | ⟨⟨e, t, hp⟩, -⟩ | ⟨hp, -⟩
  · rw [hp, dspFree_append]
    exact ⟨fun op' ho => pushes_dspFree (h op List.mem_cons_self) (hpu op' ho), fun op' ho => h op' (List.mem_cons_of_mem _ ho)⟩
  · rw [hp]; intro op' ho; simp only [List.mem_singleton] at ho; subst ho; rfl
  · rw [hp]; exact dspFree_nil


theorem pushes_hdlSrc {op op' : MOp} {x : Peer} (hp : Pushes op op') (h : op'.hdlSrc = some x) : op.hdlSrc = some x := by
  cases op with
  | snapLocal k p => obtain ⟨_, _, rfl⟩ := hp; simp [MOp.hdlSrc] at h
  | deliver sid rs k p => obtain ⟨_, rfl⟩ := hp; simp [MOp.hdlSrc] at h
  | snapRemote ob sg p => obtain ⟨_, rfl⟩ := hp; simp [MOp.hdlSrc] at h
  | pubSend ps ob sg p => rcases hp with ⟨_, rfl⟩ | ⟨_, rfl⟩ <;> simp [MOp.hdlSrc] at h
  | sendChk d m =>
    rcases hp with rfl | hp
    · cases m <;> simp_all [MOp.hdlSrc]
    · cases m <;> simp [onSendFail] at hp
      subst hp; simp [MOp.hdlSrc] at h
  | chkObj2 k r => simp only [Pushes] at hp; subst hp; simp [MOp.hdlSrc] at h
  | subRemote k r => rcases hp with ⟨_, rfl⟩ | ⟨_, rfl⟩ <;> simp [MOp.hdlSrc] at h
  | unsubRemote k r => obtain ⟨_, rfl⟩ := hp; simp [MOp.hdlSrc] at h
  | handleReply id ok => obtain ⟨_, _, _, _, rfl⟩ := hp; simp [MOp.hdlSrc] at h
  | objRemoved ob => obtain ⟨_, rfl⟩ := hp; simp [MOp.hdlSrc] at h
  | notify ns ob => rcases hp with ⟨_, _, rfl⟩ | ⟨_, rfl⟩ <;> simp [MOp.hdlSrc] at h
  | reqChk1 src id ob sg => rcases hp with rfl | rfl | rfl <;> simp_all [MOp.hdlSrc]
  | reqChk2 src id ob sg => rcases hp with rfl | rfl | rfl <;> simp_all [MOp.hdlSrc]
  | closeConn cn cli => obtain ⟨_, rfl⟩ := hp; simp [MOp.hdlSrc] at h
  | _ => simp only [Pushes] at hp

theorem dspInv_init : DspInv State.init := by
  constructor
  · intro c t; simp [State.init, dspFree]
  · intro c; exact Or.inl (by simp [State.init, dspFree])
  · intro th op n h; simp [State.init] at h

theorem dspInv_micro {s s' : State} {th : Th} {ch ch2 : Nat} {op : MOp} {rest : List MOp} {o : Out}
    (h : DspInv s) (hprog : s.prog th = op :: rest) (hs : microStep s th ch ch2 op rest = some (s', o)) : DspInv s' := by
  have hf := microStep_frame hs
  have hown := microStep_owner hs
  constructor
  · intro c t
    by_cases e : Th.user c t = th
    · subst e
      have := h.user c t; rw [hprog] at this
      exact dspFree_micro this hs
    · rw [hf.prog_other _ e]; exact h.user c t
  · intro c
    by_cases e : Th.sock c = th
    · subst e
      rcases h.sock c with hfree | hform
      · rw [hprog] at hfree; exact Or.inl (dspFree_micro hfree hs)
      · rw [hprog] at hform
        generalize hl : op :: rest = l at hform
        cases hform <;> simp only [List.cons.injEq] at hl <;> obtain ⟨rfl, rfl⟩ := hl <;> simp only [microStep] at hs
        case chk1 src id ob sg =>
          split at hs <;> simp only [Option.some.injEq, Prod.mk.injEq] at hs <;> obtain ⟨rfl, -⟩ := hs <;>
            simp only [setProg_prog, if_true]
          · exact Or.inr (DspForm.add _ _ _ _)
          · exact Or.inr (DspForm.snd _ _ _)
        case add src id ob sg =>
          simp only [Option.some.injEq, Prod.mk.injEq] at hs; obtain ⟨rfl, -⟩ := hs
          simp only [setProg_prog, if_true]; exact Or.inr (DspForm.chk2 _ _ _ _)
        case chk2 src id ob sg =>
          split at hs <;> simp only [Option.some.injEq, Prod.mk.injEq] at hs <;> obtain ⟨rfl, -⟩ := hs <;>
            simp only [setProg_prog, if_true]
          · exact Or.inr (DspForm.snd _ _ _)
          · exact Or.inr (DspForm.rem _ _ _ _ _)
        case rem src id ob sg ok =>
          simp only [Option.some.injEq, Prod.mk.injEq] at hs; obtain ⟨rfl, -⟩ := hs
          simp only [setProg_prog, if_true]; exact Or.inr (DspForm.snd _ _ _)
        case snd src id ok =>
          split at hs <;> simp only [Option.some.injEq, Prod.mk.injEq] at hs <;> obtain ⟨rfl, -⟩ := hs <;>
            simp only [State.setProg, upd, if_true]
          · exact Or.inr (DspForm.enq _ _ _)
          · exact Or.inl (by simp [onSendFail, dspFree])
        case enq src id ok =>
          simp only [Option.some.injEq, Prod.mk.injEq] at hs; obtain ⟨rfl, -⟩ := hs
          simp only [setProg_prog, if_true]; exact Or.inl dspFree_nil
        case hr id =>
          split at hs
          · simp at hs
          · rename_i cs' more o' heq
            simp only [Option.some.injEq, Prod.mk.injEq] at hs; obtain ⟨rfl, -⟩ := hs
            simp only [setProg_prog, if_true, List.append_nil]
            refine Or.inl ?_
            intro op' ho
            obtain ⟨_, _, _, _, rfl⟩ := handleReplyStep_pushes heq op' ho
            rfl
        case sr k =>
          simp only [Option.some.injEq, Prod.mk.injEq] at hs; obtain ⟨rfl, -⟩ := hs
          simp only [setProg_prog, if_true]; exact Or.inl dspFree_nil
    · rw [hf.prog_other _ e]; exact h.sock c
  · intro th' op' n hm hsrc
    rw [hown]
    by_cases e : th' = th
    · subst e
      rcases microStep_prog hs with ⟨pushed, hp, hpu⟩ | ⟨⟨e, t, hp⟩, -⟩ | ⟨hp, -⟩
      · rw [hp] at hm
        rcases List.mem_append.1 hm with h1 | h1
        · exact h.own th' op n (by rw [hprog]; exact List.mem_cons_self) (pushes_hdlSrc (hpu op' h1) hsrc)
        · exact h.own th' op' n (by rw [hprog]; exact List.mem_cons_of_mem _ h1) hsrc
      · rw [hp] at hm; simp only [List.mem_singleton] at hm; subst hm; simp [MOp.hdlSrc] at hsrc
      · rw [hp] at hm; simp at hm
    · rw [hf.prog_other _ e] at hm; exact h.own th' op' n hm hsrc


theorem DspInv.congr {s s' : State} (h : DspInv s) (hp : s'.prog = s.prog)
    (ho : ∀ n, ((s'.conn n).half false).owner = ((s.conn n).half false).owner) : DspInv s' :=
  ⟨fun c t => by rw [hp]; exact h.user c t, fun c => by rw [hp]; exact h.sock c,
   fun th op n hm hs => by rw [ho]; rw [hp] at hm; exact h.own th op n hm hs⟩

theorem DspInv.setSock {s : State} (h : DspInv s) (c : Ctx) (pr : List MOp) (hp : dspFree pr ∨ DspForm pr)
    (ho : ∀ op ∈ pr, ∀ n, op.hdlSrc = some (.alias n) → c = ((s.conn n).half false).owner) : DspInv (s.setProg (.sock c) pr) := by
  constructor
  · intro c' t; simp only [setProg_prog]; rw [if_neg (by simp)]; exact h.user c' t
  · intro c'; simp only [setProg_prog]; split
    · exact hp
    · exact h.sock c'
  · intro th op n hm hs
    simp only [setProg_prog] at hm
    simp only [setProg_conn]
    split at hm
    · rename_i e; subst e; exact ho op hm n hs
    · exact h.own th op n hm hs

theorem DspInv.setUser {s : State} (h : DspInv s) (c : Ctx) (t : Tid) (pr : List MOp) (hp : dspFree pr)
    (ho : ∀ op ∈ pr, op.hdlSrc = none) : DspInv (s.setProg (.user c t) pr) := by
  constructor
  · intro c' t'; simp only [setProg_prog]; split
    · exact hp
    · exact h.user c' t'
  · intro c'; simp only [setProg_prog]; rw [if_neg (by simp)]; exact h.sock c'
  · intro th op n hm hs
    simp only [setProg_prog] at hm
    simp only [setProg_conn]
    split at hm
    · rw [ho op hm] at hs; cases hs
    · exact h.own th op n hm hs

theorem dsp_beginProg (c : Ctx) (t : Tid) (n : Nat) (o : Op) :
    dspFree (beginProg c t n o) ∧ ∀ op ∈ beginProg c t n o, op.hdlSrc = none := by
  cases o <;> simp only [beginProg] <;> (try split) <;> simp [dspFree, MOp.isDsp, MOp.hdlSrc]

theorem dsp_onSendFail (m : Msg) : dspFree (onSendFail m) ∧ ∀ op ∈ onSendFail m, op.hdlSrc = none := by
  cases m <;> simp [onSendFail, dspFree, MOp.isDsp, MOp.hdlSrc]

theorem dsp_dispatch (src : Peer) (m : Msg) : dspFree (dispatch src m) ∨ DspForm (dispatch src m) := by
  cases m with
  | signal ob sg p => exact Or.inl (by simp [dispatch, dspFree, MOp.isDsp])
  | subReq id ob sg b =>
    cases b
    · exact Or.inr (DspForm.rem _ _ _ _ _)
    · exact Or.inr (DspForm.chk1 _ _ _ _)
  | subReply id ok =>
    cases ok
    · exact Or.inl (by simp [dispatch, dspFree, MOp.isDsp])
    · exact Or.inr (DspForm.hr _)
  | removed ob sg => exact Or.inr (DspForm.sr _)

theorem hdlSrc_dispatch {src : Peer} {m : Msg} {op : MOp} {x : Peer} (h : op ∈ dispatch src m) (hs : op.hdlSrc = some x) :
    x = src ∧ m.isUp = true := by
  cases m with
  | signal ob sg p => simp only [dispatch, List.mem_singleton] at h; subst h; simp [MOp.hdlSrc] at hs
  | subReq id ob sg b =>
    cases b <;> simp only [dispatch, List.mem_cons, List.not_mem_nil, or_false] at h
    · rcases h with rfl | rfl <;> simp_all [MOp.hdlSrc, Msg.isUp]
    · subst h; simp_all [MOp.hdlSrc, Msg.isUp]
  | subReply id ok => simp only [dispatch, List.mem_singleton] at h; subst h; simp [MOp.hdlSrc] at hs
  | removed ob sg => simp only [dispatch, List.mem_singleton] at h; subst h; simp [MOp.hdlSrc] at hs

theorem hdlSrc_ok {N : Nat} {op : MOp} {x : Peer} (hok : op.ok N = true) (hs : op.hdlSrc = some x) : x.okA N = true := by
  cases op <;> simp only [MOp.hdlSrc] at hs <;> (try (cases hs; done))
  all_goals (try (cases hs; exact hok))
  all_goals (rename_i d m; cases m <;> simp only [MOp.hdlSrc] at hs <;> (try (cases hs; done)))
  all_goals (cases hs; simpa [MOp.ok, sendOk, Msg.isUp] using hok)

theorem dspInv_nstep {s s' : State} (h : DspInv s) (hty : TypInv s) (hs : NStep s s') : DspInv s' := by
  cases hs
  case beginPub c t ob sg _ _ =>
    exact ((h.setUser c t _ (dsp_beginProg _ _ _ _).1 (dsp_beginProg _ _ _ _).2).congr rfl (fun _ => rfl))
  case beginOther c t op _ _ _ => exact h.setUser c t _ (dsp_beginProg _ _ _ _).1 (dsp_beginProg _ _ _ _).2
  case cbUnknown c d m q _ _ _ _ =>
    exact (h.congr (s' := s.setCtx c _) rfl (fun _ => rfl)).setSock c _ (Or.inl (dsp_onSendFail m).1)
      (fun op ho n hs => by rw [(dsp_onSendFail m).2 op ho] at hs; cases hs)
  case cbSent c d m q cn _ _ _ _ =>
    refine (h.congr (s' := { (s.setCtx c _) with conn := _ }) rfl (fun n => ?_)).setSock c _ (Or.inl dspFree_nil) (by simp)
    simp only [upd]; split
    · rename_i e; subst e; exact sentConn_owner _ _ _ _
    · rfl
  case cbFail c d m q cn _ _ _ _ _ =>
    exact (h.congr (s' := s.setCtx c _) rfl (fun _ => rfl)).setSock c _ (Or.inl (dsp_onSendFail m).1)
      (fun op ho n hs => by rw [(dsp_onSendFail m).2 op ho] at hs; cases hs)
  case cbDiscNone c n t q _ _ _ _ =>
    exact (h.congr (s' := s.setCtx c _) rfl (fun _ => rfl)).setSock c _ (Or.inl (by simp [dspFree, MOp.isDsp])) (by simp [MOp.hdlSrc])
  case cbDisc c n t q cn _ _ _ _ =>
    exact (h.congr (s' := s.setCtx c _) rfl (fun _ => rfl)).setSock c _ (Or.inl (by simp [dspFree, MOp.isDsp])) (by simp [MOp.hdlSrc])
  case arrive cn cli m ms hcn _ _ hopen hin =>
    have hown : ∀ n b, (((upd s.conn cn ((s.conn cn).setHalf cli (readHalf ((s.conn cn).half cli) m ms))) n).half b).owner =
        ((s.conn n).half b).owner := by
      intro n b; simp only [upd]; split
      · rename_i e; subst e; rw [half_setHalf']; split
        · rename_i e2; subst e2; exact readHalf_owner _ _ _
        · rfl
      · rfl
    refine (h.congr (s' := { s with conn := upd s.conn cn ((s.conn cn).setHalf cli (readHalf ((s.conn cn).half cli) m ms)) }) rfl
      (fun n => hown n false)).setSock _ _ (dsp_dispatch _ _) ?_
    intro op ho n hsrc
    obtain ⟨e1, e2⟩ := hdlSrc_dispatch ho hsrc
    have hup := hty.inbox cn cli m (by rw [hin]; exact List.mem_cons_self)
    rw [e2] at hup
    have hcli : cli = false := by
      cases cli
      · rfl
      · simp at hup
    subst hcli
    simp only [srcName, Bool.false_eq_true, if_false, Peer.alias.injEq] at e1
    subst e1
    exact (hown n false).symm
  case eof cn cli _ _ _ _ _ _ => exact h.setSock _ _ (Or.inl (by simp [dspFree, MOp.isDsp])) (by simp [MOp.hdlSrc])
  case connect a p _ _ _ _ =>
    constructor
    · exact h.user
    · exact h.sock
    · intro th op n hm hsrc
      have hok := hdlSrc_ok (List.all_eq_true.1 (hty.ops th) op hm) hsrc
      simp only [Peer.okA, decide_eq_true_eq] at hok
      have hne : n ≠ s.nextConn := Nat.ne_of_lt hok
      simp only [upd, if_neg hne]
      exact h.own th op n hm hsrc
  case routerOk => exact h.congr rfl (fun _ => rfl)
  case stopReq => exact h.congr rfl (fun _ => rfl)
  case stop c _ => exact h.congr rfl (fun n => stopConn_owner _ _ _)

theorem dspInv_reach {s : State} (h : Reach s) : DspInv s := by
  induction h with
  | init => exact dspInv_init
  | step hr hs ih =>
    rename_i s0 s1 a o
    by_cases ha : ∃ th ch ch2, a = .micro th ch ch2
    · obtain ⟨th, ch, ch2, rfl⟩ := ha
      obtain ⟨-, op, rest, hp, hm⟩ := step_micro_inv hs
      exact dspInv_micro ih hp hm
    · exact dspInv_nstep ih (typInv_reach hr) (step_nonmicro_cases (fun th ch ch2 e => ha ⟨th, ch, ch2, e⟩) hs)

end QmiModel.PubSub
