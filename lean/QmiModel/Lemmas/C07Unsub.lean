import QmiModel.Lemmas.C07Snap
/-! C07: after an unsubscribe has taken effect, the receiver only gets items of snapshots taken before. -/
namespace QmiModel.PubSub

/-- operations that can put receiver `r` into the table entry / pending request of key `k` on behalf of a subscribe call -/
def MOp.isSubAdd (k : Key) (r : Rcv) : MOp → Bool
  | .addLocal k' r' => k' = k && r' = r
  | .subRemote k' r' => k' = k && r' = r
  | _ => false

def MOp.isEnd : MOp → Bool
  | .ret _ => true
  | .raise _ _ => true
  | _ => false

/-- operations a micro step may push in front of the rest of the program: never a subscribe step, never a `ret` -/
def plainOps (l : List MOp) : Prop := ∀ op ∈ l, op.isEnd = false ∧ ∀ k r, op.isSubAdd k r = false

theorem plainOps_nil : plainOps [] := by simp [plainOps]
theorem plainOps_cons {op : MOp} {l : List MOp} :
    plainOps (op :: l) ↔ (op.isEnd = false ∧ ∀ k r, op.isSubAdd k r = false) ∧ plainOps l := by
  simp [plainOps]
theorem plainOps_append {l m : List MOp} : plainOps (l ++ m) ↔ plainOps l ∧ plainOps m := by
  simp only [plainOps, List.mem_append]
  constructor
  · intro h; exact ⟨fun op ho => h op (Or.inl ho), fun op ho => h op (Or.inr ho)⟩
  · rintro ⟨h1, h2⟩ op (ho | ho)
    · exact h1 op ho
    · exact h2 op ho

theorem plainOps_onSendFail (m : Msg) : plainOps (onSendFail m) := by
  cases m <;> simp [onSendFail, plainOps, MOp.isEnd, MOp.isSubAdd]

theorem plainOps_map_handleReply (l : List ReqId) : plainOps (l.map (fun id => MOp.handleReply id false)) := by
  intro op ho
  simp only [List.mem_map] at ho
  obtain ⟨id, -, rfl⟩ := ho
  simp [MOp.isEnd, MOp.isSubAdd]

theorem handleReplyStep_plain {cs cs' : CtxSt} {id : ReqId} {ok : Bool} {more : List MOp} {o : Out}
    (h : handleReplyStep cs id ok = some (cs', more, o)) : plainOps more := by
  unfold handleReplyStep at h
  split at h
  · simp at h
  · split at h
    · simp at h
    · split at h
      · simp only [Option.some.injEq, Prod.mk.injEq] at h
        obtain ⟨-, rfl, -⟩ := h
        exact plainOps_nil
      · split at h
        · simp only [Option.some.injEq, Prod.mk.injEq] at h
          obtain ⟨-, rfl, -⟩ := h
          simp [plainOps, MOp.isEnd, MOp.isSubAdd]
        · simp only [Option.some.injEq, Prod.mk.injEq] at h
          obtain ⟨-, rfl, -⟩ := h
          exact plainOps_nil

/-- the program of the acting thread after a micro step: new plain operations in front of the old rest, or a single
`raise` carrying the tag of the call, or (after `ret` / `raise`) nothing -/
inductive ProgShape (rest : List MOp) : List MOp → Prop
  | push (x : List MOp) : plainOps x → ProgShape rest (x ++ rest)
  | raised (e : Exc) : ProgShape rest [.raise e (progTag rest)]
  | ended : ProgShape rest []

set_option maxHeartbeats 1000000 in
theorem microStep_shape {s s' : State} {th : Th} {ch ch2 : Nat} {op : MOp} {rest : List MOp} {o : Out}
    (hs : microStep s th ch ch2 op rest = some (s', o)) : ProgShape rest (s'.prog th) := by
  cases op <;> simp only [microStep] at hs
  all_goals (try (split at hs))
  all_goals (try (split at hs))
  all_goals (try (split at hs))
  all_goals (try (split at hs))
  all_goals (try (simp at hs))
  all_goals (try (obtain ⟨rfl, -⟩ := hs))
  all_goals (try simp only [setProg_prog, if_true, State.setProg, upd])
  all_goals first
    | exact ProgShape.raised _
    | exact ProgShape.ended
    | exact ProgShape.push [] plainOps_nil
    | exact ProgShape.push [_] (by simp [plainOps, MOp.isEnd, MOp.isSubAdd])
    | exact ProgShape.push [_, _] (by simp [plainOps, MOp.isEnd, MOp.isSubAdd])
    | exact ProgShape.push _ (plainOps_onSendFail _)
    | exact ProgShape.push _ (plainOps_map_handleReply _)
    | exact ProgShape.push _ (handleReplyStep_plain ‹handleReplyStep _ _ _ = some _›)
    | (split <;> first | exact ProgShape.push [] plainOps_nil | exact ProgShape.push [_] (by simp [plainOps, MOp.isEnd, MOp.isSubAdd]))
    | skip

end QmiModel.PubSub
