import QmiModel.Lemmas.C07Snap
import QmiModel.Lemmas.C08Pend
/-! C07: after an unsubscribe has taken effect, the receiver only gets items of snapshots taken before. -/
namespace QmiModel.PubSub

/-- operations that can put receiver `r` into the table entry / pending request of key `k` on behalf of a subscribe call -/
def MOp.isSubAdd (k : Key) (r : Rcv) : MOp → Bool
  | .addLocal k' r' => k' = k && r' = r
  | .subRemote k' r' => k' = k && r' = r
  | _ => false

def MOp.isEnd : MOp → Bool
  | .ret _ => true
  | .raise _ _ => true
  | _ => false

/-- operations a micro step may push in front of the rest of the program: never a subscribe step, never a `ret` -/
def plainOps (l : List MOp) : Prop := ∀ op ∈ l, op.isEnd = false ∧ ∀ k r, op.isSubAdd k r = false

theorem plainOps_nil : plainOps [] := by simp [plainOps]
theorem plainOps_cons {op : MOp} {l : List MOp} :
    plainOps (op :: l) ↔ (op.isEnd = false ∧ ∀ k r, op.isSubAdd k r = false) ∧ plainOps l := by
  simp [plainOps]
theorem plainOps_append {l m : List MOp} : plainOps (l ++ m) ↔ plainOps l ∧ plainOps m := by
  simp only [plainOps, List.mem_append]
  constructor
  · intro h; exact ⟨fun op ho => h op (Or.inl ho), fun op ho => h op (Or.inr ho)⟩
  · rintro ⟨h1, h2⟩ op (ho | ho)
    · exact h1 op ho
    · exact h2 op ho

theorem plainOps_onSendFail (m : Msg) : plainOps (onSendFail m) := by
  cases m <;> simp [onSendFail, plainOps, MOp.isEnd, MOp.isSubAdd]

theorem plainOps_map_handleReply (l : List ReqId) : plainOps (l.map (fun id => MOp.handleReply id false)) := by
  intro op ho
  simp only [List.mem_map] at ho
  obtain ⟨id, -, rfl⟩ := ho
  simp [MOp.isEnd, MOp.isSubAdd]

theorem handleReplyStep_plain {cs cs' : CtxSt} {id : ReqId} {ok : Bool} {more : List MOp} {o : Out}
    (h : handleReplyStep cs id ok = some (cs', more, o)) : plainOps more := by
  unfold handleReplyStep at h
  split at h
  · simp at h
  · split at h
    · simp at h
    · split at h
      · simp only [Option.some.injEq, Prod.mk.injEq] at h
        obtain ⟨-, rfl, -⟩ := h
        exact plainOps_nil
      · split at h
        · simp only [Option.some.injEq, Prod.mk.injEq] at h
          obtain ⟨-, rfl, -⟩ := h
          simp [plainOps, MOp.isEnd, MOp.isSubAdd]
        · simp only [Option.some.injEq, Prod.mk.injEq] at h
          obtain ⟨-, rfl, -⟩ := h
          exact plainOps_nil

/-- the program of the acting thread after a micro step: new plain operations in front of the old rest, or a single
`raise` carrying the tag of the call, or (after `ret` / `raise`) nothing -/
inductive ProgShape (rest : List MOp) : List MOp → Prop
  | push (x : List MOp) : plainOps x → ProgShape rest (x ++ rest)
  | raised (e : Exc) : ProgShape rest [.raise e (progTag rest)]
  | ended : ProgShape rest []

set_option maxHeartbeats 1000000 in
theorem microStep_shape {s s' : State} {th : Th} {ch ch2 : Nat} {op : MOp} {rest : List MOp} {o : Out}
    (hs : microStep s th ch ch2 op rest = some (s', o)) : ProgShape rest (s'.prog th) := by
  cases op <;> simp only [microStep] at hs
  all_goals (try (split at hs))
  all_goals (try (split at hs))
  all_goals (try (split at hs))
  all_goals (try (split at hs))
  all_goals (try (simp at hs))
  all_goals (try (obtain ⟨rfl, -⟩ := hs))
  all_goals (try simp only [setProg_prog, if_true, State.setProg, upd])
  all_goals first
    | exact ProgShape.raised _
    | exact ProgShape.ended
    | exact ProgShape.push [] plainOps_nil
    | exact ProgShape.push [_] (by simp [plainOps, MOp.isEnd, MOp.isSubAdd])
    | exact ProgShape.push [_, _] (by simp [plainOps, MOp.isEnd, MOp.isSubAdd])
    | exact ProgShape.push _ (plainOps_onSendFail _)
    | exact ProgShape.push _ (plainOps_map_handleReply _)
    | exact ProgShape.push _ (handleReplyStep_plain ‹handleReplyStep _ _ _ = some _›)
    | (split <;> first | exact ProgShape.push [] plainOps_nil | exact ProgShape.push [_] (by simp [plainOps, MOp.isEnd, MOp.isSubAdd]))
    | skip


theorem progTag_append_ne_nil (x : List MOp) {rest : List MOp} (h : rest ≠ []) : progTag (x ++ rest) = progTag rest := by
  unfold progTag
  rw [List.getLast?_append]
  cases hr : rest.getLast? with
  | none => simp [List.getLast?_eq_none_iff] at hr; exact absurd hr h
  | some y => simp

theorem progTag_plain {x : List MOp} (h : plainOps x) : progTag x = .mk 0 := by
  unfold progTag
  cases hx : x.getLast? with
  | none => rfl
  | some y =>
    have hm : y ∈ x := List.mem_of_getLast? hx
    have := (h y hm).1
    cases y <;> simp_all [MOp.isEnd]

theorem progTag_cons_ne_nil (op : MOp) {rest : List MOp} (h : rest ≠ []) : progTag (op :: rest) = progTag rest :=
  progTag_append_ne_nil [op] h

/-- the tag of a program is the tag it had before the step, unless the call has ended -/
theorem progTag_shape {op : MOp} {rest pr : List MOp} (h : ProgShape rest pr) :
    progTag pr = progTag (op :: rest) ∨ progTag pr = .mk 0 := by
  cases h with
  | push x hx =>
    by_cases hr : rest = []
    · subst hr; right; simpa using progTag_plain hx
    · left; rw [progTag_append_ne_nil x hr, progTag_cons_ne_nil op hr]
  | raised e =>
    by_cases hr : rest = []
    · subst hr; right; simp [progTag]
    · left; rw [progTag_cons_ne_nil op hr]; simp [progTag]
  | ended => right; rfl

/-- an operation that subscribes receiver `r` to key `k` only occurs in the program of a `subscribe(k, r)` call -/
def TagInv (s : State) : Prop :=
  ∀ th k r op, op ∈ s.prog th → op.isSubAdd k r = true → progTag (s.prog th) = .sub k r

theorem tagInv_shape {k : Key} {r : Rcv} {op : MOp} {rest pr : List MOp} (hsh : ProgShape rest pr)
    (h : ∀ op', op' ∈ op :: rest → op'.isSubAdd k r = true → progTag (op :: rest) = .sub k r) :
    ∀ op', op' ∈ pr → op'.isSubAdd k r = true → progTag pr = .sub k r := by
  intro op' hm ha
  cases hsh with
  | push x hx =>
    rw [List.mem_append] at hm
    rcases hm with hm | hm
    · have := (hx op' hm).2 k r; rw [this] at ha; simp at ha
    · have hr : rest ≠ [] := by intro e; subst e; simp at hm
      rw [progTag_append_ne_nil x hr, ← progTag_cons_ne_nil op hr]
      exact h op' (List.mem_cons_of_mem _ hm) ha
  | raised e =>
    simp only [List.mem_singleton] at hm
    subst hm; simp [MOp.isSubAdd] at ha
  | ended => simp at hm

theorem plainOps_dispatch (src : Peer) (m : Msg) : plainOps (dispatch src m) := by
  cases m with
  | subReq id ob sg b => cases b <;> simp [dispatch, plainOps, MOp.isEnd, MOp.isSubAdd]
  | _ => simp [dispatch, plainOps, MOp.isEnd, MOp.isSubAdd]

theorem tagInv_of_plain {k : Key} {r : Rcv} {pr : List MOp} (h : plainOps pr) :
    ∀ op', op' ∈ pr → op'.isSubAdd k r = true → progTag pr = .sub k r := by
  intro op' hm ha
  have := (h op' hm).2 k r; rw [this] at ha; simp at ha

theorem tagInv_beginProg (c : Ctx) (t : Tid) (n : Nat) (o : Op) (k : Key) (r : Rcv) :
    ∀ op', op' ∈ beginProg c t n o → op'.isSubAdd k r = true → progTag (beginProg c t n o) = .sub k r := by
  intro op' hm ha
  cases o <;> simp only [beginProg] at hm ⊢ <;> (try split at hm) <;> simp at hm
  all_goals (try (rcases hm with rfl | rfl | rfl | rfl <;> simp [MOp.isSubAdd] at ha))
  all_goals (try (rcases hm with rfl | rfl | rfl <;> simp [MOp.isSubAdd] at ha))
  all_goals (try (rcases hm with rfl | rfl <;> simp [MOp.isSubAdd] at ha))
  all_goals (try (obtain ⟨rfl, rfl⟩ := ha))
  all_goals (try (simp_all [progTag]))


/-- what the actions other than `micro` do to the programs: they start a program on an idle thread -/
theorem step_nonmicro_prog {s s' : State} {a : Act} {o : Out} (ha : ∀ th ch ch2, a ≠ .micro th ch ch2)
    (hs : step s a = some (s', o)) (th' : Th) :
    s'.prog th' = s.prog th' ∨
    (s.prog th' = [] ∧ (plainOps (s'.prog th') ∨
        ∃ c t n op, a = .begin c t op ∧ th' = .user c t ∧ s'.prog th' = beginProg c t n op)) := by
  cases a with
  | micro th ch ch2 => exact absurd rfl (ha th ch ch2)
  | begin c t op =>
    simp only [step] at hs
    split at hs
    · rename_i hc
      cases op <;> simp at hs <;> obtain ⟨rfl, -⟩ := hs <;> simp only [setProg_prog, State.setProg, upd] <;>
        (split
         · rename_i e; subst e; right; exact ⟨hc.2, Or.inr ⟨_, _, _, _, rfl, rfl, rfl⟩⟩
         · left; rfl)
    · simp at hs
  | cb c ok =>
    simp only [step] at hs
    split at hs
    · rename_i hc
      split at hs
      · simp at hs
      · split at hs
        · simp at hs
        · rename_i heq
          obtain ⟨-, hpx, -, -, -, hpr⟩ := smSendStep_frame heq
          simp only [Option.some.injEq, Prod.mk.injEq] at hs
          obtain ⟨rfl, -⟩ := hs
          simp only [setProg_prog, hpx, setCtx_prog]
          split
          · rename_i e; subst e; right
            refine ⟨hc.2, Or.inl ?_⟩
            rcases hpr with e | e <;> rw [e]
            · exact plainOps_nil
            · exact plainOps_onSendFail _
          · left; rfl
      · split at hs
        all_goals
          simp at hs; obtain ⟨rfl, -⟩ := hs
          simp only [setProg_prog, setCtx_prog]
          split
          · rename_i e; subst e; right; exact ⟨hc.2, Or.inl (by simp [plainOps, MOp.isEnd, MOp.isSubAdd])⟩
          · left; rfl
    · simp at hs
  | arrive cn cli =>
    simp only [step] at hs
    split at hs
    · rename_i hc
      split at hs
      · simp at hs
      · simp only [Option.some.injEq, Prod.mk.injEq] at hs
        obtain ⟨rfl, -⟩ := hs
        simp only [State.setProg, upd]
        split
        · rename_i e; subst e; right; exact ⟨hc.2.2.1, Or.inl (plainOps_dispatch _ _)⟩
        · left; rfl
    · simp at hs
  | eof cn cli =>
    simp only [step] at hs
    split at hs
    · rename_i hc
      simp only [Option.some.injEq, Prod.mk.injEq] at hs
      obtain ⟨rfl, -⟩ := hs
      simp only [setProg_prog]
      split
      · rename_i e; subst e; right; exact ⟨hc.2.2.1, Or.inl (by simp [plainOps, MOp.isEnd, MOp.isSubAdd])⟩
      · left; rfl
    · simp at hs
  | connect a p =>
    simp only [step] at hs
    split at hs
    · simp only [Option.some.injEq, Prod.mk.injEq] at hs
      obtain ⟨rfl, -⟩ := hs
      left; simp
    · simp at hs
  | stop c =>
    simp only [step] at hs
    split at hs
    · simp only [Option.some.injEq, Prod.mk.injEq] at hs
      obtain ⟨rfl, -⟩ := hs
      left; simp
    · simp at hs

theorem tagInv_step {s s' : State} {a : Act} {o : Out} (h : TagInv s) (hs : step s a = some (s', o)) : TagInv s' := by
  by_cases ha : ∃ th ch ch2, a = .micro th ch ch2
  · obtain ⟨th, ch, ch2, rfl⟩ := ha
    obtain ⟨-, op, rest, hp, hm⟩ := step_micro_inv hs
    have hf := microStep_frame hm
    have hsh := microStep_shape hm
    intro th' k r op' hm' ha'
    by_cases e : th' = th
    · subst e
      exact tagInv_shape hsh (fun op'' h1 h2 => by have := h th' k r op'' (hp ▸ h1) h2; rw [hp] at this; exact this) op' hm' ha'
    · rw [hf.prog_other th' e] at hm' ⊢
      exact h th' k r op' hm' ha'
  · have ha' : ∀ th ch ch2, a ≠ .micro th ch ch2 := fun th ch ch2 e => ha ⟨th, ch, ch2, e⟩
    intro th' k r op' hm' hx
    rcases step_nonmicro_prog ha' hs th' with e | ⟨-, hpl | ⟨c, t, n, op, -, -, e⟩⟩
    · rw [e] at hm' ⊢; exact h th' k r op' hm' hx
    · exact tagInv_of_plain hpl op' hm' hx
    · rw [e] at hm' ⊢; exact tagInv_beginProg c t n op k r op' hm' hx

theorem tagInv_reach {s : State} (h : Reach s) : TagInv s := by
  induction h with
  | init => intro th k r op hm; simp [State.init] at hm
  | step _ hs ih => exact tagInv_step ih hs


/-- receiver `r` is neither a local subscriber of key `k` nor waiting in the pending request of `k` -/
def Absent (cs : CtxSt) (k : Key) (r : Rcv) : Prop :=
  r ∉ cs.lsubs k ∧ ∀ pid po, cs.byKey k = some pid → cs.pobj pid = some po → r ∉ po.rcvs

theorem handleReplyStep_absent {cs cs' : CtxSt} {id : ReqId} {ok : Bool} {more : List MOp} {o : Out} {k : Key} {r : Rcv}
    (hp : PendOk cs) (ha : Absent cs k r) (hs : handleReplyStep cs id ok = some (cs', more, o)) : Absent cs' k r := by
  obtain ⟨ha1, ha2⟩ := ha
  have a1 := hp.byId_some
  have a2 := hp.byId_key
  have a3 := hp.byId_inj
  have a4 := hp.fresh
  have a5 := hp.byKey_some
  have a6 := hp.byKey_obj
  have mu := @mem_uni
  unfold handleReplyStep at hs
  split at hs
  · simp at hs
  · split at hs
    · simp at hs
    · split at hs
      · simp only [Option.some.injEq, Prod.mk.injEq] at hs
        obtain ⟨rfl, -, -⟩ := hs
        constructor <;> (try intros) <;> simp only [upd] at * <;> grind
      · split at hs
        · simp only [Option.some.injEq, Prod.mk.injEq] at hs
          obtain ⟨rfl, -, -⟩ := hs
          constructor <;> (try intros) <;> simp only [upd] at * <;> grind
        · simp only [Option.some.injEq, Prod.mk.injEq] at hs
          obtain ⟨rfl, -, -⟩ := hs
          constructor <;> (try intros) <;> simp only [upd] at * <;> grind

set_option maxHeartbeats 2000000 in
/-- no micro step other than the subscribe steps for `(k, r)` themselves makes `r` a subscriber of `k` -/
theorem absent_micro {s s' : State} {th : Th} {ch ch2 : Nat} {op : MOp} {rest : List MOp} {o : Out} {k : Key} {r : Rcv}
    (hp : PendOk (s.ctx th.ctx)) (hop : op.isSubAdd k r = false) (ha : Absent (s.ctx th.ctx) k r)
    (hs : microStep s th ch ch2 op rest = some (s', o)) : Absent (s'.ctx th.ctx) k r := by
  have ha' := ha
  obtain ⟨ha1, ha2⟩ := ha
  have a1 := hp.byId_some
  have a2 := hp.byId_key
  have a3 := hp.byId_inj
  have a4 := hp.fresh
  have a5 := hp.byKey_some
  have a6 := hp.byKey_obj
  have m1 := @mem_ins
  have m2 : ∀ {a b : Nat} {l : List Nat}, a ∈ l.erase b → a ∈ l := List.mem_of_mem_erase
  cases op <;> simp only [microStep] at hs
  all_goals (try (split at hs))
  all_goals (try (split at hs))
  all_goals (try (split at hs))
  all_goals (try (split at hs))
  all_goals (try (simp at hs))
  all_goals (try (obtain ⟨rfl, -⟩ := hs))
  all_goals (simp only [setProg_ctx, setCtx_ctx, State.setProg, if_true])
  all_goals (try exact ha')
  all_goals (try exact handleReplyStep_absent hp ha' ‹handleReplyStep _ _ _ = some _›)
  all_goals (try (simp only [MOp.isSubAdd, Bool.and_eq_false_iff, decide_eq_false_iff_not] at hop))
  all_goals (try (constructor <;> (try intros) <;> simp only [upd, peerRemovedStep] at * <;> grind))

end QmiModel.PubSub
