import QmiModel.Lemmas.C07Snap
import QmiModel.Lemmas.C08Pend
/-! C07: after an unsubscribe has taken effect, the receiver only gets items of snapshots taken before. -/
namespace QmiModel.PubSub

/-- operations that can put receiver `r` into the table entry / pending request of key `k` on behalf of a subscribe call -/
def MOp.isSubAdd (k : Key) (r : Rcv) : MOp → Bool
  | .addLocal k' r' => k' = k && r' = r
  | .subRemote k' r' => k' = k && r' = r
  | _ => false

def MOp.isEnd : MOp → Bool
  | .ret _ => true
  | .raise _ _ => true
  | _ => false

/-- operations a micro step may push in front of the rest of the program: never a subscribe step, never a `ret` -/
def plainOps (l : List MOp) : Prop := ∀ op ∈ l, op.isEnd = false ∧ ∀ k r, op.isSubAdd k r = false

theorem plainOps_nil : plainOps [] := by simp [plainOps]
theorem plainOps_cons {op : MOp} {l : List MOp} :
    plainOps (op :: l) ↔ (op.isEnd = false ∧ ∀ k r, op.isSubAdd k r = false) ∧ plainOps l := by
  simp [plainOps]
theorem plainOps_append {l m : List MOp} : plainOps (l ++ m) ↔ plainOps l ∧ plainOps m := by
  simp only [plainOps, List.mem_append]
  constructor
  · intro h; exact ⟨fun op ho => h op (Or.inl ho), fun op ho => h op (Or.inr ho)⟩
  · rintro ⟨h1, h2⟩ op (ho | ho)
    · exact h1 op ho
    · exact h2 op ho

theorem plainOps_onSendFail (m : Msg) : plainOps (onSendFail m) := by
  cases m <;> simp [onSendFail, plainOps, MOp.isEnd, MOp.isSubAdd]

theorem plainOps_map_handleReply (l : List ReqId) : plainOps (l.map (fun id => MOp.handleReply id false)) := by
  intro op ho
  simp only [List.mem_map] at ho
  obtain ⟨id, -, rfl⟩ := ho
  simp [MOp.isEnd, MOp.isSubAdd]

theorem handleReplyStep_plain {cs cs' : CtxSt} {id : ReqId} {ok : Bool} {more : List MOp} {o : Out}
    (h : handleReplyStep cs id ok = some (cs', more, o)) : plainOps more := by
  unfold handleReplyStep at h
  split at h
  · simp only [Option.some.injEq, Prod.mk.injEq] at h; obtain ⟨rfl, rfl, rfl⟩ := h; exact plainOps_nil
  · split at h
    · simp only [Option.some.injEq, Prod.mk.injEq] at h; obtain ⟨rfl, rfl, rfl⟩ := h; exact plainOps_nil
    · split at h
      · simp only [Option.some.injEq, Prod.mk.injEq] at h
        obtain ⟨-, rfl, -⟩ := h
        exact plainOps_nil
      · split at h
        · simp only [Option.some.injEq, Prod.mk.injEq] at h
          obtain ⟨-, rfl, -⟩ := h
          simp [plainOps, MOp.isEnd, MOp.isSubAdd]
        · simp only [Option.some.injEq, Prod.mk.injEq] at h
          obtain ⟨-, rfl, -⟩ := h
          exact plainOps_nil

/-- the program of the acting thread after a micro step: new plain operations in front of the old rest, or a single
`raise` carrying the tag of the call, or (after `ret` / `raise`) nothing -/
inductive ProgShape (rest : List MOp) : List MOp → Prop
  | push (x : List MOp) : plainOps x → ProgShape rest (x ++ rest)
  | raised (e : Exc) : ProgShape rest [.raise e (progTag rest)]
  | ended : ProgShape rest []

set_option maxHeartbeats 1000000 in
theorem microStep_shape {s s' : State} {th : Th} {ch ch2 : Nat} {op : MOp} {rest : List MOp} {o : Out}
    (hs : microStep s th ch ch2 op rest = some (s', o)) : ProgShape rest (s'.prog th) := by
  cases op <;> simp only [microStep] at hs
  all_goals (try (split at hs))
  all_goals (try (split at hs))
  all_goals (try (split at hs))
  all_goals (try (split at hs))
  all_goals (try (simp at hs))
  all_goals (try (obtain ⟨rfl, -⟩ := hs))
  all_goals (try simp only [setProg_prog, if_true, State.setProg, upd])
  all_goals first
    | exact ProgShape.raised _
    | exact ProgShape.ended
    | exact ProgShape.push [] plainOps_nil
    | exact ProgShape.push [_] (by simp [plainOps, MOp.isEnd, MOp.isSubAdd])
    | exact ProgShape.push [_, _] (by simp [plainOps, MOp.isEnd, MOp.isSubAdd])
    | exact ProgShape.push _ (plainOps_onSendFail _)
    | exact ProgShape.push _ (plainOps_map_handleReply _)
    | exact ProgShape.push _ (handleReplyStep_plain ‹handleReplyStep _ _ _ = some _›)
    | (split <;> first | exact ProgShape.push [] plainOps_nil | exact ProgShape.push [_] (by simp [plainOps, MOp.isEnd, MOp.isSubAdd]))
    | skip


theorem progTag_append_ne_nil (x : List MOp) {rest : List MOp} (h : rest ≠ []) : progTag (x ++ rest) = progTag rest := by
  unfold progTag
  rw [List.getLast?_append]
  cases hr : rest.getLast? with
  | none => simp [List.getLast?_eq_none_iff] at hr; exact absurd hr h
  | some y => simp

theorem progTag_plain {x : List MOp} (h : plainOps x) : progTag x = .mk 0 := by
  unfold progTag
  cases hx : x.getLast? with
  | none => rfl
  | some y =>
    have hm : y ∈ x := List.mem_of_getLast? hx
    have := (h y hm).1
    cases y <;> simp_all [MOp.isEnd]

theorem progTag_cons_ne_nil (op : MOp) {rest : List MOp} (h : rest ≠ []) : progTag (op :: rest) = progTag rest :=
  progTag_append_ne_nil [op] h

/-- the tag of a program is the tag it had before the step, unless the call has ended -/
theorem progTag_shape {op : MOp} {rest pr : List MOp} (h : ProgShape rest pr) :
    progTag pr = progTag (op :: rest) ∨ progTag pr = .mk 0 := by
  cases h with
  | push x hx =>
    by_cases hr : rest = []
    · subst hr; right; simpa using progTag_plain hx
    · left; rw [progTag_append_ne_nil x hr, progTag_cons_ne_nil op hr]
  | raised e =>
    by_cases hr : rest = []
    · subst hr; right; simp [progTag]
    · left; rw [progTag_cons_ne_nil op hr]; simp [progTag]
  | ended => right; rfl

/-- an operation that subscribes receiver `r` to key `k` only occurs in the program of a `subscribe(k, r)` call -/
def TagInv (s : State) : Prop :=
  ∀ th k r op, op ∈ s.prog th → op.isSubAdd k r = true → progTag (s.prog th) = .sub k r

theorem tagInv_shape {k : Key} {r : Rcv} {op : MOp} {rest pr : List MOp} (hsh : ProgShape rest pr)
    (h : ∀ op', op' ∈ op :: rest → op'.isSubAdd k r = true → progTag (op :: rest) = .sub k r) :
    ∀ op', op' ∈ pr → op'.isSubAdd k r = true → progTag pr = .sub k r := by
  intro op' hm ha
  cases hsh with
  | push x hx =>
    rw [List.mem_append] at hm
    rcases hm with hm | hm
    · have := (hx op' hm).2 k r; rw [this] at ha; simp at ha
    · have hr : rest ≠ [] := by intro e; subst e; simp at hm
      rw [progTag_append_ne_nil x hr, ← progTag_cons_ne_nil op hr]
      exact h op' (List.mem_cons_of_mem _ hm) ha
  | raised e =>
    simp only [List.mem_singleton] at hm
    subst hm; simp [MOp.isSubAdd] at ha
  | ended => simp at hm

theorem plainOps_dispatch (src : Peer) (m : Msg) : plainOps (dispatch src m) := by
  cases m with
  | subReq id ob sg b => cases b <;> simp [dispatch, plainOps, MOp.isEnd, MOp.isSubAdd]
  | _ => simp [dispatch, plainOps, MOp.isEnd, MOp.isSubAdd]

theorem tagInv_of_plain {k : Key} {r : Rcv} {pr : List MOp} (h : plainOps pr) :
    ∀ op', op' ∈ pr → op'.isSubAdd k r = true → progTag pr = .sub k r := by
  intro op' hm ha
  have := (h op' hm).2 k r; rw [this] at ha; simp at ha

theorem tagInv_beginProg (c : Ctx) (t : Tid) (n : Nat) (o : Op) (k : Key) (r : Rcv) :
    ∀ op', op' ∈ beginProg c t n o → op'.isSubAdd k r = true → progTag (beginProg c t n o) = .sub k r := by
  intro op' hm ha
  cases o <;> simp only [beginProg] at hm ⊢ <;> (try split at hm) <;> simp at hm
  all_goals (try (rcases hm with rfl | rfl | rfl | rfl <;> simp [MOp.isSubAdd] at ha))
  all_goals (try (rcases hm with rfl | rfl | rfl <;> simp [MOp.isSubAdd] at ha))
  all_goals (try (rcases hm with rfl | rfl <;> simp [MOp.isSubAdd] at ha))
  all_goals (try (obtain ⟨rfl, rfl⟩ := ha))
  all_goals (try (simp_all [progTag]))


/-- what the actions other than `micro` do to the programs: they start a program on an idle thread -/
theorem step_nonmicro_prog {s s' : State} {a : Act} {o : Out} (ha : ∀ th ch ch2, a ≠ .micro th ch ch2)
    (hs : step s a = some (s', o)) (th' : Th) :
    s'.prog th' = s.prog th' ∨
    (s.prog th' = [] ∧ noDlv (s'.prog th') ∧ (((∃ c, th' = .sock c) ∧ plainOps (s'.prog th')) ∨
        ∃ c t n op, a = .begin c t op ∧ th' = .user c t ∧ s'.prog th' = beginProg c t n op)) := by
  cases a with
  | micro th ch ch2 => exact absurd rfl (ha th ch ch2)
  | begin c t op =>
    simp only [step] at hs
    split at hs
    · rename_i hc
      cases op <;> simp at hs <;> obtain ⟨rfl, -⟩ := hs <;> simp only [setProg_prog, State.setProg, upd] <;>
        (split
         · rename_i e; subst e; right; exact ⟨hc.2, noDlv_beginProg _ _ _ _, Or.inr ⟨_, _, _, _, rfl, rfl, rfl⟩⟩
         · left; rfl)
    · simp at hs
  | cb c ok =>
    simp only [step] at hs
    split at hs
    · rename_i hc
      split at hs
      · simp at hs
      · split at hs
        · simp at hs
        · rename_i heq
          obtain ⟨-, hpx, -, -, -, hpr⟩ := smSendStep_frame heq
          simp only [Option.some.injEq, Prod.mk.injEq] at hs
          obtain ⟨rfl, -⟩ := hs
          simp only [setProg_prog, hpx, setCtx_prog]
          split
          · rename_i e; subst e; right
            rcases hpr with e | e <;> rw [e]
            · exact ⟨hc.2, noDlv_nil, Or.inl ⟨⟨_, rfl⟩, plainOps_nil⟩⟩
            · exact ⟨hc.2, noDlv_onSendFail _, Or.inl ⟨⟨_, rfl⟩, plainOps_onSendFail _⟩⟩
          · left; rfl
      · split at hs
        all_goals
          simp at hs; obtain ⟨rfl, -⟩ := hs
          simp only [setProg_prog, setCtx_prog]
          split
          · rename_i e; subst e; right; exact ⟨hc.2, by simp [noDlv, MOp.isDeliver], Or.inl ⟨⟨_, rfl⟩, by simp [plainOps, MOp.isEnd, MOp.isSubAdd]⟩⟩
          · left; rfl
    · simp at hs
  | arrive cn cli =>
    simp only [step] at hs
    split at hs
    · rename_i hc
      split at hs
      · simp at hs
      · simp only [Option.some.injEq, Prod.mk.injEq] at hs
        obtain ⟨rfl, -⟩ := hs
        simp only [State.setProg, upd]
        split
        · rename_i e; subst e; right; exact ⟨hc.2.2.1, noDlv_dispatch _ _, Or.inl ⟨⟨_, rfl⟩, plainOps_dispatch _ _⟩⟩
        · left; rfl
    · simp at hs
  | eof cn cli =>
    simp only [step] at hs
    split at hs
    · rename_i hc
      simp only [Option.some.injEq, Prod.mk.injEq] at hs
      obtain ⟨rfl, -⟩ := hs
      simp only [setProg_prog]
      split
      · rename_i e; subst e; right; exact ⟨hc.2.2.1, by simp [noDlv, MOp.isDeliver], Or.inl ⟨⟨_, rfl⟩, by simp [plainOps, MOp.isEnd, MOp.isSubAdd]⟩⟩
      · left; rfl
    · simp at hs
  | connect a p =>
    simp only [step] at hs
    split at hs
    · simp only [Option.some.injEq, Prod.mk.injEq] at hs
      obtain ⟨rfl, -⟩ := hs
      left; simp
    · simp at hs
  | routerOk c =>
    simp only [step] at hs
    split at hs
    · simp only [Option.some.injEq, Prod.mk.injEq] at hs
      obtain ⟨rfl, -⟩ := hs
      left; simp
    · simp at hs
  | stopReq c =>
    simp only [step] at hs
    split at hs
    · simp only [Option.some.injEq, Prod.mk.injEq] at hs
      obtain ⟨rfl, -⟩ := hs
      left; simp
    · simp at hs
  | stop c =>
    simp only [step] at hs
    split at hs
    · simp only [Option.some.injEq, Prod.mk.injEq] at hs
      obtain ⟨rfl, -⟩ := hs
      left; simp
    · simp at hs

theorem tagInv_step {s s' : State} {a : Act} {o : Out} (h : TagInv s) (hs : step s a = some (s', o)) : TagInv s' := by
  by_cases ha : ∃ th ch ch2, a = .micro th ch ch2
  · obtain ⟨th, ch, ch2, rfl⟩ := ha
    obtain ⟨-, op, rest, hp, hm⟩ := step_micro_inv hs
    have hf := microStep_frame hm
    have hsh := microStep_shape hm
    intro th' k r op' hm' ha'
    by_cases e : th' = th
    · subst e
      exact tagInv_shape hsh (fun op'' h1 h2 => by have := h th' k r op'' (hp ▸ h1) h2; rw [hp] at this; exact this) op' hm' ha'
    · rw [hf.prog_other th' e] at hm' ⊢
      exact h th' k r op' hm' ha'
  · have ha' : ∀ th ch ch2, a ≠ .micro th ch ch2 := fun th ch ch2 e => ha ⟨th, ch, ch2, e⟩
    intro th' k r op' hm' hx
    rcases step_nonmicro_prog ha' hs th' with e | ⟨-, -, ⟨-, hpl⟩ | ⟨c, t, n, op, -, -, e⟩⟩
    · rw [e] at hm' ⊢; exact h th' k r op' hm' hx
    · exact tagInv_of_plain hpl op' hm' hx
    · rw [e] at hm' ⊢; exact tagInv_beginProg c t n op k r op' hm' hx

theorem tagInv_reach {s : State} (h : Reach s) : TagInv s := by
  induction h with
  | init => intro th k r op hm; simp [State.init] at hm
  | step _ hs ih => exact tagInv_step ih hs


/-- receiver `r` is neither a local subscriber of key `k` nor waiting in the pending request of `k` -/
def Absent (cs : CtxSt) (k : Key) (r : Rcv) : Prop :=
  r ∉ cs.lsubs k ∧ ∀ pid po, cs.byKey k = some pid → cs.pobj pid = some po → r ∉ po.rcvs

theorem handleReplyStep_absent {cs cs' : CtxSt} {id : ReqId} {ok : Bool} {more : List MOp} {o : Out} {k : Key} {r : Rcv}
    (hp : PendOk cs) (ha : Absent cs k r) (hs : handleReplyStep cs id ok = some (cs', more, o)) : Absent cs' k r := by
  obtain ⟨ha1, ha2⟩ := ha
  have a1 := hp.byId_some
  have a2 := hp.byId_key
  have a3 := hp.byId_inj
  have a4 := hp.fresh
  have a5 := hp.byKey_some
  have a6 := hp.byKey_obj
  have mu := @mem_uni
  unfold handleReplyStep at hs
  split at hs
  · simp only [Option.some.injEq, Prod.mk.injEq] at hs; obtain ⟨rfl, rfl, rfl⟩ := hs; exact ⟨ha1, ha2⟩
  · split at hs
    · simp only [Option.some.injEq, Prod.mk.injEq] at hs; obtain ⟨rfl, rfl, rfl⟩ := hs; exact ⟨ha1, ha2⟩
    · split at hs
      · simp only [Option.some.injEq, Prod.mk.injEq] at hs
        obtain ⟨rfl, -, -⟩ := hs
        constructor <;> (try intros) <;> simp only [upd] at * <;> grind
      · split at hs
        · simp only [Option.some.injEq, Prod.mk.injEq] at hs
          obtain ⟨rfl, -, -⟩ := hs
          constructor <;> (try intros) <;> simp only [upd] at * <;> grind
        · simp only [Option.some.injEq, Prod.mk.injEq] at hs
          obtain ⟨rfl, -, -⟩ := hs
          constructor <;> (try intros) <;> simp only [upd] at * <;> grind

theorem Absent.cancel {cs : CtxSt} {k k' : Key} {r : Rcv} (h : Absent cs k r) (g : ReqId → PObj → Bool) :
    Absent { cs with lsubs := upd cs.lsubs k' [],
                     pobj := fun pid => (cs.pobj pid).map (fun po => po.cancelIf (g pid po)) } k r := by
  refine ⟨?_, ?_⟩
  · simp only [upd]
    split
    · simp
    · exact h.1
  · intro pid po hk hpo
    simp only at hk hpo
    cases hp : cs.pobj pid with
    | none => simp [hp] at hpo
    | some po0 =>
      simp only [hp, Option.map_some, Option.some.injEq] at hpo
      subst hpo
      simpa using h.2 pid po0 hk hp

set_option maxHeartbeats 2000000 in
/-- no micro step other than the subscribe steps for `(k, r)` themselves makes `r` a subscriber of `k` -/
theorem absent_micro {s s' : State} {th : Th} {ch ch2 : Nat} {op : MOp} {rest : List MOp} {o : Out} {k : Key} {r : Rcv}
    (hp : PendOk (s.ctx th.ctx)) (hop : op.isSubAdd k r = false) (ha : Absent (s.ctx th.ctx) k r)
    (hs : microStep s th ch ch2 op rest = some (s', o)) : Absent (s'.ctx th.ctx) k r := by
  have ha' := ha
  obtain ⟨ha1, ha2⟩ := ha
  have a1 := hp.byId_some
  have a2 := hp.byId_key
  have a3 := hp.byId_inj
  have a4 := hp.fresh
  have a5 := hp.byKey_some
  have a6 := hp.byKey_obj
  have m1 := @mem_ins
  have m2 : ∀ {a b : Nat} {l : List Nat}, a ∈ l.erase b → a ∈ l := List.mem_of_mem_erase
  cases op <;> simp only [microStep] at hs
  all_goals (try (split at hs))
  all_goals (try (split at hs))
  all_goals (try (split at hs))
  all_goals (try (split at hs))
  all_goals (try (simp at hs))
  all_goals (try (obtain ⟨rfl, -⟩ := hs))
  all_goals (simp only [setProg_ctx, setCtx_ctx, State.setProg, if_true])
  all_goals (try exact ha')
  all_goals (try exact handleReplyStep_absent hp ha' ‹handleReplyStep _ _ _ = some _›)
  all_goals (try exact ha'.cancel _)
  all_goals (try (simp only [MOp.isSubAdd, Bool.and_eq_false_iff, decide_eq_false_iff_not] at hop))
  all_goals (try (constructor <;> (try intros) <;> simp only [upd, peerRemovedStep] at * <;> grind))


/-- the tag carried by the program of a user-level call -/
def opTag (c : Ctx) (t : Tid) (n : Nat) : Op → OpTag
  | .publish ob sg => .pub ⟨.name c, ob, sg⟩ ⟨c, t, n⟩
  | .subscribe pc ob sg r => .sub ⟨.name pc, ob, sg⟩ r
  | .unsubscribe pc ob sg r => .unsub ⟨.name pc, ob, sg⟩ r
  | .removeObj ob => .rm ob
  | .makeObj ob => .mk ob
  | .disconnect p => .disc (.name p)

theorem progTag_beginProg (c : Ctx) (t : Tid) (n : Nat) (o : Op) : progTag (beginProg c t n o) = opTag c t n o := by
  cases o <;> simp only [beginProg, opTag] <;> (try split) <;> simp [progTag]

/-- From the moment an unsubscribe of receiver `r` (context `c`) from key `k` has taken effect, and as long as no
`subscribe(k, r)` call is made: `r` is not a subscriber, and every delivery to `r` for `k` that is still to come
belongs to a snapshot with index below `N` (i.e. taken before that moment). -/
structure Quiet (s : State) (c : Ctx) (k : Key) (r : Rcv) (N : Nat) : Prop where
  tags : ∀ th, th.ctx = c → progTag (s.prog th) ≠ .sub k r
  absent : Absent (s.ctx c) k r
  dlv : ∀ th sid rs p, th.ctx = c → headDlv (s.prog th) = some (sid, rs, k, p) → r ∈ rs → sid < N
  le : N ≤ s.snaps.length

theorem quiet_step {s s' : State} {a : Act} {o : Out} {c : Ctx} {k : Key} {r : Rcv} {N : Nat}
    (hreach : Reach s) (h : Quiet s c k r N) (hs : step s a = some (s', o))
    (hno : ∀ t pc ob sg, a = .begin c t (.subscribe pc ob sg r) → (⟨.name pc, ob, sg⟩ : Key) ≠ k) : Quiet s' c k r N := by
  have htag := tagInv_reach hreach
  have hpend := pendInv_reach hreach
  have hdlv := dlvInv_reach hreach
  by_cases ha : ∃ th ch ch2, a = .micro th ch ch2
  · obtain ⟨th, ch, ch2, rfl⟩ := ha
    obtain ⟨-, op, rest, hp, hm⟩ := step_micro_inv hs
    have hf := microStep_frame hm
    have hsh := microStep_shape hm
    have hrest : noDlv rest := by have := hdlv.tail th; rw [hp] at this; exact this
    refine ⟨?_, ?_, ?_, ?_⟩
    · intro th' hc
      by_cases e : th' = th
      · subst e
        rcases progTag_shape (op := op) hsh with e1 | e1
        · rw [e1, ← hp]; exact h.tags th' hc
        · rw [e1]; simp
      · rw [hf.prog_other th' e]; exact h.tags th' hc
    · by_cases hc : th.ctx = c
      · subst hc
        have hop : op.isSubAdd k r = false := by
          cases hx : op.isSubAdd k r with
          | false => rfl
          | true =>
            have := htag th k r op (by rw [hp]; exact List.mem_cons_self) hx
            exact absurd this (h.tags th rfl)
        exact absent_micro (hpend th.ctx) hop h.absent hm
      · rw [hf.ctx_other c (fun e => hc e.symm)]; exact h.absent
    · intro th' sid rs p hc hx hr
      by_cases e : th' = th
      · subst e
        by_cases hd : op.isDeliver = true
        · cases op <;> simp only [MOp.isDeliver] at hd <;> try contradiction
          rename_i sid0 rs0 k0 p0
          simp only [microStep] at hm
          split at hm
          · simp only [Option.some.injEq, Prod.mk.injEq] at hm
            obtain ⟨rfl, -⟩ := hm
            simp only [setProg_prog, if_true] at hx
            split at hx
            · rw [headDlv_of_noDlv hrest] at hx; simp at hx
            · simp only [headDlv, Option.some.injEq, Prod.mk.injEq] at hx
              obtain ⟨rfl, rfl, rfl, rfl⟩ := hx
              exact h.dlv th' sid0 rs0 p0 hc (by rw [hp]; rfl) (List.mem_of_mem_erase hr)
          · simp at hm
        · by_cases hl : op.isSnapLocal = true
          · cases op <;> simp only [MOp.isSnapLocal] at hl <;> try contradiction
            rename_i k0 p0
            simp only [microStep, Option.some.injEq, Prod.mk.injEq] at hm
            obtain ⟨rfl, -⟩ := hm
            simp only [setProg_prog, if_true] at hx
            split at hx
            · rw [headDlv_of_noDlv hrest] at hx; simp at hx
            · simp only [headDlv, Option.some.injEq, Prod.mk.injEq] at hx
              obtain ⟨rfl, rfl, rfl, rfl⟩ := hx
              subst hc
              exact absurd hr h.absent.1
          · have hd' : op.isDeliver = false := by simpa using hd
            have hl' : op.isSnapLocal = false := by simpa using hl
            obtain ⟨-, -, h3⟩ := microStep_other hd' hl' hrest hm
            rw [headDlv_of_noDlv h3] at hx; simp at hx
      · rw [hf.prog_other th' e] at hx
        exact h.dlv th' sid rs p hc hx hr
    · have : s.snaps.length ≤ s'.snaps.length := by
        by_cases hl : op.isSnapLocal = true
        · cases op <;> simp only [MOp.isSnapLocal] at hl <;> try contradiction
          simp only [microStep, Option.some.injEq, Prod.mk.injEq] at hm
          obtain ⟨rfl, -⟩ := hm
          simp
        · by_cases hd : op.isDeliver = true
          · cases op <;> simp only [MOp.isDeliver] at hd <;> try contradiction
            simp only [microStep] at hm
            split at hm
            · simp only [Option.some.injEq, Prod.mk.injEq] at hm
              obtain ⟨rfl, -⟩ := hm
              simp
            · simp at hm
          · have hd' : op.isDeliver = false := by simpa using hd
            have hl' : op.isSnapLocal = false := by simpa using hl
            obtain ⟨h1, -, -⟩ := microStep_other hd' hl' hrest hm
            rw [h1]; exact Nat.le_refl _
      exact Nat.le_trans h.le this
  · have ha' : ∀ th ch ch2, a ≠ .micro th ch ch2 := fun th ch ch2 e => ha ⟨th, ch, ch2, e⟩
    have hsame := step_nonmicro_tables ha' hs
    have hq := dlvInv_step hdlv (setsInv_reach hreach) hs
    refine ⟨?_, ?_, ?_, ?_⟩
    · intro th' hc
      rcases step_nonmicro_prog ha' hs th' with e | ⟨-, -, ⟨-, hpl⟩ | ⟨c', t, n, op, rfl, rfl, e⟩⟩
      · rw [e]; exact h.tags th' hc
      · rw [progTag_plain hpl]; simp
      · rw [e, progTag_beginProg]
        simp only [Th.ctx] at hc
        subst hc
        cases op <;> simp only [opTag] <;> (try simp)
        rename_i pc ob sg r'
        intro hk hr
        subst hr
        exact hno t pc ob sg rfl hk
    · obtain ⟨h1, h2⟩ := h.absent
      have e := hsame c
      exact ⟨by rw [e.lsubs]; exact h1, by rw [e.byKey, e.pobj]; exact h2⟩
    · intro th' sid rs p hc hx hr
      rcases step_nonmicro_prog ha' hs th' with e | ⟨-, hn, -⟩
      · rw [e] at hx; exact h.dlv th' sid rs p hc hx hr
      · rw [headDlv_of_noDlv hn] at hx; simp at hx
    · have : s'.snaps = s.snaps := by
        cases a with
        | micro th ch ch2 => exact absurd rfl (ha' th ch ch2)
        | begin c' t op =>
          simp only [step] at hs
          split at hs
          · cases op <;> simp at hs <;> obtain ⟨rfl, -⟩ := hs <;> rfl
          · simp at hs
        | cb c' ok =>
          simp only [step] at hs
          split at hs
          · split at hs
            · simp at hs
            · split at hs
              · simp at hs
              · rename_i heq
                obtain ⟨-, -, hsx, -, -, -⟩ := smSendStep_frame heq
                simp only [Option.some.injEq, Prod.mk.injEq] at hs
                obtain ⟨rfl, -⟩ := hs
                simp [hsx]
            · split at hs
              all_goals
                simp at hs; obtain ⟨rfl, -⟩ := hs
                simp
          · simp at hs
        | arrive cn cli =>
          simp only [step] at hs
          split at hs
          · split at hs
            · simp at hs
            · simp only [Option.some.injEq, Prod.mk.injEq] at hs
              obtain ⟨rfl, -⟩ := hs
              simp [State.setProg]
          · simp at hs
        | eof cn cli =>
          simp only [step] at hs
          split at hs
          · simp only [Option.some.injEq, Prod.mk.injEq] at hs
            obtain ⟨rfl, -⟩ := hs
            simp
          · simp at hs
        | connect a p =>
          simp only [step] at hs
          split at hs
          · simp only [Option.some.injEq, Prod.mk.injEq] at hs
            obtain ⟨rfl, -⟩ := hs
            simp
          · simp at hs
        | routerOk c' =>
          simp only [step] at hs
          split at hs
          · simp only [Option.some.injEq, Prod.mk.injEq] at hs
            obtain ⟨rfl, -⟩ := hs
            simp
          · simp at hs
        | stopReq c' =>
          simp only [step] at hs
          split at hs
          · simp only [Option.some.injEq, Prod.mk.injEq] at hs
            obtain ⟨rfl, -⟩ := hs
            simp
          · simp at hs
        | stop c' =>
          simp only [step] at hs
          split at hs
          · simp only [Option.some.injEq, Prod.mk.injEq] at hs
            obtain ⟨rfl, -⟩ := hs
            simp
          · simp at hs
      rw [this]; exact h.le


/-- where a new item in a receiver's queue comes from: a deliver operation at the head of a thread of that context -/
theorem got_step {s s' : State} {a : Act} {o : Out} (hreach : Reach s) (hs : step s a = some (s', o)) (c : Ctx) (r : Rcv) :
    ∀ it ∈ (s'.ctx c).got r, it ∈ (s.ctx c).got r ∨
      ∃ th rs, th.ctx = c ∧ headDlv (s.prog th) = some (it.sid, rs, it.k, it.p) ∧ r ∈ rs := by
  intro it hit
  by_cases ha : ∃ th ch ch2, a = .micro th ch ch2
  · obtain ⟨th, ch, ch2, rfl⟩ := ha
    obtain ⟨-, op, rest, hp, hm⟩ := step_micro_inv hs
    have hrest : noDlv rest := by have := (dlvInv_reach hreach).tail th; rw [hp] at this; exact this
    by_cases hd : op.isDeliver = true
    · cases op <;> simp only [MOp.isDeliver] at hd <;> try contradiction
      rename_i sid0 rs0 k0 p0
      simp only [microStep] at hm
      split at hm
      · rename_i hmem
        simp only [Option.some.injEq, Prod.mk.injEq] at hm
        obtain ⟨rfl, -⟩ := hm
        simp only [setProg_ctx, setCtx_ctx] at hit
        split at hit
        · rename_i e; subst e
          simp only [upd] at hit
          split at hit
          · rename_i e2; subst e2
            rw [List.mem_append, List.mem_singleton] at hit
            rcases hit with hit | rfl
            · left; exact hit
            · right; exact ⟨th, rs0, rfl, by rw [hp]; rfl, hmem⟩
          · left; exact hit
        · left; exact hit
      · simp at hm
    · by_cases hl : op.isSnapLocal = true
      · cases op <;> simp only [MOp.isSnapLocal] at hl <;> try contradiction
        simp only [microStep, Option.some.injEq, Prod.mk.injEq] at hm
        obtain ⟨rfl, -⟩ := hm
        left; exact hit
      · have hd' : op.isDeliver = false := by simpa using hd
        have hl' : op.isSnapLocal = false := by simpa using hl
        obtain ⟨-, h2, -⟩ := microStep_other hd' hl' hrest hm
        rw [h2] at hit; left; exact hit
  · have ha' : ∀ th ch ch2, a ≠ .micro th ch ch2 := fun th ch ch2 e => ha ⟨th, ch, ch2, e⟩
    rw [(step_nonmicro_tables ha' hs c).got] at hit
    left; exact hit

/-- the effective step of `unsubscribe(k, r)` (local: `_remove_local_subscriber`; remote: the lock section of
`_unsubscribe_remote`), made while no `subscribe(k, r)` is in progress, establishes `Quiet` -/
theorem quiet_of_unsub {s s' : State} {th : Th} {ch ch2 : Nat} {o : Out} {k : Key} {r : Rcv} {rest : List MOp}
    (hreach : Reach s)
    (hp : s.prog th = .removeLocal k r :: rest ∨ s.prog th = .unsubRemote k r :: rest)
    (htags : ∀ th', th'.ctx = th.ctx → progTag (s.prog th') ≠ .sub k r)
    (hpend : ∀ pid po, (s.ctx th.ctx).byKey k = some pid → (s.ctx th.ctx).pobj pid = some po → r ∉ po.rcvs)
    (hs : step s (.micro th ch ch2) = some (s', o)) : Quiet s' th.ctx k r s'.snaps.length := by
  obtain ⟨-, op, rest', hp', hm⟩ := step_micro_inv hs
  have hsets := setsInv_reach hreach
  have hdlv' := dlvInv_step (dlvInv_reach hreach) hsets hs
  have hf := microStep_frame hm
  have hsh := microStep_shape hm
  have hnd := hsets.lsubs th.ctx k
  have hpk := pendInv_reach hreach th.ctx
  refine ⟨?_, ?_, ?_, Nat.le_refl _⟩
  · intro th' hc
    by_cases e : th' = th
    · subst e
      rcases progTag_shape (op := op) hsh with e1 | e1
      · rw [e1, ← hp']; exact htags th' rfl
      · rw [e1]; simp
    · rw [hf.prog_other th' e]; exact htags th' hc
  · have a4 := hpk.fresh
    have a5 := hpk.byKey_some
    rcases hp with hp | hp <;> rw [hp] at hp' <;> simp only [List.cons.injEq] at hp' <;> obtain ⟨rfl, rfl⟩ := hp'
    · simp only [microStep, Option.some.injEq, Prod.mk.injEq] at hm
      obtain ⟨rfl, -⟩ := hm
      simp only [setProg_ctx, setCtx_ctx, if_true, Absent, upd]
      refine ⟨?_, hpend⟩
      rw [hnd.mem_erase_iff]; simp
    · simp only [microStep] at hm
      split at hm
      · simp only [Option.some.injEq, Prod.mk.injEq] at hm
        obtain ⟨rfl, -⟩ := hm
        simp only [setProg_ctx, setCtx_ctx, if_true, Absent]
        rename_i e
        exact ⟨by rw [e]; simp, hpend⟩
      · split at hm
        · simp only [Option.some.injEq, Prod.mk.injEq] at hm
          obtain ⟨rfl, -⟩ := hm
          simp only [setProg_ctx, setCtx_ctx, if_true, Absent, upd]
          exact ⟨by rw [hnd.mem_erase_iff]; simp, hpend⟩
        · split at hm
          · simp only [Option.some.injEq, Prod.mk.injEq] at hm
            obtain ⟨rfl, -⟩ := hm
            simp only [setProg_ctx, setCtx_ctx, if_true, Absent, upd]
            exact ⟨by rw [hnd.mem_erase_iff]; simp, hpend⟩
          · simp only [Option.some.injEq, Prod.mk.injEq] at hm
            obtain ⟨rfl, -⟩ := hm
            simp only [setProg_ctx, setCtx_ctx, if_true, Absent, upd]
            refine ⟨by rw [hnd.mem_erase_iff]; simp, ?_⟩
            intro pid po h1 h2
            simp only [if_true, Option.some.injEq] at h1
            subst h1
            simp only [if_true, Option.some.injEq] at h2
            subst h2
            simp
  · intro th' sid rs p _ hx _
    obtain ⟨rs0, h1, -⟩ := hdlv'.wf th' sid rs k p hx
    exact lt_of_getElem?_some h1


theorem step_nonmicro_snaps {s s' : State} {a : Act} {o : Out} (ha' : ∀ th ch ch2, a ≠ .micro th ch ch2)
    (hs : step s a = some (s', o)) : s'.snaps = s.snaps := by
  cases a with
  | micro th ch ch2 => exact absurd rfl (ha' th ch ch2)
  | begin c' t op =>
    simp only [step] at hs
    split at hs
    · cases op <;> simp at hs <;> obtain ⟨rfl, -⟩ := hs <;> rfl
    · simp at hs
  | cb c' ok =>
    simp only [step] at hs
    split at hs
    · split at hs
      · simp at hs
      · split at hs
        · simp at hs
        · rename_i heq
          obtain ⟨-, -, hsx, -, -, -⟩ := smSendStep_frame heq
          simp only [Option.some.injEq, Prod.mk.injEq] at hs
          obtain ⟨rfl, -⟩ := hs
          simp [hsx]
      · split at hs
        all_goals
          simp at hs; obtain ⟨rfl, -⟩ := hs
          simp
    · simp at hs
  | arrive cn cli =>
    simp only [step] at hs
    split at hs
    · split at hs
      · simp at hs
      · simp only [Option.some.injEq, Prod.mk.injEq] at hs
        obtain ⟨rfl, -⟩ := hs
        simp [State.setProg]
    · simp at hs
  | eof cn cli =>
    simp only [step] at hs
    split at hs
    · simp only [Option.some.injEq, Prod.mk.injEq] at hs
      obtain ⟨rfl, -⟩ := hs
      simp
    · simp at hs
  | connect a p =>
    simp only [step] at hs
    split at hs
    · simp only [Option.some.injEq, Prod.mk.injEq] at hs
      obtain ⟨rfl, -⟩ := hs
      simp
    · simp at hs
  | routerOk c' =>
    simp only [step] at hs
    split at hs
    · simp only [Option.some.injEq, Prod.mk.injEq] at hs
      obtain ⟨rfl, -⟩ := hs
      simp
    · simp at hs
  | stopReq c' =>
    simp only [step] at hs
    split at hs
    · simp only [Option.some.injEq, Prod.mk.injEq] at hs
      obtain ⟨rfl, -⟩ := hs
      simp
    · simp at hs
  | stop c' =>
    simp only [step] at hs
    split at hs
    · simp only [Option.some.injEq, Prod.mk.injEq] at hs
      obtain ⟨rfl, -⟩ := hs
      simp
    · simp at hs


/-- the thread an action runs in (`none`: the action touches no program, or — `arrive`/`eof` — is not covered here) -/
def Act.thread? : Act → Option Th
  | .begin c t _ => some (.user c t)
  | .micro th _ _ => some th
  | .cb c _ => some (.sock c)
  | _ => none

def Act.isNet : Act → Bool
  | .arrive .. => true
  | .eof .. => true
  | _ => false

/-- a thread that no action of a run belongs to keeps its program (used for the non-vacuity examples) -/
theorem prog_run_other : ∀ (as : List Act) {s s' : State} (th : Th), run s as = some s' →
    (∀ a ∈ as, a.isNet = false ∧ a.thread? ≠ some th) → s'.prog th = s.prog th := by
  intro as
  induction as with
  | nil => intro s s' th h _; simp only [run, Option.some.injEq] at h; subst h; rfl
  | cons a as ih =>
    intro s s' th h hall
    simp only [run] at h
    split at h
    · rename_i s1 o heq
      rw [ih th h (fun a' ha' => hall a' (List.mem_cons_of_mem _ ha'))]
      obtain ⟨hn, ht⟩ := hall a List.mem_cons_self
      by_cases ha : ∃ th' ch ch2, a = .micro th' ch ch2
      · obtain ⟨th', ch, ch2, rfl⟩ := ha
        obtain ⟨-, op, rest, -, hm⟩ := step_micro_inv heq
        exact (microStep_frame hm).prog_other th (fun e => ht (by simp [Act.thread?, e]))
      · have ha' : ∀ th' ch ch2, a ≠ .micro th' ch ch2 := fun th' ch ch2 e => ha ⟨th', ch, ch2, e⟩
        rcases step_nonmicro_prog ha' heq th with e | ⟨-, -, ⟨-, hpl⟩ | ⟨c, t, n, op, rfl, rfl, -⟩⟩
        · exact e
        · -- a plain program was started on `th`: only `cb` (excluded by `ht`) or `arrive`/`eof` (excluded by `hn`)
          cases a with
          | micro th' ch ch2 => exact absurd rfl (ha' th' ch ch2)
          | arrive cn cli => simp [Act.isNet] at hn
          | eof cn cli => simp [Act.isNet] at hn
          | begin c t op =>
            simp only [step] at heq
            split at heq
            · cases op <;> simp at heq <;> obtain ⟨rfl, -⟩ := heq <;> simp only [setProg_prog, State.setProg, upd] <;>
                (split
                 · rename_i e; exact absurd (by simp [Act.thread?, e]) ht
                 · rfl)
            · simp at heq
          | cb c ok =>
            simp only [step] at heq
            split at heq
            · split at heq
              · simp at heq
              · split at heq
                · simp at heq
                · rename_i heq2
                  obtain ⟨-, hpx, -, -, -, -⟩ := smSendStep_frame heq2
                  simp only [Option.some.injEq, Prod.mk.injEq] at heq
                  obtain ⟨rfl, -⟩ := heq
                  simp only [setProg_prog, hpx, setCtx_prog]
                  split
                  · rename_i e; exact absurd (by simp [Act.thread?, e]) ht
                  · rfl
              · split at heq
                all_goals
                  simp at heq; obtain ⟨rfl, -⟩ := heq
                  simp only [setProg_prog, setCtx_prog]
                  split
                  · rename_i e; exact absurd (by simp [Act.thread?, e]) ht
                  · rfl
            · simp at heq
          | connect a p =>
            simp only [step] at heq
            split at heq
            · simp only [Option.some.injEq, Prod.mk.injEq] at heq
              obtain ⟨rfl, -⟩ := heq
              simp
            · simp at heq
          | routerOk c =>
            simp only [step] at heq
            split at heq
            · simp only [Option.some.injEq, Prod.mk.injEq] at heq
              obtain ⟨rfl, -⟩ := heq
              simp
            · simp at heq
          | stopReq c =>
            simp only [step] at heq
            split at heq
            · simp only [Option.some.injEq, Prod.mk.injEq] at heq
              obtain ⟨rfl, -⟩ := heq
              simp
            · simp at heq
          | stop c =>
            simp only [step] at heq
            split at heq
            · simp only [Option.some.injEq, Prod.mk.injEq] at heq
              obtain ⟨rfl, -⟩ := heq
              simp
            · simp at heq
        · exact absurd rfl ht
    · simp at h

end QmiModel.PubSub
