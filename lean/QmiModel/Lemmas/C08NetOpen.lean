import QmiModel.Lemmas.C07NetReg
/-! C08, network layer — a registered connection end of a live context is open (`OpenInv`): the teardown block of a
socket thread unregisters the peer before it closes the socket, and a closed end is never registered again. -/
namespace QmiModel.PubSub

structure OpenInv (s : State) : Prop where
  popped : ∀ c n' cn cli r, (s.prog (.sock c) = .peerRemoved n' :: .closeConn cn cli :: r ∨ s.prog (.sock c) = .closeConn cn cli :: r) →
    (s.ctx c).peers (srcName s cn cli) ≠ some cn
  regOpen : ∀ cn cli, ((s.conn cn).half cli).isOpen = false → (s.ctx ((s.conn cn).half cli).owner).alive = true →
    (s.ctx ((s.conn cn).half cli).owner).peers (srcName s cn cli) ≠ some cn

theorem openInv_init : OpenInv State.init := by
  constructor
  · intro c n' cn cli r h; simp [State.init] at h
  · intro cn cli _ _; simp [State.init, CtxSt.init]

/-- the name under which a peer is registered is the name of the other end of its connection -/
theorem srcName_of_peers {s : State} (ht : TopoInv s) {c : Ctx} {n : Peer} {cn : ConnId} (h : (s.ctx c).peers n = some cn) :
    n = srcName s cn n.isName := by
  cases n with
  | name p => obtain ⟨-, -, h3⟩ := ht.peersN c p cn h; simp [srcName, Peer.isName, ← h3, Conn.half]
  | alias m => obtain ⟨h1, -, -⟩ := ht.peersA c m cn h; simp [srcName, Peer.isName, h1]

theorem openInv_micro {s s' : State} {th : Th} {ch ch2 : Nat} {op : MOp} {rest : List MOp} {o : Out}
    (h : OpenInv s) (ht : TopoInv s) (htd : TdInv s) (hrg : RegInv s) (hown0 : OwnInv s)
    (hprog : s.prog th = op :: rest) (hs : microStep s th ch ch2 op rest = some (s', o)) : OpenInv s' := by
  have hf := microStep_frame hs
  have hown := microStep_owner hs
  have hsrc := srcName_congr hown
  have huser : ∀ c t, th = .user c t → op.isTd = false := by
    intro c t e
    have := htd.user c t
    rw [← e, hprog] at this
    exact this op List.mem_cons_self
  -- peers of a context change only when its own socket thread pops a peer
  have hpeers : ∀ c n, th ≠ .sock c → (s'.ctx c).peers n = (s.ctx c).peers n := by
    intro c n hne
    refine microStep_peers_ne hs ?_
    by_cases ec : c = th.ctx
    · left
      cases th with
      | user c0 t0 => intro ho; have := huser c0 t0 rfl; rw [ho] at this; simp [MOp.isTd] at this
      | sock c0 => simp only [Th.ctx] at ec; subst ec; exact absurd rfl hne
    · exact Or.inr ec
  constructor
  · intro c n' cn cli r hp
    rw [hsrc]
    by_cases e : Th.sock c = th
    · subst e
      have hsh := htd.sock c
      rw [hprog] at hsh
      have hnew : ∀ op' ∈ s'.prog (.sock c), op'.isTd = true → op' ∈ rest := microStep_noTd hs
      have hcl : MOp.closeConn cn cli ∈ rest := by
        rcases hp with hp | hp <;> exact hnew _ (by rw [hp]; simp) rfl
      generalize hl : op :: rest = l at hsh
      cases hsh with
      | free hfree => subst hl; have := hfree _ (List.mem_cons_of_mem _ hcl); simp [MOp.isTd] at this
      | pop n0 cn0 cli0 r0 hr0 =>
        simp only [List.cons.injEq] at hl; obtain ⟨rfl, rfl⟩ := hl
        obtain ⟨p1, p2⟩ := hrg.pop c _ _ _ _ _ hprog
        have hcc : cn = cn0 ∧ cli = cli0 := by
          simp only [List.mem_cons] at hcl
          rcases hcl with h0 | h0 | h0
          · cases h0
          · simpa using h0
          · have := hr0 _ h0; simp [MOp.isTd] at this
        obtain ⟨rfl, rfl⟩ := hcc
        have hn := srcName_of_peers ht p1
        rw [← p2] at hn
        simp only [microStep, Option.some.injEq, Prod.mk.injEq] at hs
        obtain ⟨rfl, -⟩ := hs
        rw [← hn]
        simp only [setProg_ctx, setCtx_ctx, Th.ctx, if_true, upd]
        simp
      | rem n0 cn0 cli0 r0 hr0 =>
        simp only [List.cons.injEq] at hl; obtain ⟨rfl, rfl⟩ := hl
        have hcc : cn = cn0 ∧ cli = cli0 := by
          simp only [List.mem_cons] at hcl
          rcases hcl with h0 | h0
          · simpa using h0
          · have := hr0 _ h0; simp [MOp.isTd] at this
        obtain ⟨rfl, rfl⟩ := hcc
        have := h.popped c n0 cn cli r0 (Or.inl hprog)
        rw [microStep_peers_ne hs (Or.inl (by simp))]
        exact this
      | close cn0 cli0 r0 hr0 =>
        simp only [List.cons.injEq] at hl; obtain ⟨rfl, rfl⟩ := hl
        have := hr0 _ hcl; simp [MOp.isTd] at this
    · rw [hf.prog_other _ e] at hp
      rw [hpeers c _ (fun x => e x.symm)]
      exact h.popped c n' cn cli r hp
  · intro cn cli hcl hal
    rw [hown, hsrc]
    rw [hown, (microStep_fields hs).alive] at hal
    by_cases hc : op = .closeConn cn cli
    · subst hc
      -- this very end is being closed by its owner's socket thread
      have hmem : MOp.closeConn cn cli ∈ s.prog th := by rw [hprog]; exact List.mem_cons_self
      have ho := (hown0.close th cn cli hmem).2
      have hth : th = .sock ((s.conn cn).half cli).owner := by
        cases th with
        | user c0 t0 => have := huser c0 t0 rfl; simp [MOp.isTd] at this
        | sock c0 => simp only [Th.ctx] at ho; rw [ho]
      rw [microStep_peers_ne hs (Or.inl (by simp))]
      exact h.popped _ (.name 0) cn cli rest (Or.inr (by rw [← hth]; exact hprog))
    · have hcl0 : ((s.conn cn).half cli).isOpen = false := by
        by_cases hc' : op.isClose = true
        · cases op <;> simp only [MOp.isClose] at hc' <;> try contradiction
          rename_i cn0 cli0
          simp only [microStep, Option.some.injEq, Prod.mk.injEq] at hs
          obtain ⟨rfl, -⟩ := hs
          simp only [setProg_conn, upd] at hcl
          split at hcl
          · rename_i e; subst e
            rw [half_setHalf'] at hcl
            split at hcl
            · rename_i e; subst e; exact absurd rfl hc
            · exact hcl
          · exact hcl
        · rw [(microStep_fields hs).conn (by simpa using hc')] at hcl; exact hcl
      have := h.regOpen cn cli hcl0 hal
      intro hp
      exact this (microStep_peers hs _ _ _ hp)

theorem OpenInv.of {s s' : State} (h : OpenInv s)
    (hprog : ∀ c, s'.prog (.sock c) = s.prog (.sock c) ∨
      (∀ n' cn cli r, s'.prog (.sock c) ≠ .peerRemoved n' :: .closeConn cn cli :: r ∧ s'.prog (.sock c) ≠ .closeConn cn cli :: r))
    (hpe : ∀ c, (s'.ctx c).peers = (s.ctx c).peers) (hal : ∀ c, (s'.ctx c).alive = (s.ctx c).alive)
    (hown : ∀ cn cli, ((s'.conn cn).half cli).owner = ((s.conn cn).half cli).owner)
    (hop : ∀ cn cli, ((s'.conn cn).half cli).isOpen = ((s.conn cn).half cli).isOpen) : OpenInv s' := by
  constructor
  · intro c n' cn cli r hp
    rw [hpe, srcName_congr hown]
    rcases hprog c with e | e
    · rw [e] at hp; exact h.popped c n' cn cli r hp
    · rcases hp with hp | hp
      · exact absurd hp (e n' cn cli r).1
      · exact absurd hp (e n' cn cli r).2
  · intro cn cli hcl hl
    rw [hop] at hcl
    rw [hown, hal] at hl
    rw [hown, hpe, srcName_congr hown]
    exact h.regOpen cn cli hcl hl

theorem setProg_sock_open (s : State) (c : Ctx) (pr : List MOp)
    (h : ∀ n' cn cli r, pr ≠ .peerRemoved n' :: .closeConn cn cli :: r ∧ pr ≠ .closeConn cn cli :: r) (x : Ctx) :
    (s.setProg (.sock c) pr).prog (.sock x) = s.prog (.sock x) ∨
      (∀ n' cn cli r, (s.setProg (.sock c) pr).prog (.sock x) ≠ .peerRemoved n' :: .closeConn cn cli :: r ∧
        (s.setProg (.sock c) pr).prog (.sock x) ≠ .closeConn cn cli :: r) := by
  simp only [setProg_prog]
  split
  · exact Or.inr h
  · exact Or.inl rfl

theorem openInv_nstep {s s' : State} (h : OpenInv s) (ht : TopoInv s) (hown0 : OwnInv s) (hs : NStep s s') : OpenInv s' := by
  cases hs
  case beginPub c t ob sg _ _ =>
    refine h.of (fun x => Or.inl ?_) (fun _ => rfl) (fun _ => rfl) (fun _ _ => rfl) (fun _ _ => rfl)
    simp only [setProg_prog]; rw [if_neg (by simp)]
  case beginOther c t op _ _ _ =>
    refine h.of (fun x => Or.inl ?_) (fun _ => rfl) (fun _ => rfl) (fun _ _ => rfl) (fun _ _ => rfl)
    simp only [setProg_prog]; rw [if_neg (by simp)]
  case routerOk => exact h.of (fun _ => Or.inl rfl) (fun _ => rfl) (fun _ => rfl) (fun _ _ => rfl) (fun _ _ => rfl)
  case stopReq c _ =>
    exact h.of (fun _ => Or.inl rfl) (setCtx_peers_of_eq s c _ rfl) (setCtx_alive_of_eq s c _ rfl) (fun _ _ => rfl) (fun _ _ => rfl)
  case cbUnknown c d m q _ _ _ _ =>
    refine h.of ?_ (setCtx_peers_of_eq s c _ rfl) (setCtx_alive_of_eq s c _ rfl) (fun _ _ => rfl) (fun _ _ => rfl)
    refine setProg_sock_open (s.setCtx c _) c _ ?_
    intro n' cn cli r; cases m <;> simp [onSendFail]
  case cbFail c d m q cn _ _ _ _ _ =>
    refine h.of ?_ (setCtx_peers_of_eq s c _ rfl) (setCtx_alive_of_eq s c _ rfl) (fun _ _ => rfl) (fun _ _ => rfl)
    refine setProg_sock_open (s.setCtx c _) c _ ?_
    intro n' cn cli r; cases m <;> simp [onSendFail]
  case cbDiscNone c n t q _ _ _ _ =>
    refine h.of ?_ (setCtx_peers_of_eq s c _ rfl) (setCtx_alive_of_eq s c _ rfl) (fun _ _ => rfl) (fun _ _ => rfl)
    refine setProg_sock_open (s.setCtx c _) c _ ?_
    intro n' cn cli r; simp
  case cbDisc c n t q cn _ _ _ _ =>
    refine h.of ?_ (setCtx_peers_of_eq s c _ rfl) (setCtx_alive_of_eq s c _ rfl) (fun _ _ => rfl) (fun _ _ => rfl)
    refine setProg_sock_open (s.setCtx c _) c _ ?_
    intro n' cn cli r; simp
  case cbSent c d m q cn _ _ _ _ =>
    refine h.of ?_ (setCtx_peers_of_eq s c _ rfl) (setCtx_alive_of_eq s c _ rfl) ?_ ?_
    · refine setProg_sock_open ({ (s.setCtx c _) with conn := _ }) c _ ?_
      intro n' cn cli r; simp
    · intro cn' cli'; simp only [setProg_conn, upd]; split
      · rename_i e; subst e; exact sentConn_owner _ _ _ _
      · rfl
    · intro cn' cli'; simp only [setProg_conn, upd]; split
      · rename_i e; subst e; exact sentConn_isOpen _ _ _ _
      · rfl
  case arrive cn cli m ms _ _ _ _ _ =>
    refine h.of ?_ (fun _ => rfl) (fun _ => rfl) ?_ ?_
    · refine setProg_sock_open ({ s with conn := upd s.conn cn ((s.conn cn).setHalf cli (readHalf ((s.conn cn).half cli) m ms)) }) _ _ ?_
      intro n' cn0 cli0 r
      cases m with
      | subReq id ob sg b => cases b <;> simp [dispatch]
      | _ => simp [dispatch]
    · intro cn' cli'; simp only [setProg_conn, upd]; split
      · rename_i e; subst e; rw [half_setHalf']; split
        · rename_i e; subst e; exact readHalf_owner _ _ _
        · rfl
      · rfl
    · intro cn' cli'; simp only [setProg_conn, upd]; split
      · rename_i e; subst e; rw [half_setHalf']; split
        · rename_i e; subst e; exact readHalf_isOpen _ _ _
        · rfl
      · rfl
  case eof cn cli _ _ _ _ _ _ =>
    refine h.of ?_ (fun _ => rfl) (fun _ => rfl) (fun _ _ => rfl) (fun _ _ => rfl)
    refine setProg_sock_open s _ _ ?_
    intro n' cn0 cli0 r; simp
  case connect a p hne hal hpl hnone =>
    show OpenInv (connState s a p)
    have hsrc : ∀ cn cli, cn ≠ s.nextConn → srcName (connState s a p) cn cli = srcName s cn cli := by
      intro cn cli e; cases cli <;> simp [srcName, connState_conn, e]
    have hal' : ∀ x, ((connState s a p).ctx x).alive = (s.ctx x).alive := by
      intro x; simp only [connState, setCtx_ctx]; (repeat' split) <;> simp_all
    constructor
    · intro c n' cn cli r hp
      rw [connState_prog] at hp
      have hmem : MOp.closeConn cn cli ∈ s.prog (.sock c) := by rcases hp with hp | hp <;> rw [hp] <;> simp
      have hlt := (hown0.close _ cn cli hmem).1
      have hne' : cn ≠ s.nextConn := Nat.ne_of_lt hlt
      have := h.popped c n' cn cli r hp
      rw [hsrc cn cli hne', connState_peers s hne]
      split
      · intro e; simp only [Option.some.injEq] at e; exact hne' e.symm
      · split
        · intro e; simp only [Option.some.injEq] at e; exact hne' e.symm
        · exact this
    · intro cn cli hcl hl
      rw [connState_conn] at hcl hl
      by_cases e : cn = s.nextConn
      · subst e; cases cli <;> simp [newConn, Conn.half] at hcl
      · simp only [e, if_false] at hcl hl
        rw [hal'] at hl
        have := h.regOpen cn cli hcl hl
        rw [hsrc cn cli e, connState_conn, if_neg e, connState_peers s hne]
        split
        · intro e2; simp only [Option.some.injEq] at e2; exact e e2.symm
        · split
          · intro e2; simp only [Option.some.injEq] at e2; exact e e2.symm
          · exact this
  case stop c hal =>
    have hsrc : ∀ cn cli, srcName { (s.setCtx c { (s.ctx c) with alive := false, loopQ := [] }) with conn := fun cn => stopConn c (s.conn cn) } cn cli
        = srcName s cn cli := srcName_congr (fun cn cli => stopConn_owner c (s.conn cn) cli)
    constructor
    · intro c' n' cn cli r hp
      rw [hsrc]
      have := h.popped c' n' cn cli r hp
      simp only [setCtx_ctx]; split
      · rename_i e; subst e; exact this
      · exact this
    · intro cn cli hcl hl
      rw [hsrc]
      simp only [stopConn_owner, setCtx_ctx] at hl ⊢
      simp only [stopConn_isOpen] at hcl
      split at hl
      · cases hl
      · rename_i e
        rw [if_neg e] at hcl
        rw [if_neg e]
        exact h.regOpen cn cli hcl hl

theorem openInv_reach {s : State} (h : Reach s) : OpenInv s := by
  induction h with
  | init => exact openInv_init
  | step hr hs ih =>
    rename_i s0 s1 a o
    by_cases ha : ∃ th ch ch2, a = .micro th ch ch2
    · obtain ⟨th, ch, ch2, rfl⟩ := ha
      obtain ⟨-, op, rest, hp, hm⟩ := step_micro_inv hs
      exact openInv_micro ih (topoInv_reach hr) (tdInv_reach hr) (regInv_reach hr) (ownInv_reach hr) hp hm
    · exact openInv_nstep ih (topoInv_reach hr) (ownInv_reach hr) (step_nonmicro_cases (fun th ch ch2 e => ha ⟨th, ch, ch2, e⟩) hs)

/-- **a registered connection end of a live context is open** -/
theorem registered_is_open {s : State} (h : Reach s) {c : Ctx} {n : Peer} {cn : ConnId}
    (hal : (s.ctx c).alive = true) (hp : (s.ctx c).peers n = some cn) : ((s.conn cn).half n.isName).isOpen = true := by
  have ht := topoInv_reach h
  have ho := (ownInv_reach h).peers c n cn hp
  cases hop : ((s.conn cn).half n.isName).isOpen with
  | true => rfl
  | false =>
    exfalso
    have := (openInv_reach h).regOpen cn n.isName hop (by rw [ho.2]; exact hal)
    rw [ho.2, ← srcName_of_peers ht hp] at this
    exact this hp

end QmiModel.PubSub
