import QmiModel.Lemmas.C13Basic
/-!
# C13 helper lemmas, part 2: what every read-family call does to the stream accounting
-/
namespace QmiModel.Transport

/-- the OS lost one datagram `l` (UDP datagram larger than the receive size); everything else kept its order -/
structure Lost (s s' : St) : Prop where
  same : Same s s'
  more : ∃ l extra, s'.log = s.log ++ [(Tag.lost, l)] ∧ s'.buf = s.buf ++ extra ∧
          extra ++ (l ++ devBytes s'.dev) = devBytes s.dev

theorem Lost.of_ext {a b c : St} (h1 : Ext a b) (h2 : Lost b c) : Lost a c := by
  obtain ⟨x, hx1, hx2⟩ := h1.more
  obtain ⟨l, y, hl, hy1, hy2⟩ := h2.more
  refine ⟨h1.same.trans h2.same, l, x ++ y, ?_, ?_, ?_⟩
  · rw [hl, h1.log]
  · rw [hy1, hx1, List.append_assoc]
  · rw [List.append_assoc, hy2, hx2]

/-- the accounting contract of a call of the read family (`read`, `read_until`, `read_until_timeout`) -/
def ReadSpec (s : St) (r : St × Out) : Prop :=
  match r.2 with
  | .ret bs => Same s r.1 ∧ r.1.log = s.log ++ [(Tag.ret, bs)] ∧
               bs ++ (r.1.buf ++ devBytes r.1.dev) = s.buf ++ devBytes s.dev
  | .exc .runtime => Lost s r.1
  | .exc _ => Ext s r.1
  | .unit => False

theorem ReadSpec.of_ext {a b : St} {r : St × Out} (h1 : Ext a b) (h2 : ReadSpec b r) : ReadSpec a r := by
  obtain ⟨s', o⟩ := r
  cases o with
  | unit => exact h2
  | ret bs =>
    simp only [ReadSpec] at h2 ⊢
    obtain ⟨hs, hl, hb⟩ := h2
    exact ⟨h1.same.trans hs, by rw [hl, h1.log], by rw [hb, h1.buf_dev]⟩
  | exc e =>
    cases e <;> simp only [ReadSpec] at h2 ⊢
    all_goals first | exact h1.trans h2 | exact Lost.of_ext h1 h2

theorem takeBuf_spec (s : St) (n : Nat) : ReadSpec s (takeBuf s n) := by
  refine ⟨⟨rfl, rfl, rfl, rfl, rfl⟩, rfl, ?_⟩
  show s.buf.take n ++ (s.buf.drop n ++ devBytes s.dev) = s.buf ++ devBytes s.dev
  rw [← List.append_assoc, List.take_append_drop]

theorem takeAll_spec (s : St) : ReadSpec s (takeAll s) := by
  refine ⟨⟨rfl, rfl, rfl, rfl, rfl⟩, rfl, ?_⟩
  show s.buf ++ ([] ++ devBytes s.dev) = s.buf ++ devBytes s.dev
  rfl

/-! glue between `readFromSocket_spec` and `Ext`/`Lost` -/

theorem ext_quiet {s0 s1 : St} (hs : Same s0 s1) (hb : s1.buf = s0.buf) (hl : s1.log = s0.log)
    (hd : devBytes s1.dev = devBytes s0.dev) : Ext s0 s1 :=
  ⟨hs, hl, [], by simp [hb], by simp [hd]⟩

theorem ext_more {s0 s1 : St} {b : Bytes} (hs : Same s0 s1) (hb : s1.buf = s0.buf) (hl : s1.log = s0.log)
    (hd : b ++ devBytes s1.dev = devBytes s0.dev) : Ext s0 { s1 with buf := s1.buf ++ b } :=
  ⟨⟨hs.kind, hs.minP, hs.maxP, hs.isOpen, hs.wlog⟩, hl, b, by simp [hb], hd⟩

theorem lost_one {s0 s1 : St} {l : Bytes} (hs : Same s0 s1) (hb : s1.buf = s0.buf)
    (hl : s1.log = s0.log ++ [(Tag.lost, l)]) (hd : l ++ devBytes s1.dev = devBytes s0.dev) : Lost s0 s1 :=
  ⟨hs, l, [], hl, by simp [hb], by simpa using hd⟩

/-! ## socket `read` -/

theorem sockReadLoop_spec (n : Nat) (timeout : Option Int) (tstart : Nat) :
    ∀ (fuel : Nat) (tremain : Option Int) (s : St), ReadSpec s (sockReadLoop n timeout tstart fuel tremain s) := by
  intro fuel
  induction fuel with
  | zero =>
    intro tremain s
    simp only [sockReadLoop]
    split
    · exact takeBuf_spec s n
    · exact Ext.refl s
  | succ fuel ih =>
    intro tremain s
    simp only [sockReadLoop]
    split
    · exact takeBuf_spec s n
    · have hE := setTimeout_ext s tremain
      generalize setTimeout s tremain = st at *
      obtain ⟨s0, ok⟩ := st
      cases ok with
      | false => exact hE
      | true =>
        simp only
        have hR := readFromSocket_spec s0 (max (n - s.buf.length) s.minP)
        generalize readFromSocket s0 (max (n - s.buf.length) s.minP) = rr at *
        obtain ⟨s1, ro⟩ := rr
        obtain ⟨hS, hB, hM⟩ := hR
        cases ro with
        | timeout => exact hE.trans (ext_quiet hS hB hM.1 hM.2)
        | eof => exact hE.trans (ext_quiet hS hB hM.1 hM.2)
        | exhausted => exact hE.trans (ext_quiet hS hB hM.1 hM.2)
        | runtime =>
          obtain ⟨l, hl, hd⟩ := hM
          exact Lost.of_ext hE (lost_one hS hB hl hd)
        | ok b =>
          have hX : Ext s { s1 with buf := s1.buf ++ b } := hE.trans (ext_more hS hB hM.1 hM.2.2)
          simp only
          cases timeout with
          | none => exact ReadSpec.of_ext hX (ih _ _)
          | some t =>
            simp only
            split
            · exact hX
            · exact ReadSpec.of_ext hX (ih _ _)

theorem sockRead_spec (s : St) (n : Nat) (t : Option Int) : ReadSpec s (sockRead s n t) := by
  simp only [sockRead]
  split
  · exact Ext.refl s
  · exact sockReadLoop_spec _ _ _ _ _ _

/-! ## socket `read_until` -/

theorem sockUntilLoop_spec (term : Bytes) (timeout : Option Int) (tstart : Nat) :
    ∀ (fuel : Nat) (tremain : Option Int) (s : St), ReadSpec s (sockUntilLoop term timeout tstart fuel tremain s) := by
  intro fuel
  induction fuel with
  | zero => intro tremain s; exact Ext.refl s
  | succ fuel ih =>
    intro tremain s
    simp only [sockUntilLoop]
    have hE := setTimeout_ext s tremain
    generalize setTimeout s tremain = st at *
    obtain ⟨s0, ok⟩ := st
    cases ok with
    | false => exact hE
    | true =>
      simp only
      have hR := readFromSocket_spec s0 s.maxP
      generalize readFromSocket s0 s.maxP = rr at *
      obtain ⟨s1, ro⟩ := rr
      obtain ⟨hS, hB, hM⟩ := hR
      cases ro with
      | timeout => exact hE.trans (ext_quiet hS hB hM.1 hM.2)
      | eof => exact hE.trans (ext_quiet hS hB hM.1 hM.2)
      | exhausted => exact hE.trans (ext_quiet hS hB hM.1 hM.2)
      | runtime =>
        obtain ⟨l, hl, hd⟩ := hM
        exact Lost.of_ext hE (lost_one hS hB hl hd)
      | ok b =>
        have hX : Ext s { s1 with buf := s1.buf ++ b } := hE.trans (ext_more hS hB hM.1 hM.2.2)
        simp only
        split
        · exact ReadSpec.of_ext hX (takeBuf_spec _ _)
        · cases timeout with
          | none => exact ReadSpec.of_ext hX (ih _ _)
          | some t =>
            simp only
            split
            · exact hX
            · exact ReadSpec.of_ext hX (ih _ _)

theorem sockUntil_spec (s : St) (term : Bytes) (t : Option Int) : ReadSpec s (sockUntil s term t) := by
  simp only [sockUntil]
  split
  · exact takeBuf_spec _ _
  · split
    · exact Ext.refl s
    · exact sockUntilLoop_spec _ _ _ _ _ _

/-! ## socket `read_until_timeout` -/

theorem sockRut_spec (s : St) (n : Nat) (t : Option Int) : ReadSpec s (sockRut s n t) := by
  have h := sockRead_spec s n t
  simp only [sockRut]
  generalize sockRead s n t = r at *
  obtain ⟨s1, o⟩ := r
  cases o with
  | unit => exact h
  | ret bs => exact h
  | exc e =>
    cases e with
    | timeout => exact ReadSpec.of_ext h (takeBuf_spec s1 n)
    | eof =>
      simp only
      split
      · exact h
      · exact ReadSpec.of_ext h (takeAll_spec s1)
    | _ => exact h

/-! ## serial -/

theorem serRead_spec (s : St) (size : Nat) :
    Same s (serRead s size).1 ∧ (serRead s size).1.buf = s.buf ∧ (serRead s size).1.log = s.log ∧
    match (serRead s size).2 with
    | some b => b ++ devBytes (serRead s size).1.dev = devBytes s.dev ∧ b.length ≤ size
    | none => devBytes (serRead s size).1.dev = devBytes s.dev := by
  unfold serRead
  split
  · exact ⟨⟨rfl, rfl, rfl, rfl, rfl⟩, rfl, rfl, rfl, by simp⟩
  · have h1 := popDev_bytes false size s.dev
    have h2 := popDev_stream_le size s.dev
    have h3 := popDev_stream_no_oserr size s.dev
    generalize popDev false size s.dev = r at *
    obtain ⟨e, rx, d'⟩ := r
    cases rx with
    | data b => exact ⟨⟨rfl, rfl, rfl, rfl, rfl⟩, rfl, rfl, by simpa [rxBytes] using h1, h2 b rfl⟩
    | timeout => exact ⟨⟨rfl, rfl, rfl, rfl, rfl⟩, rfl, rfl, by simpa [rxBytes] using h1, by simp⟩
    | eof => exact ⟨⟨rfl, rfl, rfl, rfl, rfl⟩, rfl, rfl, by simpa [rxBytes] using h1, by simp⟩
    | oserr l => exact absurd rfl (h3 l)
    | exhausted => exact ⟨⟨rfl, rfl, rfl, rfl, rfl⟩, rfl, rfl, by simpa [rxBytes] using h1⟩

theorem inWaiting_ext (s : St) : Ext s (inWaiting s).1 :=
  ⟨⟨rfl, rfl, rfl, rfl, rfl⟩, rfl, [], by simp [inWaiting], by simp [inWaiting]⟩

theorem serReadLoop_ext (n : Nat) (timeout : Option Int) (tstart : Nat) :
    ∀ (fuel : Nat) (s : St), Ext s (serReadLoop n timeout tstart fuel s).1 := by
  intro fuel
  induction fuel with
  | zero => intro s; exact Ext.refl s
  | succ fuel ih =>
    intro s
    simp only [serReadLoop]
    have hR := serRead_spec s (n - s.buf.length)
    generalize serRead s (n - s.buf.length) = rr at *
    obtain ⟨s1, ob⟩ := rr
    obtain ⟨hS, hB, hL, hM⟩ := hR
    cases ob with
    | none => exact ext_quiet hS hB hL hM
    | some b =>
      have hX : Ext s { s1 with buf := s1.buf ++ b } := ext_more hS hB hL hM.1
      simp only
      split
      · exact hX
      · cases timeout with
        | none => exact hX.trans (ih _)
        | some t =>
          simp only
          split
          · exact hX
          · exact hX.trans (ih _)

theorem serReadFinish_spec (s : St) (n : Nat) : ReadSpec s (serReadFinish s n) := by
  simp only [serReadFinish]
  split
  · exact Ext.refl s
  · split
    · exact Ext.refl s
    · exact takeAll_spec s

theorem serialRead_spec (s : St) (n : Nat) (t : Option Int) : ReadSpec s (serialRead s n t) := by
  simp only [serialRead]
  split
  · exact Ext.refl s
  · split
    · exact takeBuf_spec s n
    · split
      · have hI := inWaiting_ext s
        generalize inWaiting s = iw at *
        obtain ⟨s1, avail⟩ := iw
        simp only
        split
        · have hR := serRead_spec s1 (n - s.buf.length)
          generalize serRead s1 (n - s.buf.length) = rr at *
          obtain ⟨s2, ob⟩ := rr
          obtain ⟨hS, hB, hL, hM⟩ := hR
          cases ob with
          | none => exact hI.trans (ext_quiet hS hB hL hM)
          | some b =>
            simp only
            exact ReadSpec.of_ext (hI.trans (ext_more hS hB hL hM.1)) (serReadFinish_spec _ _)
        · exact ReadSpec.of_ext hI (serReadFinish_spec _ _)
      · have hL := serReadLoop_ext n t s.clock (fuelOf s.dev) s
        generalize serReadLoop n t s.clock (fuelOf s.dev) s = lr at *
        obtain ⟨s1, ex⟩ := lr
        cases ex with
        | true => exact hL
        | false => exact ReadSpec.of_ext hL (serReadFinish_spec _ _)

theorem serUntilLoop_spec (term : Bytes) (timeout : Option Int) (tstart : Nat) :
    ∀ (fuel : Nat) (tremain : Option Int) (s : St), ReadSpec s (serUntilLoop term timeout tstart fuel tremain s) := by
  intro fuel
  induction fuel with
  | zero =>
    intro tremain s
    simp only [serUntilLoop]
    split <;> exact Ext.refl s
  | succ fuel ih =>
    intro tremain s
    simp only [serUntilLoop]
    split
    · exact Ext.refl s
    · have hR := serRead_spec s 1
      generalize serRead s 1 = rr at *
      obtain ⟨s1, ob⟩ := rr
      obtain ⟨hS, hB, hL, hM⟩ := hR
      cases ob with
      | none => exact ext_quiet hS hB hL hM
      | some b =>
        have hX : Ext s { s1 with buf := s1.buf ++ b } := ext_more hS hB hL hM.1
        simp only
        split
        · exact ReadSpec.of_ext hX (takeAll_spec _)
        · cases timeout with
          | none => exact ReadSpec.of_ext hX (ih _ _)
          | some t => exact ReadSpec.of_ext hX (ih _ _)

/-- the "read what is available without waiting" prelude of the serial `read_until` -/
def serialUntilPre (s : St) (term : Bytes) : St :=
  match findSub term s.buf with
  | some _ => s
  | none =>
    match inWaiting s with
    | (sa, navail) =>
      match serRead sa navail with
      | (sb, some b) => { sb with buf := sb.buf ++ b }
      | (sb, none) => sb

theorem serialUntilPre_ext (s : St) (term : Bytes) : Ext s (serialUntilPre s term) := by
  simp only [serialUntilPre]
  split
  · exact Ext.refl s
  · have hI := inWaiting_ext s
    generalize inWaiting s = iw at *
    obtain ⟨sa, navail⟩ := iw
    simp only
    have hR := serRead_spec sa navail
    generalize serRead sa navail = rr at *
    obtain ⟨sb, ob⟩ := rr
    obtain ⟨hS, hB, hL, hM⟩ := hR
    cases ob with
    | none => exact hI.trans (ext_quiet hS hB hL hM)
    | some b => exact hI.trans (ext_more hS hB hL hM.1)

theorem serialUntil_eq (s : St) (term : Bytes) (t : Option Int) :
    serialUntil s term t =
      if !s.isOpen then (s, .exc .invalidOp)
      else match findSub term (serialUntilPre s term).buf with
        | some p => takeMsg (serialUntilPre s term) p term
        | none => serUntilLoop term t (serialUntilPre s term).clock (fuelOf (serialUntilPre s term).dev) t
                    (serialUntilPre s term) := rfl

theorem serialUntil_spec (s : St) (term : Bytes) (t : Option Int) : ReadSpec s (serialUntil s term t) := by
  rw [serialUntil_eq]
  split
  · exact Ext.refl s
  · have hP := serialUntilPre_ext s term
    split
    · exact ReadSpec.of_ext hP (takeBuf_spec _ _)
    · exact ReadSpec.of_ext hP (serUntilLoop_spec _ _ _ _ _ _)

theorem serialRut_spec (s : St) (n : Nat) (t : Option Int) : ReadSpec s (serialRut s n t) := by
  have h := serialRead_spec s n t
  simp only [serialRut]
  generalize serialRead s n t = r at *
  obtain ⟨s1, o⟩ := r
  cases o with
  | unit => exact h
  | ret bs => exact h
  | exc e =>
    cases e with
    | timeout => exact ReadSpec.of_ext h (takeAll_spec s1)
    | _ => exact h

end QmiModel.Transport
