import QmiModel.Lemmas.C03Wf
namespace QmiModel.Pipeline

theorem sel_iff (c k o : Nat) (x : Req) : sel c k o x = true ↔ x.caller = c ∧ x.via = k ∧ x.obj = o := by
  simp [sel, and_assoc]

theorem sel_self (x : Req) : sel x.caller x.via x.obj x = true := by simp [sel]

/-- while a delivering thread holds a request whose handler it has found, nothing of the same route has been refused
(unless the object is stopped, in which case the held request will be refused too) -/
structure HInv (s : State) : Prop where
  heldC_ok : ∀ c x, s.heldC c = some x →
    (s.refused x.obj).filter (sel x.caller x.via x.obj) = [] ∨ s.stopped x.obj = true
  heldL_ok : ∀ d x, s.heldL d = some x →
    (s.refused x.obj).filter (sel x.caller x.via x.obj) = [] ∨ s.stopped x.obj = true

theorem hinv_init : HInv init := by
  constructor <;> simp [init]

theorem hinv_step {T : Topo} {s s' : State} {a : Act} (h : step T s a = some s') (w : WF T s) (f : FInv s)
    (i : HInv s) : HInv s' := by
  obtain ⟨w1, w2, w3, w4, w5, w6, w7, w8, w9, w10⟩ := w
  obtain ⟨f1, f2, f3, f4, f5⟩ := f
  obtain ⟨i1, i2⟩ := i
  cases a <;> simp only [step] at h <;> (repeat' split at h) <;>
    first
      | (simp at h; done)
      | (simp only [Option.some.injEq] at h; subst h
         refine ⟨?_, ?_⟩ <;>
           (simp only [upd]; grind [sel_iff, List.filter_eq_nil_iff]))

end QmiModel.Pipeline
