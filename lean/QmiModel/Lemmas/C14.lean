import QmiModel.Model.Descriptor
/-!
# Helper lemmas for C14 (core Lean only)
-/
namespace QmiModel.Descriptor

/-! ## dictionaries -/

theorem dget_dset (d : Dict) (k q : Str) (v : PyVal) :
    dget (dset d k v) q = if k = q then some v else dget d q := by
  induction d with
  | nil => simp [dset, dget]
  | cons kv r ih =>
    obtain ⟨k', v'⟩ := kv
    simp only [dset]
    by_cases h : k' = k
    · subst h
      simp only [if_true, dget]
      by_cases hq : k' = q <;> simp [hq]
    · simp only [h, if_false, dget, ih]
      by_cases h2 : k' = q
      · subst h2
        have : ¬ k = k' := fun e => h e.symm
        simp [this]
      · simp [h2]

theorem dget_append (a b : Dict) (q : Str) :
    dget (a ++ b) q = match dget a q with
      | some v => some v
      | none => dget b q := by
  induction a with
  | nil => simp [dget]
  | cons kv r ih =>
    obtain ⟨k, v⟩ := kv
    simp only [List.cons_append, dget]
    by_cases h : k = q <;> simp [h, ih]

/-- `d.update(e)`: the last entry of `e` for a key wins, otherwise `d` -/
theorem dget_dupdate (d e : Dict) (q : Str) :
    dget (dupdate d e) q = match dget (e.reverse) q with
      | some v => some v
      | none => dget d q := by
  unfold dupdate
  induction e generalizing d with
  | nil => simp [dget]
  | cons kv r ih =>
    obtain ⟨k, v⟩ := kv
    simp only [List.foldl_cons, ih, List.reverse_cons, dget_append, dget_dset]
    cases hr : dget r.reverse q with
    | some x => simp
    | none =>
      simp only [dget]
      by_cases h : k = q <;> simp [h]


def keysOf (d : Dict) : List Str := d.map (·.1)

theorem dget_none_of_not_mem (d : Dict) (q : Str) (h : q ∉ keysOf d) : dget d q = none := by
  induction d with
  | nil => rfl
  | cons kv r ih =>
    obtain ⟨k, v⟩ := kv
    simp only [keysOf, List.map_cons, List.mem_cons, not_or] at h
    have hk : ¬ k = q := fun e => h.1 e.symm
    simp only [dget, hk, if_false]
    exact ih h.2

theorem mem_keys_of_dget (d : Dict) (q : Str) (v : PyVal) (h : dget d q = some v) : q ∈ keysOf d := by
  apply Classical.byContradiction
  intro hn
  rw [dget_none_of_not_mem d q hn] at h
  cases h

theorem keysOf_dset (d : Dict) (k : Str) (v : PyVal) :
    keysOf (dset d k v) = if k ∈ keysOf d then keysOf d else keysOf d ++ [k] := by
  induction d with
  | nil => simp [dset, keysOf]
  | cons kv r ih =>
    obtain ⟨k', v'⟩ := kv
    simp only [dset]
    by_cases h : k' = k
    · subst h
      simp [keysOf]
    · have hk : ¬ k = k' := fun e => h e.symm
      simp only [h, if_false]
      simp only [keysOf, List.map_cons, List.mem_cons, hk, false_or] at ih ⊢
      rw [ih]
      split <;> simp_all

theorem keysOf_dset_nodup (d : Dict) (k : Str) (v : PyVal) (h : (keysOf d).Nodup) : (keysOf (dset d k v)).Nodup := by
  rw [keysOf_dset]
  split
  · exact h
  · rename_i hk
    rw [List.nodup_append]
    refine ⟨h, by simp, ?_⟩
    intro a ha b hb
    simp only [List.mem_singleton] at hb
    subst hb
    intro e
    subst e
    exact hk ha

theorem dget_reverse_of_nodup (e : Dict) (q : Str) (h : (keysOf e).Nodup) : dget e.reverse q = dget e q := by
  induction e with
  | nil => rfl
  | cons kv r ih =>
    obtain ⟨k, v⟩ := kv
    simp only [keysOf, List.map_cons, List.nodup_cons] at h
    simp only [List.reverse_cons, dget_append, dget]
    by_cases hk : k = q
    · subst hk
      have : dget r.reverse k = none := by
        rw [ih h.2]; exact dget_none_of_not_mem r k h.1
      simp [this]
    · simp only [hk, if_false]
      rw [ih h.2]
      cases dget r q <;> rfl

/-- `d.update(e)` for a dictionary `e` (unique keys): `e` wins, otherwise `d` -/
theorem dget_dupdate_nodup (d e : Dict) (q : Str) (h : (keysOf e).Nodup) :
    dget (dupdate d e) q = match dget e q with
      | some v => some v
      | none => dget d q := by
  rw [dget_dupdate, dget_reverse_of_nodup e q h]

theorem dget_filter (d : Dict) (f : Str → Bool) (q : Str) :
    dget (d.filter (fun kv => f kv.1)) q = if f q then dget d q else none := by
  induction d with
  | nil => simp [dget]
  | cons kv r ih =>
    obtain ⟨k, v⟩ := kv
    simp only [List.filter_cons]
    by_cases hf : f k
    · simp only [hf, if_true, dget, ih]
      by_cases hk : k = q
      · subst hk; simp [hf]
      · simp [hk]
    · have hf' : f k = false := by simpa using hf
      simp only [hf', dget, Bool.false_eq_true, if_false]
      by_cases hk : k = q
      · subst hk; rw [ih]; simp [hf']
      · rw [ih]; simp [hk]

/-! ## conversions raise only `ValueError` -/

theorem convPos_err {ty : Ty} {t : Str} {e : PyExc} (h : convPos ty t = .err e) : e = .valueError := by
  cases ty <;> simp only [convPos] at h
  · cases h
  · split at h <;> cases h <;> rfl
  · split at h <;> cases h <;> rfl
  · cases h

theorem convKw_err {ty : Ty} {t : Str} {e : PyExc} (h : convKw ty t = .err e) : e = .valueError := by
  cases ty <;> simp only [convKw] at h
  · cases h
  · split at h <;> cases h <;> rfl
  · split at h <;> cases h <;> rfl
  · split at h
    · cases h
    · split at h <;> cases h <;> rfl

theorem catch_convPos_err {ty : Ty} {t : Str} {e : PyExc} (h : catchValueError (convPos ty t) = .err e) :
    e = .descriptor := by
  cases hc : convPos ty t with
  | ok v => rw [hc] at h; cases h
  | err e' =>
    have := convPos_err hc
    subst this
    rw [hc] at h
    simp only [catchValueError] at h
    cases h; rfl

theorem catch_convKw_err {ty : Ty} {t : Str} {e : PyExc} (h : catchValueError (convKw ty t) = .err e) :
    e = .descriptor := by
  cases hc : convKw ty t with
  | ok v => rw [hc] at h; cases h
  | err e' =>
    have := convKw_err hc
    subst this
    rw [hc] at h
    simp only [catchValueError] at h
    cases h; rfl

theorem catch_ok {r : Res PyVal} {v : PyVal} (h : catchValueError r = .ok v) : r = .ok v := by
  cases r with
  | ok a => simpa [catchValueError] using h
  | err e => cases e <;> simp [catchValueError] at h


/-! ## the positional loop -/

theorem parsePositional_err {acc : Dict} {ps : List Param} {ts : List Str} {e : PyExc}
    (h : parsePositional acc ps ts = .err e) : e = .descriptor := by
  induction ps generalizing acc ts with
  | nil => simp [parsePositional] at h
  | cons p ps ih =>
    cases ts with
    | nil => simp [parsePositional] at h
    | cons t ts =>
      simp only [parsePositional] at h
      split at h
      · rename_i e' he
        cases h
        exact catch_convPos_err he
      · exact ih h

def resToOption {α : Type} : Res α → Option α
  | .ok a => some a
  | .err _ => none

theorem parsePositional_get {acc : Dict} {ps : List Param} {ts : List Str} {d : Dict}
    (h : parsePositional acc ps ts = .ok d) (hn : (ps.map (·.name)).Nodup) (q : Str) :
    match (ps.zip ts).find? (fun pt => pt.1.name = q) with
      | some pt => ∃ v, convPos pt.1.ty pt.2 = .ok v ∧ dget d q = some v
      | none => dget d q = dget acc q := by
  induction ps generalizing acc ts with
  | nil => simp only [parsePositional] at h; cases h; simp
  | cons p ps ih =>
    cases ts with
    | nil => simp only [parsePositional] at h; cases h; simp
    | cons t ts =>
      simp only [parsePositional] at h
      simp only [List.map_cons, List.nodup_cons] at hn
      split at h
      · cases h
      · rename_i v hv
        have hc := catch_ok hv
        have ih' := ih h hn.2
        rw [List.zip_cons_cons, List.find?_cons]
        by_cases hq : p.name = q
        · subst hq
          have hnone : (ps.zip ts).find? (fun pt => pt.1.name = p.name) = none := by
            rw [List.find?_eq_none]
            intro pt hpt
            have := (List.of_mem_zip hpt).1
            simp only [decide_eq_true_eq]
            intro e
            exact hn.1 (e ▸ List.mem_map_of_mem this)
          rw [hnone] at ih'
          simp only [decide_true]
          exact ⟨v, hc, by rw [ih', dget_dset]; simp⟩
        · simp only [hq, decide_false]
          cases hf : (ps.zip ts).find? (fun pt => pt.1.name = q) with
          | some pt => rw [hf] at ih'; exact ih'
          | none => rw [hf] at ih'; simp only at ih' ⊢; rw [ih', dget_dset]; simp [hq]

theorem parsePositional_keys {acc : Dict} {ps : List Param} {ts : List Str} {d : Dict}
    (h : parsePositional acc ps ts = .ok d) (hk : (keysOf acc).Nodup) : (keysOf d).Nodup := by
  induction ps generalizing acc ts with
  | nil => simp only [parsePositional] at h; cases h; exact hk
  | cons p ps ih =>
    cases ts with
    | nil => simp only [parsePositional] at h; cases h; exact hk
    | cons t ts =>
      simp only [parsePositional] at h
      split at h
      · cases h
      · exact ih h (keysOf_dset_nodup _ _ _ hk)

/-! ## the keyword loop -/

def kwKey (t : Str) : Str := (splitEq t).headD []
def kwVal (t : Str) : Str := (splitEq t).getD 1 []

theorem parseKeywords_err {kws : List Param} {acc : Dict} {ts : List Str} {e : PyExc}
    (h : parseKeywords kws acc ts = .err e) : e = .descriptor := by
  induction ts generalizing acc with
  | nil => simp [parseKeywords] at h
  | cons t ts ih =>
    simp only [parseKeywords] at h
    split at h
    · split at h
      · split at h
        · rename_i e' he
          cases h
          exact catch_convKw_err he
        · exact ih h
      · cases h; rfl
    · cases h; rfl

theorem parseKeywords_get {kws : List Param} {acc : Dict} {ts : List Str} {d : Dict}
    (h : parseKeywords kws acc ts = .ok d) (q : Str) :
    match ts.reverse.find? (fun t => kwKey t = q) with
      | some t => ∃ p x, findParam kws q = some p ∧ convKw p.ty (kwVal t) = .ok x ∧ dget d q = some x
      | none => dget d q = dget acc q := by
  induction ts generalizing acc with
  | nil => simp only [parseKeywords] at h; cases h; simp
  | cons t ts ih =>
    simp only [parseKeywords] at h
    split at h
    · rename_i k v hs
      split at h
      · rename_i p hp
        split at h
        · cases h
        · rename_i x hx
          have hc := catch_ok hx
          have hk : kwKey t = k := by simp [kwKey, hs]
          have hv : kwVal t = v := by simp [kwVal, hs]
          have ih' := ih h
          rw [List.reverse_cons, List.find?_append]
          cases hf : ts.reverse.find? (fun t => kwKey t = q) with
          | some t' => rw [hf] at ih'; exact ih'
          | none =>
            rw [hf] at ih'
            simp only at ih'
            simp only [Option.none_or, List.find?_cons, List.find?_nil, hk]
            by_cases hq : k = q
            · subst hq
              simp only [decide_true]
              exact ⟨p, x, hp, by rw [hv]; exact hc, by rw [ih', dget_dset]; simp⟩
            · simp only [hq, decide_false]
              rw [ih', dget_dset]; simp [hq]
      · cases h
    · cases h

theorem parseKeywords_keys {kws : List Param} {acc : Dict} {ts : List Str} {d : Dict}
    (h : parseKeywords kws acc ts = .ok d) (hk : (keysOf acc).Nodup) : (keysOf d).Nodup := by
  induction ts generalizing acc with
  | nil => simp only [parseKeywords] at h; cases h; exact hk
  | cons t ts ih =>
    simp only [parseKeywords] at h
    split at h
    · split at h
      · split at h
        · cases h
        · exact ih h (keysOf_dset_nodup _ _ _ hk)
      · cases h
    · cases h


/-! ## specification vocabulary for `faithful` -/

/-- parameter names are pairwise distinct across positionals and keywords (decidable; checked on the generated tables) -/
def NodupNames (I : Iface) : Prop := ((I.positionals ++ I.keywords).map (·.name)).Nodup

instance (I : Iface) : Decidable (NodupNames I) := by unfold NodupNames; infer_instance

/-- the token of the descriptor that gives positional parameter `k`: the i-th part without `'='` for the i-th name -/
def posToken (I : Iface) (parts : List Str) (k : Str) : Option (Ty × Str) :=
  ((I.positionals.zip ((parts.drop 1).filter (fun a => !isKw a))).find? (fun pt => pt.1.name = k)).map
    (fun pt => (pt.1.ty, pt.2))

/-- the token that gives keyword parameter `k`: the value of the last part `k=value` -/
def kwToken (I : Iface) (parts : List Str) (k : Str) : Option (Ty × Str) :=
  match findParam I.keywords k with
  | none => none
  | some p => (((parts.drop 1).filter isKw).reverse.find? (fun t => kwKey t = k)).map (fun t => (p.ty, kwVal t))

/-- what the property says parameter `k` must be: the typed value of its token, else the caller's default
(only for names this interface knows), else absent -/
def specValue (I : Iface) (parts : List Str) (defaults : List (Str × PyVal)) (k : Str) : Option PyVal :=
  match kwToken I parts k with
  | some (ty, v) => resToOption (convKw ty v)
  | none =>
    match posToken I parts k with
    | some (ty, t) => resToOption (convPos ty t)
    | none => if knownName I k then dget (dictOf defaults) k else none

theorem findParam_name {ps : List Param} {k : Str} {p : Param} (h : findParam ps k = some p) : p.name = k := by
  unfold findParam at h
  have := List.find?_some h
  simpa using this

theorem findParam_mem {ps : List Param} {k : Str} {p : Param} (h : findParam ps k = some p) : p ∈ ps := by
  unfold findParam at h
  exact List.mem_of_find?_eq_some h

theorem keysOf_nil : (keysOf ([] : Dict)).Nodup := by simp [keysOf]

/-- **the parameter dictionary is exactly what the string and the defaults say** -/
theorem parseParams_get {I : Iface} (hI : NodupNames I) {parts : List Str} {defaults : List (Str × PyVal)} {p : Dict}
    (h : parseParams I parts defaults = .ok p) (k : Str) : dget p k = specValue I parts defaults k := by
  unfold parseParams at h
  simp only at h
  split at h
  · cases h
  split at h
  · cases h
  · rename_i d1 h1
    split at h
    · cases h
    · rename_i d2 h2
      split at h
      · cases h
        have hpos : (I.positionals.map (·.name)).Nodup := by
          unfold NodupNames at hI
          rw [List.map_append] at hI
          exact (List.nodup_append.1 hI).1
        have k1 := parsePositional_keys h1 keysOf_nil
        have k2 := parseKeywords_keys h2 keysOf_nil
        have g1 := parsePositional_get h1 hpos k
        have g2 := parseKeywords_get h2 k
        rw [dget_dupdate_nodup _ _ _ k2, dget_dupdate_nodup _ _ _ k1, dget_filter]
        unfold specValue kwToken posToken
        cases hf2 : ((parts.drop 1).filter isKw).reverse.find? (fun t => kwKey t = k) with
        | some t =>
          rw [hf2] at g2
          obtain ⟨q, x, hq, hx, hd⟩ := g2
          simp [hq, hd, hx, resToOption]
        | none =>
          rw [hf2] at g2
          simp only at g2
          have hk2 : dget d2 k = none := by rw [g2]; rfl
          have hkw : (match findParam I.keywords k with
              | none => (none : Option (Ty × Str))
              | some p => Option.map (fun t => (p.ty, kwVal t)) none) = none := by
            cases findParam I.keywords k <;> rfl
          rw [hk2, hkw]
          simp only
          cases hf1 : (I.positionals.zip ((parts.drop 1).filter (fun a => !isKw a))).find? (fun pt => pt.1.name = k) with
          | some pt =>
            rw [hf1] at g1
            obtain ⟨v, hv, hd⟩ := g1
            simp [hd, hv, resToOption]
          | none =>
            rw [hf1] at g1
            simp only at g1
            have hk1 : dget d1 k = none := by rw [g1]; rfl
            simp [hk1]
      · cases h


/-! ## errors of the parsing stage -/

theorem parseParts_err {s : Str} {e : PyExc} (h : parseParts s = .err e) : e = .descriptor := by
  unfold parseParts at h
  simp only at h
  split at h <;> cases h
  rfl

theorem parseParams_err {I : Iface} {parts : List Str} {defaults : List (Str × PyVal)} {e : PyExc}
    (h : parseParams I parts defaults = .err e) : e = .descriptor := by
  unfold parseParams at h
  simp only at h
  split at h
  · cases h; rfl
  split at h
  · rename_i e' he
    cases h
    exact parsePositional_err he
  · split at h
    · rename_i e' he
      cases h
      exact parseKeywords_err he
    · split at h
      · cases h
      · cases h; rfl

/-! ## typing of the parameter dictionary -/

/-- a value of the declared type in Python's sense (`isinstance`, plus an `int` for a `float`): what the conversions
produce and what the type check of the defaults lets through -/
def valTy : PyVal → Ty → Bool
  | .str _, .str => true
  | .int _, .int => true
  | .bool _, .int => true
  | .flt _, .float => true
  | .int _, .float => true
  | .bool _, .float => true
  | .bool _, .bool => true
  | _, _ => false

theorem valTy_eq (v : PyVal) (t : Ty) : valTy v t = pyIsInstance v t := by
  cases v <;> cases t <;> rfl

def paramsOf (I : Iface) : List Param := I.positionals ++ I.keywords

theorem mem_of_dget {d : Dict} {k : Str} {v : PyVal} (h : dget d k = some v) : (k, v) ∈ d := by
  induction d with
  | nil => cases h
  | cons kv r ih =>
    obtain ⟨k', v'⟩ := kv
    simp only [dget] at h
    by_cases e : k' = k
    · subst e
      simp only [if_true, Option.some.injEq] at h
      subst h
      exact List.mem_cons_self
    · simp only [e, if_false] at h
      exact List.mem_cons_of_mem _ (ih h)

/-- a successful parse means the kept defaults passed the type check -/
theorem parseParams_defaults_ok {I : Iface} {parts : List Str} {defaults : List (Str × PyVal)} {p : Dict}
    (h : parseParams I parts defaults = .ok p) :
    ((dictOf defaults).filter (fun kv => knownName I kv.1)).all (defaultTypeOk I) = true := by
  unfold parseParams at h
  simp only at h
  split at h
  · cases h
  · rename_i hc
    cases hall : ((dictOf defaults).filter (fun kv => knownName I kv.1)).all (defaultTypeOk I) with
    | true => rfl
    | false => rw [hall] at hc; simp at hc

theorem convPos_typed {ty : Ty} {t : Str} {v : PyVal} (h : convPos ty t = .ok v) : valTy v ty = true := by
  cases ty <;> simp only [convPos] at h
  · cases h; rfl
  · split at h <;> cases h; rfl
  · split at h <;> cases h
    rfl
  · cases h; rfl

theorem convKw_typed {ty : Ty} {t : Str} {v : PyVal} (h : convKw ty t = .ok v) : valTy v ty = true := by
  cases ty <;> simp only [convKw] at h
  · cases h; rfl
  · split at h <;> cases h; rfl
  · split at h <;> cases h
    rfl
  · split at h
    · cases h; rfl
    · split at h <;> cases h; rfl

theorem knownName_iff {I : Iface} {k : Str} : knownName I k = true ↔ ∃ q ∈ paramsOf I, q.name = k := by
  unfold knownName paramsOf
  simp only [Bool.or_eq_true, List.any_eq_true, decide_eq_true_eq, List.mem_append]
  constructor
  · rintro (⟨q, hq, hn⟩ | ⟨q, hq, hn⟩)
    · exact ⟨q, Or.inl hq, hn⟩
    · exact ⟨q, Or.inr hq, hn⟩
  · rintro ⟨q, hq | hq, hn⟩
    · exact Or.inl ⟨q, hq, hn⟩
    · exact Or.inr ⟨q, hq, hn⟩

/-- every entry of the parsed dictionary belongs to a declared parameter and has its type -/
theorem parseParams_typed {I : Iface} (hI : NodupNames I) {parts : List Str} {defaults : List (Str × PyVal)} {p : Dict}
    (h : parseParams I parts defaults = .ok p) {k : Str} {v : PyVal}
    (hk : dget p k = some v) : ∃ q ∈ paramsOf I, q.name = k ∧ valTy v q.ty = true := by
  have hdef := parseParams_defaults_ok h
  rw [parseParams_get hI h k] at hk
  unfold specValue at hk
  split at hk
  · rename_i ty val hkw
    unfold kwToken at hkw
    split at hkw
    · cases hkw
    · rename_i q hq
      cases hfind : ((parts.drop 1).filter isKw).reverse.find? (fun t => kwKey t = k) with
      | none => rw [hfind] at hkw; cases hkw
      | some t =>
        rw [hfind] at hkw
        simp only [Option.map_some, Option.some.injEq, Prod.mk.injEq] at hkw
        obtain ⟨rfl, rfl⟩ := hkw
        refine ⟨q, List.mem_append_right _ (findParam_mem hq), findParam_name hq, ?_⟩
        cases hc : convKw q.ty (kwVal t) with
        | ok x => rw [hc] at hk; simp only [resToOption, Option.some.injEq] at hk; subst hk; exact convKw_typed hc
        | err e => rw [hc] at hk; cases hk
  · split at hk
    · rename_i ty tok hpos
      unfold posToken at hpos
      cases hfind : (I.positionals.zip ((parts.drop 1).filter (fun a => !isKw a))).find? (fun pt => pt.1.name = k) with
      | none => rw [hfind] at hpos; cases hpos
      | some pt =>
        rw [hfind] at hpos
        simp only [Option.map_some, Option.some.injEq, Prod.mk.injEq] at hpos
        obtain ⟨rfl, rfl⟩ := hpos
        have hm := List.mem_of_find?_eq_some hfind
        have hn := List.find?_some hfind
        simp only [decide_eq_true_eq] at hn
        refine ⟨pt.1, List.mem_append_left _ (List.of_mem_zip hm).1, hn, ?_⟩
        cases hc : convPos pt.1.ty pt.2 with
        | ok x => rw [hc] at hk; simp only [resToOption, Option.some.injEq] at hk; subst hk; exact convPos_typed hc
        | err e => rw [hc] at hk; cases hk
    · split at hk
      · rename_i hkn
        have hmem : (k, v) ∈ (dictOf defaults).filter (fun kv => knownName I kv.1) :=
          List.mem_filter.2 ⟨mem_of_dget hk, hkn⟩
        have hok := (List.all_eq_true.1 hdef) (k, v) hmem
        unfold defaultTypeOk expectedTy at hok
        simp only at hok
        cases hfk : findParam I.keywords k with
        | some q =>
          rw [hfk] at hok
          exact ⟨q, List.mem_append_right _ (findParam_mem hfk), findParam_name hfk, by rw [valTy_eq]; exact hok⟩
        | none =>
          rw [hfk] at hok
          cases hfp : findParam I.positionals k with
          | some q =>
            rw [hfp] at hok
            exact ⟨q, List.mem_append_left _ (findParam_mem hfp), findParam_name hfp, by rw [valTy_eq]; exact hok⟩
          | none =>
            exfalso
            obtain ⟨q, hq, hn⟩ := knownName_iff.1 hkn
            rcases List.mem_append.1 hq with hq | hq
            · have := List.find?_eq_none.1 hfp q hq
              simp [hn] at this
            · have := List.find?_eq_none.1 hfk q hq
              simp [hn] at this
      · cases hk

/-- the parsed dictionary only has keys the interface declares, and has all required ones -/
theorem parseParams_keys {I : Iface} (hI : NodupNames I) {parts : List Str} {defaults : List (Str × PyVal)} {p : Dict}
    (h : parseParams I parts defaults = .ok p) :
    (∀ k ∈ keysOf p, knownName I k = true) ∧ (∀ k ∈ requiredNames I, dhas p k = true) := by
  constructor
  · intro k hk
    have : ∃ v, dget p k = some v := by
      cases hg : dget p k with
      | some v => exact ⟨v, rfl⟩
      | none =>
        exfalso
        clear h
        induction p with
        | nil => simp [keysOf] at hk
        | cons kv r ih =>
          obtain ⟨k', v'⟩ := kv
          simp only [keysOf, List.map_cons, List.mem_cons] at hk
          simp only [dget] at hg
          by_cases e : k' = k
          · simp [e] at hg
          · simp only [e, if_false] at hg
            rcases hk with hk | hk
            · exact e hk.symm
            · exact ih hk hg
    obtain ⟨v, hv⟩ := this
    rw [parseParams_get hI h k] at hv
    unfold specValue at hv
    split at hv
    · rename_i ty val hkw
      unfold kwToken at hkw
      split at hkw
      · cases hkw
      · rename_i q hq
        exact knownName_iff.2 ⟨q, List.mem_append_right _ (findParam_mem hq), findParam_name hq⟩
    · split at hv
      · rename_i ty tok hpos
        unfold posToken at hpos
        cases hfind : (I.positionals.zip ((parts.drop 1).filter (fun a => !isKw a))).find? (fun pt => pt.1.name = k) with
        | none => rw [hfind] at hpos; cases hpos
        | some pt =>
          have hm := List.mem_of_find?_eq_some hfind
          have hn := List.find?_some hfind
          simp only [decide_eq_true_eq] at hn
          exact knownName_iff.2 ⟨pt.1, List.mem_append_left _ (List.of_mem_zip hm).1, hn⟩
      · split at hv
        · rename_i hkn; exact hkn
        · cases hv
  · unfold parseParams at h
    simp only at h
    split at h
    · cases h
    split at h
    · cases h
    · split at h
      · cases h
      · split at h
        · rename_i hall
          cases h
          intro k hk
          exact (List.all_eq_true.1 hall) k hk
        · cases h


/-! ## constructor application -/

def argNames (c : Ctor) : List Str := c.args.map (·.1)

/-- the keyword arguments fit the constructor: nothing unexpected, nothing required missing -/
def Bindable (c : Ctor) (p : Dict) : Prop :=
  (∀ k ∈ keysOf p, k ∈ argNames c) ∧ (∀ a ∈ c.args, a.2 = none → dhas p a.1 = true)

theorem bindEach_err {args : List (Str × Option PyVal)} {p : Dict} {e : PyExc} (h : bindEach args p = .err e) :
    e = .typeError ∧ ∃ a ∈ args, a.2 = none ∧ dhas p a.1 = false := by
  induction args with
  | nil => simp [bindEach] at h
  | cons a r ih =>
    obtain ⟨n, d⟩ := a
    simp only [bindEach] at h
    split at h
    · rename_i hnone
      cases h
      refine ⟨rfl, (n, d), List.mem_cons_self, ?_⟩
      cases hg : dget p n with
      | some v => rw [hg] at hnone; cases hnone
      | none => rw [hg] at hnone; simp only at hnone; exact ⟨hnone, by simp [dhas, hg]⟩
    · split at h
      · cases h
      · rename_i e' he
        cases h
        obtain ⟨h1, a, ha, h2⟩ := ih he
        exact ⟨h1, a, List.mem_cons_of_mem _ ha, h2⟩

theorem bindArgs_err {c : Ctor} {p : Dict} {e : PyExc} (h : bindArgs c p = .err e) :
    e = .typeError ∧ ¬ Bindable c p := by
  unfold bindArgs at h
  split at h
  · rename_i hany
    cases h
    refine ⟨rfl, ?_⟩
    intro hb
    obtain ⟨kv, hkv, hno⟩ := List.any_eq_true.1 hany
    have := hb.1 kv.1 (List.mem_map_of_mem hkv)
    simp only [argNames, List.mem_map] at this
    obtain ⟨a, ha, hn⟩ := this
    have : c.args.any (fun a => a.1 = kv.1) = true := List.any_eq_true.2 ⟨a, ha, by simp [hn]⟩
    simp [this] at hno
  · obtain ⟨h1, a, ha, hd, hh⟩ := bindEach_err h
    refine ⟨h1, ?_⟩
    intro hb
    have := hb.2 a ha hd
    rw [hh] at this
    cases this

theorem bindEach_get {args : List (Str × Option PyVal)} {p : Dict} {a : List (Str × PyVal)}
    (h : bindEach args p = .ok a) (n : Str) :
    match args.find? (fun x => x.1 = n) with
      | none => dget a n = none
      | some ar => ∃ v, dget a n = some v ∧ (match dget p n with | some w => w = v | none => ar.2 = some v) := by
  induction args generalizing a with
  | nil => simp only [bindEach] at h; cases h; rfl
  | cons x r ih =>
    obtain ⟨n0, d0⟩ := x
    simp only [bindEach] at h
    split at h
    · cases h
    · rename_i v hv
      split at h
      · rename_i l hl
        cases h
        simp only [dget, List.find?_cons]
        by_cases hn : n0 = n
        · subst hn
          simp only [decide_true, if_true]
          refine ⟨v, rfl, ?_⟩
          cases hg : dget p n0 with
          | some w => rw [hg] at hv; simpa using hv
          | none => rw [hg] at hv; simpa using hv
        · simp only [hn, decide_false, if_false]
          exact ih hl
      · cases h

theorem bindArgs_ok {c : Ctor} {p : Dict} {a : List (Str × PyVal)} (h : bindArgs c p = .ok a) :
    bindEach c.args p = .ok a := by
  unfold bindArgs at h
  split at h
  · cases h
  · exact h

/-- parser table and constructor signature agree: every declared parameter is a constructor argument and
every constructor argument without default is a required parameter (decidable; evaluated on the generated tables) -/
def Aligned (I : Iface) (c : Ctor) : Bool :=
  (paramsOf I).all (fun q => (argNames c).contains q.name) &&
  c.args.all (fun a => a.2.isSome || (requiredNames I).contains a.1)

theorem bindable_of_aligned {I : Iface} {c : Ctor} (hI : NodupNames I) (ha : Aligned I c = true)
    {parts : List Str} {defaults : List (Str × PyVal)} {p : Dict} (h : parseParams I parts defaults = .ok p) :
    Bindable c p := by
  obtain ⟨hk, hr⟩ := parseParams_keys hI h
  unfold Aligned at ha
  simp only [Bool.and_eq_true, List.all_eq_true, List.contains_iff_mem, Bool.or_eq_true] at ha
  constructor
  · intro k hkm
    obtain ⟨q, hq, hn⟩ := knownName_iff.1 (hk k hkm)
    have := ha.1 q hq
    rw [hn] at this
    exact this
  · intro a ham hd
    rcases ha.2 a ham with h1 | h1
    · rw [hd] at h1; cases h1
    · exact hr a.1 h1

/-! ## the `__init__` interpreter -/

theorem validateHost_err {h : Str} {e : PyExc} (he : validateHost h = .err e) : e = .descriptor := by
  unfold validateHost at he
  split at he
  · cases he
  · split at he <;> cases he
    rfl

/-- the type of value a validator test is written for -/
def Cond.ty : Cond → Ty
  | .lt _ => .int
  | .gt _ => .int
  | .eq _ => .int
  | .or a _ => a.ty
  | .notInStrs _ => .str
  | .notStopbits => .float
  | .notBool => .bool
  | .notDevice _ _ => .str
  | .badHost => .str

/-- both sides of an `or` test the same kind of value -/
def Cond.wf : Cond → Bool
  | .or a b => a.wf && b.wf && a.ty == b.ty
  | _ => true

/-- on a value of the type it is written for a validator test does not raise -/
theorem holds_typed (c : Cond) (v : PyVal) (hw : c.wf = true) (ht : valTy v c.ty = true) : ∃ b, c.holds v = .ok b := by
  induction c with
  | lt k => cases v <;> simp [valTy, Cond.ty] at ht <;> exact ⟨_, rfl⟩
  | gt k => cases v <;> simp [valTy, Cond.ty] at ht <;> exact ⟨_, rfl⟩
  | eq k => cases v <;> simp [valTy, Cond.ty] at ht <;> exact ⟨_, rfl⟩
  | or a b iha ihb =>
    simp only [Cond.wf, Bool.and_eq_true, beq_iff_eq] at hw
    obtain ⟨⟨wa, wb⟩, hty⟩ := hw
    have hta : valTy v a.ty = true := ht
    have htb : valTy v b.ty = true := by rw [← hty]; exact ht
    obtain ⟨ba, ha⟩ := iha wa hta
    obtain ⟨bb, hb⟩ := ihb wb htb
    simp only [Cond.holds, ha]
    cases ba
    · exact ⟨bb, hb⟩
    · exact ⟨true, rfl⟩
  | notInStrs l => cases v <;> simp [valTy, Cond.ty] at ht; exact ⟨_, rfl⟩
  | notStopbits =>
    cases v <;> simp [valTy, Cond.ty] at ht
    · exact ⟨_, rfl⟩
    · rename_i lit
      cases hf : floatParse lit with
      | none => exact ⟨true, by simp only [Cond.holds, hf]⟩
      | some f => exact ⟨!(floatIsStopbits f), by simp only [Cond.holds, hf]⟩
    · exact ⟨_, rfl⟩
  | notBool => cases v <;> simp [valTy, Cond.ty] at ht; exact ⟨_, rfl⟩
  | notDevice up pre => cases v <;> simp [valTy, Cond.ty] at ht; exact ⟨_, rfl⟩
  | badHost => cases v <;> simp [valTy, Cond.ty] at ht; exact ⟨_, rfl⟩

def validatesOf : List Stmt → List (Str × Cond)
  | [] => []
  | .validate p c :: r => (p, c) :: validatesOf r
  | _ :: r => validatesOf r

def storesOf : List Stmt → List (Str × List Str)
  | [] => []
  | .store a ps :: r => (a, ps) :: storesOf r
  | _ :: r => storesOf r

def resolvesOf : List Stmt → List Str
  | [] => []
  | .resolveLocalhost p :: r => p :: resolvesOf r
  | _ :: r => resolvesOf r

theorem arg_dset (env : List (Str × PyVal)) (p q : Str) (v : PyVal) :
    arg (dset env p v) q = if p = q then v else arg env q := by
  unfold arg
  rw [dget_dset]
  by_cases h : p = q <;> simp [h]

theorem valTy_str (a b : Str) (t : Ty) : valTy (.str a) t = valTy (.str b) t := by cases t <;> rfl

/-- with well-typed arguments an `__init__` body raises the descriptor error and nothing else -/
theorem exec_err {E : Env} {prog : List Stmt} {env : List (Str × PyVal)} {acc : List (Str × List PyVal)} {e : PyExc}
    (ht : ∀ pc ∈ validatesOf prog, pc.2.wf = true ∧ valTy (arg env pc.1) pc.2.ty = true)
    (h : exec E prog env acc = .err e) : e = .descriptor := by
  induction prog generalizing env acc with
  | nil => simp [exec] at h
  | cons st r ih =>
    cases st with
    | validate p c =>
      have hpc := ht (p, c) (by simp [validatesOf])
      obtain ⟨b, hb⟩ := holds_typed c (arg env p) hpc.1 hpc.2
      simp only [exec, hb] at h
      cases b
      · exact ih (fun pc hm => ht pc (by simp [validatesOf, hm])) h
      · cases h; rfl
    | resolveLocalhost p =>
      simp only [exec] at h
      have ht' : ∀ pc ∈ validatesOf r, pc.2.wf = true ∧ valTy (arg env pc.1) pc.2.ty = true :=
        fun pc hm => ht pc (by simpa [validatesOf] using hm)
      split at h
      · rename_i hh harg
        refine ih ?_ h
        intro pc hm
        refine ⟨(ht' pc hm).1, ?_⟩
        rw [arg_dset]
        by_cases hp : p = pc.1
        · simp only [hp, if_true]
          have := (ht' pc hm).2
          rw [← hp, harg] at this
          rw [valTy_str _ hh]; exact this
        · simp only [hp, if_false]; exact (ht' pc hm).2
      · exact ih ht' h
    | store a ps =>
      simp only [exec] at h
      exact ih (fun pc hm => ht pc (by simpa [validatesOf] using hm)) h

/-- the tables fit the translated `__init__` bodies: every validator test is well formed, is applied to a constructor
argument, the parser declares that parameter with the type the test is written for, and a constructor default has
that type too (decidable) -/
def ctorOk (I : Iface) (c : Ctor) : Bool :=
  (validatesOf c.prog).all (fun pc =>
    pc.2.wf &&
    c.args.any (fun a => a.1 = pc.1) &&
    (paramsOf I).all (fun q => q.name != pc.1 || q.ty == pc.2.ty) &&
    c.args.all (fun a => a.1 != pc.1 || (match a.2 with | none => true | some v => valTy v pc.2.ty)))

theorem args_typed {I : Iface} {c : Ctor} {p : Dict} {a : List (Str × PyVal)} (hc : ctorOk I c = true)
    (hp : ∀ k v, dget p k = some v → ∃ q ∈ paramsOf I, q.name = k ∧ valTy v q.ty = true)
    (hb : bindArgs c p = .ok a) : ∀ pc ∈ validatesOf c.prog, pc.2.wf = true ∧ valTy (arg a pc.1) pc.2.ty = true := by
  intro pc hpc
  obtain ⟨n, cd⟩ := pc
  unfold ctorOk at hc
  have h1 := (List.all_eq_true.1 hc) (n, cd) hpc
  simp only [Bool.and_eq_true, List.any_eq_true, List.all_eq_true, decide_eq_true_eq, Bool.or_eq_true,
    bne_iff_ne, ne_eq, beq_iff_eq] at h1
  obtain ⟨⟨⟨hwf, ⟨ar, har, hn⟩⟩, hty⟩, hdf⟩ := h1
  refine ⟨hwf, ?_⟩
  have hg := bindEach_get (bindArgs_ok hb) n
  cases hf : c.args.find? (fun x => x.1 = n) with
  | none =>
    have := List.find?_eq_none.1 hf ar har
    simp [hn] at this
  | some ar' =>
    rw [hf] at hg
    have hm := List.mem_of_find?_eq_some hf
    have hn' := List.find?_some hf
    simp only [decide_eq_true_eq] at hn'
    obtain ⟨v, hv, hsrc⟩ := hg
    simp only [arg, hv, Option.getD_some]
    cases hpn : dget p n with
    | some w =>
      rw [hpn] at hsrc
      simp only at hsrc
      subst hsrc
      obtain ⟨q, hq, hqn, hqt⟩ := hp n w hpn
      rcases hty q hq with h | h
      · exact absurd hqn h
      · rw [← h]; exact hqt
    | none =>
      rw [hpn] at hsrc
      simp only at hsrc
      rcases hdf ar' hm with h | h
      · exact absurd hn' h
      · rw [hsrc] at h; exact h

/-- everything the generic theorems ask of the tables, as one decidable check -/
def EnvOk (E : Env) : Bool :=
  E.ifaces.all (fun I =>
    decide (NodupNames I) &&
    (match I.ctorLinux with | some c => ctorOk I c | none => true) &&
    (match I.ctorWin with | some c => ctorOk I c | none => true))

theorem envOk_iface {E : Env} (hE : EnvOk E = true) {I : Iface} (hI : I ∈ E.ifaces) {win : Bool} {c : Ctor}
    (hc : I.ctor win = some c) : NodupNames I ∧ ctorOk I c = true := by
  unfold EnvOk at hE
  have := (List.all_eq_true.1 hE) I hI
  simp only [Bool.and_eq_true, decide_eq_true_eq] at this
  obtain ⟨⟨h1, h2⟩, h3⟩ := this
  refine ⟨h1, ?_⟩
  unfold Iface.ctor at hc
  cases win
  · simp only [Bool.false_eq_true, if_false] at hc; rw [hc] at h2; exact h2
  · simp only [if_true] at hc; rw [hc] at h3; exact h3

/-- every table of the environment is aligned with the constructors `create_transport` builds from it (decidable) -/
def AllAligned (E : Env) : Bool :=
  E.ifaces.all (fun I =>
    (match I.ctorLinux with | some c => Aligned I c | none => true) &&
    (match I.ctorWin with | some c => Aligned I c | none => true))

theorem allAligned_iface {E : Env} (hA : AllAligned E = true) {I : Iface} (hI : I ∈ E.ifaces) {win : Bool} {c : Ctor}
    (hc : I.ctor win = some c) : Aligned I c = true := by
  unfold AllAligned at hA
  have := (List.all_eq_true.1 hA) I hI
  simp only [Bool.and_eq_true] at this
  obtain ⟨h2, h3⟩ := this
  unfold Iface.ctor at hc
  cases win
  · simp only [Bool.false_eq_true, if_false] at hc; rw [hc] at h2; exact h2
  · simp only [if_true] at hc; rw [hc] at h3; exact h3

/-- descriptor `s` with defaults `d` gets as far as calling constructor `c` of interface `I` with the
keyword arguments `p` -/
def Reaches (E : Env) (win : Bool) (s : Str) (d : List (Str × PyVal)) (I : Iface) (c : Ctor) (p : Dict) : Prop :=
  ∃ parts, parseParts s = .ok parts ∧ findIface E (parts.headD []) = some I ∧
    parseParams I parts d = .ok p ∧ I.ctor win = some c

/-- the parsed parameter set does not fit the constructor signature (the only way left for a non-descriptor
exception, `TypeError`, to escape; impossible for tables aligned with their constructors) -/
def CtorMismatch (E : Env) (win : Bool) (s : Str) (d : List (Str × PyVal)) : Prop :=
  ∃ I c p, Reaches E win s d I c p ∧ ¬ Bindable c p

theorem pps_eq {E : Env} {s : Str} {parts : List Str} {I : Iface} (d : List (Str × PyVal))
    (hp : parseParts s = .ok parts) (hf : findIface E (parts.headD []) = some I) :
    parseParameterStrings I s d = parseParams I parts d := by
  unfold parseParameterStrings
  rw [hp]
  have := List.find?_some hf
  simp only [this, Bool.not_true, Bool.false_eq_true, if_false]


/-! ## the excluded classes are decidable (used for the non-vacuity examples and the witnesses) -/

/-- how far a descriptor gets: interface, constructor, keyword arguments -/
def stage (E : Env) (win : Bool) (s : Str) (d : List (Str × PyVal)) : Option (Iface × Ctor × Dict) :=
  match parseParts s with
  | .err _ => none
  | .ok parts =>
    match findIface E (parts.headD []) with
    | none => none
    | some I =>
      match parseParams I parts d with
      | .err _ => none
      | .ok p =>
        match I.ctor win with
        | none => none
        | some c => some (I, c, p)

theorem reaches_iff {E : Env} {win : Bool} {s : Str} {d : List (Str × PyVal)} {I : Iface} {c : Ctor} {p : Dict} :
    Reaches E win s d I c p ↔ stage E win s d = some (I, c, p) := by
  constructor
  · rintro ⟨parts, hp, hf, hpp, hc⟩
    unfold stage
    rw [hp]; simp only
    rw [hf]; simp only
    rw [hpp]; simp only
    rw [hc]
  · intro h
    unfold stage at h
    split at h
    · cases h
    · rename_i parts hp
      split at h
      · cases h
      · rename_i I' hf
        split at h
        · cases h
        · rename_i p' hpp
          split at h
          · cases h
          · rename_i c' hc
            simp only [Option.some.injEq, Prod.mk.injEq] at h
            obtain ⟨rfl, rfl, rfl⟩ := h
            exact ⟨parts, hp, hf, hpp, hc⟩

instance (c : Ctor) (p : Dict) : Decidable (Bindable c p) := by unfold Bindable; infer_instance
def mismatchOpt : Option (Iface × Ctor × Dict) → Prop
  | some (_, c, p) => ¬ Bindable c p
  | none => False

instance : (o : Option (Iface × Ctor × Dict)) → Decidable (mismatchOpt o)
  | some (_, c, p) => inferInstanceAs (Decidable (¬ Bindable c p))
  | none => inferInstanceAs (Decidable False)

theorem ctorMismatch_iff {E : Env} {win : Bool} {s : Str} {d : List (Str × PyVal)} :
    CtorMismatch E win s d ↔ mismatchOpt (stage E win s d) := by
  unfold CtorMismatch
  constructor
  · rintro ⟨I, c, p, hr, hb⟩
    rw [reaches_iff.1 hr]; exact hb
  · intro h
    cases hs : stage E win s d with
    | none => rw [hs] at h; exact h.elim
    | some x =>
      obtain ⟨I, c, p⟩ := x
      rw [hs] at h
      exact ⟨I, c, p, reaches_iff.2 hs, h⟩

instance (E : Env) (win : Bool) (s : Str) (d : List (Str × PyVal)) : Decidable (CtorMismatch E win s d) :=
  decidable_of_iff _ ctorMismatch_iff.symm

/-! ## from the bound arguments to the attributes of the transport -/

def normLocalhost (E : Env) (h : Str) : Str := if h = sLocalhost then E.localhostAddr else h

/-- the one documented normalisation: `QMI_SocketTransport.__init__` resolves the literal host `localhost` -/
def resolveStep (E : Env) (env : List (Str × PyVal)) (p : Str) : List (Str × PyVal) :=
  match arg env p with
  | .str h => dset env p (.str (normLocalhost E h))
  | _ => env

def resolveAll (E : Env) (ps : List Str) (env : List (Str × PyVal)) : List (Str × PyVal) := ps.foldl (resolveStep E) env

/-- no `localhost` resolution after the first attribute assignment (so every attribute sees the same values) -/
def ordered : List Stmt → Bool
  | [] => true
  | .store _ _ :: r => (resolvesOf r).isEmpty && ordered r
  | _ :: r => ordered r

/-- what the translated `__init__` stores: per assigned attribute, the values of the parameters named on the right -/
def attrsOf (E : Env) (c : Ctor) (a : List (Str × PyVal)) : List (Str × List PyVal) :=
  (storesOf c.prog).map (fun s => (s.1, s.2.map (arg (resolveAll E (resolvesOf c.prog) a))))

theorem exec_ok {E : Env} {prog : List Stmt} {env : List (Str × PyVal)} {acc out : List (Str × List PyVal)}
    (h : exec E prog env acc = .ok out) (ho : ordered prog = true) :
    out = acc ++ (storesOf prog).map (fun s => (s.1, s.2.map (arg (resolveAll E (resolvesOf prog) env)))) := by
  induction prog generalizing env acc with
  | nil => simp only [exec] at h; cases h; simp [storesOf]
  | cons st r ih =>
    cases st with
    | validate p c =>
      simp only [exec] at h
      split at h
      · cases h
      · cases h
      · exact ih h ho
    | resolveLocalhost p =>
      simp only [exec] at h
      have ho' : ordered r = true := ho
      split at h
      · rename_i hh harg
        have := ih h ho'
        simpa [storesOf, resolvesOf, resolveAll, resolveStep, harg, normLocalhost] using this
      · rename_i hne
        have := ih h ho'
        have hstep : resolveStep E env p = env := by
          unfold resolveStep
          cases hv : arg env p <;> simp_all
        simpa [storesOf, resolvesOf, resolveAll, hstep] using this
    | store a ps =>
      simp only [exec] at h
      simp only [ordered, Bool.and_eq_true, List.isEmpty_iff] at ho
      have := ih h ho.2
      rw [this]
      simp [storesOf, resolvesOf, ho.1, resolveAll]

theorem resolveStep_arg_ne (E : Env) (env : List (Str × PyVal)) (p n : Str) (h : p ≠ n) :
    arg (resolveStep E env p) n = arg env n := by
  unfold resolveStep
  split
  · rw [arg_dset]; simp [h]
  · rfl

/-- a parameter that is not the subject of a `localhost` resolution is stored as it was bound -/
theorem arg_resolveAll_of_not_mem (E : Env) (ps : List Str) (env : List (Str × PyVal)) (n : Str) (h : n ∉ ps) :
    arg (resolveAll E ps env) n = arg env n := by
  induction ps generalizing env with
  | nil => rfl
  | cons p ps ih =>
    simp only [List.mem_cons, not_or] at h
    simp only [resolveAll, List.foldl_cons]
    have := ih (resolveStep E env p) h.2
    simp only [resolveAll] at this
    rw [this, resolveStep_arg_ne E env p n (fun e => h.1 e.symm)]

/-- the resolved parameter holds the bound string with the literal `localhost` replaced -/
theorem arg_resolveAll_single (E : Env) (env : List (Str × PyVal)) (p : Str) :
    arg (resolveAll E [p] env) p = (match arg env p with | .str h => .str (normLocalhost E h) | v => v) := by
  simp only [resolveAll, List.foldl_cons, List.foldl_nil, resolveStep]
  cases hv : arg env p <;> simp [hv, arg_dset]

/-- what the bound argument `n` of constructor `c` must be: the value the string gives, else the caller's default, else
the constructor default -/
def boundSpec (c : Ctor) (I : Iface) (parts : List Str) (d : List (Str × PyVal)) (n : Str) : Option PyVal :=
  match c.args.find? (fun x => x.1 = n) with
  | none => none
  | some ar =>
    (match specValue I parts d n with
     | some w => some w
     | none => ar.2)

/-- naming convention that ties attributes to parameters: parameter `p` is stored alone in attribute `p` or `_p`, or
`host` and `port` together, in this order, in `_address`; and every constructor argument is stored (decidable) -/
def storesNamed (c : Ctor) : Bool :=
  (storesOf c.prog).all (fun s =>
    (match s.2 with
     | [p] => s.1 == p || s.1 == '_' :: p
     | _ => false) ||
    (s.1 == ['_','a','d','d','r','e','s','s'] && s.2 == [sHost, sPort])) &&
  c.args.all (fun a => ((storesOf c.prog).filter (fun s => s.2.contains a.1)).length == 1)

end QmiModel.Descriptor
