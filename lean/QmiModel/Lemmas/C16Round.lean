import QmiModel.Lemmas.C16Parse
/-!
# C16 — round trip `parseValue τ (toDict v) = ok v`
-/
namespace QmiModel.Config

/-! ## `toDict` on JSON data, Boolean equality -/

mutual
theorem toDict_of_isJson : ∀ (j : PV), isJson j = true → toDict j = j
  | .none, _ => by simp [toDict]
  | .bool _, _ => by simp [toDict]
  | .int _, _ => by simp [toDict]
  | .flt _, _ => by simp [toDict]
  | .fltOfInt _, _ => by simp [toDict]
  | .str _, _ => by simp [toDict]
  | .list xs, h => by simp only [isJson] at h; simp [toDict, toDictL_of_isJsonL xs h]
  | .tuple _, h => by simp [isJson] at h
  | .dict kvs, h => by simp only [isJson] at h; simp [toDict, toDictK_of_isJsonK kvs h]
  | .inst _ _, h => by simp [isJson] at h
theorem toDictL_of_isJsonL : ∀ (xs : List PV), isJsonL xs = true → toDictL xs = xs
  | [], _ => by simp [toDictL]
  | x :: xs, h => by
    simp only [isJsonL, Bool.and_eq_true] at h
    simp [toDictL, toDict_of_isJson x h.1, toDictL_of_isJsonL xs h.2]
theorem toDictK_of_isJsonK : ∀ (kvs : List (Str × PV)), isJsonK kvs = true → toDictK kvs = kvs
  | [], _ => by simp [toDictK]
  | (k, v) :: kvs, h => by
    simp only [isJsonK, Bool.and_eq_true] at h
    simp [toDictK, toDict_of_isJson v h.1, toDictK_of_isJsonK kvs h.2]
end

theorem toDict_eq_none (v : PV) (h : toDict v = .none) : v = .none := by
  cases v <;> simp [toDict] at h ⊢

mutual
theorem beq_eq : ∀ (a b : PV), PV.beq a b = true → a = b
  | .none, b, h => by cases b <;> simp [PV.beq] at h ⊢
  | .bool x, b, h => by cases b <;> simp [PV.beq] at h ⊢; exact h
  | .int x, b, h => by cases b <;> simp [PV.beq] at h ⊢; exact h
  | .flt x, b, h => by cases b <;> simp [PV.beq] at h ⊢; exact h
  | .fltOfInt x, b, h => by cases b <;> simp [PV.beq] at h ⊢; exact h
  | .str x, b, h => by cases b <;> simp [PV.beq] at h ⊢; exact h
  | .list xs, b, h => by
    cases b <;> simp [PV.beq] at h ⊢
    exact beqL_eq xs _ h
  | .tuple xs, b, h => by
    cases b <;> simp [PV.beq] at h ⊢
    exact beqL_eq xs _ h
  | .dict xs, b, h => by
    cases b <;> simp [PV.beq] at h ⊢
    exact beqK_eq xs _ h
  | .inst c xs, b, h => by
    cases b <;> simp [PV.beq] at h ⊢
    exact ⟨h.1, beqK_eq xs _ h.2⟩
theorem beqL_eq : ∀ (a b : List PV), beqL a b = true → a = b
  | [], b, h => by cases b <;> simp [beqL] at h ⊢
  | x :: xs, b, h => by
    cases b with
    | nil => simp [beqL] at h
    | cons y ys =>
      simp only [beqL, Bool.and_eq_true] at h
      rw [beq_eq x y h.1, beqL_eq xs ys h.2]
theorem beqK_eq : ∀ (a b : List (Str × PV)), beqK a b = true → a = b
  | [], b, h => by cases b <;> simp [beqK] at h ⊢
  | (k, x) :: xs, b, h => by
    cases b with
    | nil => simp [beqK] at h
    | cons ly ys =>
      obtain ⟨l, y⟩ := ly
      simp only [beqK, Bool.and_eq_true, beq_iff_eq] at h
      rw [h.1.1, beq_eq x y h.1.2, beqK_eq xs ys h.2]
end

/-! ## association lists -/

theorem isJson_of_assoc {kvs : List (Str × PV)} (h : isJsonK kvs = true) {n : Str} {x : PV}
    (ha : assoc n kvs = some x) : isJson x = true := by
  induction kvs with
  | nil => simp [assoc] at ha
  | cons kv kvs ih =>
    obtain ⟨k, v⟩ := kv
    simp only [isJsonK, Bool.and_eq_true] at h
    simp only [assoc] at ha
    split at ha
    · cases ha; exact h.1
    · exact ih h.2 ha

theorem hasDup_cons (k : Str) (ks : List Str) :
    hasDup (k :: ks) = false ↔ k ∉ ks ∧ hasDup ks = false := by
  simp [hasDup]

theorem keysOf_toDictK (items : List (Str × PV)) : keysOf (toDictK items) = keysOf items := by
  induction items with
  | nil => rfl
  | cons kv items ih => obtain ⟨k, v⟩ := kv; simp [toDictK, keysOf, ih]

theorem mem_keysOf {items : List (Str × PV)} {n : Str} {y : PV} (h : (n, y) ∈ items) : n ∈ keysOf items := by
  induction items with
  | nil => simp at h
  | cons kv items ih =>
    obtain ⟨k, v⟩ := kv
    simp only [List.mem_cons, Prod.mk.injEq] at h
    rcases h with ⟨rfl, _⟩ | h
    · simp [keysOf]
    · simp [keysOf, ih h]

theorem assoc_toDictK_of_nodup {items : List (Str × PV)} (hd : hasDup (keysOf items) = false)
    {n : Str} {y : PV} (h : (n, y) ∈ items) : assoc n (toDictK items) = some (toDict y) := by
  induction items with
  | nil => simp at h
  | cons kv items ih =>
    obtain ⟨k, v⟩ := kv
    simp only [keysOf, hasDup_cons] at hd
    simp only [List.mem_cons, Prod.mk.injEq] at h
    rcases h with ⟨rfl, rfl⟩ | h
    · simp [toDictK, assoc]
    · have hne : k ≠ n := by
        intro hkn; subst hkn; exact hd.1 (mem_keysOf h)
      simp [toDictK, assoc, hne, ih hd.2 h]

theorem AdmitsF.keys {fs : List Field} {kvs items : List (Str × PV)} (h : AdmitsF fs kvs items) :
    keysOf items = fieldNames fs := by
  induction fs generalizing items with
  | nil => cases h; rfl
  | cons f fs ih =>
    cases h with
    | present _ _ hr => simp [keysOf, fieldNames, ih hr]
    | default _ hr => simp [keysOf, fieldNames, ih hr]

/-! ## element-wise transfer -/

theorem admitsL_round {t : Ty} (ih : ∀ x y, isJson x = true → Admits t x y → Admits t (toDict y) y) :
    ∀ (xs ys : List PV), isJsonL xs = true → AdmitsL t xs ys → AdmitsL t (toDictL ys) ys := by
  intro xs
  induction xs with
  | nil => intro ys _ h; cases h; exact .nil t
  | cons x xs ihx =>
    intro ys hj h
    simp only [isJsonL, Bool.and_eq_true] at hj
    cases h with
    | cons hx hr => exact .cons (ih _ _ hj.1 hx) (ihx _ hj.2 hr)

theorem admitsK_round {t : Ty} (ih : ∀ x y, isJson x = true → Admits t x y → Admits t (toDict y) y) :
    ∀ (kvs kvs' : List (Str × PV)), isJsonK kvs = true → AdmitsK t kvs kvs' → AdmitsK t (toDictK kvs') kvs' := by
  intro kvs
  induction kvs with
  | nil => intro ys _ h; cases h; exact .nil t
  | cons kv kvs ihx =>
    intro ys hj h
    cases h with
    | cons hx hr =>
      simp only [isJsonK, Bool.and_eq_true] at hj
      exact .cons (ih _ _ hj.1 hx) (ihx _ hj.2 hr)

/-! ## the round trip at the level of the specification -/

mutual
theorem admits_round : ∀ (τ : Ty) (j v : PV), wf τ = true → isJson j = true → Admits τ j v → Admits τ (toDict v) v
  | .any, j, v, _, hj, h => by cases h; rw [toDict_of_isJson j hj]; exact .any j
  | .opt t, j, v, hw, hj, h => by
    cases h with
    | optNone => exact .optNone t
    | optSome hne h' =>
      have ih := admits_round t j v (by simpa [wf] using hw) hj h'
      by_cases hn : toDict v = .none
      · have := toDict_eq_none v hn; subst this; exact .optNone t
      · exact .optSome hn ih
  | .int, j, v, _, _, h => by cases h <;> simp only [toDict] <;> constructor
  | .float, j, v, _, _, h => by
    cases h with
    | floatFlt l => exact .floatFlt l
    | floatConv n => exact .floatConv n
    | floatInt n _ => exact .floatConv n
    | floatBool b => exact .floatConv _
  | .str, j, v, _, _, h => by cases h; exact .str _
  | .bool, j, v, _, _, h => by cases h; exact .bool _
  | .never, j, v, _, _, h => by cases h
  | .listAny, j, v, _, hj, h => by
    cases h; rw [toDict_of_isJson _ hj]; exact .listAny _
  | .tupleAny, j, v, _, hj, h => by
    cases h with
    | tupleAnyL xs =>
      simp only [isJson] at hj
      simp only [toDict, toDictL_of_isJsonL xs hj]; exact .tupleAnyL xs
    | tupleAnyT xs => simp [isJson] at hj
  | .dictAny, j, v, _, hj, h => by
    cases h; rw [toDict_of_isJson _ hj]; exact .dictAny _
  | .list t, j, v, hw, hj, h => by
    cases h with
    | list hl =>
      simp only [isJson] at hj
      simp only [toDict]
      exact .list (admitsL_round (fun x y hx hxy => admits_round t x y (by simpa [wf] using hw) hx hxy) _ _ hj hl)
  | .tupleVar t, j, v, hw, hj, h => by
    cases h with
    | tupleVarL hl =>
      simp only [isJson] at hj
      simp only [toDict]
      exact .tupleVarL (admitsL_round (fun x y hx hxy => admits_round t x y (by simpa [wf] using hw) hx hxy) _ _ hj hl)
    | tupleVarT hl => simp [isJson] at hj
  | .tupleFix ts, j, v, hw, hj, h => by
    cases h with
    | tupleFixL hl =>
      simp only [isJson] at hj
      simp only [toDict]
      exact .tupleFixL (admitsT_round ts _ _ (by simpa [wf] using hw) hj hl)
    | tupleFixT hl => simp [isJson] at hj
  | .dict t, j, v, hw, hj, h => by
    cases h with
    | dict hl =>
      simp only [isJson] at hj
      simp only [toDict]
      exact .dict (admitsK_round (fun x y hx hxy => admits_round t x y (by simpa [wf] using hw) hx hxy) _ _ hj hl)
  | .struct name fs, j, v, hw, hj, h => by
    cases h with
    | structDict hf hk =>
      simp only [isJson] at hj
      simp only [wf, Bool.and_eq_true, Bool.not_eq_eq_eq_not, Bool.not_true] at hw
      simp only [toDict]
      have hkeys := hf.keys
      refine .structDict (admitsF_round fs _ _ hw.2 hj hf (toDictK _) ?_) ?_
      · intro n y hm
        exact assoc_toDictK_of_nodup (by rw [hkeys]; exact hw.1) hm
      · rw [keysOf_toDictK, hkeys]; exact fun k hk => hk
    | structInst hf hk => simp [isJson] at hj
theorem admitsT_round : ∀ (ts : List Ty) (xs ys : List PV), wfL ts = true → isJsonL xs = true →
    AdmitsT ts xs ys → AdmitsT ts (toDictL ys) ys
  | [], xs, ys, _, _, h => by cases h; exact .nil
  | t :: ts, xs, ys, hw, hj, h => by
    cases h with
    | cons hx hr =>
      simp only [wfL, Bool.and_eq_true] at hw
      simp only [isJsonL, Bool.and_eq_true] at hj
      exact .cons (admits_round t _ _ hw.1 hj.1 hx) (admitsT_round ts _ _ hw.2 hj.2 hr)
theorem admitsF_round : ∀ (fs : List Field) (kvs items : List (Str × PV)), wfF fs = true → isJsonK kvs = true →
    AdmitsF fs kvs items →
    ∀ (all : List (Str × PV)), (∀ n y, (n, y) ∈ items → assoc n all = some (toDict y)) → AdmitsF fs all items
  | [], kvs, items, _, _, h, all, _ => by cases h; exact .nil all
  | (n, t, d) :: fs, kvs, items, hw, hj, h, all, hall => by
    simp only [wfF, Bool.and_eq_true] at hw
    cases h with
    | present ha hx hr =>
      refine .present (hall _ _ (by simp)) (admits_round t _ _ hw.1.1 (isJson_of_assoc hj ha) hx) ?_
      exact admitsF_round fs kvs _ hw.1.2 hj hr all (fun n y hm => hall n y (by simp [hm]))
    | default ha hr =>
      rename_i dv items'
      have hd := hw.2
      simp only [defaultOk] at hd
      cases hp : parseValue t (toDict dv) [] with
      | error e => simp [hp] at hd
      | ok dv' =>
        simp only [hp] at hd
        have := beq_eq dv' dv hd; subst this
        refine .present (hall _ _ (by simp)) (admits_of_ok t _ _ _ hp) ?_
        exact admitsF_round fs kvs _ hw.1.2 hj hr all (fun n y hm => hall n y (by simp [hm]))
end

end QmiModel.Config
