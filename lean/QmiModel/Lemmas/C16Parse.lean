import QmiModel.Lemmas.C16Spec
/-!
# C16 — lemmas about `parseValue`: unfolding, soundness/completeness against `Admits`
-/
namespace QmiModel.Config

/-! ## unfolding -/

theorem parseValue_any (v : PV) (p : Path) : parseValue .any v p = .ok v := by
  simp [parseValue]

theorem parseValue_opt_none (t : Ty) (p : Path) : parseValue (.opt t) .none p = .ok .none := by
  simp [parseValue]

theorem parseValue_opt_of_ne (t : Ty) (v : PV) (p : Path) (h : v ≠ .none) :
    parseValue (.opt t) v p = parseValue t v p := by
  cases v <;> simp [parseValue] at h ⊢

theorem parseValue_float_int (n : Int) (p : Path) :
    parseValue .float (.int n) p = if floatOverflow n then mismatch p else .ok (.fltOfInt n) := by
  simp only [parseValue]

theorem parseValue_tupleFix_list (ts : List Ty) (xs : List PV) (p : Path) :
    parseValue (.tupleFix ts) (.list xs) p =
      if xs.length = ts.length then okMap .tuple (parseTuple ts xs 0 p) else mismatch p := by
  simp only [parseValue]

theorem parseValue_tupleFix_tuple (ts : List Ty) (xs : List PV) (p : Path) :
    parseValue (.tupleFix ts) (.tuple xs) p =
      if xs.length = ts.length then okMap .tuple (parseTuple ts xs 0 p) else mismatch p := by
  simp only [parseValue]

theorem parseValue_struct_dict (n : Str) (fs : List Field) (kvs : List (Str × PV)) (p : Path) :
    parseValue (.struct n fs) (.dict kvs) p = structResult n (fieldNames fs) kvs p (parseFields fs kvs p) := by
  simp [parseValue]

theorem parseValue_struct_inst (n c : Str) (fs : List Field) (ifs : List (Str × PV)) (p : Path) :
    parseValue (.struct n fs) (.inst c ifs) p =
      structResult n (fieldNames fs) ifs p (parseFields fs ifs p) := by
  simp [parseValue]

theorem okMap_ok {α β : Type} (f : α → β) (r : R α) (b : β) :
    okMap f r = .ok b ↔ ∃ a, r = .ok a ∧ f a = b := by
  cases r <;> simp [okMap]

theorem okMap_error {α β : Type} (f : α → β) (r : R α) (e : PyExc) :
    okMap f r = .error e ↔ r = .error e := by
  cases r <;> simp [okMap]

theorem contains_iff (names : List Str) (k : Str) : names.contains k = true ↔ k ∈ names := by
  simp

theorem firstUnknown_none (names : List Str) (kvs : List (Str × PV)) :
    firstUnknown names kvs = .none ↔ ∀ k ∈ keysOf kvs, k ∈ names := by
  induction kvs with
  | nil => simp [firstUnknown, keysOf]
  | cons kv kvs ih =>
    obtain ⟨k, v⟩ := kv
    simp only [firstUnknown, keysOf, List.mem_cons, forall_eq_or_imp]
    by_cases hk : k ∈ names
    · simp [hk, ih]
    · simp [hk]

theorem firstUnknown_some (names : List Str) (kvs : List (Str × PV)) (k : Str) :
    firstUnknown names kvs = some k → k ∈ keysOf kvs ∧ k ∉ names := by
  induction kvs with
  | nil => simp [firstUnknown]
  | cons kv kvs ih =>
    obtain ⟨k', v⟩ := kv
    simp only [firstUnknown, keysOf, List.mem_cons]
    by_cases hk : k' ∈ names
    · simp only [List.contains_eq_mem, hk, decide_true, if_true]
      intro h; exact ⟨Or.inr (ih h).1, (ih h).2⟩
    · simp only [List.contains_eq_mem, hk, decide_false]
      intro h; simp at h; subst h; exact ⟨Or.inl rfl, hk⟩

theorem structResult_ok (name : Str) (names : List Str) (kvs : List (Str × PV)) (p : Path)
    (r : R (List (Str × PV))) (v : PV) :
    structResult name names kvs p r = .ok v ↔
      ∃ items, r = .ok items ∧ (∀ k ∈ keysOf kvs, k ∈ names) ∧ v = .inst name items := by
  cases r with
  | error e => simp [structResult]
  | ok items =>
    simp only [structResult]
    cases hu : firstUnknown names kvs with
    | none =>
      have := (firstUnknown_none names kvs).1 hu
      constructor
      · intro h; cases h; exact ⟨items, rfl, this, rfl⟩
      · rintro ⟨items', h1, _, h3⟩; cases h1; rw [h3]
    | some k =>
      have := firstUnknown_some names kvs k hu
      simp only [reduceCtorEq, Except.ok.injEq, exists_eq_left', false_iff, not_and]
      intro hall; exact absurd (hall k this.1) this.2

/-! ## the element loops -/

theorem mapIdx_ok_admitsL {t : Ty} {f : Nat → PV → R PV} (hf : ∀ i x y, f i x = .ok y → Admits t x y) :
    ∀ (xs : List PV) (i : Nat) (ys : List PV), mapIdx f i xs = .ok ys → AdmitsL t xs ys := by
  intro xs
  induction xs with
  | nil => intro i ys h; simp [mapIdx] at h; subst h; exact .nil t
  | cons x xs ih =>
    intro i ys h
    simp only [mapIdx] at h
    cases hx : f i x with
    | error e => simp [hx] at h
    | ok y =>
      cases hr : mapIdx f (i + 1) xs with
      | error e => simp [hx, hr] at h
      | ok ys' =>
        simp [hx, hr] at h; subst h
        exact .cons (hf i x y hx) (ih (i + 1) ys' hr)

theorem mapIdx_of_admitsL {t : Ty} {f : Nat → PV → R PV} (hf : ∀ x y, Admits t x y → ∀ i, f i x = .ok y) :
    ∀ (xs ys : List PV) (i : Nat), AdmitsL t xs ys → mapIdx f i xs = .ok ys := by
  intro xs
  induction xs with
  | nil => intro ys i h; cases h; simp [mapIdx]
  | cons x xs ih =>
    intro ys i h
    cases h with
    | cons hx hr => simp [mapIdx, hf _ _ hx i, ih _ (i + 1) hr]

theorem mapKV_ok_admitsK {t : Ty} {f : Str → PV → R PV} (hf : ∀ k x y, f k x = .ok y → Admits t x y) :
    ∀ (kvs kvs' : List (Str × PV)), mapKV f kvs = .ok kvs' → AdmitsK t kvs kvs' := by
  intro kvs
  induction kvs with
  | nil => intro kvs' h; simp [mapKV] at h; subst h; exact .nil t
  | cons kv kvs ih =>
    obtain ⟨k, x⟩ := kv
    intro kvs' h
    simp only [mapKV] at h
    cases hx : f k x with
    | error e => simp [hx] at h
    | ok y =>
      cases hr : mapKV f kvs with
      | error e => simp [hx, hr] at h
      | ok ys' =>
        simp [hx, hr] at h; subst h
        exact .cons (hf k x y hx) (ih ys' hr)

theorem mapKV_of_admitsK {t : Ty} {f : Str → PV → R PV} (hf : ∀ x y, Admits t x y → ∀ k, f k x = .ok y) :
    ∀ (kvs kvs' : List (Str × PV)), AdmitsK t kvs kvs' → mapKV f kvs = .ok kvs' := by
  intro kvs
  induction kvs with
  | nil => intro kvs' h; cases h; simp [mapKV]
  | cons kv kvs ih =>
    intro kvs' h
    cases h with
    | cons hx hr => simp [mapKV, hf _ _ hx, ih _ hr]

/-! ## `parseValue … = ok v → Admits …` -/

mutual
theorem admits_of_ok : ∀ (τ : Ty) (j : PV) (p : Path) (v : PV), parseValue τ j p = .ok v → Admits τ j v
  | .any, j, p, v, h => by
    rw [parseValue_any] at h; cases h; exact .any j
  | .opt t, j, p, v, h => by
    by_cases hj : j = .none
    · subst hj; rw [parseValue_opt_none] at h; cases h; exact .optNone t
    · rw [parseValue_opt_of_ne _ _ _ hj] at h; exact .optSome hj (admits_of_ok t j p v h)
  | .int, j, p, v, h => by
    cases j <;> simp [parseValue, mismatch] at h <;> subst h
    · exact .intBool _
    · exact .intInt _
  | .float, j, p, v, h => by
    cases j with
    | int n =>
      rw [parseValue_float_int] at h
      cases hf : floatOverflow n with
      | true => simp [hf, mismatch] at h
      | false => simp [hf] at h; subst h; exact .floatInt _ hf
    | bool b => simp [parseValue] at h; subst h; exact .floatBool _
    | flt l => simp [parseValue] at h; subst h; exact .floatFlt _
    | fltOfInt n => simp [parseValue] at h; subst h; exact .floatConv _
    | _ => simp [parseValue, mismatch] at h
  | .str, j, p, v, h => by
    cases j <;> simp [parseValue, mismatch] at h; subst h; exact .str _
  | .bool, j, p, v, h => by
    cases j <;> simp [parseValue, mismatch] at h; subst h; exact .bool _
  | .never, j, p, v, h => by simp [parseValue, mismatch] at h
  | .listAny, j, p, v, h => by
    cases j <;> simp [parseValue, mismatch] at h; subst h; exact .listAny _
  | .tupleAny, j, p, v, h => by
    cases j <;> simp [parseValue, mismatch] at h <;> subst h
    · exact .tupleAnyL _
    · exact .tupleAnyT _
  | .dictAny, j, p, v, h => by
    cases j <;> simp [parseValue, mismatch] at h; subst h; exact .dictAny _
  | .list t, j, p, v, h => by
    cases j <;> simp [parseValue, mismatch, okMap_ok] at h
    obtain ⟨ys, h1, h2⟩ := h; subst h2
    exact .list (mapIdx_ok_admitsL (fun i x y hx => admits_of_ok t x _ y hx) _ _ _ h1)
  | .tupleVar t, j, p, v, h => by
    cases j <;> simp [parseValue, mismatch, okMap_ok] at h
    · obtain ⟨ys, h1, h2⟩ := h; subst h2
      exact .tupleVarL (mapIdx_ok_admitsL (fun i x y hx => admits_of_ok t x _ y hx) _ _ _ h1)
    · obtain ⟨ys, h1, h2⟩ := h; subst h2
      exact .tupleVarT (mapIdx_ok_admitsL (fun i x y hx => admits_of_ok t x _ y hx) _ _ _ h1)
  | .tupleFix ts, j, p, v, h => by
    cases j with
    | list xs =>
      rw [parseValue_tupleFix_list] at h
      by_cases hl : xs.length = ts.length
      · simp only [hl, if_true, okMap_ok] at h
        obtain ⟨ys, h1, h2⟩ := h; subst h2
        exact .tupleFixL (admitsT_of_ok ts _ 0 p ys hl h1)
      · simp [hl, mismatch] at h
    | tuple xs =>
      rw [parseValue_tupleFix_tuple] at h
      by_cases hl : xs.length = ts.length
      · simp only [hl, if_true, okMap_ok] at h
        obtain ⟨ys, h1, h2⟩ := h; subst h2
        exact .tupleFixT (admitsT_of_ok ts _ 0 p ys hl h1)
      · simp [hl, mismatch] at h
    | _ => simp [parseValue, mismatch] at h
  | .dict t, j, p, v, h => by
    cases j <;> simp [parseValue, mismatch, okMap_ok] at h
    obtain ⟨ys, h1, h2⟩ := h; subst h2
    exact .dict (mapKV_ok_admitsK (fun k x y hx => admits_of_ok t x _ y hx) _ _ h1)
  | .struct name fs, j, p, v, h => by
    cases j with
    | dict kvs =>
      rw [parseValue_struct_dict, structResult_ok] at h
      obtain ⟨items, h1, h2, h3⟩ := h; subst h3
      exact .structDict (admitsF_of_ok fs kvs p items h1) h2
    | inst c ifs =>
      rw [parseValue_struct_inst, structResult_ok] at h
      obtain ⟨items, h1, h2, h3⟩ := h; subst h3
      exact .structInst (admitsF_of_ok fs _ p items h1) h2
    | _ => simp [parseValue, mismatch] at h
theorem admitsT_of_ok : ∀ (ts : List Ty) (xs : List PV) (i : Nat) (p : Path) (ys : List PV),
    xs.length = ts.length → parseTuple ts xs i p = .ok ys → AdmitsT ts xs ys
  | [], xs, i, p, ys, hl, h => by
    cases xs with
    | nil => simp [parseTuple] at h; subst h; exact .nil
    | cons x xs => simp at hl
  | t :: ts, xs, i, p, ys, hl, h => by
    cases xs with
    | nil => simp at hl
    | cons x xs =>
      simp only [parseTuple] at h
      cases hx : parseValue t x (p ++ [.idx i]) with
      | error e => simp [hx] at h
      | ok y =>
        cases hr : parseTuple ts xs (i + 1) p with
        | error e => simp [hx, hr] at h
        | ok ys' =>
          simp [hx, hr] at h; subst h
          exact .cons (admits_of_ok t x _ y hx) (admitsT_of_ok ts xs (i + 1) p ys' (by simpa using hl) hr)
theorem admitsF_of_ok : ∀ (fs : List Field) (kvs : List (Str × PV)) (p : Path) (items : List (Str × PV)),
    parseFields fs kvs p = .ok items → AdmitsF fs kvs items
  | [], kvs, p, items, h => by
    simp [parseFields] at h; subst h; exact .nil kvs
  | (n, t, d) :: fs, kvs, p, items, h => by
    simp only [parseFields] at h
    cases ha : assoc n kvs with
    | some x =>
      simp only [ha] at h
      cases hx : parseValue t x (p ++ [.field n]) with
      | error e => simp [hx] at h
      | ok y =>
        cases hr : parseFields fs kvs p with
        | error e => simp [hx, hr] at h
        | ok ys' =>
          simp [hx, hr] at h; subst h
          exact .present ha (admits_of_ok t x _ y hx) (admitsF_of_ok fs kvs p ys' hr)
    | none =>
      simp only [ha] at h
      cases d with
      | none => simp at h
      | some dv =>
        cases hr : parseFields fs kvs p with
        | error e => simp [hr] at h
        | ok ys' =>
          simp [hr] at h; subst h
          exact .default ha (admitsF_of_ok fs kvs p ys' hr)
end

/-! ## `Admits … → parseValue … = ok v` (for every path) -/

theorem structResult_of (name : Str) (names : List Str) (kvs : List (Str × PV)) (p : Path)
    (items : List (Str × PV)) (h : ∀ k ∈ keysOf kvs, k ∈ names) :
    structResult name names kvs p (.ok items) = .ok (.inst name items) :=
  (structResult_ok name names kvs p (.ok items) _).2 ⟨items, rfl, h, rfl⟩

theorem AdmitsT.length_eq {ts : List Ty} {xs ys : List PV} (h : AdmitsT ts xs ys) :
    xs.length = ts.length ∧ ys.length = ts.length := by
  induction ts generalizing xs ys with
  | nil => cases h; simp
  | cons t ts ih =>
    cases h with
    | cons hx hr => have := ih hr; simp [this.1, this.2]

mutual
theorem ok_of_admits : ∀ (τ : Ty) (j v : PV), Admits τ j v → ∀ p, parseValue τ j p = .ok v
  | .any, j, v, h, p => by cases h; exact parseValue_any _ _
  | .opt t, j, v, h, p => by
    cases h with
    | optNone => exact parseValue_opt_none _ _
    | optSome hj h' => rw [parseValue_opt_of_ne _ _ _ hj]; exact ok_of_admits t j v h' p
  | .int, j, v, h, p => by cases h <;> simp [parseValue]
  | .float, j, v, h, p => by
    cases h with
    | floatInt n hf => rw [parseValue_float_int]; simp [hf]
    | _ => simp [parseValue]
  | .str, j, v, h, p => by cases h; simp [parseValue]
  | .bool, j, v, h, p => by cases h; simp [parseValue]
  | .never, j, v, h, p => by cases h
  | .listAny, j, v, h, p => by cases h; simp [parseValue]
  | .tupleAny, j, v, h, p => by cases h <;> simp [parseValue]
  | .dictAny, j, v, h, p => by cases h; simp [parseValue]
  | .list t, j, v, h, p => by
    cases h with
    | list hl =>
      simp only [parseValue, okMap_ok]
      exact ⟨_, mapIdx_of_admitsL (fun x y hxy i => ok_of_admits t x y hxy _) _ _ 0 hl, rfl⟩
  | .tupleVar t, j, v, h, p => by
    cases h with
    | tupleVarL hl =>
      simp only [parseValue, okMap_ok]
      exact ⟨_, mapIdx_of_admitsL (fun x y hxy i => ok_of_admits t x y hxy _) _ _ 0 hl, rfl⟩
    | tupleVarT hl =>
      simp only [parseValue, okMap_ok]
      exact ⟨_, mapIdx_of_admitsL (fun x y hxy i => ok_of_admits t x y hxy _) _ _ 0 hl, rfl⟩
  | .tupleFix ts, j, v, h, p => by
    cases h with
    | tupleFixL hl =>
      rw [parseValue_tupleFix_list]
      simp only [hl.length_eq.1, if_true, okMap_ok]
      exact ⟨_, okT_of_admitsT ts _ _ hl 0 p, rfl⟩
    | tupleFixT hl =>
      rw [parseValue_tupleFix_tuple]
      simp only [hl.length_eq.1, if_true, okMap_ok]
      exact ⟨_, okT_of_admitsT ts _ _ hl 0 p, rfl⟩
  | .dict t, j, v, h, p => by
    cases h with
    | dict hl =>
      simp only [parseValue, okMap_ok]
      exact ⟨_, mapKV_of_admitsK (fun x y hxy k => ok_of_admits t x y hxy _) _ _ hl, rfl⟩
  | .struct name fs, j, v, h, p => by
    cases h with
    | structDict hf hk =>
      rw [parseValue_struct_dict, okF_of_admitsF fs _ _ hf p]
      exact structResult_of _ _ _ _ _ hk
    | structInst hf hk =>
      rw [parseValue_struct_inst, okF_of_admitsF fs _ _ hf p]
      exact structResult_of _ _ _ _ _ hk
theorem okT_of_admitsT : ∀ (ts : List Ty) (xs ys : List PV), AdmitsT ts xs ys →
    ∀ i p, parseTuple ts xs i p = .ok ys
  | [], xs, ys, h, i, p => by cases h; simp [parseTuple]
  | t :: ts, xs, ys, h, i, p => by
    cases h with
    | cons hx hr =>
      simp [parseTuple, ok_of_admits t _ _ hx, okT_of_admitsT ts _ _ hr]
theorem okF_of_admitsF : ∀ (fs : List Field) (kvs items : List (Str × PV)), AdmitsF fs kvs items →
    ∀ p, parseFields fs kvs p = .ok items
  | [], kvs, items, h, p => by cases h; simp [parseFields]
  | (n, t, d) :: fs, kvs, items, h, p => by
    cases h with
    | present ha hx hr =>
      simp [parseFields, ha, ok_of_admits t _ _ hx, okF_of_admitsF fs _ _ hr]
    | default ha hr =>
      simp [parseFields, ha, okF_of_admitsF fs _ _ hr]
end

/-- **soundness and completeness of the parser against the specification** -/
theorem parse_ok_iff_admits (τ : Ty) (j v : PV) (p : Path) :
    parseValue τ j p = .ok v ↔ Admits τ j v :=
  ⟨admits_of_ok τ j p v, fun h => ok_of_admits τ j v h p⟩

/-- a successful result does not depend on the path (paths only label errors) -/
theorem ok_path_indep (τ : Ty) (j v : PV) (p q : Path) (h : parseValue τ j p = .ok v) :
    parseValue τ j q = .ok v :=
  ok_of_admits τ j v (admits_of_ok τ j p v h) q

end QmiModel.Config
