import QmiModel.Model.WakeSys
import QmiModel.Model.WakeEnc
import QmiModel.Gen.WakeCert
/-!
# C11 — chunk obligations of the larger systems (the loop task whose hooks may themselves wait — part 1 of 2)

The reachable set of `sysLoopW` is not computed by the kernel: `Gen/WakeCert.lean` holds it as a table of packed states
(written by the compiled driver on every run); each theorem below re-checks one chunk of the table — every entry satisfies
the state obligations and all its successors are in the table again (`chunkOk`, see `Model/WakeEnc.lean`).  Glued in
`Props/C11.lean` by `cert_chunks_sound`.
-/
namespace QmiModel.C11
open QmiModel.Wake QmiModel.Wake.Systems QmiModel.Gen.WakeCert

set_option maxRecDepth 200000 in
theorem loopW_init : initOk sysLoopW certLoopW nbkLoopW = true := by decide +kernel

set_option maxRecDepth 200000 in
theorem loopW_chunk_0 : chunkOk sysLoopW (goodLoop sysLoopW) certLoopW nbkLoopW 0 = true := by decide +kernel

set_option maxRecDepth 200000 in
theorem loopW_chunk_1 : chunkOk sysLoopW (goodLoop sysLoopW) certLoopW nbkLoopW 1 = true := by decide +kernel

set_option maxRecDepth 200000 in
theorem loopW_chunk_2 : chunkOk sysLoopW (goodLoop sysLoopW) certLoopW nbkLoopW 2 = true := by decide +kernel

end QmiModel.C11
