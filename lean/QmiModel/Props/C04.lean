import QmiModel.Lemmas.C04
/-!
# C04 — object lock: one owner at a time, and only the owner gets through

Property theorems only.  Model: `Model/Lock.lean` (server side = the table `Gen/LockFsm.lean`, generated on every
run by *executing* the real `_RpcThread._handle_lock_rpc_request` / `_handle_method_rpc_request`; proxy side and
token source hand-written after `QMI_RpcProxy` / `QMI_Context.make_unique_token`).

Quantification.  The step-level theorems hold for **every** system state `s : Sys` — any number of context
instances (same-named or not), any number of proxies, any remembered tokens, reachable or not — and therefore for
every state of every finite history.  The history-level theorems (`nb_token_in_sync`, `auto_tokens_distinct_*`,
`no_hang_without_force_on_unlocked`) are proved by induction over an arbitrary `List Op` from `init srv` through the
inductive invariant `Inv` (`Lemmas/C04.lean`); `trace_mem` turns any step-level theorem into a statement about every
entry of `trace (init srv) ops`.

History.  On the pinned tree (04de7e7) three statements were false of the faithful model and were carried as `_partial` +
negation witness; all three were repaired in /repo and are now proved at full strength:

* `gen_eq_spec`, `lock_requests_total` — FORCE_RELEASE of an unlocked object used to raise `UnboundLocalError` in the
  worker thread (fixed by 5177c53: the generated table now answers `None` in that cell);
* `auto_tokens_distinct`, `only_holder_executes` — same-named client contexts used to generate the same token
  `(name, "$lock_1")` (fixed by 93903ab: tokens carry the per-instance identifier `_instance_id`; the theorems assume
  what cannot be a theorem, that the identifiers drawn from `os.urandom` by distinct instances differ);
* `lock_granted_means_owner` — a denied `lock(lock_token="__ACCESS_DENIED__")` from a context named like the owning one
  used to be reported as granted (fixed by 51f8317: the reply placeholders are refused as custom tokens).
-/
namespace QmiModel.Lock

/-! ## Example states used for the non-vacuity `example`s -/

/-- owning context `srv`, clients `cli` and `gui`, one proxy each (0 in `cli`, 1 in `gui`, 2 in `srv`);
proxy 0 holds the lock with the automatic token `("cli", "$lock_b1_1")` -/
def wLocked : Sys :=
  exec (init "srv" "a0") [.newCtx "cli" "b1", .newCtx "gui" "c2", .newProxy 1, .newProxy 2, .newProxy 0, .lock 0 none]

/-- the same population, nobody holds the lock -/
def wFree : Sys :=
  exec (init "srv" "a0") [.newCtx "cli" "b1", .newCtx "gui" "c2", .newProxy 1, .newProxy 2, .newProxy 0]

/-- the owning context's proxy holds the lock with the custom token `("srv", "x")` -/
def wDenied : Sys := exec (init "srv" "a0") [.newProxy 0, .lock 0 (some "x")]

/-- two same-named clients (distinct instance identifiers) lock, then both call -/
def sameNameOps : List Op :=
  [.newCtx "cli" "b1", .newCtx "cli" "c2", .newProxy 1, .newProxy 2, .lock 0 none, .lock 1 none, .call 1 false,
   .call 0 true]

/-! ## 1. The generated lock table equals the reference -/

/-- generated = reference for every action, every owner, every request token (all token values, not only the finite
abstraction) a proxy can issue: every request is answered as the reference lock answers it; no cell crashes -/
theorem gen_eq_spec (srv : String) (owner : Option Token) (a : Act) (req : Option Token) (hi : issuable a req) :
    lockStep srv owner a req = .ok (lockSpec srv owner a req) :=
  lockStep_spec srv owner a req hi

example : lockStep "srv" (some ⟨"cli", "$lock_b1_1"⟩) .acquire (some ⟨"gui", "$lock_c2_1"⟩)
    = .ok (some ⟨"cli", "$lock_b1_1"⟩, some (deniedTok "srv")) := by rfl

/-- on the finite abstraction: no cell a proxy can reach crashes (case split over the generated table) -/
theorem gen_no_crash (a : Act) (l : Bool) (r : Rel) (hi : a = .acquire → r ≠ .none) :
    ∃ st rep, Gen.LockFsm.table a l r = .ok st rep := by
  cases a <;> cases l <;> cases r <;> simp_all [Gen.LockFsm.table]

/-- OBLIGATION on the generated queue facts: the worker's request queue is constructed unbounded (and used as
`append`/`popleft` FIFO — the translator refuses anything else).  The model has no overflow behaviour: every request
delivered to an object is handled, in order, and answered (`lock_requests_total`).  A bounded queue would have to
bring its bound and what happens to the displaced request into the model first. -/
theorem gen_worker_queue_unbounded : Gen.LockFsm.workerQueueBound = none := by decide

/-- the generated dispatch guard is `self._locking_token is None or self._locking_token == request.lock_token` -/
theorem guard_eq_spec (owner req : Option Token) :
    guardStep owner req = if dispatchGuard owner req then .exec else .refused :=
  guardStep_spec owner req

/-! ## 2. Single owner -/

/-- while the object is locked by `o`, a `lock()` never changes the owner; it is granted only to a request carrying
`o` itself (a custom token shared on purpose) and denied — result `False`, proxy bookkeeping untouched — to every
other token -/
theorem single_owner {s : Sys} {p : Nat} {custom : Option String} {o t : Token}
    (halive : s.dead = none) (ho : s.owner = some o) (ht : lockToken s p custom = some t) :
    (step s (.lock p custom)).1.owner = some o ∧
    (t = o → (step s (.lock p custom)).2 = .bool true) ∧
    (t ≠ o → (step s (.lock p custom)).2 = .bool false ∧ (step s (.lock p custom)).1.proxies = s.proxies) := by
  have hd := lockToken_ne_denied ht
  obtain ⟨px, c, hp, hc, hr, rfl⟩ := lockToken_some ht
  have hf := lockPre_frame s p px c custom
  simp only [step, proxyLock_alive hp hc hr halive, ho, lockSpec]
  by_cases h : (lockPre s p px c custom).2 = o
  · simp [h, setProxyTok]
  · have h' : ¬ o = (lockPre s p px c custom).2 := fun e => h e.symm
    simp only [Option.some.injEq, h, ↓reduceIte]
    refine ⟨by split <;> simp [setProxyTok], fun e => e.elim, fun _ => ?_⟩
    have hd' : ¬ deniedTok s.srv = (lockPre s p px c custom).2 := fun e => hd e.symm
    simp [hd', hf.2.2.2.1]

example : wLocked.dead = none ∧ wLocked.owner = some (mkToken "cli" "b1" 1) ∧
    lockToken wLocked 1 none = some (mkToken "gui" "c2" 1) ∧ mkToken "gui" "c2" 1 ≠ mkToken "cli" "b1" 1 := by decide

/-- a `lock()` on a free object is granted: the request token becomes the owner and the proxy remembers it (in
both of its token fields) -/
theorem lock_free_object {s : Sys} {p : Nat} {custom : Option String} {t : Token}
    (halive : s.dead = none) (ho : s.owner = none) (ht : lockToken s p custom = some t) :
    (step s (.lock p custom)).1.owner = some t ∧ (step s (.lock p custom)).2 = .bool true ∧
    ∃ px, (step s (.lock p custom)).1.proxies[p]? = some px ∧ px.tok = some t ∧ px.nbTok = some t := by
  obtain ⟨px, c, hp, hc, hr, rfl⟩ := lockToken_some ht
  have hf := lockPre_frame s p px c custom
  have hlt : p < s.proxies.length := (List.getElem?_eq_some_iff.1 hp).1
  simp only [step, proxyLock_alive hp hc hr halive, ho, lockSpec]
  simp [setProxyTok, hf.2.2.2.1, hlt]

example : wFree.dead = none ∧ wFree.owner = none ∧ lockToken wFree 1 (some "x") = some ⟨"gui", "x"⟩ := by decide

/-- `lock()` returned `True` ⇒ the caller's token owns the object -/
theorem lock_granted_means_owner {s : Sys} {p : Nat} {custom : Option String} {t : Token}
    (halive : s.dead = none) (ht : lockToken s p custom = some t)
    (hout : (step s (.lock p custom)).2 = .bool true) :
    (step s (.lock p custom)).1.owner = some t := by
  have hd := lockToken_ne_denied ht
  obtain ⟨px, c, hp, hc, hr, rfl⟩ := lockToken_some ht
  have hd' : ¬ deniedTok s.srv = (lockPre s p px c custom).2 := fun e => hd e.symm
  simp only [step, proxyLock_alive hp hc hr halive] at hout ⊢
  cases ho : s.owner with
  | none => simp [lockSpec, setProxyTok]
  | some o =>
    rw [ho] at hout
    simp only [lockSpec] at hout ⊢
    by_cases h : (lockPre s p px c custom).2 = o
    · simp [h, setProxyTok]
    · have h' : ¬ o = (lockPre s p px c custom).2 := fun e => h e.symm
      simp [h, hd'] at hout

example : wFree.dead = none ∧ lockToken wFree 0 none = some (mkToken "cli" "b1" 1) ∧
    (step wFree (.lock 0 none)).2 = .bool true := by decide

/-- the strings used in lock replies are refused as custom tokens before anything is sent or changed
(`QMI_UsageException`); this is what closes the former hole, shown here on the former counter-example -/
theorem reserved_token_refused {s : Sys} {p : Nat} {custom : Option String} (hv : validProxy s p)
    (hr : reservedCustom custom = true) : step s (.lock p custom) = (s, .usage) := by
  obtain ⟨px, c, hp, hc⟩ := hv
  simp only [step]
  exact proxyLock_reserved hp hc hr

example : step wDenied (.lock 0 (some "__ACCESS_DENIED__")) = (wDenied, .usage) ∧ wDenied.owner = some ⟨"srv", "x"⟩ := by
  decide

/-! ## 3. Only the owner executes -/

/-- a method body ran ⇒ the worker was alive and the object was unlocked or the call carried the owner token; the
side-effect counter went up by exactly one and is the returned value -/
theorem only_owner_executes {s : Sys} {p : Nat} {nb : Bool} {n : Nat}
    (hout : (step s (.call p nb)).2 = .ran n) :
    s.dead = none ∧ (s.owner = none ∨ callToken s p nb = some s.owner) ∧
    (step s (.call p nb)).1.count = s.count + 1 ∧ n = s.count + 1 := by
  simp only [step] at hout ⊢
  cases hp : s.proxies[p]? with
  | none => simp [proxyCall, hp] at hout
  | some px =>
    rw [proxyCall_eq hp] at hout ⊢
    rw [callToken_eq hp]
    cases hd : s.dead with
    | some e => rw [callRequest_dead _ (by simp [hd])] at hout; cases hout
    | none =>
      rw [callRequest_spec _ hd] at hout ⊢
      cases ho : s.owner with
      | none => simp_all [dispatchGuard]
      | some o =>
        by_cases hg : (if nb then px.nbTok else px.tok) = some o
        · simp_all [dispatchGuard]
        · simp [dispatchGuard, ho, hg] at hout

example : (step wLocked (.call 0 true)).2 = .ran 1 ∧ (step wFree (.call 1 false)).2 = .ran 1 := by decide

/-- locked, and the call carries anything but the owner token (including no token): the reply is `locked` and
*nothing* changed — in particular the side-effect counter -/
theorem refused_without_executing {s : Sys} {p : Nat} {nb : Bool} {o : Token} {tk : Option Token}
    (halive : s.dead = none) (ho : s.owner = some o) (ht : callToken s p nb = some tk) (hne : tk ≠ some o) :
    step s (.call p nb) = (s, .locked) := by
  simp only [step]
  cases hp : s.proxies[p]? with
  | none => simp [callToken, hp] at ht
  | some px =>
    rw [callToken_eq hp] at ht
    cases ht
    rw [proxyCall_eq hp, callRequest_spec _ halive]
    simp [dispatchGuard, ho, hne]

example : wLocked.dead = none ∧ wLocked.owner = some (mkToken "cli" "b1" 1) ∧ callToken wLocked 1 false = some none := by
  decide

/-- conversely the owner (and everybody, when unlocked) gets through -/
theorem owner_gets_through {s : Sys} {p : Nat} {nb : Bool}
    (halive : s.dead = none) (ht : s.owner = none ∨ callToken s p nb = some s.owner) (hv : (callToken s p nb).isSome) :
    step s (.call p nb) = ({ s with count := s.count + 1 }, .ran (s.count + 1)) := by
  simp only [step]
  cases hp : s.proxies[p]? with
  | none => simp [callToken, hp] at hv
  | some px =>
    rw [callToken_eq hp] at ht
    rw [proxyCall_eq hp, callRequest_spec _ halive]
    rcases ht with ht | ht
    · simp [dispatchGuard, ht]
    · cases ho : s.owner with
      | none => simp [dispatchGuard]
      | some o =>
        rw [ho] at ht
        simp only [Option.some.injEq] at ht
        simp [dispatchGuard, ht]

/-- the side-effect counter of an object changes in no step other than a method call that answers `ran` (removing
the object and creating it again under the same name gives a *new* object, whose counter starts at 0) -/
theorem count_changes_only_by_execution (s : Sys) (op : Op) (hop : op ≠ .recreate) :
    (step s op).1.count = s.count ∨
    (∃ p nb, op = .call p nb ∧ (step s op).2 = .ran (s.count + 1) ∧ (step s op).1.count = s.count + 1) := by
  cases op with
  | recreate => exact absurd rfl hop
  | stopCtx c => left; rfl
  | newCtx name nonce => left; rfl
  | newProxy c => left; simp only [step]; split <;> rfl
  | burn c => left; simp only [step]; split <;> rfl
  | lock p custom =>
    left
    simp only [step]
    unfold proxyLock
    cases hp : s.proxies[p]? with
    | none => rfl
    | some px =>
      dsimp only
      cases hc : s.ctxs[px.ctx]? with
      | none => rfl
      | some c =>
        dsimp only
        split
        · rfl
        · have hf := lockRequest_frame (lockPre s p px c custom).1 .acquire (some (lockPre s p px c custom).2)
          have hf2 := lockPre_frame s p px c custom
          generalize lockRequest (lockPre s p px c custom).1 .acquire (some (lockPre s p px c custom).2) = r at hf ⊢
          rcases r with ⟨s2, _ | their⟩
          · dsimp only at hf ⊢; rw [hf.2.2.2.1, hf2.2.2.2.2]
          · dsimp only at hf ⊢; split <;> simp [setProxyTok, hf.2.2.2.1, hf2.2.2.2.2]
  | unlock p custom =>
    left
    simp only [step]
    unfold proxyUnlock
    cases hp : s.proxies[p]? with
    | none => rfl
    | some px =>
      dsimp only
      cases hc : s.ctxs[px.ctx]? with
      | none => rfl
      | some c =>
        dsimp only
        have hf := lockRequest_frame s .release (unlockReq px c custom)
        generalize lockRequest s .release (unlockReq px c custom) = r at hf ⊢
        rcases r with ⟨s2, _ | their⟩
        · dsimp only at hf ⊢; rw [hf.2.2.2.1]
        · dsimp only at hf ⊢; split <;> simp [setProxyTok, hf.2.2.2.1]
  | forceUnlock p =>
    left
    simp only [step]
    unfold proxyForceUnlock
    cases hp : s.proxies[p]? with
    | none => rfl
    | some px =>
      dsimp only
      have hf := lockRequest_frame s .forceRelease px.tok
      generalize lockRequest s .forceRelease px.tok = r at hf ⊢
      rcases r with ⟨s2, _ | their⟩
      · dsimp only at hf ⊢; rw [hf.2.2.2.1]
      · dsimp only at hf ⊢; split <;> simp [setProxyTok, hf.2.2.2.1]
  | isLocked p =>
    left
    simp only [step]
    unfold proxyIsLocked
    cases hp : s.proxies[p]? with
    | none => rfl
    | some px =>
      dsimp only
      have hf := lockRequest_frame s .query px.tok
      generalize lockRequest s .query px.tok = r at hf ⊢
      rcases r with ⟨s2, _ | their⟩
      · dsimp only at hf ⊢; rw [hf.2.2.2.1]
      · dsimp only at hf ⊢; rw [hf.2.2.2.1]
  | call p nb =>
    simp only [step]
    cases hp : s.proxies[p]? with
    | none => left; simp [proxyCall, hp]
    | some px =>
      rw [proxyCall_eq hp]
      cases hd : s.dead with
      | some e => left; rw [callRequest_dead _ (by simp [hd])]
      | none =>
        rw [callRequest_spec _ hd]
        cases hg : dispatchGuard s.owner (if nb then px.nbTok else px.tok) with
        | true => right; exact ⟨p, nb, rfl, by simp, by simp⟩
        | false => left; simp

/-- history form of `only_owner_executes`: in every finite history from the initial state -/
theorem only_owner_executes_history (srv nonce : String) (ops : List Op) :
    ∀ e ∈ trace (init srv nonce) ops, ∀ p nb n, e.2.1 = .call p nb → e.2.2.2 = .ran n →
      e.1.owner = none ∨ callToken e.1 p nb = some e.1.owner := by
  intro e he p nb n hop hout
  obtain ⟨_, hstep⟩ := trace_mem he (Inv_init srv nonce)
  rw [hop] at hstep
  have : (step e.1 (.call p nb)).2 = .ran n := by rw [← hstep]; exact hout
  exact (only_owner_executes this).2.1

/-! ## 4. Released only by the owner's unlock or by force-unlock -/

/-- if a step ends an ownership, the object is unlocked afterwards (ownership is never handed over directly) and
the step was a force-unlock, an unlock whose request carried the owner token, or the removal of the object itself
(`recreate`: the lock dies with the object; the new object of the same name starts unlocked).  In particular a client
disconnect (`stopCtx`) does **not** release the lock. -/
theorem release_only_by_owner_or_force {s : Sys} {op : Op} {o : Token}
    (ho : s.owner = some o) (hne : (step s op).1.owner ≠ some o) :
    (step s op).1.owner = none ∧
    ((∃ p, op = .forceUnlock p) ∨ (∃ p custom, op = .unlock p custom ∧ unlockToken s p custom = some (some o)) ∨
      op = .recreate) := by
  cases op with
  | recreate => exact ⟨rfl, Or.inr (Or.inr rfl)⟩
  | stopCtx c => exact absurd ho hne
  | newCtx name nonce => exact absurd ho hne
  | newProxy c => simp only [step] at hne; split at hne <;> exact absurd ho hne
  | burn c => simp only [step] at hne; split at hne <;> exact absurd ho hne
  | lock p custom =>
    rcases owner_lock s p custom with h | ⟨h, _⟩
    · rw [h] at hne; exact absurd ho hne
    · rw [h] at ho; cases ho
  | unlock p custom =>
    rcases owner_unlock s p custom with h | ⟨_, h1, h2⟩
    · rw [h] at hne; exact absurd ho hne
    · exact ⟨h1, Or.inr (Or.inl ⟨p, custom, rfl, by rw [h2, ho]⟩)⟩
  | forceUnlock p =>
    rcases owner_force s p with h | h
    · rw [h] at hne; exact absurd ho hne
    · exact ⟨h, Or.inl ⟨p, rfl⟩⟩
  | isLocked p => rw [owner_isLocked] at hne; exact absurd ho hne
  | call p nb => rw [owner_call] at hne; exact absurd ho hne

example : wLocked.owner = some (mkToken "cli" "b1" 1) ∧
    (step wLocked (.unlock 0 none)).1.owner ≠ some (mkToken "cli" "b1" 1) ∧
    (step wLocked (.forceUnlock 1)).1.owner ≠ some (mkToken "cli" "b1" 1) := by decide

/-- the owner's unlock does release -/
theorem owner_unlock_releases {s : Sys} {p : Nat} {custom : Option String} {o : Token}
    (halive : s.dead = none) (ho : s.owner = some o) (ht : unlockToken s p custom = some (some o)) :
    (step s (.unlock p custom)).1.owner = none ∧ (step s (.unlock p custom)).2 = .bool true := by
  obtain ⟨px, c, hp, hc, h⟩ := unlockToken_some ht
  simp only [step, proxyUnlock_alive hp hc halive, ho, lockSpec, ← h]
  simp [setProxyTok]

/-- an unlock carrying any other token (or none) is denied and changes nothing -/
theorem foreign_unlock_denied {s : Sys} {p : Nat} {custom : Option String} {o : Token} {t : Option Token}
    (halive : s.dead = none) (ho : s.owner = some o) (ht : unlockToken s p custom = some t) (hne : t ≠ some o) :
    step s (.unlock p custom) = (s, .bool false) := by
  obtain ⟨px, c, hp, hc, h⟩ := unlockToken_some ht
  subst h
  simp only [step, proxyUnlock_alive hp hc halive, ho, lockSpec]
  simp only [hne, ↓reduceIte]
  have : ({ s with owner := some o } : Sys) = s := by cases s; simp_all
  simp [this]

example : wLocked.dead = none ∧ unlockToken wLocked 1 none = some none ∧
    unlockToken wLocked 1 (some "x") = some (some ⟨"gui", "x"⟩) := by decide

/-- history form: every end of an ownership in every finite history -/
theorem release_only_by_owner_or_force_history (srv nonce : String) (ops : List Op) :
    ∀ e ∈ trace (init srv nonce) ops, ∀ o, e.1.owner = some o → e.2.2.1.owner ≠ some o →
      e.2.2.1.owner = none ∧
      ((∃ p, e.2.1 = .forceUnlock p) ∨ (∃ p custom, e.2.1 = .unlock p custom ∧ unlockToken e.1 p custom = some (some o)) ∨
        e.2.1 = .recreate) := by
  intro e he o ho hne
  obtain ⟨_, hstep⟩ := trace_mem he (Inv_init srv nonce)
  have h1 : e.2.2.1 = (step e.1 e.2.1).1 := by rw [← hstep]
  rw [h1] at hne ⊢
  exact release_only_by_owner_or_force ho hne

/-! ## 4b. Object removal / re-creation under the same name, client disconnect -/

/-- a re-created object starts unlocked, serving, with a fresh side-effect counter; contexts, proxies (and what they
remember) and the log of generated tokens are untouched -/
theorem recreate_starts_unlocked (s : Sys) :
    (step s .recreate).1.owner = none ∧ (step s .recreate).1.dead = none ∧ (step s .recreate).1.count = 0 ∧
    (step s .recreate).1.proxies = s.proxies ∧ (step s .recreate).1.ctxs = s.ctxs ∧ (step s .recreate).1.gens = s.gens :=
  ⟨rfl, rfl, rfl, rfl, rfl, rfl⟩

/-- a client disconnect changes nothing on the server side: the lock survives (documented: `force_unlock()` is the
way out when the owning proxy no longer exists; a same-named new context can still unlock with the custom token) -/
theorem lock_survives_disconnect (s : Sys) (c : Nat) : step s (.stopCtx c) = (s, .unit) := rfl

/-- a stale token does not own the new object: the holder of the old object's lock (proxy 0, token `$lock_b1_1`) is
refused once somebody else (proxy 1) has locked the re-created object, although it still remembers its token -/
theorem stale_token_does_not_own_new_object :
    (run wLocked [.recreate, .isLocked 1, .lock 1 none, .call 0 false, .unlock 0 none, .call 1 true]).2
      = [.unit, .bool false, .bool true, .locked, .bool false, .ran 1] := by
  decide

/-! ## 5. `is_locked` is truthful -/

/-- whoever asks, whatever token the asking proxy remembers: the answer is the true lock state, nothing changes -/
theorem is_locked_truthful {s : Sys} {p : Nat} (halive : s.dead = none) (hp : (s.proxies[p]?).isSome) :
    step s (.isLocked p) = (s, .bool s.owner.isSome) := by
  cases hp' : s.proxies[p]? with
  | none => simp [hp'] at hp
  | some px => simp only [step]; exact proxyIsLocked_alive hp' halive

example : step wLocked (.isLocked 1) = (wLocked, .bool true) ∧ step wFree (.isLocked 0) = (wFree, .bool false) := by
  decide

/-! ## 6. Lock requests are total -/

/-- every lock / unlock / force-unlock / query request — indeed every operation — in every lock state, from every
proxy, is answered and leaves the object serving -/
theorem lock_requests_total {s : Sys} {op : Op} (halive : s.dead = none) :
    (step s op).1.dead = none ∧ (step s op).2 ≠ .hang :=
  step_total halive

example : wFree.dead = none ∧ wFree.owner = none ∧ step wFree (.forceUnlock 0) = (wFree, .unit) := by decide

/-- history form: no finite history ever hangs or disables the object -/
theorem never_hangs (srv nonce : String) (ops : List Op) :
    (exec (init srv nonce) ops).dead = none ∧ ∀ e ∈ trace (init srv nonce) ops, e.2.2.2 ≠ .hang :=
  no_hang_aux ops (init srv nonce) rfl

/-- the formerly failing history (pinned tree: the force-unlock was never answered and neither was anything after
it); a statement about the model of the current tree, kept as a regression example -/
theorem force_unlock_unlocked_is_answered :
    (run (init "srv" "a0") [.newCtx "cli" "b1", .newProxy 1, .forceUnlock 0, .isLocked 0, .lock 0 none, .call 0 false]).2
      = [.idx 1, .idx 0, .unit, .bool false, .bool true, .ran 1] := by
  decide

/-- once the worker is dead it stays dead (until the object is removed) -/
theorem dead_is_forever {s : Sys} (op : Op) (hd : s.dead ≠ none) (hop : op ≠ .recreate) : (step s op).1.dead = s.dead := by
  cases op with
  | recreate => exact absurd rfl hop
  | stopCtx c => rfl
  | newCtx name nonce => rfl
  | newProxy c => simp only [step]; split <;> rfl
  | burn c => simp only [step]; split <;> rfl
  | lock p custom =>
    simp only [step]
    cases hp : s.proxies[p]? with
    | none => simp [proxyLock, hp]
    | some px =>
      cases hc : s.ctxs[px.ctx]? with
      | none => simp [proxyLock, hp, hc]
      | some c =>
        cases hr : reservedCustom custom with
        | true => rw [proxyLock_reserved hp hc hr]
        | false => rw [proxyLock_dead hp hc hr hd]; exact (lockPre_frame s p px c custom).2.1
  | unlock p custom =>
    simp only [step]
    cases hp : s.proxies[p]? with
    | none => simp [proxyUnlock, hp]
    | some px =>
      cases hc : s.ctxs[px.ctx]? with
      | none => simp [proxyUnlock, hp, hc]
      | some c => rw [proxyUnlock_dead hp hc hd]
  | forceUnlock p =>
    simp only [step]
    cases hp : s.proxies[p]? with
    | none => simp [proxyForceUnlock, hp]
    | some px => rw [proxyForce_dead hp hd]
  | isLocked p =>
    simp only [step]
    cases hp : s.proxies[p]? with
    | none => simp [proxyIsLocked, hp]
    | some px => rw [proxyIsLocked_dead hp hd]
  | call p nb =>
    simp only [step]
    cases hp : s.proxies[p]? with
    | none => simp [proxyCall, hp]
    | some px => rw [proxyCall_eq hp, callRequest_dead _ hd]

/-! ## 7. Token source and proxy bookkeeping -/

/-- the two token fields of a proxy (`_lock_token`, `rpc_nonblocking._lock_token`) never differ, in any history -/
theorem nb_token_in_sync (srv nonce : String) (ops : List Op) :
    ∀ px ∈ (exec (init srv nonce) ops).proxies, px.tok = px.nbTok :=
  (Inv_exec ops (Inv_init srv nonce)).sync

/-- `make_unique_token` is injective in (context name, instance identifier, counter value), whatever the identifier
strings are (the decimal counter contains no `_`) -/
theorem mkToken_injective {a b na nb : String} {n m : Nat} (h : mkToken a na n = mkToken b nb m) :
    a = b ∧ na = nb ∧ n = m :=
  mkToken_inj h

/-- **automatically generated tokens of different proxies / contexts / processes always differ.**  In every finite
history, with any number of context instances that may share names: two automatically generated tokens are equal only
if they come from the same context instance and the same counter value.  (`gens` is the ghost log of every automatic
token generation: context *instance*, counter value, token, proxy.)  Hypothesis `hn` is the trusted-base assumption that
the identifiers `os.urandom(6)` gives to distinct instances differ — freshness of randomness cannot be a theorem. -/
theorem auto_tokens_distinct (srv nonce : String) (ops : List Op)
    (hn : ((exec (init srv nonce) ops).ctxs.map Ctx.nonce).Nodup) :
    ∀ g1 ∈ (exec (init srv nonce) ops).gens, ∀ g2 ∈ (exec (init srv nonce) ops).gens,
      g1.tok = g2.tok → g1.ctx = g2.ctx ∧ g1.n = g2.n :=
  auto_tokens_distinct_state (Inv_exec ops (Inv_init srv nonce)) hn

/-- … hence no two generations ever produced the same token -/
theorem auto_tokens_pairwise_distinct (srv nonce : String) (ops : List Op)
    (hn : ((exec (init srv nonce) ops).ctxs.map Ctx.nonce).Nodup) :
    (exec (init srv nonce) ops).gens.Pairwise (fun a b => a.tok ≠ b.tok) := by
  have hinv := Inv_exec ops (Inv_init srv nonce)
  refine hinv.gens_pw.imp_of_mem ?_
  intro a b ha hb hne heq
  exact hne (auto_tokens_distinct srv nonce ops hn a ha b hb heq)

/-- non-vacuity, on the population that used to be the counter-example: two clients named `cli` -/
example : ((exec (init "srv" "a0") sameNameOps).ctxs.map Ctx.nonce).Nodup ∧
    ((exec (init "srv" "a0") sameNameOps).ctxs.map Ctx.name) = ["srv", "cli", "cli"] ∧
    (exec (init "srv" "a0") sameNameOps).gens.length = 2 := by decide

/-- the formerly failing history (pinned tree: both same-named clients were told they own the lock and both got
through): now the second `lock()` is denied and the second client's call is refused -/
theorem same_named_clients_exclude_each_other :
    (run (init "srv" "a0") sameNameOps).2 =
      [.idx 1, .idx 2, .idx 0, .idx 1, .bool true, .bool false, .locked, .ran 1] ∧
    (exec (init "srv" "a0") sameNameOps).owner = some (mkToken "cli" "b1" 1) := by
  decide

/-! ## 8. User level: only the holder gets through -/

/-- After any history with any population of contexts (same-named or not), if the object is locked with an
automatically generated token, a method body runs only for the proxy whose `lock()` generated that token.
Hypotheses: `hn` as in `auto_tokens_distinct`; `hh`: no custom token deliberately imitates the automatic shape
`$lock_<id>_<n>` (equal tokens "on purpose" are outside the property). -/
theorem only_holder_executes (srv nonce : String) (ops : List Op)
    (hn : ((exec (init srv nonce) ops).ctxs.map Ctx.nonce).Nodup) (hh : ∀ o ∈ ops, o.honest)
    {p : Nat} {nb : Bool} {n : Nat} {g : GenRec}
    (hg : g ∈ (exec (init srv nonce) ops).gens) (ho : (exec (init srv nonce) ops).owner = some g.tok)
    (hout : (step (exec (init srv nonce) ops) (.call p nb)).2 = .ran n) : p = g.proxy := by
  have hinv := Inv_exec ops (Inv_init srv nonce)
  have hhold := Holder_exec ops hh (Holder_init srv nonce)
  generalize exec (init srv nonce) ops = s at *
  obtain ⟨_, hown, _, _⟩ := only_owner_executes hout
  rcases hown with hown | hown
  · rw [ho] at hown; cases hown
  · cases hp : s.proxies[p]? with
    | none => simp [callToken, hp] at hown
    | some px =>
      rw [callToken_eq hp, ho] at hown
      have hsync := hinv.sync px (List.mem_of_getElem? hp)
      have htok : px.tok = some g.tok := by
        cases nb <;> simp_all
      rcases hhold p px g.tok hp htok with ⟨g', hg', h1, h2⟩ | hno
      · have hk := auto_tokens_distinct_state hinv hn g' hg' g hg h1
        rw [← gens_same_key_eq hinv hg' hg hk]; exact h2.symm
      · obtain ⟨c, _, _, _, ht⟩ := hinv.gens_ok g hg
        exact absurd ⟨c.nonce, g.n, by rw [ht]; rfl⟩ hno

example : ((exec (init "srv" "a0") [.newCtx "cli" "b1", .newCtx "cli" "c2", .newProxy 1, .newProxy 2, .lock 0 none]).ctxs.map Ctx.nonce).Nodup ∧
    (⟨1, 1, mkToken "cli" "b1" 1, 0⟩ : GenRec) ∈ (exec (init "srv" "a0") [.newCtx "cli" "b1", .newCtx "cli" "c2", .newProxy 1, .newProxy 2, .lock 0 none]).gens ∧
    (exec (init "srv" "a0") [.newCtx "cli" "b1", .newCtx "cli" "c2", .newProxy 1, .newProxy 2, .lock 0 none]).owner = some (mkToken "cli" "b1" 1) ∧
    (step (exec (init "srv" "a0") [.newCtx "cli" "b1", .newCtx "cli" "c2", .newProxy 1, .newProxy 2, .lock 0 none]) (.call 0 false)).2 = .ran 1 := by
  decide

/-! ## 9. `lock(timeout > 0)`: the retry loop

`retryLoop p px my s envs n`: one ACQUIRE per iteration, always with the token made before the loop; `envs` has one
entry per iteration the clock allows (what everybody else does while the proxy sleeps after a denied attempt). -/

theorem retry_count_le (p : Nat) (px : Proxy) (my : Token) (envs : List (List Op)) :
    ∀ s n, (retryLoop p px my s envs n).2.2 ≤ n + envs.length := by
  induction envs with
  | nil => intro s n; simp [retryLoop]
  | cons env rest ih =>
    intro s n
    simp only [retryLoop]
    rcases lockRequest s .acquire (some my) with ⟨s2, _ | their⟩
    · simp <;> omega
    · dsimp only
      split
      · simp <;> omega
      · have := ih (exec s2 env) (n + 1); simp only [List.length_cons]; omega

/-- `False` is returned only after every iteration the clock allowed was used -/
theorem retry_false_used_all (p : Nat) (px : Proxy) (my : Token) (envs : List (List Op)) :
    ∀ s n, (retryLoop p px my s envs n).2.1 = .bool false → (retryLoop p px my s envs n).2.2 = n + envs.length := by
  induction envs with
  | nil => intro s n _; simp [retryLoop]
  | cons env rest ih =>
    intro s n
    simp only [retryLoop]
    rcases lockRequest s .acquire (some my) with ⟨s2, _ | their⟩
    · simp
    · dsimp only
      split
      · simp
      · intro h; have := ih (exec s2 env) (n + 1) h; simp only [List.length_cons]; omega

/-- the first attempt that finds the object free (or held with the same token) wins, and nothing is sent after it:
exactly one request, the rest of the allowed iterations is not used -/
theorem retry_stops_at_first_grant (p : Nat) (px : Proxy) (my : Token) (s : Sys) (env : List Op) (rest : List (List Op))
    (n : Nat) (halive : s.dead = none) (hfree : s.owner = none ∨ s.owner = some my) :
    retryLoop p px my s (env :: rest) n = (setProxyTok { s with owner := some my } p px (some my), .bool true, n + 1) := by
  simp only [retryLoop]
  rw [lockRequest_ok halive (by simp [issuable])]
  rcases hfree with h | h <;> simp [h, lockSpec]

/-- a denied attempt changes nothing by itself -/
theorem retry_denied_step (p : Nat) (px : Proxy) (my o : Token) (s : Sys) (env : List Op) (rest : List (List Op)) (n : Nat)
    (halive : s.dead = none) (ho : s.owner = some o) (hne : my ≠ o) (hd : my ≠ deniedTok s.srv) :
    retryLoop p px my s (env :: rest) n = retryLoop p px my (exec s env) rest (n + 1) := by
  simp only [retryLoop]
  rw [lockRequest_ok halive (by simp [issuable])]
  have h1 : ¬ some my = some o := by simpa using hne
  have h2 : ¬ deniedTok s.srv = my := fun e => hd e.symm
  simp only [ho, lockSpec, h1, ↓reduceIte, Option.some.injEq, h2]
  congr 1
  cases s; simp_all

/-- `True` ⇒ the object is owned with the proxy's token and the proxy remembers it -/
theorem retry_granted_means_owner (p : Nat) (px : Proxy) (my : Token) (envs : List (List Op)) :
    ∀ s n, (∀ srv, my ≠ deniedTok srv) → (retryLoop p px my s envs n).2.1 = .bool true →
      (retryLoop p px my s envs n).1.owner = some my := by
  induction envs with
  | nil => intro s n _ h; simp [retryLoop] at h
  | cons env rest ih =>
    intro s n hd
    simp only [retryLoop]
    cases hdead : s.dead with
    | some e => rw [lockRequest_dead (by simp [hdead])]; simp
    | none =>
      rw [lockRequest_ok hdead (by simp [issuable])]
      dsimp only
      split
      · rename_i hgr
        intro _
        cases ho : s.owner with
        | none => simp [setProxyTok, lockSpec]
        | some o =>
          rw [ho] at hgr
          simp only [lockSpec] at hgr ⊢
          by_cases e : some my = some o
          · simp [e, setProxyTok]
          · have h2 : ¬ deniedTok s.srv = my := fun e => hd _ e.symm
            simp [e, h2] at hgr
      · intro h; exact ih _ _ hd h

/-- termination within the timeout: with a period of at least one time unit the loop makes at most ⌈timeout/period⌉
iterations, whatever the round-trip times are -/
theorem iters_le (timeout period : Nat) (dur : Nat → Nat) (hp : 1 ≤ period) :
    ∀ fuel elapsed i, iters timeout period dur fuel elapsed i ≤ i + (timeout - elapsed + period - 1) / period := by
  intro fuel
  induction fuel with
  | zero => intro e i; simp [iters]
  | succ f ih =>
    intro e i
    simp only [iters]
    split
    · rename_i hlt
      have := ih (e + max period (dur i)) (i + 1)
      have hm : period ≤ max period (dur i) := Nat.le_max_left _ _
      have h1 : (timeout - (e + max period (dur i)) + period - 1) / period + 1 ≤ (timeout - e + period - 1) / period := by
        by_cases hc : e + max period (dur i) < timeout
        · have hle : timeout - (e + max period (dur i)) + period - 1 + period ≤ timeout - e + period - 1 := by omega
          calc (timeout - (e + max period (dur i)) + period - 1) / period + 1
              = (timeout - (e + max period (dur i)) + period - 1 + period) / period := by
                rw [Nat.add_div_right _ (by omega)]
            _ ≤ (timeout - e + period - 1) / period := Nat.div_le_div_right hle
        · have hz : timeout - (e + max period (dur i)) + period - 1 = period - 1 := by omega
          rw [hz, Nat.div_eq_of_lt (by omega)]
          exact Nat.div_pos (by omega) (by omega)
      omega
    · exact Nat.le_add_right _ _

/-- at least one attempt is made when the timeout is positive -/
theorem iters_pos (timeout period : Nat) (dur : Nat → Nat) (ht : 0 < timeout) (fuel : Nat) :
    1 ≤ iters timeout period dur (fuel + 1) 0 0 := by
  simp only [iters, ht, ↓reduceIte]
  have mono : ∀ f e i, i ≤ iters timeout period dur f e i := by
    intro f; induction f with
    | zero => intro e i; simp [iters]
    | succ f ih => intro e i; simp only [iters]; split
                   · have := ih (e + max period (dur i)) (i + 1); omega
                   · omega
  exact mono _ _ _

example : (proxyLockRetry wLocked 1 none [[], [.unlock 0 none], [], []]).2 = (.bool true, 3) ∧
    (proxyLockRetry wLocked 1 none [[], [], []]).2 = (.bool false, 3) ∧
    (proxyLockRetry wFree 1 none [[], [], []]).2 = (.bool true, 1) ∧
    iters 350 100 (fun _ => 0) 351 0 0 = 4 ∧ iters 50 100 (fun _ => 0) 51 0 0 = 1 := by decide

/-! ## 10. The `with proxy:` form

`with proxy:` is an RPC call of `__enter__` followed (only if that returned) by an RPC call of `__exit__`, both through
the blocking proxy, i.e. two ordinary guarded calls. -/

/-- `with proxy: pass` -/
def withForm (s : Sys) (p : Nat) : Sys × Out :=
  match step s (.call p false) with
  | (s1, .ran _) => step s1 (.call p false)
  | r => r

/-- locked by somebody else: `__enter__` is refused, nothing runs (not even `__exit__`), nothing changes -/
theorem with_form_refused {s : Sys} {p : Nat} {o : Token} {tk : Option Token}
    (halive : s.dead = none) (ho : s.owner = some o) (ht : callToken s p false = some tk) (hne : tk ≠ some o) :
    withForm s p = (s, .locked) := by
  simp only [withForm, refused_without_executing halive ho ht hne]

/-- free, or held by this proxy: both bodies run, in order -/
theorem with_form_runs {s : Sys} {p : Nat}
    (halive : s.dead = none) (ht : s.owner = none ∨ callToken s p false = some s.owner) (hv : (callToken s p false).isSome) :
    withForm s p = ({ s with count := s.count + 2 }, .ran (s.count + 2)) := by
  have h1 := owner_gets_through halive ht hv
  simp only [withForm, h1]
  have h2 := owner_gets_through (s := { s with count := s.count + 1 }) (p := p) (nb := false) halive
    (by simpa [callToken] using ht) (by simpa [callToken] using hv)
  rw [h2]

example : withForm wLocked 1 = (wLocked, .locked) ∧ (withForm wLocked 0).2 = .ran 2 := by decide

end QmiModel.Lock
