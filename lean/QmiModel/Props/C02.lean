import QmiModel.Model.Forward
import QmiModel.Gen.StubBinding
import QmiModel.Gen.C02Limits
import Std.Data.String.ToNat
/-!
# C02 — a proxy call behaves like a direct call, locally and across contexts

Property theorems about the forwarding model (`Model/Forward.lean`).  Everything is unbounded: all method
names, argument lists, keyword lists, aliases, context names, numbers of concurrent callers and arrival orders.

**What is assumed, not proved:** `pickle`.  Values are opaque; `proxy_eq_direct…` carries the hypothesis
`decode (encode v) = some v` for the values of the call (arguments, result / exception).  The harness validates
that hypothesis differentially on sampled values.

**History.**  Up to commit 04de7e7 a caller keyword named like one of the four positional-or-keyword parameters of
`blocking_rpc_method_call` / `non_blocking_rpc_method_call` (`context`, `rpc_object_address`, `method_name`,
`rpc_lock_token`) raised `TypeError` at the proxy (found by the differential run).  Commit 266e9a5 made those
parameters positional-only; the list extracted from the source is now empty (`gen_helper_params_empty`), and
`proxy_eq_direct` is stated and proved at full strength about the stubs and the helper *as the source has them now*.
`historical_keyword_collision` keeps the old witness, about the constant `helperParamsBeforeFix` only.
-/
namespace QmiModel.Forward

/-! ## unique reply addresses -/

/-- addresses made from different counter values differ (`prefix + str(nr)` is injective in `nr`) -/
theorem unique_address_injective (name pfx : String) {a b : Nat}
    (h : uniqueAddr name pfx a = uniqueAddr name pfx b) : a = b := by
  simp only [uniqueAddr, Addr.mk.injEq, true_and] at h
  exact Nat.repr_injective ((String.append_right_inj pfx).1 h)

private theorem counterGet_set (cs : List (String × Nat)) (k : String) (v : Nat) :
    counterGet (counterSet cs k v) k = v := by
  induction cs with
  | nil => simp [counterSet, counterGet]
  | cons hd tl ih =>
    obtain ⟨k', v'⟩ := hd
    by_cases hk : k' = k
    · simp [counterSet, counterGet, hk]
    · simp [counterSet, counterGet, hk, ih]

/-- `make_unique_address`: the per-prefix counter is strictly increasing … -/
theorem makeUnique_counter_increases (n : Node) (pfx : String) :
    counterGet (n.makeUnique pfx).1.counters pfx = counterGet n.counters pfx + 1 := by
  simp [Node.makeUnique, counterGet_set]

/-- … so two addresses issued one after the other (with anything in between that only increases the counter) differ -/
theorem makeUnique_fresh (n n' : Node) (pfx : String) (hname : n'.name = n.name)
    (hlater : counterGet (n.makeUnique pfx).1.counters pfx ≤ counterGet n'.counters pfx) :
    (n'.makeUnique pfx).2 ≠ (n.makeUnique pfx).2 := by
  intro h
  simp only [Node.makeUnique, hname] at h
  have := unique_address_injective _ _ h
  rw [makeUnique_counter_increases] at hlater
  omega

example : (({ name := "cli" } : Node).makeUnique "$future_").2 = ⟨"cli", "$future_1"⟩ := by decide

example : let n : Node := { name := "cli" }
    let n' := (n.makeUnique "$future_").1
    n'.name = n.name ∧ counterGet (n.makeUnique "$future_").1.counters "$future_" ≤ counterGet n'.counters "$future_" ∧
    (n'.makeUnique "$future_").2 = ⟨"cli", "$future_2"⟩ := by decide

/-! ## aliases of incoming connections

Reply routing *between client connections* rests on alias freshness: the server addresses a reply to
`(alias, $future_N)`, `_SocketManager.send_message` picks the connection by alias, and future names are only unique
per context — two clients routinely have the same `$future_N` pending.  If an alias still in use were handed out
again, replies of the older client would travel down the newer client's connection and complete *its* future. -/

theorem acceptConn_counter_increases (n : Node) (cid : Nat) :
    (n.acceptConn cid).1.peerCounter = n.peerCounter + 1 := rfl

/-- aliases handed out by the strictly increasing `_peer_name_counter` are pairwise distinct: whatever happens between
two accepts (disconnects included — the counter never goes down), the later alias differs from the earlier one -/
theorem incoming_aliases_distinct (n n' : Node) (cid cid' : Nat)
    (hlater : (n.acceptConn cid).1.peerCounter ≤ n'.peerCounter) :
    (n'.acceptConn cid').2.alias ≠ (n.acceptConn cid).2.alias := by
  intro h
  simp only [Node.acceptConn] at h hlater
  have := Nat.repr_injective ((String.append_right_inj "$client_").1 h)
  omega

/-- accepting a connection under an alias nobody else holds leaves every existing route as it was -/
theorem accept_keeps_routes (n : Node) (cid : Nat) (a : String) (hne : (n.acceptConn cid).2.alias ≠ a) :
    (n.acceptConn cid).1.findPeer a = n.findPeer a := by
  simp only [Node.acceptConn] at hne
  have hb : (("$client_" ++ toString (n.peerCounter + 1)) == a) = false := by simpa using hne
  simp only [Node.findPeer, Node.acceptConn, List.reverse_append, List.reverse_cons, List.reverse_nil, List.nil_append,
    List.singleton_append, List.find?_cons, hb, Bool.and_false]

example : ((({ name := "srv" } : Node).acceptConn 1).1.acceptConn 2).2.alias = "$client_2" := by decide

/-- the alternative (alias from the current number of connections) is expressible and does **not** have the property:
A and B connect, A leaves, C connects — C is given B's alias and the route to B now leads to C's connection -/
theorem alias_by_map_size_collides :
    let n0 : Node := { name := "srv" }
    let n1 := (n0.acceptConnByMapSize 1).1        -- A: $client_1
    let n2 := (n1.acceptConnByMapSize 2).1        -- B: $client_2
    let n3 := n2.dropConn 1                       -- A disconnects
    let n4 := (n3.acceptConnByMapSize 3).1        -- C
    (n2.findPeer "$client_2").map (·.cid) = some 2 ∧ (n4.findPeer "$client_2").map (·.cid) = some 3 := by
  decide

/-! ## the generated stubs -/

/-- the stub installed under attribute `n` sends method name `n` (closure per name) -/
theorem stub_sends_own_name (methods : List String) (n : String) (h : n ∈ methods) :
    stubFor (mkStubs methods) n = some ⟨n⟩ := by
  induction methods with
  | nil => cases h
  | cons m ms ih =>
    by_cases hm : m = n
    · subst hm
      simp [stubFor, mkStubs, mkForward]
    · have hn : n ∈ ms := by
        rcases List.mem_cons.1 h with h | h
        · exact absurd h.symm hm
        · exact h
      have ih' := ih hn
      simp only [stubFor, mkStubs, List.map_cons, List.find?_cons] at ih' ⊢
      have : ((m, mkForward m).1 == n) = false := by simpa using hm
      rw [this]
      exact ih'

/-- the binding extracted from the current source of both proxy classes is the closure-per-name one … -/
theorem gen_binding_perName :
    QmiModel.Gen.StubBinding.blockingBinding = .perName ∧ QmiModel.Gen.StubBinding.nonBlockingBinding = .perName := by
  decide

/-- … hence the stubs *as constructed by the current source* send their own name -/
theorem stub_sends_own_name_gen (methods : List String) (n : String) (h : n ∈ methods) :
    stubFor (mkStubsWith QmiModel.Gen.StubBinding.blockingBinding methods) n = some ⟨n⟩ ∧
    stubFor (mkStubsWith QmiModel.Gen.StubBinding.nonBlockingBinding methods) n = some ⟨n⟩ := by
  rw [gen_binding_perName.1, gen_binding_perName.2]
  exact ⟨stub_sends_own_name methods n h, stub_sends_own_name methods n h⟩

/-- the late-binding construction is expressible and does *not* have the property -/
theorem late_binding_sends_last_name :
    stubFor (mkStubsWith .loopVariable ["get_a", "get_b", "set_c"]) "get_a" = some ⟨"set_c"⟩ := by decide

example : "get_a" ∈ ["get_a", "get_b", "set_c"] := by decide

/-- the helpers the stubs call have, in the current source, **no** positional-or-keyword parameter a caller keyword
could collide with (they are positional-only since 266e9a5); an edit that reintroduces one breaks this obligation -/
theorem gen_helper_params_empty :
    QmiModel.Gen.StubBinding.blockingHelperParams = [] ∧ QmiModel.Gen.StubBinding.nonBlockingHelperParams = [] := by
  decide

/-- binding and helper parameters of the stubs of a proxy, as extracted from the current source -/
def genBinding : Mode → Binding
  | .blocking => QmiModel.Gen.StubBinding.blockingBinding
  | .nonBlocking => QmiModel.Gen.StubBinding.nonBlockingBinding

def genParams : Mode → List String
  | .blocking => QmiModel.Gen.StubBinding.blockingHelperParams
  | .nonBlocking => QmiModel.Gen.StubBinding.nonBlockingHelperParams

/-! ## pickle: what the hypothesis `decode (encode v) = some v` buys -/

private theorem optMapM_roundtrip {α β : Type} (f : α → β) (g : β → Option α) (l : List α)
    (h : ∀ a ∈ l, g (f a) = some a) : optMapM g (l.map f) = some l := by
  induction l with
  | nil => rfl
  | cons a as ih =>
    have ha := h a (List.mem_cons_self)
    have ih' := ih (fun x hx => h x (List.mem_cons_of_mem _ hx))
    simp only [List.map_cons, optMapM, ha, ih']

private theorem optMapM_kw_roundtrip {α β : Type} (f : α → β) (g : β → Option α) (l : List (String × α))
    (h : ∀ kv ∈ l, g (f kv.2) = some kv.2) :
    optMapM (fun (kv : String × β) => (g kv.2).map (fun b => (kv.1, b))) (l.map (fun kv => (kv.1, f kv.2))) = some l := by
  induction l with
  | nil => rfl
  | cons a as ih =>
    have ha := h a (List.mem_cons_self)
    have ih' := ih (fun x hx => h x (List.mem_cons_of_mem _ hx))
    simp only [List.map_cons, optMapM, ha, ih', Option.map_some]

/-- `pickle.loads(pickle.dumps(message))` gives the message back, **given** that the user values in it round-trip -/
theorem loads_dumps (P : Pickle V W) (m : Msg V)
    (h : ∀ v ∈ m.body.values, P.decode (P.encode v) = some v) : P.loads (P.dumps m) = some m := by
  obtain ⟨src, dst, rid, body⟩ := m
  cases body with
  | methodRequest meth args kwargs tok =>
    have h1 : optMapM P.decode (args.map P.encode) = some args :=
      optMapM_roundtrip _ _ _ (fun a ha => h a (by simp [Body.values, ha]))
    have h2 := optMapM_kw_roundtrip P.encode P.decode kwargs
      (fun kv hkv => h kv.2 (by simp only [Body.values, List.mem_append, List.mem_map]; exact Or.inr ⟨kv, hkv, rfl⟩))
    simp only [Pickle.loads, Pickle.dumps, Body.map, Body.mapOpt, h1, h2, Option.map_some]
  | methodReply st r =>
    cases r with
    | none => simp [Pickle.loads, Pickle.dumps, Body.map, Body.mapOpt]
    | some r =>
      have hr := h r (by simp [Body.values])
      simp [Pickle.loads, Pickle.dumps, Body.map, Body.mapOpt, hr]
  | errorReply e => simp [Pickle.loads, Pickle.dumps, Body.map, Body.mapOpt]
  | otherRequest t => simp [Pickle.loads, Pickle.dumps, Body.map, Body.mapOpt]
  | lockReply => simp [Pickle.loads, Pickle.dumps, Body.map, Body.mapOpt]
  | otherReply t => simp [Pickle.loads, Pickle.dumps, Body.map, Body.mapOpt]
  | plain t => simp [Pickle.loads, Pickle.dumps, Body.map, Body.mapOpt]

/-- a pickle for which the hypothesis holds exists (non-vacuity): the identity -/
example : ∀ v : Nat, (⟨id, some⟩ : Pickle Nat Nat).decode ((⟨id, some⟩ : Pickle Nat Nat).encode v) = some v := fun _ => rfl

/-! ## address rewriting: alias ↔ real name -/

/-- `rewriteIn ∘ rewriteOut` touches nothing but the two context ids: payload, request id and both object ids are
unchanged, the destination context becomes the receiver's own name and the source context the receiver's alias for
the sender.  No hypothesis: this holds whenever both steps succeed. -/
theorem payload_untouched (sc rc : Conn) (recvName : String) (m m' m'' : Msg α)
    (hout : sc.rewriteOut m = .ok m') (hin : rc.rewriteIn recvName m' = .ok m'') :
    m''.body = m.body ∧ m''.reqId = m.reqId ∧ m''.src.obj = m.src.obj ∧ m''.dst.obj = m.dst.obj ∧
    m''.dst.ctx = recvName ∧ m''.src.ctx = rc.alias := by
  simp only [Conn.rewriteOut] at hout
  split at hout
  · cases hout
  · split at hout
    · cases hout
    · rename_i p hp
      injection hout with hout
      subst hout
      simp only [Conn.rewriteIn] at hin
      split at hin
      · cases hin
      · split at hin
        · cases hin
        · split at hin
          · cases hin
          · rename_i hdst _
            injection hin with hin
            subst hin
            simp only [ne_eq, Decidable.not_not] at hdst
            exact ⟨rfl, rfl, rfl, rfl, hdst, rfl⟩

/-- what the two steps produce, under the conditions the handshake establishes -/
theorem rewrite_roundtrip (sc rc : Conn) (senderName recvName : String) (m : Msg α)
    (hs : sc.peerName = some recvName) (hr : rc.peerName = some senderName)
    (hdst : m.dst.ctx = sc.alias) (hsrc : m.src.ctx = senderName) :
    (sc.rewriteOut m).bind (rc.rewriteIn recvName) =
      .ok { m with src := ⟨rc.alias, m.src.obj⟩, dst := ⟨recvName, m.dst.obj⟩ } := by
  simp [Conn.rewriteOut, Conn.rewriteIn, hs, hr, hdst, hsrc, Except.bind]

example : (({ alias := "srv", peerName := some "srv" } : Conn).rewriteOut
    ({ src := ⟨"cli", "$future_1"⟩, dst := ⟨"srv", "obj"⟩, reqId := "r", body := Body.plain "x" } : Msg Nat)).bind
    (({ alias := "$client_1", peerName := some "cli", incoming := true } : Conn).rewriteIn "srv")
    = .ok { src := ⟨"$client_1", "$future_1"⟩, dst := ⟨"srv", "obj"⟩, reqId := "r", body := Body.plain "x" } := by
  simp [Conn.rewriteOut, Conn.rewriteIn, Except.bind]

/-! ## one hop -/

/-- the sender end of a working connection, as the handshake and `add_…_connection` leave it -/
structure Link (sender receiver : Node) (alias : String) (rc : Conn) : Prop where
  active : sender.active = true
  notSelf : alias ≠ sender.name
  found : ∃ sc, sender.findPeer alias = some sc ∧ sc.peerName = some receiver.name
  back : rc.peerName = some sender.name

private theorem findPeer_alias {n : Node} {a : String} {c : Conn} (h : n.findPeer a = some c) : c.alias = a := by
  simp only [Node.findPeer] at h
  have := List.find?_some h
  simp only [Bool.and_eq_true, beq_iff_eq] at this
  exact this.2

/-- a message from a local handler to an address in the peer arrives with the payload intact, addressed to the
receiver's own name, its source shown under the receiver's alias for the sender -/
theorem transfer_ok (P : Pickle V W) (sender receiver : Node) (alias : String) (rc : Conn) (m : Msg V)
    (hl : Link sender receiver alias rc) (hsrc : m.src.ctx = sender.name) (hdst : m.dst.ctx = alias)
    (hp : ∀ v ∈ m.body.values, P.decode (P.encode v) = some v) :
    transfer P sender receiver rc m =
      .ok { m with src := ⟨rc.alias, m.src.obj⟩, dst := ⟨receiver.name, m.dst.obj⟩ } := by
  obtain ⟨hact, hns, ⟨sc, hfind, hsp⟩, hback⟩ := hl
  have hal := findPeer_alias hfind
  have hroute : sender.route m = .ok (.remote alias) := by
    simp [Node.route, hdst, hns, hsrc, hact, hfind]
  have hout : sc.rewriteOut m = .ok { m with dst := ⟨receiver.name, m.dst.obj⟩ } := by
    simp [Conn.rewriteOut, hdst, hal, hsp]
  have hload : P.loads (P.dumps { m with dst := ⟨receiver.name, m.dst.obj⟩ })
      = some { m with dst := ⟨receiver.name, m.dst.obj⟩ } := loads_dumps P _ hp
  simp only [transfer, sendHop, hroute, hfind, hout, frame, recvHop, deframe, hload]
  simp [Conn.rewriteIn, hback, hsrc]

/-- no keyword collides with a helper parameter and none is `rpc_timeout`: the stub forwards the keywords as they are -/
theorem stubKwargs_ok (mode : Mode) (params : List String) (kwargs : List (String × V))
    (hkw : ∀ kv ∈ kwargs, kv.1 ∉ params) (hto : ∀ kv ∈ kwargs, kv.1 ≠ timeoutKw) :
    stubKwargs mode params kwargs = .ok kwargs := by
  have h1 : kwargs.any (fun kv => params.contains kv.1) = false := by
    simp only [List.any_eq_false, List.contains_iff_mem]
    intro kv hkv
    simpa using hkw kv hkv
  have h2 : kwargs.filter (fun kv => kv.1 != timeoutKw) = kwargs := by
    rw [List.filter_eq_self]
    intro kv hkv
    simpa using hto kv hkv
  have h3 : kwargs.any (fun kv => kv.1 == timeoutKw) = false := by
    simp only [List.any_eq_false]
    intro kv hkv
    simpa using hto kv hkv
  unfold stubKwargs
  rw [h1]
  cases mode <;> simp [h2, h3]

example : stubKwargs (V := Nat) .blocking helperParamsBeforeFix [("x", 1), ("timeout", 2)] = .ok [("x", 1), ("timeout", 2)] := by
  simp [stubKwargs, helperParamsBeforeFix, timeoutKw]

/-- positional and keyword arguments reach `_handle_method_rpc_request` exactly as the caller passed them
(same values, same order, same keywords), together with the method name and the lock token -/
theorem kwargs_and_args_preserved (P : Pickle V W) (cli srv : Node) (sc : Conn) (mode : Mode) (params : List String)
    (futureAddr objAddr : Addr) (rid name : String) (args : List V) (kwargs : List (String × V)) (token : Option Token)
    (hl : Link cli srv objAddr.ctx sc) (hf : futureAddr.ctx = cli.name)
    (hkw : ∀ kv ∈ kwargs, kv.1 ∉ params) (hto : ∀ kv ∈ kwargs, kv.1 ≠ timeoutKw)
    (hp : ∀ v ∈ args ++ kwargs.map (·.2), P.decode (P.encode v) = some v) :
    ∃ kwargs' req', stubKwargs mode params kwargs = .ok kwargs' ∧
      transfer P cli srv sc (mkRequest futureAddr objAddr rid name args kwargs' token) = .ok req' ∧
      req'.body = .methodRequest name args kwargs token ∧ req'.reqId = rid := by
  have hk := stubKwargs_ok mode params kwargs hkw hto
  refine ⟨kwargs, _, hk, transfer_ok P cli srv objAddr.ctx sc _ hl hf rfl ?_, rfl, rfl⟩
  simpa [mkRequest, Body.values] using hp

/-- request out, reply back: the reply reaches the caller's context addressed to exactly the future address the request
came from, with the request id and the reply payload intact (the alias the server used in between is invisible) -/
theorem round_trip_restores_addresses (P : Pickle V W) (cli srv : Node) (cc sc : Conn) (req : Msg V) (rbody : Body V)
    (hl1 : Link cli srv req.dst.ctx sc) (hl2 : Link srv cli sc.alias cc) (hsrc : req.src.ctx = cli.name)
    (hp1 : ∀ v ∈ req.body.values, P.decode (P.encode v) = some v)
    (hp2 : ∀ v ∈ rbody.values, P.decode (P.encode v) = some v) :
    ∃ req', transfer P cli srv sc req = .ok req' ∧ req'.body = req.body ∧
      transfer P srv cli cc { src := req'.dst, dst := req'.src, reqId := req'.reqId, body := rbody }
        = .ok { src := ⟨cc.alias, req.dst.obj⟩, dst := req.src, reqId := req.reqId, body := rbody } := by
  have h1 := transfer_ok P cli srv req.dst.ctx sc req hl1 hsrc rfl hp1
  refine ⟨_, h1, rfl, ?_⟩
  have h2 := transfer_ok P srv cli sc.alias cc
    ({ src := ⟨srv.name, req.dst.obj⟩, dst := ⟨sc.alias, req.src.obj⟩, reqId := req.reqId, body := rbody } : Msg V)
    hl2 rfl rfl hp2
  simp only at h2 ⊢
  rw [h2]
  cases hs : req.src
  simp only [hs] at hsrc
  simp [hsrc]

/-! ## the whole call -/

/-- the configuration that `make_rpc_object`, `connect_to_peer` (handshake done) and `QMI_RpcFuture.__init__` leave behind -/
structure WellFormed (pl : Placement) (cli srv : Node) (cc sc : Conn) (futureAddr objAddr : Addr) : Prop where
  objReg : objAddr.obj ∈ srv.handlers
  sameCtx : pl = .sameContext →
    futureAddr.ctx = srv.name ∧ objAddr.ctx = srv.name ∧ futureAddr.obj ∈ srv.handlers
  peerCtx : pl = .peerContext →
    futureAddr.ctx = cli.name ∧ futureAddr.obj ∈ cli.handlers ∧
    Link cli srv objAddr.ctx sc ∧ Link srv cli sc.alias cc

private theorem local_eq_direct (X : Excs V) (mode : Mode) (params : List String) (srv : Node) (o : Obj V)
    (iface : List String) (futureAddr objAddr : Addr) (rid attr : String) (args : List V) (kwargs : List (String × V))
    (token : Option Token) (f : List V → List (String × V) → Res V)
    (hobj : objAddr.obj ∈ srv.handlers) (hfc : futureAddr.ctx = srv.name) (hoc : objAddr.ctx = srv.name)
    (hfut : futureAddr.obj ∈ srv.handlers)
    (hattr : attr ∈ iface) (hm : o.methods attr = some f) (hlock : o.lock = none ∨ o.lock = token)
    (hkw : ∀ kv ∈ kwargs, kv.1 ∉ params) (hto : ∀ kv ∈ kwargs, kv.1 ≠ timeoutKw) :
    localCall X mode params srv o (mkStubs iface) futureAddr objAddr rid attr args kwargs token
      = directCall o attr args kwargs := by
  have hstub := stub_sends_own_name iface attr hattr
  have hk := stubKwargs_ok mode params kwargs hkw hto
  have hroute1 : srv.route (mkRequest futureAddr objAddr rid attr args kwargs token) = .ok .localDeliver := by
    simp [Node.route, mkRequest, hoc]
  have hdel1 : srv.deliver (mkRequest futureAddr objAddr rid attr args kwargs token) = .ok objAddr.obj := by
    simp [Node.deliver, mkRequest, hoc, hobj]
  cases hf : f args kwargs with
  | value v =>
    have hdisp : dispatch X o (mkRequest futureAddr objAddr rid attr args kwargs token)
        = some (mkReply (mkRequest futureAddr objAddr rid attr args kwargs token) .value (some v)) := by
      simp [dispatch, mkRequest, hlock, hm, hf]
    have hroute2 : srv.route (mkReply (mkRequest futureAddr objAddr rid attr args kwargs token) .value (some v))
        = .ok .localDeliver := by simp [Node.route, mkReply, mkRequest, hfc]
    have hdel2 : srv.deliver (mkReply (mkRequest futureAddr objAddr rid attr args kwargs token) .value (some v))
        = .ok futureAddr.obj := by simp [Node.deliver, mkReply, mkRequest, hfc, hfut]
    simp only [localCall, hstub, hk, hroute1, hdel1, hdisp, hroute2, hdel2, directCall, hm, hf]
    simp [futureHandle, mkReply, wait]
  | exc e =>
    have hdisp : dispatch X o (mkRequest futureAddr objAddr rid attr args kwargs token)
        = some (mkReply (mkRequest futureAddr objAddr rid attr args kwargs token) .exception (some e)) := by
      simp [dispatch, mkRequest, hlock, hm, hf]
    have hroute2 : srv.route (mkReply (mkRequest futureAddr objAddr rid attr args kwargs token) .exception (some e))
        = .ok .localDeliver := by simp [Node.route, mkReply, mkRequest, hfc]
    have hdel2 : srv.deliver (mkReply (mkRequest futureAddr objAddr rid attr args kwargs token) .exception (some e))
        = .ok futureAddr.obj := by simp [Node.deliver, mkReply, mkRequest, hfc, hfut]
    simp only [localCall, hstub, hk, hroute1, hdel1, hdisp, hroute2, hdel2, directCall, hm, hf]
    simp [futureHandle, mkReply, wait]

private theorem peer_eq_direct (P : Pickle V W) (X : Excs V) (mode : Mode) (params : List String) (cli srv : Node)
    (cc sc : Conn) (o : Obj V) (iface : List String) (futureAddr objAddr : Addr) (rid attr : String) (args : List V)
    (kwargs : List (String × V)) (token : Option Token) (f : List V → List (String × V) → Res V)
    (hobj : objAddr.obj ∈ srv.handlers) (hfc : futureAddr.ctx = cli.name)
    (hfut : futureAddr.obj ∈ cli.handlers)
    (hl1 : Link cli srv objAddr.ctx sc) (hl2 : Link srv cli sc.alias cc)
    (hattr : attr ∈ iface) (hm : o.methods attr = some f) (hlock : o.lock = none ∨ o.lock = token)
    (hkw : ∀ kv ∈ kwargs, kv.1 ∉ params) (hto : ∀ kv ∈ kwargs, kv.1 ≠ timeoutKw)
    (hp : ∀ v ∈ args ++ kwargs.map (·.2), P.decode (P.encode v) = some v)
    (hres : ∀ v, (f args kwargs = .value v ∨ f args kwargs = .exc v) → P.decode (P.encode v) = some v) :
    peerCall P X mode params cli srv cc sc o (mkStubs iface) futureAddr objAddr rid attr args kwargs token
      = directCall o attr args kwargs := by
  have hstub := stub_sends_own_name iface attr hattr
  have hk := stubKwargs_ok mode params kwargs hkw hto
  have ht1 := transfer_ok P cli srv objAddr.ctx sc (mkRequest futureAddr objAddr rid attr args kwargs token) hl1 hfc rfl
    (by simpa [mkRequest, Body.values] using hp)
  simp only [mkRequest] at ht1
  have hdel1 : srv.deliver ({ src := ⟨sc.alias, futureAddr.obj⟩, dst := ⟨srv.name, objAddr.obj⟩, reqId := rid, body := .methodRequest attr args kwargs token } : Msg V) = .ok objAddr.obj := by
    simp [Node.deliver, hobj]
  cases hf : f args kwargs with
  | value v =>
    have hdisp : dispatch X o ({ src := ⟨sc.alias, futureAddr.obj⟩, dst := ⟨srv.name, objAddr.obj⟩, reqId := rid, body := .methodRequest attr args kwargs token } : Msg V)
        = some { src := ⟨srv.name, objAddr.obj⟩, dst := ⟨sc.alias, futureAddr.obj⟩, reqId := rid, body := .methodReply .value (some v) } := by
      simp [dispatch, mkReply, hlock, hm, hf]
    have ht2 := transfer_ok P srv cli sc.alias cc ({ src := ⟨srv.name, objAddr.obj⟩, dst := ⟨sc.alias, futureAddr.obj⟩, reqId := rid, body := .methodReply .value (some v) } : Msg V) hl2 rfl rfl
      (by intro w hw; simp only [Body.values, List.mem_singleton] at hw; subst hw; exact hres _ (Or.inl hf))
    have hdel2 : cli.deliver ({ src := ⟨cc.alias, objAddr.obj⟩, dst := ⟨cli.name, futureAddr.obj⟩, reqId := rid, body := .methodReply .value (some v) } : Msg V) = .ok futureAddr.obj := by
      simp [Node.deliver, hfut]
    simp only [peerCall, hstub, hk, mkRequest, ht1, hdel1, hdisp, ht2, hdel2, directCall, hm, hf]
    simp [futureHandle, wait]
  | exc e =>
    have hdisp : dispatch X o ({ src := ⟨sc.alias, futureAddr.obj⟩, dst := ⟨srv.name, objAddr.obj⟩, reqId := rid, body := .methodRequest attr args kwargs token } : Msg V)
        = some { src := ⟨srv.name, objAddr.obj⟩, dst := ⟨sc.alias, futureAddr.obj⟩, reqId := rid, body := .methodReply .exception (some e) } := by
      simp [dispatch, mkReply, hlock, hm, hf]
    have ht2 := transfer_ok P srv cli sc.alias cc ({ src := ⟨srv.name, objAddr.obj⟩, dst := ⟨sc.alias, futureAddr.obj⟩, reqId := rid, body := .methodReply .exception (some e) } : Msg V) hl2 rfl rfl
      (by intro w hw; simp only [Body.values, List.mem_singleton] at hw; subst hw; exact hres _ (Or.inr hf))
    have hdel2 : cli.deliver ({ src := ⟨cc.alias, objAddr.obj⟩, dst := ⟨cli.name, futureAddr.obj⟩, reqId := rid, body := .methodReply .exception (some e) } : Msg V) = .ok futureAddr.obj := by
      simp [Node.deliver, hfut]
    simp only [peerCall, hstub, hk, mkRequest, ht1, hdel1, hdisp, ht2, hdel2, directCall, hm, hf]
    simp [futureHandle, wait]

/-- Generic lemma, for *any* list `params` of helper parameters a keyword could collide with: the outcome of the
call through the proxy is the outcome of the direct call, provided no keyword of the call is in `params`.
(`proxy_eq_direct` below instantiates it with the list extracted from the source, which is empty.) -/
theorem proxy_eq_direct_for_params (pl : Placement) (P : Pickle V W) (X : Excs V) (mode : Mode) (params : List String)
    (cli srv : Node) (cc sc : Conn) (o : Obj V) (iface : List String) (futureAddr objAddr : Addr) (rid attr : String)
    (args : List V) (kwargs : List (String × V)) (token : Option Token) (f : List V → List (String × V) → Res V)
    (hwf : WellFormed pl cli srv cc sc futureAddr objAddr)
    (hattr : attr ∈ iface) (hm : o.methods attr = some f) (hlock : o.lock = none ∨ o.lock = token)
    (hkw : ∀ kv ∈ kwargs, kv.1 ∉ params) (hto : ∀ kv ∈ kwargs, kv.1 ≠ timeoutKw)
    (hp : ∀ v ∈ args ++ kwargs.map (·.2), P.decode (P.encode v) = some v)
    (hres : ∀ v, (f args kwargs = .value v ∨ f args kwargs = .exc v) → P.decode (P.encode v) = some v) :
    proxyCall pl P X mode params cli srv cc sc o (mkStubs iface) futureAddr objAddr rid attr args kwargs token
      = directCall o attr args kwargs := by
  cases pl with
  | sameContext =>
    obtain ⟨h1, h2, h3⟩ := hwf.sameCtx rfl
    exact local_eq_direct X mode params srv o iface futureAddr objAddr rid attr args kwargs token f
      hwf.objReg h1 h2 h3 hattr hm hlock hkw hto
  | peerContext =>
    obtain ⟨h1, h2, h3, h4⟩ := hwf.peerCtx rfl
    exact peer_eq_direct P X mode params cli srv cc sc o iface futureAddr objAddr rid attr args kwargs token f
      hwf.objReg h1 h2 h3 h4 hattr hm hlock hkw hto hp hres

/-- **C02, full statement.**  For both placements (same context / peer context), both kinds of proxy (blocking, or
non-blocking + wait), every method of the interface, *all* positional and keyword arguments, every lock state
compatible with the call, any context and alias names: the outcome of the call through the proxy — with the stubs
bound and the helper declared as the current source has them — is the outcome of the direct call, **given** that
pickle round-trips the values of the call.  (`rpc_timeout` is the documented proxy-level keyword, not an argument
of the method.) -/
theorem proxy_eq_direct (pl : Placement) (P : Pickle V W) (X : Excs V) (mode : Mode)
    (cli srv : Node) (cc sc : Conn) (o : Obj V) (iface : List String) (futureAddr objAddr : Addr) (rid attr : String)
    (args : List V) (kwargs : List (String × V)) (token : Option Token) (f : List V → List (String × V) → Res V)
    (hwf : WellFormed pl cli srv cc sc futureAddr objAddr)
    (hattr : attr ∈ iface) (hm : o.methods attr = some f) (hlock : o.lock = none ∨ o.lock = token)
    (hto : ∀ kv ∈ kwargs, kv.1 ≠ timeoutKw)
    (hp : ∀ v ∈ args ++ kwargs.map (·.2), P.decode (P.encode v) = some v)
    (hres : ∀ v, (f args kwargs = .value v ∨ f args kwargs = .exc v) → P.decode (P.encode v) = some v) :
    proxyCall pl P X mode (genParams mode) cli srv cc sc o (mkStubsWith (genBinding mode) iface) futureAddr objAddr
        rid attr args kwargs token
      = directCall o attr args kwargs := by
  have hb : mkStubsWith (genBinding mode) iface = mkStubs iface := by
    cases mode
    · simp [genBinding, gen_binding_perName.1, mkStubsWith]
    · simp [genBinding, gen_binding_perName.2, mkStubsWith]
  have hpar : genParams mode = [] := by
    cases mode
    · exact gen_helper_params_empty.1
    · exact gen_helper_params_empty.2
  rw [hb, hpar]
  exact proxy_eq_direct_for_params pl P X mode [] cli srv cc sc o iface futureAddr objAddr rid attr args kwargs token f
    hwf hattr hm hlock (fun _ _ h => by cases h) hto hp hres

/-! ### the hypotheses are satisfiable; a historical example -/

private def exSrvConn : Conn := { cid := 1, alias := "$client_1", peerName := some "cli", incoming := true }
private def exCliConn : Conn := { cid := 2, alias := "srv", peerName := some "srv" }
private def exSrv : Node := { name := "srv", handlers := ["$pubsub", "$context", "obj", "$future_9"], conns := [exSrvConn] }
private def exCli : Node := { name := "cli", handlers := ["$pubsub", "$context", "$future_1"], conns := [exCliConn] }
private def exObj : Obj Nat :=
  { lock := none, methods := fun n => if n = "echo" then some (fun a k => .value (a.length + 10 * k.length)) else none }
private def exX : Excs Nat := { unknownRpc := fun _ => 404, delivery := fun _ => 500 }
private def exP : Pickle Nat Nat := ⟨id, some⟩

example : WellFormed .peerContext exCli exSrv exCliConn exSrvConn ⟨"cli", "$future_1"⟩ ⟨"srv", "obj"⟩ :=
  ⟨by decide, (fun h => nomatch h),
   fun _ => ⟨rfl, by decide, ⟨rfl, by decide, ⟨exCliConn, by decide, rfl⟩, rfl⟩, ⟨rfl, by decide, ⟨exSrvConn, by decide, rfl⟩, rfl⟩⟩⟩

example : WellFormed .sameContext exCli exSrv exCliConn exSrvConn ⟨"srv", "$future_9"⟩ ⟨"srv", "obj"⟩ :=
  ⟨by decide, fun _ => ⟨rfl, rfl, by decide⟩, (fun h => nomatch h)⟩

example : proxyCall .peerContext exP exX .nonBlocking helperParamsBeforeFix exCli exSrv exCliConn exSrvConn exObj
    (mkStubs ["__enter__", "echo", "get_name"]) ⟨"cli", "$future_1"⟩ ⟨"srv", "obj"⟩ "r1" "echo" [7, 8] [("x", 9)] none
    = .value 12 := by decide

/-- the same call with keywords named like the former helper parameters — they simply arrive, now -/
example : proxyCall .peerContext exP exX .blocking (genParams .blocking) exCli exSrv exCliConn exSrvConn exObj
    (mkStubsWith (genBinding .blocking) ["echo"]) ⟨"cli", "$future_1"⟩ ⟨"srv", "obj"⟩ "r1" "echo" []
    [("context", 0), ("method_name", 1)] none = directCall exObj "echo" [] [("context", 0), ("method_name", 1)] := by
  decide

/-- **A stale token is harmless**: while the object is free, the call equals the direct call *whatever* token the proxy
still sends (e.g. the token of a lock that somebody else released by hand-over `unlock(lock_token=…)` or
`force_unlock()`): the admission test is "free, or locked with this token", not "tokens equal" -/
theorem free_object_accepts_any_token (pl : Placement) (P : Pickle V W) (X : Excs V) (mode : Mode)
    (cli srv : Node) (cc sc : Conn) (o : Obj V) (iface : List String) (futureAddr objAddr : Addr) (rid attr : String)
    (args : List V) (kwargs : List (String × V)) (stale : Option Token) (f : List V → List (String × V) → Res V)
    (hwf : WellFormed pl cli srv cc sc futureAddr objAddr)
    (hattr : attr ∈ iface) (hm : o.methods attr = some f) (hfree : o.lock = none)
    (hto : ∀ kv ∈ kwargs, kv.1 ≠ timeoutKw)
    (hp : ∀ v ∈ args ++ kwargs.map (·.2), P.decode (P.encode v) = some v)
    (hres : ∀ v, (f args kwargs = .value v ∨ f args kwargs = .exc v) → P.decode (P.encode v) = some v) :
    proxyCall pl P X mode (genParams mode) cli srv cc sc o (mkStubsWith (genBinding mode) iface) futureAddr objAddr
        rid attr args kwargs stale
      = directCall o attr args kwargs :=
  proxy_eq_direct pl P X mode cli srv cc sc o iface futureAddr objAddr rid attr args kwargs stale f
    hwf hattr hm (Or.inl hfree) hto hp hres

/-- the "tokens equal" admission test is expressible and refuses a stale token on a free object -/
theorem tokens_equal_test_refuses_stale_token :
    decision exObj "echo" (some ⟨"cli", "$lock_1"⟩) = .call ∧
    (exObj.lock = some (⟨"cli", "$lock_1"⟩ : Token)) = False := by
  refine ⟨by decide, ?_⟩
  simp [exObj]

/-- HISTORICAL example, about the constant `helperParamsBeforeFix` (the helper signature up to 04de7e7), *not* about the
source: with those parameter names `proxy.echo(context=0)` raised `TypeError` at the proxy although
`obj.echo(context=0)` returns normally.  Repaired by 266e9a5; the harness still replays these calls on the real code,
where they must now agree with the direct call. -/
theorem historical_keyword_collision :
    proxyCall .sameContext exP exX .blocking helperParamsBeforeFix exCli exSrv exCliConn exSrvConn exObj
        (mkStubs ["echo"]) ⟨"srv", "$future_9"⟩ ⟨"srv", "obj"⟩ "r1" "echo" [] [("context", 0)] none
      = .stubError .typeError ∧
    directCall exObj "echo" [] [("context", 0)] = .value 10 := by
  decide

/-! ## limits that live in the source

A value the sender accepts must arrive: the property quantifies over all picklable values, and the only documented
limit is `MAX_MESSAGE_SIZE` with its documented error at the *sender*.  So the sender-side and the receiver-side
checks must refuse exactly the same sizes, and no queue between proxy and worker may drop anything. -/

/-- checks that compare the same quantity the same way refuse the same sizes — for every limit and every size -/
theorem size_checks_agree (cs : List SizeCheck) (off : Nat) (strict : Bool)
    (h : ∀ c ∈ cs, c.offset = off ∧ c.strict = strict) (limit size : Nat) :
    ∀ c₁ ∈ cs, ∀ c₂ ∈ cs, c₁.refuses limit size = c₂.refuses limit size := by
  intro c₁ h₁ c₂ h₂
  obtain ⟨o₁, s₁⟩ := h c₁ h₁
  obtain ⟨o₂, s₂⟩ := h c₂ h₂
  simp [SizeCheck.refuses, o₁, s₁, o₂, s₂]

/-- every comparison against `MAX_MESSAGE_SIZE` in the current source is `pickled size > limit` (no header bytes
added on one side only), and there is a sender-side and a receiver-side one -/
theorem gen_size_checks_same_quantity :
    (∀ c ∈ QmiModel.Gen.C02Limits.sizeChecks, c.offset = 0 ∧ c.strict = true) ∧
    (QmiModel.Gen.C02Limits.sizeChecks.any (·.sender)) = true ∧
    (QmiModel.Gen.C02Limits.sizeChecks.any (fun c => !c.sender)) = true := by
  decide

/-- hence: **a message the sender puts on the wire is never refused by the receiver for its size**, at any limit -/
theorem sent_message_is_accepted (limit size : Nat) :
    ∀ s ∈ QmiModel.Gen.C02Limits.sizeChecks, s.sender = true → s.refuses limit size = false →
    ∀ r ∈ QmiModel.Gen.C02Limits.sizeChecks, r.refuses limit size = false := by
  intro s hs _ hacc r hr
  rw [← size_checks_agree _ 0 true gen_size_checks_same_quantity.1 limit size s hs r hr]
  exact hacc

/-- the variant with 9 header bytes counted on the receiving side only is expressible and refuses sizes the sender
accepts (`limit - 8 … limit`) -/
theorem header_counted_on_one_side_disagrees :
    (⟨"send", true, 0, true⟩ : SizeCheck).refuses 3000 2995 = false ∧
    (⟨"recv", false, 9, true⟩ : SizeCheck).refuses 3000 2995 = true := by decide

/-- an unbounded queue keeps every request, in order … -/
theorem fifo_unbounded_no_loss (q rs : List α) : rs.foldl (fifoPush none) q = q ++ rs := by
  induction rs generalizing q with
  | nil => simp
  | cons r rs ih => simp [List.foldl_cons, fifoPush, ih]

/-- … a bounded one silently drops the oldest (expressible; not what the source does) -/
theorem fifo_bounded_drops_oldest : [3, 4].foldl (fifoPush (some 3)) [1, 2] = [2, 3, 4] := by decide

/-- **every queue constructed between proxy and worker in the current source is unbounded** (no `maxlen`/`maxsize`);
with `fifo_unbounded_no_loss`: no burst of calls, however large, loses a request in a queue -/
theorem gen_queues_unbounded : ∀ q ∈ QmiModel.Gen.C02Limits.queues, q.bound = none := by decide

theorem gen_worker_fifo_found :
    (QmiModel.Gen.C02Limits.queues.any (fun q => q.site == "rpc.py:_RpcThread.__init__:deque")) = true := by decide

/-- the only `MAX_*` constant on the path is the message size limit; a new one is a new boundary to generate at -/
theorem gen_limits_known :
    ∀ l ∈ QmiModel.Gen.C02Limits.limits, l.1 ∈ ["messaging._PeerTcpConnection.MAX_MESSAGE_SIZE"] := by decide

/-! ## locks: what a proxy forwards, and what an incompatible lock state does to a call -/

/-- the blocking proxy and its non-blocking companion always forward the same token, through any history of
`lock()` / `unlock()` / `force_unlock()` replies -/
theorem proxy_tokens_in_sync (evs : List LockEvent) (p : ProxyTokens) (h : p.blocking = p.nonBlocking) :
    (evs.foldl ProxyTokens.step p).blocking = (evs.foldl ProxyTokens.step p).nonBlocking := by
  induction evs generalizing p with
  | nil => exact h
  | cons e es ih =>
    apply ih
    cases e <;> simp only [ProxyTokens.step] <;> split <;> first | rfl | exact h

/-- … and after a granted `lock()` that token is exactly the one the lock request obtained -/
theorem granted_token_is_forwarded (p : ProxyTokens) (mine : Token) :
    (p.step (.lockReply mine (some mine))) = ⟨some mine, some mine⟩ := by
  simp [ProxyTokens.step]

example : ([LockEvent.lockReply ⟨"cli", "$lock_1"⟩ (some ⟨"cli", "$lock_1"⟩), .unlockReply (some ⟨"srv", "__ACCESS_DENIED__"⟩)].foldl
    ProxyTokens.step {}) = ⟨some ⟨"cli", "$lock_1"⟩, some ⟨"cli", "$lock_1"⟩⟩ := by decide

/-- **A call whose token does not match the object's lock is refused** — for both placements and both kinds of proxy the
caller gets "The object is locked by another proxy", and the method is not invoked (`dispatch` never consults `f`) -/
theorem locked_call_refused (pl : Placement) (P : Pickle V W) (X : Excs V) (mode : Mode) (params : List String)
    (cli srv : Node) (cc sc : Conn) (o : Obj V) (iface : List String) (futureAddr objAddr : Addr) (rid attr : String)
    (args : List V) (kwargs : List (String × V)) (token : Option Token) (held : Token)
    (hwf : WellFormed pl cli srv cc sc futureAddr objAddr)
    (hattr : attr ∈ iface) (hheld : o.lock = some held) (hne : token ≠ some held)
    (hkw : ∀ kv ∈ kwargs, kv.1 ∉ params) (hto : ∀ kv ∈ kwargs, kv.1 ≠ timeoutKw)
    (hp : ∀ v ∈ args ++ kwargs.map (·.2), P.decode (P.encode v) = some v) :
    proxyCall pl P X mode params cli srv cc sc o (mkStubs iface) futureAddr objAddr rid attr args kwargs token
      = .lockedError := by
  have hstub := stub_sends_own_name iface attr hattr
  have hk := stubKwargs_ok mode params kwargs hkw hto
  have hlock : ¬ (o.lock = none ∨ o.lock = token) := by
    rw [hheld]
    intro h
    rcases h with h | h
    · cases h
    · exact hne h.symm
  cases pl with
  | sameContext =>
    obtain ⟨hfc, hoc, hfut⟩ := hwf.sameCtx rfl
    have hobj := hwf.objReg
    have hroute1 : srv.route (mkRequest futureAddr objAddr rid attr args kwargs token) = .ok .localDeliver := by
      simp [Node.route, mkRequest, hoc]
    have hdel1 : srv.deliver (mkRequest futureAddr objAddr rid attr args kwargs token) = .ok objAddr.obj := by
      simp [Node.deliver, mkRequest, hoc, hobj]
    have hdisp : dispatch X o (mkRequest futureAddr objAddr rid attr args kwargs token)
        = some (mkReply (mkRequest futureAddr objAddr rid attr args kwargs token) .locked none) := by
      simp [dispatch, mkRequest, hlock]
    have hroute2 : srv.route (mkReply (mkRequest futureAddr objAddr rid attr args kwargs token) .locked none)
        = .ok .localDeliver := by simp [Node.route, mkReply, mkRequest, hfc]
    have hdel2 : srv.deliver (mkReply (mkRequest futureAddr objAddr rid attr args kwargs token) .locked none)
        = .ok futureAddr.obj := by simp [Node.deliver, mkReply, mkRequest, hfc, hfut]
    simp only [proxyCall, localCall, hstub, hk, hroute1, hdel1, hdisp, hroute2, hdel2]
    simp [futureHandle, mkReply, wait]
  | peerContext =>
    obtain ⟨hfc, hfut, hl1, hl2⟩ := hwf.peerCtx rfl
    have hobj := hwf.objReg
    have ht1 := transfer_ok P cli srv objAddr.ctx sc (mkRequest futureAddr objAddr rid attr args kwargs token) hl1 hfc rfl
      (by simpa [mkRequest, Body.values] using hp)
    simp only [mkRequest] at ht1
    have hdel1 : srv.deliver ({ src := ⟨sc.alias, futureAddr.obj⟩, dst := ⟨srv.name, objAddr.obj⟩, reqId := rid, body := .methodRequest attr args kwargs token } : Msg V) = .ok objAddr.obj := by
      simp [Node.deliver, hobj]
    have hdisp : dispatch X o ({ src := ⟨sc.alias, futureAddr.obj⟩, dst := ⟨srv.name, objAddr.obj⟩, reqId := rid, body := .methodRequest attr args kwargs token } : Msg V)
        = some { src := ⟨srv.name, objAddr.obj⟩, dst := ⟨sc.alias, futureAddr.obj⟩, reqId := rid, body := .methodReply .locked none } := by
      simp [dispatch, mkReply, hlock]
    have ht2 := transfer_ok P srv cli sc.alias cc ({ src := ⟨srv.name, objAddr.obj⟩, dst := ⟨sc.alias, futureAddr.obj⟩, reqId := rid, body := .methodReply .locked none } : Msg V) hl2 rfl rfl
      (by intro w hw; simp [Body.values] at hw)
    have hdel2 : cli.deliver ({ src := ⟨cc.alias, objAddr.obj⟩, dst := ⟨cli.name, futureAddr.obj⟩, reqId := rid, body := .methodReply .locked none } : Msg V) = .ok futureAddr.obj := by
      simp [Node.deliver, hfut]
    simp only [proxyCall, peerCall, hstub, hk, mkRequest, ht1, hdel1, hdisp, ht2, hdel2]
    simp [futureHandle, wait]

example : proxyCall .peerContext exP exX .blocking [] exCli exSrv exCliConn exSrvConn
    { exObj with lock := some ⟨"other", "$lock_1"⟩ } (mkStubs ["echo"]) ⟨"cli", "$future_1"⟩ ⟨"srv", "obj"⟩ "r1" "echo" [1] [] none
    = .lockedError := by decide

/-! ## `rpc_timeout` -/

/-- the blocking stub keeps `rpc_timeout` for itself and forwards every other keyword unchanged -/
theorem timeout_keyword_not_forwarded (kwargs : List (String × V)) :
    stubKwargs .blocking [] kwargs = .ok (kwargs.filter (fun kv => kv.1 != timeoutKw)) := by
  simp [stubKwargs]

/-- the non-blocking stub refuses `rpc_timeout` (`RuntimeError`) before anything is sent -/
theorem nonblocking_timeout_keyword_rejected (pl : Placement) (P : Pickle V W) (X : Excs V) (cli srv : Node)
    (cc sc : Conn) (o : Obj V) (iface : List String) (futureAddr objAddr : Addr) (rid attr : String) (args : List V)
    (kwargs : List (String × V)) (token : Option Token) (hattr : attr ∈ iface)
    (hto : ∃ kv ∈ kwargs, kv.1 = timeoutKw) :
    proxyCall pl P X .nonBlocking [] cli srv cc sc o (mkStubs iface) futureAddr objAddr rid attr args kwargs token
      = .stubError .runtimeError := by
  have hstub := stub_sends_own_name iface attr hattr
  have hk : stubKwargs .nonBlocking [] kwargs = .error .runtimeError := by
    obtain ⟨kv, hkv, hkey⟩ := hto
    have : kwargs.any (fun kv => kv.1 == timeoutKw) = true := List.any_eq_true.2 ⟨kv, hkv, by simpa using hkey⟩
    simp [stubKwargs, this]
  cases pl <;> simp only [proxyCall, localCall, peerCall, hstub, hk]

/-- **A blocking call with `rpc_timeout=t` that completes in time** equals the direct call *without* that keyword, for
both placements — whatever else is in `kwargs` -/
theorem proxy_with_timeout_eq_direct (pl : Placement) (P : Pickle V W) (X : Excs V)
    (cli srv : Node) (cc sc : Conn) (o : Obj V) (iface : List String) (futureAddr objAddr : Addr) (rid attr : String)
    (args : List V) (kwargs : List (String × V)) (token : Option Token) (f : List V → List (String × V) → Res V)
    (hwf : WellFormed pl cli srv cc sc futureAddr objAddr)
    (hattr : attr ∈ iface) (hm : o.methods attr = some f) (hlock : o.lock = none ∨ o.lock = token)
    (hp : ∀ v ∈ args ++ (kwargs.filter (fun kv => kv.1 != timeoutKw)).map (·.2), P.decode (P.encode v) = some v)
    (hres : ∀ v, (f args (kwargs.filter (fun kv => kv.1 != timeoutKw)) = .value v ∨
                  f args (kwargs.filter (fun kv => kv.1 != timeoutKw)) = .exc v) → P.decode (P.encode v) = some v) :
    proxyCall pl P X .blocking [] cli srv cc sc o (mkStubs iface) futureAddr objAddr rid attr args kwargs token
      = directCall o attr args (kwargs.filter (fun kv => kv.1 != timeoutKw)) := by
  have hsame : proxyCall pl P X .blocking [] cli srv cc sc o (mkStubs iface) futureAddr objAddr rid attr args kwargs token
      = proxyCall pl P X .blocking [] cli srv cc sc o (mkStubs iface) futureAddr objAddr rid attr args
          (kwargs.filter (fun kv => kv.1 != timeoutKw)) token := by
    cases pl <;>
      simp only [proxyCall, localCall, peerCall, timeout_keyword_not_forwarded, List.filter_filter, Bool.and_self]
  rw [hsame]
  exact proxy_eq_direct_for_params pl P X .blocking [] cli srv cc sc o iface futureAddr objAddr rid attr args _ token f
    hwf hattr hm hlock (fun _ _ h => by cases h)
    (fun kv hkv => by have := (List.mem_filter.1 hkv).2; simpa using this) hp hres

/-- a call whose deadline passes first raises `QMI_RpcTimeoutException`; a result that is already there is returned -/
theorem deadline_outcome (f : FutSt V) :
    waitUntilDeadline f = match f with | .noResult => .timedOut | g => wait g := by
  cases f <;> rfl

private theorem updFirst_absent (k : String) (g : FutSt V → FutSt V) (l : List (String × FutSt V))
    (h : ∀ e ∈ l, e.1 ≠ k) : updFirst k g l = l := by
  induction l with
  | nil => rfl
  | cons hd tl ih =>
    obtain ⟨k0, f0⟩ := hd
    have h0 : k0 ≠ k := h (k0, f0) List.mem_cons_self
    simp only [updFirst, h0, if_false]
    rw [ih (fun e he => h e (List.mem_cons_of_mem _ he))]

/-- **The late reply of a timed-out call is discarded without affecting any other caller**: once `wait` has
unregistered the future, a message addressed to it changes nothing in the caller's context -/
theorem late_reply_discarded (X : Excs V) (c : Client V) (m : Msg V) :
    ((c.unregister m.dst.obj).deliverReply X m).futs = (c.unregister m.dst.obj).futs := by
  unfold Client.deliverReply
  split
  · rfl
  · simp only [Client.unregister]
    apply updFirst_absent
    intro e he
    have := (List.mem_filter.1 he).2
    simpa using this

/-- … and unregistering the timed-out future leaves every other future as it was -/
theorem unregister_keeps_others (c : Client V) (k k' : String) (h : k' ≠ k) :
    lookupFut k' (c.unregister k).futs = lookupFut k' c.futs := by
  simp only [Client.unregister]
  induction c.futs with
  | nil => rfl
  | cons hd tl ih =>
    obtain ⟨k0, f0⟩ := hd
    by_cases h0 : k0 = k
    · subst h0
      have h1 : ¬ k0 = k' := fun e => h e.symm
      simp only [List.filter_cons, bne_self_eq_false, Bool.false_eq_true, if_false, lookupFut, h1]
      exact ih
    · have hb : (k0 != k) = true := by simpa using h0
      by_cases h1 : k0 = k'
      · subst h1
        simp only [List.filter_cons, hb, if_true, lookupFut]
      · simp only [List.filter_cons, hb, if_true, lookupFut, h1, if_false]
        exact ih

example : waitUntilDeadline (.noResult : FutSt Nat) = .timedOut ∧
    waitUntilDeadline (.set .value (some 3) : FutSt Nat) = .value 3 := by decide

/-! ## replies go to the requesting future, under any number of concurrent callers -/

private theorem lookupFut_updFirst (k k' : String) (g : FutSt V → FutSt V) (l : List (String × FutSt V)) :
    lookupFut k' (updFirst k g l) = if k' = k then (lookupFut k l).map g else lookupFut k' l := by
  induction l with
  | nil => simp [updFirst, lookupFut]
  | cons hd tl ih =>
    obtain ⟨k0, f0⟩ := hd
    by_cases h0 : k0 = k
    · subst h0
      by_cases h1 : k' = k0
      · subst h1; simp [updFirst, lookupFut]
      · have h1' : ¬ k0 = k' := fun h => h1 h.symm
        simp [updFirst, lookupFut, h1, h1']
    · by_cases h1 : k' = k
      · subst h1
        simp only [updFirst, h0, if_false, lookupFut, if_true] at ih ⊢
        exact ih
      · by_cases h2 : k0 = k'
        · simp [updFirst, lookupFut, h1, h2]
        · simp only [updFirst, h0, if_false, lookupFut, h2, h1] at ih ⊢
          exact ih

/-- **a reply is delivered only to the handler registered under its destination address**: every other future is
left exactly as it was … -/
theorem reply_goes_to_requester (X : Excs V) (c : Client V) (m : Msg V) (k : String) (hk : k ≠ m.dst.obj) :
    lookupFut k (c.deliverReply X m).futs = lookupFut k c.futs := by
  unfold Client.deliverReply
  split
  · rfl
  · simp [lookupFut_updFirst, hk]

/-- … and the future registered under that address handles it -/
theorem reply_reaches_requester (X : Excs V) (c : Client V) (m : Msg V) (hctx : m.dst.ctx = c.name) :
    lookupFut m.dst.obj (c.deliverReply X m).futs = (lookupFut m.dst.obj c.futs).map (fun f => futureHandle X f m) := by
  simp [Client.deliverReply, hctx, lookupFut_updFirst]

private theorem deliverReply_name (X : Excs V) (c : Client V) (m : Msg V) : (c.deliverReply X m).name = c.name := by
  unfold Client.deliverReply; split <;> rfl

private theorem deliverAll_untouched (X : Excs V) (ms : List (Msg V)) (c : Client V) (k : String)
    (hk : ∀ m ∈ ms, m.dst.obj ≠ k) : lookupFut k (c.deliverAll X ms).futs = lookupFut k c.futs := by
  induction ms generalizing c with
  | nil => rfl
  | cons m rest ih =>
    have h0 : k ≠ m.dst.obj := fun h => hk m List.mem_cons_self h.symm
    have := ih (c.deliverReply X m) (fun m' hm' => hk m' (List.mem_cons_of_mem _ hm'))
    simp only [Client.deliverAll, List.foldl_cons] at this ⊢
    rw [this, reply_goes_to_requester X c m k h0]

/-- Any sequence of arriving messages with pairwise distinct destinations (any interleaving of any number of callers'
replies): every future that was waiting under a destination address ends up having handled exactly the message addressed
to it. -/
theorem each_future_handles_its_own_message (X : Excs V) (ms : List (Msg V)) (c : Client V)
    (hctx : ∀ m ∈ ms, m.dst.ctx = c.name) (hone : (ms.map (fun m => m.dst.obj)).Nodup) :
    ∀ m ∈ ms, ∀ f, lookupFut m.dst.obj c.futs = some f →
      lookupFut m.dst.obj (c.deliverAll X ms).futs = some (futureHandle X f m) := by
  induction ms generalizing c with
  | nil => intro m hm; cases hm
  | cons m0 rest ih =>
    intro m hm f hf
    simp only [List.map_cons, List.nodup_cons, List.mem_map, not_exists, not_and] at hone
    obtain ⟨hnot, hrest⟩ := hone
    have hname := deliverReply_name X c m0
    simp only [Client.deliverAll, List.foldl_cons]
    rcases List.mem_cons.1 hm with rfl | hm'
    · -- the message for this future arrives now; nothing later is addressed to it
      have h1 := reply_reaches_requester X c m (hctx m List.mem_cons_self)
      rw [hf] at h1
      have h2 := deliverAll_untouched X rest (c.deliverReply X m) m.dst.obj
        (fun m' hm' h => hnot m' hm' h)
      simp only [Client.deliverAll] at h2
      rw [h2, h1]; rfl
    · -- somebody else's message arrives now
      have hne : m.dst.obj ≠ m0.dst.obj := fun h => hnot m hm' h
      have h1 := reply_goes_to_requester X c m0 m.dst.obj hne
      have := ih (c.deliverReply X m0) (fun m' h' => by rw [hname]; exact hctx m' (List.mem_cons_of_mem _ h')) hrest
        m hm' f (by rw [h1]; exact hf)
      simpa only [Client.deliverAll] using this

/-- invariant of the caller's context: no registered future carries a number the counter has not reached yet -/
def Client.Ok (c : Client V) : Prop :=
  ∀ e ∈ c.futs, ∀ j, c.counter < j → e.1 ≠ futurePrefix ++ toString j

private theorem lookupFut_append_of_some (k : String) (l ext : List (String × FutSt V)) (f : FutSt V)
    (h : lookupFut k l = some f) : lookupFut k (l ++ ext) = some f := by
  induction l with
  | nil => simp [lookupFut] at h
  | cons hd tl ih =>
    obtain ⟨k0, f0⟩ := hd
    by_cases h0 : k0 = k
    · simp only [lookupFut, h0, if_true, List.cons_append] at h ⊢; exact h
    · simp only [lookupFut, h0, if_false, List.cons_append] at h ⊢; exact ih h

private theorem lookupFut_append_fresh (k : String) (l : List (String × FutSt V)) (f : FutSt V)
    (h : ∀ e ∈ l, e.1 ≠ k) : lookupFut k (l ++ [(k, f)]) = some f := by
  induction l with
  | nil => simp [lookupFut]
  | cons hd tl ih =>
    obtain ⟨k0, f0⟩ := hd
    have h0 : k0 ≠ k := h (k0, f0) List.mem_cons_self
    simp only [List.cons_append, lookupFut, h0, if_false]
    exact ih (fun e he => h e (List.mem_cons_of_mem _ he))

private theorem newFuture_ok (c : Client V) (h : c.Ok) : c.newFuture.1.Ok := by
  intro e he j hj
  simp only [Client.newFuture, List.mem_append, List.mem_singleton] at he hj
  rcases he with he | rfl
  · exact h e he j (by omega)
  · simp only [uniqueAddr]
    intro heq
    have := Nat.repr_injective ((String.append_right_inj futurePrefix).1 heq)
    omega

private theorem issue_facts (n : Nat) (c : Client V) :
    (c.issue n).1.name = c.name ∧ (∃ ext, (c.issue n).1.futs = c.futs ++ ext) ∧
    ∀ a ∈ (c.issue n).2, ∃ j, c.counter < j ∧ a = uniqueAddr c.name futurePrefix j := by
  induction n generalizing c with
  | zero => exact ⟨rfl, ⟨[], by simp [Client.issue]⟩, fun a ha => by cases ha⟩
  | succ n ih =>
    obtain ⟨h1, ⟨ext, h2⟩, h3⟩ := ih c.newFuture.1
    refine ⟨?_, ⟨(c.newFuture.2.obj, .noResult) :: ext, ?_⟩, ?_⟩
    · simpa [Client.issue, Client.newFuture] using h1
    · simp only [Client.issue]; rw [h2]; simp [Client.newFuture]
    · intro a ha
      simp only [Client.issue, List.mem_cons] at ha
      rcases ha with rfl | ha
      · exact ⟨c.counter + 1, by omega, rfl⟩
      · obtain ⟨j, hj, rfl⟩ := h3 a ha
        exact ⟨j, by simp only [Client.newFuture] at hj; omega, by simp [Client.newFuture]⟩

/-- **distinct futures have distinct addresses**: the addresses handed to any number of callers are pairwise different -/
theorem issued_addresses_nodup (n : Nat) (c : Client V) : (c.issue n).2.Nodup := by
  induction n generalizing c with
  | zero => simp [Client.issue]
  | succ n ih =>
    simp only [Client.issue, List.nodup_cons]
    refine ⟨?_, ih _⟩
    intro hmem
    obtain ⟨j, hj, heq⟩ := (issue_facts n c.newFuture.1).2.2 _ hmem
    simp only [Client.newFuture] at hj heq
    have := unique_address_injective _ _ heq
    omega

private theorem issued_waiting (n : Nat) (c : Client V) (hok : c.Ok) :
    ∀ a ∈ (c.issue n).2, lookupFut a.obj (c.issue n).1.futs = some .noResult := by
  induction n generalizing c with
  | zero => intro a ha; cases ha
  | succ n ih =>
    intro a ha
    simp only [Client.issue, List.mem_cons] at ha ⊢
    rcases ha with rfl | ha
    · obtain ⟨ext, hext⟩ := (issue_facts n c.newFuture.1).2.1
      rw [hext]
      apply lookupFut_append_of_some
      simp only [Client.newFuture]
      apply lookupFut_append_fresh
      intro e he
      exact hok e he (c.counter + 1) (by omega)
    · exact ih c.newFuture.1 (newFuture_ok c hok) a ha

/-- **Any number of concurrent callers.**  `n` callers (any `n`) create their futures in a context whose counter
invariant holds; replies — at most one per request (C01) — arrive in *any* order `ms`: every caller whose reply has
arrived holds the outcome carried by the reply addressed to *its own* future, and nobody else's. -/
theorem concurrent_callers_own_outcome (X : Excs V) (c0 : Client V) (hok : c0.Ok) (n : Nat) (ms : List (Msg V))
    (hdst : ∀ m ∈ ms, m.dst ∈ (c0.issue n).2) (hone : (ms.map (fun m => m.dst)).Nodup) :
    ∀ m ∈ ms, lookupFut m.dst.obj ((c0.issue n).1.deliverAll X ms).futs = some (futureHandle X .noResult m) := by
  have hfacts := issue_facts n c0
  have hctx : ∀ m ∈ ms, m.dst.ctx = (c0.issue n).1.name := by
    intro m hm
    obtain ⟨j, _, hj⟩ := hfacts.2.2 _ (hdst m hm)
    rw [hfacts.1, hj]; rfl
  have hobj : (ms.map (fun m => m.dst.obj)).Nodup := by
    rw [List.Nodup, List.pairwise_map] at hone ⊢
    refine hone.imp_of_mem ?_
    intro a b ha hb hab hobj
    apply hab
    have h1 := hctx a ha
    have h2 := hctx b hb
    cases hda : a.dst; cases hdb : b.dst
    simp only [hda, hdb] at h1 h2 hobj
    subst h1; subst hobj; rw [h2]
  intro m hm
  exact each_future_handles_its_own_message X ms _ hctx hobj m hm .noResult
    (issued_waiting n c0 hok _ (hdst m hm))

/-- a fresh context satisfies the invariant; so does every context reached by creating futures -/
theorem client_ok_init (name : String) (k : Nat) : ({ name := name, counter := k, futs := [] } : Client V).Ok := by
  intro e he; cases he

private def exClient : Client Nat := { name := "cli", counter := 0, futs := [] }
private def exReplies : List (Msg Nat) :=
  [ { src := ⟨"srv", "o"⟩, dst := ⟨"cli", "$future_3"⟩, reqId := "c", body := .methodReply .value (some 30) },
    { src := ⟨"srv", "o"⟩, dst := ⟨"cli", "$future_1"⟩, reqId := "a", body := .methodReply .exception (some 10) },
    { src := ⟨"srv", "o"⟩, dst := ⟨"cli", "$future_2"⟩, reqId := "a", body := .errorReply "gone" } ]

/-- the hypotheses of `concurrent_callers_own_outcome` are satisfiable (three callers, replies out of order, two of
them even with the same request id), and the conclusion computes as expected -/
example : (∀ m ∈ exReplies, m.dst ∈ (exClient.issue 3).2) ∧ (exReplies.map (fun m => m.dst)).Nodup ∧
    (lookupFut "$future_1" ((exClient.issue 3).1.deliverAll exX exReplies).futs).map wait = some (.raised 10) ∧
    (lookupFut "$future_2" ((exClient.issue 3).1.deliverAll exX exReplies).futs).map wait = some (.raised 500) ∧
    (lookupFut "$future_3" ((exClient.issue 3).1.deliverAll exX exReplies).futs).map wait = some (.value 30) := by
  decide

example : (({ name := "cli", counter := 0, futs := [] } : Client Nat).issue 3).2
    = [⟨"cli", "$future_1"⟩, ⟨"cli", "$future_2"⟩, ⟨"cli", "$future_3"⟩] := by decide

end QmiModel.Forward
