import QmiModel.Lemmas.C13Contracts
import QmiModel.Lemmas.C13Discard
import QmiModel.Lemmas.C13NoLoss
import QmiModel.Lemmas.C13Fuel
import QmiModel.Lemmas.C13Udp
import QmiModel.Lemmas.C13Timing
import QmiModel.Lemmas.C13Drain
/-!
# C13 — instrument transports never lose, duplicate or reorder bytes

Property theorems only (model: `Model/Transport.lean`, helper lemmas: `Lemmas/C13*.lean`).

Everything below is quantified over **every** state `s` (any transport kind, any packet-size
constants, any buffer content, any clock, *any remaining oracle script* — i.e. every packetisation of
the device stream with arbitrary delays, time-out results, empty reads and EOF in between), every
terminator (any length, including empty), every byte count and every time-out (`none`, zero,
positive, negative), and — for the run-level statements — every finite sequence of operations,
including `feed` (the device sending more at any point).  Nothing is bounded.

Vocabulary: `tot s = logBytes s.log ++ s.buf ++ devBytes s.dev` — the segments already handed to the
caller or discarded (ghost log, in call order), then the read buffer, then what the device will still
deliver.  "Nothing lost, duplicated or reordered" is: `tot` only ever grows at the far end, by what
the device sends (`conservation`).
-/
namespace QmiModel.Transport

/-- the calls that hand data to the caller -/
def Op.isRead : Op → Bool
  | .read _ _ => true
  | .readUntil _ _ => true
  | .readUntilTimeout _ _ => true
  | _ => false

/-- every call of the read family obeys the accounting contract `ReadSpec` -/
theorem step_readSpec (s : St) (op : Op) (h : op.isRead = true) : ReadSpec s (step s op) := by
  cases op with
  | read n t => simp only [step]; split; exact serialRead_spec s n t; exact sockRead_spec s n t
  | readUntil term t => simp only [step]; split; exact serialUntil_spec s term t; exact sockUntil_spec s term t
  | readUntilTimeout n t => simp only [step]; split; exact serialRut_spec s n t; exact sockRut_spec s n t
  | _ => simp [Op.isRead] at h

/-! ## conservation: no loss, no duplication, no reordering -/

/-- One step.  The only outcome excluded is `QMI_RuntimeException`, which the code raises exactly
when the OS threw a datagram away (described by `lost_datagram_step`). -/
theorem conservation_step (s : St) (op : Op) (h : (step s op).2 ≠ .exc .runtime) :
    tot (step s op).1 = tot s ++ fedBytes [op] := by
  cases op with
  | «open» => simpa [step, fedBytes] using doOpen_tot s
  | close => simpa [step, fedBytes] using doClose_tot s
  | read n t =>
    simpa [fedBytes] using (step_readSpec s (.read n t) rfl).tot_eq h
  | readUntil term t =>
    simpa [fedBytes] using (step_readSpec s (.readUntil term t) rfl).tot_eq h
  | readUntilTimeout n t =>
    simpa [fedBytes] using (step_readSpec s (.readUntilTimeout n t) rfl).tot_eq h
  | discardRead =>
    simp only [step, fedBytes, List.append_nil]
    split
    · exact (serialDiscard_spec s).1
    · exact (sockDiscard_spec s).1
  | feed evs =>
    simp only [step, fedBytes, tot, devBytes_append, List.append_nil, List.append_assoc]
  | write d => simpa [step, fedBytes] using (doWrite_spec s d).1
  | planOpen r => simp [step, fedBytes, tot]

/-- **Conservation over every operation sequence and every oracle script**: as long as the OS does
not drop a datagram, the bytes handed out or discarded (in call order), followed by the buffer,
followed by what the device has not delivered yet, are exactly the old such stream followed by
what the device sent in between. -/
theorem conservation (ops : List Op) : ∀ (s : St), (∀ o ∈ (run s ops).2, o ≠ .exc .runtime) →
    tot (run s ops).1 = tot s ++ fedBytes ops := by
  induction ops with
  | nil => intro s _; simp [run, fedBytes]
  | cons op os ih =>
    intro s h
    simp only [run, List.mem_cons, forall_eq_or_imp] at h ⊢
    rw [ih _ h.2, conservation_step s op h.1]
    cases op <;> simp [fedBytes]

/-- From a fresh transport: what was returned and discarded, then the buffer, then the undelivered
rest *is* the device stream — in particular `returned/discarded ++ buffer` is a prefix of it. -/
theorem conservation_from_init (k : Kind) (mn mx : Nat) (ops : List Op)
    (h : ∀ o ∈ (run (init k mn mx) ops).2, o ≠ .exc .runtime) :
    logBytes (run (init k mn mx) ops).1.log ++ (run (init k mn mx) ops).1.buf
      ++ devBytes (run (init k mn mx) ops).1.dev = fedBytes ops := by
  have := conservation ops (init k mn mx) h
  simpa [tot, init, logBytes, devBytes] using this

theorem delivered_is_prefix_of_stream (k : Kind) (mn mx : Nat) (ops : List Op)
    (h : ∀ o ∈ (run (init k mn mx) ops).2, o ≠ .exc .runtime) :
    logBytes (run (init k mn mx) ops).1.log ++ (run (init k mn mx) ops).1.buf <+: fedBytes ops :=
  ⟨_, conservation_from_init k mn mx ops h⟩

/-- What `QMI_RuntimeException` means: exactly one datagram `l` was dropped by the OS; every other
byte kept its place (`Lost`). -/
theorem lost_datagram_step (s : St) (op : Op) (hop : op.isRead = true) (h : (step s op).2 = .exc .runtime) :
    Lost s (step s op).1 := by
  have := step_readSpec s op hop
  generalize step s op = r at *
  obtain ⟨s', o⟩ := r
  simp only at h
  subst h
  exact this

/-- `QMI_RuntimeException` (a datagram dropped by the OS) can only come out of the datagram transport:
the stream transports (TCP, serial) never produce it, whatever the script. -/
theorem runtime_only_udp (s : St) (op : Op) (h : (step s op).2 = .exc .runtime) : s.kind = .udp := by
  refine Classical.byContradiction fun hk => ?_
  have hne : NoRt (step s op) := by
    cases op with
    | «open» =>
      simp only [step, NoRt]
      rcases doOpen_exc s with h | h | h | h <;> simp [h]
    | write d => simp only [step, doWrite, NoRt]; repeat' split
                 all_goals simp
    | planOpen r => simp [step, NoRt]
    | close => simp only [step, doClose, NoRt]; split <;> simp
    | read n t => simp only [step]; split; exact serialRead_noRt s n t; exact sockRead_noRt s n t hk
    | readUntil term t => simp only [step]; split; exact serialUntil_noRt s term t; exact sockUntil_noRt s term t hk
    | readUntilTimeout n t => simp only [step]; split; exact serialRut_noRt s n t; exact sockRut_noRt s n t hk
    | discardRead =>
      simp only [step]
      split
      · simp only [serialDiscard, NoRt]; split <;> simp
      · simp only [sockDiscard]; split
        · simp [NoRt]
        · exact sockDiscardLoop_noRt _ _
    | feed evs => simp [step, NoRt]
  exact hne h

/-- the transport kind never changes -/
theorem kind_step (s : St) (op : Op) : (step s op).1.kind = s.kind := by
  cases op with
  | «open» => exact (doOpen_cfg s).1
  | write d => exact (doWrite_spec s d).2.1
  | planOpen r => rfl
  | close => simp only [step, doClose]; split <;> rfl
  | read n t => exact (step_readSpec s (.read n t) rfl).same.kind
  | readUntil term t => exact (step_readSpec s (.readUntil term t) rfl).same.kind
  | readUntilTimeout n t => exact (step_readSpec s (.readUntilTimeout n t) rfl).same.kind
  | discardRead =>
    simp only [step]
    split
    · exact (serialDiscard_spec s).2.kind
    · exact (sockDiscard_spec s).2.kind
  | feed evs => rfl

/-- **Unconditional conservation for the stream transports (TCP, serial)**: for every op sequence
and every oracle script, with no side condition at all. -/
theorem conservation_stream (ops : List Op) : ∀ (s : St), s.kind ≠ .udp →
    tot (run s ops).1 = tot s ++ fedBytes ops := by
  induction ops with
  | nil => intro s _; simp [run, fedBytes]
  | cons op os ih =>
    intro s hk
    have h1 : (step s op).2 ≠ .exc .runtime := fun h => hk (runtime_only_udp s op h)
    simp only [run]
    rw [ih _ (by rw [kind_step]; exact hk), conservation_step s op h1]
    cases op <;> simp [fedBytes]

/-- the packet-size constants never change -/
theorem config_step (s : St) (op : Op) : (step s op).1.minP = s.minP ∧ (step s op).1.maxP = s.maxP := by
  cases op with
  | «open» => exact ⟨(doOpen_cfg s).2.1, (doOpen_cfg s).2.2.1⟩
  | write d => exact ⟨(doWrite_spec s d).2.2.1, (doWrite_spec s d).2.2.2.1⟩
  | planOpen r => exact ⟨rfl, rfl⟩
  | close => simp only [step, doClose]; split <;> exact ⟨rfl, rfl⟩
  | read n t => exact ⟨(step_readSpec s (.read n t) rfl).same.minP, (step_readSpec s (.read n t) rfl).same.maxP⟩
  | readUntil term t =>
    exact ⟨(step_readSpec s (.readUntil term t) rfl).same.minP, (step_readSpec s (.readUntil term t) rfl).same.maxP⟩
  | readUntilTimeout n t =>
    exact ⟨(step_readSpec s (.readUntilTimeout n t) rfl).same.minP,
           (step_readSpec s (.readUntilTimeout n t) rfl).same.maxP⟩
  | discardRead =>
    simp only [step]
    split
    · exact ⟨(serialDiscard_spec s).2.minP, (serialDiscard_spec s).2.maxP⟩
    · exact ⟨(sockDiscard_spec s).2.minP, (sockDiscard_spec s).2.maxP⟩
  | feed evs => exact ⟨rfl, rfl⟩

/-- what the device sends during an op / an op sequence, as script entries -/
def fedEvs : Op → Script
  | .feed evs => evs
  | _ => []

def fedScript : List Op → Script
  | [] => []
  | op :: r => fedEvs op ++ fedScript r

/-- UDP, one step: if every datagram still to come fits the receive sizes (`Fits`; trusted-base
assumption "UDP datagrams ≤ 4096 bytes"), the call does not end in `QMI_RuntimeException`, and
`Fits` still holds afterwards. -/
theorem fits_step (s : St) (op : Op) (hk : s.kind = .udp) (hf : Fits s)
    (hfed : ∀ ev ∈ fedEvs op, FitsEv s.minP s.maxP ev) :
    (step s op).2 ≠ .exc .runtime ∧ Fits (step s op).1 := by
  have hser : s.kind ≠ .serial := by rw [hk]; decide
  have hcfg := config_step s op
  have key : ∀ (hd : DropOf s (step s op).1), Fits (step s op).1 := by
    intro hd ev hev
    rw [hcfg.1, hcfg.2]
    exact hf ev (hd.mem hev)
  cases op with
  | «open» =>
    refine ⟨?_, key (DropOf.of_dev_eq (doOpen_cfg s).2.2.2.1)⟩
    simp only [step]
    rcases doOpen_exc s with h | h | h | h <;> simp [h]
  | write d =>
    refine ⟨?_, key (DropOf.of_dev_eq (doWrite_spec s d).2.2.2.2.2.1)⟩
    simp only [step, doWrite]; repeat' split
    all_goals simp
  | planOpen r =>
    exact ⟨by simp [step], key (DropOf.of_dev_eq rfl)⟩
  | close =>
    refine ⟨by simp only [step, doClose]; split <;> simp, key ?_⟩
    simp only [step, doClose]; split <;> exact DropOf.of_dev_eq rfl
  | read n t =>
    have h := sockRead_udp s n t hk
    have hs : step s (.read n t) = sockRead s n t := by simp [step, hser]
    rw [hs] at key ⊢
    exact ⟨fun hr => h.2 hr hf, key h.1⟩
  | readUntil term t =>
    have h := sockUntil_udp s term t hk
    have hs : step s (.readUntil term t) = sockUntil s term t := by simp [step, hser]
    rw [hs] at key ⊢
    exact ⟨fun hr => h.2 hr hf, key h.1⟩
  | readUntilTimeout n t =>
    have h := sockRut_udp s n t hk
    have hs : step s (.readUntilTimeout n t) = sockRut s n t := by simp [step, hser]
    rw [hs] at key ⊢
    exact ⟨fun hr => h.2 hr hf, key h.1⟩
  | discardRead =>
    have hs : step s .discardRead = sockDiscard s := by simp [step, hser]
    rw [hs] at key ⊢
    refine ⟨?_, key (sockDiscard_drop s hk)⟩
    simp only [sockDiscard]; split
    · simp
    · exact sockDiscardLoop_noRt _ _
  | feed evs =>
    refine ⟨by simp [step], ?_⟩
    intro ev hev
    simp only [step, List.mem_append] at hev
    rcases hev with hev | hev
    · exact hf ev hev
    · exact hfed ev hev

/-- **Conservation for the datagram transport**, for every op sequence and every oracle script whose
datagrams fit the receive sizes: nothing lost, duplicated or reordered. -/
theorem conservation_udp (ops : List Op) : ∀ (s : St), s.kind = .udp → Fits s →
    (∀ ev ∈ fedScript ops, FitsEv s.minP s.maxP ev) →
    tot (run s ops).1 = tot s ++ fedBytes ops := by
  induction ops with
  | nil => intro s _ _ _; simp [run, fedBytes]
  | cons op os ih =>
    intro s hk hf hfed
    have h1 := fits_step s op hk hf (fun ev hev => hfed ev (by simp [fedScript, hev]))
    have hcfg := config_step s op
    simp only [run]
    rw [ih _ (by rw [kind_step]; exact hk) h1.2
          (fun ev hev => by rw [hcfg.1, hcfg.2]; exact hfed ev (by simp [fedScript, hev])),
        conservation_step s op h1.1]
    cases op <;> simp [fedBytes]

/-- The loops of the model are the loops of the code: the `Nat` fuel that makes them structurally
recursive is never what stops them. A call ends in `exhausted` only when the oracle script is
empty, i.e. exactly where the real call would block for ever (and where the harness's scripted
device raises `ScriptExhausted`). -/
theorem exhausted_only_when_script_empty (s : St) (op : Op) (h : (step s op).2 = .exc .exhausted) :
    (step s op).1.dev = [] := by
  have he : step s op = ((step s op).1, .exc .exhausted) := by rw [← h]
  generalize (step s op).1 = s' at *
  cases op with
  | «open» =>
    have := doOpen_exc s
    simp only [step] at he
    rw [he] at this
    simp at this
  | write d => simp only [step, doWrite] at he; repeat' split at he
               all_goals simp at he
  | planOpen r => simp [step] at he
  | close => simp only [step, doClose] at he; split at he <;> simp at he
  | read n t => simp only [step] at he; split at he; exact serialRead_exh he; exact sockRead_exh he
  | readUntil term t => simp only [step] at he; split at he; exact serialUntil_exh he; exact sockUntil_exh he
  | readUntilTimeout n t => simp only [step] at he; split at he; exact serialRut_exh he; exact sockRut_exh he
  | discardRead =>
    simp only [step] at he
    split at he
    · simp only [serialDiscard] at he; split at he <;> simp at he
    · exact sockDiscard_exh he
  | feed evs => simp [step] at he

/-! ## each call keeps its own contract -/

/-- `read(n)` returns exactly `n` bytes, and they are the next `n` bytes of the stream. -/
theorem read_exact (s s' : St) (n : Nat) (t : Option Int) (bs : Bytes)
    (h : step s (.read n t) = (s', .ret bs)) :
    bs.length = n ∧ s'.log = s.log ++ [(Tag.ret, bs)] ∧
    bs ++ (s'.buf ++ devBytes s'.dev) = s.buf ++ devBytes s.dev := by
  have hs := step_readSpec s (.read n t) rfl
  have hl : RetOK (fun bs => bs.length = n) (step s (.read n t)) := by
    simp only [step]; split; exact serialRead_len s n t; exact sockRead_len s n t
  rw [h] at hs hl
  exact ⟨hl bs rfl, hs.2.1, hs.2.2⟩

/-- `read_until(term)` returns the **shortest** available message: it ends with the terminator, no
proper prefix of it does, and it is the next part of the stream (so whatever followed the
terminator in the same packet is still in the buffer). Holds for every terminator length and every
way the terminator is split across packets. -/
theorem readUntil_shortest (s s' : St) (term : Bytes) (t : Option Int) (bs : Bytes)
    (h : step s (.readUntil term t) = (s', .ret bs)) :
    term <:+ bs ∧ (∀ pre, pre <+: bs → pre ≠ bs → ¬ term <:+ pre) ∧
    s'.log = s.log ++ [(Tag.ret, bs)] ∧
    bs ++ (s'.buf ++ devBytes s'.dev) = s.buf ++ devBytes s.dev := by
  have hs := step_readSpec s (.readUntil term t) rfl
  have hl : RetOK (Shortest term) (step s (.readUntil term t)) := by
    simp only [step]; split; exact serialUntil_shortest s term t; exact sockUntil_shortest s term t
  rw [h] at hs hl
  exact ⟨(hl bs rfl).1, (hl bs rfl).2, hs.2.1, hs.2.2⟩

/-- Chunking invariance (corollary): two runs of `read_until` on the *same stream* (buffer plus
undelivered device bytes), however differently packetised and delayed, return the same message
whenever both return. -/
theorem readUntil_chunking_invariant (s₁ s₂ s₁' s₂' : St) (term : Bytes) (t₁ t₂ : Option Int) (b₁ b₂ : Bytes)
    (hstream : s₁.buf ++ devBytes s₁.dev = s₂.buf ++ devBytes s₂.dev)
    (h₁ : step s₁ (.readUntil term t₁) = (s₁', .ret b₁))
    (h₂ : step s₂ (.readUntil term t₂) = (s₂', .ret b₂)) : b₁ = b₂ := by
  obtain ⟨e1, m1, _, q1⟩ := readUntil_shortest _ _ _ _ _ h₁
  obtain ⟨e2, m2, _, q2⟩ := readUntil_shortest _ _ _ _ _ h₂
  have p1 : b₁ <+: s₁.buf ++ devBytes s₁.dev := ⟨_, q1⟩
  have p2 : b₂ <+: s₁.buf ++ devBytes s₁.dev := ⟨_, by rw [hstream]; exact q2⟩
  rcases Nat.le_total b₁.length b₂.length with hle | hle
  · have hp : b₁ <+: b₂ := List.prefix_of_prefix_length_le p1 p2 hle
    by_cases he : b₁ = b₂
    · exact he
    · exact absurd e1 (m2 b₁ hp he)
  · have hp : b₂ <+: b₁ := List.prefix_of_prefix_length_le p2 p1 hle
    by_cases he : b₂ = b₁
    · exact he.symm
    · exact absurd e2 (m1 b₂ hp he)

/-- A call that raises anything but `QMI_RuntimeException` — in particular **a call that times
out** — hands out nothing and discards nothing: the old buffer is still there, in front of whatever
arrived meanwhile, and the open flag and configuration are untouched. -/
theorem exception_consumes_nothing (s s' : St) (op : Op) (e : Exc) (hop : op.isRead = true)
    (he : e ≠ .runtime) (h : step s op = (s', .exc e)) :
    s'.log = s.log ∧ s'.isOpen = s.isOpen ∧
    ∃ extra, s'.buf = s.buf ++ extra ∧ extra ++ devBytes s'.dev = devBytes s.dev := by
  have hs := step_readSpec s op hop
  rw [h] at hs
  have hx : Ext s s' := by
    cases e with
    | runtime => exact absurd rfl he
    | _ => exact hs
  exact ⟨hx.log, hx.same.isOpen, hx.more⟩

theorem timeout_consumes_nothing (s s' : St) (op : Op) (hop : op.isRead = true)
    (h : step s op = (s', .exc .timeout)) :
    s'.log = s.log ∧ s'.isOpen = s.isOpen ∧
    ∃ extra, s'.buf = s.buf ++ extra ∧ extra ++ devBytes s'.dev = devBytes s.dev :=
  exception_consumes_nothing s s' op .timeout hop (by decide) h

/-- … so the data is still there for the next call: after a time-out, the stream seen by the next
call is the stream the timed-out call saw. -/
theorem timeout_then_same_stream (s s' : St) (op : Op) (hop : op.isRead = true)
    (h : step s op = (s', .exc .timeout)) :
    s'.buf ++ devBytes s'.dev = s.buf ++ devBytes s.dev := by
  obtain ⟨_, _, x, h1, h2⟩ := timeout_consumes_nothing s s' op hop h
  rw [h1, List.append_assoc, h2]

/-- **`read_until_timeout(n)` returns at most `n` bytes** — every transport kind (TCP, UDP, serial), every
value of the packet-size constants, every script.  (False for UDP on the pinned tree 04de7e7, where the
time-out branch handed out the whole buffer; repaired by commit 916a4b4, which this model mirrors.) -/
theorem readUntilTimeout_le_n (s s' : St) (n : Nat) (t : Option Int) (bs : Bytes)
    (h : step s (.readUntilTimeout n t) = (s', .ret bs)) : bs.length ≤ n := by
  simp only [step] at h
  split at h
  · -- serial
    have hlen := serialRead_len s n t
    simp only [serialRut] at h
    have hfin := serialRead_timeout_lt s n t
    generalize hr : serialRead s n t = r at *
    obtain ⟨s1, o⟩ := r
    cases o with
    | unit => simp at h
    | ret b =>
      simp only [Prod.mk.injEq, Out.ret.injEq] at h
      have := hlen b rfl
      simp only at this
      rw [← h.2]; omega
    | exc e =>
      cases e with
      | timeout =>
        simp only [takeAll, Prod.mk.injEq, Out.ret.injEq] at h
        have := hfin s1 rfl
        rw [← h.2]; omega
      | _ => simp at h
  · -- socket family (stream and datagram)
    have := sockRut_le s n t
    rw [h] at this
    exact this bs rfl

/-- On a time-out the socket transports hand out the *first* `n` buffered bytes and keep the rest: the
datagram that overshot the request is still there for the next call. -/
theorem readUntilTimeout_keeps_rest (s s1 : St) (n : Nat) (t : Option Int) (hk : s.kind ≠ .serial)
    (h : sockRead s n t = (s1, .exc .timeout)) :
    step s (.readUntilTimeout n t) = ({ s1 with buf := s1.buf.drop n, log := s1.log ++ [(Tag.ret, s1.buf.take n)] },
                                      .ret (s1.buf.take n)) := by
  simp only [step, hk, if_false, sockRut, h, takeBuf]

/-- an open UDP transport, a 3-byte datagram delivered after one tick (used by the examples below; on the
pinned tree `read_until_timeout(1, 0)` returned all three bytes from this state) -/
def udpWitness : St :=
  { init .udp 4096 4096 with isOpen := true, dev := [⟨1, .data [1, 2, 3]⟩] }

/-- `discard_read` on an open transport leaves the read buffer empty (whatever was buffered went to the
discard log, in stream order — see `conservation_step`). -/
theorem discard_empties_buffer (s : St) (ho : s.isOpen = true) : (step s .discardRead).1.buf = [] := by
  simp only [step]
  split
  · simp [serialDiscard, ho]
  · simp only [sockDiscard, ho, Bool.not_true, Bool.false_eq_true, if_false]
    exact (sockDiscardLoop_spec _ _ rfl).2.2

/-- **`discard_read` leaves nothing of what had arrived** (socket transports): when it returns, the device
script has lost every leading entry that delivers data — each waiting datagram / segment, however many and
whatever their sizes relative to `MAX_PACKET_SIZE` — up to and including the first answer that says
"nothing more" (time-out, EOF, empty read; for UDP also an oversize datagram), and the buffer is empty.
It never stops after a receive that still handed out data. -/
theorem discard_drains_until_device_idle (s : St) (ho : s.isOpen = true) (hk : s.kind ≠ .serial) (hp : 0 < s.maxP)
    (h : (step s .discardRead).2 = .unit) :
    (step s .discardRead).1.dev = drained (s.kind == .udp) s.maxP s.dev ∧ (step s .discardRead).1.buf = [] := by
  simp only [step, hk, if_false] at h ⊢
  exact sockDiscard_drains s ho hp h

/-- serial `discard_read`: always succeeds on an open transport, empties the buffer, and leaves no byte that
is available without delay at the head of the device script -/
theorem serial_discard_leaves_nothing_ready (s : St) (ho : s.isOpen = true) (hk : s.kind = .serial) :
    (step s .discardRead).2 = .unit ∧ (step s .discardRead).1.buf = [] ∧
    (inWaitingOf (step s .discardRead).1.dev = 0 ∨ ∃ e rest, (step s .discardRead).1.dev = ⟨e, .data []⟩ :: rest) := by
  simp only [step, hk, if_true, serialDiscard, ho, Bool.not_true, Bool.false_eq_true, if_false]
  exact ⟨trivial, trivial, flushSplit_head s.dev⟩

/-- `read_until_timeout` never raises the time-out itself -/
theorem readUntilTimeout_no_timeout (s : St) (n : Nat) (t : Option Int) :
    (step s (.readUntilTimeout n t)).2 ≠ .exc .timeout := by
  simp only [step]
  split
  · simp only [serialRut]
    generalize serialRead s n t = r
    obtain ⟨s1, o⟩ := r
    cases o with
    | exc e => cases e <;> simp [takeAll]
    | _ => simp
  · simp only [sockRut]
    generalize sockRead s n t = r
    obtain ⟨s1, o⟩ := r
    cases o with
    | exc e =>
      cases e with
      | timeout => simp [takeBuf]
      | eof => simp only; split <;> simp [takeAll]
      | _ => simp
    | _ => simp

/-! ## a closed transport never touches the device; open/close state machine -/

/-- On a closed transport every call except `open` leaves the device script, the record of device
interactions and the clock exactly as they were, and either raises `QMI_InvalidOperationException`
with the state unchanged, or (socket `read_until` only, which searches the buffer before checking
the flag) returns bytes that were already in the buffer. -/
theorem closed_never_touches_device (s : St) (op : Op) (hc : s.isOpen = false)
    (hop : op.isRead = true ∨ op = .discardRead ∨ op = .close ∨ ∃ d, op = .write d) :
    (step s op).1.dev = s.dev ∧ (step s op).1.io = s.io ∧ (step s op).1.clock = s.clock ∧
    (step s op).1.isOpen = false ∧
    (step s op = (s, .exc .invalidOp) ∨
      ∃ term t bs, op = .readUntil term t ∧ s.kind ≠ .serial ∧ (step s op).2 = .ret bs ∧ bs <+: s.buf) := by
  rcases hop with hop | rfl | rfl | ⟨d, rfl⟩
  · cases op with
    | read n t =>
      have : step s (.read n t) = (s, .exc .invalidOp) := by
        simp only [step, serialRead, sockRead, hc]; split <;> rfl
      rw [this]; exact ⟨rfl, rfl, rfl, hc, Or.inl rfl⟩
    | readUntilTimeout n t =>
      have : step s (.readUntilTimeout n t) = (s, .exc .invalidOp) := by
        simp only [step, serialRut, sockRut, serialRead, sockRead, hc]; split <;> rfl
      rw [this]; exact ⟨rfl, rfl, rfl, hc, Or.inl rfl⟩
    | readUntil term t =>
      simp only [step]
      split
      · have : serialUntil s term t = (s, .exc .invalidOp) := by simp [serialUntil, hc]
        rw [this]; exact ⟨rfl, rfl, rfl, hc, Or.inl rfl⟩
      · rename_i hser
        cases hf : findSub term s.buf with
        | some p =>
          have : sockUntil s term t = takeMsg s p term := by simp [sockUntil, hf]
          rw [this]
          exact ⟨rfl, rfl, rfl, hc, Or.inr ⟨term, t, _, rfl, hser, rfl, List.take_prefix _ _⟩⟩
        | none =>
          have : sockUntil s term t = (s, .exc .invalidOp) := by simp [sockUntil, hf, hc]
          rw [this]
          exact ⟨rfl, rfl, rfl, hc, Or.inl rfl⟩
    | _ => simp [Op.isRead] at hop
  · have : step s .discardRead = (s, .exc .invalidOp) := by
      simp only [step, serialDiscard, sockDiscard, hc]; split <;> rfl
    rw [this]; exact ⟨rfl, rfl, rfl, hc, Or.inl rfl⟩
  · have : step s .close = (s, .exc .invalidOp) := by simp [step, doClose, hc]
    rw [this]; exact ⟨rfl, rfl, rfl, hc, Or.inl rfl⟩
  · have : step s (.write d) = (s, .exc .invalidOp) := by simp [step, doWrite, hc]
    rw [this]; exact ⟨rfl, rfl, rfl, hc, Or.inl rfl⟩

/-- `open` and `close` are refused in the wrong state (state unchanged) and flip the flag in the right
one; **a failed `open` leaves the transport closed**: whatever the OS answers (`OpenRes`), the outcome of
`open` on a closed transport is success, `QMI_TimeoutException` or a passed-through `OSError`, the flag is
set exactly on success, and the device script, the clock and the write log are untouched. -/
theorem open_close_state_machine (s : St) :
    (s.isOpen = true → step s .open = (s, .exc .invalidOp)) ∧
    (s.isOpen = false →
        ((step s .open).2 = .unit ∨ (step s .open).2 = .exc .timeout ∨ (step s .open).2 = .exc .osError) ∧
        ((step s .open).1.isOpen = true ↔ (step s .open).2 = .unit) ∧
        (step s .open).1.dev = s.dev ∧ (step s .open).1.clock = s.clock ∧ (step s .open).1.wlog = s.wlog) ∧
    (s.isOpen = false → step s .close = (s, .exc .invalidOp)) ∧
    (s.isOpen = true → (step s .close).2 = .unit ∧ (step s .close).1.isOpen = false ∧
                        (step s .close).1.buf = s.buf ∧ (step s .close).1.dev = s.dev) := by
  refine ⟨?_, ?_, ?_, ?_⟩
  · intro h; simp [step, doOpen, h]
  · intro h
    have hf := doOpen_flag s
    have hc := doOpen_cfg s
    simp only [step]
    exact ⟨doOpen_closed_out s h, by rw [hf, h]; simp, hc.2.2.2.1, hc.2.2.2.2.1, hc.2.2.2.2.2⟩
  · intro h; simp [step, doClose, h]
  · intro h; simp [step, doClose, h]

/-- `open` on a closed transport succeeds whenever the OS lets it (`OpenRes.ok`, which is also the default
when nothing else is planned) — in particular after any number of failed attempts. -/
theorem open_succeeds_when_os_allows (s : St) (hc : s.isOpen = false) (hp : s.openPlan.headD .ok = .ok) :
    (step s .open).2 = .unit ∧ (step s .open).1.isOpen = true := by
  simp only [step, doOpen, hc, Bool.false_eq_true, if_false, hp]
  cases s.kind <;> exact ⟨rfl, rfl⟩

/-- **a failed `open` can be retried**: after a refused / timed-out / failed `open` the transport is
closed (so `close` is refused and `open` is accepted again), and the retry succeeds as soon as the OS
allows it. -/
theorem failed_open_can_be_retried (s : St) (hc : s.isOpen = false) (hf : (step s .open).2 ≠ .unit)
    (hp : (step s .open).1.openPlan.headD .ok = .ok) :
    (step s .open).1.isOpen = false ∧
    step (step s .open).1 .close = ((step s .open).1, .exc .invalidOp) ∧
    (step (step s .open).1 .open).2 = .unit ∧ (step (step s .open).1 .open).1.isOpen = true := by
  have h1 : (step s .open).1.isOpen = false := by
    have := ((open_close_state_machine s).2.1 hc).2.1
    cases hb : (step s .open).1.isOpen with
    | false => rfl
    | true => exact absurd (this.1 hb) hf
  exact ⟨h1, (open_close_state_machine _).2.2.1 h1, open_succeeds_when_os_allows _ h1 hp⟩

/-- **After a failed `open` no socket created by the transport is left open** (what the repairs f965cdf
and 08e4670 establish): on a closed transport, whatever the OS answers, every failure path of `open`
ends with each socket / port it created closed again (`unclosed` = created − closed, read off the
device-interaction trace, is unchanged); a successful `open` leaves exactly one more open. -/
theorem failed_open_leaves_no_socket_open (s : St) (hc : s.isOpen = false) :
    ((step s .open).2 ≠ .unit → unclosed (step s .open).1.io = unclosed s.io) ∧
    ((step s .open).2 = .unit → unclosed (step s .open).1.io = unclosed s.io + 1) := by
  simp only [step]
  exact ⟨(doOpen_unclosed s hc).2, (doOpen_unclosed s hc).1⟩

/-- … and `close` releases the one that was open -/
theorem close_releases_socket (s : St) (ho : s.isOpen = true) :
    unclosed (step s .close).1.io = unclosed s.io - 1 := by
  have e : unclosed [Io.cl] = -1 := by decide
  simp only [step, doClose, ho, Bool.not_true, Bool.false_eq_true, if_false, unclosed_append, e]
  omega

/-- the open flag as a two-state machine driven by the op and its outcome -/
def flagAfter (b : Bool) (op : Op) (o : Out) : Bool :=
  match op with
  | .open => b || decide (o = .unit)
  | .close => false
  | _ => b

/-- No other call ever changes the open flag. -/
theorem isOpen_step (s : St) (op : Op) : (step s op).1.isOpen = flagAfter s.isOpen op (step s op).2 := by
  cases op with
  | «open» => exact doOpen_flag s
  | close =>
    simp only [step, doClose, flagAfter]
    split
    · rename_i h; simpa using h
    · rfl
  | read n t => exact (step_readSpec s (.read n t) rfl).same.isOpen
  | readUntil term t => exact (step_readSpec s (.readUntil term t) rfl).same.isOpen
  | readUntilTimeout n t => exact (step_readSpec s (.readUntilTimeout n t) rfl).same.isOpen
  | discardRead =>
    simp only [step, flagAfter]
    split
    · exact (serialDiscard_spec s).2.isOpen
    · exact (sockDiscard_spec s).2.isOpen
  | feed evs => rfl
  | write d => exact (doWrite_spec s d).2.2.2.2.1
  | planOpen r => rfl

def flagRun : Bool → List Op → List Out → Bool
  | b, op :: ops, o :: os => flagRun (flagAfter b op o) ops os
  | b, _, _ => b

/-- after any run the flag is what the open/close sub-sequence and the outcomes of the `open`s say -/
theorem isOpen_run (ops : List Op) : ∀ (s : St), (run s ops).1.isOpen = flagRun s.isOpen ops (run s ops).2 := by
  induction ops with
  | nil => intro s; rfl
  | cons op os ih => intro s; simp only [run, flagRun]; rw [ih, isOpen_step]

/-! ## write: everything handed to the device, in order; refused when closed -/

/-- `write(d)` on an open transport hands exactly `d` to the device as one unit (appended to the write
log), succeeds, and does not touch the read side (buffer, device script, ghost log, clock). On a closed
transport it is refused with the state unchanged (`closed_never_touches_device`). -/
theorem write_spec (s : St) (d : Bytes) (ho : s.isOpen = true) :
    (step s (.write d)).2 = .unit ∧ (step s (.write d)).1.wlog = s.wlog ++ [d] ∧
    (step s (.write d)).1.buf = s.buf ∧ (step s (.write d)).1.dev = s.dev ∧
    (step s (.write d)).1.log = s.log ∧ (step s (.write d)).1.clock = s.clock ∧
    (step s (.write d)).1.isOpen = true := by
  simp only [step, doWrite, ho, Bool.not_true, Bool.false_eq_true, if_false]
  cases s.kind <;> exact ⟨rfl, rfl, rfl, rfl, rfl, rfl, rfl⟩

/-- what one op adds to the write log, judged by its outcome -/
def writtenBy (op : Op) (o : Out) : List Bytes :=
  match op, o with
  | .write d, .unit => [d]
  | _, _ => []

def writtenRun : List Op → List Out → List Bytes
  | op :: ops, o :: os => writtenBy op o ++ writtenRun ops os
  | _, _ => []

/-- no call other than a successful `write` ever changes what the device was sent -/
theorem wlog_step (s : St) (op : Op) : (step s op).1.wlog = s.wlog ++ writtenBy op (step s op).2 := by
  cases op with
  | «open» =>
    have := (doOpen_cfg s).2.2.2.2.2
    simp only [step, writtenBy, List.append_nil]; exact this
  | close => simp only [step, doClose, writtenBy]; split <;> simp
  | read n t => simpa [writtenBy] using (step_readSpec s (.read n t) rfl).same.wlog
  | readUntil term t => simpa [writtenBy] using (step_readSpec s (.readUntil term t) rfl).same.wlog
  | readUntilTimeout n t => simpa [writtenBy] using (step_readSpec s (.readUntilTimeout n t) rfl).same.wlog
  | discardRead =>
    simp only [step, writtenBy, List.append_nil]
    split
    · exact (serialDiscard_spec s).2.wlog
    · exact (sockDiscard_spec s).2.wlog
  | feed evs => simp [step, writtenBy]
  | planOpen r => simp [step, writtenBy]
  | write d =>
    simp only [step, doWrite]
    split
    · simp [writtenBy]
    · cases s.kind <;> simp [writtenBy]

/-- **All bytes handed to the device, in order**: after any op sequence the device has received exactly
the payloads of the `write` calls that succeeded, one unit per call, in call order — nothing dropped,
merged, duplicated or reordered, and nothing from a refused `write`. -/
theorem written_run (ops : List Op) : ∀ (s : St),
    (run s ops).1.wlog = s.wlog ++ writtenRun ops (run s ops).2 := by
  induction ops with
  | nil => intro s; simp [run, writtenRun]
  | cons op os ih =>
    intro s
    simp only [run, writtenRun]
    rw [ih, wlog_step, List.append_assoc]

/-! ## deadlines of the serial transport -/

/-- **A serial call never blocks longer than its time-out plus one device slice**: if every
`Serial.read` of the script returns within `σ` ticks (pyserial's fixed `SERIAL_READ_TIMEOUT`), then
`read`, `read_until` and `read_until_timeout` with time-out `t` are back at most `max t 0 + σ` after
they started — whatever they return or raise, for every script, count and terminator. -/
theorem serial_call_returns_by_deadline_plus_slice (σ : Nat) (s : St) (n : Nat) (term : Bytes) (t : Int)
    (hk : s.kind = .serial) (hs : SliceLe σ s.dev) :
    ((step s (.read n (some t))).1.clock : Int) ≤ s.clock + max t 0 + σ ∧
    ((step s (.readUntil term (some t))).1.clock : Int) ≤ s.clock + max t 0 + σ ∧
    ((step s (.readUntilTimeout n (some t))).1.clock : Int) ≤ s.clock + max t 0 + σ := by
  simp only [step, hk, if_true]
  exact ⟨serialRead_clock σ s n t hs, serialUntil_clock σ s term t hs, serialRut_clock σ s n t hs⟩

/-- a non-blocking serial `read` (`t ≤ 0`) takes no time at all: it only reads what `in_waiting` reported -/
theorem serial_nonblocking_read_takes_no_time (s : St) (n : Nat) (t : Int) (hk : s.kind = .serial) (ht : t ≤ 0) :
    (step s (.read n (some t))).1.clock = s.clock := by
  simp only [step, hk, if_true]
  exact serialRead_nonblocking_clock s n t ht

/-! ## non-vacuity: concrete reachable states exercising the hypotheses -/

/-- a TCP stream "ab\r\ncd\r\n" in three packets, the terminator "\r\n" straddling the first two, with a
time-out result in between -/
def demoDev : Script :=
  [⟨1, .data [97, 98, 13]⟩, ⟨4, .timeout⟩, ⟨2, .data [10, 99]⟩, ⟨0, .data [100, 13, 10]⟩, ⟨1, .timeout⟩]

def demoOps : List Op :=
  [.feed demoDev, .open, .readUntil [13, 10] (some 3), .readUntil [13, 10] (some 3),
   .read 1 none, .readUntilTimeout 5 (some 0), .close, .read 1 none, .open, .open]

-- the outcomes: time-out with "ab\r" kept, then the straddling message, exactly one byte, the rest, state machine
example : (run (init .tcp 0 512) demoOps).2 =
    [.unit, .unit, .exc .timeout, .ret [97, 98, 13, 10], .ret [99], .ret [100, 13, 10], .unit,
     .exc .invalidOp, .unit, .exc .invalidOp] := by decide

-- `read_exact`, `readUntil_shortest` hypotheses are satisfiable (a call that returns)
example : ∃ s s' bs, step s (.readUntil [13, 10] (some 3)) = (s', .ret bs) ∧ bs = [97, 98, 13, 10] ∧ s'.buf = [99] :=
  ⟨{ init .tcp 0 512 with isOpen := true, buf := [97, 98, 13], dev := [⟨2, .data [10, 99]⟩] }, _, _, rfl, by decide, by decide⟩

-- `timeout_consumes_nothing` hypothesis is satisfiable with a half-filled buffer
example : ∃ s s', step s (.read 4 (some 3)) = (s', .exc .timeout) ∧ s'.buf = [97, 98, 13] :=
  ⟨{ init .serial 0 0 with isOpen := true, buf := [97], dev := [⟨1, .data [98, 13]⟩, ⟨4, .timeout⟩] }, _, rfl, by decide⟩

-- `conservation` hypothesis (no OS loss) holds on the demo run, and an OS loss is reachable on UDP
example : ∀ o ∈ (run (init .tcp 0 512) demoOps).2, o ≠ .exc .runtime := by decide
example : (step { init .udp 2 2 with isOpen := true, dev := [⟨0, .data [1, 2, 3]⟩] } (.read 1 none)).2 = .exc .runtime := by
  decide

-- `exhausted_only_when_script_empty`: the outcome is reachable (a blocking read on a silent device)
example : (step { init .serial 0 0 with isOpen := true, dev := [⟨5, .timeout⟩] } (.read 1 none)).2 = .exc .exhausted := by
  decide

-- `readUntilTimeout_le_n`: a TCP call that returns the partial buffer after the deadline passed
example : (step { init .tcp 0 512 with isOpen := true, buf := [7], dev := [⟨9, .data [8, 9]⟩] }
            (.readUntilTimeout 5 (some 2))).2 = .ret [7, 8, 9] := by decide

-- `readUntilTimeout_le_n` / `readUntilTimeout_keeps_rest` on UDP: one byte returned, the other two stay buffered
example : (step udpWitness (.readUntilTimeout 1 (some 0))).2 = .ret [1]
    ∧ (step udpWitness (.readUntilTimeout 1 (some 0))).1.buf = [2, 3] := by decide

-- `conservation_udp`: `Fits` is satisfiable by a non-trivial script (4096-byte limit, 3-byte datagram)
example : Fits udpWitness := by
  intro ev hev l hl
  simp only [udpWitness, init, List.mem_singleton] at hev
  subst hev
  simp only [Res.data.injEq] at hl
  subst hl
  decide

-- `failed_open_can_be_retried`, `written_run`: connect time-out, connection refused, then success; a write is
-- refused while closed and the successful ones reach the device in order
def openDemo : List Op :=
  [.planOpen .timeout, .planOpen .late, .open, .close, .open, .write [1], .open, .write [1, 2], .write [3], .close,
   .write [4]]

example : (run (init .tcp 0 512) openDemo).2 =
    [.unit, .unit, .exc .timeout, .exc .invalidOp, .exc .osError, .exc .invalidOp, .unit, .unit, .unit, .unit,
     .exc .invalidOp]
    ∧ (run (init .tcp 0 512) openDemo).1.wlog = [[1, 2], [3]] := by decide

example : (step { init .udp 4096 4096 with openPlan := [.early] } .open).2 = .exc .osError
    ∧ (step { init .serial 0 0 with openPlan := [.late] } .open).2 = .exc .osError := by decide

-- `serial_call_returns_by_deadline_plus_slice`: slice 3, time-out 2: the call is back after 4 ticks, within 2 + 3
example : SliceLe 3 [⟨1, .timeout⟩, ⟨3, .timeout⟩, ⟨3, .timeout⟩]
    ∧ (step { init .serial 0 0 with isOpen := true, dev := [⟨1, .timeout⟩, ⟨3, .timeout⟩, ⟨3, .timeout⟩] }
        (.read 1 (some 2))).1.clock = 4 := by
  refine ⟨?_, by decide⟩
  intro ev hev
  simp only [List.mem_cons, List.mem_nil_iff, or_false] at hev
  rcases hev with rfl | rfl | rfl <;> decide

-- observation (not part of C13): on the socket transports the deadline is tested after a successful receive,
-- so `read(1, 0)` raises the time-out although the byte has just been received; it stays buffered
example : (step { init .tcp 0 512 with isOpen := true, dev := [⟨1, .data [7]⟩] } (.read 1 (some 0))).2 = .exc .timeout
    ∧ (step { init .tcp 0 512 with isOpen := true, dev := [⟨1, .data [7]⟩] } (.read 1 (some 0))).1.buf = [7] := by
  decide

-- `failed_open_leaves_no_socket_open`: refused TCP connect and failing UDP bind both end with the socket closed
example : (step { init .tcp 0 512 with openPlan := [.late] } .open).1.io = [.mk, .cn, .cl]
    ∧ (step { init .udp 4096 4096 with openPlan := [.late] } .open).1.io = [.gh, .mk, .bd, .cl]
    ∧ (step { init .udp 4096 4096 with openPlan := [.early] } .open).1.io = [.gh] := by decide

-- `discard_drains_until_device_idle` on UDP: three datagrams waiting, all three are gone, the later answer is kept
def discardDemo : St :=
  { init .udp 4096 4096 with
    isOpen := true, buf := [9],
    dev := [⟨0, .data [1]⟩, ⟨0, .data [2, 3]⟩, ⟨0, .data [4]⟩, ⟨0, .timeout⟩, ⟨5, .data [7]⟩] }

example : (step discardDemo .discardRead).1.dev = [⟨5, .data [7]⟩] ∧ (step discardDemo .discardRead).1.buf = [] := by
  decide

-- closed transport returning buffered data through socket `read_until` (the second disjunct is inhabited)
example : (step { init .tcp 0 512 with isOpen := false, buf := [1, 10, 2] } (.readUntil [10] none)).2 = .ret [1, 10] := by
  decide

end QmiModel.Transport
