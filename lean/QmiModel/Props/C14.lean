import QmiModel.Lemmas.C14
import QmiModel.Lemmas.C14Roundtrip
import QmiModel.Gen.TransportTables
/-!
# C14 — transport descriptors parse totally and faithfully

Property theorems only (vocabulary and helper lemmas: `Lemmas/C14.lean`; model: `Model/Descriptor.lean`;
tables regenerated from the source: `Gen/TransportTables.lean`).
-/
namespace QmiModel.Descriptor
open QmiModel.Gen.TransportTables (env)

/-! ## Totality -/

/-- **Classification of everything that can escape.**  For all tables that pass the decidable sanity check
`EnvOk`, all platforms, *all* strings and all well-typed default dictionaries, `create_transport` returns a
transport or raises the descriptor error, except in exactly four input classes, each tied to one exception type. -/
theorem escapes_classified (E : Env) (win : Bool) (s : Str) (d : List (Str × PyVal))
    (hE : EnvOk E = true) (hd : ∀ I ∈ E.ifaces, DefaultsTyped I d) :
    match createTransport E win s d with
    | .ok _ => True
    | .err .descriptor => True
    | .err .valueError => HasTwoEquals s ∨ NulHost E win s d
    | .err .typeError => CtorMismatch E win s d
    | .err .indexError => EmptyHost E win s d := by
  unfold createTransport
  cases hp : parseParts s with
  | err e => have := parseParts_err hp; subst this; simp
  | ok parts =>
    simp only
    cases hf : findIface E (parts.headD []) with
    | none => simp
    | some I =>
      simp only
      rw [pps_eq d hp hf]
      have hIm : I ∈ E.ifaces := List.mem_of_find?_eq_some hf
      cases hpp : parseParams I parts d with
      | err e =>
        rcases parseParams_err hpp with h | ⟨h, h2⟩
        · subst h; simp
        · subst h; simp only; exact Or.inl ⟨parts, hp, h2⟩
      | ok p =>
        simp only
        cases hc : I.ctor win with
        | none => simp
        | some c =>
          simp only
          obtain ⟨hN, hcok⟩ := envOk_iface hE hIm hc
          have hreach : Reaches E win s d I c p := ⟨parts, hp, hf, hpp, hc⟩
          cases hb : bindArgs c p with
          | err e =>
            obtain ⟨h1, h2⟩ := bindArgs_err hb
            subst h1; simp only; exact ⟨I, c, p, hreach, h2⟩
          | ok a =>
            simp only
            cases hk : construct E c.kind a with
            | ok attrs => simp
            | err e =>
              have ht := args_typed hcok (fun k v hkv => parseParams_typed hN (hd I hIm) hpp hkv) hb
              rcases construct_err ht hk with h | ⟨h, hs, h1, h2⟩ | ⟨h, h1⟩
              · subst h; simp
              · subst h; simp only; exact Or.inr ⟨hs, ⟨I, c, p, a, hreach, hb, h1⟩, h2⟩
              · subst h; simp only; exact ⟨I, c, p, a, hreach, hb, h1⟩


/-- the result is a transport or the descriptor error -/
def OkOrDescriptor (r : Res Transport) : Prop := (∃ t, r = .ok t) ∨ r = .err .descriptor

/-  The first sentence of the property at full strength:

      theorem total (win : Bool) (s : Str) (d : List (Str × PyVal)) (hd : ∀ I ∈ env.ifaces, DefaultsTyped I d) :
          OkOrDescriptor (createTransport env win s d)

    It is FALSE of the faithful model on the pinned tree: `total_false` below (six concrete witnesses, each
    replayed on the implementation by the harness).  What holds is `total_partial`: totality outside four
    exactly described input classes. -/

/-- **Totality outside the four excluded classes** — all tables passing `EnvOk`, all strings, all well-typed
defaults: a keyword part with two `'='`, a parameter set that does not fit the constructor, a host with NUL and an
empty host are the *only* ways for another exception type to escape. -/
theorem total_partial (E : Env) (win : Bool) (s : Str) (d : List (Str × PyVal))
    (hE : EnvOk E = true) (hd : ∀ I ∈ E.ifaces, DefaultsTyped I d)
    (h1 : ¬ HasTwoEquals s) (h2 : ¬ CtorMismatch E win s d) (h3 : ¬ NulHost E win s d) (h4 : ¬ EmptyHost E win s d) :
    OkOrDescriptor (createTransport E win s d) := by
  have h := escapes_classified E win s d hE hd
  cases hr : createTransport E win s d with
  | ok t => exact Or.inl ⟨t, rfl⟩
  | err e =>
    rw [hr] at h
    cases e with
    | descriptor => exact Or.inr rfl
    | valueError => exact absurd h (by rintro (h | h); exact h1 h; exact h3 h)
    | typeError => exact absurd h h2
    | indexError => exact absurd h h4

/-- the generated tables pass the sanity check the generic theorems need -/
theorem gen_envOk : EnvOk env = true := by decide

/-- non-vacuity: the hypotheses of `total_partial` hold for ordinary descriptors (and the result is a transport) -/
example : ¬ HasTwoEquals "tcp:[::1]:5025:connect_timeout=2.5".toList ∧
    ¬ CtorMismatch env false "tcp:[::1]:5025:connect_timeout=2.5".toList [] ∧
    ¬ NulHost env false "tcp:[::1]:5025:connect_timeout=2.5".toList [] ∧
    ¬ EmptyHost env false "tcp:[::1]:5025:connect_timeout=2.5".toList [] ∧
    createTransport env false "tcp:[::1]:5025:connect_timeout=2.5".toList [] =
      .ok ⟨"QMI_TcpTransport".toList, [("host".toList, .str "::1".toList), ("port".toList, .int 5025),
                                       ("connect_timeout".toList, .flt "2.5".toList)]⟩ := by
  refine ⟨by decide, by decide, by decide, by decide, by decide⟩

/-- a descriptor that reaches the constructor of an interface whose table is aligned with the constructor signature
always binds: no `TypeError` there -/
theorem aligned_never_mismatches (E : Env) (hE : EnvOk E = true) (win : Bool) (s : Str) (d : List (Str × PyVal))
    (I : Iface) (c : Ctor) (p : Dict) (hr : Reaches E win s d I c p) (ha : Aligned I c = true) : Bindable c p := by
  obtain ⟨parts, hp, hf, hpp, hc⟩ := hr
  have hIm : I ∈ E.ifaces := List.mem_of_find?_eq_some hf
  exact bindable_of_aligned (envOk_iface hE hIm hc).1 ha hpp

/-- … so if every table is aligned, the second excluded class is empty -/
theorem no_mismatch_of_aligned (E : Env) (win : Bool) (s : Str) (d : List (Str × PyVal)) (hE : EnvOk E = true)
    (ha : ∀ I ∈ E.ifaces, ∀ c, I.ctor win = some c → Aligned I c = true) : ¬ CtorMismatch E win s d := by
  rintro ⟨I, c, p, hr, hb⟩
  obtain ⟨parts, hp, hf, hpp, hc⟩ := hr
  have hIm : I ∈ E.ifaces := List.mem_of_find?_eq_some hf
  exact hb (aligned_never_mismatches E hE win s d I c p ⟨parts, hp, hf, hpp, hc⟩ (ha I hIm c hc))

/-! ### which generated tables are aligned with their constructors (recomputed on every run) -/

theorem tcp_aligned : ∀ win c, QmiModel.Gen.TransportTables.tcp.ctor win = some c →
    Aligned QmiModel.Gen.TransportTables.tcp c = true := by decide
theorem vxi11_aligned : ∀ win c, QmiModel.Gen.TransportTables.vxi11.ctor win = some c →
    Aligned QmiModel.Gen.TransportTables.vxi11 c = true := by decide
theorem gpib_aligned : ∀ win c, QmiModel.Gen.TransportTables.gpib.ctor win = some c →
    Aligned QmiModel.Gen.TransportTables.gpib c = true := by decide


/-! ### negation witnesses on the pinned tree

Each is the model's answer on the generated tables (`decide`), lies in the excluded class named next to it, and is
replayed on the implementation by the harness (same exception types; see known_findings.d/C14.json).
When one of the underlying defects is repaired in `/repo` the corresponding witness stops checking — that is the
signal to move its known-finding entry to `fixed`. -/

/-- `tcp:h:5:connect_timeout=1=2` → `ValueError` (the unpack `k, v = q` is outside the `try`) -/
theorem total_false_two_equals :
    createTransport env false "tcp:h:5:connect_timeout=1=2".toList [] = .err .valueError ∧
    HasTwoEquals "tcp:h:5:connect_timeout=1=2".toList := by
  constructor <;> decide

/-- `serial:COM3` → `TypeError` (baudrate optional in the table, required by the constructor) -/
theorem total_false_serial :
    createTransport env false "serial:COM3".toList [] = .err .typeError ∧
    CtorMismatch env false "serial:COM3".toList [] ∧
    (QmiModel.Gen.TransportTables.serial.ctor false).map (Aligned QmiModel.Gen.TransportTables.serial) = some false := by
  refine ⟨by decide, by decide, by decide⟩

/-- `usbtmc:serialnr=X` → `TypeError` (vendorid/productid optional in the table, required by the constructors) -/
theorem total_false_usbtmc :
    createTransport env false "usbtmc:serialnr=X".toList [] = .err .typeError ∧
    createTransport env true "usbtmc:serialnr=X".toList [] = .err .typeError ∧
    CtorMismatch env false "usbtmc:serialnr=X".toList [] ∧
    (QmiModel.Gen.TransportTables.usbtmc.ctor false).map (Aligned QmiModel.Gen.TransportTables.usbtmc) = some false ∧
    (QmiModel.Gen.TransportTables.usbtmc.ctor true).map (Aligned QmiModel.Gen.TransportTables.usbtmc) = some false := by
  refine ⟨by decide, by decide, by decide, by decide, by decide⟩

/-- `udp:h:5:connect_timeout=1` → `TypeError` (the UDP table accepts a keyword the constructor does not take) -/
theorem total_false_udp :
    createTransport env false "udp:h:5:connect_timeout=1".toList [] = .err .typeError ∧
    CtorMismatch env false "udp:h:5:connect_timeout=1".toList [] ∧
    (QmiModel.Gen.TransportTables.udp.ctor false).map (Aligned QmiModel.Gen.TransportTables.udp) = some false := by
  refine ⟨by decide, by decide, by decide⟩

/-- `tcp:a\x00b:5` → `ValueError` (`inet_pton` on an embedded NUL; only `OSError` is caught) -/
theorem total_false_nul_host :
    createTransport env false ['t', 'c', 'p', ':', 'a', Char.ofNat 0, 'b', ':', '5'] [] = .err .valueError ∧
    NulHost env false ['t', 'c', 'p', ':', 'a', Char.ofNat 0, 'b', ':', '5'] [] := by
  constructor <;> decide

/-- `tcp:connect_timeout=1` with defaults `{"host": "", "port": 5}` → `IndexError` (`hostname[-1]` on `""`) -/
theorem total_false_empty_host :
    createTransport env false "tcp:connect_timeout=1".toList [("host".toList, .str []), ("port".toList, .int 5)]
      = .err .indexError ∧
    EmptyHost env false "tcp:connect_timeout=1".toList [("host".toList, .str []), ("port".toList, .int 5)] := by
  constructor <;> decide

/-- **the full-strength statement is false on the pinned tree** -/
theorem total_false :
    ¬ ∀ (win : Bool) (s : Str) (d : List (Str × PyVal)), (∀ I ∈ env.ifaces, DefaultsTyped I d) →
        OkOrDescriptor (createTransport env win s d) := by
  intro h
  have hd : ∀ I ∈ env.ifaces, DefaultsTyped I [] := by
    intro I _ k v hk
    simp [dictOf, dupdate, dget] at hk
  have := h false "serial:COM3".toList [] hd
  rw [total_false_serial.1] at this
  rcases this with ⟨t, ht⟩ | ht <;> cases ht

/-! ## Faithfulness -/

/-- **Every parameter has exactly the value the string gives for it; defaults fill only what the string omits;
nothing else gets in.**  For every interface table with distinct parameter names, every list of parts and every
defaults dictionary: the parsed parameter dictionary *is* `specValue` — the typed value of the parameter's own
token (`kwToken`: the last `name=value` part; `posToken`: the i-th part without `'='` for the i-th positional),
otherwise the caller's default (declared names only), otherwise absent. -/
theorem faithful (I : Iface) (hI : NodupNames I) (parts : List Str) (d : List (Str × PyVal)) (p : Dict)
    (h : parseParams I parts d = .ok p) (k : Str) : dget p k = specValue I parts d k :=
  parseParams_get hI h k

/-- a value the string gives is never overridden by a default: two default dictionaries, same string, same value -/
theorem defaults_only_fill (I : Iface) (hI : NodupNames I) (parts : List Str) (d d' : List (Str × PyVal)) (p p' : Dict)
    (h : parseParams I parts d = .ok p) (h' : parseParams I parts d' = .ok p') (k : Str)
    (ht : (kwToken I parts k).isSome ∨ (posToken I parts k).isSome) : dget p k = dget p' k := by
  rw [faithful I hI parts d p h k, faithful I hI parts d' p' h' k]
  unfold specValue
  cases hk : kwToken I parts k with
  | some x => rfl
  | none =>
    cases hp : posToken I parts k with
    | some y => rfl
    | none => rw [hk, hp] at ht; simp at ht

/-- … and where the string is silent the default (of a declared name) is what comes out -/
theorem defaults_fill_absent (I : Iface) (hI : NodupNames I) (parts : List Str) (d : List (Str × PyVal)) (p : Dict)
    (h : parseParams I parts d = .ok p) (k : Str) (hk : kwToken I parts k = none) (hp : posToken I parts k = none) :
    dget p k = if knownName I k then dget (dictOf d) k else none := by
  rw [faithful I hI parts d p h k]
  unfold specValue
  rw [hk, hp]

/-- defaults meant for another interface never reach the constructor -/
theorem foreign_defaults_dropped (I : Iface) (hI : NodupNames I) (parts : List Str) (d : List (Str × PyVal)) (p : Dict)
    (h : parseParams I parts d = .ok p) (k : Str) (hk : knownName I k = false) : dget p k = none := by
  cases hg : dget p k with
  | none => rfl
  | some v =>
    have := (parseParams_keys hI h).1 k (mem_keys_of_dget p k v hg)
    rw [hk] at this; cases this

/-- non-vacuity for the three statements: a descriptor with a positional, a keyword and a default in play -/
example :
    parseParams QmiModel.Gen.TransportTables.tcp ["tcp".toList, "connect_timeout=2.5".toList, "h".toList]
        [("port".toList, .int 5025), ("host".toList, .str "other".toList), ("baudrate".toList, .int 9600)]
      = .ok [("port".toList, .int 5025), ("host".toList, .str "h".toList), ("connect_timeout".toList, .flt "2.5".toList)] ∧
    NodupNames QmiModel.Gen.TransportTables.tcp ∧
    (posToken QmiModel.Gen.TransportTables.tcp ["tcp".toList, "connect_timeout=2.5".toList, "h".toList] "host".toList).isSome ∧
    kwToken QmiModel.Gen.TransportTables.tcp ["tcp".toList, "connect_timeout=2.5".toList, "h".toList] "port".toList = none ∧
    knownName QmiModel.Gen.TransportTables.tcp "baudrate".toList = false := by
  refine ⟨by decide, by decide, by decide, by decide, by decide⟩

/-- **End to end.**  Whenever `create_transport` returns, the transport is of the class the table names for the
interface and platform, and every attribute is `attrSpec`: the typed value of the parameter's token, else the
caller's default, else the constructor default — modulo the documented resolution of the literal host `localhost`. -/
theorem create_faithful (E : Env) (hE : EnvOk E = true) (win : Bool) (s : Str) (d : List (Str × PyVal)) (t : Transport)
    (h : createTransport E win s d = .ok t) :
    ∃ parts I c, parseParts s = .ok parts ∧ findIface E (parts.headD []) = some I ∧ I.ctor win = some c ∧
      t.cls = c.cls ∧ ∀ n, dget t.attrs n = attrSpec E c I parts d n := by
  unfold createTransport at h
  cases hp : parseParts s with
  | err e => rw [hp] at h; cases h
  | ok parts =>
    rw [hp] at h
    simp only at h
    cases hf : findIface E (parts.headD []) with
    | none => rw [hf] at h; cases h
    | some I =>
      rw [hf] at h
      simp only at h
      rw [pps_eq d hp hf] at h
      have hIm : I ∈ E.ifaces := List.mem_of_find?_eq_some hf
      cases hpp : parseParams I parts d with
      | err e => rw [hpp] at h; cases h
      | ok p =>
        rw [hpp] at h
        simp only at h
        cases hc : I.ctor win with
        | none => rw [hc] at h; cases h
        | some c =>
          rw [hc] at h
          simp only at h
          cases hb : bindArgs c p with
          | err e => rw [hb] at h; cases h
          | ok a =>
            rw [hb] at h
            simp only at h
            cases hk : construct E c.kind a with
            | err e => rw [hk] at h; cases h
            | ok attrs =>
              rw [hk] at h
              simp only [Res.ok.injEq] at h
              subst h
              refine ⟨parts, I, c, rfl, hf, hc, rfl, ?_⟩
              intro n
              have hN := (envOk_iface hE hIm hc).1
              simp only
              rw [construct_ok hk n]
              have hg := bindEach_get (bindArgs_ok hb) n
              unfold attrSpec
              cases hfa : c.args.find? (fun x => x.1 = n) with
              | none => rw [hfa] at hg; simp only at hg; rw [hg]; rfl
              | some ar =>
                rw [hfa] at hg
                obtain ⟨v, hv, hsrc⟩ := hg
                rw [hv, ← faithful I hN parts d p hpp n]
                cases hpn : dget p n with
                | some w => rw [hpn] at hsrc; simp only at hsrc; subst hsrc; rfl
                | none => rw [hpn] at hsrc; simp only at hsrc; simp only [hsrc]

/-- non-vacuity of `create_faithful`, with the `localhost` normalisation and a constructor default visible -/
example : createTransport env false "tcp:localhost:5025".toList [] =
    .ok ⟨"QMI_TcpTransport".toList, [("host".toList, .str "127.0.0.1".toList), ("port".toList, .int 5025),
                                     ("connect_timeout".toList, .int 10)]⟩ := by decide


/-! ## Round trip: the formats QMI itself produces parse back to the values they were formatted from -/

/-- **Listed USBTMC resources.**  For every vendor and product id in the 16-bit range and every serial number
without `':'` and `'='`, on both platforms: the descriptor `_format_resources` builds
(`usbtmc:vendorid=0x%04x:productid=0x%04x:serialnr=%s`) gives a transport holding exactly these three values. -/
theorem roundtrip_usbtmc (win : Bool) (v p : Nat) (sn : Str) (hv : v ≤ 65535) (hp : p ≤ 65535)
    (hsn : ∀ c ∈ sn, c ≠ ':' ∧ c ≠ '=') :
    ∃ cls, createTransport env win (renderUsbtmc (Int.ofNat v) (Int.ofNat p) sn) [] =
      .ok ⟨cls, [(sVendorid, .int v), (sProductid, .int p), (sSerialnr, .str sn)]⟩ := by
  obtain ⟨_, hxv, _⟩ := fmt04x_spec v
  obtain ⟨_, hxp, _⟩ := fmt04x_spec p
  have kw : ∀ (pre body : Str), isKw pre = true → isKw (pre ++ body) = true := by
    intro pre body h; unfold isKw at *; rw [List.any_append, h]; rfl
  have conv : ∀ n : Nat, convKw .int ('0' :: 'x' :: fmt04x (Int.ofNat n)) = .ok (.int n) := by
    intro n; simp only [convKw, startsWith0x, beq_self_eq_true, Bool.and_self, if_true, hex_read]; rfl
  have sp : ∀ (body : Str), (∀ c ∈ body, c ≠ '=') →
      splitEq2 (sVendorKw ++ body) = [sVendorid, '0' :: 'x' :: body] ∧
      splitEq2 (sProductKw ++ body) = [sProductid, '0' :: 'x' :: body] ∧
      splitEq2 (sSerialKw ++ body) = [sSerialnr, body] := by
    intro body hb
    have h0 : breakEq body = none := breakEq_none body hb
    have h1 : breakEq ('0' :: 'x' :: body) = none :=
      breakEq_none _ (by intro c hc; simp only [List.mem_cons] at hc; rcases hc with rfl | rfl | hc; decide; decide; exact hb c hc)
    refine ⟨?_, ?_, ?_⟩
    · simp [splitEq2, sVendorKw, sVendorid, breakEq, h0]
    · simp [splitEq2, sProductKw, sProductid, breakEq, h0]
    · simp [splitEq2, sSerialKw, sSerialnr, breakEq, h0]
  exact usbtmc_eval win _ _ _ _ _ _ sn v p (parseParts_usbtmc v p sn hsn)
    (kw _ _ (by decide)) (kw _ _ (by decide)) (kw _ _ (by decide))
    (sp _ (lowerHex_plain_chars hxv).2.1).1 (sp _ (lowerHex_plain_chars hxp).2.1).2.1
    (sp sn (fun c hc => (hsn c hc).2)).2.2 (conv v) (conv p) (by omega) (by omega)

/-- non-vacuity, with the widest id and a serial number containing brackets and a space -/
example : ∃ cls, createTransport env true (renderUsbtmc 65535 0 "A [1]".toList) [] =
    .ok ⟨cls, [(sVendorid, .int 65535), (sProductid, .int 0), (sSerialnr, .str "A [1]".toList)]⟩ :=
  roundtrip_usbtmc true 65535 0 _ (by decide) (by decide) (by decide)

/-- what is rendered is what `_format_resources` writes for such a resource (the hexadecimal form, zero padded) -/
example : renderUsbtmc 0x699 0x3000 "XYZ".toList = "usbtmc:vendorid=0x0699:productid=0x3000:serialnr=XYZ".toList ∧
    formatResource "USB0::0x0699::0x3000::XYZ::INSTR".toList = some (renderUsbtmc 0x699 0x3000 "XYZ".toList) ∧
    formatResource "USB::1689::12288::XYZ::INSTR".toList = some (renderUsbtmc 0x699 0x3000 "XYZ".toList) := by
  refine ⟨by decide, by decide, by decide⟩

theorem port_lt_limit (n : Nat) (h : n ≤ 65535) : n < 10 ^ 4300 := by
  have h1 : (10 : Nat) ^ 5 ≤ 10 ^ 4300 := Nat.pow_le_pow_right (by decide) (by decide)
  have h5 : (10 : Nat) ^ 5 = 100000 := by decide
  generalize (10 : Nat) ^ 4300 = X at h1 ⊢
  omega

/-- a host a descriptor can carry and the constructors accept: passes `_validate_host`, no `'='`, no newline,
does not start with `'['` -/
structure HostWF (h : Str) : Prop where
  valid : validateHost h = .ok ()
  noEq : ∀ c ∈ h, c ≠ '='
  noNl : ∀ c ∈ h, c ≠ '\n'
  noBracket : h.head? ≠ some '['

theorem HostWF.ne_nil {h : Str} (w : HostWF h) : h ≠ [] := by
  intro e; subst e; have := w.valid; simp [validateHost] at this

/-- **Bracketed IPv6 and plain hosts, TCP.**  `"tcp:" + format_address_and_port((host, port))` — the host in square
brackets exactly when it contains a colon — gives a transport with exactly that host and port, for every
well-formed host other than the literal `localhost` and every port 1 … 65535. -/
theorem roundtrip_tcp (win : Bool) (h : Str) (port : Nat) (w : HostWF h) (hl : h ≠ sLocalhost)
    (hp : 1 ≤ port ∧ port ≤ 65535) :
    createTransport env win (renderHostPort sTcp h port) [] =
      .ok ⟨clsTcp, [(sHost, .str h), (sPort, .int port), (sConnectTimeout, .int 10)]⟩ := by
  have hd := (toDec_spec port).2.1
  exact tcp_eval win _ h (toDec port) port
    (parseParts_hostPort sTcp h port (by decide) (by decide) w.ne_nil w.noNl w.noBracket)
    (isKw_false h w.noEq) (isKw_false _ (lowerHex_plain_chars (fun c hc => (hd c hc).1)).2.1)
    (dec_read port (port_lt_limit port hp.2)) w.valid hl (by omega)

/-- … UDP (any port but the reserved responder port) … -/
theorem roundtrip_udp (win : Bool) (h : Str) (port : Nat) (w : HostWF h) (hl : h ≠ sLocalhost)
    (hp : 1 ≤ port ∧ port ≤ 65535) (hr : port ≠ 35999) :
    createTransport env win (renderHostPort sUdp h port) [] = .ok ⟨clsUdp, [(sHost, .str h), (sPort, .int port)]⟩ := by
  have hd := (toDec_spec port).2.1
  exact udp_eval win _ h (toDec port) port
    (parseParts_hostPort sUdp h port (by decide) (by decide) w.ne_nil w.noNl w.noBracket)
    (isKw_false h w.noEq) (isKw_false _ (lowerHex_plain_chars (fun c hc => (hd c hc).1)).2.1)
    (dec_read port (port_lt_limit port hp.2)) w.valid hl (by omega)
    (by simp only [env]; omega)

/-- … and VXI-11 (host only; `localhost` is kept as it is there). -/
theorem roundtrip_vxi11 (win : Bool) (h : Str) (w : HostWF h) :
    createTransport env win (sVxi11 ++ ':' :: renderHost h) [] = .ok ⟨clsVxi11, [(sHost, .str h)]⟩ :=
  vxi11_eval win _ h (parseParts_host sVxi11 h (by decide) (by decide) w.ne_nil w.noNl w.noBracket)
    (isKw_false h w.noEq) w.valid

/-- non-vacuity: the example address of the `create_transport` docstring is a well-formed host, and it is
rendered with brackets -/
example : HostWF "2620:0:2d0:200::8".toList ∧ "2620:0:2d0:200::8".toList ≠ sLocalhost ∧
    renderHostPort sTcp "2620:0:2d0:200::8".toList 5000 = "tcp:[2620:0:2d0:200::8]:5000".toList := by
  refine ⟨⟨by decide, by decide, by decide, by decide⟩, by decide, by decide⟩

example : HostWF "host-1.example.com".toList ∧ HostWF "192.168.1.10".toList ∧ HostWF "::ffff:10.0.0.1".toList := by
  refine ⟨⟨by decide, by decide, by decide, by decide⟩, ⟨by decide, by decide, by decide, by decide⟩,
    ⟨by decide, by decide, by decide, by decide⟩⟩

/-- **hexadecimal identifiers and decimal numbers read back**, for every natural number (decimal: below CPython's
4300-digit limit) -/
theorem hex_id_roundtrip (n : Nat) : convKw .int ('0' :: 'x' :: fmt04x (Int.ofNat n)) = .ok (.int n) := by
  simp only [convKw, startsWith0x, beq_self_eq_true, Bool.and_self, if_true, hex_read]; rfl

theorem decimal_roundtrip (n : Nat) (h : n < 10 ^ 4300) : convPos .int (toDec n) = .ok (.int n) := by
  simp only [convPos, dec_read n h]; rfl

end QmiModel.Descriptor
