import QmiModel.Lemmas.C14
import QmiModel.Lemmas.C14Roundtrip
import QmiModel.Gen.TransportTables
/-!
# C14 — transport descriptors parse totally and faithfully

Property theorems only (vocabulary and helper lemmas: `Lemmas/C14.lean`, `Lemmas/C14Roundtrip.lean`; model:
`Model/Descriptor.lean`; tables regenerated from the source on every run: `Gen/TransportTables.lean`).

State after the repairs c763390, 794f5cc, d053f6d, 4a3416c, 8caa6aa, 72eceb6, 665b86e, 1757bc8 in /repo: `total` holds at
full strength on the current tables, for defaults of any type, and listed USBTMC resources round-trip for every serial number.  The generic theorems quantify over *all* tables; what they need of a table set is decidable
(`EnvOk`, `AllAligned`) and re-evaluated on the regenerated tables by `decide`.
-/
namespace QmiModel.Descriptor
open QmiModel.Gen.TransportTables (env)

/-! ## Totality -/

def isOk {α : Type} : Res α → Bool
  | .ok _ => true
  | .err _ => false

/-- the result is a transport or the descriptor error -/
def OkOrDescriptor (r : Res Transport) : Prop := (∃ t, r = .ok t) ∨ r = .err .descriptor

/-- **Classification of everything that can escape**, for *all* tables passing the decidable sanity check `EnvOk`,
both platforms, all strings and *all* default dictionaries (values of any type): the only exception other than the
descriptor error is the `TypeError` of a parameter set that does not fit the constructor signature. -/
theorem escapes_classified (E : Env) (win : Bool) (s : Str) (d : List (Str × PyVal))
    (hE : EnvOk E = true) :
    match createTransport E win s d with
    | .ok _ => True
    | .err .descriptor => True
    | .err .typeError => CtorMismatch E win s d
    | .err .valueError => False
    | .err .attributeError => False := by
  unfold createTransport
  cases hp : parseParts s with
  | err e => have := parseParts_err hp; subst this; simp
  | ok parts =>
    simp only
    cases hf : findIface E (parts.headD []) with
    | none => simp
    | some I =>
      simp only
      rw [pps_eq d hp hf]
      have hIm : I ∈ E.ifaces := List.mem_of_find?_eq_some hf
      cases hpp : parseParams I parts d with
      | err e => have := parseParams_err hpp; subst this; simp
      | ok p =>
        simp only
        cases hc : I.ctor win with
        | none => simp
        | some c =>
          simp only
          obtain ⟨hN, hcok⟩ := envOk_iface hE hIm hc
          have hreach : Reaches E win s d I c p := ⟨parts, hp, hf, hpp, hc⟩
          cases hb : bindArgs c p with
          | err e =>
            obtain ⟨h1, h2⟩ := bindArgs_err hb
            subst h1; simp only; exact ⟨I, c, p, hreach, h2⟩
          | ok a =>
            simp only
            cases hk : construct E c a with
            | ok attrs => simp
            | err e =>
              have ht := args_typed hcok (fun k v hkv => parseParams_typed hN hpp hkv) hb
              have := exec_err ht hk
              subst this; simp

/-- a descriptor that reaches the constructor of an interface whose table is aligned with the constructor signature
always binds: no `TypeError` there -/
theorem aligned_never_mismatches (E : Env) (hE : EnvOk E = true) (win : Bool) (s : Str) (d : List (Str × PyVal))
    (I : Iface) (c : Ctor) (p : Dict) (hr : Reaches E win s d I c p) (ha : Aligned I c = true) : Bindable c p := by
  obtain ⟨parts, hp, hf, hpp, hc⟩ := hr
  have hIm : I ∈ E.ifaces := List.mem_of_find?_eq_some hf
  exact bindable_of_aligned (envOk_iface hE hIm hc).1 ha hpp

/-- **Totality for every aligned set of tables**: all strings (well-formed, nearly well-formed, arbitrary), all
default dictionaries, both platforms — a transport or the descriptor error, nothing else. -/
theorem total_of_aligned (E : Env) (hE : EnvOk E = true) (hA : AllAligned E = true) (win : Bool) (s : Str)
    (d : List (Str × PyVal)) : OkOrDescriptor (createTransport E win s d) := by
  have h := escapes_classified E win s d hE
  cases hr : createTransport E win s d with
  | ok t => exact Or.inl ⟨t, rfl⟩
  | err e =>
    rw [hr] at h
    cases e with
    | descriptor => exact Or.inr rfl
    | valueError => exact h.elim
    | attributeError => exact h.elim
    | typeError =>
      obtain ⟨I, c, p, hreach, hb⟩ := h
      obtain ⟨parts, hp, hf, hpp, hc⟩ := hreach
      have hIm : I ∈ E.ifaces := List.mem_of_find?_eq_some hf
      exact absurd (aligned_never_mismatches E hE win s d I c p ⟨parts, hp, hf, hpp, hc⟩ (allAligned_iface hA hIm hc)) hb

/-- the tables regenerated from the current source pass the sanity check … -/
theorem gen_envOk : EnvOk env = true := by decide

/-- … and every one of them is aligned with the constructors `create_transport` builds from it -/
theorem gen_aligned : AllAligned env = true := by decide

/-- **`total`, the first sentence of the property at full strength, on the current source's tables**: for every
descriptor string, every platform and every defaults dictionary — whatever the types of its values —
`create_transport` returns a transport or raises `QMI_TransportDescriptorException`; no other exception type escapes.
No hypothesis. -/
theorem total (win : Bool) (s : Str) (d : List (Str × PyVal)) : OkOrDescriptor (createTransport env win s d) :=
  total_of_aligned env gen_envOk gen_aligned win s d

/-- **Obligation on the exception class of the current source** (recomputed on every run): the model treats
`raise QMI_TransportDescriptorException(text, …)` as atomic (`.err .descriptor`), whatever characters the user's text puts
into the message.  That is CPython's behaviour as long as the class and its qmi base classes inherit construction and
string conversion from `Exception` unchanged; a formatting `__init__` fails here (and the harness constructs the exception
from texts full of `{ } %` … directly). -/
theorem gen_exception_plain : QmiModel.Gen.TransportTables.descriptorExceptionPlain = true := by decide

/-- non-vacuity: both outcomes occur, and the inputs that used to escape on the pinned tree (04de7e7) now give the
descriptor error — or, for a serial port without baud rate, the documented default -/
example :
    createTransport env false "tcp:[::1]:5025:connect_timeout=2.5".toList [] =
      .ok ⟨"QMI_TcpTransport".toList, [("_address".toList, [.str "::1".toList, .int 5025]),
                                       ("_connect_timeout".toList, [.flt "2.5".toList])]⟩ ∧
    createTransport env false "tcp:h:5:connect_timeout=1=2".toList [] = .err .descriptor ∧
    createTransport env false ['t', 'c', 'p', ':', 'a', Char.ofNat 0, 'b', ':', '5'] [] = .err .descriptor ∧
    createTransport env false "tcp:connect_timeout=1".toList [("host".toList, .str []), ("port".toList, .int 5)]
      = .err .descriptor ∧
    createTransport env true "usbtmc:serialnr=X".toList [] = .err .descriptor ∧
    createTransport env false "udp:h:5:connect_timeout=1".toList [] = .err .descriptor ∧
    createTransport env false "udp:h:5".toList [("connect_timeout".toList, .flt "1.5".toList)] =
      .ok ⟨"QMI_UdpTransport".toList, [("_address".toList, [.str "h".toList, .int 5])]⟩ ∧
    (match createTransport env false "serial:COM3".toList [] with
     | .ok t => t.cls == "QMI_SerialTransport".toList && t.attrs.isPerm
         [("device".toList, [.str "COM3".toList]), ("_baudrate".toList, [.int 115200]), ("_bytesize".toList, [.int 8]),
          ("_parity".toList, [.str "N".toList]), ("_stopbits".toList, [.flt "1.0".toList]), ("_rtscts".toList, [.bool false])]
     | .err _ => false) = true := by
  refine ⟨by decide, by decide, by decide, by decide, by decide, by decide, by decide, by decide⟩

/-- defaults of the wrong type (repaired by 665b86e: type check of the kept defaults): the descriptor error, where the
validators used to raise `TypeError` / `AttributeError`; a `bool` is an `int` for Python and passes, an `int` passes for a
`float`; a default meant for another interface is dropped before the check -/
example :
    createTransport env false "tcp:h".toList [("port".toList, .str "5".toList)] = .err .descriptor ∧
    createTransport env false "tcp:h".toList [("port".toList, .none)] = .err .descriptor ∧
    createTransport env false "tcp:connect_timeout=1".toList [("host".toList, .int 5), ("port".toList, .int 5)] = .err .descriptor ∧
    createTransport env false "serial:baudrate=5".toList [("device".toList, .int 5)] = .err .descriptor ∧
    createTransport env false "tcp:h:5".toList [("connect_timeout".toList, .none)] = .err .descriptor ∧
    isOk (createTransport env false "tcp:h".toList [("port".toList, .bool true)]) = true ∧
    isOk (createTransport env false "serial:COM1".toList [("stopbits".toList, .int 1)]) = true ∧
    isOk (createTransport env false "tcp:h:5".toList [("baudrate".toList, .str "x".toList)]) = true := by
  refine ⟨by decide, by decide, by decide, by decide, by decide, by decide, by decide, by decide⟩

/-- Historical example about a *constant* (not about the source): with the serial table and constructor signature of
the pinned tree 04de7e7 — `baudrate` optional in the table, without default in the constructor — the table is not
aligned and `serial:COM3` escapes with `TypeError`.  (Repaired in /repo by 4a3416c.) -/
example :
    let pinnedSerial : Iface :=
      { name := "serial".toList,
        positionals := [⟨"device".toList, .str, true⟩],
        keywords := [⟨"baudrate".toList, .int, false⟩],
        ctorLinux := some { cls := "QMI_SerialTransport".toList,
                            args := [("device".toList, none), ("baudrate".toList, none)], prog := [] },
        ctorWin := none }
    AllAligned { ifaces := [pinnedSerial], localhostAddr := [] } = false ∧
    createTransport { ifaces := [pinnedSerial], localhostAddr := [] } false "serial:COM3".toList []
      = .err .typeError := by
  constructor <;> decide

/-! ## Faithfulness -/

/-- **Every parameter has exactly the value the string gives for it; defaults fill only what the string omits;
nothing else gets in.**  For every interface table with distinct parameter names, every list of parts and every
defaults dictionary: the parsed parameter dictionary *is* `specValue` — the typed value of the parameter's own
token (`kwToken`: the last `name=value` part; `posToken`: the i-th part without `'='` for the i-th positional),
otherwise the caller's default (declared names only), otherwise absent. -/
theorem faithful (I : Iface) (hI : NodupNames I) (parts : List Str) (d : List (Str × PyVal)) (p : Dict)
    (h : parseParams I parts d = .ok p) (k : Str) : dget p k = specValue I parts d k :=
  parseParams_get hI h k

/-- a value the string gives is never overridden by a default: two default dictionaries, same string, same value -/
theorem defaults_only_fill (I : Iface) (hI : NodupNames I) (parts : List Str) (d d' : List (Str × PyVal)) (p p' : Dict)
    (h : parseParams I parts d = .ok p) (h' : parseParams I parts d' = .ok p') (k : Str)
    (ht : (kwToken I parts k).isSome ∨ (posToken I parts k).isSome) : dget p k = dget p' k := by
  rw [faithful I hI parts d p h k, faithful I hI parts d' p' h' k]
  unfold specValue
  cases hk : kwToken I parts k with
  | some x => rfl
  | none =>
    cases hp : posToken I parts k with
    | some y => rfl
    | none => rw [hk, hp] at ht; simp at ht

/-- … and where the string is silent the default (of a declared name) is what comes out -/
theorem defaults_fill_absent (I : Iface) (hI : NodupNames I) (parts : List Str) (d : List (Str × PyVal)) (p : Dict)
    (h : parseParams I parts d = .ok p) (k : Str) (hk : kwToken I parts k = none) (hp : posToken I parts k = none) :
    dget p k = if knownName I k then dget (dictOf d) k else none := by
  rw [faithful I hI parts d p h k]
  unfold specValue
  rw [hk, hp]

/-- defaults meant for another interface never reach the constructor -/
theorem foreign_defaults_dropped (I : Iface) (hI : NodupNames I) (parts : List Str) (d : List (Str × PyVal)) (p : Dict)
    (h : parseParams I parts d = .ok p) (k : Str) (hk : knownName I k = false) : dget p k = none := by
  cases hg : dget p k with
  | none => rfl
  | some v =>
    have := (parseParams_keys hI h).1 k (mem_keys_of_dget p k v hg)
    rw [hk] at this; cases this

/-- non-vacuity for the three statements: a descriptor with a positional, a keyword and a default in play -/
example :
    parseParams QmiModel.Gen.TransportTables.tcp ["tcp".toList, "connect_timeout=2.5".toList, "h".toList]
        [("port".toList, .int 5025), ("host".toList, .str "other".toList), ("baudrate".toList, .int 9600)]
      = .ok [("port".toList, .int 5025), ("host".toList, .str "h".toList), ("connect_timeout".toList, .flt "2.5".toList)] ∧
    NodupNames QmiModel.Gen.TransportTables.tcp ∧
    (posToken QmiModel.Gen.TransportTables.tcp ["tcp".toList, "connect_timeout=2.5".toList, "h".toList] "host".toList).isSome ∧
    kwToken QmiModel.Gen.TransportTables.tcp ["tcp".toList, "connect_timeout=2.5".toList, "h".toList] "port".toList = none ∧
    knownName QmiModel.Gen.TransportTables.tcp "baudrate".toList = false := by
  refine ⟨by decide, by decide, by decide, by decide, by decide⟩

/-- **End to end.**  Whenever `create_transport` returns, the transport is of the class the table names for the
interface and platform, and its attributes are exactly what the translated `__init__` stores (`attrsOf`) from bound
arguments `a` each of which is `boundSpec`: the typed value of the parameter's token, else the caller's default, else
the constructor default.  (`attr_plain` / `attr_localhost` below say what a stored value is in terms of the bound one.) -/
theorem create_faithful (E : Env) (hE : EnvOk E = true) (win : Bool) (s : Str) (d : List (Str × PyVal)) (t : Transport)
    (h : createTransport E win s d = .ok t) :
    ∃ parts I c a, parseParts s = .ok parts ∧ findIface E (parts.headD []) = some I ∧ I.ctor win = some c ∧
      t.cls = c.cls ∧ (∀ n, dget a n = boundSpec c I parts d n) ∧ (ordered c.prog = true → t.attrs = attrsOf E c a) := by
  unfold createTransport at h
  cases hp : parseParts s with
  | err e => rw [hp] at h; cases h
  | ok parts =>
    rw [hp] at h
    simp only at h
    cases hf : findIface E (parts.headD []) with
    | none => rw [hf] at h; cases h
    | some I =>
      rw [hf] at h
      simp only at h
      rw [pps_eq d hp hf] at h
      have hIm : I ∈ E.ifaces := List.mem_of_find?_eq_some hf
      cases hpp : parseParams I parts d with
      | err e => rw [hpp] at h; cases h
      | ok p =>
        rw [hpp] at h
        simp only at h
        cases hc : I.ctor win with
        | none => rw [hc] at h; cases h
        | some c =>
          rw [hc] at h
          simp only at h
          cases hb : bindArgs c p with
          | err e => rw [hb] at h; cases h
          | ok a =>
            rw [hb] at h
            simp only at h
            cases hk : construct E c a with
            | err e => rw [hk] at h; cases h
            | ok attrs =>
              rw [hk] at h
              simp only [Res.ok.injEq] at h
              subst h
              refine ⟨parts, I, c, a, rfl, hf, hc, rfl, ?_, ?_⟩
              · intro n
                have hN := (envOk_iface hE hIm hc).1
                have hg := bindEach_get (bindArgs_ok hb) n
                unfold boundSpec
                cases hfa : c.args.find? (fun x => x.1 = n) with
                | none => rw [hfa] at hg; exact hg
                | some ar =>
                  rw [hfa] at hg
                  obtain ⟨v, hv, hsrc⟩ := hg
                  rw [hv, ← faithful I hN parts d p hpp n]
                  cases hpn : dget p n with
                  | some w => rw [hpn] at hsrc; simp only at hsrc; subst hsrc; rfl
                  | none => rw [hpn] at hsrc; simp only at hsrc; simp only [hsrc]
              · intro ho
                have := exec_ok hk ho
                simpa [attrsOf] using this

/-- a stored parameter that no `localhost` resolution touches is exactly the bound argument … -/
theorem attr_plain (E : Env) (c : Ctor) (a : List (Str × PyVal)) (n : Str) (h : n ∉ resolvesOf c.prog) :
    arg (resolveAll E (resolvesOf c.prog) a) n = arg a n :=
  arg_resolveAll_of_not_mem E _ a n h

/-- … and the resolved one is the bound string with the literal `localhost` replaced by its address -/
theorem attr_localhost (E : Env) (a : List (Str × PyVal)) (p : Str) :
    arg (resolveAll E [p] a) p = (match arg a p with | .str h => .str (normLocalhost E h) | v => v) :=
  arg_resolveAll_single E a p

/-- **Obligations on the translated `__init__` bodies of the current source** (recomputed on every run): attributes are
assigned after every `localhost` resolution; every constructor argument is stored exactly once, alone in the attribute
named after it (`p` / `_p`) or as `(host, port)` in `_address` — a swapped assignment or `super().__init__` argument
fails here; and the only resolved parameter is `host`. -/
theorem gen_stores : ∀ I ∈ env.ifaces, ∀ win c, I.ctor win = some c →
    ordered c.prog = true ∧ storesNamed c = true ∧ (resolvesOf c.prog = [] ∨ resolvesOf c.prog = [sHost]) := by
  decide

/-- the validator tests a constructor applies, as a set (the order of independent `_validate_*` calls is immaterial:
each can only raise the descriptor error) -/
def validatorsAre (I : Iface) (win : Bool) (expected : List (Str × Cond)) : Bool :=
  match I.ctor win with
  | some c => (validatesOf c.prog).isPerm expected
  | none => expected.isEmpty

/-- **The validator tests of the current source, literally** (recomputed on every run): which test guards which parameter,
with its bounds and constants, on both platforms.  A changed range, a dropped validator call or one applied to another
parameter fails here. -/
theorem gen_validators :
    env.ifaces.map (·.name) = ["serial".toList, "udp".toList, "tcp".toList, "usbtmc".toList, "gpib".toList, "vxi11".toList] ∧
    (∀ win,
      validatorsAre QmiModel.Gen.TransportTables.serial win
        [("device".toList, .notDevice "COM".toList "/".toList), ("baudrate".toList, .lt 1),
         ("bytesize".toList, .or (.lt 5) (.gt 8)), ("parity".toList, .notInStrs ["N".toList, "E".toList, "O".toList]),
         ("stopbits".toList, .notStopbits), ("rtscts".toList, .notBool)] = true ∧
      validatorsAre QmiModel.Gen.TransportTables.udp win
        [("host".toList, .badHost), ("port".toList, .or (.lt 1) (.gt 65535)), ("port".toList, .eq 35999)] = true ∧
      validatorsAre QmiModel.Gen.TransportTables.tcp win
        [("host".toList, .badHost), ("port".toList, .or (.lt 1) (.gt 65535))] = true ∧
      validatorsAre QmiModel.Gen.TransportTables.usbtmc win
        [("vendorid".toList, .or (.lt 0) (.gt 65535)), ("productid".toList, .or (.lt 0) (.gt 65535))] = true ∧
      validatorsAre QmiModel.Gen.TransportTables.gpib win [] = true ∧
      validatorsAre QmiModel.Gen.TransportTables.vxi11 win [("host".toList, .badHost)] = true) := by
  decide

/-- non-vacuity of `create_faithful`, with the `localhost` normalisation and a constructor default visible -/
example : createTransport env false "tcp:localhost:5025".toList [] =
    .ok ⟨"QMI_TcpTransport".toList, [("_address".toList, [.str "127.0.0.1".toList, .int 5025]),
                                     ("_connect_timeout".toList, [.int 10])]⟩ := by decide

/-! ## Round trip: the formats QMI itself produces parse back to the values they were formatted from -/

/-- **Listed USBTMC resources.**  For every vendor and product id in the 16-bit range and *every* serial number (colons,
equals signs, percent signs included), on both platforms: the descriptor `_format_resources` builds
(`usbtmc:vendorid=0x%04x:productid=0x%04x:serialnr=<escaped serial>`) gives a transport holding exactly these values. -/
theorem roundtrip_usbtmc (win : Bool) (v p : Nat) (sn : Str) (hv : v ≤ 65535) (hp : p ≤ 65535) :
    ∃ cls, createTransport env win (renderUsbtmc (Int.ofNat v) (Int.ofNat p) sn) [] =
      .ok ⟨cls, [(sVendorid, [.int v]), (sProductid, [.int p]), (sSerialnr, [.str sn])]⟩ := by
  have kw : ∀ (pre body : Str), isKw pre = true → isKw (pre ++ body) = true := by
    intro pre body h; unfold isKw at *; rw [List.any_append, h]; rfl
  have conv : ∀ n : Nat, convKw .int ('0' :: 'x' :: fmt04x (Int.ofNat n)) = .ok (.int n) := by
    intro n; simp only [convKw, startsWith0x, beq_self_eq_true, Bool.and_self, if_true, hex_read]; rfl
  have sp : ∀ (body : Str),
      splitEq (sVendorKw ++ body) = [sVendorid, '0' :: 'x' :: body] ∧
      splitEq (sProductKw ++ body) = [sProductid, '0' :: 'x' :: body] ∧
      splitEq (sSerialKw ++ body) = [sSerialnr, body] := by
    intro body
    refine ⟨?_, ?_, ?_⟩
    · simp [splitEq, sVendorKw, sVendorid, breakEq]
    · simp [splitEq, sProductKw, sProductid, breakEq]
    · simp [splitEq, sSerialKw, sSerialnr, breakEq]
  have := usbtmc_eval win _ _ _ _ _ _ (escape sn) v p (parseParts_usbtmc v p sn)
    (kw _ _ (by decide)) (kw _ _ (by decide)) (kw _ _ (by decide))
    (sp _).1 (sp _).2.1 (sp (escape sn)).2.2 (conv v) (conv p) (by omega) (by omega)
  rw [unescape_escape] at this
  exact this

/-- the escaping itself: `_unescape(_escape(s)) == s` for every string, and an escaped string has no colon -/
theorem escape_roundtrip (s : Str) : unescape (escape s) = s ∧ ∀ c ∈ escape s, c ≠ ':' :=
  ⟨unescape_escape s, escape_no_colon s⟩

/-- non-vacuity, with the widest id and a serial number containing brackets, a space, `'='`, `':'` and `'%'` -/
example : ∃ cls, createTransport env true (renderUsbtmc 65535 0 "A [1]=b:%3A".toList) [] =
    .ok ⟨cls, [(sVendorid, [.int 65535]), (sProductid, [.int 0]), (sSerialnr, [.str "A [1]=b:%3A".toList])]⟩ :=
  roundtrip_usbtmc true 65535 0 _ (by decide) (by decide)

/-- what is rendered is what `_format_resources` writes for such a resource (the hexadecimal form, zero padded) -/
example : renderUsbtmc 0x699 0x3000 "XYZ".toList = "usbtmc:vendorid=0x0699:productid=0x3000:serialnr=XYZ".toList ∧
    formatResource "USB0::0x0699::0x3000::XYZ::INSTR".toList = some (renderUsbtmc 0x699 0x3000 "XYZ".toList) ∧
    formatResource "USB::1689::12288::XYZ::INSTR".toList = some (renderUsbtmc 0x699 0x3000 "XYZ".toList) := by
  refine ⟨by decide, by decide, by decide⟩

theorem port_lt_limit (n : Nat) (h : n ≤ 65535) : n < 10 ^ 4300 := by
  have h1 : (10 : Nat) ^ 5 ≤ 10 ^ 4300 := Nat.pow_le_pow_right (by decide) (by decide)
  have h5 : (10 : Nat) ^ 5 = 100000 := by decide
  generalize (10 : Nat) ^ 4300 = X at h1 ⊢
  omega

/-- a host a descriptor can carry and the constructors accept: passes `_validate_host`, no `'='`, no newline,
does not start with `'['` -/
structure HostWF (h : Str) : Prop where
  valid : validateHost h = .ok ()
  noEq : ∀ c ∈ h, c ≠ '='
  noNl : ∀ c ∈ h, c ≠ '\n'
  noBracket : h.head? ≠ some '['

theorem HostWF.ne_nil {h : Str} (w : HostWF h) : h ≠ [] := by
  intro e; subst e; have := w.valid; revert this; decide

/-- **Bracketed IPv6 and plain hosts, TCP.**  `"tcp:" + format_address_and_port((host, port))` — the host in square
brackets exactly when it contains a colon — gives a transport with exactly that host and port, for every
well-formed host other than the literal `localhost` and every port 1 … 65535. -/
theorem roundtrip_tcp (win : Bool) (h : Str) (port : Nat) (w : HostWF h) (hl : h ≠ sLocalhost)
    (hp : 1 ≤ port ∧ port ≤ 65535) :
    createTransport env win (renderHostPort sTcp h port) [] =
      .ok ⟨clsTcp, [(sAddress, [.str h, .int port]), (sConnectTimeoutAttr, [.int 10])]⟩ := by
  have hd := (toDec_spec port).2.1
  exact tcp_eval win _ h (toDec port) port
    (parseParts_hostPort sTcp h port (by decide) (by decide) w.ne_nil w.noNl w.noBracket)
    (isKw_false h w.noEq) (isKw_false _ (lowerHex_plain_chars (fun c hc => (hd c hc).1)).2.1)
    (dec_read port (port_lt_limit port hp.2)) w.valid hl (by omega)

/-- … UDP (any port but the reserved responder port) … -/
theorem roundtrip_udp (win : Bool) (h : Str) (port : Nat) (w : HostWF h) (hl : h ≠ sLocalhost)
    (hp : 1 ≤ port ∧ port ≤ 65535) (hr : port ≠ 35999) :
    createTransport env win (renderHostPort sUdp h port) [] = .ok ⟨clsUdp, [(sAddress, [.str h, .int port])]⟩ := by
  have hd := (toDec_spec port).2.1
  exact udp_eval win _ h (toDec port) port
    (parseParts_hostPort sUdp h port (by decide) (by decide) w.ne_nil w.noNl w.noBracket)
    (isKw_false h w.noEq) (isKw_false _ (lowerHex_plain_chars (fun c hc => (hd c hc).1)).2.1)
    (dec_read port (port_lt_limit port hp.2)) w.valid hl (by omega)
    (by omega)

/-- … and VXI-11 (host only; `localhost` is kept as it is there). -/
theorem roundtrip_vxi11 (win : Bool) (h : Str) (w : HostWF h) :
    createTransport env win (sVxi11 ++ ':' :: renderHost h) [] = .ok ⟨clsVxi11, [(sHostAttr, [.str h])]⟩ :=
  vxi11_eval win _ h (parseParts_host sVxi11 h (by decide) (by decide) w.ne_nil w.noNl w.noBracket)
    (isKw_false h w.noEq) w.valid

/-- non-vacuity: the example address of the `create_transport` docstring is a well-formed host, and it is
rendered with brackets -/
example : HostWF "2620:0:2d0:200::8".toList ∧ "2620:0:2d0:200::8".toList ≠ sLocalhost ∧
    renderHostPort sTcp "2620:0:2d0:200::8".toList 5000 = "tcp:[2620:0:2d0:200::8]:5000".toList := by
  refine ⟨⟨by decide, by decide, by decide, by decide⟩, by decide, by decide⟩

example : HostWF "host-1.example.com".toList ∧ HostWF "192.168.1.10".toList ∧ HostWF "::ffff:10.0.0.1".toList := by
  refine ⟨⟨by decide, by decide, by decide, by decide⟩, ⟨by decide, by decide, by decide, by decide⟩,
    ⟨by decide, by decide, by decide, by decide⟩⟩

/-- **hexadecimal identifiers and decimal numbers read back**, for every natural number (decimal: below CPython's
4300-digit limit) -/
theorem hex_id_roundtrip (n : Nat) : convKw .int ('0' :: 'x' :: fmt04x (Int.ofNat n)) = .ok (.int n) := by
  simp only [convKw, startsWith0x, beq_self_eq_true, Bool.and_self, if_true, hex_read]; rfl

theorem decimal_roundtrip (n : Nat) (h : n < 10 ^ 4300) : convPos .int (toDec n) = .ok (.int n) := by
  simp only [convPos, dec_read n h]; rfl

end QmiModel.Descriptor
