import QmiModel.Model.Task
import QmiModel.Lemmas.C10Inv
/-!
# C10 — task lifecycle: run() at most once and only after start; join reports the outcome; settings newest wins

Property theorems only.  Every statement quantifies over **all finite interleavings** of the task thread's own
transitions, the runner constructor and the (serialised) runner operations: `Reachable s` = "`s` is the result
of some history `tr` with `exec init tr = some s`", no bound on the length of `tr`, on the number of operations,
or on the order in which the actors move.  The proofs go through the inductive invariant `Inv`
(`Lemmas/C10Inv.lean`).  Statements come in two forms where it matters: over the ghost fields of the state, and
over the history alone (`…_hist`), so that nothing depends on how a ghost field happens to be updated.
-/
namespace QmiModel.Task

/-! ## run() at most once, only after start() -/

/-- in every reachable state `task.run()` has been invoked at most once -/
theorem run_at_most_once {s : State} (h : Reachable s) : s.runs ≤ 1 := by
  have := (inv_reachable h).runs_def
  split at this <;> omega

/-- … as a statement about histories: no history contains two invocations of `run()` -/
theorem run_at_most_once_hist {tr : List Act} {s : State} (h : exec init tr = some s) :
    tr.count .runEnter ≤ 1 := by
  have h1 := run_at_most_once ⟨tr, h⟩
  have h2 := exec_runs h
  simp only [init] at h2
  omega

/-- `run()` has been invoked only if a `start()` went through -/
theorem run_only_after_start {s : State} (h : Reachable s) (hr : 0 < s.runs) : s.started = true := by
  have hi := inv_reachable h
  have := hi.runs_def
  split at this
  · rename_i hc
    rw [hi.started_iff]
    rcases hc with hc | hc | hc | hc | hc
    · exact Or.inl (hi.inside (Or.inr (Or.inl hc)))
    · exact Or.inl (hi.inside (Or.inr (Or.inr (Or.inl hc))))
    · exact Or.inl (hi.inside (Or.inr (Or.inr (Or.inr hc))))
    · exact Or.inr (Or.inl hc)
    · exact Or.inr (Or.inr hc)
  · omega

/-- … as a statement about histories: every invocation of `run()` is preceded by a `start_task` region that was
taken in state READY_TO_RUN (and therefore returned normally) -/
theorem run_only_after_start_hist {pre post : List Act} {s : State}
    (h : exec init (pre ++ .runEnter :: post) = some s) :
    ∃ p1 p2 s1, pre = p1 ++ .startKick :: p2 ∧ exec init p1 = some s1 ∧ s1.st = .ready ∧
      res s1 .startKick = .unit := by
  obtain ⟨s1, h1, h2⟩ := exec_append.1 h
  obtain ⟨s2, h3, _⟩ := exec_cons.1 h2
  -- `runEnter` is enabled only at pc = goRun, where the state is RUNNING, hence `started`
  have hi := inv_reachable ⟨pre, h1⟩
  have hpc : s1.pc = .goRun := by
    simp only [step] at h3
    split at h3
    · assumption
    · contradiction
  have hst : s1.started = true := hi.started_iff.2 (Or.inl (hi.inside (Or.inl hpc)))
  obtain ⟨p1, p2, s0, e1, e2, e3, _⟩ := started_witness h1 rfl hst
  exact ⟨p1, p2, s0, e1, e2, e3, by simp [res, e3]⟩

example : ∃ s, exec init [.initOk, .ctorWait, .ctorGet, .startCheck, .startKick, .wake, .runEnter] = some s ∧
    0 < s.runs := ⟨_, rfl, by decide⟩

/-! ## stop() first: never invoked -/

/-- once a `stop()` has hit the task before any `start()`, `run()` has not been invoked and never will be -/
theorem stop_first_never_runs {s : State} (h : Reachable s) (hs : s.stopFirst = true) :
    ∀ tr s', exec s tr = some s' → s'.runs = 0 ∧ s'.stopFirst = true := by
  intro tr s' he
  have hsf := exec_stopFirst_mono he hs
  have hi := inv_reachable (reachable_exec h he)
  refine ⟨?_, hsf⟩
  have hst := hi.stopFirst_iff.1 hsf
  have := hi.runs_def
  split at this
  · rename_i hc
    rcases hc with hc | hc | hc | hc | hc
    · have := hi.inside (Or.inr (Or.inl hc)); simp_all
    · have := hi.inside (Or.inr (Or.inr (Or.inl hc))); simp_all
    · have := hi.inside (Or.inr (Or.inr (Or.inr hc))); simp_all
    · simp_all
    · simp_all
  · exact this

/-- … as a statement about histories: if a `stop_task` region is executed at a moment when no `start_task` has
gone through, then no invocation of `run()` occurs anywhere in the history — neither before nor after -/
theorem stop_first_never_runs_hist {p1 p2 : List Act} {s1 s : State}
    (h1 : exec init p1 = some s1) (hns : s1.started = false)
    (h2 : exec s1 (.stopRegion :: p2) = some s) :
    (p1 ++ .stopRegion :: p2).count .runEnter = 0 := by
  obtain ⟨s2, hs2, h3⟩ := exec_cons.1 h2
  have hi := inv_reachable ⟨p1, h1⟩
  -- the stop region is enabled only on an available runner; not started ⇒ READY_TO_RUN or already stopped
  have hfree : s1.free = true := by
    simp only [step] at hs2
    split at hs2
    · assumption
    · contradiction
  have hup : s1.phase = .up := by
    simp only [State.free, Bool.and_eq_true, beq_iff_eq] at hfree; exact hfree.1
  have hsf2 : s2.stopFirst = true := by
    rw [step_stopFirst hs2]
    have hup' := hi.up_st hup
    have hst := hi.started_iff
    have hsf := hi.stopFirst_iff
    cases hst1 : s1.st <;> simp_all
  have hr2 : Reachable s2 := reachable_step ⟨p1, h1⟩ hs2
  have hfin := (stop_first_never_runs hr2 hsf2 p2 s h3).1
  have hall : exec init (p1 ++ .stopRegion :: p2) = some s := exec_append.2 ⟨s1, h1, h2⟩
  have := exec_runs hall
  simp only [init] at this
  omega

example : ∃ s, exec init [.initOk, .ctorWait, .ctorGet, .stopRegion, .startCheck, .wake, .threadEnd, .join] = some s ∧
    s.stopFirst = true ∧ s.joined = true := ⟨_, rfl, by decide⟩

/-! ## a second start() is refused -/

/-- after a `start()` went through, every further `start()` is refused with a usage error and changes nothing -/
theorem second_start_refused {s : State} (h : Reachable s) (hf : s.free = true) (hs : s.started = true) :
    step s .startCheck = some s ∧ res s .startCheck = .usageError := by
  have hi := inv_reachable h
  have hne : s.st ≠ .ready := by
    intro hr
    have := hi.started_iff.1 hs
    simp_all
  simp [step, res, hf, hne]

/-- the same when `stop()` came first -/
theorem start_after_stop_refused {s : State} (h : Reachable s) (hf : s.free = true) (hs : s.stopFirst = true) :
    step s .startCheck = some s ∧ res s .startCheck = .usageError := by
  have hi := inv_reachable h
  have hne : s.st ≠ .ready := by
    intro hr
    have := hi.stopFirst_iff.1 hs
    simp_all
  simp [step, res, hf, hne]

/-- and the first `start()` (no earlier start, no earlier stop) goes through, both regions, without error -/
theorem first_start_accepted {s : State} (h : Reachable s) (hf : s.free = true)
    (hns : s.started = false) (hnf : s.stopFirst = false) :
    ∃ s1 s2, step s .startCheck = some s1 ∧ res s .startCheck = .pending ∧
      step s1 .startKick = some s2 ∧ res s1 .startKick = .unit ∧ s2.started = true ∧ s2.st = .running := by
  have hi := inv_reachable h
  have hup : s.phase = .up ∧ s.rpc = .idle := by
    simpa [State.free] using hf
  have hst : s.st = .ready := by
    have h1 := hi.up_st hup.1
    have h2 := hi.started_iff
    have h3 := hi.stopFirst_iff
    cases hc : s.st <;> simp_all
  refine ⟨{ s with rpc := .startMid }, { s with st := .running, rpc := .idle, started := true }, ?_, ?_, ?_, ?_, rfl, rfl⟩
  · simp [step, hf, hst]
  · simp [res, hst]
  · simp [step, hup.1, hst]
  · simp [res, hst]

/-- the `assert state == READY_TO_RUN` inside `start_task` never fires, and `start_task` never blocks -/
theorem start_never_asserts {s : State} (h : Reachable s) (hm : s.rpc = .startMid) :
    (step s .startKick).isSome = true ∧ res s .startKick = .unit := by
  have hi := inv_reachable h
  have hst := hi.startMid hm
  have hup := hi.rpc_up (by simp [hm])
  simp [step, res, hst, hup, hm]

example : ∃ s, exec init [.initOk, .ctorWait, .ctorGet, .startCheck, .startKick] = some s ∧
    s.free = true ∧ s.started = true := ⟨_, rfl, by decide⟩

/-! ## join() -/

/-- `join()` returns (or raises) only when the thread has ended, and then either `run()` was invoked exactly once
and has ended, or a stop came first and `run()` was never invoked -/
theorem join_returns_only_when_finished {s s' : State} (h : Reachable s) (hj : step s .join = some s') :
    s.pc = .ended ∧ ((s.runs = 1 ∧ s.runOutcome.isSome = true) ∨ (s.runs = 0 ∧ s.stopFirst = true)) := by
  have hi := inv_reachable h
  simp only [step, State.free, Bool.and_eq_true, beq_iff_eq] at hj
  split at hj
  · rename_i hc
    obtain ⟨⟨hup, _⟩, hpc⟩ := hc
    refine ⟨hpc, ?_⟩
    have haft := hi.after (Or.inr hpc)
    have hup' := hi.up_st hup
    have hruns := hi.runs_def
    rcases haft with hst | hst | hst | hst
    · exact absurd hst hup'.2
    · right
      refine ⟨?_, hi.stopFirst_iff.2 hst⟩
      simp [hpc, hst, Pc.ranOut?] at hruns
      exact hruns
    · left
      obtain ⟨o, ho, _⟩ := hi.out_completed hst
      simp [hst] at hruns
      exact ⟨hruns, by simp [ho]⟩
    · left
      have ho := hi.out_excRun hst
      simp [hst] at hruns
      exact ⟨hruns, by simp [ho]⟩
  · contradiction

/-- `join()` raises the task-run error exactly when `run()` ended with an exception other than the task-stop
exception; otherwise it returns normally — in particular its internal `assert` never fires -/
theorem join_raises_iff_exception {s s' : State} (h : Reachable s) (hj : step s .join = some s') :
    (res s .join = .taskRunError ↔ s.runOutcome = some .otherExc) ∧
    (res s .join = .unit ↔ s.runOutcome ≠ some .otherExc) := by
  have hi := inv_reachable h
  simp only [step, State.free, Bool.and_eq_true, beq_iff_eq] at hj
  split at hj
  · rename_i hc
    obtain ⟨⟨hup, _⟩, hpc⟩ := hc
    have haft := hi.after (Or.inr hpc)
    have hup' := hi.up_st hup
    rcases haft with hst | hst | hst | hst
    · exact absurd hst hup'.2
    · have ho := hi.out_none (Or.inr (Or.inr (Or.inr (Or.inr (Or.inr (Or.inl hst))))))
      simp [res, hst, ho]
    · obtain ⟨o, ho, hne⟩ := hi.out_completed hst
      simp [res, hst, ho, hne]
    · have ho := hi.out_excRun hst
      simp [res, hst, ho]
  · contradiction

/-- a raise of the task-stop exception is not reported: concrete history -/
example : ∃ s, exec init [.initOk, .ctorWait, .ctorGet, .startCheck, .startKick, .wake, .runEnter,
    .runEnd .stopExc, .mark, .threadEnd] = some s ∧ (step s .join).isSome = true ∧ res s .join = .unit :=
  ⟨_, rfl, by decide⟩
/-- any other exception is: concrete history -/
example : ∃ s, exec init [.initOk, .ctorWait, .ctorGet, .startCheck, .startKick, .wake, .runEnter,
    .runEnd .otherExc, .mark, .threadEnd] = some s ∧ (step s .join).isSome = true ∧ res s .join = .taskRunError :=
  ⟨_, rfl, by decide⟩
/-- join before start/stop is not enabled (it waits), and stays so as long as nobody starts or stops the task -/
example : ∃ s, exec init [.initOk, .ctorWait, .ctorGet] = some s ∧ step s .join = none ∧ threadCanMove s = false :=
  ⟨_, rfl, by decide⟩

/-- after a stop that came first the thread is never stuck short of its end: it has ended (join is enabled on an
idle runner) or its next action (`wake` out of the READY_TO_RUN wait, or the thread's end) is enabled —
`join()` after stop-before-start cannot wait for ever -/
theorem join_after_stop_first_not_stuck {s : State} (h : Reachable s) (hs : s.stopFirst = true) :
    s.pc = .ended ∨ (step s .wake).isSome = true ∨ (step s .threadEnd).isSome = true := by
  have hi := inv_reachable h
  have hst := hi.stopFirst_iff.1 hs
  have h1 := hi.init_iff
  have h2 := hi.inside
  cases hpc : s.pc <;> simp_all [step, Pc.ranOut?]

/-- what the driver's deadlock judgement relies on: `threadCanMove` is sound (some thread action is enabled) -/
theorem threadCanMove_sound {s : State} (h : threadCanMove s = true) :
    ∃ a, (a = .initOk ∨ a = .wake ∨ a = .runEnter ∨ a = .updPop ∨ a = .mark ∨ a = .threadEnd) ∧
      (step s a).isSome = true := by
  unfold threadCanMove at h
  split at h
  · rename_i hpc
    refine ⟨.initOk, Or.inl rfl, ?_⟩
    simp only [step, hpc]
    cases s.st <;> rfl
  · rename_i hpc
    refine ⟨.wake, by simp, ?_⟩
    have : s.st ≠ .ready := by simpa using h
    simp only [step, hpc]
    by_cases hr : s.st = .running <;> simp [this, hr]
  · rename_i hpc; exact ⟨.runEnter, by simp, by simp [step, hpc]⟩
  · contradiction
  · rename_i hpc
    refine ⟨.updPop, by simp, ?_⟩
    simp only [step, hpc]
    cases s.slot <;> rfl
  · rename_i o hpc
    refine ⟨.mark, by simp, ?_⟩
    simp only [step, hpc]
    cases o <;> rfl
  · rename_i hpc; exact ⟨.threadEnd, by simp, by simp [step, hpc]⟩
  · contradiction

/-! ## is_running -/

/-- `is_running()` answers true exactly between the `start_task` region that started the task and the region
in which the thread records the end of `run()` -/
theorem is_running_iff_running {s : State} (h : Reachable s) (_hf : s.free = true) :
    res s .isRunning = .bool true ↔ (s.started = true ∧ s.pc ≠ .exiting ∧ s.pc ≠ .ended) := by
  have hi := inv_reachable h
  simp only [res, Res.bool.injEq, beq_iff_eq]
  constructor
  · intro hst
    refine ⟨hi.started_iff.2 (Or.inl hst), ?_, ?_⟩
    · intro hpc; have := hi.after (Or.inl hpc); simp_all
    · intro hpc; have := hi.after (Or.inr hpc); simp_all
  · rintro ⟨hs, h1, h2⟩
    have hst := hi.started_iff.1 hs
    have hinit := hi.init_iff
    have hw := hi.waiting
    have hin := hi.inside
    have h3 := hi.out_pc
    rcases hst with hst | hst | hst
    · exact hst
    · -- COMPLETED ⇒ the thread is past its last region
      exfalso
      cases hpc : s.pc <;> simp_all [Pc.ranOut?]
    · exfalso
      cases hpc : s.pc <;> simp_all [Pc.ranOut?]

example : ∃ s, exec init [.initOk, .ctorWait, .ctorGet, .startCheck, .startKick, .wake, .runEnter] = some s ∧
    s.free = true ∧ res s .isRunning = .bool true := ⟨_, rfl, by decide⟩

/-! ## settings: handed over whole, newest wins -/

/-- `update_settings()` reports true exactly when a value was posted since the previous successful update
(`postedSince` reads this off the history: a `set_settings` after the last `pop`) -/
theorem update_true_iff_posted_since_last {tr : List Act} {s : State} (h : exec init tr = some s) :
    res s .updCheck = .bool (postedSince tr) := by
  have hi := inv_reachable ⟨tr, h⟩
  have hp := exec_posted inv_init h
  simp only [init] at hp
  simp only [res, postedSince, ← hp, hi.posted_iff]

/-- when it reports true, the `pop` that follows cannot fail, and the task then holds the most recently posted
value (`lastPost` = argument of the latest `set_settings` in the history, including those that slipped in between
the test and the `pop`); the slot is empty afterwards -/
theorem settings_newest_wins {tr : List Act} {s : State} (h : exec init tr = some s) (hpc : s.pc = .inUpd) :
    ∃ v s', lastPost tr = some v ∧ step s .updPop = some s' ∧ res s .updPop = .bool true ∧
      s'.settings = some v ∧ s'.slot = none ∧ s'.posted = false := by
  have hi := inv_reachable ⟨tr, h⟩
  have hl := exec_lastPosted h
  simp only [init] at hl
  have hsome := hi.inUpd_slot hpc
  cases hslot : s.slot with
  | none => simp [hslot] at hsome
  | some v =>
    have := hi.slot_last v hslot
    refine ⟨v, { s with pc := .inRun, slot := none, settings := some v, posted := false }, ?_, ?_, ?_, rfl, rfl, rfl⟩
    · simp only [lastPost, ← hl, this]
    · simp [step, hpc, hslot]
    · simp [res, hslot]

/-- the runner-side view: `get_pending_settings()` shows the newest posted value until the task has taken it -/
theorem pending_is_newest {tr : List Act} {s : State} (h : exec init tr = some s) :
    res s .getPending = .val (if postedSince tr then lastPost tr else none) := by
  have hi := inv_reachable ⟨tr, h⟩
  have hp := exec_posted inv_init h
  have hl := exec_lastPosted h
  simp only [init] at hp hl
  simp only [res, postedSince, lastPost, ← hp, ← hl, hi.posted_iff]
  cases hslot : s.slot with
  | none => simp
  | some v => simp [hi.slot_last v hslot]

/-- the task's settings change only by a successful update -/
theorem settings_change_only_by_update {s s' : State} {a : Act} (hs : step s a = some s') (ha : a ≠ .updPop) :
    s'.settings = s.settings := by
  rw [step_settings hs]
  cases a <;> simp_all

/-- two posts, the second one between the test and the `pop`: the task gets the second -/
example : ∃ s, exec init [.initOk, .ctorWait, .ctorGet, .setSettings 1, .startCheck, .startKick, .wake, .runEnter,
    .updCheck, .setSettings 2, .updPop] = some s ∧ s.settings = some 2 ∧ s.slot = none := ⟨_, rfl, by decide⟩
example : postedSince [.setSettings 1, .updCheck, .updPop, .updCheck] = false ∧
    postedSince [.setSettings 1, .updCheck, .updPop, .setSettings 2] = true ∧
    lastPost [.setSettings 1, .setSettings 2, .updPop] = some 2 := by decide

end QmiModel.Task
