import QmiModel.Model.Task
import QmiModel.Lemmas.C10Inv
import QmiModel.Model.LoopTask
import QmiModel.Lemmas.C10Loop
/-!
# C10 — task lifecycle: run() at most once and only after start; join reports the outcome; settings newest wins

Property theorems only.  Every statement quantifies over **all finite interleavings** of the task thread's own
transitions, the runner constructor and the (serialised) runner operations: `Reachable s` = "`s` is the result
of some history `tr` with `exec (initS v0) tr = some s`" (`v0` = the settings the task class gave itself in `__init__`), no bound on the length of `tr`, on the number of operations,
or on the order in which the actors move.  The proofs go through the inductive invariant `Inv`
(`Lemmas/C10Inv.lean`).  Statements come in two forms where it matters: over the ghost fields of the state, and
over the history alone (`…_hist`), so that nothing depends on how a ghost field happens to be updated.
-/
namespace QmiModel.Task

/-! ## run() at most once, only after start() -/

/-- in every reachable state `task.run()` has been invoked at most once -/
theorem run_at_most_once {s : State} (h : Reachable s) : s.runs ≤ 1 := by
  have := (inv_reachable h).runs_def
  split at this <;> omega

/-- … as a statement about histories: no history contains two invocations of `run()` -/
theorem run_at_most_once_hist {v0 : Option Nat} {tr : List Act} {s : State} (h : exec (initS v0) tr = some s) :
    tr.count .runEnter ≤ 1 := by
  have h1 := run_at_most_once ⟨v0, tr, h⟩
  have h2 := exec_runs h
  simp only [initS, init] at h2
  omega

/-- `run()` has been invoked only if a `start()` went through -/
theorem run_only_after_start {s : State} (h : Reachable s) (hr : 0 < s.runs) : s.started = true := by
  obtain ⟨⟩ := inv_reachable h
  grind

/-- … as a statement about histories: every invocation of `run()` is preceded by a `start_task` region that was
taken in state READY_TO_RUN (and therefore returned normally) -/
theorem run_only_after_start_hist {pre post : List Act} {s : State}
    {v0 : Option Nat} (h : exec (initS v0) (pre ++ .runEnter :: post) = some s) :
    ∃ p1 p2 s1, pre = p1 ++ .startKick :: p2 ∧ exec (initS v0) p1 = some s1 ∧ s1.st = .ready ∧
      res s1 .startKick = .unit := by
  obtain ⟨s1, h1, h2⟩ := exec_append.1 h
  obtain ⟨s2, h3, _⟩ := exec_cons.1 h2
  -- `runEnter` is enabled only at pc = goRun, where the state is RUNNING, hence `started`
  have hi := inv_reachable ⟨v0, pre, h1⟩
  have hpc : s1.pc = .goRun := by
    simp only [step] at h3
    split at h3
    · assumption
    · contradiction
  have hst : s1.started = true := hi.started_iff.2 (Or.inl (hi.inside (Or.inl hpc)))
  obtain ⟨p1, p2, s0, e1, e2, e3, _⟩ := started_witness h1 rfl hst
  exact ⟨p1, p2, s0, e1, e2, e3, by simp [res, e3]⟩

example : ∃ s, exec init [.initOk, .ctorWait, .ctorGet, .startCheck, .startKick, .wake, .runEnter] = some s ∧
    0 < s.runs := ⟨_, rfl, by decide⟩

/-! ## stop() first: never invoked -/

/-- once a `stop()` has hit the task before any `start()`, `run()` has not been invoked and never will be -/
theorem stop_first_never_runs {s : State} (h : Reachable s) (hs : s.stopFirst = true) :
    ∀ tr s', exec s tr = some s' → s'.runs = 0 ∧ s'.stopFirst = true := by
  intro tr s' he
  have hsf := exec_stopFirst_mono he hs
  have hi := inv_reachable (reachable_exec h he)
  refine ⟨?_, hsf⟩
  obtain ⟨⟩ := hi
  grind

/-- … as a statement about histories: if a `stop_task` region is executed at a moment when no `start_task` has
gone through, then no invocation of `run()` occurs anywhere in the history — neither before nor after -/
theorem stop_first_never_runs_hist {p1 p2 : List Act} {s1 s : State}
    {v0 : Option Nat} (h1 : exec (initS v0) p1 = some s1) (hns : s1.started = false)
    (h2 : exec s1 (.stopRegion :: p2) = some s) :
    (p1 ++ .stopRegion :: p2).count .runEnter = 0 := by
  obtain ⟨s2, hs2, h3⟩ := exec_cons.1 h2
  have hi := inv_reachable ⟨v0, p1, h1⟩
  -- the stop region is enabled only on an available runner; not started ⇒ READY_TO_RUN or already stopped
  have hup : s1.phase = .up := by
    cases hc : s1.stopCtx with
    | none => simp [step, hc] at hs2
    | some c => exact (stopCtx_some hc).1
  have hsf2 : s2.stopFirst = true := by
    rw [step_stopFirst hs2]
    have hup' := hi.up_st hup
    have hst := hi.started_iff
    have hsf := hi.stopped_sf
    have hsf' := hi.sf_st
    cases hst1 : s1.st <;> simp_all
  have hr2 : Reachable s2 := reachable_step ⟨v0, p1, h1⟩ hs2
  have hfin := (stop_first_never_runs hr2 hsf2 p2 s h3).1
  have hall : exec (initS v0) (p1 ++ .stopRegion :: p2) = some s := exec_append.2 ⟨s1, h1, h2⟩
  have := exec_runs hall
  simp only [initS, init] at this
  omega

example : ∃ s, exec init [.initOk, .ctorWait, .ctorGet, .stopRegion, .startCheck, .wake, .threadEnd, .join, .joinSet] = some s ∧
    s.stopFirst = true ∧ s.joined = true := ⟨_, rfl, by decide⟩

/-! ## a second start() is refused -/

/-- after a `start()` went through, every further `start()` is refused with a usage error and changes nothing -/
theorem second_start_refused {s : State} (h : Reachable s) (hf : s.free = true) (hs : s.started = true) :
    step s .startCheck = some s ∧ res s .startCheck = .usageError := by
  have hi := inv_reachable h
  have hne : s.st ≠ .ready := by
    intro hr
    have := hi.started_iff.1 hs
    simp_all
  simp [step, res, hf, hne]

/-- the same when `stop()` came first -/
theorem start_after_stop_refused {s : State} (h : Reachable s) (hf : s.free = true) (hs : s.stopFirst = true) :
    step s .startCheck = some s ∧ res s .startCheck = .usageError := by
  have hi := inv_reachable h
  have hne : s.st ≠ .ready := by
    intro hr
    have := hi.sf_st hs
    simp_all
  simp [step, res, hf, hne]

/-- and the first `start()` (no earlier start, no earlier stop) goes through, both regions, without error -/
theorem first_start_accepted {s : State} (h : Reachable s) (hf : s.free = true)
    (hns : s.started = false) (hnf : s.stopFirst = false) :
    ∃ s1 s2, step s .startCheck = some s1 ∧ res s .startCheck = .pending ∧
      step s1 .startKick = some s2 ∧ res s1 .startKick = .unit ∧ s2.started = true ∧ s2.st = .running := by
  have hi := inv_reachable h
  have hup : s.phase = .up ∧ s.rpc = .idle := by
    simpa [State.free] using hf
  have hst : s.st = .ready := by
    have h1 := hi.up_st hup.1
    have h2 := hi.started_iff
    have h3 := hi.stopped_sf
    have h3' := hi.sf_st
    cases hc : s.st <;> simp_all
  refine ⟨{ s with rpc := .startMid }, { s with st := .running, rpc := .idle, started := true }, ?_, ?_, ?_, ?_, rfl, rfl⟩
  · simp [step, hf, hst]
  · simp [res, hst]
  · simp [step, hup.1, hst]
  · simp [res, hst]

/- Full statement (false once `stop_task` may also be called outside the RPC worker, see the witness below):
     theorem start_never_asserts (h : Reachable s) (hm : s.rpc = .startMid) :
         (step s .startKick).isSome = true ∧ res s .startKick = .unit
   It holds as long as every stop goes through the runner (missing hypothesis: `s.shut = false`). -/
/-- the `assert state == READY_TO_RUN` inside `start_task` never fires, and `start_task` never blocks — provided no
`stop_task` has been issued outside the RPC worker (`_request_shutdown`) -/
theorem start_never_asserts_partial {s : State} (h : Reachable s) (hm : s.rpc = .startMid) (hns : s.shut = false) :
    (step s .startKick).isSome = true ∧ res s .startKick = .unit := by
  have hi := inv_reachable h
  have hst : s.st = .ready := by
    rcases hi.startMid hm with h1 | ⟨h1, _⟩
    · exact h1
    · simp [hns] at h1
  have hup := hi.rpc_up (by simp [hm])
  simp [step, res, hst, hup, hm]

/-- negation witness of the full statement: a `_request_shutdown` that slips in between the two regions of
`start()` makes `start_task` fail its `assert` (AssertionError instead of a usage error).  `QMI_Thread.shutdown()`
is never called on a task thread by the repository's own code, and the property quantifies over operations issued
through the proxy, so this is recorded, not reported. -/
theorem start_asserts_under_shutdown :
    ∃ s, exec init [.initOk, .ctorWait, .ctorGet, .startCheck, .extStopRegion] = some s ∧ s.rpc = .startMid ∧
      res s .startKick = .assertionError := ⟨_, rfl, by decide⟩

example : ∃ s, exec init [.initOk, .ctorWait, .ctorGet, .startCheck, .startKick] = some s ∧
    s.free = true ∧ s.started = true := ⟨_, rfl, by decide⟩

/-! ## join() -/

/-- `join()` returns (or raises) only when the thread has ended, and then either `run()` was invoked exactly once
and has ended, or a stop came first and `run()` was never invoked (in whatever composition the join runs:
called as such, inside `__exit__`, inside `release_rpc_object`) -/
theorem join_returns_only_when_finished {s s' : State} (h : Reachable s) (hj : step s .join = some s') :
    s.pc = .ended ∧ ((s.runs = 1 ∧ s.runOutcome.isSome = true) ∨ (s.runs = 0 ∧ s.stopFirst = true)) := by
  obtain ⟨hup, hpc⟩ := join_enabled hj
  obtain ⟨⟩ := inv_reachable h
  grind [Pc.ranOut?]

/-- `join()` raises the task-run error exactly when `run()` ended with an exception other than the task-stop
exception; otherwise it returns normally — in particular its internal `assert` never fires -/
theorem join_raises_iff_exception {s s' : State} (h : Reachable s) (hj : step s .join = some s') :
    (res s .join = .taskRunError ↔ s.runOutcome = some .otherExc) ∧
    (res s .join = .unit ↔ s.runOutcome ≠ some .otherExc) := by
  obtain ⟨hup, hpc⟩ := join_enabled hj
  have hi := inv_reachable h
  have haft := hi.after (Or.inr hpc)
  have hup' := hi.up_st hup
  rcases haft with hst | hst | hst | hst
  · exact absurd hst hup'.2
  · have ho := hi.out_none (by simp [hst])
    simp [res, hst, ho]
  · obtain ⟨o, ho, hne⟩ := hi.out_completed hst
    simp [res, hst, ho, hne]
  · have ho := hi.out_excRun hst
    simp [res, hst, ho]

/-- once a join has completed (`_joined` written), the task is over for good: `_joined` holds, and in every later
state the thread has ended, `run()` has not been invoked again (the history since contains no `runEnter`), it ran
at most once in all, and `is_running()` answers false -/
theorem after_join_quiescent {s s' : State} (h : Reachable s) (hj : step s .joinSet = some s') :
    s'.joined = true ∧ ∀ tr s'', exec s' tr = some s'' →
      s''.joined = true ∧ s''.pc = .ended ∧ tr.count .runEnter = 0 ∧ s''.runs = s.runs ∧ s''.runs ≤ 1 ∧
      res s'' .isRunning = .bool false := by
  obtain ⟨hup, c, hc⟩ := joinSet_enabled hj
  have hi := inv_reachable h
  have hpc := hi.joinMid_ended c hc
  have hjd : s'.joined = true := by
    rw [step_joined hj]
    have haft := hi.after (Or.inr hpc)
    have hup' := hi.up_st hup
    rcases haft with hst | hst | hst | hst
    · exact absurd hst hup'.2
    all_goals simp [hst]
  refine ⟨hjd, ?_⟩
  intro tr s'' he
  have hr' := reachable_step h hj
  obtain ⟨hj'', hcount⟩ := exec_no_run_after_joined hr' hjd he
  have hr'' := reachable_exec hr' he
  have hi'' := inv_reachable hr''
  have hpc'' := hi''.joined_ended hj''
  have hruns : s''.runs = s.runs := by
    have h1 := exec_runs he
    have h2 := step_runs hj
    simp at h2
    omega
  refine ⟨hj'', hpc'', hcount, hruns, run_at_most_once hr'', ?_⟩
  have := hi''.after (Or.inr hpc'')
  rcases this with hst | hst | hst | hst <;> simp [res, hst]

/-- between the `get_state` region of a join and its completion nothing can change the outcome: the thread has
ended, so the completion is enabled and records `_joined` -/
theorem join_completes {s : State} (h : Reachable s) {c : Comp} (hc : s.rpc = .joinMid c) :
    ∃ s', step s .joinSet = some s' ∧ s'.joined = true ∧ s'.rpc = .idle ∧
      s'.phase = (if c = .release then .removed else .up) := by
  have hi := inv_reachable h
  have hup := hi.rpc_up (by simp [hc])
  have hpc := hi.joinMid_ended c hc
  have haft := hi.after (Or.inr hpc)
  have hup' := hi.up_st hup
  rcases haft with hst | hst | hst | hst
  · exact absurd hst hup'.2
  all_goals (simp only [step, hc, hup, hst, if_true]; exact ⟨_, rfl, rfl, rfl, rfl⟩)

/-- a raise of the task-stop exception is not reported: concrete history -/
example : ∃ s, exec init [.initOk, .ctorWait, .ctorGet, .startCheck, .startKick, .wake, .runEnter,
    .runEnd .stopExc, .mark, .threadEnd] = some s ∧ (step s .join).isSome = true ∧ res s .join = .unit :=
  ⟨_, rfl, by decide⟩
/-- any other exception is: concrete history -/
example : ∃ s, exec init [.initOk, .ctorWait, .ctorGet, .startCheck, .startKick, .wake, .runEnter,
    .runEnd .otherExc, .mark, .threadEnd] = some s ∧ (step s .join).isSome = true ∧ res s .join = .taskRunError :=
  ⟨_, rfl, by decide⟩
/-- join before start/stop is not enabled (it waits), and stays so as long as nobody starts or stops the task -/
example : ∃ s, exec init [.initOk, .ctorWait, .ctorGet] = some s ∧ step s .join = none ∧ threadCanMove s = false :=
  ⟨_, rfl, by decide⟩

/-- after a stop that came first the thread is never stuck short of its end: it has ended (join is enabled on an
idle runner) or its next action (the end of a construction still in progress, `wake` out of the READY_TO_RUN wait,
or the thread's end) is enabled — `join()` after stop-before-start cannot wait for ever -/
theorem join_after_stop_first_not_stuck {s : State} (h : Reachable s) (hs : s.stopFirst = true) :
    s.pc = .ended ∨ (step s .initOk).isSome = true ∨ (step s .wake).isSome = true ∨
      (step s .threadEnd).isSome = true := by
  have hi := inv_reachable h
  have hst := hi.sf_st hs
  have h1 := hi.init_st
  have h1' := hi.initial_pc
  have h2 := hi.inside
  have h3 := hi.waiting
  cases hpc : s.pc <;> rcases hst with hst | ⟨hst, _⟩ <;> simp_all [step, Pc.ranOut?]

/-- what the driver's deadlock judgement relies on: `threadCanMove` is sound (some thread action is enabled) -/
theorem threadCanMove_sound {s : State} (h : threadCanMove s = true) :
    ∃ a, (a = .initOk ∨ a = .wake ∨ a = .runEnter ∨ a = .updPop ∨ a = .updPub ∨ a = .mark ∨ a = .threadEnd) ∧
      (step s a).isSome = true := by
  unfold threadCanMove at h
  cases hpc : s.pc with
  | init =>
    refine ⟨.initOk, by simp, ?_⟩
    simp only [step, hpc]
    cases s.st <;> rfl
  | waiting =>
    refine ⟨.wake, by simp, ?_⟩
    have : s.st ≠ .ready := by simpa [hpc] using h
    simp only [step, hpc]
    by_cases hr : s.st = .running <;> simp [this, hr]
  | goRun => exact ⟨.runEnter, by simp, by simp [step, hpc]⟩
  | inRun => simp [hpc] at h
  | inUpd =>
    refine ⟨.updPop, by simp, ?_⟩
    simp only [step, hpc]
    cases s.slot <;> rfl
  | inPub =>
    refine ⟨.updPub, by simp, ?_⟩
    simp only [step, hpc]
    cases s.settings <;> rfl
  | ranOut o =>
    refine ⟨.mark, by simp, ?_⟩
    simp only [step, hpc]
    cases o <;> rfl
  | exiting => exact ⟨.threadEnd, by simp, by simp [step, hpc]⟩
  | ended => simp [hpc] at h

/-! ## is_running -/

/-- `is_running()` answers true exactly between the `start_task` region that started the task and the region
in which the thread records the end of `run()` -/
theorem is_running_iff_running {s : State} (h : Reachable s) (_hf : s.free = true) :
    res s .isRunning = .bool true ↔ (s.started = true ∧ s.pc ≠ .exiting ∧ s.pc ≠ .ended) := by
  have hi := inv_reachable h
  simp only [res, Res.bool.injEq, beq_iff_eq]
  constructor
  · intro hst
    refine ⟨hi.started_iff.2 (Or.inl hst), ?_, ?_⟩
    · intro hpc; have := hi.after (Or.inl hpc); simp_all
    · intro hpc; have := hi.after (Or.inr hpc); simp_all
  · rintro ⟨hs, h1, h2⟩
    have hst := hi.started_iff.1 hs
    have hinit := hi.init_st
    have hinit' := hi.initial_pc
    have hw := hi.waiting
    have hin := hi.inside
    have h3 := hi.out_pc
    rcases hst with hst | hst | hst
    · exact hst
    · -- COMPLETED ⇒ the thread is past its last region
      exfalso
      cases hpc : s.pc <;> simp_all [Pc.ranOut?]
    · exfalso
      cases hpc : s.pc <;> simp_all [Pc.ranOut?]

example : ∃ s, exec init [.initOk, .ctorWait, .ctorGet, .startCheck, .startKick, .wake, .runEnter] = some s ∧
    s.free = true ∧ res s .isRunning = .bool true := ⟨_, rfl, by decide⟩

/-! ## settings: handed over whole, newest wins -/

/-- `update_settings()` reports true exactly when a value was posted since the previous successful update
(`postedSince` reads this off the history: a `set_settings` after the last `pop`) -/
theorem update_true_iff_posted_since_last {v0 : Option Nat} {tr : List Act} {s : State} (h : exec (initS v0) tr = some s) :
    res s .updCheck = .bool (postedSince tr) := by
  have hi := inv_reachable ⟨v0, tr, h⟩
  have hp := exec_posted (inv_initS v0) h
  simp only [initS, init] at hp
  simp only [res, postedSince, ← hp, hi.posted_iff]

/-- when it reports true, the `pop` that follows cannot fail, and the task then holds the most recently posted
value (`lastPost` = argument of the latest `set_settings` in the history, including those that slipped in between
the test and the `pop`); the slot is empty afterwards -/
theorem settings_newest_wins {v0 : Option Nat} {tr : List Act} {s : State} (h : exec (initS v0) tr = some s) (hpc : s.pc = .inUpd) :
    ∃ v s', lastPost tr = some v ∧ step s .updPop = some s' ∧ res s .updPop = .bool true ∧
      s'.settings = some v ∧ s'.slot = none ∧ s'.posted = false := by
  have hi := inv_reachable ⟨v0, tr, h⟩
  have hl := exec_lastPosted h
  simp only [initS, init] at hl
  have hsome := hi.inUpd_slot hpc
  cases hslot : s.slot with
  | none => simp [hslot] at hsome
  | some v =>
    have := hi.slot_last v hslot
    refine ⟨v, { s with pc := .inPub, slot := none, settings := some v, posted := false,
                         adopted := s.adopted ++ [v] }, ?_, ?_, ?_, rfl, rfl, rfl⟩
    · simp only [lastPost, ← hl, this]
    · simp [step, hpc, hslot]
    · simp [res, hslot]

/-- the runner-side view: `get_pending_settings()` shows the newest posted value until the task has taken it -/
theorem pending_is_newest {v0 : Option Nat} {tr : List Act} {s : State} (h : exec (initS v0) tr = some s) :
    res s .getPending = .val (if postedSince tr then lastPost tr else none) := by
  have hi := inv_reachable ⟨v0, tr, h⟩
  have hp := exec_posted (inv_initS v0) h
  have hl := exec_lastPosted h
  simp only [initS, init] at hp hl
  simp only [res, postedSince, lastPost, ← hp, ← hl, hi.posted_iff]
  cases hslot : s.slot with
  | none => simp
  | some v => simp [hi.slot_last v hslot]

/-- the task's settings change only by a successful update -/
theorem settings_change_only_by_update {s s' : State} {a : Act} (hs : step s a = some s') (ha : a ≠ .updPop) :
    s'.settings = s.settings := by
  rw [step_settings hs]
  cases a <;> simp_all

/-- two posts, the second one between the test and the `pop`: the task gets the second, and publishes it -/
example : ∃ s, exec init [.initOk, .ctorWait, .ctorGet, .setSettings 1, .startCheck, .startKick, .wake, .runEnter,
    .updCheck, .setSettings 2, .updPop, .updPub] = some s ∧ s.settings = some 2 ∧ s.slot = none ∧
    s.published = [2] := ⟨_, rfl, by decide⟩

/-! ## publication of adopted settings (`sig_settings_updated`) -/

/-- the values published are exactly the values adopted, in order: a publication happens once per successful
update, none without one (while the task is between adoption and publication the newest adopted value is the one
about to be published) -/
theorem published_exactly_adopted {s : State} (h : Reachable s) :
    s.adopted = s.published ++ (if s.pc = .inPub then s.settings.toList else []) :=
  (inv_reachable h).pub_def

/-- the publication that follows an adoption carries the adopted value, and completes the update -/
theorem publish_carries_adopted_value {s : State} (h : Reachable s) (hpc : s.pc = .inPub) :
    ∃ v s', s.settings = some v ∧ step s .updPub = some s' ∧ res s .updPub = .val (some v) ∧
      s'.published = s.published ++ [v] ∧ s'.adopted = s'.published ∧ s'.pc = .inRun := by
  have hi := inv_reachable h
  have hs := hi.inPub_settings hpc
  cases hv : s.settings with
  | none => simp [hv] at hs
  | some v =>
    have hp := hi.pub_def
    refine ⟨v, { s with pc := .inRun, published := s.published ++ [v] }, rfl, ?_, ?_, rfl, ?_, rfl⟩
    · simp [step, hpc, hv]
    · simp [res, hv]
    · simp [hp, hpc, hv]

/-- an update that finds nothing posted publishes nothing (it changes nothing at all) -/
theorem update_false_publishes_nothing {s s' : State} (hs : step s .updCheck = some s') (hf : res s .updCheck = .bool false) :
    s' = s := by
  simp only [res, Res.bool.injEq] at hf
  simp only [step] at hs
  split at hs
  · simp [hf] at hs; exact hs.symm
  · contradiction

/-! ## status -/

/-- `get_status()` returns what the task body wrote to `self.status` last -/
theorem get_status_last_written {v0 : Option Nat} {tr : List Act} {s : State} (h : exec (initS v0) tr = some s) :
    res s .getStatus = .val (lastStatus tr) := by
  have := exec_status h
  simp only [initS, init] at this
  simp only [res, lastStatus, this]

/-! ## the compositions `__exit__` and `release_rpc_object` -/

/-- the `join()` of a composition is always preceded by the effect of its `stop()`: the stop flag is raised, or the
task was stopped before start (so that join cannot wait for a task that was never told to stop) -/
theorem composition_joins_after_stop {s : State} {c : Comp} (h : Reachable s) (hc : s.rpc = .compJoin c) :
    s.stopReq = true ∨ s.stopFirst = true := by
  have hi := inv_reachable h
  rcases hi.compJoin_stop c hc with h1 | h1
  · exact Or.inl h1
  · exact Or.inr (hi.stopped_sf h1)

/-- after `release_rpc_object` (removal of the task from the context, joined before or not) the runner is gone for
good, the thread has ended, `_joined` holds and `run()` ran at most once -/
theorem removed_means_over {s : State} (h : Reachable s) (hr : s.phase = .removed) :
    s.pc = .ended ∧ s.joined = true ∧ s.runs ≤ 1 ∧ s.rpc = .idle ∧
    ∀ tr s', exec s tr = some s' → s'.phase = .removed ∧ s'.runs = s.runs := by
  have hi := inv_reachable h
  have hj := hi.removed_joined hr
  have hidle : s.rpc = .idle := by
    cases hrpc : s.rpc <;> first | rfl | (have := hi.rpc_up (by simp [hrpc]); simp_all)
  refine ⟨hi.joined_ended hj, hj, run_at_most_once h, hidle, ?_⟩
  intro tr s' he
  obtain ⟨_, hcount⟩ := exec_no_run_after_joined h hj he
  have hruns := exec_runs he
  refine ⟨?_, by omega⟩
  exact exec_removed_stable he hr

/-- `__exit__` returns (or raises) only by way of its join: thread ended, task over — same guarantee as `join()` -/
theorem exit_returns_only_when_finished {s s' : State} (h : Reachable s) (hc : s.rpc = .joinMid .exit)
    (hj : step s .joinSet = some s') :
    s.pc = .ended ∧ s'.rpc = .idle ∧ s'.phase = .up ∧ s'.joined = true := by
  have hi := inv_reachable h
  obtain ⟨s2, h2, hjd, hidle, hph⟩ := join_completes h hc
  rw [hj] at h2
  simp only [Option.some.injEq] at h2
  subst h2
  exact ⟨hi.joinMid_ended _ hc, hidle, by simpa using hph, hjd⟩

example : ∃ s, exec init [.initOk, .ctorWait, .ctorGet, .startCheck, .startKick, .wake, .runEnter, .exitBegin,
    .stopRegion, .stopSet, .runEnd .stopExc, .mark, .threadEnd, .join, .joinSet, .releaseBegin] = some s ∧
    s.phase = .removed ∧ s.runs = 1 := ⟨_, rfl, by decide⟩
example : ∃ s, exec init [.initOk, .ctorWait, .ctorGet, .releaseBegin, .stopRegion, .wake, .threadEnd, .join, .joinSet] = some s ∧
    s.phase = .removed ∧ s.runs = 0 ∧ s.joined = true := ⟨_, rfl, by decide⟩
example : postedSince [.setSettings 1, .updCheck, .updPop, .updCheck] = false ∧
    postedSince [.setSettings 1, .updCheck, .updPop, .setSettings 2] = true ∧
    lastPost [.setSettings 1, .setSettings 2, .updPop] = some 2 := by decide

/-! ## the task body is unconstrained: every theorem above covers every `run()`, in particular `QMI_LoopTask.run` -/

/-- inside `run()` the body may at any moment test for new settings, write its status, ask its own runner to stop
(`QMI_LoopTask`, policy TERMINATE) or end in any of the three ways: the lifecycle model constrains the body in no
way, so what is proved above holds for every task class -/
theorem body_unconstrained {s : State} (h : s.pc = .inRun) :
    (step s .updCheck).isSome = true ∧ (∀ v, (step s (.setStatus v)).isSome = true) ∧
    (step s .extStopRegion).isSome = true ∧ (∀ o, (step s (.runEnd o)).isSome = true) := by
  refine ⟨?_, ?_, ?_, ?_⟩
  · simp only [step, h, if_true]; cases s.slot.isSome <;> rfl
  · intro v; simp [step, h]
  · simp only [step, h]; cases s.st <;> simp
  · intro o; simp [step, h]

/-- a stop the running task asks for itself has exactly the effect of a stop request: the flag is raised (state
RUNNING is left to the thread's own final region) -/
theorem self_stop_raises_flag {s s1 : State} (h : Reachable s) (hpc : s.pc = .inRun)
    (h1 : step s .extStopRegion = some s1) :
    s1.st = .running ∧ res s .extStopRegion = .pending ∧
    ∃ s2, step s1 .extStopSet = some s2 ∧ s2.stopReq = true ∧ s2.st = .running := by
  have hi := inv_reachable h
  have hst := hi.inside (Or.inr (Or.inl hpc))
  simp only [step, hst, hpc] at h1
  simp only [reduceCtorEq, if_false, Option.some.injEq] at h1
  subst h1
  refine ⟨rfl, by simp [res, hst, hpc], ?_⟩
  refine ⟨_, by simp only [step, Nat.zero_lt_succ, if_true]; rfl, rfl, rfl⟩

/-! ## `QMI_LoopTask.run` (model: `Model/LoopTask.lean`) — all histories of the loop, any number of iterations -/
open QmiModel.LoopTask

/-- `loop_finalize` runs exactly once on every exit path of `run()` once `loop_prepare` has returned — stop
request seen at the top of the loop, task-stop exception out of `sleep` or of any hook, any other exception out of
any hook, policy TERMINATE — and not at all if `loop_prepare` itself raised -/
theorem loop_finalize_exactly_once {p : Nat} {pol : Policy} {tr : List LAct} {s : LState} {o : Outcome}
    (h : lexec (linit p pol) tr = some s) (hd : s.lpc = .done o) :
    s.finalizes = (if s.prepared then 1 else 0) := by
  have hi := linv_exec (linv_init p pol) h
  have := hi.fin_def
  simp [hd, LPc.isDone] at this
  simpa using this

/-- … and never more than once, and never before `loop_prepare` returned, in any state of any history -/
theorem loop_finalize_at_most_once {p : Nat} {pol : Policy} {tr : List LAct} {s : LState}
    (h : lexec (linit p pol) tr = some s) :
    s.finalizes ≤ 1 ∧ (0 < s.finalizes → s.prepared = true ∧ s.lpc.isDone = true) := by
  have hi := linv_exec (linv_init p pol) h
  have := hi.fin_def
  split at this <;> simp_all

/-- settings are picked up at iteration boundaries only: whenever `loop_iteration` is about to be called, exactly
one `update_settings` call has been made for this iteration, and `process_new_settings` has been called once for
every update that returned True (so the iteration never runs on adopted-but-unprocessed settings) -/
theorem loop_settings_at_iteration_boundary {p : Nat} {pol : Policy} {tr : List LAct} {s : LState}
    (h : lexec (linit p pol) tr = some s) (hi' : s.lpc = .iter) :
    s.nUpd = s.nIter + 1 ∧ s.nProc = s.updTrue := by
  have hi := linv_exec (linv_init p pol) h
  exact ⟨hi.early_eq (by simp [hi', LPc.early]), hi.proc_eq (by simp [hi'])⟩

/-- between iterations the counts agree: one `update_settings` per `loop_iteration`, one `process_new_settings`
per successful update, one publication of `sig_status_updated` per `update_status` that returned True -/
theorem loop_counts_at_top {p : Nat} {pol : Policy} {tr : List LAct} {s : LState}
    (h : lexec (linit p pol) tr = some s) (ht : s.lpc = .top) :
    s.nUpd = s.nIter ∧ s.nProc = s.updTrue ∧ s.nPubStatus = s.statusTrue := by
  have hi := linv_exec (linv_init p pol) h
  exact ⟨hi.late_eq (by simp [ht, LPc.late]), hi.proc_eq (by simp [ht]), hi.pub_eq (by simp [ht])⟩

/-- the task-stop exception never leaves the try block (it is swallowed: `loop_finalize` is entered with outcome
"returned"), any other exception does, and then `loop_finalize` still runs first -/
theorem loop_stop_exception_swallowed {p : Nat} {pol : Policy} {tr : List LAct} {s : LState} {o : Outcome}
    (h : lexec (linit p pol) tr = some s) (hf : s.lpc = .finalize o) :
    o ≠ .stopExc ∧ (o = .otherExc ↔ s.tryOther = true) ∧ s.finalizes = 0 ∧ s.prepared = true := by
  have hi := linv_exec (linv_init p pol) h
  refine ⟨?_, hi.fin_other o hf, ?_, ?_⟩
  · intro ho; subst ho; exact hi.fin_nostop hf
  · have := hi.fin_def; simp [hf, LPc.isDone] at this; exact this
  · cases hp : s.prepared with
    | true => rfl
    | false => have := hi.unprepared hp; simp [hf, LPc.isDone] at this

/-- how `run()` ends after `loop_finalize`: with finalize's own exception if it raised, else with what left the try
block -/
theorem loop_outcome_after_finalize {s s' : LState} {o r : Outcome} (hf : s.lpc = .finalize o)
    (hs : lstep s (.hook .finalize r) = some s') :
    s'.lpc = .done (if r = .ret then o else r) ∧ s'.finalizes = s.finalizes + 1 := by
  simp only [lstep, hf] at hs
  cases r <;> simp at hs <;> subst hs <;> simp

/-- a stop request seen at the top of the loop ends it (then `loop_finalize`), nothing else of the iteration runs -/
theorem loop_exits_when_stop_seen {s s' : LState} (hs : lstep s (.testStop true) = some s') :
    s'.lpc = .finalize .ret ∧ s'.nUpd = s.nUpd ∧ s'.nIter = s.nIter := by
  simp only [lstep] at hs
  split at hs
  · simp at hs; subst hs; simp
  · contradiction

/-- policy SKIP: after a missed period the next deadline is the first grid point after now — strictly in the
future, at most one period away, and still on the grid `next_time + k·period` -/
theorem skip_lands_on_next_grid_point {period next now : Nat} (hp : 0 < period) (hmiss : next ≤ now) :
    now < next + period * periodsMissed period next now ∧
    next + period * periodsMissed period next now ≤ now + period ∧
    (next + period * periodsMissed period next now - next) % period = 0 := by
  unfold periodsMissed
  have h1 := Nat.div_add_mod (period + (now - next)) period
  have h2 := Nat.mod_lt (period + (now - next)) hp
  refine ⟨by omega, by omega, ?_⟩
  rw [Nat.add_sub_cancel_left]
  exact Nat.mul_mod_right _ _

/-- the three policies at a missed period, as the model takes them (policy table) -/
theorem missed_period_policy {s : LState} {now : Nat} (ht : s.lpc = .timing) (hm : s.next ≤ now) :
    lstep s (.clock now) = some (match s.policy with
      | .immediate => { s with lpc := .immClock }
      | .skip      => { s with lpc := .top, next := s.next + s.period * periodsMissed s.period s.next now }
      | .terminate => { s with lpc := .selfStop }) := by
  have : ¬ now < s.next := by omega
  simp only [lstep, ht, this, if_false]
  cases s.policy <;> rfl

/-- one full iteration with new settings, a missed period under SKIP, then a stop request: finalize ran once -/
example : ∃ s, lexec (linit 4 .skip) [.hook .prepare .ret, .clock 100, .testStop false, .updDone true,
    .hook .process .ret, .hook .iteration .ret, .statusDone true, .hook .pubStatus .ret, .hook .pubSignals .ret,
    .clock 113, .testStop true, .hook .finalize .ret] = some s ∧ s.lpc = .done .ret ∧ s.finalizes = 1 ∧ s.next = 116 :=
  ⟨_, rfl, by decide⟩
/-- `loop_iteration` raises: finalize runs, the exception propagates -/
example : ∃ s, lexec (linit 4 .immediate) [.hook .prepare .ret, .clock 100, .testStop false, .updDone false,
    .hook .iteration .otherExc, .hook .finalize .ret] = some s ∧ s.lpc = .done .otherExc ∧ s.finalizes = 1 :=
  ⟨_, rfl, by decide⟩
/-- `loop_prepare` raises: no finalize -/
example : ∃ s, lexec (linit 4 .immediate) [.hook .prepare .otherExc] = some s ∧ s.lpc = .done .otherExc ∧
    s.finalizes = 0 ∧ s.prepared = false := ⟨_, rfl, by decide⟩

end QmiModel.Task
