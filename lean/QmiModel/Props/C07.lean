import QmiModel.Lemmas.C07Order
import QmiModel.Lemmas.C07NetFifo
/-!
# C07 — published signals reach every subscribed receiver once, in order

Property theorems only, over `QmiModel.PubSub.step` (all interleavings, unbounded numbers of contexts, publishers,
signal names, receivers, threads and connections).
-/
namespace QmiModel.PubSub

/-! ## Keys do not collide -/

private theorem split_at_dot {a a' x y : List Char} (ha : '.' ∉ a) (ha' : '.' ∉ a')
    (h : a ++ '.' :: x = a' ++ '.' :: y) : a = a' ∧ x = y := by
  induction a generalizing a' with
  | nil =>
    cases a' with
    | nil => simpa using h
    | cons c cs =>
      simp only [List.nil_append, List.cons_append, List.cons.injEq] at h
      exact absurd (h.1 ▸ List.mem_cons_self) ha'
  | cons c cs ih =>
    cases a' with
    | nil =>
      simp only [List.nil_append, List.cons_append, List.cons.injEq] at h
      exact absurd (h.1 ▸ List.mem_cons_self) ha
    | cons c' cs' =>
      simp only [List.cons_append, List.cons.injEq] at h
      have := ih (fun m => ha (List.mem_cons_of_mem _ m)) (fun m => ha' (List.mem_cons_of_mem _ m)) h.2
      exact ⟨by rw [h.1, this.1], this.2⟩

theorem validName_no_dot {n : List Char} (h : validName n = true) : '.' ∉ n := by
  intro hm
  simp only [validName, Bool.and_eq_true, List.all_eq_true] at h
  have hb : '.' ∈ nameBody n := by
    unfold nameBody
    split
    · rename_i hl
      -- the last character is the newline, so the dot is among the others
      have hne : n ≠ [] := by intro e; subst e; cases hm
      have hsplit := List.dropLast_concat_getLast hne
      have hlast : n.getLast hne = '\n' := by
        have := List.getLast?_eq_some_getLast hne
        rw [this] at hl; exact Option.some.inj hl
      rw [← hsplit, List.mem_append] at hm
      rcases hm with h1 | h1
      · exact h1
      · rw [hlast, List.mem_singleton] at h1; exact absurd h1 (by decide)
    · exact hm
  have := h.2 '.' hb
  revert this
  decide

/-- `"<ctx>.<pub>.<sig>"` determines its three parts when context and publisher name contain no `'.'` -/
theorem key_injective {c p s c' p' s' : List Char} (hc : '.' ∉ c) (hc' : '.' ∉ c') (hp : '.' ∉ p) (hp' : '.' ∉ p')
    (h : fullName c p s = fullName c' p' s') : c = c' ∧ p = p' ∧ s = s' := by
  obtain ⟨h1, h2⟩ := split_at_dot hc hc' h
  obtain ⟨h3, h4⟩ := split_at_dot hp hp' h2
  exact ⟨h1, h3, h4⟩

/-- same for the remote table `"<pub>.<sig>"` -/
theorem remote_key_injective {p s p' s' : List Char} (hp : '.' ∉ p) (hp' : '.' ∉ p')
    (h : remoteName p s = remoteName p' s') : p = p' ∧ s = s' := split_at_dot hp hp' h

/-- the prefix test of `handle_peer_context_removed` (`startswith(context + ".")`) selects exactly the keys of that
context -/
theorem prefix_iff_same_context {c c' p s : List Char} (hc : '.' ∉ c) (hc' : '.' ∉ c') :
    (c ++ ['.']) <+: fullName c' p s ↔ c = c' := by
  constructor
  · rintro ⟨t, ht⟩
    have : c ++ '.' :: t = c' ++ '.' :: (p ++ '.' :: s) := by simpa [fullName] using ht
    exact (split_at_dot hc hc' this).1
  · rintro rfl
    exact ⟨p ++ '.' :: s, by simp [fullName]⟩

example : validName "pub_1".toList = true ∧ validName "a.b".toList = false ∧ validName "ab\n".toList = true ∧
    validName "a\nb".toList = false ∧ validName "\n".toList = false := by decide


/-! ## Snapshot semantics: delivered exactly once iff in the snapshot

`State.snaps` records every snapshot `_deliver_local` takes (context, key, publication, receiver set read under the
manager lock); every queued item carries the index of the snapshot it came from. -/

/-- For every snapshot ever taken, in every reachable state: (1) no receiver holds it twice; (2) whoever holds an item
of it is a member of the snapshot, in the snapshot's context, and the item is labelled with the snapshot's key
(publisher context, publisher, signal name) and publication — never another publisher or name; (3) every member either
has been delivered to, or is still on the list of the thread working through the snapshot. -/
theorem delivered_iff_in_snapshot {s : State} (h : Reach s) {sid : Nat} {sn : Snap} (hs : s.snaps[sid]? = some sn) :
    (∀ c r, (((s.ctx c).got r).filter (fun it => it.sid = sid)).length ≤ 1) ∧
    (∀ c r it, it ∈ (s.ctx c).got r → it.sid = sid → c = sn.c ∧ r ∈ sn.rs ∧ it.k = sn.k ∧ it.p = sn.p) ∧
    (∀ r ∈ sn.rs, (∃ it ∈ (s.ctx sn.c).got r, it.sid = sid) ∨
        (∃ th rs, th.ctx = sn.c ∧ headDlv (s.prog th) = some (sid, rs, sn.k, sn.p) ∧ r ∈ rs)) := by
  have inv := dlvInv_reach h
  refine ⟨fun c r => filter_length_le_one_of_nodup_map Item.sid sid (inv.got_once c r), ?_, inv.all sid sn hs⟩
  intro c r it hit he
  obtain ⟨rs0, tk, h1, h2⟩ := inv.got_snap c r it hit
  rw [he, hs] at h1
  simp only [Option.some.injEq] at h1
  subst h1
  exact ⟨rfl, h2, rfl, rfl⟩

/-- once the delivering thread is through (no thread works on the snapshot any more): a receiver holds the
publication — exactly once — iff it was in the snapshot -/
theorem delivered_iff_in_snapshot_done {s : State} (h : Reach s) {sid : Nat} {sn : Snap} (hs : s.snaps[sid]? = some sn)
    (hdone : ∀ th x, headDlv (s.prog th) = some x → x.1 ≠ sid) (r : Rcv) :
    (((s.ctx sn.c).got r).filter (fun it => it.sid = sid)).length = (if r ∈ sn.rs then 1 else 0) := by
  obtain ⟨h1, h2, h3⟩ := delivered_iff_in_snapshot h hs
  split
  · rename_i hr
    rcases h3 r hr with ⟨it, hi, he⟩ | ⟨th, rs, -, hh, -⟩
    · have : 0 < (((s.ctx sn.c).got r).filter (fun it => it.sid = sid)).length :=
        List.length_pos_of_mem (List.mem_filter.2 ⟨hi, by simpa using he⟩)
      have := h1 sn.c r
      omega
    · exact absurd rfl (hdone th _ hh)
  · rename_i hr
    rw [List.length_eq_zero_iff, List.filter_eq_nil_iff]
    intro it hi
    simp only [decide_eq_true_eq]
    intro he
    exact hr (h2 _ _ it hi he).2.1

/-- two threads never deliver from the same snapshot, and a thread delivers from one snapshot at a time -/
theorem one_thread_per_snapshot {s : State} (h : Reach s) {th th' : Th} {sid : Nat} {rs rs' : List Rcv} {k k' : Key} {p p' : Pub}
    (h1 : headDlv (s.prog th) = some (sid, rs, k, p)) (h2 : headDlv (s.prog th') = some (sid, rs', k', p')) : th = th' :=
  (dlvInv_reach h).uniq _ _ _ _ _ _ _ _ _ h1 h2

/-- non-vacuity: a reachable state with one local subscriber (receiver 7), one snapshot containing it and one delivery -/
def exLocalDelivery : List Act := [
  .begin 0 0 (.makeObj 0), .micro (.user 0 0) 0 0, .micro (.user 0 0) 0 0, .micro (.user 0 0) 0 0,
  .begin 0 0 (.subscribe 0 0 0 7), .micro (.user 0 0) 0 0, .micro (.user 0 0) 0 0, .micro (.user 0 0) 0 0, .micro (.user 0 0) 0 0,
  .begin 0 1 (.publish 0 0), .micro (.user 0 1) 0 0, .micro (.user 0 1) 7 0]

example : ((run State.init exLocalDelivery).map fun s =>
    (s.snaps.map (fun sn => (sn.c, sn.rs)), ((s.ctx 0).got 7).map (fun it => (it.sid, it.p.tid, it.p.seq)))) =
    some ([(0, [7])], [(0, 1, 0)]) := by decide


/-! ## Nothing is delivered after an unsubscribe has taken effect

`Quiet s c k r N` (Lemmas/C07Unsub): no `subscribe(k, r)` call is in progress in context `c`, receiver `r` is neither
in the table entry of `k` nor waiting in its pending request, and every delivery to `r` for `k` that some thread still
has on its list belongs to a snapshot with index `< N ≤ |snaps|`. -/

/-- the step in which `unsubscribe(k, r)` takes effect — made while no `subscribe(k, r)` is in progress — establishes
`Quiet` with `N` = number of snapshots taken so far -/
theorem unsubscribe_takes_effect {s s' : State} {th : Th} {ch ch2 : Nat} {o : Out} {k : Key} {r : Rcv} {rest : List MOp}
    (hreach : Reach s)
    (hp : s.prog th = .removeLocal k r :: rest ∨ s.prog th = .unsubRemote k r :: rest)
    (htags : ∀ th', th'.ctx = th.ctx → progTag (s.prog th') ≠ .sub k r)
    (hpend : ∀ pid po, (s.ctx th.ctx).byKey k = some pid → (s.ctx th.ctx).pobj pid = some po → r ∉ po.rcvs)
    (hs : step s (.micro th ch ch2) = some (s', o)) : Quiet s' th.ctx k r s'.snaps.length :=
  quiet_of_unsub hreach hp htags hpend hs

/-- `Quiet` is preserved by every action except the begin of a `subscribe(k, r)` call in that context -/
theorem quiet_preserved {s s' : State} {a : Act} {o : Out} {c : Ctx} {k : Key} {r : Rcv} {N : Nat}
    (hreach : Reach s) (h : Quiet s c k r N) (hs : step s a = some (s', o))
    (hno : ∀ t pc ob sg, a = .begin c t (.subscribe pc ob sg r) → (⟨.name pc, ob, sg⟩ : Key) ≠ k) : Quiet s' c k r N :=
  quiet_step hreach h hs hno

/-- **no delivery after unsubscribe**: once the unsubscribe of `r` from `k` has taken effect (`Quiet … N`), along any
continuation of the execution in which `subscribe(k, r)` is not called again, every item labelled `k` that reaches
`r`'s queue comes from a snapshot with index `< N`, i.e. one that `_deliver_local` took *before* the unsubscribe took
effect.  A publication that begins after that moment takes its snapshots after it (snapshots are only appended, see
`snaps_append_only`), so it is never delivered to `r` — whatever the interleaving, locally and through the network. -/
theorem no_delivery_after_unsubscribe {c : Ctx} {k : Key} {r : Rcv} {N : Nat} :
    ∀ (as : List Act) {s s' : State}, Reach s → Quiet s c k r N → run s as = some s' →
      (∀ t pc ob sg, .begin c t (.subscribe pc ob sg r) ∈ as → (⟨.name pc, ob, sg⟩ : Key) ≠ k) →
      Quiet s' c k r N ∧ ∀ it ∈ (s'.ctx c).got r, it.k = k → it ∈ (s.ctx c).got r ∨ it.sid < N := by
  intro as
  induction as with
  | nil =>
    intro s s' _ hq hr _
    simp only [run, Option.some.injEq] at hr
    subst hr
    exact ⟨hq, fun it hi _ => Or.inl hi⟩
  | cons a as ih =>
    intro s s' hreach hq hr hno
    simp only [run] at hr
    split at hr
    · rename_i s1 o heq
      have hq1 := quiet_step hreach hq heq (fun t pc ob sg e => hno t pc ob sg (e ▸ List.mem_cons_self))
      obtain ⟨hq', hgot⟩ := ih (Reach.step hreach heq) hq1 hr (fun t pc ob sg hm => hno t pc ob sg (List.mem_cons_of_mem _ hm))
      refine ⟨hq', fun it hi hk => ?_⟩
      rcases hgot it hi hk with h1 | h1
      · rcases got_step hreach heq c r it h1 with h2 | ⟨th, rs, hc, hx, hm⟩
        · exact Or.inl h2
        · right
          rw [hk] at hx
          exact hq.dlv th it.sid rs it.p hc hx hm
      · exact Or.inr h1
    · simp at hr

/-- snapshots are only ever appended: a snapshot taken later has a larger index -/
theorem snaps_append_only {s s' : State} {a : Act} {o : Out} (hreach : Reach s) (hs : step s a = some (s', o)) :
    s.snaps.length ≤ s'.snaps.length ∧ ∀ (i : Nat) sn, s.snaps[i]? = some sn → s'.snaps[i]? = some sn := by
  by_cases ha : ∃ th ch ch2, a = .micro th ch ch2
  · obtain ⟨th, ch, ch2, rfl⟩ := ha
    obtain ⟨-, op, rest, hp, hm⟩ := step_micro_inv hs
    have hrest : noDlv rest := by have := (dlvInv_reach hreach).tail th; rw [hp] at this; exact this
    by_cases hl : op.isSnapLocal = true
    · cases op <;> simp only [MOp.isSnapLocal] at hl <;> try contradiction
      simp only [microStep, Option.some.injEq, Prod.mk.injEq] at hm
      obtain ⟨rfl, -⟩ := hm
      exact ⟨by simp, fun i sn h => getElem?_append_of_some h⟩
    · by_cases hd : op.isDeliver = true
      · cases op <;> simp only [MOp.isDeliver] at hd <;> try contradiction
        simp only [microStep] at hm
        split at hm
        · simp only [Option.some.injEq, Prod.mk.injEq] at hm
          obtain ⟨rfl, -⟩ := hm
          exact ⟨by simp, fun i sn h => by simpa using h⟩
        · simp at hm
      · have hd' : op.isDeliver = false := by simpa using hd
        have hl' : op.isSnapLocal = false := by simpa using hl
        obtain ⟨h1, -, -⟩ := microStep_other hd' hl' hrest hm
        rw [h1]; exact ⟨Nat.le_refl _, fun i sn h => h⟩
  · have ha' : ∀ th ch ch2, a ≠ .micro th ch ch2 := fun th ch ch2 e => ha ⟨th, ch, ch2, e⟩
    have : s'.snaps = s.snaps := step_nonmicro_snaps ha' hs
    rw [this]; exact ⟨Nat.le_refl _, fun i sn h => h⟩


/-! ### non-vacuity of the unsubscribe theorems: a reachable state in which receiver 7 is subscribed, has received one
publication, and thread (0,0) is about to execute the effective step of `unsubscribe`; the hypotheses of
`unsubscribe_takes_effect` hold there, hence `Quiet` is reachable. -/

def exBeforeUnsub : List Act := exLocalDelivery ++ [.micro (.user 0 1) 0 0, .micro (.user 0 1) 0 0, .begin 0 0 (.unsubscribe 0 0 0 7)]

private def exKey : Key := ⟨.name 0, 0, 0⟩

example : ∃ s s' o, Reach s ∧ step s (.micro (.user 0 0) 0 0) = some (s', o) ∧ Quiet s' 0 exKey 7 s'.snaps.length ∧
    ((s.ctx 0).got 7).length = 1 ∧ (s'.ctx 0).lsubs exKey = [] := by
  have hrun : (run State.init exBeforeUnsub).isSome = true := by decide
  obtain ⟨s, hs⟩ := Option.isSome_iff_exists.1 hrun
  have hreach : Reach s := reach_run Reach.init hs
  have hstep : (step s (.micro (.user 0 0) 0 0)).isSome = true := by
    have : ((run State.init exBeforeUnsub).bind fun s => step s (.micro (.user 0 0) 0 0)).isSome = true := by decide
    rw [hs] at this; simpa using this
  obtain ⟨⟨s', o⟩, hs'⟩ := Option.isSome_iff_exists.1 hstep
  have hp0 : s.prog (.user 0 0) = [.removeLocal exKey 7, .ret (.unsub exKey 7)] := by
    have : (run State.init exBeforeUnsub).map (fun s => s.prog (.user 0 0)) = some [.removeLocal exKey 7, .ret (.unsub exKey 7)] := by decide
    rw [hs] at this; simpa using this
  have hp1 : s.prog (.user 0 1) = [] := by
    have : (run State.init exBeforeUnsub).map (fun s => s.prog (.user 0 1)) = some [] := by decide
    rw [hs] at this; simpa using this
  have hother : ∀ th, th ≠ .user 0 0 → th ≠ .user 0 1 → s.prog th = [] := by
    intro th h0 h1
    have := prog_run_other exBeforeUnsub th hs (by
      intro a ha
      simp only [exBeforeUnsub, exLocalDelivery, List.cons_append, List.nil_append, List.mem_cons, List.not_mem_nil, or_false] at ha
      rcases ha with rfl | rfl | rfl | rfl | rfl | rfl | rfl | rfl | rfl | rfl | rfl | rfl | rfl | rfl | rfl <;>
        simp [Act.isNet, Act.thread?, Ne.symm h0, Ne.symm h1])
    rw [this]; rfl
  have hq := unsubscribe_takes_effect (k := exKey) (r := 7) (rest := [.ret (.unsub exKey 7)]) hreach (Or.inl hp0)
    (by
      intro th' _
      by_cases e0 : th' = .user 0 0
      · rw [e0, hp0]; decide
      · by_cases e1 : th' = .user 0 1
        · rw [e1, hp1]; decide
        · rw [hother th' e0 e1]; decide)
    (by
      have : (run State.init exBeforeUnsub).map (fun s => (s.ctx 0).byKey exKey) = some none := by decide
      rw [hs] at this
      simp only [Option.map_some, Option.some.injEq] at this
      intro pid po h1; simp only [Th.ctx] at h1; rw [this] at h1; simp at h1)
    hs'
  refine ⟨s, s', o, hreach, hs', hq, ?_, ?_⟩
  · have : (run State.init exBeforeUnsub).map (fun s => ((s.ctx 0).got 7).length) = some 1 := by decide
    rw [hs] at this; simpa using this
  · have : ((run State.init exBeforeUnsub).bind fun s => (step s (.micro (.user 0 0) 0 0)).map fun x => (x.1.ctx 0).lsubs exKey) = some [] := by decide
    rw [hs] at this
    simp only [Option.bind_some, hs', Option.map_some, Option.some.injEq] at this
    exact this


/-! ## Order per publishing thread

Every snapshot records the thread that took it (`Snap.taker`): the publishing thread itself for receivers in the
publisher's own context, the socket thread of the receiving context for publications that arrive over the network. -/

/-- every thread works through its snapshots strictly one after the other: in every queue, items that stem from
snapshots taken by the same thread appear in the order in which those snapshots were taken -/
theorem deliveries_in_snapshot_order {s : State} (h : Reach s) (c : Ctx) (r : Rcv) :
    ((s.ctx c).got r).Pairwise (fun a b => takerOf s a.sid = takerOf s b.sid → a.sid < b.sid) :=
  (ordInv_reach h).got c r

/-- a publishing thread takes the snapshots of its own publications, each publication once and in publication order -/
theorem own_snapshots_in_publication_order {s : State} (h : Reach s) {i j : Nat} {si sj : Snap} {c : Ctx} {t : Tid}
    (hij : i < j) (hi : s.snaps[i]? = some si) (hj : s.snaps[j]? = some sj)
    (hti : si.taker = .user c t) (htj : sj.taker = .user c t) :
    si.p.c = c ∧ si.p.tid = t ∧ sj.p.c = c ∧ sj.p.tid = t ∧ si.p.seq < sj.p.seq := by
  have inv := seqInv_reach h
  obtain ⟨a1, a2, -⟩ := inv.own i si c t hi hti
  obtain ⟨b1, b2, -⟩ := inv.own j sj c t hj htj
  exact ⟨a1, a2, b1, b2, inv.sorted i j si sj c t hij hi hj hti htj⟩

/-- **order, local layer (full)**: what a publishing thread delivers itself — i.e. everything a receiver in the
publisher's own context gets from that thread — is queued in publication order, each publication at most once -/
theorem per_publisher_thread_order_local {s : State} (h : Reach s) (c : Ctx) (r : Rcv) :
    ((s.ctx c).got r).Pairwise (fun a b => ∀ t, takerOf s a.sid = some (.user c t) → takerOf s b.sid = some (.user c t) →
        a.p.c = c ∧ a.p.tid = t ∧ b.p.c = c ∧ b.p.tid = t ∧ a.p.seq < b.p.seq) := by
  have hd := dlvInv_reach h
  refine (deliveries_in_snapshot_order h c r).imp_of_mem ?_
  intro a b ha hb hab t hta htb
  have hlt := hab (by rw [hta, htb])
  obtain ⟨_, tka, ha1, -⟩ := hd.got_snap c r a ha
  obtain ⟨_, tkb, hb1, -⟩ := hd.got_snap c r b hb
  simp only [takerOf, ha1, hb1, Option.map_some, Option.some.injEq] at hta htb
  simpa using own_snapshots_in_publication_order h hlt ha1 hb1 hta htb

/-- what the order of remote deliveries needs from the network: a context never receives its own publications back, and
the snapshots a socket thread takes for one publishing thread are in publication order, each publication at most once
(event-loop queue → connection → socket thread are FIFO, also across disconnect / reconnect).  Proved for every reachable
state as `network_fifo` below. -/
structure NetworkFifo (s : State) : Prop where
  foreign : ∀ (j : Nat) sn c, s.snaps[j]? = some sn → sn.taker = .sock c → sn.p.c ≠ c
  sorted : ∀ (i j : Nat) si sj c, i < j → s.snaps[i]? = some si → s.snaps[j]? = some sj →
      si.taker = .sock c → sj.taker = .sock c → si.p.c = sj.p.c → si.p.tid = sj.p.tid → si.p.seq < sj.p.seq

/-- conditional form (kept as the interface between the thread-local layer and the network layer) -/
theorem per_publisher_thread_order_partial {s : State} (h : Reach s) (hnet : NetworkFifo s) (c : Ctx) (r : Rcv) :
    ((s.ctx c).got r).Pairwise (fun a b => a.p.c = b.p.c → a.p.tid = b.p.tid → a.p.seq < b.p.seq) := by
  have hd := dlvInv_reach h
  have ho := ordInv_reach h
  have hq := seqInv_reach h
  refine (deliveries_in_snapshot_order h c r).imp_of_mem ?_
  intro a b ha hb hab hc ht
  obtain ⟨rsa, tka, ha1, -⟩ := hd.got_snap c r a ha
  obtain ⟨rsb, tkb, hb1, -⟩ := hd.got_snap c r b hb
  have hca := ho.taker_ctx _ _ ha1
  have hcb := ho.taker_ctx _ _ hb1
  simp only [takerOf, ha1, hb1, Option.map_some, Option.some.injEq] at hab
  simp only at hca hcb
  cases tka with
  | user ca ta =>
    simp only [Th.ctx] at hca; subst hca
    obtain ⟨a1, a2, -⟩ := hq.own _ _ _ _ ha1 rfl
    cases tkb with
    | user cb tb =>
      simp only [Th.ctx] at hcb; subst hcb
      obtain ⟨b1, b2, -⟩ := hq.own _ _ _ _ hb1 rfl
      simp only at a1 a2 b1 b2
      have : ta = tb := by rw [← a2, ← b2]; exact ht
      subst this
      exact hq.sorted _ _ _ _ _ _ (hab rfl) ha1 hb1 rfl rfl
    | sock cb =>
      simp only [Th.ctx] at hcb; subst hcb
      have := hnet.foreign _ _ _ hb1 rfl
      simp only at a1 this
      exact absurd (hc ▸ a1) this
  | sock ca =>
    simp only [Th.ctx] at hca; subst hca
    cases tkb with
    | user cb tb =>
      simp only [Th.ctx] at hcb; subst hcb
      obtain ⟨b1, -, -⟩ := hq.own _ _ _ _ hb1 rfl
      have := hnet.foreign _ _ _ ha1 rfl
      simp only at b1 this
      exact absurd (hc.symm ▸ b1) this
    | sock cb =>
      simp only [Th.ctx] at hcb; subst hcb
      exact hnet.sorted _ _ _ _ _ (hab rfl) ha1 hb1 rfl rfl hc ht

/-- **the network pipeline is FIFO per publishing thread** (Lemmas/C07NetBase, C07NetReg, C07NetFlow, C07NetFifo): in
every reachable state the publications a socket thread has taken off its connections stem from other contexts, and those
of one publishing thread were taken in publication order, each once.  The proof carries the invariant `FifoInv` through
every action: signals travel server → client only (`TypInv`); an open connection end is registered or about to be closed
by its own socket thread (`RegInv`), so a client has at most one live connection per server and a stale inbox is never
read again; a publication in `snapRemote` is newer than everything in flight (`fresh`); `enq` / `cb` / `arrive` move the
head of one stage to the tail of the next. -/
theorem network_fifo {s : State} (h : Reach s) : NetworkFifo s := by
  have hf := fifoInv_reach h
  constructor
  · intro j sn c hj ht
    refine hf.foreign c sn.p ?_
    simp only [consumed, List.mem_append, List.mem_filterMap]
    exact Or.inl ⟨sn, List.mem_of_getElem? hj, by simp [snapPub, ht]⟩
  · intro i j si sj c hij hi hj hti htj hc htid
    have hsub : [si, sj].Sublist s.snaps := pair_sublist_of_getElem? hij hi hj
    have h2 : ([si, sj].filterMap (snapPub c)).Sublist (consumed s c) :=
      (hsub.filterMap _).trans (List.sublist_append_left _ _)
    have h3 := (hf.cons c).sublist h2
    simp only [List.filterMap_cons, List.filterMap_nil, snapPub, hti, htj, if_true, List.pairwise_cons, List.mem_singleton,
      forall_eq] at h3
    exact h3.1 hc htid

/-- **order, all receivers (full strength)**: in every reachable state, in every receiver queue — of the publisher's own
context or of any connected peer context, through any history of connects, disconnects and stops — the publications of
one publishing thread appear in publication order, each at most once. -/
theorem per_publisher_thread_order {s : State} (h : Reach s) (c : Ctx) (r : Rcv) :
    ((s.ctx c).got r).Pairwise (fun a b => a.p.c = b.p.c → a.p.tid = b.p.tid → a.p.seq < b.p.seq) :=
  per_publisher_thread_order_partial h (network_fifo h) c r

/-- non-vacuity: the hypotheses of the partial theorem hold in a reachable state with a delivery -/
example : ((run State.init exLocalDelivery).map fun s =>
    (s.snaps.map (fun sn => (sn.taker, sn.p.c, sn.p.tid, sn.p.seq)))) = some [(.user 0 1, 0, 1, 0)] := by decide

/-- non-vacuity of the network layer: context 1 subscribes receiver 5 to object 0 / signal 0 of context 0 over a
connection; thread (0, 3) publishes twice; both publications cross the event loop and the connection, the socket thread
of context 1 takes one snapshot for each (snapshots 2 and 3), and receiver 5 gets them in publication order -/
def exRemoteDelivery : List Act := [
  .begin 0 0 (.makeObj 0), .micro (.user 0 0) 0 0, .micro (.user 0 0) 0 0, .micro (.user 0 0) 0 0,
  .connect 1 0,
  .begin 1 0 (.subscribe 0 0 0 5),
  .micro (.user 1 0) 0 0, .micro (.user 1 0) 0 0, .micro (.user 1 0) 0 0,
  .cb 1 true, .arrive 0 false,
  .micro (.sock 0) 0 0, .micro (.sock 0) 0 0, .micro (.sock 0) 0 0, .micro (.sock 0) 0 0, .micro (.sock 0) 0 0,
  .cb 0 true, .arrive 0 true, .micro (.sock 1) 0 0,
  .micro (.user 1 0) 0 0, .micro (.user 1 0) 0 0,
  .begin 0 3 (.publish 0 0), .micro (.user 0 3) 0 0, .micro (.user 0 3) 0 0, .micro (.user 0 3) 1 0, .micro (.user 0 3) 0 0, .micro (.user 0 3) 0 0,
  .begin 0 3 (.publish 0 0), .micro (.user 0 3) 0 0, .micro (.user 0 3) 0 0, .micro (.user 0 3) 1 0, .micro (.user 0 3) 0 0, .micro (.user 0 3) 0 0,
  .cb 0 true, .cb 0 true,
  .arrive 0 true, .micro (.sock 1) 0 0, .micro (.sock 1) 5 0,
  .arrive 0 true, .micro (.sock 1) 0 0, .micro (.sock 1) 5 0]

example : ((run State.init exRemoteDelivery).map fun s => s.snaps.map (fun sn => (sn.taker, sn.p.c, sn.p.tid, sn.p.seq))) =
    some [(.user 0 3, 0, 3, 0), (.user 0 3, 0, 3, 1), (.sock 1, 0, 3, 0), (.sock 1, 0, 3, 1)] := by decide +kernel

example : ((run State.init exRemoteDelivery).map fun s => ((s.ctx 1).got 5).map (fun it => (it.p.c, it.p.tid, it.p.seq))) =
    some [(0, 3, 0), (0, 3, 1)] := by decide +kernel

end QmiModel.PubSub
