import QmiModel.Model.PubSub
/-!
# C07 — published signals reach every subscribed receiver once, in order

Property theorems only, over `QmiModel.PubSub.step` (all interleavings, unbounded numbers of contexts, publishers,
signal names, receivers, threads and connections).
-/
namespace QmiModel.PubSub

/-! ## Keys do not collide -/

private theorem split_at_dot {a a' x y : List Char} (ha : '.' ∉ a) (ha' : '.' ∉ a')
    (h : a ++ '.' :: x = a' ++ '.' :: y) : a = a' ∧ x = y := by
  induction a generalizing a' with
  | nil =>
    cases a' with
    | nil => simpa using h
    | cons c cs =>
      simp only [List.nil_append, List.cons_append, List.cons.injEq] at h
      exact absurd (h.1 ▸ List.mem_cons_self) ha'
  | cons c cs ih =>
    cases a' with
    | nil =>
      simp only [List.nil_append, List.cons_append, List.cons.injEq] at h
      exact absurd (h.1 ▸ List.mem_cons_self) ha
    | cons c' cs' =>
      simp only [List.cons_append, List.cons.injEq] at h
      have := ih (fun m => ha (List.mem_cons_of_mem _ m)) (fun m => ha' (List.mem_cons_of_mem _ m)) h.2
      exact ⟨by rw [h.1, this.1], this.2⟩

theorem validName_no_dot {n : List Char} (h : validName n = true) : '.' ∉ n := by
  intro hm
  simp only [validName, Bool.and_eq_true, List.all_eq_true] at h
  have := h.2 '.' hm
  revert this
  decide

/-- `"<ctx>.<pub>.<sig>"` determines its three parts when context and publisher name contain no `'.'` -/
theorem key_injective {c p s c' p' s' : List Char} (hc : '.' ∉ c) (hc' : '.' ∉ c') (hp : '.' ∉ p) (hp' : '.' ∉ p')
    (h : fullName c p s = fullName c' p' s') : c = c' ∧ p = p' ∧ s = s' := by
  obtain ⟨h1, h2⟩ := split_at_dot hc hc' h
  obtain ⟨h3, h4⟩ := split_at_dot hp hp' h2
  exact ⟨h1, h3, h4⟩

/-- same for the remote table `"<pub>.<sig>"` -/
theorem remote_key_injective {p s p' s' : List Char} (hp : '.' ∉ p) (hp' : '.' ∉ p')
    (h : remoteName p s = remoteName p' s') : p = p' ∧ s = s' := split_at_dot hp hp' h

/-- the prefix test of `handle_peer_context_removed` (`startswith(context + ".")`) selects exactly the keys of that
context -/
theorem prefix_iff_same_context {c c' p s : List Char} (hc : '.' ∉ c) (hc' : '.' ∉ c') :
    (c ++ ['.']) <+: fullName c' p s ↔ c = c' := by
  constructor
  · rintro ⟨t, ht⟩
    have : c ++ '.' :: t = c' ++ '.' :: (p ++ '.' :: s) := by simpa [fullName] using ht
    exact (split_at_dot hc hc' this).1
  · rintro rfl
    exact ⟨p ++ '.' :: s, by simp [fullName]⟩

example : validName "pub_1".toList = true ∧ validName "a.b".toList = false := by decide

end QmiModel.PubSub
