import QmiModel.Lemmas.C07Snap
/-!
# C07 — published signals reach every subscribed receiver once, in order

Property theorems only, over `QmiModel.PubSub.step` (all interleavings, unbounded numbers of contexts, publishers,
signal names, receivers, threads and connections).
-/
namespace QmiModel.PubSub

/-! ## Keys do not collide -/

private theorem split_at_dot {a a' x y : List Char} (ha : '.' ∉ a) (ha' : '.' ∉ a')
    (h : a ++ '.' :: x = a' ++ '.' :: y) : a = a' ∧ x = y := by
  induction a generalizing a' with
  | nil =>
    cases a' with
    | nil => simpa using h
    | cons c cs =>
      simp only [List.nil_append, List.cons_append, List.cons.injEq] at h
      exact absurd (h.1 ▸ List.mem_cons_self) ha'
  | cons c cs ih =>
    cases a' with
    | nil =>
      simp only [List.nil_append, List.cons_append, List.cons.injEq] at h
      exact absurd (h.1 ▸ List.mem_cons_self) ha
    | cons c' cs' =>
      simp only [List.cons_append, List.cons.injEq] at h
      have := ih (fun m => ha (List.mem_cons_of_mem _ m)) (fun m => ha' (List.mem_cons_of_mem _ m)) h.2
      exact ⟨by rw [h.1, this.1], this.2⟩

theorem validName_no_dot {n : List Char} (h : validName n = true) : '.' ∉ n := by
  intro hm
  simp only [validName, Bool.and_eq_true, List.all_eq_true] at h
  have := h.2 '.' hm
  revert this
  decide

/-- `"<ctx>.<pub>.<sig>"` determines its three parts when context and publisher name contain no `'.'` -/
theorem key_injective {c p s c' p' s' : List Char} (hc : '.' ∉ c) (hc' : '.' ∉ c') (hp : '.' ∉ p) (hp' : '.' ∉ p')
    (h : fullName c p s = fullName c' p' s') : c = c' ∧ p = p' ∧ s = s' := by
  obtain ⟨h1, h2⟩ := split_at_dot hc hc' h
  obtain ⟨h3, h4⟩ := split_at_dot hp hp' h2
  exact ⟨h1, h3, h4⟩

/-- same for the remote table `"<pub>.<sig>"` -/
theorem remote_key_injective {p s p' s' : List Char} (hp : '.' ∉ p) (hp' : '.' ∉ p')
    (h : remoteName p s = remoteName p' s') : p = p' ∧ s = s' := split_at_dot hp hp' h

/-- the prefix test of `handle_peer_context_removed` (`startswith(context + ".")`) selects exactly the keys of that
context -/
theorem prefix_iff_same_context {c c' p s : List Char} (hc : '.' ∉ c) (hc' : '.' ∉ c') :
    (c ++ ['.']) <+: fullName c' p s ↔ c = c' := by
  constructor
  · rintro ⟨t, ht⟩
    have : c ++ '.' :: t = c' ++ '.' :: (p ++ '.' :: s) := by simpa [fullName] using ht
    exact (split_at_dot hc hc' this).1
  · rintro rfl
    exact ⟨p ++ '.' :: s, by simp [fullName]⟩

example : validName "pub_1".toList = true ∧ validName "a.b".toList = false := by decide


/-! ## Snapshot semantics: delivered exactly once iff in the snapshot

`State.snaps` records every snapshot `_deliver_local` takes (context, key, publication, receiver set read under the
manager lock); every queued item carries the index of the snapshot it came from. -/

/-- For every snapshot ever taken, in every reachable state: (1) no receiver holds it twice; (2) whoever holds an item
of it is a member of the snapshot, in the snapshot's context, and the item is labelled with the snapshot's key
(publisher context, publisher, signal name) and publication — never another publisher or name; (3) every member either
has been delivered to, or is still on the list of the thread working through the snapshot. -/
theorem delivered_iff_in_snapshot {s : State} (h : Reach s) {sid : Nat} {sn : Snap} (hs : s.snaps[sid]? = some sn) :
    (∀ c r, (((s.ctx c).got r).filter (fun it => it.sid = sid)).length ≤ 1) ∧
    (∀ c r it, it ∈ (s.ctx c).got r → it.sid = sid → c = sn.c ∧ r ∈ sn.rs ∧ it.k = sn.k ∧ it.p = sn.p) ∧
    (∀ r ∈ sn.rs, (∃ it ∈ (s.ctx sn.c).got r, it.sid = sid) ∨
        (∃ th rs, th.ctx = sn.c ∧ headDlv (s.prog th) = some (sid, rs, sn.k, sn.p) ∧ r ∈ rs)) := by
  have inv := dlvInv_reach h
  refine ⟨fun c r => filter_length_le_one_of_nodup_map Item.sid sid (inv.got_once c r), ?_, inv.all sid sn hs⟩
  intro c r it hit he
  obtain ⟨rs0, h1, h2⟩ := inv.got_snap c r it hit
  rw [he, hs] at h1
  simp only [Option.some.injEq] at h1
  subst h1
  exact ⟨rfl, h2, rfl, rfl⟩

/-- once the delivering thread is through (no thread works on the snapshot any more): a receiver holds the
publication — exactly once — iff it was in the snapshot -/
theorem delivered_iff_in_snapshot_done {s : State} (h : Reach s) {sid : Nat} {sn : Snap} (hs : s.snaps[sid]? = some sn)
    (hdone : ∀ th x, headDlv (s.prog th) = some x → x.1 ≠ sid) (r : Rcv) :
    (((s.ctx sn.c).got r).filter (fun it => it.sid = sid)).length = (if r ∈ sn.rs then 1 else 0) := by
  obtain ⟨h1, h2, h3⟩ := delivered_iff_in_snapshot h hs
  split
  · rename_i hr
    rcases h3 r hr with ⟨it, hi, he⟩ | ⟨th, rs, -, hh, -⟩
    · have : 0 < (((s.ctx sn.c).got r).filter (fun it => it.sid = sid)).length :=
        List.length_pos_of_mem (List.mem_filter.2 ⟨hi, by simpa using he⟩)
      have := h1 sn.c r
      omega
    · exact absurd rfl (hdone th _ hh)
  · rename_i hr
    rw [List.length_eq_zero_iff, List.filter_eq_nil_iff]
    intro it hi
    simp only [decide_eq_true_eq]
    intro he
    exact hr (h2 _ _ it hi he).2.1

/-- two threads never deliver from the same snapshot, and a thread delivers from one snapshot at a time -/
theorem one_thread_per_snapshot {s : State} (h : Reach s) {th th' : Th} {sid : Nat} {rs rs' : List Rcv} {k k' : Key} {p p' : Pub}
    (h1 : headDlv (s.prog th) = some (sid, rs, k, p)) (h2 : headDlv (s.prog th') = some (sid, rs', k', p')) : th = th' :=
  (dlvInv_reach h).uniq _ _ _ _ _ _ _ _ _ h1 h2

/-- non-vacuity: a reachable state with one local subscriber (receiver 7), one snapshot containing it and one delivery -/
def exLocalDelivery : List Act := [
  .begin 0 0 (.makeObj 0), .micro (.user 0 0) 0 0, .micro (.user 0 0) 0 0, .micro (.user 0 0) 0 0,
  .begin 0 0 (.subscribe 0 0 0 7), .micro (.user 0 0) 0 0, .micro (.user 0 0) 0 0, .micro (.user 0 0) 0 0, .micro (.user 0 0) 0 0,
  .begin 0 1 (.publish 0 0), .micro (.user 0 1) 0 0, .micro (.user 0 1) 7 0]

example : ((run State.init exLocalDelivery).map fun s =>
    (s.snaps.map (fun sn => (sn.c, sn.rs)), ((s.ctx 0).got 7).map (fun it => (it.sid, it.p.tid, it.p.seq)))) =
    some ([(0, [7])], [(0, 1, 0)]) := by decide

end QmiModel.PubSub
