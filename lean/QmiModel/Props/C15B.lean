import QmiModel.Lemmas.C15B
import QmiModel.Gen.Layouts
/-!
# C15 (part B) — Interbus frames, APT packets, T2 event stream: payloads carried unchanged, corrupted replies rejected

Property theorems only (helper lemmas: `Lemmas/C15B.lean`).  Every statement quantifies over **all** payloads, all
lengths, all scripts/streams — no bounds.  The theorems are generic in the protocol constants; the constants and packet
layouts found in the *current* source are regenerated into `Gen/Layouts.lean`, and `gen_*` theorems discharge the
(decidable) side conditions for them by `decide`.
-/
namespace QmiModel.C15B

/-! # Interbus -/
section Interbus
open QmiModel.Interbus

/-- the decidable well-formedness conditions on the Interbus constants under which the theorems hold -/
def ibWf (p : Params) : Bool :=
  p.encEsc == p.decEsc && p.encOff == p.decOff && p.encSot == p.decSot && p.encEot == p.decEot && p.readTerm == p.encEot && p.encSot != p.readTerm
  && (match escChain p.encEsc p.encOff [] p.escOrder with
      | some qs => unescChain p.encEsc p.encOff qs p.unescOrder == some []
                   && qs.contains p.readTerm && p.encEsc != p.readTerm && qs.all (fun b => b + p.encOff != p.readTerm)
                   && qs.contains p.encEsc
      | none => false)
  && decide (p.minFrame ≤ 8) && decide (p.minBody ≤ 6) && decide (p.crcPoly % 2 = 1) && decide (p.crcPoly < 65536)
  && decide (p.dstHi < 256) && decide (p.srcHi < 256)

theorem gen_interbus_wf : ibWf Gen.Layouts.interbus = true := by decide

structure IbWF (p : Params) : Prop where
  esc : p.decEsc = p.encEsc
  off : p.decOff = p.encOff
  sot : p.decSot = p.encSot
  eot : p.decEot = p.encEot
  term : p.readTerm = p.encEot
  sotNe : p.encSot ≠ p.readTerm
  chain : ∃ qs, escChain p.encEsc p.encOff [] p.escOrder = some qs ∧ unescChain p.encEsc p.encOff qs p.unescOrder = some []
      ∧ qs.contains p.readTerm = true ∧ p.encEsc ≠ p.readTerm ∧ qs.all (fun b => b + p.encOff != p.readTerm) = true
      ∧ qs.contains p.encEsc = true
  minFrame : p.minFrame ≤ 8
  minBody : p.minBody ≤ 6
  odd : p.crcPoly % 2 = 1
  poly : p.crcPoly < 65536
  dstHi : p.dstHi < 256
  srcHi : p.srcHi < 256

theorem ibWF_of (p : Params) (h : ibWf p = true) : IbWF p := by
  unfold ibWf at h
  simp only [Bool.and_eq_true, beq_iff_eq, decide_eq_true_eq] at h
  obtain ⟨⟨⟨⟨⟨⟨⟨⟨⟨⟨⟨⟨h1, h2⟩, h3⟩, h4⟩, h5⟩, h5b⟩, h6⟩, h7⟩, h8⟩, h9⟩, h10⟩, h11⟩, h12⟩ := h
  split at h6
  · rename_i qs hq
    simp only [Bool.and_eq_true, beq_iff_eq, bne_iff_ne, ne_eq] at h6
    exact ⟨h1.symm, h2.symm, h3.symm, h4.symm, h5, by simpa using h5b, ⟨qs, hq, h6.1.1.1.1, h6.1.1.1.2, h6.1.1.2, h6.1.2, h6.2⟩, h7, h8, h9, h10, h11, h12⟩
  · cases h6


/-! ## Interbus: escaping -/

theorem escape_eq (p : Params) (h : IbWF p) :
    ∃ qs, (∀ bs, escape p bs = escSet p.encEsc p.encOff qs bs) ∧ (∀ bs, unescape p (escSet p.encEsc p.encOff qs bs) = bs)
      ∧ qs.contains p.readTerm = true ∧ p.encEsc ≠ p.readTerm ∧ qs.all (fun b => b + p.encOff != p.readTerm) = true
      ∧ qs.contains p.encEsc = true := by
  obtain ⟨qs, h1, h2, h3, h4, h5, h6⟩ := h.chain
  refine ⟨qs, ?_, ?_, h3, h4, h5, h6⟩
  · intro bs
    have := foldl_escChain p.encEsc p.encOff p.escOrder [] qs h1 bs
    rw [escSet_empty] at this
    exact this
  · intro bs
    have := foldl_unescChain p.encEsc p.encOff p.unescOrder qs [] h2 bs
    rw [escSet_empty] at this
    unfold unescape
    rw [h.esc, h.off]
    exact this

/-- **un-escaping undoes escaping**, for every byte string, with the code's sequential `replace` passes -/
theorem unescape_escape (p : Params) (h : IbWF p) (bs : Bytes) : unescape p (escape p bs) = bs := by
  obtain ⟨qs, h1, h2, _⟩ := escape_eq p h
  rw [h1, h2]

/-- the escaped stream never contains the terminator `read_until` waits for -/
theorem escape_no_terminator (p : Params) (h : IbWF p) (bs : Bytes) : p.readTerm ∉ escape p bs := by
  obtain ⟨qs, h1, _, h3, h4, h5, _⟩ := escape_eq p h
  rw [h1]
  exact not_mem_escSet _ _ _ qs h3 h4 h5 bs

/-- **a conforming device un-escapes QMI's output to exactly the original bytes** (one-pass procedure of the manual) -/
theorem device_unescapes (p : Params) (h : IbWF p) (bs : Bytes) :
    specUnescape p.encEsc p.encOff (escape p bs) = some bs := by
  obtain ⟨qs, h1, _, _, _, _, h6⟩ := escape_eq p h
  rw [h1]
  exact specUnescape_escSet _ _ qs h6 bs

theorem length_le_escape (p : Params) (h : IbWF p) (bs : Bytes) : bs.length ≤ (escape p bs).length := by
  obtain ⟨qs, h1, _⟩ := escape_eq p h
  rw [h1]
  exact length_le_escSet _ _ qs bs

/-! ## Interbus: CRC -/

/-- the CRC state stays a 16-bit value: `bytes([crc // 256, crc % 256])` cannot fail -/
theorem crc_lt (p : Params) (h : IbWF p) (bs : Bytes) : crcOf p.crcPoly bs < 65536 := crcOf_lt _ h.poly bs

/-- **residue**: a message followed by its own CRC (high byte, low byte) has CRC 0 -/
theorem crc_appended_is_zero (p : Params) (h : IbWF p) (bs : Bytes) :
    crcOf p.crcPoly (bs ++ [UInt8.ofNat (crcOf p.crcPoly bs / 256), UInt8.ofNat (crcOf p.crcPoly bs % 256)]) = 0 :=
  crcOf_append_crc _ h.poly bs

/-- **every single-byte change is seen by the CRC** -/
theorem crc_detects_single_byte (p : Params) (h : IbWF p) (pre post : Bytes) (b b' : UInt8) (hne : b ≠ b') :
    crcOf p.crcPoly (pre ++ b :: post) ≠ crcOf p.crcPoly (pre ++ b' :: post) :=
  crcOf_single_byte _ h.odd h.poly pre post b b' hne

/-! ## Interbus: frames -/

/-- what the code's range checks accept, plus a member of `MessageType` and a register that fits a byte -/
structure Valid (p : Params) (m : Msg) : Prop where
  dst : p.dstLo ≤ m.dest ∧ m.dest ≤ p.dstHi
  src : p.srcLo ≤ m.src ∧ m.src ≤ p.srcHi
  len : m.data.length ≤ p.maxData
  typ : m.mtype ∈ p.msgTypes ∧ m.mtype < 256
  reg : m.reg < 256

/-- what the *decoder* can give back: fields that fit a byte and a known message type — no address ranges, no data
limit (a reply travels module → host, so its addresses are outside the encoder's ranges) -/
structure Decodable (p : Params) (m : Msg) : Prop where
  dst : m.dest < 256
  src : m.src < 256
  typ : m.mtype ∈ p.msgTypes ∧ m.mtype < 256
  reg : m.reg < 256

theorem Valid.decodable {p : Params} (h : IbWF p) {m : Msg} (hv : Valid p m) : Decodable p m :=
  ⟨by have := h.dstHi; have := hv.dst.2; omega, by have := h.srcHi; have := hv.src.2; omega, hv.typ, hv.reg⟩

/-- the unescaped content of the frame of `m` -/
def fullBody (p : Params) (m : Msg) : Bytes :=
  body m ++ [UInt8.ofNat (crcOf p.crcPoly (body m) / 256), UInt8.ofNat (crcOf p.crcPoly (body m) % 256)]

/-- the frame the encoder produces for `m` -/
def frame (p : Params) (m : Msg) : Bytes := [p.encSot] ++ escape p (fullBody p m) ++ [p.encEot]

theorem encode_valid (p : Params) (h : IbWF p) (m : Msg) (hv : Valid p m) : encode p m = .ok (frame p m) := by
  have hd := h.dstHi
  have hs := h.srcHi
  have hc := crc_lt p h (body m)
  unfold encode frame fullBody
  rw [if_neg (by simp [hv.dst.1, hv.dst.2]), if_neg (by simp [hv.src.1, hv.src.2]), if_neg (by simp [hv.len]),
      if_neg (by have := hv.dst.2; have := hv.src.2; have := hv.typ.2; have := hv.reg; simp; omega)]
  simp only
  rw [if_neg (by simp; omega)]

/-- **the decoder recovers every frame**: any fields that fit a byte, any known type, data of *any* length and content -/
theorem decode_frame (p : Params) (h : IbWF p) (m : Msg) (hv : Decodable p m) : decode p (frame p m) = .ok m := by
  have hlen := length_le_escape p h (fullBody p m)
  have hfl : (fullBody p m).length = m.data.length + 6 := by simp [fullBody, body]
  have hd := hv.dst
  have hs := hv.src
  unfold decode frame
  rw [if_neg (by have := h.minFrame; simp; omega)]
  have hlast : ([p.encSot] ++ escape p (fullBody p m) ++ [p.encEot]).getLast? = some p.encEot := by
    rw [List.getLast?_append]; simp
  rw [if_neg (by rw [hlast]; simp [h.sot, h.eot])]
  have hinner : (([p.encSot] ++ escape p (fullBody p m) ++ [p.encEot]).drop 1).dropLast = escape p (fullBody p m) := by
    simp [List.dropLast_append_of_ne_nil]
  simp only [hinner, unescape_escape p h]
  rw [if_neg (by have := h.minBody; omega)]
  have hcrc : crcOf p.crcPoly (fullBody p m) = 0 := crc_appended_is_zero p h (body m)
  rw [if_neg (by simp [hcrc])]
  have htake : (fullBody p m).take ((fullBody p m).length - 2) = body m := by
    unfold fullBody
    rw [List.length_append]
    simp
  simp only [htake]
  have e0 : ((body m).getD 0 0).toNat = m.dest := by simp [body]; omega
  have e1 : ((body m).getD 1 0).toNat = m.src := by simp [body]; omega
  have e2 : ((body m).getD 2 0).toNat = m.mtype := by have := hv.typ.2; simp [body]; omega
  have e3 : ((body m).getD 3 0).toNat = m.reg := by have := hv.reg; simp [body]; omega
  have e4 : (body m).drop 4 = m.data := by simp [body]
  rw [e0, e1, e2, e3, e4, if_neg (by simp [hv.typ.1])]

/-- **round trip**: every valid message (any data up to the limit, reserved bytes anywhere, also inside the CRC)
is encoded, and decoding the frame gives the message back -/
theorem decode_encode (p : Params) (h : IbWF p) (m : Msg) (hv : Valid p m) :
    ∃ w, encode p m = .ok w ∧ decode p w = .ok m :=
  ⟨_, encode_valid p h m hv, decode_frame p h m (hv.decodable h)⟩


/-- a conforming device's reading of a telegram (NKT SDK manual ch. 2): SOT, one-pass un-escaping, EOT, the CRC recomputed
over everything but the last two bytes and compared with them (high byte first) — written independently of the
decoder of the code -/
def specDecode (p : Params) (w : Bytes) : Option Msg :=
  match w with
  | [] => none
  | s :: t =>
    if s ≠ p.encSot ∨ t.getLast? ≠ some p.encEot then none
    else match specUnescape p.encEsc p.encOff t.dropLast with
      | none => none
      | some u =>
        if u.length < 6 then none
        else
          let b := u.take (u.length - 2)
          let c := u.drop (u.length - 2)
          if crcOf p.crcPoly b ≠ (c.getD 0 0).toNat * 256 + (c.getD 1 0).toNat then none
          else some ⟨(b.getD 0 0).toNat, (b.getD 1 0).toNat, (b.getD 2 0).toNat, (b.getD 3 0).toNat, b.drop 4⟩

/-- **a conforming device decodes from QMI's output exactly what the driver asked to send**: every valid request,
any data up to the limit, reserved bytes anywhere (also inside the CRC) -/
theorem device_decodes_request (p : Params) (h : IbWF p) (m : Msg) (hv : Valid p m) :
    ∃ w, encode p m = .ok w ∧ specDecode p w = some m := by
  refine ⟨_, encode_valid p h m hv, ?_⟩
  have hdec := hv.decodable h
  have hc := crc_lt p h (body m)
  unfold specDecode frame
  simp only [List.cons_append, List.nil_append]
  rw [if_neg (by simp)]
  rw [List.dropLast_concat, device_unescapes p h]
  simp only
  have hfl : (fullBody p m).length = m.data.length + 6 := by simp [fullBody, body]
  rw [if_neg (by omega)]
  have htake : (fullBody p m).take ((fullBody p m).length - 2) = body m := by
    unfold fullBody; rw [List.length_append]; simp
  have hdrop : (fullBody p m).drop ((fullBody p m).length - 2)
      = [UInt8.ofNat (crcOf p.crcPoly (body m) / 256), UInt8.ofNat (crcOf p.crcPoly (body m) % 256)] := by
    unfold fullBody; rw [List.length_append]; simp
  simp only [htake, hdrop]
  have e0 : ((body m).getD 0 0).toNat = m.dest := by have := hdec.dst; simp [body]; omega
  have e1 : ((body m).getD 1 0).toNat = m.src := by have := hdec.src; simp [body]; omega
  have e2 : ((body m).getD 2 0).toNat = m.mtype := by have := hdec.typ.2; simp [body]; omega
  have e3 : ((body m).getD 3 0).toNat = m.reg := by have := hdec.reg; simp [body]; omega
  have e4 : (body m).drop 4 = m.data := by simp [body]
  rw [if_neg (by simp; omega), e0, e1, e2, e3, e4]

/-- the decoder raises nothing but ValueError -/
theorem decode_error_kind (p : Params) (w : Bytes) (e : Exc) (h : decode p w = .error e) : e = .valueError := by
  unfold decode at h
  split at h; · cases h; rfl
  split at h; · cases h; rfl
  simp only at h
  split at h; · cases h; rfl
  split at h; · cases h; rfl
  split at h; · cases h; rfl
  cases h

/-- **soundness of the decoder**: an accepted frame has the right delimiters, CRC residue 0 over its unescaped
content, a known message type, and the returned fields are exactly the bytes of that content -/
theorem decode_ok (p : Params) (w : Bytes) (m : Msg) (h : decode p w = .ok m) :
    let u := unescape p ((w.drop 1).dropLast)
    w.head? = some p.decSot ∧ w.getLast? = some p.decEot ∧ p.minBody ≤ u.length ∧ crcOf p.crcPoly u = 0 ∧
    m.mtype ∈ p.msgTypes ∧
    m = { dest := ((u.take (u.length - 2)).getD 0 0).toNat, src := ((u.take (u.length - 2)).getD 1 0).toNat,
          mtype := ((u.take (u.length - 2)).getD 2 0).toNat, reg := ((u.take (u.length - 2)).getD 3 0).toNat,
          data := (u.take (u.length - 2)).drop 4 } := by
  unfold decode at h
  split at h; · cases h
  split at h; · cases h
  rename_i h2
  simp only at h
  split at h; · cases h
  rename_i h3
  split at h; · cases h
  rename_i h4
  split at h; · cases h
  rename_i h5
  simp only [Except.ok.injEq] at h
  simp only [Decidable.not_not] at h2 h4 h5
  refine ⟨h2.1, h2.2, by omega, h4, ?_, h.symm⟩
  rw [← h]; exact h5

/-- **a wrong checksum is rejected**: whatever content with a non-zero CRC residue is framed, the decoder raises -/
theorem bad_crc_rejected (p : Params) (h : IbWF p) (u : Bytes) (hcrc : crcOf p.crcPoly u ≠ 0) :
    decode p ([p.encSot] ++ escape p u ++ [p.encEot]) = .error .valueError := by
  cases hd : decode p ([p.encSot] ++ escape p u ++ [p.encEot]) with
  | error e => rw [decode_error_kind p _ e hd]
  | ok m =>
    exfalso
    have := (decode_ok p _ m hd).2.2.2.1
    have hinner : (([p.encSot] ++ escape p u ++ [p.encEot]).drop 1).dropLast = escape p u := by
      simp [List.dropLast_append_of_ne_nil]
    rw [hinner, unescape_escape p h] at this
    exact hcrc this

/-- **single-field corruption**: change any one byte of the content of a valid frame (address, type, register, data
or CRC byte) — the decoder raises -/
theorem corrupted_frame_rejected (p : Params) (h : IbWF p) (m : Msg) (pre post : Bytes) (b b' : UInt8)
    (hsplit : fullBody p m = pre ++ b :: post) (hne : b' ≠ b) :
    decode p ([p.encSot] ++ escape p (pre ++ b' :: post) ++ [p.encEot]) = .error .valueError := by
  apply bad_crc_rejected p h
  have h0 : crcOf p.crcPoly (pre ++ b :: post) = 0 := by rw [← hsplit]; exact crc_appended_is_zero p h (body m)
  have := crc_detects_single_byte p h pre post b' b hne
  rw [h0] at this
  exact this



/-! ## Interbus: request / response with retries -/

theorem readMessage_error_kind (p : Params) (t t' : Tr) (e : Exc) (h : readMessage p t = (.error e, t')) :
    e = .valueError ∨ e = .timeout := by
  unfold readMessage at h
  split at h
  · simp only [Prod.mk.injEq, Except.error.injEq] at h; exact Or.inr h.1.symm
  · simp only [Prod.mk.injEq] at h; exact Or.inl (decode_error_kind p _ e h.1)

theorem readMessage_counts (p : Params) (t : Tr) :
    (readMessage p t).2.reads = t.reads + 1 ∧ (readMessage p t).2.written = t.written := by
  unfold readMessage
  split <;> simp

/-- **only a reply whose addresses match the request is returned** -/
theorem rrLoop_ok (p : Params) (req : Msg) (enc : Bytes) :
    ∀ n t r t', rrLoop p req enc n t = (.ok r, t') → r.src = req.dest ∧ r.dest = req.src := by
  intro n
  induction n with
  | zero =>
    intro t r t' h
    unfold rrLoop at h
    split at h
    · simp at h
    · split at h
      · rename_i hm; simp only [Prod.mk.injEq, Except.ok.injEq] at h; rw [← h.1]; exact hm
      · simp at h
  | succ n ih =>
    intro t r t' h
    unfold rrLoop at h
    split at h
    · exact ih _ _ _ h
    · split at h
      · rename_i hm; simp only [Prod.mk.injEq, Except.ok.injEq] at h; rw [← h.1]; exact hm
      · exact ih _ _ _ h

/-- the loop ends with QMI_InstrumentException or QMI_TimeoutException, never with the decoder's ValueError -/
theorem rrLoop_error (p : Params) (req : Msg) (enc : Bytes) :
    ∀ n t e t', rrLoop p req enc n t = (.error e, t') → e = .instrument ∨ e = .timeout := by
  intro n
  induction n with
  | zero =>
    intro t e t' h
    unfold rrLoop at h
    split at h
    · rename_i e0 t1 hr
      have := readMessage_error_kind p t t1 e0 hr
      simp only [Prod.mk.injEq, Except.error.injEq] at h
      rcases this with rfl | rfl
      · left; simpa using h.1.symm
      · right; simpa using h.1.symm
    · split at h
      · simp at h
      · simp only [Prod.mk.injEq, Except.error.injEq] at h; exact Or.inl h.1.symm
  | succ n ih =>
    intro t e t' h
    unfold rrLoop at h
    split at h
    · exact ih _ _ _ h
    · split at h
      · simp at h
      · exact ih _ _ _ h

/-- at most `n + 1` reads and `n` re-sends: the retry loop always terminates -/
theorem rrLoop_bounds (p : Params) (req : Msg) (enc : Bytes) :
    ∀ n t, (rrLoop p req enc n t).2.reads ≤ t.reads + (n + 1) ∧
           (rrLoop p req enc n t).2.written.length ≤ t.written.length + n := by
  intro n
  induction n with
  | zero =>
    intro t
    have hc := readMessage_counts p t
    unfold rrLoop
    split
    · rename_i e0 t1 hr; rw [hr] at hc
      have hw := congrArg List.length hc.2
      have hr' := hc.1
      simp only at hw hr' ⊢; omega
    · rename_i r0 t1 hr; rw [hr] at hc
      have hw := congrArg List.length hc.2
      have hr' := hc.1
      simp only at hw hr'
      split <;> simp only <;> omega
  | succ n ih =>
    intro t
    have hc := readMessage_counts p t
    unfold rrLoop
    split
    · rename_i e0 t1 hr; rw [hr] at hc
      have hw := congrArg List.length hc.2
      have hr' := hc.1
      simp only at hw hr'
      have := ih (t1.write enc)
      simp only [Tr.write, List.length_append, List.length_cons, List.length_nil] at this ⊢
      omega
    · rename_i r0 t1 hr; rw [hr] at hc
      have hw := congrArg List.length hc.2
      have hr' := hc.1
      simp only at hw hr'
      split
      · simp only; omega
      · have := ih t1; simp only at this ⊢; omega

/-- **`_request_response` returns only a message addressed from the asked device to this request's source address;
otherwise it raises** (ValueError only when the request itself cannot be encoded) -/
theorem request_response (p : Params) (toggle dest mtype reg : Nat) (data : Bytes) (t : Tr) :
    match requestResponse p toggle dest mtype reg data t with
    | (.ok r, tg, t') => r.src = dest ∧ r.dest = p.hostBase + tg ∧ tg = (toggle + 1) &&& 1 ∧
                          t'.reads ≤ t.reads + p.maxRetry + 1 ∧ t'.written.length ≤ t.written.length + p.maxRetry + 1
    | (.error e, tg, t') => tg = (toggle + 1) &&& 1 ∧
        ((e = .valueError ∧ t' = t ∧ ∃ e', encode p ⟨dest, p.hostBase + tg, mtype, reg, data⟩ = .error e') ∨
         ((e = .instrument ∨ e = .timeout) ∧ t'.reads ≤ t.reads + p.maxRetry + 1)) := by
  unfold requestResponse
  simp only
  cases henc : encode p ⟨dest, p.hostBase + ((toggle + 1) &&& 1), mtype, reg, data⟩ with
  | error e =>
    simp only
    refine ⟨trivial, Or.inl ⟨?_, trivial, e, henc⟩⟩
    unfold encode at henc
    repeat (split at henc; · cases henc; rfl)
    simp only at henc
    split at henc
    · cases henc; rfl
    · cases henc
  | ok enc =>
    simp only
    have hb := rrLoop_bounds p ⟨dest, p.hostBase + ((toggle + 1) &&& 1), mtype, reg, data⟩ enc p.maxRetry (t.write enc)
    cases hr : rrLoop p ⟨dest, p.hostBase + ((toggle + 1) &&& 1), mtype, reg, data⟩ enc p.maxRetry (t.write enc) with
    | mk res t' =>
      rw [hr] at hb
      simp [Tr.write] at hb
      cases res with
      | ok r =>
        have := rrLoop_ok p _ enc _ _ _ _ hr
        simp only at this ⊢
        exact ⟨this.1, this.2, trivial, by omega, by omega⟩
      | error e =>
        have := rrLoop_error p _ enc _ _ _ _ hr
        simp only
        exact ⟨trivial, Or.inr ⟨this, by omega⟩⟩


/-! ## Interbus: a reply split into transfers -/

theorem splitTerm_none (term : UInt8) (bs : Bytes) (h : term ∉ bs) : splitTerm term bs = none := by
  induction bs with
  | nil => rfl
  | cons x t ih =>
    simp only [List.mem_cons, not_or] at h
    simp only [splitTerm, if_neg (fun (e : x = term) => h.1 e.symm), ih h.2]

theorem splitTerm_append (term : UInt8) (x r : Bytes) (h : term ∉ x) :
    splitTerm term (x ++ term :: r) = some (x ++ [term], r) := by
  induction x with
  | nil => simp [splitTerm]
  | cons a t ih =>
    simp only [List.mem_cons, not_or] at h
    simp only [List.cons_append, splitTerm, if_neg (fun (e : a = term) => h.1 e.symm), ih h.2]

/-- **however the frame is cut into transfers**, `read_until` hands the decoder exactly the frame -/
theorem readUntil_chunks (term : UInt8) (x : Bytes) (hx : term ∉ x) (s : List Seg) :
    ∀ (chunks : List Bytes) (buf : Bytes), chunks ≠ [] → (∀ c ∈ chunks, c ≠ []) →
      buf ++ chunks.flatten = x ++ [term] →
      readUntil term buf (chunks.map Seg.data ++ s) = (some (x ++ [term]), [], s) := by
  intro chunks
  induction chunks with
  | nil => intro buf h; exact absurd rfl h
  | cons c cs ih =>
    intro buf _ hne hflat
    have hc : c ≠ [] := hne c (by simp)
    -- the terminator is the last byte of the whole stream, so it is not in `buf`
    have hbuf : term ∉ buf := by
      intro hmem
      have hcf : c ++ cs.flatten ≠ [] := by simp [hc]
      have h1 : (buf ++ (c ++ cs.flatten)).dropLast = buf ++ (c ++ cs.flatten).dropLast :=
        List.dropLast_append_of_ne_nil hcf
      simp only [List.flatten_cons] at hflat
      rw [hflat, List.dropLast_concat] at h1
      exact hx (by rw [h1]; exact List.mem_append_left _ hmem)
    unfold readUntil
    rw [splitTerm_none term buf hbuf]
    simp only [List.map_cons, List.cons_append]
    cases cs with
    | nil =>
      simp only [List.flatten_cons, List.flatten_nil, List.append_nil] at hflat
      unfold readUntil
      rw [hflat]
      have := splitTerm_append term x [] hx
      simp only [List.map_nil, List.nil_append]
      rw [this]
    | cons c2 cs2 =>
      apply ih (buf ++ c) (by simp) (fun c' hc' => hne c' (List.mem_cons_of_mem _ hc'))
      simpa [List.append_assoc] using hflat

/-- **the driver receives exactly what the device sent**: the device's reply — any valid message whose addresses
answer the request, any data, reserved bytes anywhere — arrives cut into arbitrary non-empty transfers;
`_request_response` returns exactly that message after one read, having written the request once -/
theorem request_response_delivers (p : Params) (h : IbWF p) (toggle dest mtype reg : Nat) (data : Bytes)
    (req reply : Msg) (chunks : List Bytes) (s : List Seg) (wr : List Bytes) (rd : Nat)
    (hreqdef : req = { dest := dest, src := p.hostBase + ((toggle + 1) &&& 1), mtype := mtype, reg := reg, data := data })
    (hreq : Valid p req) (hrep : Decodable p reply) (hsrc : reply.src = req.dest) (hdst : reply.dest = req.src)
    (hne : ∀ c ∈ chunks, c ≠ []) (hflat : chunks.flatten = frame p reply) :
    requestResponse p toggle dest mtype reg data { buf := [], script := chunks.map Seg.data ++ s, written := wr, reads := rd }
      = (.ok reply, (toggle + 1) &&& 1, { buf := [], script := s, written := wr ++ [frame p req], reads := rd + 1 }) := by
  unfold requestResponse
  simp only
  rw [← hreqdef, encode_valid p h _ hreq]
  simp only
  have hchunks : chunks ≠ [] := by
    intro hc; rw [hc] at hflat; simp [frame] at hflat
  have hx : p.readTerm ∉ [p.encSot] ++ escape p (fullBody p reply) := by
    simp only [List.cons_append, List.nil_append, List.mem_cons, not_or]
    exact ⟨fun e => h.sotNe e.symm, escape_no_terminator p h _⟩
  have hru := readUntil_chunks p.readTerm ([p.encSot] ++ escape p (fullBody p reply)) hx s chunks [] hchunks hne
    (by rw [h.term]; simpa [frame] using hflat)
  have hrm : readMessage p (Tr.write { buf := [], script := chunks.map Seg.data ++ s, written := wr, reads := rd } (frame p req))
      = (.ok reply, { buf := [], script := s, written := wr ++ [frame p req], reads := rd + 1 }) := by
    unfold readMessage
    simp only [Tr.write]
    rw [hru]
    simp only
    have := decode_frame p h reply hrep
    unfold frame at this
    rw [h.term, this]
  unfold rrLoop
  rw [hrm]
  simp only [hsrc, hdst, and_self, if_true]


/-! ## Interbus: `get_register` / `set_register` -/

/-- the message-type constants `get_register` / `set_register` compare with are distinct members of `MessageType` -/
def ibTypesWf (p : Params) : Bool :=
  p.tNack != p.tDatagram && p.tNack != p.tAck && p.tAck != p.tDatagram
  && p.msgTypes.contains p.tNack && p.msgTypes.contains p.tAck && p.msgTypes.contains p.tDatagram
  && p.msgTypes.contains p.tRead && p.msgTypes.contains p.tWrite && p.msgTypes.all (· < 256)

theorem gen_interbus_types : ibTypesWf Gen.Layouts.interbus = true := by decide

/-- **`get_register` returns only the data of a DATAGRAM for the asked register from the asked module** -/
theorem getRegister_sound (p : Params) (tg dest reg : Nat) (t t' : Tr) (tg' : Nat) (d : Bytes)
    (h : getRegister p tg dest reg t = (.ok d, tg', t')) :
    ∃ r, requestResponse p tg dest p.tRead reg [] t = (.ok r, tg', t') ∧
      r.mtype = p.tDatagram ∧ r.mtype ≠ p.tNack ∧ r.reg = reg ∧ r.data = d ∧ r.src = dest ∧ r.dest = p.hostBase + tg' := by
  unfold getRegister at h
  have hrr := request_response p tg dest p.tRead reg [] t
  split at h
  · simp at h
  · rename_i r tg1 t1 heq
    rw [heq] at hrr
    simp only at hrr
    split at h; · simp at h
    split at h; · simp at h
    split at h; · simp at h
    rename_i h1 h2 h3
    simp only [Prod.mk.injEq, Except.ok.injEq] at h
    obtain ⟨hd, htg, ht⟩ := h
    subst htg ht
    exact ⟨r, heq, by simpa using h2, h1, by simpa using h3, hd, hrr.1, hrr.2.1⟩

/-- **a NACK, a BUSY, any other type, or another register number raises** (QMI_InstrumentException) -/
theorem getRegister_rejects (p : Params) (tg dest reg : Nat) (t t' : Tr) (tg' : Nat) (r : Msg)
    (hrr : requestResponse p tg dest p.tRead reg [] t = (.ok r, tg', t'))
    (hbad : r.mtype ≠ p.tDatagram ∨ r.reg ≠ reg) :
    getRegister p tg dest reg t = (.error .instrument, tg', t') := by
  unfold getRegister
  rw [hrr]
  simp only
  by_cases h1 : r.mtype = p.tNack
  · simp [h1]
  · by_cases h2 : r.mtype = p.tDatagram
    · have h3 : r.reg ≠ reg := by rcases hbad with h | h; exact absurd h2 h; exact h
      simp [h1, h2, h3]
    · simp [h1, h2]

theorem getRegister_error (p : Params) (tg dest reg : Nat) (t t' : Tr) (tg' : Nat) (e : Exc)
    (h : requestResponse p tg dest p.tRead reg [] t = (.error e, tg', t')) :
    getRegister p tg dest reg t = (.error e, tg', t') := by
  unfold getRegister; rw [h]

/-- **`set_register` returns only after an ACK for the written register from the addressed module** -/
theorem setRegister_sound (p : Params) (tg dest reg : Nat) (data : Bytes) (t t' : Tr) (tg' : Nat)
    (h : setRegister p tg dest reg data t = (.ok (), tg', t')) :
    ∃ r, requestResponse p tg dest p.tWrite reg data t = (.ok r, tg', t') ∧
      r.mtype = p.tAck ∧ r.mtype ≠ p.tNack ∧ r.reg = reg ∧ r.src = dest ∧ r.dest = p.hostBase + tg' := by
  unfold setRegister at h
  have hrr := request_response p tg dest p.tWrite reg data t
  split at h
  · simp at h
  · rename_i r tg1 t1 heq
    rw [heq] at hrr
    simp only at hrr
    split at h; · simp at h
    split at h; · simp at h
    split at h; · simp at h
    rename_i h1 h2 h3
    simp only [Prod.mk.injEq, Except.ok.injEq, true_and] at h
    obtain ⟨htg, ht⟩ := h
    subst htg ht
    exact ⟨r, heq, by simpa using h2, h1, by simpa using h3, hrr.1, hrr.2.1⟩

theorem setRegister_rejects (p : Params) (tg dest reg : Nat) (data : Bytes) (t t' : Tr) (tg' : Nat) (r : Msg)
    (hrr : requestResponse p tg dest p.tWrite reg data t = (.ok r, tg', t'))
    (hbad : r.mtype ≠ p.tAck ∨ r.reg ≠ reg) :
    setRegister p tg dest reg data t = (.error .instrument, tg', t') := by
  unfold setRegister
  rw [hrr]
  simp only
  by_cases h1 : r.mtype = p.tNack
  · simp [h1]
  · by_cases h2 : r.mtype = p.tAck
    · have h3 : r.reg ≠ reg := by rcases hbad with h | h; exact absurd h2 h; exact h
      simp [h1, h2, h3]
    · simp [h1, h2]

/-- **`get_register` hands the driver exactly the device's data**: the module answers the READ with a DATAGRAM for the
same register — any data (reserved bytes, any length), cut into arbitrary transfers -/
theorem getRegister_delivers (p : Params) (h : IbWF p) (ht : ibTypesWf p = true) (toggle dest reg : Nat)
    (req reply : Msg) (chunks : List Bytes) (s : List Seg) (wr : List Bytes) (rd : Nat)
    (hreqdef : req = { dest := dest, src := p.hostBase + ((toggle + 1) &&& 1), mtype := p.tRead, reg := reg, data := [] })
    (hreq : Valid p req) (hsrc : reply.src = dest) (hdst : reply.dest = req.src) (hd : reply.dest < 256) (hs : reply.src < 256)
    (hty : reply.mtype = p.tDatagram) (hrg : reply.reg = reg)
    (hne : ∀ c ∈ chunks, c ≠ []) (hflat : chunks.flatten = frame p reply) :
    getRegister p toggle dest reg { buf := [], script := chunks.map Seg.data ++ s, written := wr, reads := rd }
      = (.ok reply.data, (toggle + 1) &&& 1, { buf := [], script := s, written := wr ++ [frame p req], reads := rd + 1 }) := by
  simp only [ibTypesWf, Bool.and_eq_true, bne_iff_ne, ne_eq, List.contains_eq_mem, List.all_eq_true, decide_eq_true_eq] at ht
  obtain ⟨⟨⟨⟨⟨⟨⟨⟨t1, t2⟩, t3⟩, t4⟩, t5⟩, t6⟩, t7⟩, t8⟩, t9⟩ := ht
  have hregv : reg < 256 := by have := hreq.reg; rw [hreqdef] at this; exact this
  have hrep : Decodable p reply := ⟨hd, hs, by rw [hty]; exact ⟨by simpa using t6, t9 _ (by simpa using t6)⟩, by rw [hrg]; exact hregv⟩
  have hrr := request_response_delivers p h toggle dest p.tRead reg [] req reply chunks s wr rd hreqdef hreq hrep
    (by rw [hsrc, hreqdef]) hdst hne hflat
  unfold getRegister
  rw [hrr]
  simp only
  rw [if_neg (by rw [hty]; exact fun e => t1 e.symm), if_neg (by simp [hty]), if_neg (by simp [hrg])]

/-- **`set_register` returns after the module's ACK** for the written register, whatever data was written -/
theorem setRegister_delivers (p : Params) (h : IbWF p) (ht : ibTypesWf p = true) (toggle dest reg : Nat) (data : Bytes)
    (req reply : Msg) (chunks : List Bytes) (s : List Seg) (wr : List Bytes) (rd : Nat)
    (hreqdef : req = { dest := dest, src := p.hostBase + ((toggle + 1) &&& 1), mtype := p.tWrite, reg := reg, data := data })
    (hreq : Valid p req) (hsrc : reply.src = dest) (hdst : reply.dest = req.src) (hd : reply.dest < 256) (hs : reply.src < 256)
    (hty : reply.mtype = p.tAck) (hrg : reply.reg = reg)
    (hne : ∀ c ∈ chunks, c ≠ []) (hflat : chunks.flatten = frame p reply) :
    setRegister p toggle dest reg data { buf := [], script := chunks.map Seg.data ++ s, written := wr, reads := rd }
      = (.ok (), (toggle + 1) &&& 1, { buf := [], script := s, written := wr ++ [frame p req], reads := rd + 1 }) := by
  simp only [ibTypesWf, Bool.and_eq_true, bne_iff_ne, ne_eq, List.contains_eq_mem, List.all_eq_true, decide_eq_true_eq] at ht
  obtain ⟨⟨⟨⟨⟨⟨⟨⟨t1, t2⟩, t3⟩, t4⟩, t5⟩, t6⟩, t7⟩, t8⟩, t9⟩ := ht
  have hregv : reg < 256 := by have := hreq.reg; rw [hreqdef] at this; exact this
  have hrep : Decodable p reply := ⟨hd, hs, by rw [hty]; exact ⟨by simpa using t5, t9 _ (by simpa using t5)⟩, by rw [hrg]; exact hregv⟩
  have hrr := request_response_delivers p h toggle dest p.tWrite reg data req reply chunks s wr rd hreqdef hreq hrep
    (by rw [hsrc, hreqdef]) hdst hne hflat
  unfold setRegister
  rw [hrr]
  simp only
  rw [if_neg (by rw [hty]; exact fun e => t2 e.symm), if_neg (by simp [hty]), if_neg (by simp [hrg])]


/-! ### non-vacuity: the hypotheses are met by the generated constants and by messages full of reserved bytes -/

theorem gen_interbus : IbWF Gen.Layouts.interbus := ibWF_of _ gen_interbus_wf

/-- a WRITE whose register and data are the three reserved bytes: valid, and the frame is the documented one -/
example : Valid Gen.Layouts.interbus ⟨13, 162, 5, 0x5e, [0x0a, 0x0d, 0x5e, 1, 2]⟩ := by
  refine ⟨?_, ?_, ?_, ?_, ?_⟩ <;> decide

example : frame Gen.Layouts.interbus ⟨5, 162, 5, 0x5e, [0x0a, 0x0d, 0x5e, 1, 2]⟩
    = [0x0d, 0x05, 0xa2, 0x05, 0x5e, 0x9e, 0x5e, 0x4a, 0x5e, 0x4d, 0x5e, 0x9e, 0x01, 0x02, 0xde, 0x87, 0x0a] := by decide +kernel

/-- a message whose CRC itself contains a reserved byte (0x0d): the escape reaches into the CRC -/
example : fullBody Gen.Layouts.interbus ⟨1, 161, 0, 0, [0x5b]⟩ = [1, 161, 0, 0, 0x5b, 0xdd, 0x0d]
    ∧ frame Gen.Layouts.interbus ⟨1, 161, 0, 0, [0x5b]⟩ = [0x0d, 1, 161, 0, 0, 0x5b, 0xdd, 0x5e, 0x4d, 0x0a] := by decide +kernel

/-- hypotheses of `corrupted_frame_rejected`: the type byte of a real frame content changed from 8 to 9 -/
example : fullBody Gen.Layouts.interbus ⟨161, 7, 8, 0x20, [0x5e]⟩ = [161, 7] ++ 8 :: [0x20, 0x5e, 0xc5, 0x64] ∧ (9 : UInt8) ≠ 8 := by
  decide +kernel

/-- hypotheses of `request_response_delivers`: a DATAGRAM reply cut into three transfers, one inside an escape pair -/
example : ([[0x0d, 0xa2, 0x07, 0x08], [0x20, 0x5e], [0x9e, 0x2b, 0xb6, 0x0a]] : List Bytes).flatten
      = frame Gen.Layouts.interbus ⟨162, 7, 8, 0x20, [0x5e]⟩
    ∧ Decodable Gen.Layouts.interbus ⟨162, 7, 8, 0x20, [0x5e]⟩ ∧ Valid Gen.Layouts.interbus ⟨7, 161 + ((0 + 1) &&& 1), 4, 0x20, []⟩ := by
  refine ⟨by decide +kernel, ⟨?_, ?_, ?_, ?_⟩, ⟨?_, ?_, ?_, ?_, ?_⟩⟩ <;> decide

/-- hypothesis of `bad_crc_rejected`: content with a non-zero residue exists -/
example : crcOf Gen.Layouts.interbus.crcPoly [1, 2, 3] ≠ 0 := by decide +kernel

/-- the `ok` branch of `request_response` is reached after a timeout, a damaged telegram and a mis-addressed one,
with the good reply cut into three transfers -/
example :
    (requestResponse Gen.Layouts.interbus 0 7 4 0x20 []
      { script := [.timeout, .data [0x0d, 0xa2, 0x07, 0x08, 0x20, 0x5e, 0x9e, 0x2b, 0xb7, 0x0a],
                   .data [0x0d, 0xa1, 0x07, 0x08, 0x20, 0x78, 0xde, 0x9f, 0x0a],
                   .data [0x0d, 0xa2, 0x07, 0x08], .data [0x20, 0x5e], .data [0x9e, 0x2b, 0xb6, 0x0a]] }).1.toOption
      = some ⟨162, 7, 8, 0x20, [0x5e]⟩ := by decide +kernel

/-- … and the error branch: eleven unanswered reads, then the exception -/
example : (requestResponse Gen.Layouts.interbus 1 7 4 0x20 [] {}).1.toOption = none
    ∧ (requestResponse Gen.Layouts.interbus 1 7 4 0x20 [] {}).2.2.reads = 11 := by decide +kernel

/-! ### the same, read for the constants of the current source -/

theorem gen_interbus_roundtrip (m : Msg) (hv : Valid Gen.Layouts.interbus m) :
    ∃ w, encode Gen.Layouts.interbus m = .ok w ∧ decode Gen.Layouts.interbus w = .ok m ∧ specDecode Gen.Layouts.interbus w = some m := by
  obtain ⟨w, h1, h2⟩ := decode_encode _ gen_interbus m hv
  obtain ⟨w', h1', h2'⟩ := device_decodes_request _ gen_interbus m hv
  rw [h1] at h1'; cases h1'
  exact ⟨w, h1, h2, h2'⟩

theorem gen_interbus_corruption_rejected (m : Msg) (pre post : Bytes) (b b' : UInt8)
    (hsplit : fullBody Gen.Layouts.interbus m = pre ++ b :: post) (hne : b' ≠ b) :
    decode Gen.Layouts.interbus ([Gen.Layouts.interbus.encSot] ++ escape Gen.Layouts.interbus (pre ++ b' :: post) ++ [Gen.Layouts.interbus.encEot])
      = .error .valueError :=
  corrupted_frame_rejected _ gen_interbus m pre post b b' hsplit hne

end Interbus

/-! # APT -/
section Apt
open QmiModel.Apt

/-- the header constants and layouts the wire theorems need (a `decide` obligation on the generated layouts) -/
structure AptWF (pr : Proto) : Prop where
  hs : pr.headerSize = 6
  hp : pr.hdrParams.cells = [⟨2, false⟩, ⟨1, false⟩, ⟨1, false⟩, ⟨1, false⟩, ⟨1, false⟩]
  hd : pr.hdrData.cells = [⟨2, false⟩, ⟨2, false⟩, ⟨1, false⟩, ⟨1, false⟩]
  hdSize : pr.hdrData.size = 6
  iId : pr.hdrData.cellIndex "message_id" = 0
  iLen : pr.hdrData.cellIndex "data_length" = 1
  flag : pr.dataFlag = 0x80

/-- the six header bytes of a data message -/
def dataHeader (id len dest source : Nat) : Bytes :=
  [UInt8.ofNat (id % 256), UInt8.ofNat (id / 256 % 256), UInt8.ofNat (len % 256), UInt8.ofNat (len / 256 % 256),
   UInt8.ofNat (dest % 256), UInt8.ofNat (source % 256)]

theorem pack_hdrData (id len d s : Nat) (h1 : id < 65536) (h2 : len < 65536) (h3 : d < 256) (h4 : s < 256) :
    pack [⟨2, false⟩, ⟨2, false⟩, ⟨1, false⟩, ⟨1, false⟩] [(id : Int), (len : Int), (d : Int), (s : Int)] = dataHeader id len d s := by
  simp only [pack, List.append_nil]
  rw [encCell_nat ⟨2, false⟩ id (by simpa using h1), encCell_nat ⟨2, false⟩ len (by simpa using h2),
      encCell_nat ⟨1, false⟩ d (by simpa using h3), encCell_nat ⟨1, false⟩ s (by simpa using h4)]
  simp [leBytes2, leBytes1, dataHeader]

/-- **`write_param_command`**: exactly the six header bytes id (little endian), param1, param2, dest, source -/
theorem write_param_wire (pr : Proto) (h : AptWF pr) (id p1 p2 : Nat) (h1 : id < 65536) (h2 : p1 < 256) (h3 : p2 < 256)
    (h4 : pr.devAddr < 256) (h5 : pr.hostAddr < 256) :
    writeParam pr id p1 p2 = [UInt8.ofNat (id % 256), UInt8.ofNat (id / 256 % 256), UInt8.ofNat (p1 % 256), UInt8.ofNat (p2 % 256),
                             UInt8.ofNat (pr.devAddr % 256), UInt8.ofNat (pr.hostAddr % 256)] := by
  unfold writeParam
  rw [h.hp]
  simp only [pack, List.append_nil]
  rw [encCell_nat ⟨2, false⟩ id (by simpa using h1), encCell_nat ⟨1, false⟩ p1 (by simpa using h2),
      encCell_nat ⟨1, false⟩ p2 (by simpa using h3), encCell_nat ⟨1, false⟩ _ (by simpa using h4),
      encCell_nat ⟨1, false⟩ _ (by simpa using h5)]
  simp [leBytes2, leBytes1]

/-- **`write_data_command`**: header = id, **length of the data**, **dest | 0x80**, source; then the data unchanged -/
theorem write_data_wire (pr : Proto) (h : AptWF pr) (id : Nat) (data : Bytes) (h1 : id < 65536) (h2 : data.length < 65536)
    (h4 : pr.devAddr < 256) (h5 : pr.hostAddr < 256) :
    writeData pr id data = dataHeader id data.length (pr.devAddr ||| 0x80) pr.hostAddr ++ data := by
  unfold writeData
  rw [h.hd, h.flag]
  have hor : pr.devAddr ||| 0x80 < 256 := Nat.or_lt_two_pow (n := 8) h4 (by decide)
  rw [pack_hdrData id data.length _ _ h1 h2 hor h5]

/-- **header-only reply**: the driver receives exactly the device's field values -/
theorem ask_header_only_roundtrip (pr : Proto) (h : AptWF pr) (l : Layout) (vs : List Int) (rest : Bytes)
    (ho : l.headerOnly = true) (hsz : cellsSize l.cells = l.size) (h6 : l.size = 6) (hr : AllInRange l.cells vs) :
    ask pr l (pack l.cells vs ++ rest) = (.ok vs, rest) := by
  have hl : (pack l.cells vs).length = 6 := by rw [pack_length, hsz, h6]
  unfold ask
  rw [h.hs, readN_append 6 _ _ hl]
  simp only [ho, if_true]
  unfold fromBuffer
  rw [if_neg (by omega)]
  have : (pack l.cells vs).take l.size = pack l.cells vs := by rw [List.take_of_length_le (by omega)]
  rw [this]
  have := unpack_pack l.cells vs hr []
  rw [List.append_nil] at this
  rw [this]

theorem unpack_dataHeader (id len d s : Nat) (h1 : id < 65536) (h2 : len < 65536) (h3 : d < 256) (h4 : s < 256) :
    unpack [⟨2, false⟩, ⟨2, false⟩, ⟨1, false⟩, ⟨1, false⟩] (dataHeader id len d s) = [(id : Int), (len : Int), (d : Int), (s : Int)] := by
  rw [← pack_hdrData id len d s h1 h2 h3 h4]
  have := unpack_pack [⟨2, false⟩, ⟨2, false⟩, ⟨1, false⟩, ⟨1, false⟩] [(id : Int), (len : Int), (d : Int), (s : Int)]
    ⟨inRange_nat 2 id (by simpa using h1), inRange_nat 2 len (by simpa using h2), inRange_nat 1 d (by simpa using h3),
     inRange_nat 1 s (by simpa using h4), trivial⟩ []
  rw [List.append_nil] at this
  exact this

/-- what `ask` does with a stream that starts with a well-formed data-message header followed by `len` bytes -/
theorem ask_data_message (pr : Proto) (h : AptWF pr) (l : Layout) (id d s : Nat) (data rest : Bytes)
    (ho : l.headerOnly = false) (h1 : id < 65536) (h2 : data.length < 65536) (h3 : d < 256) (h4 : s < 256) :
    ask pr l (dataHeader id data.length d s ++ data ++ rest) =
      if l.msgId ≠ id then (.error .instrument, rest) else (fromBuffer l data, rest) := by
  unfold ask
  rw [h.hs, List.append_assoc, readN_append 6 _ _ (by simp [dataHeader])]
  simp only [ho, Bool.false_eq_true, if_false]
  unfold fromBuffer
  rw [h.hdSize, if_neg (by simp [dataHeader])]
  have ht : (dataHeader id data.length d s).take 6 = dataHeader id data.length d s := by simp [dataHeader]
  rw [ht, h.hd, unpack_dataHeader id _ d s h1 h2 h3 h4]
  simp only [h.iId, h.iLen, List.getD_cons_zero, List.getD_cons_succ, Int.toNat_natCast]
  rw [readN_append _ _ _ rfl]
  simp only
  by_cases hid : l.msgId = id
  · subst hid; simp
  · have : (l.msgId : Int) ≠ (id : Int) := by omega
    simp [hid, this]

/-- **an APT data message with an unexpected id raises** (QMI_InstrumentException) instead of yielding data -/
theorem ask_checks_id (pr : Proto) (h : AptWF pr) (l : Layout) (id d s : Nat) (data rest : Bytes)
    (ho : l.headerOnly = false) (h1 : id < 65536) (h2 : data.length < 65536) (h3 : d < 256) (h4 : s < 256)
    (hid : id ≠ l.msgId) :
    ask pr l (dataHeader id data.length d s ++ data ++ rest) = (.error .instrument, rest) := by
  rw [ask_data_message pr h l id d s data rest ho h1 h2 h3 h4, if_pos (fun e => hid e.symm)]

/-- **data reply round trip**: the device sends header (expected id, length = `sizeof`, any addresses) and the packed
packet; the driver receives exactly the device's field values and the rest of the stream is untouched -/
theorem ask_data_roundtrip (pr : Proto) (h : AptWF pr) (l : Layout) (d s : Nat) (vs : List Int) (rest : Bytes)
    (ho : l.headerOnly = false) (hsz : cellsSize l.cells = l.size) (h1 : l.msgId < 65536) (h2 : l.size < 65536)
    (h3 : d < 256) (h4 : s < 256) (hr : AllInRange l.cells vs) :
    ask pr l (dataHeader l.msgId l.size d s ++ pack l.cells vs ++ rest) = (.ok vs, rest) := by
  have hl : (pack l.cells vs).length = l.size := by rw [pack_length, hsz]
  have := ask_data_message pr h l l.msgId d s (pack l.cells vs) rest ho h1 (by omega) h3 h4
  rw [hl] at this
  rw [this, if_neg (by simp)]
  unfold fromBuffer
  rw [if_neg (by omega), List.take_of_length_le (by omega)]
  have := unpack_pack l.cells vs hr []
  rw [List.append_nil] at this
  rw [this]


/-- **for every receive stream whatsoever**: if `ask` for a data packet returns a value, the message id in the
stream's header is the expected one (and enough bytes for the structure were announced and present) -/
theorem ask_ok_id (pr : Proto) (h : AptWF pr) (l : Layout) (buf rest : Bytes) (vs : List Int)
    (ho : l.headerOnly = false) (hok : ask pr l buf = (.ok vs, rest)) :
    leVal (buf.take 2) = l.msgId ∧ 6 + l.size ≤ buf.length := by
  by_cases hl : buf.length < 6
  · unfold ask at hok; rw [h.hs, readN_short 6 buf hl] at hok; simp at hok
  · have r1 := readN_ok 6 buf hl
    unfold ask at hok
    rw [h.hs, r1] at hok
    simp only [ho, Bool.false_eq_true, if_false] at hok
    have fb : fromBuffer pr.hdrData (buf.take 6) = .ok (unpack pr.hdrData.cells ((buf.take 6).take 6)) := by
      unfold fromBuffer; rw [h.hdSize, if_neg (by simp; omega)]
    rw [fb] at hok
    simp only at hok
    rw [h.hd, h.iId, h.iLen] at hok
    simp only [unpack, List.getD_cons_zero, List.getD_cons_succ] at hok
    generalize hlen : (decCell ⟨2, false⟩ (List.take 2 (List.drop 2 (List.take 6 (List.take 6 buf))))).toNat = len at hok
    have e : (decCell ⟨2, false⟩ (List.take 2 (List.take 6 (List.take 6 buf)))) = (leVal (buf.take 2) : Int) := by
      simp [decCell, List.take_take]
    rw [e] at hok
    by_cases hl2 : (buf.drop 6).length < len
    · rw [readN_short len _ hl2] at hok; simp at hok
    · rw [readN_ok len _ hl2] at hok
      simp only at hok
      split at hok
      · simp at hok
      · rename_i hid
        simp only [Decidable.not_not] at hid
        unfold fromBuffer at hok
        split at hok
        · simp at hok
        · rename_i hsz
          simp only [List.length_take, List.length_drop] at hsz hl2
          constructor
          · omega
          · omega


/-! ### obligations on the generated layouts -/

/-- the protocol object for the generated constants -/
def genProto (dev host : Nat) : Proto :=
  { headerSize := Gen.Layouts.aptHeaderSize, hdrParams := Gen.Layouts.aptHdrParams, hdrData := Gen.Layouts.aptHdrData,
    dataFlag := Gen.Layouts.aptDataFlag, devAddr := dev, hostAddr := host }

/-- `HEADER_SIZE_BYTES`, the two header structures and the `| 0x80` of the current source are the documented ones -/
theorem gen_apt_headers :
    Gen.Layouts.aptHeaderSize = 6 ∧
    Gen.Layouts.aptHdrParams.cells = [⟨2, false⟩, ⟨1, false⟩, ⟨1, false⟩, ⟨1, false⟩, ⟨1, false⟩] ∧
    Gen.Layouts.aptHdrData.cells = [⟨2, false⟩, ⟨2, false⟩, ⟨1, false⟩, ⟨1, false⟩] ∧
    Gen.Layouts.aptHdrData.size = 6 ∧
    Gen.Layouts.aptHdrData.cellIndex "message_id" = 0 ∧ Gen.Layouts.aptHdrData.cellIndex "data_length" = 1 ∧
    Gen.Layouts.aptDataFlag = 0x80 := by decide

theorem gen_apt_proto (dev host : Nat) : AptWF (genProto dev host) := by
  obtain ⟨h1, h2, h3, h4, h5, h6, h7⟩ := gen_apt_headers
  exact ⟨h1, h2, h3, h4, h5, h6, h7⟩

/-- every packet class of `apt_packets` (and both headers): fields contiguous from offset 0 (no padding, no overlap),
`sizeof` = sum of the cells, id and size fit the 16-bit header fields, header-only packets have the header's size -/
theorem gen_apt_layouts :
    ∀ l ∈ Gen.Layouts.aptHdrParams :: Gen.Layouts.aptHdrData :: Gen.Layouts.aptPackets,
      l.Contiguous ∧ cellsSize l.cells = l.size ∧ l.msgId < 65536 ∧ l.size < 65536 ∧ (l.headerOnly = true → l.size = 6) := by
  decide

/-! ### the same, read for every packet class of the current source -/

theorem gen_apt_ask_roundtrip (dev host d s : Nat) (l : Layout) (hl : l ∈ Gen.Layouts.aptPackets) (vs : List Int) (rest : Bytes)
    (h3 : d < 256) (h4 : s < 256) (hr : AllInRange l.cells vs) :
    (l.headerOnly = false → ask (genProto dev host) l (dataHeader l.msgId l.size d s ++ pack l.cells vs ++ rest) = (.ok vs, rest)) ∧
    (l.headerOnly = true → ask (genProto dev host) l (pack l.cells vs ++ rest) = (.ok vs, rest)) := by
  obtain ⟨_, hsz, hid, hsize, hho⟩ := gen_apt_layouts l (List.mem_cons_of_mem _ (List.mem_cons_of_mem _ hl))
  exact ⟨fun ho => ask_data_roundtrip _ (gen_apt_proto dev host) l d s vs rest ho hsz hid hsize h3 h4 hr,
         fun ho => ask_header_only_roundtrip _ (gen_apt_proto dev host) l vs rest ho hsz (hho ho) hr⟩

theorem gen_apt_ask_checks_id (dev host : Nat) (l : Layout) (buf rest : Bytes) (vs : List Int) (ho : l.headerOnly = false)
    (hok : ask (genProto dev host) l buf = (.ok vs, rest)) : leVal (buf.take 2) = l.msgId :=
  (ask_ok_id _ (gen_apt_proto dev host) l buf rest vs ho hok).1

theorem gen_apt_write_data (dev host id : Nat) (data : Bytes) (h1 : id < 65536) (h2 : data.length < 65536)
    (h4 : dev < 256) (h5 : host < 256) :
    writeData (genProto dev host) id data = dataHeader id data.length (dev ||| 0x80) host ++ data :=
  write_data_wire _ (gen_apt_proto dev host) id data h1 h2 h4 h5

/-! ### non-vacuity -/

example : AllInRange [⟨2, false⟩, ⟨4, true⟩] [1, -5] := ⟨by decide, by decide, trivial⟩
example : pack [⟨2, false⟩, ⟨4, true⟩] [1, -5] = [1, 0, 0xfb, 0xff, 0xff, 0xff] := by decide
example : writeData (genProto 0x50 1) 0x0453 [1, 0, 0xfb, 0xff, 0xff, 0xff]
    = [0x53, 0x04, 0x06, 0x00, 0xd0, 0x01, 1, 0, 0xfb, 0xff, 0xff, 0xff] := by decide
example : Gen.Layouts.aptPackets.length > 0 ∧ Gen.Layouts.aptPackets.any (fun l => !l.headerOnly) = true := by decide

/-- hypothesis of `ask_ok_id` / `gen_apt_ask_checks_id`: `ask` does return values on a well-formed stream -/
example : (ask (genProto 0x50 1) ⟨"MOT_MOVE_ABSOLUTE", 0x0453, false, 6,
        [⟨"chan_ident", 0, ⟨2, false⟩, 1, false⟩, ⟨"absolute_distance", 2, ⟨4, true⟩, 1, false⟩]⟩
      [0x53, 0x04, 6, 0, 0x81, 0x50, 1, 0, 0xfb, 0xff, 0xff, 0xff, 0xaa]).1.toOption = some [1, -5] := by decide +kernel

end Apt

/-! # T2 event stream -/
section T2
open QmiModel.T2

/-- **a stream cut in two**: processing `a ++ b` = processing `a`, then `b` with the carried counter -/
theorem process_append (p : Params) (c : Nat) (a b : List Nat) :
    process p c (a ++ b) =
      ((process p (process p c a).1 b).1, (process p c a).2 ++ (process p (process p c a).1 b).2) := by
  induction a generalizing c with
  | nil => simp [process_nil]
  | cons r rs ih =>
    simp only [List.cons_append, process_cons]
    split
    · exact ih _
    · simp [ih]

/-- **batch-split invariance**: however the record stream is cut into batches (empty batches included), the decoder
fed batch after batch returns, concatenated, exactly what it returns for the whole stream, and carries the same counter -/
theorem batch_split_invariance (p : Params) (c : Nat) (batches : List (List Nat)) :
    processBatches p c batches = process p c batches.flatten := by
  induction batches generalizing c with
  | nil => rfl
  | cons b bs ih =>
    simp only [processBatches, List.flatten_cons, process_append, ih]

/-- the carried counter after a batch = carried counter before + the overflow counts of the batch -/
theorem counter_spec (p : Params) (c : Nat) (rs : List Nat) : (process p c rs).1 = c + overflowSum p rs := by
  induction rs generalizing c with
  | nil => simp [process_nil, overflowSum]
  | cons r rs ih =>
    rw [process_cons]
    unfold overflowSum at *
    split
    · rename_i h; rw [ih]; simp [h]; omega
    · rename_i h; simp only [ih]; simp [h]

/-- **timestamp of every event**: a non-overflow record `r` preceded (in this batch) by the records `pre` yields
`(type r, (carried + Σ overflow counts in pre) · period + tag r)`, placed after the events of `pre` -/
theorem timestamp_spec (p : Params) (c : Nat) (pre post : List Nat) (r : Nat) (hr : isOverflow p r = false) :
    (process p c (pre ++ r :: post)).2 =
      (process p c pre).2 ++
        ⟨recType p r, (c + overflowSum p pre) * p.period + recTag p r⟩ :: (process p (c + overflowSum p pre) post).2 := by
  rw [process_append, process_cons]
  simp [hr, counter_spec]

/-- overflow records yield no event, every other record yields exactly one -/
theorem events_length (p : Params) (c : Nat) (rs : List Nat) :
    (process p c rs).2.length = (rs.filter (fun r => !isOverflow p r)).length := by
  induction rs generalizing c with
  | nil => rfl
  | cons r rs ih =>
    rw [process_cons]
    split
    · rename_i h; simp [h, ih]
    · rename_i h; simp [h, ih]

/-- the record-format constants under which tag and type are the documented bit fields -/
def t2Wf (p : Params) : Bool :=
  p.typeShift == 25 && p.tagMask == 2 ^ 25 - 1 && p.overflowType == 0x7f && p.period == 2 ^ 25

theorem gen_t2_wf : t2Wf Gen.Layouts.t2 = true := by decide

/-- with the generated constants: tag = bits 24..0, type = bits 31..25 (special flag and channel) -/
theorem fields_spec (p : Params) (h : t2Wf p = true) (r : Nat) (hr : r < 2 ^ 32) :
    recTag p r = r % 2 ^ 25 ∧ recType p r = r / 2 ^ 25 ∧ (isOverflow p r = true ↔ r / 2 ^ 25 = 127) ∧ p.period = 2 ^ 25 := by
  simp only [t2Wf, Bool.and_eq_true, beq_iff_eq] at h
  obtain ⟨⟨⟨h1, h2⟩, h3⟩, h4⟩ := h
  unfold isOverflow recTag recType
  rw [h1, h2, h3, h4, Nat.and_two_pow_sub_one_eq_mod, Nat.shiftRight_eq_div_pow]
  have : r / 2 ^ 25 < 256 := by omega
  rw [Nat.mod_eq_of_lt this]
  simp

/-- the 25-bit tag never spills into the overflow part: a timestamp determines counter and tag uniquely -/
theorem timestamp_decomposes (p : Params) (h : t2Wf p = true) (c r : Nat) :
    (c * p.period + recTag p r) / p.period = c ∧ (c * p.period + recTag p r) % p.period = recTag p r := by
  simp only [t2Wf, Bool.and_eq_true, beq_iff_eq] at h
  obtain ⟨⟨⟨_, h2⟩, _⟩, h4⟩ := h
  unfold recTag
  rw [h2, h4, Nat.and_two_pow_sub_one_eq_mod]
  have : r % 2 ^ 25 < 2 ^ 25 := Nat.mod_lt _ (by decide)
  constructor
  · rw [Nat.mul_comm, Nat.mul_add_div (by decide), Nat.div_eq_of_lt this]; rfl
  · rw [Nat.mul_comm, Nat.mul_add_mod, Nat.mod_eq_of_lt this]


/-! ### non-vacuity: photon, 2 overflows, photon, SYNC; then a second batch continues with the carried counter -/

example : process Gen.Layouts.t2 0 [5, 0xFE000002, 7, 0x80000001]
    = (2, [⟨0, 5⟩, ⟨0, 2 * 2 ^ 25 + 7⟩, ⟨64, 2 * 2 ^ 25 + 1⟩]) := by decide

example : processBatches Gen.Layouts.t2 0 [[5, 0xFE000002], [], [7, 0x80000001]]
    = process Gen.Layouts.t2 0 [5, 0xFE000002, 7, 0x80000001] := by decide

end T2

end QmiModel.C15B
