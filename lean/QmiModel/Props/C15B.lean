import QmiModel.Lemmas.C15B
import QmiModel.Gen.Layouts
/-!
# C15 (part B) — Interbus frames, APT packets, T2 event stream: payloads carried unchanged, corrupted replies rejected

Property theorems only (helper lemmas: `Lemmas/C15B.lean`).  Every statement quantifies over **all** payloads, all
lengths, all scripts/streams — no bounds.  The theorems are generic in the protocol constants; the constants and packet
layouts found in the *current* source are regenerated into `Gen/Layouts.lean`, and `gen_*` theorems discharge the
(decidable) side conditions for them by `decide`.
-/
namespace QmiModel.C15B

/-! # Interbus -/
section Interbus
open QmiModel.Interbus

/-- the decidable well-formedness conditions on the Interbus constants under which the theorems hold -/
def ibWf (p : Params) : Bool :=
  p.encEsc == p.decEsc && p.encOff == p.decOff && p.encSot == p.decSot && p.encEot == p.decEot && p.readTerm == p.encEot && p.encSot != p.readTerm
  && (match escChain p.encEsc p.encOff [] p.escOrder with
      | some qs => unescChain p.encEsc p.encOff qs p.unescOrder == some []
                   && qs.contains p.readTerm && p.encEsc != p.readTerm && qs.all (fun b => b + p.encOff != p.readTerm)
                   && qs.contains p.encEsc
      | none => false)
  && decide (p.minFrame ≤ 8) && decide (p.minBody ≤ 6) && decide (p.crcPoly % 2 = 1) && decide (p.crcPoly < 65536)
  && decide (p.dstHi < 256) && decide (p.srcHi < 256)

theorem gen_interbus_wf : ibWf Gen.Layouts.interbus = true := by decide

structure IbWF (p : Params) : Prop where
  esc : p.decEsc = p.encEsc
  off : p.decOff = p.encOff
  sot : p.decSot = p.encSot
  eot : p.decEot = p.encEot
  term : p.readTerm = p.encEot
  sotNe : p.encSot ≠ p.readTerm
  chain : ∃ qs, escChain p.encEsc p.encOff [] p.escOrder = some qs ∧ unescChain p.encEsc p.encOff qs p.unescOrder = some []
      ∧ qs.contains p.readTerm = true ∧ p.encEsc ≠ p.readTerm ∧ qs.all (fun b => b + p.encOff != p.readTerm) = true
      ∧ qs.contains p.encEsc = true
  minFrame : p.minFrame ≤ 8
  minBody : p.minBody ≤ 6
  odd : p.crcPoly % 2 = 1
  poly : p.crcPoly < 65536
  dstHi : p.dstHi < 256
  srcHi : p.srcHi < 256

theorem ibWF_of (p : Params) (h : ibWf p = true) : IbWF p := by
  unfold ibWf at h
  simp only [Bool.and_eq_true, beq_iff_eq, decide_eq_true_eq] at h
  obtain ⟨⟨⟨⟨⟨⟨⟨⟨⟨⟨⟨⟨h1, h2⟩, h3⟩, h4⟩, h5⟩, h5b⟩, h6⟩, h7⟩, h8⟩, h9⟩, h10⟩, h11⟩, h12⟩ := h
  split at h6
  · rename_i qs hq
    simp only [Bool.and_eq_true, beq_iff_eq, bne_iff_ne, ne_eq] at h6
    exact ⟨h1.symm, h2.symm, h3.symm, h4.symm, h5, by simpa using h5b, ⟨qs, hq, h6.1.1.1.1, h6.1.1.1.2, h6.1.1.2, h6.1.2, h6.2⟩, h7, h8, h9, h10, h11, h12⟩
  · cases h6


/-! ## Interbus: escaping -/

theorem escape_eq (p : Params) (h : IbWF p) :
    ∃ qs, (∀ bs, escape p bs = escSet p.encEsc p.encOff qs bs) ∧ (∀ bs, unescape p (escSet p.encEsc p.encOff qs bs) = bs)
      ∧ qs.contains p.readTerm = true ∧ p.encEsc ≠ p.readTerm ∧ qs.all (fun b => b + p.encOff != p.readTerm) = true
      ∧ qs.contains p.encEsc = true := by
  obtain ⟨qs, h1, h2, h3, h4, h5, h6⟩ := h.chain
  refine ⟨qs, ?_, ?_, h3, h4, h5, h6⟩
  · intro bs
    have := foldl_escChain p.encEsc p.encOff p.escOrder [] qs h1 bs
    rw [escSet_empty] at this
    exact this
  · intro bs
    have := foldl_unescChain p.encEsc p.encOff p.unescOrder qs [] h2 bs
    rw [escSet_empty] at this
    unfold unescape
    rw [h.esc, h.off]
    exact this

/-- **un-escaping undoes escaping**, for every byte string, with the code's sequential `replace` passes -/
theorem unescape_escape (p : Params) (h : IbWF p) (bs : Bytes) : unescape p (escape p bs) = bs := by
  obtain ⟨qs, h1, h2, _⟩ := escape_eq p h
  rw [h1, h2]

/-- the escaped stream never contains the terminator `read_until` waits for -/
theorem escape_no_terminator (p : Params) (h : IbWF p) (bs : Bytes) : p.readTerm ∉ escape p bs := by
  obtain ⟨qs, h1, _, h3, h4, h5, _⟩ := escape_eq p h
  rw [h1]
  exact not_mem_escSet _ _ _ qs h3 h4 h5 bs

/-- **a conforming device un-escapes QMI's output to exactly the original bytes** (one-pass procedure of the manual) -/
theorem device_unescapes (p : Params) (h : IbWF p) (bs : Bytes) :
    specUnescape p.encEsc p.encOff (escape p bs) = some bs := by
  obtain ⟨qs, h1, _, _, _, _, h6⟩ := escape_eq p h
  rw [h1]
  exact specUnescape_escSet _ _ qs h6 bs

theorem length_le_escape (p : Params) (h : IbWF p) (bs : Bytes) : bs.length ≤ (escape p bs).length := by
  obtain ⟨qs, h1, _⟩ := escape_eq p h
  rw [h1]
  exact length_le_escSet _ _ qs bs

/-! ## Interbus: CRC -/

/-- the CRC state stays a 16-bit value: `bytes([crc // 256, crc % 256])` cannot fail -/
theorem crc_lt (p : Params) (h : IbWF p) (bs : Bytes) : crcOf p.crcPoly bs < 65536 := crcOf_lt _ h.poly bs

/-- **residue**: a message followed by its own CRC (high byte, low byte) has CRC 0 -/
theorem crc_appended_is_zero (p : Params) (h : IbWF p) (bs : Bytes) :
    crcOf p.crcPoly (bs ++ [UInt8.ofNat (crcOf p.crcPoly bs / 256), UInt8.ofNat (crcOf p.crcPoly bs % 256)]) = 0 :=
  crcOf_append_crc _ h.poly bs

/-- **every single-byte change is seen by the CRC** -/
theorem crc_detects_single_byte (p : Params) (h : IbWF p) (pre post : Bytes) (b b' : UInt8) (hne : b ≠ b') :
    crcOf p.crcPoly (pre ++ b :: post) ≠ crcOf p.crcPoly (pre ++ b' :: post) :=
  crcOf_single_byte _ h.odd h.poly pre post b b' hne

/-! ## Interbus: frames -/

/-- what the code's range checks accept, plus a member of `MessageType` and a register that fits a byte -/
structure Valid (p : Params) (m : Msg) : Prop where
  dst : p.dstLo ≤ m.dest ∧ m.dest ≤ p.dstHi
  src : p.srcLo ≤ m.src ∧ m.src ≤ p.srcHi
  len : m.data.length ≤ p.maxData
  typ : m.mtype ∈ p.msgTypes ∧ m.mtype < 256
  reg : m.reg < 256

/-- what the *decoder* can give back: fields that fit a byte and a known message type — no address ranges, no data
limit (a reply travels module → host, so its addresses are outside the encoder's ranges) -/
structure Decodable (p : Params) (m : Msg) : Prop where
  dst : m.dest < 256
  src : m.src < 256
  typ : m.mtype ∈ p.msgTypes ∧ m.mtype < 256
  reg : m.reg < 256

theorem Valid.decodable {p : Params} (h : IbWF p) {m : Msg} (hv : Valid p m) : Decodable p m :=
  ⟨by have := h.dstHi; have := hv.dst.2; omega, by have := h.srcHi; have := hv.src.2; omega, hv.typ, hv.reg⟩

/-- the unescaped content of the frame of `m` -/
def fullBody (p : Params) (m : Msg) : Bytes :=
  body m ++ [UInt8.ofNat (crcOf p.crcPoly (body m) / 256), UInt8.ofNat (crcOf p.crcPoly (body m) % 256)]

/-- the frame the encoder produces for `m` -/
def frame (p : Params) (m : Msg) : Bytes := [p.encSot] ++ escape p (fullBody p m) ++ [p.encEot]

theorem encode_valid (p : Params) (h : IbWF p) (m : Msg) (hv : Valid p m) : encode p m = .ok (frame p m) := by
  have hd := h.dstHi
  have hs := h.srcHi
  have hc := crc_lt p h (body m)
  unfold encode frame fullBody
  rw [if_neg (by simp [hv.dst.1, hv.dst.2]), if_neg (by simp [hv.src.1, hv.src.2]), if_neg (by simp [hv.len]),
      if_neg (by have := hv.dst.2; have := hv.src.2; have := hv.typ.2; have := hv.reg; simp; omega)]
  simp only
  rw [if_neg (by simp; omega)]

/-- **the decoder recovers every frame**: any fields that fit a byte, any known type, data of *any* length and content -/
theorem decode_frame (p : Params) (h : IbWF p) (m : Msg) (hv : Decodable p m) : decode p (frame p m) = .ok m := by
  have hlen := length_le_escape p h (fullBody p m)
  have hfl : (fullBody p m).length = m.data.length + 6 := by simp [fullBody, body]
  have hd := hv.dst
  have hs := hv.src
  unfold decode frame
  rw [if_neg (by have := h.minFrame; simp; omega)]
  have hlast : ([p.encSot] ++ escape p (fullBody p m) ++ [p.encEot]).getLast? = some p.encEot := by
    rw [List.getLast?_append]; simp
  rw [if_neg (by rw [hlast]; simp [h.sot, h.eot])]
  have hinner : (([p.encSot] ++ escape p (fullBody p m) ++ [p.encEot]).drop 1).dropLast = escape p (fullBody p m) := by
    simp [List.dropLast_append_of_ne_nil]
  simp only [hinner, unescape_escape p h]
  rw [if_neg (by have := h.minBody; omega)]
  have hcrc : crcOf p.crcPoly (fullBody p m) = 0 := crc_appended_is_zero p h (body m)
  rw [if_neg (by simp [hcrc])]
  have htake : (fullBody p m).take ((fullBody p m).length - 2) = body m := by
    unfold fullBody
    rw [List.length_append]
    simp
  simp only [htake]
  have e0 : ((body m).getD 0 0).toNat = m.dest := by simp [body]; omega
  have e1 : ((body m).getD 1 0).toNat = m.src := by simp [body]; omega
  have e2 : ((body m).getD 2 0).toNat = m.mtype := by have := hv.typ.2; simp [body]; omega
  have e3 : ((body m).getD 3 0).toNat = m.reg := by have := hv.reg; simp [body]; omega
  have e4 : (body m).drop 4 = m.data := by simp [body]
  rw [e0, e1, e2, e3, e4, if_neg (by simp [hv.typ.1])]

/-- **round trip**: every valid message (any data up to the limit, reserved bytes anywhere, also inside the CRC)
is encoded, and decoding the frame gives the message back -/
theorem decode_encode (p : Params) (h : IbWF p) (m : Msg) (hv : Valid p m) :
    ∃ w, encode p m = .ok w ∧ decode p w = .ok m :=
  ⟨_, encode_valid p h m hv, decode_frame p h m (hv.decodable h)⟩


/-- a conforming device's reading of a telegram (NKT SDK manual ch. 2): SOT, one-pass un-escaping, EOT, the CRC recomputed
over everything but the last two bytes and compared with them (high byte first) — written independently of the
decoder of the code -/
def specDecode (p : Params) (w : Bytes) : Option Msg :=
  match w with
  | [] => none
  | s :: t =>
    if s ≠ p.encSot ∨ t.getLast? ≠ some p.encEot then none
    else match specUnescape p.encEsc p.encOff t.dropLast with
      | none => none
      | some u =>
        if u.length < 6 then none
        else
          let b := u.take (u.length - 2)
          let c := u.drop (u.length - 2)
          if crcOf p.crcPoly b ≠ (c.getD 0 0).toNat * 256 + (c.getD 1 0).toNat then none
          else some ⟨(b.getD 0 0).toNat, (b.getD 1 0).toNat, (b.getD 2 0).toNat, (b.getD 3 0).toNat, b.drop 4⟩

/-- **a conforming device decodes from QMI's output exactly what the driver asked to send**: every valid request,
any data up to the limit, reserved bytes anywhere (also inside the CRC) -/
theorem device_decodes_request (p : Params) (h : IbWF p) (m : Msg) (hv : Valid p m) :
    ∃ w, encode p m = .ok w ∧ specDecode p w = some m := by
  refine ⟨_, encode_valid p h m hv, ?_⟩
  have hdec := hv.decodable h
  have hc := crc_lt p h (body m)
  unfold specDecode frame
  simp only [List.cons_append, List.nil_append]
  rw [if_neg (by simp)]
  rw [List.dropLast_concat, device_unescapes p h]
  simp only
  have hfl : (fullBody p m).length = m.data.length + 6 := by simp [fullBody, body]
  rw [if_neg (by omega)]
  have htake : (fullBody p m).take ((fullBody p m).length - 2) = body m := by
    unfold fullBody; rw [List.length_append]; simp
  have hdrop : (fullBody p m).drop ((fullBody p m).length - 2)
      = [UInt8.ofNat (crcOf p.crcPoly (body m) / 256), UInt8.ofNat (crcOf p.crcPoly (body m) % 256)] := by
    unfold fullBody; rw [List.length_append]; simp
  simp only [htake, hdrop]
  have e0 : ((body m).getD 0 0).toNat = m.dest := by have := hdec.dst; simp [body]; omega
  have e1 : ((body m).getD 1 0).toNat = m.src := by have := hdec.src; simp [body]; omega
  have e2 : ((body m).getD 2 0).toNat = m.mtype := by have := hdec.typ.2; simp [body]; omega
  have e3 : ((body m).getD 3 0).toNat = m.reg := by have := hdec.reg; simp [body]; omega
  have e4 : (body m).drop 4 = m.data := by simp [body]
  rw [if_neg (by simp; omega), e0, e1, e2, e3, e4]

/-- the decoder raises nothing but ValueError -/
theorem decode_error_kind (p : Params) (w : Bytes) (e : Exc) (h : decode p w = .error e) : e = .valueError := by
  unfold decode at h
  split at h; · cases h; rfl
  split at h; · cases h; rfl
  simp only at h
  split at h; · cases h; rfl
  split at h; · cases h; rfl
  split at h; · cases h; rfl
  cases h

/-- **soundness of the decoder**: an accepted frame has the right delimiters, CRC residue 0 over its unescaped
content, a known message type, and the returned fields are exactly the bytes of that content -/
theorem decode_ok (p : Params) (w : Bytes) (m : Msg) (h : decode p w = .ok m) :
    let u := unescape p ((w.drop 1).dropLast)
    w.head? = some p.decSot ∧ w.getLast? = some p.decEot ∧ p.minBody ≤ u.length ∧ crcOf p.crcPoly u = 0 ∧
    m.mtype ∈ p.msgTypes ∧
    m = { dest := ((u.take (u.length - 2)).getD 0 0).toNat, src := ((u.take (u.length - 2)).getD 1 0).toNat,
          mtype := ((u.take (u.length - 2)).getD 2 0).toNat, reg := ((u.take (u.length - 2)).getD 3 0).toNat,
          data := (u.take (u.length - 2)).drop 4 } := by
  unfold decode at h
  split at h; · cases h
  split at h; · cases h
  rename_i h2
  simp only at h
  split at h; · cases h
  rename_i h3
  split at h; · cases h
  rename_i h4
  split at h; · cases h
  rename_i h5
  simp only [Except.ok.injEq] at h
  simp only [Decidable.not_not] at h2 h4 h5
  refine ⟨h2.1, h2.2, by omega, h4, ?_, h.symm⟩
  rw [← h]; exact h5

/-- **a wrong checksum is rejected**: whatever content with a non-zero CRC residue is framed, the decoder raises -/
theorem bad_crc_rejected (p : Params) (h : IbWF p) (u : Bytes) (hcrc : crcOf p.crcPoly u ≠ 0) :
    decode p ([p.encSot] ++ escape p u ++ [p.encEot]) = .error .valueError := by
  cases hd : decode p ([p.encSot] ++ escape p u ++ [p.encEot]) with
  | error e => rw [decode_error_kind p _ e hd]
  | ok m =>
    exfalso
    have := (decode_ok p _ m hd).2.2.2.1
    have hinner : (([p.encSot] ++ escape p u ++ [p.encEot]).drop 1).dropLast = escape p u := by
      simp [List.dropLast_append_of_ne_nil]
    rw [hinner, unescape_escape p h] at this
    exact hcrc this

/-- **single-field corruption**: change any one byte of the content of a valid frame (address, type, register, data
or CRC byte) — the decoder raises -/
theorem corrupted_frame_rejected (p : Params) (h : IbWF p) (m : Msg) (pre post : Bytes) (b b' : UInt8)
    (hsplit : fullBody p m = pre ++ b :: post) (hne : b' ≠ b) :
    decode p ([p.encSot] ++ escape p (pre ++ b' :: post) ++ [p.encEot]) = .error .valueError := by
  apply bad_crc_rejected p h
  have h0 : crcOf p.crcPoly (pre ++ b :: post) = 0 := by rw [← hsplit]; exact crc_appended_is_zero p h (body m)
  have := crc_detects_single_byte p h pre post b' b hne
  rw [h0] at this
  exact this



/-! ## Interbus: exactly which frames are accepted -/

/-- the extra (decidable) conditions of the exact acceptance theorem: the decoder's second length test is exactly 6
(fewer bytes would index past the content) and the CRC table of the polynomial has no zero low byte -/
def ibStrictWf (p : Params) : Bool := p.minBody == 6 && crcTableOk p.crcPoly

theorem gen_interbus_strict : ibStrictWf Gen.Layouts.interbus = true := by decide +kernel

/-- **what exactly the decoder accepts**: a frame is decoded to `m` iff it has the delimiters and its content — *as the
code un-escapes it* — is the body of `m` followed by the correct CRC of that body, with a known message type.
So no content with a wrong checksum is ever accepted; the frames accepted beyond those a conforming device sends are
exactly the other spellings `inner ≠ escape (fullBody m)` of a correctly check-summed telegram (a reserved byte left
un-escaped, an escape byte followed by no escape code taken literally). -/
theorem decode_accepts_iff (p : Params) (h : IbWF p) (hs : ibStrictWf p = true) (w : Bytes) (m : Msg) :
    decode p w = .ok m ↔
      (w.head? = some p.encSot ∧ w.getLast? = some p.encEot ∧
       unescape p ((w.drop 1).dropLast) = fullBody p m ∧ Decodable p m) := by
  simp only [ibStrictWf, Bool.and_eq_true, beq_iff_eq] at hs
  obtain ⟨hmb, htab⟩ := hs
  constructor
  · intro hd
    obtain ⟨h1, h2, h3, h4, h5, h6⟩ := decode_ok p w m hd
    rw [h.sot] at h1; rw [h.eot] at h2
    generalize hu : unescape p ((w.drop 1).dropLast) = u at *
    have hlen : 6 ≤ u.length := by omega
    -- split the content into body and the two CRC bytes
    obtain ⟨c1, c2, hc12⟩ : ∃ c1 c2, u.drop (u.length - 2) = [c1, c2] := by
      have hl2 : (u.drop (u.length - 2)).length = 2 := by simp; omega
      match hd2 : u.drop (u.length - 2), hl2 with
      | [a, b], _ => exact ⟨a, b, rfl⟩
    have hsplit : u = u.take (u.length - 2) ++ [c1, c2] := by
      rw [← hc12]; exact (List.take_append_drop _ _).symm
    generalize hb : u.take (u.length - 2) = b at *
    have hbl : 4 ≤ b.length := by rw [← hb, List.length_take]; omega
    rw [hsplit] at h4
    have hcrc := crcOf_residue_unique p.crcPoly h.odd h.poly htab b _ _ h4
    have hb4 := list_split4 b hbl
    have hbody : body m = b := by
      rw [h6]; unfold body
      simp only [UInt8.ofNat_toNat]
      exact hb4.symm
    refine ⟨h1, h2, ?_, ?_⟩
    · unfold fullBody
      rw [hbody, ← hcrc.1, ← hcrc.2]; exact hsplit
    · rw [h6]
      exact ⟨UInt8.toNat_lt _, UInt8.toNat_lt _, ⟨by rw [h6] at h5; exact h5, UInt8.toNat_lt _⟩, UInt8.toNat_lt _⟩
  · rintro ⟨h1, h2, h3, hdec⟩
    have hfl : (fullBody p m).length = m.data.length + 6 := by simp [fullBody, body]
    have hle := length_unescape_le p ((w.drop 1).dropLast)
    rw [h3, hfl] at hle
    simp only [List.length_dropLast, List.length_drop] at hle
    unfold decode
    rw [if_neg (by have := h.minFrame; omega), if_neg (by simp [h.sot, h.eot, h1, h2])]
    simp only [h3]
    rw [if_neg (by omega)]
    have hcrc : crcOf p.crcPoly (fullBody p m) = 0 := crc_appended_is_zero p h (body m)
    rw [if_neg (by simp [hcrc])]
    have htake : (fullBody p m).take ((fullBody p m).length - 2) = body m := by
      unfold fullBody; rw [List.length_append]; simp
    simp only [htake]
    have e0 : ((body m).getD 0 0).toNat = m.dest := by have := hdec.dst; simp [body]; omega
    have e1 : ((body m).getD 1 0).toNat = m.src := by have := hdec.src; simp [body]; omega
    have e2 : ((body m).getD 2 0).toNat = m.mtype := by have := hdec.typ.2; simp [body]; omega
    have e3 : ((body m).getD 3 0).toNat = m.reg := by have := hdec.reg; simp [body]; omega
    have e4 : (body m).drop 4 = m.data := by simp [body]
    rw [e0, e1, e2, e3, e4, if_neg (by simp [hdec.typ.1])]

/-- the class that slips through is not empty: a raw CR and a literal escape byte inside a frame whose checksum is right
for the literal reading — accepted, although a conforming device would have sent the escaped spelling -/
example : (decode Gen.Layouts.interbus [0x0d, 0x05, 0xa2, 0x05, 0x31, 0x0d, 0x5e, 0x41, 0x5d, 0xc1, 0x0a]).toOption
      = some ⟨5, 162, 5, 0x31, [0x0d, 0x5e, 0x41]⟩
    ∧ frame Gen.Layouts.interbus ⟨5, 162, 5, 0x31, [0x0d, 0x5e, 0x41]⟩
      = [0x0d, 0x05, 0xa2, 0x05, 0x31, 0x5e, 0x4d, 0x5e, 0x9e, 0x41, 0x5d, 0xc1, 0x0a] := by decide +kernel

/-! ## Interbus: request / response with retries -/

theorem readMessage_error_kind (p : Params) (t t' : Tr) (e : Exc) (h : readMessage p t = (.error e, t')) :
    e = .valueError ∨ e = .timeout := by
  unfold readMessage at h
  split at h
  · simp only [Prod.mk.injEq, Except.error.injEq] at h; exact Or.inr h.1.symm
  · simp only [Prod.mk.injEq] at h; exact Or.inl (decode_error_kind p _ e h.1)

theorem readMessage_counts (p : Params) (t : Tr) :
    (readMessage p t).2.reads = t.reads + 1 ∧ (readMessage p t).2.written = t.written := by
  unfold readMessage
  split <;> simp

/-- **only a reply whose addresses match the request is returned** -/
theorem rrLoop_ok (p : Params) (req : Msg) (enc : Bytes) :
    ∀ n t r t', rrLoop p req enc n t = (.ok r, t') → r.src = req.dest ∧ r.dest = req.src := by
  intro n
  induction n with
  | zero =>
    intro t r t' h
    unfold rrLoop at h
    split at h
    · simp at h
    · split at h
      · rename_i hm; simp only [Prod.mk.injEq, Except.ok.injEq] at h; rw [← h.1]; exact hm
      · simp at h
  | succ n ih =>
    intro t r t' h
    unfold rrLoop at h
    split at h
    · exact ih _ _ _ h
    · split at h
      · rename_i hm; simp only [Prod.mk.injEq, Except.ok.injEq] at h; rw [← h.1]; exact hm
      · exact ih _ _ _ h

/-- the loop ends with QMI_InstrumentException or QMI_TimeoutException, never with the decoder's ValueError -/
theorem rrLoop_error (p : Params) (req : Msg) (enc : Bytes) :
    ∀ n t e t', rrLoop p req enc n t = (.error e, t') → e = .instrument ∨ e = .timeout := by
  intro n
  induction n with
  | zero =>
    intro t e t' h
    unfold rrLoop at h
    split at h
    · rename_i e0 t1 hr
      have := readMessage_error_kind p t t1 e0 hr
      simp only [Prod.mk.injEq, Except.error.injEq] at h
      rcases this with rfl | rfl
      · left; simpa using h.1.symm
      · right; simpa using h.1.symm
    · split at h
      · simp at h
      · simp only [Prod.mk.injEq, Except.error.injEq] at h; exact Or.inl h.1.symm
  | succ n ih =>
    intro t e t' h
    unfold rrLoop at h
    split at h
    · exact ih _ _ _ h
    · split at h
      · simp at h
      · exact ih _ _ _ h

/-- at most `n + 1` reads and `n` re-sends: the retry loop always terminates -/
theorem rrLoop_bounds (p : Params) (req : Msg) (enc : Bytes) :
    ∀ n t, (rrLoop p req enc n t).2.reads ≤ t.reads + (n + 1) ∧
           (rrLoop p req enc n t).2.written.length ≤ t.written.length + n := by
  intro n
  induction n with
  | zero =>
    intro t
    have hc := readMessage_counts p t
    unfold rrLoop
    split
    · rename_i e0 t1 hr; rw [hr] at hc
      have hw := congrArg List.length hc.2
      have hr' := hc.1
      simp only at hw hr' ⊢; omega
    · rename_i r0 t1 hr; rw [hr] at hc
      have hw := congrArg List.length hc.2
      have hr' := hc.1
      simp only at hw hr'
      split <;> simp only <;> omega
  | succ n ih =>
    intro t
    have hc := readMessage_counts p t
    unfold rrLoop
    split
    · rename_i e0 t1 hr; rw [hr] at hc
      have hw := congrArg List.length hc.2
      have hr' := hc.1
      simp only at hw hr'
      have := ih (t1.write enc)
      simp only [Tr.write, List.length_append, List.length_cons, List.length_nil] at this ⊢
      omega
    · rename_i r0 t1 hr; rw [hr] at hc
      have hw := congrArg List.length hc.2
      have hr' := hc.1
      simp only at hw hr'
      split
      · simp only; omega
      · have := ih t1; simp only at this ⊢; omega

/-- **`_request_response` returns only a message addressed from the asked device to this request's source address;
otherwise it raises** (ValueError only when the request itself cannot be encoded) -/
theorem request_response (p : Params) (toggle dest mtype reg : Nat) (data : Bytes) (t : Tr) :
    match requestResponse p toggle dest mtype reg data t with
    | (.ok r, tg, t') => r.src = dest ∧ r.dest = p.hostBase + tg ∧ tg = (toggle + 1) &&& 1 ∧
                          t'.reads ≤ t.reads + p.maxRetry + 1 ∧ t'.written.length ≤ t.written.length + p.maxRetry + 1
    | (.error e, tg, t') => tg = (toggle + 1) &&& 1 ∧
        ((e = .valueError ∧ t' = t ∧ ∃ e', encode p ⟨dest, p.hostBase + tg, mtype, reg, data⟩ = .error e') ∨
         ((e = .instrument ∨ e = .timeout) ∧ t'.reads ≤ t.reads + p.maxRetry + 1)) := by
  unfold requestResponse
  simp only
  cases henc : encode p ⟨dest, p.hostBase + ((toggle + 1) &&& 1), mtype, reg, data⟩ with
  | error e =>
    simp only
    refine ⟨trivial, Or.inl ⟨?_, trivial, e, henc⟩⟩
    unfold encode at henc
    repeat (split at henc; · cases henc; rfl)
    simp only at henc
    split at henc
    · cases henc; rfl
    · cases henc
  | ok enc =>
    simp only
    have hb := rrLoop_bounds p ⟨dest, p.hostBase + ((toggle + 1) &&& 1), mtype, reg, data⟩ enc p.maxRetry (t.write enc)
    cases hr : rrLoop p ⟨dest, p.hostBase + ((toggle + 1) &&& 1), mtype, reg, data⟩ enc p.maxRetry (t.write enc) with
    | mk res t' =>
      rw [hr] at hb
      simp [Tr.write] at hb
      cases res with
      | ok r =>
        have := rrLoop_ok p _ enc _ _ _ _ hr
        simp only at this ⊢
        exact ⟨this.1, this.2, trivial, by omega, by omega⟩
      | error e =>
        have := rrLoop_error p _ enc _ _ _ _ hr
        simp only
        exact ⟨trivial, Or.inr ⟨this, by omega⟩⟩


/-! ## Interbus: a reply split into transfers -/

theorem splitTerm_none (term : UInt8) (bs : Bytes) (h : term ∉ bs) : splitTerm term bs = none := by
  induction bs with
  | nil => rfl
  | cons x t ih =>
    simp only [List.mem_cons, not_or] at h
    simp only [splitTerm, if_neg (fun (e : x = term) => h.1 e.symm), ih h.2]

theorem splitTerm_append (term : UInt8) (x r : Bytes) (h : term ∉ x) :
    splitTerm term (x ++ term :: r) = some (x ++ [term], r) := by
  induction x with
  | nil => simp [splitTerm]
  | cons a t ih =>
    simp only [List.mem_cons, not_or] at h
    simp only [List.cons_append, splitTerm, if_neg (fun (e : a = term) => h.1 e.symm), ih h.2]

/-- **however the frame is cut into transfers**, `read_until` hands the decoder exactly the frame -/
theorem readUntil_chunks (term : UInt8) (x : Bytes) (hx : term ∉ x) (s : List Seg) :
    ∀ (chunks : List Bytes) (buf : Bytes), chunks ≠ [] → (∀ c ∈ chunks, c ≠ []) →
      buf ++ chunks.flatten = x ++ [term] →
      readUntil term buf (chunks.map Seg.data ++ s) = (some (x ++ [term]), [], s) := by
  intro chunks
  induction chunks with
  | nil => intro buf h; exact absurd rfl h
  | cons c cs ih =>
    intro buf _ hne hflat
    have hc : c ≠ [] := hne c (by simp)
    -- the terminator is the last byte of the whole stream, so it is not in `buf`
    have hbuf : term ∉ buf := by
      intro hmem
      have hcf : c ++ cs.flatten ≠ [] := by simp [hc]
      have h1 : (buf ++ (c ++ cs.flatten)).dropLast = buf ++ (c ++ cs.flatten).dropLast :=
        List.dropLast_append_of_ne_nil hcf
      simp only [List.flatten_cons] at hflat
      rw [hflat, List.dropLast_concat] at h1
      exact hx (by rw [h1]; exact List.mem_append_left _ hmem)
    unfold readUntil
    rw [splitTerm_none term buf hbuf]
    simp only [List.map_cons, List.cons_append]
    cases cs with
    | nil =>
      simp only [List.flatten_cons, List.flatten_nil, List.append_nil] at hflat
      unfold readUntil
      rw [hflat]
      have := splitTerm_append term x [] hx
      simp only [List.map_nil, List.nil_append]
      rw [this]
    | cons c2 cs2 =>
      apply ih (buf ++ c) (by simp) (fun c' hc' => hne c' (List.mem_cons_of_mem _ hc'))
      simpa [List.append_assoc] using hflat

/-- **the driver receives exactly what the device sent**: the device's reply — any valid message whose addresses
answer the request, any data, reserved bytes anywhere — arrives cut into arbitrary non-empty transfers;
`_request_response` returns exactly that message after one read, having written the request once -/
theorem request_response_delivers (p : Params) (h : IbWF p) (toggle dest mtype reg : Nat) (data : Bytes)
    (req reply : Msg) (chunks : List Bytes) (s : List Seg) (wr : List Bytes) (rd : Nat)
    (hreqdef : req = { dest := dest, src := p.hostBase + ((toggle + 1) &&& 1), mtype := mtype, reg := reg, data := data })
    (hreq : Valid p req) (hrep : Decodable p reply) (hsrc : reply.src = req.dest) (hdst : reply.dest = req.src)
    (hne : ∀ c ∈ chunks, c ≠ []) (hflat : chunks.flatten = frame p reply) :
    requestResponse p toggle dest mtype reg data { buf := [], script := chunks.map Seg.data ++ s, written := wr, reads := rd }
      = (.ok reply, (toggle + 1) &&& 1, { buf := [], script := s, written := wr ++ [frame p req], reads := rd + 1 }) := by
  unfold requestResponse
  simp only
  rw [← hreqdef, encode_valid p h _ hreq]
  simp only
  have hchunks : chunks ≠ [] := by
    intro hc; rw [hc] at hflat; simp [frame] at hflat
  have hx : p.readTerm ∉ [p.encSot] ++ escape p (fullBody p reply) := by
    simp only [List.cons_append, List.nil_append, List.mem_cons, not_or]
    exact ⟨fun e => h.sotNe e.symm, escape_no_terminator p h _⟩
  have hru := readUntil_chunks p.readTerm ([p.encSot] ++ escape p (fullBody p reply)) hx s chunks [] hchunks hne
    (by rw [h.term]; simpa [frame] using hflat)
  have hrm : readMessage p (Tr.write { buf := [], script := chunks.map Seg.data ++ s, written := wr, reads := rd } (frame p req))
      = (.ok reply, { buf := [], script := s, written := wr ++ [frame p req], reads := rd + 1 }) := by
    unfold readMessage
    simp only [Tr.write]
    rw [hru]
    simp only
    have := decode_frame p h reply hrep
    unfold frame at this
    rw [h.term, this]
  unfold rrLoop
  rw [hrm]
  simp only [hsrc, hdst, and_self, if_true]


/-! ## Interbus: `get_register` / `set_register` -/

/-- the message-type constants `get_register` / `set_register` compare with are distinct members of `MessageType` -/
def ibTypesWf (p : Params) : Bool :=
  p.tNack != p.tDatagram && p.tNack != p.tAck && p.tAck != p.tDatagram
  && p.msgTypes.contains p.tNack && p.msgTypes.contains p.tAck && p.msgTypes.contains p.tDatagram
  && p.msgTypes.contains p.tRead && p.msgTypes.contains p.tWrite && p.msgTypes.all (· < 256)

theorem gen_interbus_types : ibTypesWf Gen.Layouts.interbus = true := by decide

/-- **`get_register` returns only the data of a DATAGRAM for the asked register from the asked module** -/
theorem getRegister_sound (p : Params) (tg dest reg : Nat) (t t' : Tr) (tg' : Nat) (d : Bytes)
    (h : getRegister p tg dest reg t = (.ok d, tg', t')) :
    ∃ r, requestResponse p tg dest p.tRead reg [] t = (.ok r, tg', t') ∧
      r.mtype = p.tDatagram ∧ r.mtype ≠ p.tNack ∧ r.reg = reg ∧ r.data = d ∧ r.src = dest ∧ r.dest = p.hostBase + tg' := by
  unfold getRegister at h
  have hrr := request_response p tg dest p.tRead reg [] t
  split at h
  · simp at h
  · rename_i r tg1 t1 heq
    rw [heq] at hrr
    simp only at hrr
    split at h; · simp at h
    split at h; · simp at h
    split at h; · simp at h
    rename_i h1 h2 h3
    simp only [Prod.mk.injEq, Except.ok.injEq] at h
    obtain ⟨hd, htg, ht⟩ := h
    subst htg ht
    exact ⟨r, heq, by simpa using h2, h1, by simpa using h3, hd, hrr.1, hrr.2.1⟩

/-- **a NACK, a BUSY, any other type, or another register number raises** (QMI_InstrumentException) -/
theorem getRegister_rejects (p : Params) (tg dest reg : Nat) (t t' : Tr) (tg' : Nat) (r : Msg)
    (hrr : requestResponse p tg dest p.tRead reg [] t = (.ok r, tg', t'))
    (hbad : r.mtype ≠ p.tDatagram ∨ r.reg ≠ reg) :
    getRegister p tg dest reg t = (.error .instrument, tg', t') := by
  unfold getRegister
  rw [hrr]
  simp only
  by_cases h1 : r.mtype = p.tNack
  · simp [h1]
  · by_cases h2 : r.mtype = p.tDatagram
    · have h3 : r.reg ≠ reg := by rcases hbad with h | h; exact absurd h2 h; exact h
      simp [h1, h2, h3]
    · simp [h1, h2]

theorem getRegister_error (p : Params) (tg dest reg : Nat) (t t' : Tr) (tg' : Nat) (e : Exc)
    (h : requestResponse p tg dest p.tRead reg [] t = (.error e, tg', t')) :
    getRegister p tg dest reg t = (.error e, tg', t') := by
  unfold getRegister; rw [h]

/-- **`set_register` returns only after an ACK for the written register from the addressed module** -/
theorem setRegister_sound (p : Params) (tg dest reg : Nat) (data : Bytes) (t t' : Tr) (tg' : Nat)
    (h : setRegister p tg dest reg data t = (.ok (), tg', t')) :
    ∃ r, requestResponse p tg dest p.tWrite reg data t = (.ok r, tg', t') ∧
      r.mtype = p.tAck ∧ r.mtype ≠ p.tNack ∧ r.reg = reg ∧ r.src = dest ∧ r.dest = p.hostBase + tg' := by
  unfold setRegister at h
  have hrr := request_response p tg dest p.tWrite reg data t
  split at h
  · simp at h
  · rename_i r tg1 t1 heq
    rw [heq] at hrr
    simp only at hrr
    split at h; · simp at h
    split at h; · simp at h
    split at h; · simp at h
    rename_i h1 h2 h3
    simp only [Prod.mk.injEq, Except.ok.injEq, true_and] at h
    obtain ⟨htg, ht⟩ := h
    subst htg ht
    exact ⟨r, heq, by simpa using h2, h1, by simpa using h3, hrr.1, hrr.2.1⟩

theorem setRegister_rejects (p : Params) (tg dest reg : Nat) (data : Bytes) (t t' : Tr) (tg' : Nat) (r : Msg)
    (hrr : requestResponse p tg dest p.tWrite reg data t = (.ok r, tg', t'))
    (hbad : r.mtype ≠ p.tAck ∨ r.reg ≠ reg) :
    setRegister p tg dest reg data t = (.error .instrument, tg', t') := by
  unfold setRegister
  rw [hrr]
  simp only
  by_cases h1 : r.mtype = p.tNack
  · simp [h1]
  · by_cases h2 : r.mtype = p.tAck
    · have h3 : r.reg ≠ reg := by rcases hbad with h | h; exact absurd h2 h; exact h
      simp [h1, h2, h3]
    · simp [h1, h2]

/-- **`get_register` hands the driver exactly the device's data**: the module answers the READ with a DATAGRAM for the
same register — any data (reserved bytes, any length), cut into arbitrary transfers -/
theorem getRegister_delivers (p : Params) (h : IbWF p) (ht : ibTypesWf p = true) (toggle dest reg : Nat)
    (req reply : Msg) (chunks : List Bytes) (s : List Seg) (wr : List Bytes) (rd : Nat)
    (hreqdef : req = { dest := dest, src := p.hostBase + ((toggle + 1) &&& 1), mtype := p.tRead, reg := reg, data := [] })
    (hreq : Valid p req) (hsrc : reply.src = dest) (hdst : reply.dest = req.src) (hd : reply.dest < 256) (hs : reply.src < 256)
    (hty : reply.mtype = p.tDatagram) (hrg : reply.reg = reg)
    (hne : ∀ c ∈ chunks, c ≠ []) (hflat : chunks.flatten = frame p reply) :
    getRegister p toggle dest reg { buf := [], script := chunks.map Seg.data ++ s, written := wr, reads := rd }
      = (.ok reply.data, (toggle + 1) &&& 1, { buf := [], script := s, written := wr ++ [frame p req], reads := rd + 1 }) := by
  simp only [ibTypesWf, Bool.and_eq_true, bne_iff_ne, ne_eq, List.contains_eq_mem, List.all_eq_true, decide_eq_true_eq] at ht
  obtain ⟨⟨⟨⟨⟨⟨⟨⟨t1, t2⟩, t3⟩, t4⟩, t5⟩, t6⟩, t7⟩, t8⟩, t9⟩ := ht
  have hregv : reg < 256 := by have := hreq.reg; rw [hreqdef] at this; exact this
  have hrep : Decodable p reply := ⟨hd, hs, by rw [hty]; exact ⟨by simpa using t6, t9 _ (by simpa using t6)⟩, by rw [hrg]; exact hregv⟩
  have hrr := request_response_delivers p h toggle dest p.tRead reg [] req reply chunks s wr rd hreqdef hreq hrep
    (by rw [hsrc, hreqdef]) hdst hne hflat
  unfold getRegister
  rw [hrr]
  simp only
  rw [if_neg (by rw [hty]; exact fun e => t1 e.symm), if_neg (by simp [hty]), if_neg (by simp [hrg])]

/-- **`set_register` returns after the module's ACK** for the written register, whatever data was written -/
theorem setRegister_delivers (p : Params) (h : IbWF p) (ht : ibTypesWf p = true) (toggle dest reg : Nat) (data : Bytes)
    (req reply : Msg) (chunks : List Bytes) (s : List Seg) (wr : List Bytes) (rd : Nat)
    (hreqdef : req = { dest := dest, src := p.hostBase + ((toggle + 1) &&& 1), mtype := p.tWrite, reg := reg, data := data })
    (hreq : Valid p req) (hsrc : reply.src = dest) (hdst : reply.dest = req.src) (hd : reply.dest < 256) (hs : reply.src < 256)
    (hty : reply.mtype = p.tAck) (hrg : reply.reg = reg)
    (hne : ∀ c ∈ chunks, c ≠ []) (hflat : chunks.flatten = frame p reply) :
    setRegister p toggle dest reg data { buf := [], script := chunks.map Seg.data ++ s, written := wr, reads := rd }
      = (.ok (), (toggle + 1) &&& 1, { buf := [], script := s, written := wr ++ [frame p req], reads := rd + 1 }) := by
  simp only [ibTypesWf, Bool.and_eq_true, bne_iff_ne, ne_eq, List.contains_eq_mem, List.all_eq_true, decide_eq_true_eq] at ht
  obtain ⟨⟨⟨⟨⟨⟨⟨⟨t1, t2⟩, t3⟩, t4⟩, t5⟩, t6⟩, t7⟩, t8⟩, t9⟩ := ht
  have hregv : reg < 256 := by have := hreq.reg; rw [hreqdef] at this; exact this
  have hrep : Decodable p reply := ⟨hd, hs, by rw [hty]; exact ⟨by simpa using t5, t9 _ (by simpa using t5)⟩, by rw [hrg]; exact hregv⟩
  have hrr := request_response_delivers p h toggle dest p.tWrite reg data req reply chunks s wr rd hreqdef hreq hrep
    (by rw [hsrc, hreqdef]) hdst hne hflat
  unfold setRegister
  rw [hrr]
  simp only
  rw [if_neg (by rw [hty]; exact fun e => t2 e.symm), if_neg (by simp [hty]), if_neg (by simp [hrg])]


/-! ### non-vacuity: the hypotheses are met by the generated constants and by messages full of reserved bytes -/

theorem gen_interbus : IbWF Gen.Layouts.interbus := ibWF_of _ gen_interbus_wf

/-- a WRITE whose register and data are the three reserved bytes: valid, and the frame is the documented one -/
example : Valid Gen.Layouts.interbus ⟨13, 162, 5, 0x5e, [0x0a, 0x0d, 0x5e, 1, 2]⟩ := by
  refine ⟨?_, ?_, ?_, ?_, ?_⟩ <;> decide

example : frame Gen.Layouts.interbus ⟨5, 162, 5, 0x5e, [0x0a, 0x0d, 0x5e, 1, 2]⟩
    = [0x0d, 0x05, 0xa2, 0x05, 0x5e, 0x9e, 0x5e, 0x4a, 0x5e, 0x4d, 0x5e, 0x9e, 0x01, 0x02, 0xde, 0x87, 0x0a] := by decide +kernel

/-- a message whose CRC itself contains a reserved byte (0x0d): the escape reaches into the CRC -/
example : fullBody Gen.Layouts.interbus ⟨1, 161, 0, 0, [0x5b]⟩ = [1, 161, 0, 0, 0x5b, 0xdd, 0x0d]
    ∧ frame Gen.Layouts.interbus ⟨1, 161, 0, 0, [0x5b]⟩ = [0x0d, 1, 161, 0, 0, 0x5b, 0xdd, 0x5e, 0x4d, 0x0a] := by decide +kernel

/-- hypotheses of `corrupted_frame_rejected`: the type byte of a real frame content changed from 8 to 9 -/
example : fullBody Gen.Layouts.interbus ⟨161, 7, 8, 0x20, [0x5e]⟩ = [161, 7] ++ 8 :: [0x20, 0x5e, 0xc5, 0x64] ∧ (9 : UInt8) ≠ 8 := by
  decide +kernel

/-- hypotheses of `request_response_delivers`: a DATAGRAM reply cut into three transfers, one inside an escape pair -/
example : ([[0x0d, 0xa2, 0x07, 0x08], [0x20, 0x5e], [0x9e, 0x2b, 0xb6, 0x0a]] : List Bytes).flatten
      = frame Gen.Layouts.interbus ⟨162, 7, 8, 0x20, [0x5e]⟩
    ∧ Decodable Gen.Layouts.interbus ⟨162, 7, 8, 0x20, [0x5e]⟩ ∧ Valid Gen.Layouts.interbus ⟨7, 161 + ((0 + 1) &&& 1), 4, 0x20, []⟩ := by
  refine ⟨by decide +kernel, ⟨?_, ?_, ?_, ?_⟩, ⟨?_, ?_, ?_, ?_, ?_⟩⟩ <;> decide

/-- hypothesis of `bad_crc_rejected`: content with a non-zero residue exists -/
example : crcOf Gen.Layouts.interbus.crcPoly [1, 2, 3] ≠ 0 := by decide +kernel

/-- the `ok` branch of `request_response` is reached after a timeout, a damaged telegram and a mis-addressed one,
with the good reply cut into three transfers -/
example :
    (requestResponse Gen.Layouts.interbus 0 7 4 0x20 []
      { script := [.timeout, .data [0x0d, 0xa2, 0x07, 0x08, 0x20, 0x5e, 0x9e, 0x2b, 0xb7, 0x0a],
                   .data [0x0d, 0xa1, 0x07, 0x08, 0x20, 0x78, 0xde, 0x9f, 0x0a],
                   .data [0x0d, 0xa2, 0x07, 0x08], .data [0x20, 0x5e], .data [0x9e, 0x2b, 0xb6, 0x0a]] }).1.toOption
      = some ⟨162, 7, 8, 0x20, [0x5e]⟩ := by decide +kernel

/-- … and the error branch: eleven unanswered reads, then the exception -/
example : (requestResponse Gen.Layouts.interbus 1 7 4 0x20 [] {}).1.toOption = none
    ∧ (requestResponse Gen.Layouts.interbus 1 7 4 0x20 [] {}).2.2.reads = 11 := by decide +kernel

/-! ### the same, read for the constants of the current source -/

theorem gen_interbus_roundtrip (m : Msg) (hv : Valid Gen.Layouts.interbus m) :
    ∃ w, encode Gen.Layouts.interbus m = .ok w ∧ decode Gen.Layouts.interbus w = .ok m ∧ specDecode Gen.Layouts.interbus w = some m := by
  obtain ⟨w, h1, h2⟩ := decode_encode _ gen_interbus m hv
  obtain ⟨w', h1', h2'⟩ := device_decodes_request _ gen_interbus m hv
  rw [h1] at h1'; cases h1'
  exact ⟨w, h1, h2, h2'⟩

theorem gen_interbus_corruption_rejected (m : Msg) (pre post : Bytes) (b b' : UInt8)
    (hsplit : fullBody Gen.Layouts.interbus m = pre ++ b :: post) (hne : b' ≠ b) :
    decode Gen.Layouts.interbus ([Gen.Layouts.interbus.encSot] ++ escape Gen.Layouts.interbus (pre ++ b' :: post) ++ [Gen.Layouts.interbus.encEot])
      = .error .valueError :=
  corrupted_frame_rejected _ gen_interbus m pre post b b' hsplit hne

end Interbus

/-! # APT -/
section Apt
open QmiModel.Apt

/-- the header constants and layouts the wire theorems need (a `decide` obligation on the generated layouts) -/
structure AptWF (pr : Proto) : Prop where
  hs : pr.headerSize = 6
  hp : pr.hdrParams.cells = [⟨2, false⟩, ⟨1, false⟩, ⟨1, false⟩, ⟨1, false⟩, ⟨1, false⟩]
  hd : pr.hdrData.cells = [⟨2, false⟩, ⟨2, false⟩, ⟨1, false⟩, ⟨1, false⟩]
  hdSize : pr.hdrData.size = 6
  iId : pr.hdrData.cellIndex "message_id" = 0
  iLen : pr.hdrData.cellIndex "data_length" = 1
  flag : pr.dataFlag = 0x80

/-- the six header bytes of a data message -/
def dataHeader (id len dest source : Nat) : Bytes :=
  [UInt8.ofNat (id % 256), UInt8.ofNat (id / 256 % 256), UInt8.ofNat (len % 256), UInt8.ofNat (len / 256 % 256),
   UInt8.ofNat (dest % 256), UInt8.ofNat (source % 256)]

theorem pack_hdrData (id len d s : Nat) (h1 : id < 65536) (h2 : len < 65536) (h3 : d < 256) (h4 : s < 256) :
    pack [⟨2, false⟩, ⟨2, false⟩, ⟨1, false⟩, ⟨1, false⟩] [(id : Int), (len : Int), (d : Int), (s : Int)] = dataHeader id len d s := by
  simp only [pack, List.append_nil]
  rw [encCell_nat ⟨2, false⟩ id (by simpa using h1), encCell_nat ⟨2, false⟩ len (by simpa using h2),
      encCell_nat ⟨1, false⟩ d (by simpa using h3), encCell_nat ⟨1, false⟩ s (by simpa using h4)]
  simp [leBytes2, leBytes1, dataHeader]

/-- **`write_param_command`**: exactly the six header bytes id (little endian), param1, param2, dest, source -/
theorem write_param_wire (pr : Proto) (h : AptWF pr) (id p1 p2 : Nat) (h1 : id < 65536) (h2 : p1 < 256) (h3 : p2 < 256)
    (h4 : pr.devAddr < 256) (h5 : pr.hostAddr < 256) :
    writeParam pr id p1 p2 = [UInt8.ofNat (id % 256), UInt8.ofNat (id / 256 % 256), UInt8.ofNat (p1 % 256), UInt8.ofNat (p2 % 256),
                             UInt8.ofNat (pr.devAddr % 256), UInt8.ofNat (pr.hostAddr % 256)] := by
  unfold writeParam
  rw [h.hp]
  simp only [pack, List.append_nil]
  rw [encCell_nat ⟨2, false⟩ id (by simpa using h1), encCell_nat ⟨1, false⟩ p1 (by simpa using h2),
      encCell_nat ⟨1, false⟩ p2 (by simpa using h3), encCell_nat ⟨1, false⟩ _ (by simpa using h4),
      encCell_nat ⟨1, false⟩ _ (by simpa using h5)]
  simp [leBytes2, leBytes1]

/-- **`write_data_command`**: header = id, **length of the data**, **dest | 0x80**, source; then the data unchanged -/
theorem write_data_wire (pr : Proto) (h : AptWF pr) (id : Nat) (data : Bytes) (h1 : id < 65536) (h2 : data.length < 65536)
    (h4 : pr.devAddr < 256) (h5 : pr.hostAddr < 256) :
    writeData pr id data = dataHeader id data.length (pr.devAddr ||| 0x80) pr.hostAddr ++ data := by
  unfold writeData
  rw [h.hd, h.flag]
  have hor : pr.devAddr ||| 0x80 < 256 := Nat.or_lt_two_pow (n := 8) h4 (by decide)
  rw [pack_hdrData id data.length _ _ h1 h2 hor h5]

/-- **header-only reply**: the driver receives exactly the device's field values -/
theorem ask_header_only_roundtrip (pr : Proto) (h : AptWF pr) (l : Layout) (vs : List Int) (rest : Bytes)
    (ho : l.headerOnly = true) (hsz : cellsSize l.cells = l.size) (h6 : l.size = 6) (hr : AllInRange l.cells vs) :
    ask pr l (pack l.cells vs ++ rest) = (.ok vs, rest) := by
  have hl : (pack l.cells vs).length = 6 := by rw [pack_length, hsz, h6]
  unfold ask
  rw [h.hs, readN_append 6 _ _ hl]
  simp only [ho, if_true]
  unfold fromBuffer
  rw [if_neg (by omega)]
  have : (pack l.cells vs).take l.size = pack l.cells vs := by rw [List.take_of_length_le (by omega)]
  rw [this]
  have := unpack_pack l.cells vs hr []
  rw [List.append_nil] at this
  rw [this]

theorem unpack_dataHeader (id len d s : Nat) (h1 : id < 65536) (h2 : len < 65536) (h3 : d < 256) (h4 : s < 256) :
    unpack [⟨2, false⟩, ⟨2, false⟩, ⟨1, false⟩, ⟨1, false⟩] (dataHeader id len d s) = [(id : Int), (len : Int), (d : Int), (s : Int)] := by
  rw [← pack_hdrData id len d s h1 h2 h3 h4]
  have := unpack_pack [⟨2, false⟩, ⟨2, false⟩, ⟨1, false⟩, ⟨1, false⟩] [(id : Int), (len : Int), (d : Int), (s : Int)]
    ⟨inRange_nat 2 id (by simpa using h1), inRange_nat 2 len (by simpa using h2), inRange_nat 1 d (by simpa using h3),
     inRange_nat 1 s (by simpa using h4), trivial⟩ []
  rw [List.append_nil] at this
  exact this

/-- what `ask` does with a stream that starts with a well-formed data-message header followed by `len` bytes -/
theorem ask_data_message (pr : Proto) (h : AptWF pr) (l : Layout) (id d s : Nat) (data rest : Bytes)
    (ho : l.headerOnly = false) (h1 : id < 65536) (h2 : data.length < 65536) (h3 : d < 256) (h4 : s < 256) :
    ask pr l (dataHeader id data.length d s ++ data ++ rest) =
      if l.msgId ≠ id then (.error .instrument, rest) else (fromBuffer l data, rest) := by
  unfold ask
  rw [h.hs, List.append_assoc, readN_append 6 _ _ (by simp [dataHeader])]
  simp only [ho, Bool.false_eq_true, if_false]
  unfold fromBuffer
  rw [h.hdSize, if_neg (by simp [dataHeader])]
  have ht : (dataHeader id data.length d s).take 6 = dataHeader id data.length d s := by simp [dataHeader]
  rw [ht, h.hd, unpack_dataHeader id _ d s h1 h2 h3 h4]
  simp only [h.iId, h.iLen, List.getD_cons_zero, List.getD_cons_succ, Int.toNat_natCast]
  rw [readN_append _ _ _ rfl]
  simp only
  by_cases hid : l.msgId = id
  · subst hid; simp
  · have : (l.msgId : Int) ≠ (id : Int) := by omega
    simp [hid, this]

/-- **an APT data message with an unexpected id raises** (QMI_InstrumentException) instead of yielding data -/
theorem ask_checks_id (pr : Proto) (h : AptWF pr) (l : Layout) (id d s : Nat) (data rest : Bytes)
    (ho : l.headerOnly = false) (h1 : id < 65536) (h2 : data.length < 65536) (h3 : d < 256) (h4 : s < 256)
    (hid : id ≠ l.msgId) :
    ask pr l (dataHeader id data.length d s ++ data ++ rest) = (.error .instrument, rest) := by
  rw [ask_data_message pr h l id d s data rest ho h1 h2 h3 h4, if_pos (fun e => hid e.symm)]

/-- **data reply round trip**: the device sends header (expected id, length = `sizeof`, any addresses) and the packed
packet; the driver receives exactly the device's field values and the rest of the stream is untouched -/
theorem ask_data_roundtrip (pr : Proto) (h : AptWF pr) (l : Layout) (d s : Nat) (vs : List Int) (rest : Bytes)
    (ho : l.headerOnly = false) (hsz : cellsSize l.cells = l.size) (h1 : l.msgId < 65536) (h2 : l.size < 65536)
    (h3 : d < 256) (h4 : s < 256) (hr : AllInRange l.cells vs) :
    ask pr l (dataHeader l.msgId l.size d s ++ pack l.cells vs ++ rest) = (.ok vs, rest) := by
  have hl : (pack l.cells vs).length = l.size := by rw [pack_length, hsz]
  have := ask_data_message pr h l l.msgId d s (pack l.cells vs) rest ho h1 (by omega) h3 h4
  rw [hl] at this
  rw [this, if_neg (by simp)]
  unfold fromBuffer
  rw [if_neg (by omega), List.take_of_length_le (by omega)]
  have := unpack_pack l.cells vs hr []
  rw [List.append_nil] at this
  rw [this]


/-- **for every receive stream whatsoever**: if `ask` for a data packet returns a value, the message id in the
stream's header is the expected one (and enough bytes for the structure were announced and present) -/
theorem ask_ok_id (pr : Proto) (h : AptWF pr) (l : Layout) (buf rest : Bytes) (vs : List Int)
    (ho : l.headerOnly = false) (hok : ask pr l buf = (.ok vs, rest)) :
    leVal (buf.take 2) = l.msgId ∧ 6 + l.size ≤ buf.length := by
  by_cases hl : buf.length < 6
  · unfold ask at hok; rw [h.hs, readN_short 6 buf hl] at hok; simp at hok
  · have r1 := readN_ok 6 buf hl
    unfold ask at hok
    rw [h.hs, r1] at hok
    simp only [ho, Bool.false_eq_true, if_false] at hok
    have fb : fromBuffer pr.hdrData (buf.take 6) = .ok (unpack pr.hdrData.cells ((buf.take 6).take 6)) := by
      unfold fromBuffer; rw [h.hdSize, if_neg (by simp; omega)]
    rw [fb] at hok
    simp only at hok
    rw [h.hd, h.iId, h.iLen] at hok
    simp only [unpack, List.getD_cons_zero, List.getD_cons_succ] at hok
    generalize hlen : (decCell ⟨2, false⟩ (List.take 2 (List.drop 2 (List.take 6 (List.take 6 buf))))).toNat = len at hok
    have e : (decCell ⟨2, false⟩ (List.take 2 (List.take 6 (List.take 6 buf)))) = (leVal (buf.take 2) : Int) := by
      simp [decCell, List.take_take]
    rw [e] at hok
    by_cases hl2 : (buf.drop 6).length < len
    · rw [readN_short len _ hl2] at hok; simp at hok
    · rw [readN_ok len _ hl2] at hok
      simp only at hok
      split at hok
      · simp at hok
      · rename_i hid
        simp only [Decidable.not_not] at hid
        unfold fromBuffer at hok
        split at hok
        · simp at hok
        · rename_i hsz
          simp only [List.length_take, List.length_drop] at hsz hl2
          constructor
          · omega
          · omega


/-- **what a returned data packet is made of, for every receive stream**: the expected id, a length field that
covers the structure, and *exactly the `sizeof` bytes that follow the header* — never bytes beyond the announced
length, never a value from a message with another id; the stream is consumed up to the announced length -/
theorem ask_ok_value (pr : Proto) (h : AptWF pr) (l : Layout) (buf rest : Bytes) (vs : List Int)
    (ho : l.headerOnly = false) (hok : ask pr l buf = (.ok vs, rest)) :
    leVal (buf.take 2) = l.msgId ∧ l.size ≤ leVal ((buf.drop 2).take 2) ∧ 6 + leVal ((buf.drop 2).take 2) ≤ buf.length ∧
    vs = unpack l.cells ((buf.drop 6).take l.size) ∧ rest = buf.drop (6 + leVal ((buf.drop 2).take 2)) := by
  by_cases hl : buf.length < 6
  · unfold ask at hok; rw [h.hs, readN_short 6 buf hl] at hok; simp at hok
  · have r1 := readN_ok 6 buf hl
    unfold ask at hok
    rw [h.hs, r1] at hok
    simp only [ho, Bool.false_eq_true, if_false] at hok
    have fb : fromBuffer pr.hdrData (buf.take 6) = .ok (unpack pr.hdrData.cells ((buf.take 6).take 6)) := by
      unfold fromBuffer; rw [h.hdSize, if_neg (by simp; omega)]
    rw [fb] at hok
    simp only at hok
    rw [h.hd, h.iId, h.iLen] at hok
    simp only [unpack, List.getD_cons_zero, List.getD_cons_succ] at hok
    have e : (decCell ⟨2, false⟩ (List.take 2 (List.take 6 (List.take 6 buf)))) = (leVal (buf.take 2) : Int) := by
      simp [decCell, List.take_take]
    have e2 : (decCell ⟨2, false⟩ (List.take 2 (List.drop 2 (List.take 6 (List.take 6 buf))))).toNat = leVal ((buf.drop 2).take 2) := by
      have : List.take 2 (List.drop 2 (List.take 6 (List.take 6 buf))) = (buf.drop 2).take 2 := by
        rw [List.take_take, List.drop_take, List.take_take]; simp
      rw [this]; simp [decCell]
    rw [e, e2] at hok
    generalize leVal ((buf.drop 2).take 2) = len at *
    by_cases hl2 : (buf.drop 6).length < len
    · rw [readN_short len _ hl2] at hok; simp at hok
    · rw [readN_ok len _ hl2] at hok
      simp only at hok
      split at hok
      · simp at hok
      · rename_i hid
        simp only [Decidable.not_not] at hid
        unfold fromBuffer at hok
        split at hok
        · simp at hok
        · rename_i hsz
          simp only [List.length_take, List.length_drop] at hsz hl2
          simp only [Prod.mk.injEq, Except.ok.injEq] at hok
          refine ⟨by omega, by omega, by omega, ?_, ?_⟩
          · rw [← hok.1, List.take_take]; congr 2; omega
          · rw [← hok.2, List.drop_drop]

/-- **header-only replies: what `ask` checks and what it does not.**  It returns whenever six bytes are there and the
class fits in them; the value is those six bytes read through the asked class — the message id in them is *not*
compared with `MESSAGE_ID` (the statement of C15 speaks of data messages only; drivers that care compare a field) -/
theorem ask_header_only_iff (pr : Proto) (h : AptWF pr) (l : Layout) (buf rest : Bytes) (vs : List Int)
    (ho : l.headerOnly = true) :
    ask pr l buf = (.ok vs, rest) ↔
      (6 ≤ buf.length ∧ l.size ≤ 6 ∧ vs = unpack l.cells ((buf.take 6).take l.size) ∧ rest = buf.drop 6) := by
  unfold ask
  rw [h.hs]
  by_cases hl : buf.length < 6
  · rw [readN_short 6 buf hl]; simp; omega
  · rw [readN_ok 6 buf hl]
    simp only [ho, if_true]
    unfold fromBuffer
    by_cases hs : (buf.take 6).length < l.size
    · rw [if_pos hs]; simp at hs ⊢; omega
    · rw [if_neg hs]
      simp only [List.length_take] at hs
      simp only [Prod.mk.injEq, Except.ok.injEq]
      constructor
      · rintro ⟨h1, h2⟩; exact ⟨by omega, by omega, h1.symm, h2.symm⟩
      · rintro ⟨_, _, h1, h2⟩; exact ⟨h1.symm, h2.symm⟩

/-- **`ask(data_type, timeout)`**: every `transport.read` it makes gets the caller's timeout, or the protocol's default
when none is given; the first read asks for the header size -/
theorem ask_reads_spec (pr : Proto) (l : Layout) (dflt t : Option Nat) (buf : Bytes) :
    (∀ x ∈ askReads pr l dflt t buf, x.2 = askTimeout dflt t) ∧
    (askReads pr l dflt t buf).head? = some (pr.headerSize, askTimeout dflt t) ∧
    (t = none → askTimeout dflt t = dflt) ∧ (∀ v, t = some v → askTimeout dflt t = some v) := by
  refine ⟨?_, ?_, fun h => by subst h; rfl, fun v h => by subst h; rfl⟩
  · intro x hx
    unfold askReads at hx
    simp only at hx
    split at hx
    · simp at hx; rw [hx]
    · split at hx
      · simp at hx; rw [hx]
      · split at hx
        · simp at hx; rw [hx]
        · simp at hx; rcases hx with hx | hx <;> rw [hx]
  · unfold askReads
    simp only
    split
    · rfl
    · split
      · rfl
      · split <;> rfl

/-- **the stream stays framed**: whatever data message is at the head of the stream — expected or not, of the expected
length or not — `ask` for a data packet consumes exactly header + announced length, whether it returns or raises; the
following replies therefore start where the device started them -/
theorem ask_keeps_framing (pr : Proto) (h : AptWF pr) (l : Layout) (id d s : Nat) (data rest : Bytes)
    (ho : l.headerOnly = false) (h1 : id < 65536) (h2 : data.length < 65536) (h3 : d < 256) (h4 : s < 256) :
    (ask pr l (dataHeader id data.length d s ++ data ++ rest)).2 = rest := by
  rw [ask_data_message pr h l id d s data rest ho h1 h2 h3 h4]
  split <;> rfl


/-! ### obligations on the generated layouts -/

/-- the protocol object for the generated constants -/
def genProto (dev host : Nat) : Proto :=
  { headerSize := Gen.Layouts.aptHeaderSize, hdrParams := Gen.Layouts.aptHdrParams, hdrData := Gen.Layouts.aptHdrData,
    dataFlag := Gen.Layouts.aptDataFlag, devAddr := dev, hostAddr := host }

/-- `HEADER_SIZE_BYTES`, the two header structures and the `| 0x80` of the current source are the documented ones -/
theorem gen_apt_headers :
    Gen.Layouts.aptHeaderSize = 6 ∧
    Gen.Layouts.aptHdrParams.cells = [⟨2, false⟩, ⟨1, false⟩, ⟨1, false⟩, ⟨1, false⟩, ⟨1, false⟩] ∧
    Gen.Layouts.aptHdrData.cells = [⟨2, false⟩, ⟨2, false⟩, ⟨1, false⟩, ⟨1, false⟩] ∧
    Gen.Layouts.aptHdrData.size = 6 ∧
    Gen.Layouts.aptHdrData.cellIndex "message_id" = 0 ∧ Gen.Layouts.aptHdrData.cellIndex "data_length" = 1 ∧
    Gen.Layouts.aptDataFlag = 0x80 := by decide

theorem gen_apt_proto (dev host : Nat) : AptWF (genProto dev host) := by
  obtain ⟨h1, h2, h3, h4, h5, h6, h7⟩ := gen_apt_headers
  exact ⟨h1, h2, h3, h4, h5, h6, h7⟩

/-- every packet class of `apt_packets` (and both headers): fields contiguous from offset 0 (no padding, no overlap),
`sizeof` = sum of the cells, id and size fit the 16-bit header fields, header-only packets have the header's size -/
theorem gen_apt_layouts :
    ∀ l ∈ Gen.Layouts.aptHdrParams :: Gen.Layouts.aptHdrData :: Gen.Layouts.aptPackets,
      l.Contiguous ∧ cellsSize l.cells = l.size ∧ l.msgId < 65536 ∧ l.size < 65536 ∧ (l.headerOnly = true → l.size = 6) := by
  decide

/-! ### the same, read for every packet class of the current source -/

theorem gen_apt_ask_roundtrip (dev host d s : Nat) (l : Layout) (hl : l ∈ Gen.Layouts.aptPackets) (vs : List Int) (rest : Bytes)
    (h3 : d < 256) (h4 : s < 256) (hr : AllInRange l.cells vs) :
    (l.headerOnly = false → ask (genProto dev host) l (dataHeader l.msgId l.size d s ++ pack l.cells vs ++ rest) = (.ok vs, rest)) ∧
    (l.headerOnly = true → ask (genProto dev host) l (pack l.cells vs ++ rest) = (.ok vs, rest)) := by
  obtain ⟨_, hsz, hid, hsize, hho⟩ := gen_apt_layouts l (List.mem_cons_of_mem _ (List.mem_cons_of_mem _ hl))
  exact ⟨fun ho => ask_data_roundtrip _ (gen_apt_proto dev host) l d s vs rest ho hsz hid hsize h3 h4 hr,
         fun ho => ask_header_only_roundtrip _ (gen_apt_proto dev host) l vs rest ho hsz (hho ho) hr⟩

theorem gen_apt_ask_checks_id (dev host : Nat) (l : Layout) (buf rest : Bytes) (vs : List Int) (ho : l.headerOnly = false)
    (hok : ask (genProto dev host) l buf = (.ok vs, rest)) : leVal (buf.take 2) = l.msgId :=
  (ask_ok_id _ (gen_apt_proto dev host) l buf rest vs ho hok).1

theorem gen_apt_write_data (dev host id : Nat) (data : Bytes) (h1 : id < 65536) (h2 : data.length < 65536)
    (h4 : dev < 256) (h5 : host < 256) :
    writeData (genProto dev host) id data = dataHeader id data.length (dev ||| 0x80) host ++ data :=
  write_data_wire _ (gen_apt_proto dev host) id data h1 h2 h4 h5

/-! ### non-vacuity -/

example : AllInRange [⟨2, false⟩, ⟨4, true⟩] [1, -5] := ⟨by decide, by decide, trivial⟩
example : pack [⟨2, false⟩, ⟨4, true⟩] [1, -5] = [1, 0, 0xfb, 0xff, 0xff, 0xff] := by decide
example : writeData (genProto 0x50 1) 0x0453 [1, 0, 0xfb, 0xff, 0xff, 0xff]
    = [0x53, 0x04, 0x06, 0x00, 0xd0, 0x01, 1, 0, 0xfb, 0xff, 0xff, 0xff] := by decide
example : Gen.Layouts.aptPackets.length > 0 ∧ Gen.Layouts.aptPackets.any (fun l => !l.headerOnly) = true := by decide

/-- hypothesis of `ask_ok_id` / `gen_apt_ask_checks_id`: `ask` does return values on a well-formed stream -/
example : (ask (genProto 0x50 1) ⟨"MOT_MOVE_ABSOLUTE", 0x0453, false, 6,
        [⟨"chan_ident", 0, ⟨2, false⟩, 1, false⟩, ⟨"absolute_distance", 2, ⟨4, true⟩, 1, false⟩]⟩
      [0x53, 0x04, 6, 0, 0x81, 0x50, 1, 0, 0xfb, 0xff, 0xff, 0xff, 0xaa]).1.toOption = some [1, -5] := by decide +kernel

/-- witness: a MOT_MOVE_COMPLETED header (id 0x0464) is returned by `ask(MOT_MOVE_HOMED)` (id 0x0444) as if it were the latter -/
example : (ask (genProto 0x50 1) ⟨"MOT_MOVE_HOMED", 0x0444, true, 6,
        [⟨"message_id", 0, ⟨2, false⟩, 1, false⟩, ⟨"chan_ident", 2, ⟨1, false⟩, 1, false⟩, ⟨"param2", 3, ⟨1, false⟩, 1, false⟩,
         ⟨"dest", 4, ⟨1, false⟩, 1, false⟩, ⟨"source", 5, ⟨1, false⟩, 1, false⟩]⟩
      [0x64, 0x04, 1, 0, 0x01, 0x50]).1.toOption = some [0x0464, 1, 0, 1, 0x50] := by decide +kernel

/-! # APT, second implementation: `Thorlabs_K10CR1._read_message` / `_wait_message` / `_send_message` / `create` -/

/-- the constants and the header layout of `k10cr1.py` the theorems need (a `decide` obligation on the generated term) -/
structure K10WF (k : K10) : Prop where
  hl : k.hdrLen = 6
  hd : k.hdr.cells = [⟨2, false⟩, ⟨2, false⟩, ⟨1, false⟩, ⟨1, false⟩]
  hdSize : k.hdr.size = 6
  iId : k.hdr.cellIndex "message_id" = 0
  iLen : k.hdr.cellIndex "data_length" = 1
  iDest : k.hdr.cellIndex "dest" = 2
  flag : k.longFlag = 0x80

/-- the three header fields `_read_message` looks at, as functions of the stream -/
def hdrId (buf : Bytes) : Nat := leVal (buf.take 2)
def hdrLenField (buf : Bytes) : Nat := leVal ((buf.drop 2).take 2)
def hdrDest (buf : Bytes) : Nat := leVal ((buf.drop 4).take 1)

theorem k10_header_parse (k : K10) (h : K10WF k) (buf : Bytes) (hl : ¬ buf.length < 6) :
    fromBuffer k.hdr (buf.take 6) = .ok [(hdrId buf : Int), (hdrLenField buf : Int), (hdrDest buf : Int),
                                          (leVal ((buf.drop 5).take 1) : Int)] := by
  unfold fromBuffer
  rw [h.hdSize, if_neg (by simp; omega), h.hd]
  simp only [unpack, hdrId, hdrLenField, hdrDest]
  have e1 : List.take 2 (List.take 6 (List.take 6 buf)) = buf.take 2 := by simp [List.take_take]
  have e2 : List.take 2 (List.drop 2 (List.take 6 (List.take 6 buf))) = (buf.drop 2).take 2 := by
    rw [List.take_take, List.drop_take, List.take_take]; simp
  have e3 : List.take 1 (List.drop 2 (List.drop 2 (List.take 6 (List.take 6 buf)))) = (buf.drop 4).take 1 := by
    rw [List.take_take, List.drop_drop, List.drop_take, List.take_take]; simp
  have e4 : List.take 1 (List.drop 1 (List.drop 2 (List.drop 2 (List.take 6 (List.take 6 buf))))) = (buf.drop 5).take 1 := by
    rw [List.take_take, List.drop_drop, List.drop_drop, List.drop_take, List.take_take]; simp
  rw [e1, e2, e3, e4]
  simp [decCell]

theorem fromBuffer_ok (l : Layout) (bs : Bytes) (h : ¬ bs.length < l.size) :
    fromBuffer l bs = .ok (unpack l.cells (bs.take l.size)) := by
  unfold fromBuffer; rw [if_neg h]

/-- **what `_read_message` returns, for every receive stream**: a class of the table whose id is the id in the stream;
the stream announced exactly that class's size (long flag: length field + 6; no flag: 6 bytes); the value is exactly
those bytes; everything else raises (unknown id, wrong length, partial message) -/
theorem k10_read_sound (k : K10) (h : K10WF k) (buf rest : Bytes) (mt : Layout) (vs : List Int)
    (hok : k10Read k buf = (.ok (mt, vs), rest)) :
    mt ∈ k.table ∧ mt.msgId = hdrId buf ∧
    (hdrDest buf &&& 0x80 ≠ 0 → 6 + hdrLenField buf = mt.size) ∧ (hdrDest buf &&& 0x80 = 0 → mt.size = 6) ∧
    mt.size ≤ buf.length ∧ vs = unpack mt.cells (buf.take mt.size) ∧ rest = buf.drop mt.size := by
  unfold k10Read at hok
  rw [h.hl] at hok
  by_cases hl : buf.length < 6
  · rw [readN_short 6 buf hl] at hok; simp at hok
  · rw [readN_ok 6 buf hl] at hok
    simp only at hok
    rw [k10_header_parse k h buf hl] at hok
    simp only [h.iId, h.iLen, h.iDest, h.flag, List.getD_cons_zero, List.getD_cons_succ, Int.toNat_natCast] at hok
    generalize hrId : hdrId buf = id at *
    generalize hrLen : hdrLenField buf = len at *
    generalize hrDest : hdrDest buf = dest at *
    by_cases hflag : dest &&& 0x80 ≠ 0
    · rw [if_pos hflag] at hok
      by_cases hl2 : (buf.drop 6).length < len
      · rw [readN_short len _ hl2] at hok; simp at hok
      · rw [readN_ok len _ hl2] at hok
        simp only at hok
        split at hok
        · simp at hok
        · rename_i mt' hfind
          split at hok
          · simp at hok
          · rename_i hsz
            simp only [Decidable.not_not] at hsz
            rw [fromBuffer_ok _ _ (by omega)] at hok
            simp only [List.length_append, List.length_take, List.length_drop] at hsz hl2
            simp only [Prod.mk.injEq, Except.ok.injEq] at hok
            obtain ⟨⟨hm, hv⟩, hr⟩ := hok
            subst hm
            have hmem := List.mem_of_find?_eq_some hfind
            have hp := List.find?_some hfind
            simp only [beq_iff_eq] at hp
            have hdat : buf.take 6 ++ (buf.drop 6).take len = buf.take (6 + len) := by
              rw [List.take_add]
            refine ⟨hmem, by omega, fun _ => by omega, fun hz => absurd hz hflag, by omega, ?_, ?_⟩
            · rw [← hv, hdat, List.take_take]; congr 2; omega
            · rw [← hr, List.drop_drop]; congr 1; omega
    · rw [if_neg hflag] at hok
      simp only at hok
      split at hok
      · simp at hok
      · rename_i mt' hfind
        split at hok
        · simp at hok
        · rename_i hsz
          simp only [Decidable.not_not] at hsz
          rw [fromBuffer_ok _ _ (by omega)] at hok
          simp only [List.length_take] at hsz
          simp only [Prod.mk.injEq, Except.ok.injEq] at hok
          obtain ⟨⟨hm, hv⟩, hr⟩ := hok
          subst hm
          have hmem := List.mem_of_find?_eq_some hfind
          have hp := List.find?_some hfind
          simp only [beq_iff_eq] at hp
          simp only [Decidable.not_not] at hflag
          refine ⟨hmem, by omega, fun hz => absurd hflag hz, fun _ => by omega, by omega, ?_, ?_⟩
          · rw [← hv, List.take_take]; congr 2; omega
          · rw [← hr]; congr 1; omega


theorem pack_hdr_append (id len d s : Nat) (h1 : id < 65536) (h2 : len < 65536) (h3 : d < 256) (h4 : s < 256)
    (dcells : List Cell) (dvs : List Int) :
    pack ([⟨2, false⟩, ⟨2, false⟩, ⟨1, false⟩, ⟨1, false⟩] ++ dcells) ([(id : Int), (len : Int), (d : Int), (s : Int)] ++ dvs)
      = dataHeader id len d s ++ pack dcells dvs := by
  rw [← pack_hdrData id len d s h1 h2 h3 h4]
  simp [pack, List.append_assoc]

/-- **long message round trip**: the device sends header (class id, length = `sizeof − 6`, long flag set) and the packed
fields; `_read_message` returns that class with exactly the device's values and leaves the rest of the stream -/
theorem k10_read_long (k : K10) (h : K10WF k) (mt : Layout) (dcells : List Cell) (d s : Nat) (dvs : List Int) (rest : Bytes)
    (hfind : k.table.find? (fun l => (l.msgId : Int) == (mt.msgId : Int)) = some mt)
    (hcells : mt.cells = [⟨2, false⟩, ⟨2, false⟩, ⟨1, false⟩, ⟨1, false⟩] ++ dcells)
    (hsz : cellsSize mt.cells = mt.size) (hid : mt.msgId < 65536) (hsize : mt.size < 65536)
    (h3 : d < 256) (hflag : d &&& 0x80 ≠ 0) (h4 : s < 256) (hr : AllInRange dcells dvs) :
    k10Read k (dataHeader mt.msgId (mt.size - 6) d s ++ pack dcells dvs ++ rest)
      = (.ok (mt, [(mt.msgId : Int), ((mt.size - 6 : Nat) : Int), (d : Int), (s : Int)] ++ dvs), rest) := by
  have hds : cellsSize dcells = mt.size - 6 := by
    rw [hcells] at hsz; simp [cellsSize] at hsz ⊢; omega
  have hs6 : 6 ≤ mt.size := by rw [hcells] at hsz; simp [cellsSize] at hsz; omega
  have hpl : (pack dcells dvs).length = mt.size - 6 := by rw [pack_length, hds]
  have hh : (dataHeader mt.msgId (mt.size - 6) d s).length = 6 := by simp [dataHeader]
  unfold k10Read
  rw [h.hl, List.append_assoc, readN_append 6 _ _ hh]
  simp only
  have hfb : fromBuffer k.hdr (dataHeader mt.msgId (mt.size - 6) d s)
      = .ok [(mt.msgId : Int), ((mt.size - 6 : Nat) : Int), (d : Int), (s : Int)] := by
    rw [fromBuffer_ok _ _ (by rw [h.hdSize, hh]; omega), h.hdSize, h.hd]
    have : (dataHeader mt.msgId (mt.size - 6) d s).take 6 = dataHeader mt.msgId (mt.size - 6) d s := by simp [dataHeader]
    rw [this, unpack_dataHeader _ _ _ _ hid (by omega) h3 h4]
  rw [hfb]
  simp only [h.iId, h.iLen, h.iDest, h.flag, List.getD_cons_zero, List.getD_cons_succ, Int.toNat_natCast]
  rw [if_pos hflag, readN_append _ _ _ hpl]
  simp only
  rw [hfind]
  simp only
  rw [if_neg (by simp [hh, hpl]; omega)]
  rw [fromBuffer_ok _ _ (by simp [hh, hpl]; omega)]
  have htake : (dataHeader mt.msgId (mt.size - 6) d s ++ pack dcells dvs).take mt.size
      = dataHeader mt.msgId (mt.size - 6) d s ++ pack dcells dvs := by
    rw [List.take_of_length_le (by simp [hh, hpl]; omega)]
  rw [htake, hcells, ← pack_hdr_append _ _ _ _ hid (by omega) h3 h4]
  have hall : AllInRange ([⟨2, false⟩, ⟨2, false⟩, ⟨1, false⟩, ⟨1, false⟩] ++ dcells)
      ([(mt.msgId : Int), ((mt.size - 6 : Nat) : Int), (d : Int), (s : Int)] ++ dvs) :=
    ⟨inRange_nat 2 _ (by simpa using hid), inRange_nat 2 _ (by simp; omega), inRange_nat 1 _ (by simpa using h3),
     inRange_nat 1 _ (by simpa using h4), hr⟩
  have := unpack_pack _ _ hall []
  rw [List.append_nil] at this
  rw [this]

/-- **header-only message round trip**: six bytes id, two parameter bytes, dest without the long flag, source -/
theorem k10_read_short (k : K10) (h : K10WF k) (mt : Layout) (p1 p2 d s : Nat) (rest : Bytes)
    (hfind : k.table.find? (fun l => (l.msgId : Int) == (mt.msgId : Int)) = some mt)
    (hcells : mt.cells = [⟨2, false⟩, ⟨1, false⟩, ⟨1, false⟩, ⟨1, false⟩, ⟨1, false⟩]) (hsz : mt.size = 6)
    (hid : mt.msgId < 65536) (h1 : p1 < 256) (h2 : p2 < 256) (h3 : d < 256) (hflag : d &&& 0x80 = 0) (h4 : s < 256) :
    k10Read k (dataHeader mt.msgId (p1 + 256 * p2) d s ++ rest)
      = (.ok (mt, [(mt.msgId : Int), (p1 : Int), (p2 : Int), (d : Int), (s : Int)]), rest) := by
  have hh : (dataHeader mt.msgId (p1 + 256 * p2) d s).length = 6 := by simp [dataHeader]
  unfold k10Read
  rw [h.hl, readN_append 6 _ _ hh]
  simp only
  have hfb : fromBuffer k.hdr (dataHeader mt.msgId (p1 + 256 * p2) d s)
      = .ok [(mt.msgId : Int), ((p1 + 256 * p2 : Nat) : Int), (d : Int), (s : Int)] := by
    rw [fromBuffer_ok _ _ (by rw [h.hdSize, hh]; omega), h.hdSize, h.hd]
    have : (dataHeader mt.msgId (p1 + 256 * p2) d s).take 6 = dataHeader mt.msgId (p1 + 256 * p2) d s := by simp [dataHeader]
    rw [this, unpack_dataHeader _ _ _ _ hid (by omega) h3 h4]
  rw [hfb]
  simp only [h.iId, h.iLen, h.iDest, h.flag, List.getD_cons_zero, List.getD_cons_succ, Int.toNat_natCast]
  rw [if_neg (by simp [hflag])]
  simp only
  rw [hfind]
  simp only
  rw [if_neg (by simp [hh, hsz])]
  rw [fromBuffer_ok _ _ (by simp [hh, hsz])]
  have htake : (dataHeader mt.msgId (p1 + 256 * p2) d s).take mt.size = dataHeader mt.msgId (p1 + 256 * p2) d s := by
    rw [List.take_of_length_le (by simp [hh, hsz])]
  rw [htake, hcells]
  have hp : pack [⟨2, false⟩, ⟨1, false⟩, ⟨1, false⟩, ⟨1, false⟩, ⟨1, false⟩] [(mt.msgId : Int), (p1 : Int), (p2 : Int), (d : Int), (s : Int)]
      = dataHeader mt.msgId (p1 + 256 * p2) d s := by
    simp only [pack, List.append_nil]
    rw [encCell_nat ⟨2, false⟩ _ (by simpa using hid), encCell_nat ⟨1, false⟩ p1 (by simpa using h1),
        encCell_nat ⟨1, false⟩ p2 (by simpa using h2), encCell_nat ⟨1, false⟩ d (by simpa using h3),
        encCell_nat ⟨1, false⟩ s (by simpa using h4)]
    simp only [leBytes2, leBytes1, dataHeader, List.cons_append, List.nil_append]
    have e1 : (p1 + 256 * p2) % 256 = p1 % 256 := by omega
    have e2 : (p1 + 256 * p2) / 256 % 256 = p2 % 256 := by omega
    rw [e1, e2]
  rw [← hp]
  have hall : AllInRange [⟨2, false⟩, ⟨1, false⟩, ⟨1, false⟩, ⟨1, false⟩, ⟨1, false⟩]
      [(mt.msgId : Int), (p1 : Int), (p2 : Int), (d : Int), (s : Int)] :=
    ⟨inRange_nat 2 _ (by simpa using hid), inRange_nat 1 _ (by simpa using h1), inRange_nat 1 _ (by simpa using h2),
     inRange_nat 1 _ (by simpa using h3), inRange_nat 1 _ (by simpa using h4), trivial⟩
  have := unpack_pack _ _ hall []
  rw [List.append_nil] at this
  rw [this]

/-- the same for the K10CR1 layer on well-formed messages: a message of the table is consumed whole (`k10_read_long`,
`k10_read_short` give `rest` back); a malformed one empties the input (`discard_read`) -/
theorem k10_read_error_discards (k : K10) (buf b : Bytes) (e : Exc) (h : k10Read k buf = (.error e, b)) (he : e = .instrument) :
    b = [] := by
  subst he
  unfold k10Read at h
  split at h
  · simp at h
  · split at h
    · simp only [Prod.mk.injEq, Except.error.injEq] at h
      -- `fromBuffer` raises ValueError only
      rename_i e' hfb
      unfold fromBuffer at hfb
      split at hfb <;> simp at hfb
      rw [← hfb] at h; simp at h
    · simp only at h
      split at h
      · simp only [Prod.mk.injEq] at h; exact h.2.symm
      · split at h
        · simp only [Prod.mk.injEq] at h; exact h.2.symm
        · split at h
          · simp only [Prod.mk.injEq] at h; exact h.2.symm
          · split at h
            · rename_i e' hfb
              unfold fromBuffer at hfb
              split at hfb <;> simp at hfb
              simp only [Prod.mk.injEq, Except.error.injEq] at h
              rw [← hfb] at h; simp at h
            · simp at h

/-! ### `_wait_message` -/

/-- **`_wait_message` returns only a message of the awaited class** (so: with the awaited id), for every stream and clock -/
theorem k10_wait_sound (k : K10) (want : String) (clk : Clock) (endT : Nat) :
    ∀ fuel n buf tm mt vs b tm', k10WaitLoop k want clk endT fuel n buf tm = (.ok (mt, vs), b, tm') → mt.name = want := by
  intro fuel
  induction fuel with
  | zero => intro n buf tm mt vs b tm' h; simp [k10WaitLoop] at h
  | succ fuel ih =>
    intro n buf tm mt vs b tm' h
    unfold k10WaitLoop at h
    simp only at h
    split at h
    · simp at h
    · rename_i mt0 vs0 b0 hr
      split at h
      · rename_i hn; simp only [Prod.mk.injEq, Except.ok.injEq] at h; rw [← h.1.1]; exact hn
      · split at h
        · simp at h
        · exact ih _ _ _ _ _ _ _ h

/-- a valid message of another class is skipped (while the clock has not passed the deadline) … -/
theorem k10_wait_skip (k : K10) (want : String) (clk : Clock) (endT fuel n : Nat) (buf b : Bytes) (tm : List Nat)
    (mt : Layout) (vs : List Int) (hr : k10Read k buf = (.ok (mt, vs), b)) (hne : mt.name ≠ want)
    (hclk : ¬ clk.at (n + 1) > endT) :
    k10WaitLoop k want clk endT (fuel + 1) n buf tm = k10WaitLoop k want clk endT fuel (n + 2) b (tm ++ [endT - clk.at n]) := by
  conv => lhs; unfold k10WaitLoop
  simp only [hr, if_neg hne, if_neg hclk]

/-- … and the awaited one is returned with the device's values -/
theorem k10_wait_hit (k : K10) (want : String) (clk : Clock) (endT fuel n : Nat) (buf b : Bytes) (tm : List Nat)
    (mt : Layout) (vs : List Int) (hr : k10Read k buf = (.ok (mt, vs), b)) (hn : mt.name = want) :
    k10WaitLoop k want clk endT (fuel + 1) n buf tm = (.ok (mt, vs), b, tm ++ [endT - clk.at n]) := by
  unfold k10WaitLoop
  simp only [hr, if_pos hn]

/-- **the awaited reply behind any number of other valid messages is delivered unchanged** (clock within the deadline):
`skipped` = the messages in front, each with its wire bytes and what `_read_message` makes of it -/
theorem k10_wait_delivers (k : K10) (want : String) (clk : Clock) (endT : Nat) (hstep : clk.step = 0) (hend : clk.t0 ≤ endT)
    (tmt : Layout) (tvs : List Int) (tw rest : Bytes)
    (htr : k10Read k (tw ++ rest) = (.ok (tmt, tvs), rest)) (htn : tmt.name = want) :
    ∀ (skipped : List (Layout × List Int × Bytes)) (fuel n : Nat) (tm : List Nat),
      (∀ x ∈ skipped, x.1.name ≠ want ∧ ∀ r, k10Read k (x.2.2 ++ r) = (.ok (x.1, x.2.1), r)) →
      skipped.length < fuel →
      ∃ tm', k10WaitLoop k want clk endT fuel n ((skipped.map (·.2.2)).flatten ++ (tw ++ rest)) tm = (.ok (tmt, tvs), rest, tm') := by
  intro skipped
  induction skipped with
  | nil =>
    intro fuel n tm _ hf
    obtain ⟨f, rfl⟩ : ∃ f, fuel = f + 1 := ⟨fuel - 1, by simp at hf; omega⟩
    exact ⟨_, by simpa using k10_wait_hit k want clk endT f n _ _ tm tmt tvs htr htn⟩
  | cons x xs ih =>
    intro fuel n tm hx hf
    obtain ⟨f, rfl⟩ : ∃ f, fuel = f + 1 := ⟨fuel - 1, by simp at hf; omega⟩
    have hx1 := hx x (by simp)
    have hclk : ¬ clk.at (n + 1) > endT := by simp [Clock.at, hstep]; omega
    simp only [List.map_cons, List.flatten_cons, List.append_assoc]
    rw [k10_wait_skip k want clk endT f n _ _ tm x.1 x.2.1 (hx1.2 _) hx1.1 hclk]
    exact ih f (n + 2) _ (fun y hy => hx y (List.mem_cons_of_mem _ hy)) (by simp at hf; omega)


/-! ### `_send_message`, `_AptMessage.create` -/

/-- `_send_message` writes the message unchanged or raises without writing; a read time-out of the pending-message
poll is the only suppressed error -/
theorem k10_send_spec (k : K10) (msg buf : Bytes) :
    (∃ b, k10Send k msg buf = (none, some msg, b)) ∨ (∃ e b, e ≠ Exc.timeout ∧ k10Send k msg buf = (some e, none, b)) := by
  unfold k10Send
  split
  · exact Or.inl ⟨_, rfl⟩
  · rename_i e b hne _
    exact Or.inr ⟨e, b, fun he => by subst he; exact hne rfl, rfl⟩
  · exact Or.inl ⟨_, rfl⟩

/-- **`create` of a long message**: id, **length = `sizeof − 6`**, **device address | 0x80**, host address, then the
remaining fields as packed from the keyword values -/
theorem k10_create_long (k : K10) (mt : Layout) (f1 f2 f3 f4 : Field) (dfs : List Field) (dcells : List Cell) (kw : List Int)
    (hfields : mt.fields = f1 :: f2 :: f3 :: f4 :: dfs)
    (hn1 : f1.name = "message_id") (hn2 : f2.name = "data_length") (hn3 : f3.name = "dest") (hn4 : f4.name = "source")
    (hcells : mt.cells = [⟨2, false⟩, ⟨2, false⟩, ⟨1, false⟩, ⟨1, false⟩] ++ dcells)
    (hlong : mt.size > k.hdrLen) (hid : mt.msgId < 65536) (hsize : mt.size < 65536)
    (hdev : k.devAddr < 256) (hflag : k.longFlag < 256) (hhost : k.hostAddr < 256) :
    k10Create k mt kw = dataHeader mt.msgId (mt.size - k.hdrLen) (k.devAddr ||| k.longFlag) k.hostAddr
                          ++ pack dcells (k10CreateVals k mt dfs kw) := by
  unfold k10Create
  rw [hfields, hcells]
  simp only [k10CreateVals, hn1, hn2, hn3, hn4, hlong, if_true, and_self, if_false,
    show ("data_length" = "message_id") = False by decide, show ("dest" = "message_id") = False by decide,
    show ("dest" = "data_length") = False by decide, show ("source" = "message_id") = False by decide,
    show ("source" = "data_length") = False by decide, show ("source" = "dest") = False by decide, false_and]
  have hor : k.devAddr ||| k.longFlag < 256 := Nat.or_lt_two_pow (n := 8) hdev hflag
  have := pack_hdr_append mt.msgId (mt.size - k.hdrLen) (k.devAddr ||| k.longFlag) k.hostAddr hid (by omega) hor hhost dcells
    (k10CreateVals k mt dfs kw)
  simpa using this

/-! ### obligations on the generated K10CR1 table -/

theorem gen_k10_wf : K10WF Gen.Layouts.k10 := by
  refine ⟨?_, ?_, ?_, ?_, ?_, ?_, ?_⟩ <;> decide

/-- every class of `_apt_message_type_table`: contiguous fields, `sizeof` = sum of cells ≥ 6, found under its own id
(ids unique), ids and sizes fit the header fields; header-only classes are id + two parameter bytes + dest + source; long
classes start with the four header fields -/
theorem gen_k10_table :
    ∀ mt ∈ Gen.Layouts.k10.table,
      mt.Contiguous ∧ cellsSize mt.cells = mt.size ∧ 6 ≤ mt.size ∧ mt.msgId < 65536 ∧ mt.size < 65536 ∧
      Gen.Layouts.k10.table.find? (fun l => (l.msgId : Int) == (mt.msgId : Int)) = some mt ∧
      (mt.size = 6 → mt.cells = [⟨2, false⟩, ⟨1, false⟩, ⟨1, false⟩, ⟨1, false⟩, ⟨1, false⟩]) ∧
      (mt.size > 6 → mt.cells.take 4 = [⟨2, false⟩, ⟨2, false⟩, ⟨1, false⟩, ⟨1, false⟩] ∧
                     (mt.fields.take 4).map Field.name = ["message_id", "data_length", "dest", "source"]) := by
  decide +kernel

theorem gen_k10_consts : Gen.Layouts.k10.devAddr < 128 ∧ Gen.Layouts.k10.hostAddr < 128 ∧ Gen.Layouts.k10.table.length > 0 := by decide

/-- read for the current source: whatever `_read_message` returns is a table class under the id found in the stream, of
the announced size, with exactly the stream's bytes -/
theorem gen_k10_read_sound (buf rest : Bytes) (mt : Layout) (vs : List Int)
    (hok : k10Read Gen.Layouts.k10 buf = (.ok (mt, vs), rest)) :
    mt ∈ Gen.Layouts.k10.table ∧ mt.msgId = hdrId buf ∧ vs = unpack mt.cells (buf.take mt.size) ∧ rest = buf.drop mt.size :=
  let r := k10_read_sound _ gen_k10_wf buf rest mt vs hok
  ⟨r.1, r.2.1, r.2.2.2.2.2.1, r.2.2.2.2.2.2⟩

/-- non-vacuity: a GET_STATUSBITS reply behind a MOVE_HOMED notification is what `_wait_message` returns -/
example : (k10Wait Gen.Layouts.k10 "_AptMsgGetStatusBits" ⟨0, 1⟩ 10
      [0x44, 0x04, 1, 0, 0x01, 0x50,  0x2a, 0x04, 6, 0, 0x81, 0x50, 1, 0, 0x78, 0x56, 0x34, 0x12,  0xaa]).1.toOption.map (·.2)
    = some [0x042a, 6, 0x81, 0x50, 1, 0x12345678] := by decide +kernel

/-- … and an unknown id, a wrong length field or a cut-off message raise -/
example : (k10Read Gen.Layouts.k10 [0x13, 0x02, 1, 0, 0x01, 0x50]).1.toOption = none
    ∧ (k10Read Gen.Layouts.k10 [0x2a, 0x04, 7, 0, 0x81, 0x50, 1, 0, 0x78, 0x56, 0x34, 0x12, 0]).1.toOption = none
    ∧ (k10Read Gen.Layouts.k10 [0x2a, 0x04, 6, 0, 0x81, 0x50, 1, 0, 0x78]).1.toOption = none := by decide +kernel

end Apt

/-! # T2 event stream -/
section T2
open QmiModel.T2

/-- **a stream cut in two**: processing `a ++ b` = processing `a`, then `b` with the carried counter -/
theorem process_append (p : Params) (c : Nat) (a b : List Nat) :
    process p c (a ++ b) =
      ((process p (process p c a).1 b).1, (process p c a).2 ++ (process p (process p c a).1 b).2) := by
  induction a generalizing c with
  | nil => simp [process_nil]
  | cons r rs ih =>
    simp only [List.cons_append, process_cons]
    split
    · exact ih _
    · simp [ih]

/-- **batch-split invariance**: however the record stream is cut into batches (empty batches included), the decoder
fed batch after batch returns, concatenated, exactly what it returns for the whole stream, and carries the same counter -/
theorem batch_split_invariance (p : Params) (c : Nat) (batches : List (List Nat)) :
    processBatches p c batches = process p c batches.flatten := by
  induction batches generalizing c with
  | nil => rfl
  | cons b bs ih =>
    simp only [processBatches, List.flatten_cons, process_append, ih]

/-- the carried counter after a batch = carried counter before + the overflow counts of the batch -/
theorem counter_spec (p : Params) (c : Nat) (rs : List Nat) : (process p c rs).1 = c + overflowSum p rs := by
  induction rs generalizing c with
  | nil => simp [process_nil, overflowSum]
  | cons r rs ih =>
    rw [process_cons]
    unfold overflowSum at *
    split
    · rename_i h; rw [ih]; simp [h]; omega
    · rename_i h; simp only [ih]; simp [h]

/-- **timestamp of every event**: a non-overflow record `r` preceded (in this batch) by the records `pre` yields
`(type r, (carried + Σ overflow counts in pre) · period + tag r)`, placed after the events of `pre` -/
theorem timestamp_spec (p : Params) (c : Nat) (pre post : List Nat) (r : Nat) (hr : isOverflow p r = false) :
    (process p c (pre ++ r :: post)).2 =
      (process p c pre).2 ++
        ⟨recType p r, (c + overflowSum p pre) * p.period + recTag p r⟩ :: (process p (c + overflowSum p pre) post).2 := by
  rw [process_append, process_cons]
  simp [hr, counter_spec]

/-- overflow records yield no event, every other record yields exactly one -/
theorem events_length (p : Params) (c : Nat) (rs : List Nat) :
    (process p c rs).2.length = (rs.filter (fun r => !isOverflow p r)).length := by
  induction rs generalizing c with
  | nil => rfl
  | cons r rs ih =>
    rw [process_cons]
    split
    · rename_i h; simp [h, ih]
    · rename_i h; simp [h, ih]

/-- the record-format constants under which tag and type are the documented bit fields -/
def t2Wf (p : Params) : Bool :=
  p.typeShift == 25 && p.tagMask == 2 ^ 25 - 1 && p.overflowType == 0x7f && p.period == 2 ^ 25

theorem gen_t2_wf : t2Wf Gen.Layouts.t2 = true := by decide

/-- with the generated constants: tag = bits 24..0, type = bits 31..25 (special flag and channel) -/
theorem fields_spec (p : Params) (h : t2Wf p = true) (r : Nat) (hr : r < 2 ^ 32) :
    recTag p r = r % 2 ^ 25 ∧ recType p r = r / 2 ^ 25 ∧ (isOverflow p r = true ↔ r / 2 ^ 25 = 127) ∧ p.period = 2 ^ 25 := by
  simp only [t2Wf, Bool.and_eq_true, beq_iff_eq] at h
  obtain ⟨⟨⟨h1, h2⟩, h3⟩, h4⟩ := h
  unfold isOverflow recTag recType
  rw [h1, h2, h3, h4, Nat.and_two_pow_sub_one_eq_mod, Nat.shiftRight_eq_div_pow]
  have : r / 2 ^ 25 < 256 := by omega
  rw [Nat.mod_eq_of_lt this]
  simp

/-- the 25-bit tag never spills into the overflow part: a timestamp determines counter and tag uniquely -/
theorem timestamp_decomposes (p : Params) (h : t2Wf p = true) (c r : Nat) :
    (c * p.period + recTag p r) / p.period = c ∧ (c * p.period + recTag p r) % p.period = recTag p r := by
  simp only [t2Wf, Bool.and_eq_true, beq_iff_eq] at h
  obtain ⟨⟨⟨_, h2⟩, _⟩, h4⟩ := h
  unfold recTag
  rw [h2, h4, Nat.and_two_pow_sub_one_eq_mod]
  have : r % 2 ^ 25 < 2 ^ 25 := Nat.mod_lt _ (by decide)
  constructor
  · rw [Nat.mul_comm, Nat.mul_add_div (by decide), Nat.div_eq_of_lt this]; rfl
  · rw [Nat.mul_comm, Nat.mul_add_mod, Nat.mod_eq_of_lt this]


/-! ## T2: numpy's uint64 arithmetic -/

theorem processU64_cons (p : Params) (c r : Nat) (rs : List Nat) :
    processU64 p c (r :: rs) =
      if isOverflow p r then processU64 p ((c + recTag p r) % word) rs
      else ((processU64 p c rs).1, ⟨recType p r, (c * p.period + recTag p r) % word⟩ :: (processU64 p c rs).2) := by
  by_cases h : isOverflow p r = true
  · simp [processU64, stepU64, h]
  · simp [processU64, stepU64, h]

theorem overflowSum_cons (p : Params) (r : Nat) (rs : List Nat) :
    overflowSum p (r :: rs) = (if isOverflow p r then recTag p r else 0) + overflowSum p rs := by
  simp [overflowSum]

/-- **the uint64 bound as an explicit hypothesis**: while `(carried + all overflow counts of the batch) · period + tagMask`
fits 64 bits, numpy's wrapping arithmetic computes exactly the unbounded result -/
theorem processU64_eq_process (p : Params) (c : Nat) (rs : List Nat)
    (hb : (c + overflowSum p rs) * p.period + p.tagMask < word) (hper : 1 ≤ p.period) :
    processU64 p c rs = process p c rs := by
  induction rs generalizing c with
  | nil => rfl
  | cons r rs ih =>
    rw [processU64_cons, process_cons]
    rw [overflowSum_cons] at hb
    have htag : recTag p r ≤ p.tagMask := by unfold recTag; exact Nat.and_le_right
    by_cases h : isOverflow p r = true
    · simp only [h, if_true] at hb ⊢
      have hle : c + recTag p r ≤ (c + (recTag p r + overflowSum p rs)) * p.period := by
        calc c + recTag p r ≤ c + (recTag p r + overflowSum p rs) := by omega
          _ ≤ (c + (recTag p r + overflowSum p rs)) * p.period := Nat.le_mul_of_pos_right _ hper
      rw [Nat.mod_eq_of_lt (by omega)]
      exact ih _ (by rw [Nat.add_assoc]; exact hb)
    · simp only [h, if_false, Bool.false_eq_true, Nat.zero_add] at hb ⊢
      have hmono : c * p.period ≤ (c + overflowSum p rs) * p.period := Nat.mul_le_mul_right _ (by omega)
      rw [Nat.mod_eq_of_lt (by omega), ih c hb]

/-- how many overflow records it takes: each adds at most `tagMask` -/
theorem overflowSum_le (p : Params) (rs : List Nat) :
    overflowSum p rs ≤ (rs.filter (isOverflow p)).length * p.tagMask := by
  induction rs with
  | nil => simp [overflowSum]
  | cons r rs ih =>
    rw [overflowSum_cons]
    have htag : recTag p r ≤ p.tagMask := by unfold recTag; exact Nat.and_le_right
    by_cases h : isOverflow p r = true
    · simp only [h, if_true, List.filter_cons_of_pos, List.length_cons, Nat.succ_mul]; omega
    · simp only [h, Bool.false_eq_true, if_false, Nat.zero_add]
      rw [List.filter_cons_of_neg (by simpa using h)]; exact ih

/-- **with the constants of the source**: starting from a carried counter `c`, no timestamp wraps as long as
`c + 33554431 · (number of overflow records in the batch) < 2^39`; from `c = 0` that takes more than 16384 overflow
records each carrying the maximal count (for a device that reports every wrap of its 25-bit clock: 2^39 wraps) -/
theorem gen_t2_no_wrap (c : Nat) (rs : List Nat)
    (hb : c + (rs.filter (isOverflow Gen.Layouts.t2)).length * 33554431 < 2 ^ 39) :
    processU64 Gen.Layouts.t2 c rs = process Gen.Layouts.t2 c rs := by
  apply processU64_eq_process
  · have h1 := overflowSum_le Gen.Layouts.t2 rs
    have e1 : Gen.Layouts.t2.tagMask = 33554431 := by decide
    have e2 : Gen.Layouts.t2.period = 33554432 := by decide
    rw [e1] at h1
    rw [e1, e2]
    unfold word
    omega
  · decide

example : (16384 : Nat) * 33554431 < 2 ^ 39 ∧ ¬ ((16385 : Nat) * 33554431 < 2 ^ 39) := by decide

/-- the bound is sharp: at carried counter 2^39 − 1 one more overflow wraps the next timestamp to a small number -/
example : (processU64 Gen.Layouts.t2 (2 ^ 39 - 1) [0xFE000001, 7]).2 = [⟨0, 7⟩]
    ∧ (process Gen.Layouts.t2 (2 ^ 39 - 1) [0xFE000001, 7]).2 = [⟨0, 2 ^ 64 + 7⟩] := by decide +kernel


/-- a decoder fed batch after batch, in numpy's arithmetic -/
def processBatchesU64 (p : Params) : Nat → List (List Nat) → Nat × List Event
  | c, [] => (c, [])
  | c, b :: bs => ((processBatchesU64 p (processU64 p c b).1 bs).1, (processU64 p c b).2 ++ (processBatchesU64 p (processU64 p c b).1 bs).2)

theorem processU64_append (p : Params) (c : Nat) (a b : List Nat) :
    processU64 p c (a ++ b) =
      ((processU64 p (processU64 p c a).1 b).1, (processU64 p c a).2 ++ (processU64 p (processU64 p c a).1 b).2) := by
  induction a generalizing c with
  | nil => simp [processU64]
  | cons r rs ih =>
    simp only [List.cons_append, processU64_cons]
    split
    · exact ih _
    · simp [ih]

/-- **batch-split invariance holds for the wrapping arithmetic too** — with no bound at all: even beyond 2^64 the
decoder's output does not depend on how the stream is cut into batches -/
theorem batch_split_invariance_u64 (p : Params) (c : Nat) (batches : List (List Nat)) :
    processBatchesU64 p c batches = processU64 p c batches.flatten := by
  induction batches generalizing c with
  | nil => rfl
  | cons b bs ih => simp only [processBatchesU64, List.flatten_cons, processU64_append, ih]

/-! ## T3 mode (same carried counter; outside the statement of C15, modelled for the shared state) -/

theorem t3Scan_cons (p : Params3) (P R c r : Nat) (rs : List Nat) :
    t3Scan p P R c (r :: rs) =
      if t3IsOverflow p r then t3Scan p P R ((c + t3N p r) % word) rs
      else ((t3Scan p P R c rs).1,
            (⟨t3Type p r, (c * p.wrap + t3N p r) * P + t3D p r * R⟩, (c * p.wrap + t3N p r) * P) :: (t3Scan p P R c rs).2) := by
  by_cases h : t3IsOverflow p r = true
  · simp [t3Scan, h]
  · simp [t3Scan, h]

/-- **T3, the part before `unique`/`lexsort`**: carried counter and the data events (with their sync timestamps) of
`a ++ b` are those of `a` followed by those of `b` decoded with the carried counter — for every cut, no bound -/
theorem t3Scan_append (p : Params3) (P R c : Nat) (a b : List Nat) :
    t3Scan p P R c (a ++ b) =
      ((t3Scan p P R (t3Scan p P R c a).1 b).1, (t3Scan p P R c a).2 ++ (t3Scan p P R (t3Scan p P R c a).1 b).2) := by
  induction a generalizing c with
  | nil => simp [t3Scan]
  | cons r rs ih =>
    simp only [List.cons_append, t3Scan_cons]
    split
    · exact ih _
    · simp [ih]

/-- the carried counter of T3 does not depend on the batching either -/
theorem t3_counter_split (p : Params3) (P R c : Nat) (a b : List Nat) :
    (processT3 p P R c (a ++ b)).1 = (processT3 p P R (processT3 p P R c a).1 b).1 := by
  simp [processT3, t3Scan_append]

/-- **T3 is *not* batch-split invariant in its SYNC events** (outside the statement of C15, which names the T2 decoder):
two photons of the same sync period (n_sync = 5) — in one batch there is one SYNC event, cut between them there are two.
Replayed on the real `_T3EventDecoder`: same result. -/
theorem t3_sync_duplicated_by_batch_split :
    (processT3 Gen.Layouts.t3 200000 1 0 [33656837, 67313669]).2
      = [⟨64, 1000000⟩, ⟨1, 1000100⟩, ⟨2, 1000200⟩] ∧
    (processT3 Gen.Layouts.t3 200000 1 0 [33656837]).2 ++ (processT3 Gen.Layouts.t3 200000 1 0 [67313669]).2
      = [⟨64, 1000000⟩, ⟨1, 1000100⟩, ⟨64, 1000000⟩, ⟨2, 1000200⟩] := by decide +kernel


/-! ### non-vacuity: photon, 2 overflows, photon, SYNC; then a second batch continues with the carried counter -/

example : process Gen.Layouts.t2 0 [5, 0xFE000002, 7, 0x80000001]
    = (2, [⟨0, 5⟩, ⟨0, 2 * 2 ^ 25 + 7⟩, ⟨64, 2 * 2 ^ 25 + 1⟩]) := by decide

example : processBatches Gen.Layouts.t2 0 [[5, 0xFE000002], [], [7, 0x80000001]]
    = process Gen.Layouts.t2 0 [5, 0xFE000002, 7, 0x80000001] := by decide

end T2

end QmiModel.C15B
