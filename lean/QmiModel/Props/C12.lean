import QmiModel.Lemmas.C12
import QmiModel.Lemmas.C12Conc
import QmiModel.Lemmas.C12Calls
import QmiModel.Lemmas.C12Race
import QmiModel.Lemmas.C12MMa0
import QmiModel.Lemmas.C12MMa1
import QmiModel.Lemmas.C12MMa2
import QmiModel.Lemmas.C12MMa3
import QmiModel.Lemmas.C12MMa4
import QmiModel.Lemmas.C12MMa5
/-!
# C12 — context lifecycle: unique names, clean failure, stop reclaims everything

Property theorems only (model: `Model/Context.lean`, helper lemmas: `Lemmas/C12.lean`).

Quantifiers.  "For all finite histories" = `∀ ops : List Op` (layer A) / `∀ ops : List POp` (layer B,
the process-wide singleton), proved by induction through the invariant `WF` (`wf_run`).  Faults are part of
the operations: `make … ctorF relF runB` (constructor / release step / task body raise), `addH .exc`
(stop handler raises), `start tcpF udpF`, `qstart … tcpF udpF peers logF` (start steps fail: TCP bind, UDP bind, a peer, logging initialisation).  "Every population
present at stop" = every well-formed state.  Layer C (`stop ‖ make`) quantifies over all schedules.

History: on the pinned tree (04de7e7) two clauses were false — a failed start left the router thread and the
singleton behind, and `stop ‖ make` had a race on the unregistered handler.  Both were repaired in /repo (d5615ad,
104bb5b); the model mirrors the repaired code and the clauses are now proved at full strength
(`failed_start_leaves_nothing`, `process_can_start_again`, `stop_make_all_schedules`).
-/
namespace QmiModel.Context

/-! ## unique names -/

/-- In every reachable state a name refers to at most one live object: the keys of the object map, the keys of
the handler map and the names of the live managers are duplicate-free, and the three describe the same objects. -/
theorem name_unique (t : Bool) (ops : List Op) :
    let c := run (Ctx.init t) ops
    (c.objMap.map Prod.fst).Nodup ∧ (c.handlers.map Prod.fst).Nodup ∧ (c.mgrs.map Obj.name).Nodup ∧
      c.objMap = mapOf c.mgrs ∧ c.handlers = keys c.mgrs := by
  intro c
  have h : WF c := wf_run (wf_init t) ops
  refine ⟨?_, ?_, h.names, h.map_eq, h.h_eq⟩
  · rw [h.map_eq]; simp only [mapOf, List.map_map]; exact h.names
  · rw [h.h_eq]; simp only [keys, List.map_map]; exact h.names

/-- a duplicate is refused and changes nothing (whatever kind, whatever faults the new object would have had) -/
theorem duplicate_refused (t : Bool) (ops : List Op) (k : Kind) (n : Name) (cf rf : Bool) (rb : RunB) :
    let c := run (Ctx.init t) ops
    c.active = true → hasKey c.objMap n = true →
      step c (.make k n true cf rf rb) = ({ c with log := [] }, .exc .duplicate) := by
  intro c ha hk
  exact make_dup (c := { c with log := [] }) ha hk k cf rf rb

example : ∃ c : Ctx, c = run (Ctx.init true) [.start false false, .make .task 1 true false true .raise] ∧
    c.active = true ∧ hasKey c.objMap 1 = true := ⟨_, rfl, by decide, by decide⟩

/-! ## a name is free again after a failed constructor or a removal, and nothing is left behind -/

/-- `no_residue` for a failing constructor — in **every** state (reachable or not), for every kind of object:
the call raises and object map (no reservation), handler map, live managers (threads), sockets and router are
exactly what they were. -/
theorem failed_ctor_no_residue (c : Ctx) (k : Kind) (n : Name) (v rf : Bool) (rb : RunB) :
    (step c (.make k n v true rf rb)).2 ≠ .ok ∧ (step c (.make k n v true rf rb)).1.residue = c.residue := by
  cases v with
  | false => simp only [step, make_invalid]; exact ⟨by simp, rfl⟩
  | true =>
    cases ha : c.active with
    | false => simp only [step]; rw [make_inactive (c := { c with log := [] }) ha]; exact ⟨by simp, rfl⟩
    | true =>
      cases hk : hasKey c.objMap n with
      | true => simp only [step]; rw [make_dup (c := { c with log := [] }) ha hk]; exact ⟨by simp, rfl⟩
      | false => simp only [step]; rw [make_ctor_fail (c := { c with log := [] }) ha hk]; exact ⟨by simp, rfl⟩

/-- … and the name can be used at once -/
theorem name_free_after_failed_ctor {c : Ctx} (h : WF c) (ha : c.active = true) {n : Name}
    (hn : n ∉ c.mgrs.map Obj.name) (k k' : Kind) (rf rf' : Bool) (rb rb' : RunB) :
    (step (step c (.make k n true true rf rb)).1 (.make k' n true false rf' rb')).2 = .ok := by
  have h1 : WF (step c (.make k n true true rf rb)).1 := wf_step h _
  have hres := (failed_ctor_no_residue c k n true rf rb).2
  have hm : (step c (.make k n true true rf rb)).1.mgrs = c.mgrs := congrArg Residue.mgrs hres
  have hf := flags_step c (.make k n true true rf rb) (by intros; simp) (by simp) (by intros; simp)
  have hact : (step c (.make k n true true rf rb)).1.active = true := (congrArg Flags.active hf).trans ha
  exact step_make_ok h1 hact (by rw [hm]; exact hn) k' rf' rb'

example : WF (run (Ctx.init false) [.start false false]) ∧ (run (Ctx.init false) [.start false false]).active = true ∧
    (3 : Name) ∉ (run (Ctx.init false) [.start false false]).mgrs.map Obj.name :=
  ⟨wf_run (wf_init _) _, by decide, by decide⟩

/-- `no_residue` for removal: removing a live object succeeds, releases it exactly once, and leaves exactly the
other objects: no reservation, no handler, no thread of it. -/
theorem remove_no_residue {c : Ctx} (h : WF c) {o : Obj} (ho : o ∈ c.mgrs) :
    (step c (.remove o.name)).2 = .ok ∧
    (step c (.remove o.name)).1.residue =
        { objMap := mapOf (c.mgrs.filter (fun x => x.id != o.id)),
          handlers := keys (c.mgrs.filter (fun x => x.id != o.id)),
          mgrs := c.mgrs.filter (fun x => x.id != o.id),
          conns := c.conns, routerUp := c.routerUp } ∧
    (step c (.remove o.name)).1.released = c.released ++ [o.id] ∧
    hasKey (step c (.remove o.name)).1.objMap o.name = false ∧
    hasKey (step c (.remove o.name)).1.handlers o.name = false ∧ o ∉ (step c (.remove o.name)).1.mgrs := by
  have h0 : WF { c with log := [] } := h.congr rfl rfl rfl rfl rfl
  have e : step c (.remove o.name) = _ := remove_live h0 ho
  have hnot : o.name ∉ (c.mgrs.filter (fun x => x.id != o.id)).map Obj.name := by
    intro hm
    obtain ⟨x, hx, hxn⟩ := List.mem_map.1 hm
    have hx' := List.mem_filter.1 hx
    have := (name_iff_id h.names h.ids ho hx'.1).1 hxn
    simp [this] at hx'
  rw [e]
  refine ⟨rfl, rfl, rfl, ?_, ?_, ?_⟩
  · rw [Bool.eq_false_iff]; intro hk; exact hnot (hasKey_mapOf.1 hk)
  · rw [Bool.eq_false_iff]; intro hk; exact hnot (hasKey_keys.1 hk)
  · intro hm; exact hnot (List.mem_map_of_mem (f := Obj.name) hm)

/-- make followed by remove restores the residue exactly (threads, handlers, reservations as before) -/
theorem make_remove_no_residue {c : Ctx} (h : WF c) (ha : c.active = true) {n : Name}
    (hn : n ∉ c.mgrs.map Obj.name) (k : Kind) (rf : Bool) (rb : RunB) :
    (step (step c (.make k n true false rf rb)).1 (.remove n)).2 = .ok ∧
    (step (step c (.make k n true false rf rb)).1 (.remove n)).1.residue = c.residue := by
  have h0 : WF { c with log := [] } := h.congr rfl rfl rfl rfl rfl
  have h1 : WF (step c (.make k n true false rf rb)).1 := wf_step h _
  have e1 : step c (.make k n true false rf rb) = _ := make_ok h0 ha hn k rf rb
  have hm : (step c (.make k n true false rf rb)).1.mgrs = c.mgrs ++ [newObj { c with log := [] } k n rf rb] := by rw [e1]
  have hc : (step c (.make k n true false rf rb)).1.conns = c.conns := by rw [e1]
  have hr : (step c (.make k n true false rf rb)).1.routerUp = c.routerUp := by rw [e1]
  have ho : newObj { c with log := [] } k n rf rb ∈ (step c (.make k n true false rf rb)).1.mgrs := by rw [hm]; simp
  have h2 := remove_no_residue h1 ho
  have hfil : (c.mgrs ++ [newObj { c with log := [] } k n rf rb]).filter
      (fun x => x.id != (newObj { c with log := [] } k n rf rb).id) = c.mgrs := by
    rw [List.filter_append]
    have : c.mgrs.filter (fun x => x.id != (newObj { c with log := [] } k n rf rb).id) = c.mgrs := by
      rw [List.filter_eq_self]
      intro x hx
      have := h.ids_lt x hx
      simp only [newObj, bne_iff_ne]
      omega
    rw [this]; simp
  refine ⟨h2.1, ?_⟩
  have := h2.2.1
  rw [hm, hfil, hc, hr, ← h.map_eq, ← h.h_eq] at this
  exact this

/-- … and after a removal the name can be used at once -/
theorem name_free_after_remove {c : Ctx} (h : WF c) (ha : c.active = true) {o : Obj} (ho : o ∈ c.mgrs)
    (k : Kind) (rf : Bool) (rb : RunB) :
    (step (step c (.remove o.name)).1 (.make k o.name true false rf rb)).2 = .ok := by
  have h1 : WF (step c (.remove o.name)).1 := wf_step h _
  have hr := remove_no_residue h ho
  have hf := flags_step c (.remove o.name) (by intros; simp) (by simp) (by intros; simp)
  have hact : (step c (.remove o.name)).1.active = true := (congrArg Flags.active hf).trans ha
  have hn : o.name ∉ (step c (.remove o.name)).1.mgrs.map Obj.name := by
    intro hm
    have : hasKey (step c (.remove o.name)).1.objMap o.name = true := by
      rw [h1.map_eq]; exact hasKey_mapOf.2 hm
    rw [hr.2.2.2.1] at this; cases this
  exact step_make_ok h1 hact hn k rf rb

example : ∃ c o, c = run (Ctx.init true) [.start false false, .make .instr 2 true false false .loop, .iopen 2] ∧
    WF c ∧ c.active = true ∧ o ∈ c.mgrs ∧ o.name = 2 :=
  ⟨_, ⟨1, 2, .instr, false, .loop, true, .ready, false⟩, rfl, wf_run (wf_init _) _, by decide, by decide, rfl⟩


/-! ## stop: every remaining object released exactly once; all threads and connections end -/

/-- Stopping an active context — whatever population of RPC objects, open or closed instruments, ready / running /
failed / joined tasks is present (`WF c`), whichever release steps raise (`relF`, a failed task's `join`), whichever
stop handlers raise an `Exception` — returns normally, runs the release step of every remaining object **exactly
once** (count 1 in the release log), and of nothing else. -/
theorem stop_releases_each_once {c : Ctx} (h : WF c) (ha : c.active = true) (hb : firstBase c.stopH 0 = none) :
    (step c .stop).2 = .ok ∧
    (step c .stop).1.released = c.released ++ c.mgrs.map Obj.id ∧
    (∀ o ∈ c.mgrs, (step c .stop).1.released.count o.id = 1) ∧
    (∀ i, i ∉ c.mgrs.map Obj.id → (step c .stop).1.released.count i = c.released.count i) := by
  have h0 : WF { c with log := [] } := h.congr rfl rfl rfl rfl rfl
  have e : step c .stop = _ := stop_ok h0 ha hb
  have hw : WF (step c .stop).1 := wf_step h _
  have hrel : (step c .stop).1.released = c.released ++ c.mgrs.map Obj.id := by rw [e]
  refine ⟨by rw [e], hrel, ?_, ?_⟩
  · intro o ho
    have hnd := hw.rel_nodup
    rw [hrel] at hnd ⊢
    have hm : o.id ∈ c.released ++ c.mgrs.map Obj.id :=
      List.mem_append_right _ (List.mem_map_of_mem (f := Obj.id) ho)
    rw [hnd.count, if_pos hm]
  · intro i hi
    rw [hrel, List.count_append, List.count_eq_zero_of_not_mem hi, Nat.add_zero]

/-- what the release steps run by `stop()` do, per category: the event list of `stop()` is exactly "stop handlers, then
for every remaining object in creation order: unregister, release (`relEvents`: an open instrument only *warns* — its
transport stays open and is recorded in `leftOpen`; an unjoined task is stopped and its thread joined; a raising
release step, or the `join()` of a task whose body raised, is swallowed), join the worker" — and `stop()` still
returns normally.  If no instrument is open at `stop()`, no transport is left open. -/
theorem stop_release_effects {c : Ctx} (h : WF c) (ha : c.active = true) (hb : firstBase c.stopH 0 = none) :
    (step c .stop).1.log = (List.range c.stopH.length).map Ev.handler ++ stopEvents c.mgrs ∧
    (step c .stop).1.leftOpen = c.leftOpen ++ c.mgrs.flatMap leftOpenOf ∧
    ((∀ o ∈ c.mgrs, o.kind = .instr → o.isOpen = false) → (step c .stop).1.leftOpen = c.leftOpen) ∧
    (∀ o ∈ c.mgrs, o.kind = .task → o.ts ≠ .joined → Ev.tstop o.id ∈ (step c .stop).1.log) := by
  have h0 : WF { c with log := [] } := h.congr rfl rfl rfl rfl rfl
  have e : step c .stop = _ := stop_ok h0 ha hb
  rw [e]
  refine ⟨by simp, rfl, ?_, ?_⟩
  · intro hcl
    show c.leftOpen ++ c.mgrs.flatMap leftOpenOf = c.leftOpen
    have : c.mgrs.flatMap leftOpenOf = [] := by
      rw [List.flatMap_eq_nil_iff]
      intro o ho
      unfold leftOpenOf
      cases hk : o.kind <;> simp [hk]
      exact hcl o ho hk
    rw [this, List.append_nil]
  · intro o ho hk hj
    show Ev.tstop o.id ∈ [] ++ (List.range c.stopH.length).map Ev.handler ++ stopEvents c.mgrs
    apply List.mem_append_right
    have : ∀ (ms : List Obj), o ∈ ms → Ev.tstop o.id ∈ stopEvents ms := by
      intro ms
      induction ms with
      | nil => intro hm; cases hm
      | cons a r ih =>
        intro hm
        simp only [stopEvents, List.mem_append]
        rcases List.mem_cons.1 hm with rfl | hm
        · left; right
          simp [relEvents, hk, hj]
        · right; exact ih hm
    exact this _ ho

/-- over every history, with every fault: no release step ever runs twice, and no live object has been released -/
theorem released_at_most_once (t : Bool) (ops : List Op) :
    (run (Ctx.init t) ops).released.Nodup ∧
    ∀ o ∈ (run (Ctx.init t) ops).mgrs, o.id ∉ (run (Ctx.init t) ops).released :=
  ⟨(wf_run (wf_init t) ops).rel_nodup, (wf_run (wf_init t) ops).rel_disj⟩

/-- … ends all its threads (router, every RPC thread, every task thread) and connections (TCP server, UDP
responder, peers), empties the handler map and the object map, and marks the context inactive. -/
theorem stop_ends_all_threads_and_connections {c : Ctx} (h : WF c) (ha : c.active = true)
    (hb : firstBase c.stopH 0 = none) :
    (step c .stop).1.residue = Residue.empty ∧ (step c .stop).1.threadCount = 0 ∧
    (step c .stop).1.active = false := by
  have h0 : WF { c with log := [] } := h.congr rfl rfl rfl rfl rfl
  have e : step c .stop = _ := stop_ok h0 ha hb
  rw [e]
  exact ⟨rfl, rfl, rfl⟩

example : ∃ c, c = run (Ctx.init true) [.start false false, .addH .exc, .make .rpc 1 true false true .loop,
      .make .instr 2 true false true .loop, .iopen 2, .make .task 3 true false true .raise, .tstart 3,
      .make .task 4 true false false .loop, .tstart 4] ∧
    WF c ∧ c.active = true ∧ firstBase c.stopH 0 = none ∧ c.threadCount = 7 :=
  ⟨_, rfl, wf_run (wf_init _) _, by decide, by decide, by decide⟩

/-! ## calls through stale proxies fail promptly -/

/-- a call never hangs in a reachable state: a registered handler always has a live worker behind it -/
theorem call_never_hangs (t : Bool) (ops : List Op) (n : Name) :
    call (run (Ctx.init t) ops) n ≠ .hang ∧ get (run (Ctx.init t) ops) n ≠ .hang := by
  have h : WF (run (Ctx.init t) ops) := wf_run (wf_init t) ops
  generalize run (Ctx.init t) ops = c at h
  have key : ∀ m, reach c m ≠ .error .hang := by
    intro m
    by_cases hm : m ∈ c.mgrs.map Obj.name
    · obtain ⟨o, ho, rfl⟩ := List.mem_map.1 hm
      have hf : c.handlers.find? (fun e => e.1 == o.name) = some (o.name, o.id) := by
        rw [h.h_eq]; exact keys_find h.names ho
      simp only [reach, hf, findMgr_mem h.ids ho]
      intro e; cases e
    · have hf : c.handlers.find? (fun e => e.1 == m) = none := by rw [h.h_eq]; exact keys_find_none hm
      simp only [reach, hf]
      intro e; cases e
  constructor
  · have := key n
    unfold call
    split
    · intro e; cases e
    · rename_i e he; intro e2; subst e2; exact this he
  · have := key 0
    unfold get
    split
    · rename_i e he; intro e2; subst e2; exact this he
    · split <;> (intro e; cases e)

/-- After `stop()`, in every continuation of the history, a call through any proxy (and any lookup by name) fails
at once with a delivery error: it neither succeeds nor waits. -/
theorem stale_proxy_fails_promptly {c : Ctx} (h : WF c) (ha : c.active = true) (hu : c.used = true)
    (hb : firstBase c.stopH 0 = none) (ops : List Op) (n : Name) :
    (step (run (step c .stop).1 ops) (.call n)).2 = .exc .delivery ∧
    (step (run (step c .stop).1 ops) (.get n)).2 = .exc .delivery := by
  have h0 : WF { c with log := [] } := h.congr rfl rfl rfl rfl rfl
  have hs : Stopped (step c .stop).1 := stopped_of_stop h0 ha hu hb
  have hr := stopped_run hs ops
  generalize run (step c .stop).1 ops = d at hr
  have h1 : Stopped { d with log := [] } := ⟨hr.1, hr.2, hr.3, hr.4, hr.5, hr.6, hr.7⟩
  constructor
  · show call { d with log := [] } n = _
    simp only [call, reach_of_stopped h1]
  · show get { d with log := [] } n = _
    simp only [get, reach_of_stopped h1]

example : ∃ c, c = run (Ctx.init false) [.start false false, .make .task 2 true false true .loop, .tstart 2, .addH .exc] ∧
    WF c ∧ c.active = true ∧ c.used = true ∧ firstBase c.stopH 0 = none ∧ call c 2 = .ok :=
  ⟨_, rfl, wf_run (wf_init _) _, by decide, by decide, by decide, by decide⟩

/-- the same for a removed object, until its name is used again -/
theorem stale_proxy_after_remove {c : Ctx} (h : WF c) {o : Obj} (ho : o ∈ c.mgrs) :
    (step (step c (.remove o.name)).1 (.call o.name)).2 = .exc .delivery := by
  have hk := (remove_no_residue h ho).2.2.2.2.1
  generalize (step c (.remove o.name)).1 = d at hk
  show call { d with log := [] } o.name = _
  have : d.handlers.find? (fun e => e.1 == o.name) = none := by
    rw [List.find?_eq_none]
    intro e he hp
    have := (hasKey_false_iff _ _).1 hk e he
    simp at hp; exact this hp
  simp only [call, reach, this]

/-! ## lifecycle: no restart, double start / stop are usage errors -/

/-- a stopped context cannot be restarted — in every continuation `start` raises `QMI_UsageException` and
changes nothing -/
theorem no_restart {c : Ctx} (h : WF c) (ha : c.active = true) (hu : c.used = true)
    (hb : firstBase c.stopH 0 = none) (ops : List Op) (t u : Bool) :
    (step (run (step c .stop).1 ops) (.start t u)).2 = .exc .usage ∧
    (step (run (step c .stop).1 ops) (.start t u)).1.residue = Residue.empty := by
  have h0 : WF { c with log := [] } := h.congr rfl rfl rfl rfl rfl
  have hs : Stopped (step c .stop).1 := stopped_of_stop h0 ha hu hb
  have hr := stopped_run hs ops
  generalize run (step c .stop).1 ops = d at hr
  have e : start { d with log := [] } t u = ({ d with log := [] }, .exc .usage) := by
    simp [start, hr.inactive, hr.used]
  constructor
  · show (start { d with log := [] } t u).2 = _; rw [e]
  · show (start { d with log := [] } t u).1.residue = _; rw [e]
    simp only [Ctx.residue, Residue.empty, hr.h_empty, hr.m_empty, hr.map_empty, hr.conns_empty, hr.router_down]

/-- `used` follows `active` in every reachable state (so the hypothesis `c.used` above is not a restriction) -/
theorem active_implies_used (t : Bool) (ops : List Op) :
    (run (Ctx.init t) ops).active = true → (run (Ctx.init t) ops).used = true := by
  suffices ∀ c : Ctx, (c.active = true → c.used = true) → (run c ops).active = true → (run c ops).used = true from
    this _ (by intro h; cases h)
  induction ops with
  | nil => intro c h; exact h
  | cons op ops ih => intro c h; exact ih _ (used_of_active_step h op)


/-- starting an active context and stopping an inactive one are usage errors that change nothing -/
theorem double_start_stop_usage_error (c : Ctx) (t u : Bool) :
    (c.active = true → step c (.start t u) = ({ c with log := [] }, .exc .usage)) ∧
    (c.active = false → step c .stop = ({ c with log := [] }, .exc .usage)) := by
  constructor
  · intro ha; simp [step, start, ha]
  · intro ha; simp [step, stop, stopHead, ha]

example : (run (Ctx.init false) [.start false false]).active = true ∧
    (run (Ctx.init false) [.start false false, .stop]).active = false := ⟨by decide, by decide⟩

/-! ## a failed start -/

/-- A failed `start()` leaves nothing behind: whatever start step raises (TCP bind, UDP bind) and whatever refusal
(`QMI_UsageException`), the object map, handler map, live managers (threads), sockets and router are exactly what they
were, and so are all lifecycle flags (`active`, `used`, router, TCP port, stop handlers).  `RouterClean` ("a context
whose router is down owns no socket") holds in every reachable state: `router_clean_reachable`. -/
theorem failed_start_leaves_nothing (c : Ctx) (hc : RouterClean c) (t u : Bool)
    (hf : (step c (.start t u)).2 ≠ .ok) :
    (step c (.start t u)).1.residue = c.residue ∧ (step c (.start t u)).1.flags = c.flags := by
  revert hf hc
  unfold RouterClean
  cases hA : c.active <;> cases hU : c.used <;> cases hR : c.routerUp <;> cases hT : c.cfgTcp <;> cases t <;> cases u <;>
    simp_all [step, start, routerStop, Ctx.residue, Ctx.flags]

theorem router_clean_reachable (t : Bool) (ops : List Op) : RouterClean (run (Ctx.init t) ops) :=
  routerClean_run (routerClean_init t) ops

/-- the same over every history: in every reachable state a failing start changes nothing -/
theorem failed_start_leaves_nothing_reachable (t0 : Bool) (ops : List Op) (t u : Bool)
    (hf : (step (run (Ctx.init t0) ops) (.start t u)).2 ≠ .ok) :
    (step (run (Ctx.init t0) ops) (.start t u)).1.residue = (run (Ctx.init t0) ops).residue :=
  (failed_start_leaves_nothing _ (router_clean_reachable t0 ops) t u hf).1

example : (step (Ctx.init true) (.start true false)).2 = .exc .os ∧ (step (Ctx.init true) (.start false true)).2 = .exc .os :=
  ⟨by decide, by decide⟩

/-- … so the very same context can be started again once the fault is gone -/
theorem start_retry_after_failure (c : Ctx) (hc : RouterClean c) (ha : c.active = false) (hu : c.used = false)
    (hr : c.routerUp = false) (t u : Bool) (hf : (step c (.start t u)).2 ≠ .ok) :
    (step (step c (.start t u)).1 (.start false false)).2 = .ok := by
  have := hc hr
  revert hf
  cases hT : c.cfgTcp <;> cases t <;> cases u <;> simp_all [step, start, routerStop]

/-! ## the process can start a new context -/

/-- `qmi.start(name)` without faults -/
def qClean (t : Bool) : POp := .qstart true t false false [] false

/-- directly, or after the public clean-up `qmi.stop()` -/
def CanStartAgain (p : Proc) (t : Bool) : Prop :=
  (pstep p (qClean t)).2 = .ok ∨ (pstep (pstep p .qstop).1 (qClean t)).2 = .ok

/-- a failed `qmi.start()` — invalid name, logging initialisation failing, TCP or UDP bind failure, unreachable peer — leaves no singleton behind,
and the context it gave up on holds nothing (no thread, handler, name, socket) -/
theorem failed_qstart_leaves_nothing (p : Proc) (hn : p.single = none) (hd : DroppedEmpty p)
    (v t tf uf : Bool) (peers : List Bool) (lf : Bool) (hf : (pstep p (.qstart v t tf uf peers lf)).2 ≠ .ok) :
    (pstep p (.qstart v t tf uf peers lf)).1.single = none ∧ DroppedEmpty (pstep p (.qstart v t tf uf peers lf)).1 := by
  refine ⟨?_, droppedEmpty_pstep hd _⟩
  revert hf
  simp only [pstep, pstep', Proc.clr, hn, Option.map_none, qstart]
  cases v with
  | false => intro _; rfl
  | true =>
    simp only [Bool.not_true, Bool.false_eq_true, if_false]
    cases lf with
    | true => intro _; simp only [if_true]; exact qstartFailed_single _ _ _
    | false =>
    simp only [Bool.false_eq_true, if_false]
    cases start (Ctx.init t) tf uf with
    | mk c1 o1 =>
      cases o1 with
      | ok =>
        simp only
        cases connectPeers c1 peers 0 with
        | mk c2 o2 =>
          cases o2 with
          | ok => intro h; exact absurd rfl h
          | exc e => intro _; exact qstartFailed_single _ _ _
          | hang => intro _; exact qstartFailed_single _ _ _
      | exc e => intro _; exact qstartFailed_single _ _ _
      | hang => intro _; exact qstartFailed_single _ _ _

/-- over every history of the process: every context ever dropped by a failed `qmi.start()` is empty -/
theorem dropped_contexts_empty (ops : List POp) : DroppedEmpty (prun Proc.init ops) :=
  droppedEmpty_prun (fun _ h => by cases h) ops

example : (pstep Proc.init (.qstart true true true false [true] false)).2 = .exc .os ∧
    (pstep Proc.init (.qstart true true false false [true, false] false)).2 = .exc .connRefused ∧
    (pstep Proc.init (.qstart true true false false [] true)).2 = .exc .logging ∧
    (pstep Proc.init (.qstart true true false false [] true)).1.single = none ∧
    (pstep Proc.init (.qstart true true false false [true, false] false)).1.dropped.length = 1 :=
  ⟨by decide, by decide, by decide, by decide, by decide⟩

/-- from every good state — no singleton, or an active well-formed one whose stop handlers raise at most `Exception`s —
the process can start a context, at the latest after `qmi.stop()` -/
theorem can_start_again_of_good (p : Proc) (hp : GoodP p) (t : Bool) : CanStartAgain p t := by
  rcases hp with hn | ⟨c, hc, hw, ha, hb⟩
  · left; exact qclean_ok p hn t
  · right
    have h0 : WF { c with log := [] } := hw.congr rfl rfl rfl rfl rfl
    have : (pstep p .qstop).1.single = none := by
      simp only [pstep, pstep', Proc.clr, hc, Option.map_some, qstop]
      rw [stop_ok h0 ha hb]
    exact qclean_ok _ this t

/-- the good states are closed under every operation and every fault — constructor, release step, stop handler
(`Exception`), **every start step** — except two misuses: stopping the singleton's context behind `qmi`'s back
(`qmi.context().stop()`), and a stop handler that raises a non-`Exception` `BaseException` -/
theorem good_preserved (p : Proc) (hp : GoodP p) (o : POp) (ho : Harmless o) : GoodP (pstep p o).1 :=
  goodP_pstep hp ho

/-- **The process can always start a new context**: after every history of the process — any mix of `qmi.start`
(with logging-initialisation / TCP / UDP / peer faults, invalid names), `qmi.stop`, `qmi.context`, make / remove / get / task and instrument
operations with constructor, release and stop-handler faults — `qmi.start()` succeeds, directly or after `qmi.stop()`. -/
theorem process_can_start_again (ops : List POp) (h : ∀ o ∈ ops, Harmless o) (t : Bool) :
    CanStartAgain (prun Proc.init ops) t :=
  can_start_again_of_good _ (goodP_prun (Or.inl rfl) ops h) t

example : GoodP (prun Proc.init [.qstart true true true false [] false, .qstart true false false false [] true, .qstart true true false false [true, false] false,
      .qstart true true false false [true] false, .op (.make .task 1 true false true .raise), .op (.tstart 1), .op (.addH .exc)]) ∧
    (prun Proc.init [.qstart true true true false [] false, .qstart true false false false [] true, .qstart true true false false [true, false] false,
      .qstart true true false false [true] false, .op (.make .task 1 true false true .raise), .op (.tstart 1), .op (.addH .exc)]).single.isSome = true := by
  refine ⟨goodP_prun (Or.inl rfl) _ ?_, by decide⟩
  intro o ho
  simp only [List.mem_cons, List.not_mem_nil, or_false] at ho
  rcases ho with rfl | rfl | rfl | rfl | rfl | rfl | rfl <;> simp [Harmless]


/-! ## calls through proxies racing `remove_rpc_object()` / `stop()` (manager and worker, all interleavings) -/

open Mgr in
/-- **No request is lost.**  Whatever the interleaving of any number of callers delivering requests to an object's
manager (`handle_message`), the context thread stopping it (`_running = False` under `_stop_lock`, `shutdown()`), and
the worker thread (execute, notice the shutdown, reject what is left, end): every delivered request is either still
queued or has been answered, exactly once (a value, a delivery error raised to the caller, or an error reply); and once
the worker has ended the queue is empty for good — so every delivered request *has* its answer: no caller waits on a
dead worker. -/
theorem no_request_lost (acts : List MAct) (s : MState) (h : mrun MState.init acts = some s) :
    (s.fifo ++ s.answered.map Prod.fst).Perm s.delivered ∧ (s.answered.map Prod.fst).Nodup ∧
    (s.exited = true → s.fifo = [] ∧ ∀ r ∈ s.delivered, ∃ a, (r, a) ∈ s.answered) := by
  have hi := minv_run acts _ _ minv_init h
  refine ⟨hi.account, ?_, ?_⟩
  · have : (s.fifo ++ s.answered.map Prod.fst).Nodup := hi.account.nodup_iff.2 hi.nodup
    exact (List.nodup_append.1 this).2.1
  · intro he
    have hf := hi.exit_empty he
    refine ⟨hf, ?_⟩
    intro r hr
    have : r ∈ s.fifo ++ s.answered.map Prod.fst := hi.account.mem_iff.2 hr
    rw [hf, List.nil_append, List.mem_map] at this
    obtain ⟨⟨r', a⟩, hm, rfl⟩ := this
    exact ⟨a, hm⟩

open Mgr in
/-- a call that reaches the manager after `stop()` has passed its first locked block fails **at once** (the delivery
error is raised to the caller inside `handle_message`; nothing is queued) -/
theorem late_call_refused_at_once (s : MState) (hr : s.running = false) (r : Nat) (hn : r ∉ s.delivered) :
    ∃ s', mstep s (.deliver r) = some s' ∧ (r, Ans.refused) ∈ s'.answered ∧ s'.fifo = s.fifo := by
  refine ⟨{ s with answered := s.answered ++ [(r, .refused)], delivered := s.delivered ++ [r] }, ?_, ?_, rfl⟩
  · simp [mstep, hn, hr]
  · simp

open Mgr in
/-- `stop()` completes: once shutdown was requested the worker always has an enabled step, that step lowers the rank
(what is left to do before `join()` returns), and no step of anybody else raises it (new deliveries are refused). -/
theorem manager_stop_completes (acts : List MAct) (s : MState) (h : mrun MState.init acts = some s)
    (hsd : s.shutdown = true) (hne : s.exited = false) :
    (∃ a s', workerNext s = some a ∧ mstep s a = some s' ∧ s'.rank < s.rank) ∧
    (∀ a s', mstep s a = some s' → s'.rank ≤ s.rank) := by
  have hi := minv_run acts _ _ minv_init h
  have hrun := hi.shut_stop hsd
  constructor
  · cases hseen : s.seen with
    | false =>
      refine ⟨.see, { s with seen := true }, by simp [workerNext, hne, hseen, hsd], by simp [mstep, hsd, hseen], ?_⟩
      simp [MState.rank, hseen, hne]
    | true =>
      cases hf : s.fifo with
      | nil =>
        refine ⟨.exit, { s with exited := true }, by simp [workerNext, hne, hseen, hf], by simp [mstep, hseen, hne, hf], ?_⟩
        simp [MState.rank, hseen, hne, hf]
      | cons r t =>
        refine ⟨.reject r, { s with fifo := t, answered := s.answered ++ [(r, .errorReply)] },
          by simp [workerNext, hne, hseen, hf], by simp [mstep, hseen, hne, hf], ?_⟩
        simp [MState.rank, hseen, hne, hf]
  · intro a s' hs
    cases a with
    | deliver r =>
      simp only [mstep] at hs
      split at hs
      · cases hs
      · simp only [hrun, Bool.false_eq_true, if_false] at hs; cases hs; exact Nat.le_refl _
    | stopFlag => simp [mstep, hrun] at hs
    | shutdown => simp [mstep, hsd] at hs
    | see =>
      simp only [mstep] at hs
      split at hs
      · cases hs; cases hx : s.seen <;> cases hy : s.exited <;> simp [MState.rank, hx, hy]
      · cases hs
    | exec r =>
      simp only [mstep] at hs
      split at hs
      · split at hs
        · rename_i hd tl hf hc; cases hs; simp only [MState.rank, hf, List.length_cons]; omega
        · cases hs
      · cases hs
    | reject r =>
      simp only [mstep] at hs
      split at hs
      · split at hs
        · rename_i hd tl hf hc; cases hs; simp only [MState.rank, hf, List.length_cons]; omega
        · cases hs
      · cases hs
    | exit =>
      simp only [mstep] at hs
      split at hs
      · cases hs; cases hx : s.seen <;> cases hy : s.exited <;> simp [MState.rank, hx, hy]
      · cases hs

open Mgr in
example : ∃ s, mrun MState.init [.deliver 1, .deliver 2, .exec 1, .stopFlag, .deliver 3, .shutdown, .see, .reject 2, .exit] = some s ∧
    s.exited = true ∧ s.answered = [(1, .value), (3, .refused), (2, .errorReply)] := ⟨_, rfl, rfl, rfl⟩

open Mgr in
/-- illustration (about this constant trace, not about the source): if the `_running` test stayed under `_stop_lock` but
the push happened after releasing it, the schedule check(1) · stop · shutdown · worker ends · push(1) leaves request 1
in the queue of a dead worker for ever — the interleaving the deterministic scheduler looks for in the real code. -/
example : ∃ st, srun (MState.init, []) [.check 1, .act .stopFlag, .act .shutdown, .act .see, .act .exit, .push 1] = some st ∧
    st.1.exited = true ∧ st.1.fifo = [1] ∧ st.1.answered = [] := ⟨_, rfl, rfl, rfl, rfl⟩

/-! ## the two excluded misuses, precisely -/

/-- **Misuse 1: a stop handler that raises a non-`Exception` `BaseException`.**  `stop()` of an active context then raises
that exception *before* anything is torn down: the handlers up to and including the raising one have run, and object
map, handler map, managers, threads, sockets and every lifecycle flag are exactly as before — the context keeps working.
Because stop handlers can only be added, this stays so in every continuation: such a context can never be stopped. -/
theorem base_handler_aborts_stop {c : Ctx} {i : Nat} (hb : firstBase c.stopH 0 = some i) (ops : List Op)
    (ha : (run c ops).active = true) :
    (step (run c ops) .stop).2 = .exc .base ∧
    (step (run c ops) .stop).1.residue = (run c ops).residue ∧
    (step (run c ops) .stop).1.flags = (run c ops).flags ∧
    (step (run c ops) .stop).1.released = (run c ops).released := by
  have h := firstBase_run hb ops
  generalize run c ops = d at h ha
  have e : stop { d with log := [] } = (stopAborted { d with log := [] }, .exc .base) := by
    simp [stop, stopHead, ha, h]
  show (stop { d with log := [] }).2 = _ ∧ (stop { d with log := [] }).1.residue = _ ∧
    (stop { d with log := [] }).1.flags = _ ∧ (stop { d with log := [] }).1.released = _
  rw [e]
  simp only [stopAborted, h]
  refine ⟨?_, ?_, ?_, ?_⟩ <;> first | rfl | trivial

example : firstBase (run (Ctx.init false) [.start false false, .addH .ok, .addH .base]).stopH 0 = some 1 := by decide

/-- **Misuse 2: `qmi.context().stop()` behind `qmi`'s back.**  The context itself is stopped cleanly — everything
released exactly once, no thread, handler, name or socket left (`stop_releases_each_once`,
`stop_ends_all_threads_and_connections` apply) — but the global still refers to it: from then on, in every
continuation, `qmi.start()` and `qmi.stop()` both raise `QMI_UsageException` (the process cannot start a context through
`qmi` any more), while nothing is leaked. -/
theorem stopped_behind_qmis_back (p : Proc) (c : Ctx) (hc : p.single = some c) (hw : WF c) (ha : c.active = true)
    (hu : c.used = true) (hb : firstBase c.stopH 0 = none) (ops : List POp) (v t tf uf : Bool) (peers : List Bool) :
    (pstep p (.op .stop)).2 = .ok ∧ StoppedP (pstep p (.op .stop)).1 ∧
    (pstep (prun (pstep p (.op .stop)).1 ops) (.qstart v t tf uf peers false)).2 = .exc .usage ∧
    (pstep (prun (pstep p (.op .stop)).1 ops) .qstop).2 = .exc .usage ∧
    (∃ d, (prun (pstep p (.op .stop)).1 ops).single = some d ∧ d.residue = Residue.empty) := by
  have h0 : WF { c with log := [] } := hw.congr rfl rfl rfl rfl rfl
  have hs : Stopped (stop { c with log := [] }).1 := stopped_of_stop h0 ha hu hb
  have e1 : (pstep p (.op .stop)).2 = .ok := by
    simp only [pstep, pstep', Proc.clr, hc, Option.map_some, step]
    rw [stop_ok h0 ha hb]
  have e2 : StoppedP (pstep p (.op .stop)).1 := by
    simp only [pstep, pstep', Proc.clr, hc, Option.map_some, step]
    exact ⟨_, rfl, stopped_step (c := (stop { c with log := [] }).1) hs .removeForeign |> fun _ => by
      have := hs; exact ⟨this.1, this.2, this.3, this.4, this.5, this.6, this.7⟩⟩
  have h3 := stoppedP_prun e2 ops
  refine ⟨e1, e2, (stoppedP_pstep h3 _).2 (Or.inl ⟨_, _, _, _, _, _, rfl⟩), (stoppedP_pstep h3 _).2 (Or.inr rfl), ?_⟩
  obtain ⟨d, hd, hsd⟩ := h3
  exact ⟨d, hd, by simp only [Ctx.residue, Residue.empty, hsd.h_empty, hsd.m_empty, hsd.map_empty, hsd.conns_empty, hsd.router_down]⟩

/-! ## `stop()` racing `make_rpc_object()` from another thread (layer C: every population, every schedule) -/

/-- **`stop ‖ make`, in general.**  For *every* population present at `stop()` (any well-formed active context: any
number of RPC objects, open instruments, tasks in any state, any release faults, any `Exception`-raising stop
handlers), every `make` running in another thread (any kind, any name — fresh or taken —, constructor failing or not),
and **every schedule**: both threads finish within `5 + 2·(objects + 1) + 2` steps and the outcome is clean —
`stop()` returned normally; object map, handler map, threads and sockets are empty and the context is inactive; the
maker got `ok` or an exception; every object that existed or was constructed was released exactly once.
(Inductive invariant `CInv` over the interleaved system + a rank that every step lowers: `Lemmas/C12Race.lean`.) -/
theorem stop_make_any_population {c : Ctx} (h : WF c) (ha : c.active = true) (hb : firstBase c.stopH 0 = none)
    (a : MakeArgs) (sched : List Bool) (fuel : Nat) (hf : 5 + 2 * (c.objMap.length + 1) + 2 ≤ fuel) :
    ((crun a (cinit c) sched fuel).outcome).clean = true := by
  have hd := done_of_fuel a fuel (cinit c) sched (by simp only [crank, cinit, mRank, sRank, mAdd]; omega)
  rw [Bool.and_eq_true] at hd
  exact clean_of_done (cinv_crun fuel _ _ (cinv_init h ha hb a)) hd.1 hd.2

/-- the same for every reachable state: after any history, with any faults -/
theorem stop_make_reachable (t : Bool) (ops : List Op) (ha : (run (Ctx.init t) ops).active = true)
    (hb : firstBase (run (Ctx.init t) ops).stopH 0 = none) (a : MakeArgs) (sched : List Bool) :
    ((crun a (cinit (run (Ctx.init t) ops)) sched
        (5 + 2 * ((run (Ctx.init t) ops).objMap.length + 1) + 2)).outcome).clean = true :=
  stop_make_any_population (wf_run (wf_init t) ops) ha hb a sched _ (Nat.le_refl _)

/-- an active context holding only `$context` -/
def raceCtx : Ctx := populated false []
def raceArgs : MakeArgs := { k := .rpc, n := 4, ctorF := false, relF := false, runB := .loop }

example : WF (populated true [.make .task 1 true false true .raise, .tstart 1, .make .instr 2 true false false .loop, .iopen 2,
      .addH .exc]) ∧
    (populated true [.make .task 1 true false true .raise, .tstart 1, .make .instr 2 true false false .loop, .iopen 2,
      .addH .exc]).active = true ∧
    ((crun raceArgs (cinit (populated true [.make .task 1 true false true .raise, .tstart 1,
      .make .instr 2 true false false .loop, .iopen 2, .addH .exc])) [true, false, false, true, false] 15).outcome).make
        = some (.exc .invalidOp) :=
  ⟨wf_run (wf_init _) _, by decide, by decide⟩

/-! ## two makers racing for the same name -/

def mmArgs1 : MakeArgs := { k := .rpc, n := 4, ctorF := false, relF := false, runB := .loop }
def mmArgs2 : MakeArgs := { k := .task, n := 4, ctorF := false, relF := true, runB := .loop }
def mmArgs3 : MakeArgs := { k := .instr, n := 4, ctorF := true, relF := false, runB := .loop }

/-- exactly one maker wins the name: one `ok`, one `QMI_DuplicateNameException`; the name refers to one live object;
the loser left nothing -/
def C2State.oneWinner (st : C2State) : Bool :=
  ((mResult st.m1 == some .ok && mResult st.m2 == some (.exc .duplicate)) ||
   (mResult st.m1 == some (.exc .duplicate) && mResult st.m2 == some .ok)) &&
  (st.c.objMap.filter (fun e => e.1 == 4)).length == 1 && (st.c.handlers.filter (fun e => e.1 == 4)).length == 1 &&
  st.c.mgrs.length == 2 && st.c.objMap.all (fun e => e.2.isSome) && st.c.released.isEmpty

private theorem mm_same_name_table : ∀ s ∈ allScheds 8, (c2run mmArgs1 mmArgs2 (c2init raceCtx) s 8).oneWinner = true := by
  decide +kernel

/-- **Uniqueness under concurrency**: two threads making the same name at the same time, under every schedule
(8 decisions suffice: 4 steps each): exactly one succeeds, the other is refused as duplicate and leaves nothing. -/
theorem name_unique_concurrent (sched : List Bool) :
    (c2run mmArgs1 mmArgs2 (c2init raceCtx) sched 8).oneWinner = true := by
  have norm : ∀ (k : Nat) (st : C2State) (l : List Bool),
      c2run mmArgs1 mmArgs2 st l k = c2run mmArgs1 mmArgs2 st (normSched k l) k := by
    intro k
    induction k with
    | zero => intro st l; rfl
    | succ k ih =>
      intro st l
      simp only [c2run, normSched, List.headD_cons, List.tail_cons]
      exact ih _ l.tail
  rw [norm]; exact mm_same_name_table _ (normSched_mem 8 sched)

/-- a maker whose constructor fails while the other wants the same name: the name ends up held by at most one live
object and is never left reserved; a refused duplicate is possible while the failing maker still holds the reservation -/
def C2State.noResidue (st : C2State) : Bool :=
  st.m1.isDone && st.m2.isDone && st.c.objMap.all (fun e => e.2.isSome) &&
  (st.c.objMap.filter (fun e => e.1 == 4)).length ≤ 1 &&
  (st.c.objMap.filter (fun e => e.1 == 4)).length == (if mResult st.m1 == some .ok then 1 else 0) &&
  st.c.mgrs.length == st.c.objMap.length && st.c.handlers.length == st.c.objMap.length

private theorem mm_failed_ctor_table : ∀ s ∈ allScheds 9, (c2run mmArgs1 mmArgs3 (c2init raceCtx) s 9).noResidue = true := by
  decide +kernel

theorem make_make_failed_ctor_all_schedules (sched : List Bool) :
    (c2run mmArgs1 mmArgs3 (c2init raceCtx) sched 9).noResidue = true := by
  have norm : ∀ (k : Nat) (st : C2State) (l : List Bool),
      c2run mmArgs1 mmArgs3 st l k = c2run mmArgs1 mmArgs3 st (normSched k l) k := by
    intro k
    induction k with
    | zero => intro st l; rfl
    | succ k ih =>
      intro st l
      simp only [c2run, normSched, List.headD_cons, List.tail_cons]
      exact ih _ l.tail
  rw [norm]; exact mm_failed_ctor_table _ (normSched_mem 9 sched)

/-- **`make ‖ make` of one name, every pair of kinds, with or without failing constructors.**  Two threads call
`make_rpc_object` / `make_instrument` / `make_task` for the same name at the same time; each constructor may raise.
Under every schedule (9 decisions cover both makers) both calls return, at most one of them with a proxy, the name is
in the object map exactly when one did, no reservation (`None` entry) stays behind, every map entry has its manager
and its handler, nothing was released — and when neither constructor raises, exactly one maker wins.
(36 argument pairs × 512 schedules, kernel-checked in `Lemmas/C12MMa0 … a5`, lifted to all schedules by
`c2run_norm`.) -/
theorem make_make_any_kinds (k1 k2 : Kind) (cf1 cf2 : Bool) (sched : List Bool) :
    (c2run (mmMk k1 cf1) (mmMk k2 cf2) (c2init raceCtx) sched 9).settled (mmMk k1 cf1) (mmMk k2 cf2) = true := by
  have hc : raceCtx = mmCtx := rfl
  rw [hc]
  have h1 : mmTable (mmMk k1 cf1) = true := by
    cases k1 <;> cases cf1
    · exact mmTable_rpc_false
    · exact mmTable_rpc_true
    · exact mmTable_instr_false
    · exact mmTable_instr_true
    · exact mmTable_task_false
    · exact mmTable_task_true
  exact mmTable_all h1 (mem_mmSeconds k2 cf2) sched

/-- the clause in words: with both constructors succeeding exactly one `ok`, with a failing one at most one -/
theorem make_make_one_winner (k1 k2 : Kind) (sched : List Bool) :
    okCount (c2run (mmMk k1 false) (mmMk k2 false) (c2init raceCtx) sched 9) = 1 := by
  have h := make_make_any_kinds k1 k2 false false sched
  simp only [C2State.settled, mmMk, Bool.or_self, Bool.false_or, Bool.and_eq_true, beq_iff_eq] at h
  exact h.2

/-- non-vacuity / both outcomes occur: the failing maker reserves first → the other is refused and nobody holds the name;
the other maker runs first → it wins -/
example : okCount (c2run (mmMk .task true) (mmMk .instr false) (c2init raceCtx) [true, false, false, true] 9) = 0 ∧
    okCount (c2run (mmMk .task true) (mmMk .instr false) (c2init raceCtx) [false, false, false, false, false] 9) = 1 := by
  decide

/-- layer A's `make` *is* the sequential composition of the layer-C steps (the maker running alone) -/
theorem make_is_sequential_composition (c : Ctx) (a : MakeArgs) :
    runM a 5 (c, .reserve) =
      ((make c a.k a.n true a.ctorF a.relF a.runB).1, .done (make c a.k a.n true a.ctorF a.relF a.runB).2) := by
  unfold make
  simp only [Bool.not_true, Bool.false_eq_true, if_false]
  cases h1 : mkReserve c a.n with
  | error e => simp only [runM, stepM, h1]
  | ok c1 =>
    cases h2 : mkConstruct c1 a.k a.n a.ctorF a.relF a.runB with
    | mk c2 oo =>
      cases oo with
      | none => simp only [runM, stepM, h1, h2]
      | some o =>
        cases h3 : mkPublish c2 a.n o with
        | error e => simp only [runM, stepM, h1, h2, h3]
        | ok c3 =>
          cases h4 : register c3 a.n o.id with
          | error e => simp only [runM, stepM, h1, h2, h3, h4]
          | ok c4 => simp only [runM, stepM, h1, h2, h3, h4]

/-- … and likewise `stop` (the stopper running alone; `k` bounds the number of managers) -/
theorem stop_is_sequential_composition (c : Ctx) :
    runS (2 + 2 * c.objMap.length) (c, .head) = ((stop c).1, .done (stop c).2) :=
  runS_stop c

end QmiModel.Context
