import QmiModel.Model.WakeSys
import QmiModel.Model.WakeEnc
import QmiModel.Gen.WakeCert
/-!
# C11 — chunk obligations of the larger systems (free mixture of waits, two stop requests, publisher — part 1 of 8)

The reachable set of `sysAnyTwo` is not computed by the kernel: `Gen/WakeCert.lean` holds it as a table of packed states
(written by the compiled driver on every run); each theorem below re-checks one chunk of the table — every entry satisfies
the state obligations and all its successors are in the table again (`chunkOk`, see `Model/WakeEnc.lean`).  Glued in
`Props/C11.lean` by `cert_chunks_sound`.
-/
namespace QmiModel.C11
open QmiModel.Wake QmiModel.Wake.Systems QmiModel.Gen.WakeCert

set_option maxRecDepth 200000 in
theorem anyTwo_init : initOk sysAnyTwo certAnyTwo nbkAnyTwo = true := by decide +kernel

set_option maxRecDepth 200000 in
theorem anyTwo_chunk_0 : chunkOk sysAnyTwo (goodWaiter sysAnyTwo) certAnyTwo nbkAnyTwo 0 = true := by decide +kernel

set_option maxRecDepth 200000 in
theorem anyTwo_chunk_1 : chunkOk sysAnyTwo (goodWaiter sysAnyTwo) certAnyTwo nbkAnyTwo 1 = true := by decide +kernel

set_option maxRecDepth 200000 in
theorem anyTwo_chunk_2 : chunkOk sysAnyTwo (goodWaiter sysAnyTwo) certAnyTwo nbkAnyTwo 2 = true := by decide +kernel

end QmiModel.C11
