import QmiModel.Model.WakeSys
import QmiModel.Model.WakeEnc
import QmiModel.Gen.WakeCert
/-!
# C11 — chunk obligations of the larger systems (free mixture of waits, one stop request, publisher)

The reachable set of `sysAny` is not computed by the kernel: `Gen/WakeCert.lean` holds it as a table of packed states
(written by the compiled driver on every run); each theorem below re-checks one chunk of the table — every entry satisfies
the state obligations and all its successors are in the table again (`chunkOk`, see `Model/WakeEnc.lean`).  Glued in
`Props/C11.lean` by `cert_chunks_sound`.
-/
namespace QmiModel.C11
open QmiModel.Wake QmiModel.Wake.Systems QmiModel.Gen.WakeCert

set_option maxRecDepth 200000 in
theorem any_init : initOk sysAny certAny nbkAny = true := by decide +kernel

set_option maxRecDepth 200000 in
theorem any_chunk_0 : chunkOk sysAny (goodWaiter sysAny) certAny nbkAny 0 = true := by decide +kernel

set_option maxRecDepth 200000 in
theorem any_chunk_1 : chunkOk sysAny (goodWaiter sysAny) certAny nbkAny 1 = true := by decide +kernel

set_option maxRecDepth 200000 in
theorem any_chunk_2 : chunkOk sysAny (goodWaiter sysAny) certAny nbkAny 2 = true := by decide +kernel

end QmiModel.C11
