import QmiModel.Lemmas.C18EndToEnd
/-!
# C18 — discovery answers exactly the matching requests and survives junk datagrams

Property theorems only.  All statements are for *every* packet layout `L` that passes `WellFormed`
(the live layout `genLayout` does: `gen_layout_wf`), every context, every datagram / datagram history,
every pattern and name — no bounds.
-/
namespace QmiModel.Discovery

/-- the layout read from the current source by the translator meets the hypotheses of the theorems below -/
theorem gen_layout_wf : WellFormed genLayout = true := by decide

/-! ## shell-style matching -/

/-- **the executable matcher is exactly the declarative semantics**, for all patterns and all names -/
theorem glob_sound_complete (p s : List Char) : globMatch p s = true ↔ Matches p s := globMatch_iff p s

/-! the bracket expressions of `Matches` in their everyday forms (the general case — `]` first, hyphens at the
ends, several ranges, empty ranges, CPython's corner cases — is `classMem`, compared with CPython on every run) -/

/-- `[abc]`: a set without hyphen and without leading `!` is its members -/
theorem class_plain (stuff : List Char) (x : Char) (h1 : stuff.head? ≠ some '!') (h2 : '-' ∉ stuff) :
    classMem stuff x = true ↔ x ∈ stuff := by
  unfold classMem
  rw [bracketToks_no_hyphen stuff h2]
  cases stuff with
  | nil => simp [setMem]
  | cons c t =>
    have hc : c ≠ '!' := by simpa using h1
    simp only [List.map_cons]
    split
    · rename_i heq
      cases heq
      exact absurd rfl hc
    · rw [← List.map_cons, setMem_lits]

/-- `[!abc]`: everything but the members -/
theorem class_negated (rest : List Char) (x : Char) (h2 : '-' ∉ rest) :
    classMem ('!' :: rest) x = true ↔ x ∉ rest := by
  unfold classMem
  rw [bracketToks_no_hyphen _ (by simpa using h2)]
  simp only [List.map_cons, Bool.not_eq_true']
  rw [← Bool.not_eq_true, setMem_lits]

/-- `[a-z]`: a non-empty range is the characters between its end points (by code point) -/
theorem class_range (lo hi x : Char) (h1 : lo ≠ '!') (h2 : lo ≤ hi) :
    classMem [lo, '-', hi] x = true ↔ lo ≤ x ∧ x ≤ hi := by
  have h3 : ¬ lo > hi := by
    intro h; exact absurd h2 (Char.not_le.2 h)
  have hh : (if [lo, '-', hi].head? = some '!' then 2 else 1) = 1 := by simp [h1]
  unfold classMem bracketToks
  rw [hh]
  simp [splitChunks, mergeChunks, joinChunks, h3, setMem, STok.val, h1]
  exact ⟨fun ⟨a, b⟩ => ⟨of_decide_eq_true a, of_decide_eq_true b⟩, fun ⟨a, b⟩ => ⟨decide_eq_true a, decide_eq_true b⟩⟩

/-- `[z-a]`: an empty range matches nothing; `[!z-a]` matches everything -/
theorem class_empty_range (lo hi x : Char) (h1 : lo ≠ '!') (h2 : lo > hi) :
    classMem [lo, '-', hi] x = false ∧ classMem ['!', lo, '-', hi] x = true := by
  unfold classMem bracketToks
  simp [splitChunks, mergeChunks, joinChunks, h2, setMem, h1]

/-! ## packets -/

/-- `unpack_qmi_udp_packet` is total and raises nothing but `QMI_RuntimeException` and the enum's
`ValueError`; when it succeeds the datagram has exactly the size, magic and tag of the packet's class and
the packet is the datagram cut into that class's fields (packing it again gives the datagram back). -/
theorem unpack_total {L : Layout} (hwf : WellFormed L = true) (bs : Bytes) :
    (∃ p, unpack L bs = .ok p ∧ bs.length = sizeOf L p.kind ∧ leNat (bs.take L.magicSz) = L.magic ∧
        leNat ((bs.drop L.magicSz).take L.tagSz) = tagOf L p.kind ∧
        p.fields.map List.length = sizesOf L p.kind ∧ p.pack = bs)
    ∨ unpack L bs = .error .qmiRuntime ∨ unpack L bs = .error .valueError := by
  have wf := wf_of_wellFormed hwf
  cases h : unpack L bs with
  | ok p =>
    obtain ⟨h1, _, h3, h4⟩ := unpack_ok wf h
    obtain ⟨h5, h6⟩ := unpack_fields_length wf h
    exact Or.inl ⟨p, rfl, h1, h3, h4, h5, h6⟩
  | error e =>
    rcases unpack_error_cases L bs e h with rfl | rfl
    · exact Or.inr (Or.inl rfl)
    · exact Or.inr (Or.inr rfl)

/-- conversely every datagram with the right size, magic and tag unpacks (no valid packet is rejected) -/
theorem unpack_complete {L : Layout} (hwf : WellFormed L = true) (k : Kind) (bs : Bytes)
    (hlen : bs.length = sizeOf L k) (hmagic : leNat (bs.take L.magicSz) = L.magic)
    (htag : leNat ((bs.drop L.magicSz).take L.tagSz) = tagOf L k) :
    unpack L bs = .ok { kind := k, fields := splitFields (sizesOf L k) bs } :=
  unpack_of (wf_of_wellFormed hwf) k bs hlen hmagic htag

/-- the `ValueError` of the enum lookup is raised exactly for a long-enough datagram with the right magic
whose tag is not an enum value (this one is *not* caught by `_handle_read`) -/
theorem unpack_valueError_iff (L : Layout) (bs : Bytes) :
    unpack L bs = .error .valueError ↔
      (L.hdrSizeof ≤ bs.length ∧ leNat (bs.take L.magicSz) = L.magic ∧
        leNat ((bs.drop L.magicSz).take L.tagSz) ∉ L.enumTags) := by
  unfold unpack
  constructor
  · intro h
    split at h
    · cases h
    · rename_i h1
      split at h
      · cases h
      · rename_i h2
        simp only at h
        split at h
        · rename_i h3
          refine ⟨by omega, by simpa using h2, ?_⟩
          intro hm
          rw [List.contains_iff_mem.2 hm] at h3
          simp at h3
        · split at h
          · cases h
          · split at h <;> cases h
  · rintro ⟨h1, h2, h3⟩
    rw [if_neg (by omega), if_neg (by simpa using h2)]
    have : L.enumTags.contains (leNat ((bs.drop L.magicSz).take L.tagSz)) = false := by
      cases hc : L.enumTags.contains (leNat ((bs.drop L.magicSz).take L.tagSz)) with
      | false => rfl
      | true => exact absurd (List.contains_iff_mem.1 hc) h3
    simp only [this, Bool.not_false, if_true]

/-! ## the responder -/

/-- **answers iff both filters match** — for *every* context that can exist (its names passed
`QMI_Context.__init__`, which since fix eeba404 also checks the workgroup name), every request, every pattern.
(Before the fix this needed two extra hypotheses: an over-long workgroup name made `create` raise.) -/
theorem respond_iff {L : Layout} (hwf : WellFormed L = true) (c : Ctx) (d : Dgram) (wgf cnf : List Char)
    (hadm : admitContext L c.name c.workgroup = true)
    (hreq : IsInfoRequest L d.data) (hw : reqWgFilter L d.data = some wgf) (hc : reqCtxFilter L d.data = some cnf) :
    (∃ a out, handleRead L c d = .sent a out) ↔ (Matches wgf c.workgroup ∧ Matches cnf c.name) := by
  have wf := wf_of_wellFormed hwf
  obtain ⟨h1, h2⟩ := admit_fits_cstr wf hadm
  exact respond_iff_of_fit wf c d wgf cnf hreq hw hc h1 h2

/-- what `QMI_Context.__init__` lets through can be reported: both names fit their fields and contain no NUL -/
theorem admit_only_reportable {L : Layout} (hwf : WellFormed L = true) (name wg : List Char)
    (h : admitContext L name wg = true) :
    (utf8Encode name).length ≤ L.nameLen ∧ (utf8Encode wg).length ≤ L.wgLen ∧
    (∀ b ∈ utf8Encode name, b ≠ 0) ∧ (∀ b ∈ utf8Encode wg, b ≠ 0) :=
  admit_fits (wf_of_wellFormed hwf) h

/-- the responder alone, handed names that do not fit (no context can have them any more): a request that
matches is not answered, `create` raises `ValueError`, which leaves `_handle_read` -/
theorem respond_overlong {L : Layout} (hwf : WellFormed L = true) (c : Ctx) (d : Dgram) (wgf cnf : List Char)
    (hreq : IsInfoRequest L d.data) (hw : reqWgFilter L d.data = some wgf) (hc : reqCtxFilter L d.data = some cnf)
    (hm1 : Matches wgf c.workgroup) (hm2 : Matches cnf c.name)
    (hbad : ¬ ((cstr (utf8Encode c.name)).length ≤ L.nameLen ∧ (cstr (utf8Encode c.workgroup)).length ≤ L.wgLen)) :
    handleRead L c d = .escaped .valueError := by
  rw [handleRead_request (wf_of_wellFormed hwf) c d hreq]
  unfold handleInfoRequest
  simp only [Packet.fld]
  unfold reqWgFilter at hw
  unfold reqCtxFilter at hc
  rw [hw]
  simp only
  rw [(globMatch_iff _ _).2 hm1]
  simp only [Bool.not_true, Bool.false_eq_true, if_false]
  rw [hc]
  simp only
  rw [(globMatch_iff _ _).2 hm2]
  simp only [Bool.not_true, Bool.false_eq_true, if_false]
  rw [(packResponse_none_iff (L := L) _ _ _ _ _ _ _ _).2 hbad]

/-- historical example (a constant, not the source): the context that exposed the defect repaired by eeba404 —
workgroup name one byte longer than the field.  The responder would still not answer it, but such a context is
no longer admitted. -/
example : admitContext genLayout witCtx.name witCtx.workgroup = false ∧
    admitContext genLayout witCtx.name (witCtx.workgroup.drop 1) = true ∧
    handleRead genLayout witCtx witDgram = .escaped .valueError := by decide +kernel

/-- non-vacuity of `respond_iff` / `echo_fields`: an admitted context, a request that matches and is answered, with
the echoed fields written out; and one that does not match -/
example : admitContext genLayout exCtx.name exCtx.workgroup = true ∧ IsInfoRequest genLayout exDgram.data ∧ reqWgFilter genLayout exDgram.data = some ['g', '*'] ∧
    reqCtxFilter genLayout exDgram.data = some ['c', 't', 'x', '?'] ∧
    handleRead genLayout exCtx exDgram = .sent 7 (exResp 0x1122334455667788) ∧
    handleRead genLayout { exCtx with name := ['c', 't', 'x'] } exDgram = .noMatch := by decide +kernel

/-- **the answer echoes the request** — id and timestamp bit for bit, for every id, every 8 timestamp
bytes — goes to the sender, is itself a well-formed response and carries pid, port, name and workgroup. -/
theorem echo_fields {L : Layout} (hwf : WellFormed L = true) (c : Ctx) (d : Dgram)
    (hreq : IsInfoRequest L d.data) (hnow : d.now.length = L.tsSz) {a : Nat} {out : Bytes}
    (h : handleRead L c d = .sent a out) :
    a = d.addr ∧ ∃ r, unpack L out = .ok r ∧ r.kind = .infoResp ∧
      r.fld 2 = leBytes L.idSz d.rid ∧ r.fld 3 = d.now ∧
      r.fld 4 = (reqFields L d.data).getD 2 [] ∧
      r.fld 5 = (reqFields L d.data).getD 3 [] ∧
      r.fld 6 = intBytes L.pidSz c.pid ∧
      cstr (r.fld 7) = cstr (utf8Encode c.name) ∧
      cstr (r.fld 8) = cstr (utf8Encode c.workgroup) ∧
      r.fld 9 = intBytes L.portSz c.port := by
  have wf := wf_of_wellFormed hwf
  rw [handleRead_request (wf_of_wellFormed hwf) c d hreq] at h
  unfold handleInfoRequest at h
  simp only [Packet.fld] at h
  split at h
  · cases h
  · split at h
    · cases h
    · split at h
      · cases h
      · split at h
        · cases h
        · split at h
          · rename_i out' hp
            cases h
            obtain ⟨n, w, hn, hw, rfl⟩ := packResponse_some hp
            have hfl := splitFields_map_length (sizesOf L .infoReq) d.data hreq.1
            have hid : ((reqFields L d.data).getD 2 []).length = L.idSz := by
              have := getD_length_of_map_length hfl 2 (by simp [sizesOf, hdrSizes])
              simpa [sizesOf, hdrSizes, reqFields] using this
            have hts : ((reqFields L d.data).getD 3 []).length = L.tsSz := by
              have := getD_length_of_map_length hfl 3 (by simp [sizesOf, hdrSizes])
              simpa [sizesOf, hdrSizes, reqFields] using this
            refine ⟨rfl, _, unpack_respFields wf d.rid d.now _ _ c.pid n w c.port hnow (by rw [hts, wf.rts])
              (cwrite_spec hn).1 (cwrite_spec hw).1, rfl, ?_⟩
            refine ⟨rfl, rfl, ?_, rfl, rfl, ?_, ?_, rfl⟩
            · show leBytes L.rIdSz (leNat ((reqFields L d.data).getD 2 [])) = _
              rw [wf.rid, ← hid, leBytes_leNat]
            · exact (cwrite_spec hn).2.1
            · exact (cwrite_spec hw).2.1
          · cases h

/-- reading the echoed fields back as Python values: pid and port in the `int32` range come back as they
are; names without NUL come back byte for byte, *including names of exactly the field length* -/
theorem echo_values {L : Layout} (c : Ctx) (r : Packet)
    (h6 : r.fld 6 = intBytes L.pidSz c.pid) (h9 : r.fld 9 = intBytes L.portSz c.port)
    (h7 : cstr (r.fld 7) = cstr (utf8Encode c.name)) (h8 : cstr (r.fld 8) = cstr (utf8Encode c.workgroup))
    (hpid : -((256 ^ L.pidSz : Nat) : Int) ≤ 2 * c.pid ∧ 2 * c.pid < ((256 ^ L.pidSz : Nat) : Int))
    (hport : -((256 ^ L.portSz : Nat) : Int) ≤ 2 * c.port ∧ 2 * c.port < ((256 ^ L.portSz : Nat) : Int))
    (hn0 : ∀ b ∈ utf8Encode c.name, b ≠ 0) (hw0 : ∀ b ∈ utf8Encode c.workgroup, b ≠ 0) :
    sintOf (r.fld 6) = c.pid ∧ sintOf (r.fld 9) = c.port ∧
    cstr (r.fld 7) = utf8Encode c.name ∧ cstr (r.fld 8) = utf8Encode c.workgroup := by
  refine ⟨?_, ?_, ?_, ?_⟩
  · rw [h6]; exact sintOf_intBytes _ _ hpid.1 hpid.2
  · rw [h9]; exact sintOf_intBytes _ _ hport.1 hport.2
  · rw [h7, cstr_of_all_ne _ hn0]
  · rw [h8, cstr_of_all_ne _ hw0]

/-- **for every context that can exist** the answer, read back as Python values, carries exactly the context's
name, workgroup, pid and port (pid/port within `int32`), next to the echoed id and timestamp -/
theorem echo_admitted {L : Layout} (hwf : WellFormed L = true) (c : Ctx) (d : Dgram)
    (hadm : admitContext L c.name c.workgroup = true)
    (hreq : IsInfoRequest L d.data) (hnow : d.now.length = L.tsSz)
    (hpid : -((256 ^ L.pidSz : Nat) : Int) ≤ 2 * c.pid ∧ 2 * c.pid < ((256 ^ L.pidSz : Nat) : Int))
    (hport : -((256 ^ L.portSz : Nat) : Int) ≤ 2 * c.port ∧ 2 * c.port < ((256 ^ L.portSz : Nat) : Int))
    {a : Nat} {out : Bytes} (h : handleRead L c d = .sent a out) :
    a = d.addr ∧ ∃ r, unpack L out = .ok r ∧ r.kind = .infoResp ∧
      r.fld 4 = (reqFields L d.data).getD 2 [] ∧ r.fld 5 = (reqFields L d.data).getD 3 [] ∧
      sintOf (r.fld 6) = c.pid ∧ sintOf (r.fld 9) = c.port ∧
      utf8Decode (cstr (r.fld 7)) = some c.name ∧ utf8Decode (cstr (r.fld 8)) = some c.workgroup := by
  obtain ⟨ha, r, hu, hk, _, _, h4, h5, h6, h7, h8, h9⟩ := echo_fields hwf c d hreq hnow h
  obtain ⟨_, _, hn0, hw0⟩ := admit_fits (wf_of_wellFormed hwf) hadm
  obtain ⟨v6, v9, v7, v8⟩ := echo_values (L := L) c r h6 h9 h7 h8 hpid hport hn0 hw0
  exact ⟨ha, r, hu, hk, h4, h5, v6, v9, by rw [v7, utf8_roundtrip], by rw [v8, utf8_roundtrip]⟩

/-- the trailing-newline quirk of `is_valid_object_name` (`$` also matches before a final newline) is harmless
for discovery: such a context is admitted, its name is matched and echoed like any other text — `ab\n` is not
matched by `ab`, it is by `ab?`, `ab\n`, `ab*` -/
example : admitContext genLayout ['a', 'b', '\n'] ['g'] = true ∧ admitContext genLayout ['a', '\n', 'b'] ['g'] = false ∧
    admitContext genLayout ['\n'] ['g'] = false ∧
    globMatch ['a', 'b'] ['a', 'b', '\n'] = false ∧ globMatch ['a', 'b', '?'] ['a', 'b', '\n'] = true ∧
    globMatch ['a', 'b', '\n'] ['a', 'b', '\n'] = true ∧ globMatch ['a', 'b', '*'] ['a', 'b', '\n'] = true ∧
    utf8Decode (cstr ((cwrite 64 (utf8Encode ['a', 'b', '\n'])).getD [])) = some ['a', 'b', '\n'] := by decide +kernel

/-! ## junk -/

/-- **any datagram that is not a well-formed request is ignored**: nothing is sent, the responder's
state is unchanged (exceptions that leave `_handle_read` are contained by the event loop — trusted base) -/
theorem junk_ignored {L : Layout} (hwf : WellFormed L = true) (s : RState) (d : Dgram)
    (hjunk : ¬ WellFormedRequest L d.data) : step L s d = s := by
  have wf := wf_of_wellFormed hwf
  unfold step
  split
  · rfl
  · have hnot : ∀ a bs, handleRead L s.ctx d ≠ .sent a bs ∧ handleRead L s.ctx d ≠ .kill := by
      intro a bs
      cases hu : unpack L (d.data.take L.recvMax) with
      | error e =>
        unfold handleRead
        rw [hu]
        cases e <;> simp
      | ok p =>
        have hu0 := hu
        rw [take_eq_of_unpack wf (size_lt_recv wf) hu] at hu
        cases hk : p.kind with
        | infoResp => rw [handleRead_ok hu0, hk]; simp
        | kill => exact absurd (Or.inl (isKillRequest_of_unpack wf hu hk)) hjunk
        | infoReq =>
          obtain ⟨hreq, hf⟩ := isInfoRequest_of_unpack wf hu hk
          rw [handleRead_ok hu0, hk]
          simp only
          unfold handleInfoRequest
          simp only [Packet.fld, hf]
          cases h4 : utf8Decode (cstr ((reqFields L d.data).getD 4 [])) with
          | none => simp
          | some wgf =>
            simp only
            split
            · simp
            · cases h5 : utf8Decode (cstr ((reqFields L d.data).getD 5 [])) with
              | none => simp
              | some cnf =>
                exfalso
                apply hjunk
                refine Or.inr ⟨hreq, ?_, ?_⟩
                · unfold reqWgFilter; rw [h4]; rfl
                · unfold reqCtxFilter; rw [h5]; rfl
    split
    · rename_i a bs h; exact absurd h (hnot a bs).1
    · rename_i h; exact absurd h (hnot 0 []).2
    · rfl

/-- **… and the context goes on answering**: any number of junk datagrams, in any order, before any
further traffic change nothing — in particular the answer to a following valid request -/
theorem junk_then_answers {L : Layout} (hwf : WellFormed L = true) (s : RState) (junk rest : List Dgram)
    (hjunk : ∀ j ∈ junk, ¬ WellFormedRequest L j.data) : run L s (junk ++ rest) = run L s rest := by
  unfold run
  rw [List.foldl_append]
  congr 1
  induction junk generalizing s with
  | nil => rfl
  | cons j js ih =>
    rw [List.foldl_cons, junk_ignored hwf s j (hjunk j List.mem_cons_self)]
    exact ih s (fun x hx => hjunk x (List.mem_cons_of_mem _ hx))

/-- classes of junk named by the property: truncated, oversized (also beyond the receive buffer),
wrong magic, wrong tag -/
theorem junk_classes {L : Layout} (bs : Bytes)
    (h : (bs.length ≠ sizeOf L .infoReq ∧ bs.length ≠ sizeOf L .kill) ∨ leNat (bs.take L.magicSz) ≠ L.magic ∨
         (leNat ((bs.drop L.magicSz).take L.tagSz) ≠ L.tagInfoReq ∧ leNat ((bs.drop L.magicSz).take L.tagSz) ≠ L.tagKillReq)) :
    ¬ WellFormedRequest L bs := by
  rintro (⟨h1, h2, h3⟩ | ⟨⟨h1, h2, h3⟩, _⟩)
  · rcases h with ⟨_, h⟩ | h | ⟨_, h⟩
    · exact h h1
    · exact h h2
    · exact h h3
  · rcases h with ⟨h, _⟩ | h | ⟨h, _⟩
    · exact h h1
    · exact h h2
    · exact h h3

/-- non-vacuity: truncated, extended, wrong-magic and unknown-tag datagrams are junk; a request with a
non-UTF-8 filter is junk; the intact request is not -/
example : ¬ WellFormedRequest genLayout (exReq.take 149) ∧ ¬ WellFormedRequest genLayout (exReq ++ [0]) ∧
    ¬ WellFormedRequest genLayout (0x52 :: exReq.drop 1) ∧ ¬ WellFormedRequest genLayout (exReq.take 4 ++ [4, 1] ++ exReq.drop 6) ∧
    ¬ WellFormedRequest genLayout (exReq.take 22 ++ [0xff] ++ exReq.drop 23) ∧ WellFormedRequest genLayout exReq := by
  decide +kernel

/-- … and the responder's reaction to each, then to the intact request: unknown tag → the enum's `ValueError`
escapes, bad filter → `UnicodeDecodeError` escapes, the rest is discarded; the request is still answered -/
example : (run genLayout { ctx := exCtx, alive := true, sent := [] }
      [{ exDgram with data := exReq.take 149 }, { exDgram with data := exReq.take 4 ++ [4, 1] ++ exReq.drop 6 },
       { exDgram with data := exReq.take 22 ++ [0xff] ++ exReq.drop 23 }, exDgram]).sent = [(7, exResp 0x1122334455667788)] ∧
    handleRead genLayout exCtx { exDgram with data := exReq.take 4 ++ [4, 1] ++ exReq.drop 6 } = .escaped .valueError ∧
    handleRead genLayout exCtx { exDgram with data := exReq.take 22 ++ [0xff] ++ exReq.drop 23 } = .escaped .unicodeDecodeError ∧
    handleRead genLayout exCtx { exDgram with data := exReq.take 149 } = .discardedBad := by decide +kernel

/-! ## the kill request, and what can leave `_handle_read` -/

/-- **killed exactly by a well-formed kill request**: junk that merely resembles one, info requests,
responses — nothing else reaches `os._exit` -/
theorem kill_iff {L : Layout} (hwf : WellFormed L = true) (c : Ctx) (d : Dgram) :
    handleRead L c d = .kill ↔ IsKillRequest L d.data := by
  have wf := wf_of_wellFormed hwf
  constructor
  · intro h
    cases hu : unpack L (d.data.take L.recvMax) with
    | error e =>
      unfold handleRead at h
      rw [hu] at h
      cases e <;> simp at h
    | ok p =>
      have hu0 := hu
      rw [take_eq_of_unpack wf (size_lt_recv wf) hu] at hu
      rw [handleRead_ok hu0] at h
      cases hk : p.kind with
      | kill => exact isKillRequest_of_unpack wf hu hk
      | infoResp => rw [hk] at h; simp at h
      | infoReq =>
        rw [hk] at h
        simp only at h
        rcases handleInfoRequest_cases L c d p with h' | ⟨h', _⟩ | ⟨h', _⟩ | ⟨out, h'⟩ <;> rw [h'] at h <;> cases h
  · intro hk
    unfold handleRead
    have hlt : sizeOf L .kill < L.recvMax := size_lt_recv wf .kill
    rw [take_of_small hlt hk.1, unpack_of wf .kill d.data hk.1 hk.2.1 hk.2.2]

/-- a kill request is never answered, and after it the process is gone: nothing is sent any more -/
theorem kill_not_answered {L : Layout} (hwf : WellFormed L = true) (s : RState) (d : Dgram) (rest : List Dgram)
    (halive : s.alive = true) (hk : IsKillRequest L d.data) :
    (run L s (d :: rest)).sent = s.sent ∧ (run L s (d :: rest)).alive = false := by
  have hstep : step L s d = { s with alive := false } := by
    unfold step
    rw [halive, (kill_iff hwf s.ctx d).2 hk]
    rfl
  have hdead : ∀ (t : RState) (ds : List Dgram), t.alive = false → run L t ds = t := by
    intro t ds ht
    induction ds with
    | nil => rfl
    | cons x xs ih =>
      unfold run at ih ⊢
      rw [List.foldl_cons]
      have : step L t x = t := by unfold step; rw [ht]; rfl
      rw [this]; exact ih
  unfold run
  rw [List.foldl_cons, hstep]
  have := hdead { s with alive := false } rest rfl
  unfold run at this
  rw [this]
  exact ⟨rfl, rfl⟩

/-- **the only exceptions that leave `_handle_read`** (and so rely on the event loop's containment):
the enum's `ValueError` on an unknown type tag; `UnicodeDecodeError` on a request whose filter is not UTF-8;
`create`'s `ValueError` when a name does not fit.  `QMI_RuntimeException` never escapes. -/
theorem escape_classes {L : Layout} (hwf : WellFormed L = true) (c : Ctx) (d : Dgram) (e : PyExc)
    (h : handleRead L c d = .escaped e) :
    (e = .valueError ∧ unpack L (d.data.take L.recvMax) = .error .valueError) ∨
    (IsInfoRequest L d.data ∧
      ((e = .unicodeDecodeError ∧ (reqWgFilter L d.data = none ∨ reqCtxFilter L d.data = none)) ∨
       (e = .valueError ∧ ¬ ((cstr (utf8Encode c.name)).length ≤ L.nameLen ∧ (cstr (utf8Encode c.workgroup)).length ≤ L.wgLen)))) := by
  have wf := wf_of_wellFormed hwf
  cases hu : unpack L (d.data.take L.recvMax) with
  | error e' =>
    unfold handleRead at h
    rw [hu] at h
    rcases unpack_error_cases L _ e' hu with rfl | rfl
    · cases h
    · simp only at h
      cases h
      exact Or.inl ⟨rfl, rfl⟩
  | ok p =>
    have hu0 := hu
    rw [take_eq_of_unpack wf (size_lt_recv wf) hu] at hu
    rw [handleRead_ok hu0] at h
    cases hk : p.kind with
    | kill => rw [hk] at h; cases h
    | infoResp => rw [hk] at h; cases h
    | infoReq =>
      obtain ⟨hreq, hf⟩ := isInfoRequest_of_unpack wf hu hk
      rw [hk] at h
      simp only at h
      right
      refine ⟨hreq, ?_⟩
      have hf4 : p.fld 4 = (reqFields L d.data).getD 4 [] := fld_eq_of_fields hf 4
      have hf5 : p.fld 5 = (reqFields L d.data).getD 5 [] := fld_eq_of_fields hf 5
      rcases handleInfoRequest_cases L c d p with h' | ⟨h', hd⟩ | ⟨h', hn⟩ | ⟨out, h'⟩
      · rw [h'] at h; cases h
      · rw [h'] at h; cases h
        left
        refine ⟨rfl, ?_⟩
        unfold reqWgFilter reqCtxFilter
        rw [← hf4, ← hf5]
        exact hd
      · rw [h'] at h; cases h
        exact Or.inr ⟨rfl, hn⟩
      · rw [h'] at h; cases h

/-- for a context that can exist, only two things escape: the enum's `ValueError` (exactly the datagrams of
`unpack_valueError_iff`) and the `UnicodeDecodeError` of a non-UTF-8 filter in an otherwise well-formed request -/
theorem escape_classes_admitted {L : Layout} (hwf : WellFormed L = true) (c : Ctx) (d : Dgram) (e : PyExc)
    (hadm : admitContext L c.name c.workgroup = true) (h : handleRead L c d = .escaped e) :
    (e = .valueError ∧ unpack L (d.data.take L.recvMax) = .error .valueError) ∨
    (e = .unicodeDecodeError ∧ IsInfoRequest L d.data ∧ (reqWgFilter L d.data = none ∨ reqCtxFilter L d.data = none)) := by
  rcases escape_classes hwf c d e h with h1 | ⟨hreq, ⟨he, hd⟩ | ⟨_, hn⟩⟩
  · exact Or.inl h1
  · exact Or.inr ⟨he, hreq, hd⟩
  · exact absurd (admit_fits_cstr (wf_of_wellFormed hwf) hadm) hn

/-- non-vacuity: the kill request kills and is not answered; one byte more or less, another tag, another magic
or the same header on a request-sized datagram do not; the request after a kill is not answered any more -/
example : IsKillRequest genLayout exKill ∧ handleRead genLayout exCtx { exDgram with data := exKill } = .kill ∧
    ¬ IsKillRequest genLayout (exKill ++ [0]) ∧ ¬ IsKillRequest genLayout (exKill.take 21) ∧
    ¬ IsKillRequest genLayout (exKill.take 4 ++ [3, 2] ++ exKill.drop 6) ∧ ¬ IsKillRequest genLayout (0x50 :: exKill.drop 1) ∧
    handleRead genLayout exCtx { exDgram with data := exKill ++ List.replicate 128 0 } = .discardedBad ∧
    (run genLayout { ctx := exCtx, alive := true, sent := [] } [{ exDgram with data := exKill }, exDgram]).sent = [] := by
  decide +kernel

/-! ## the asking side -/

/-- `ping_qmi_contexts` keeps exactly the datagrams that are well-formed responses to *its own* request id -/
theorem ping_own_request_only {L : Layout} (hwf : WellFormed L = true) (rid : Nat) (ds : List (Nat × Bytes)) (a : Nat) (p : Packet) :
    (a, p) ∈ ping L rid ds ↔
      ∃ bs, (a, bs) ∈ ds ∧ unpack L bs = .ok p ∧ p.kind = .infoResp ∧ leNat (p.fld 4) = rid := by
  have wf := wf_of_wellFormed hwf
  unfold ping
  rw [List.mem_filterMap]
  constructor
  · rintro ⟨⟨a', bs⟩, hmem, hacc⟩
    unfold pingAccept at hacc
    simp only at hacc
    split at hacc
    · rename_i p' hu
      split at hacc
      · rename_i hcond
        cases hacc
        rw [take_eq_of_unpack wf (size_lt_crecv wf) hu] at hu
        exact ⟨bs, hmem, hu, hcond.1, hcond.2⟩
      · cases hacc
    · cases hacc
  · rintro ⟨bs, hmem, hu, hk, hid⟩
    refine ⟨(a, bs), hmem, ?_⟩
    unfold pingAccept
    simp only
    have hlen := (unpack_ok wf hu).1
    rw [take_of_small (size_lt_crecv wf p.kind) hlen, hu]
    simp [hk, hid]

/-- a datagram that is not a response to our own id changes nothing, wherever it arrives -/
theorem foreign_datagram_ignored (L : Layout) (self : List Char) (rid : Nat) (ds1 ds2 : List (Nat × Bytes)) (d : Nat × Bytes)
    (h : pingAccept L rid d = none) : discover L self rid (ds1 ++ d :: ds2) = discover L self rid (ds1 ++ ds2) := by
  unfold discover ping
  rw [List.filterMap_append, List.filterMap_cons, h, List.filterMap_append]

/-- **a discovery call reports only answers to its own request and never the asking context itself**
— and all of those: an entry is in the list iff it is the (name, sender, port) of a well-formed response
to this call's request id whose name differs from the asker's -/
theorem client_filters {L : Layout} (hwf : WellFormed L = true) (self : List Char) (rid : Nat)
    (ds : List (Nat × Bytes)) (out : List Peer) (h : discover L self rid ds = .ok out) (e : Peer) :
    e ∈ out ↔ e.name ≠ self ∧
      ∃ bs p, (e.addr, bs) ∈ ds ∧ unpack L bs = .ok p ∧ p.kind = .infoResp ∧ leNat (p.fld 4) = rid ∧
        utf8Decode (cstr (p.fld 7)) = some e.name ∧ e.port = sintOf (p.fld 9) := by
  unfold discover at h
  rw [discoverLoop_mem self _ out h e]
  constructor
  · rintro ⟨h1, a, p, hm, h2, h3, h4⟩
    obtain ⟨bs, hb, hu, hk, hid⟩ := (ping_own_request_only hwf rid ds a p).1 hm
    exact ⟨h1, bs, p, h3 ▸ hb, hu, hk, hid, h2, h4⟩
  · rintro ⟨h1, bs, p, hb, hu, hk, hid, h2, h4⟩
    exact ⟨h1, e.addr, p, (ping_own_request_only hwf rid ds e.addr p).2 ⟨bs, hb, hu, hk, hid⟩, h2, rfl, h4⟩

/-- the asking context itself is never reported -/
theorem client_never_self {L : Layout} (hwf : WellFormed L = true) (self : List Char) (rid : Nat)
    (ds : List (Nat × Bytes)) (out : List Peer) (h : discover L self rid ds = .ok out) : ∀ e ∈ out, e.name ≠ self :=
  fun e he => ((client_filters hwf self rid ds out h e).1 he).1

/-! ## the collection window of `ping_qmi_contexts` -/

/-- the loop with its clock is the plain filter applied to what arrived before the deadline -/
theorem discoverTimed_eq (L : Layout) (self : List Char) (rid t0 timeout : Nat) (turns : List Turn) :
    discoverTimed L self rid t0 timeout turns = discover L self rid (received (t0 + timeout) turns) := by
  unfold discoverTimed discover
  rw [pingLoop_eq_ping]

/-- **every matching answer that arrives within the window is reported, and nothing else**: the loop yields exactly
the well-formed responses to its own request id among the datagrams of the turns before the deadline -/
theorem ping_window {L : Layout} (hwf : WellFormed L = true) (rid dl : Nat) (turns : List Turn) (a : Nat) (p : Packet) :
    (a, p) ∈ pingLoop L rid dl turns ↔
      ∃ bs, (a, bs) ∈ received dl turns ∧ unpack L bs = .ok p ∧ p.kind = .infoResp ∧ leNat (p.fld 4) = rid := by
  rw [pingLoop_eq_ping]
  exact ping_own_request_only hwf rid (received dl turns) a p

/-- **the call ends at the deadline**: once a clock reading has reached it, whatever is or becomes ready on the
socket — any flood — is not looked at -/
theorem ping_stops_at_deadline (L : Layout) (rid dl : Nat) (pre post : List Turn) (u : Turn) (h : dl ≤ u.t) :
    pingLoop L rid dl (pre ++ u :: post) = pingLoop L rid dl pre :=
  pingLoop_stops L rid dl pre post u h

/-- **… and the deadline is reached under any flood**: if the clock advances by at least one tick per turn
(trusted: `time.monotonic` moves while a datagram is received and unpacked), at most `timeout` turns are executed,
i.e. at most `timeout` datagrams are read, junk or not -/
theorem ping_turns_bounded (t0 timeout : Nat) (turns : List Turn)
    (hclock : (turns.map (·.t)).Pairwise (· < ·)) (hstart : ∀ u ∈ turns, t0 ≤ u.t) :
    (turns.takeWhile (fun u => decide (u.t < t0 + timeout))).length ≤ timeout ∧
    (received (t0 + timeout) turns).length ≤ timeout := by
  have h := window_bounded timeout t0 (turns.map (·.t)) hclock
    (by intro x hx; obtain ⟨u, hu, rfl⟩ := List.mem_map.1 hx; exact hstart u hu)
  rw [List.takeWhile_map, List.length_map] at h
  refine ⟨h, Nat.le_trans ?_ h⟩
  unfold received
  exact List.length_filterMap_le _ _

/-- junk inside the window changes nothing: a turn that delivers a datagram which is not an answer to this call
is as good as a turn that delivers nothing -/
theorem junk_in_window_ignored (L : Layout) (self : List Char) (rid t0 timeout : Nat) (pre post : List Turn) (t : Nat)
    (d : Nat × Bytes) (h : pingAccept L rid d = none) :
    discoverTimed L self rid t0 timeout (pre ++ { t := t, ready := some d } :: post) =
    discoverTimed L self rid t0 timeout (pre ++ { t := t, ready := none } :: post) := by
  unfold discoverTimed
  rw [pingLoop_junk_turn L rid _ pre post t d h]

/-- non-vacuity: an answer inside the window is reported, the same answer at the deadline tick is not, a junk
flood after the deadline is not read -/
example : (discoverTimed genLayout ['m', 'e'] 77 1000 103
      [{ t := 1000, ready := some (5, exReq) }, { t := 1050, ready := some (3, exResp 77) }, { t := 1102, ready := none },
       { t := 1103, ready := some (4, exResp 77) }, { t := 1104, ready := some (6, exResp 77) }]).toOption =
    some [{ name := exCtx.name, addr := 3, port := 40001 }] := by decide +kernel

/-! ## context start: the responder is reachable only once what it reports is final -/

/-- obligation on the current source (regenerated from the AST of `QMI_Context.start()`, of the responder and of
`MessageRouter`): no call that assigns a field the responder reports comes after the call that starts the responder -/
theorem gen_start_order_ok : orderOk genStartCalls = true := by decide

/-- what the obligation buys: in every intermediate state of `start()` in which the responder is up, the reported
TCP port is already the one the context ends up with — so an answer given *during* start carries the final port,
never 0 and never a port that is not bound -/
theorem start_order_final (bound : Nat) (calls pre post : List StartCall) (hok : orderOk calls = true)
    (hsplit : calls = pre ++ post) (hup : (lrun bound { port := 0, up := false } pre).up = true) :
    (lrun bound { port := 0, up := false } pre).port = (lrun bound { port := 0, up := false } calls).port :=
  start_order_port_final bound { port := 0, up := false } calls pre post rfl hok hsplit hup

/-- the order of the seeded change (responder first, then the TCP server) does not meet the obligation, and the
state it allows: responder up while the reported port is still 0, final port 40000 -/
example : orderOk [.other, .startsResponder, .setsReported] = false ∧
    lrun 40000 { port := 0, up := false } [.other, .startsResponder] = { port := 0, up := true } ∧
    (lrun 40000 { port := 0, up := false } [.other, .startsResponder, .setsReported]).port = 40000 ∧
    orderOk [.other, .setsReported, .startsResponder] = true := by decide

/-! ## end to end -/

/-- **the whole property in one statement.**  A context asks with filters `wgf`, `cnf` (any text without NUL
that fits the request); the request reaches any number of running contexts (any contexts `QMI_Context.__init__` admits);
what they send back is what the asker receives.  Then the discovery call returns, in order, exactly the
contexts whose workgroup *and* name match the filters, except those carrying the asker's own name — each with
its own name, address and TCP port. -/
theorem discovery_end_to_end {L : Layout} (hwf : WellFormed L = true) (self wgf cnf : List Char) (asker rid : Nat)
    (ts req : Bytes) (hrid : rid < 256 ^ L.idSz) (hts : ts.length = L.tsSz)
    (hw0 : ∀ ch ∈ wgf, ch.toNat ≠ 0) (hc0 : ∀ ch ∈ cnf, ch.toNat ≠ 0)
    (hreq : packRequest L rid ts (utf8Encode wgf) (utf8Encode cnf) = some req)
    (nodes : List Node) (hrun : ∀ n ∈ nodes, n.Running L) :
    discover L self rid (answersOf L asker req nodes) =
      .ok ((nodes.filter (fun n => globMatch wgf n.ctx.workgroup && globMatch cnf n.ctx.name && n.ctx.name != self)).map
            (fun n => { name := n.ctx.name, addr := n.addr, port := n.ctx.port })) := by
  have wf := wf_of_wellFormed hwf
  obtain ⟨hir, hfw, hfc, hid, hft⟩ := request_of_pack wf rid ts wgf cnf req hts hw0 hc0 hreq
  induction nodes with
  | nil => rfl
  | cons n ns ih =>
    have ih' := ih (fun m hm => hrun m (List.mem_cons_of_mem _ hm))
    have hn := nodeAnswer_cases wf n ((hrun n List.mem_cons_self).admissible wf) asker rid req wgf cnf hrid hir hfw hfc hid (by rw [hft]; exact hts)
    unfold answersOf at ih' ⊢
    rw [List.filterMap_cons, List.filter_cons]
    rcases hn with ⟨hg, hno⟩ | ⟨hg, out, p, hsent, hacc, hname, hport⟩
    · rw [hno, hg]
      simpa using ih'
    · rw [hsent, hg]
      simp only [Bool.true_and]
      rw [discover_cons_some L self rid _ _ n.addr p n.ctx.name _ hacc hname ih', hport]
      by_cases hs : n.ctx.name = self
      · simp [hs]
      · simp [hs]

/-- the same, read as the property reads: who is in the list -/
theorem discovery_reports_exactly_matching_others {L : Layout} (hwf : WellFormed L = true) (self wgf cnf : List Char)
    (asker rid : Nat) (ts req : Bytes) (hrid : rid < 256 ^ L.idSz) (hts : ts.length = L.tsSz)
    (hw0 : ∀ ch ∈ wgf, ch.toNat ≠ 0) (hc0 : ∀ ch ∈ cnf, ch.toNat ≠ 0)
    (hreq : packRequest L rid ts (utf8Encode wgf) (utf8Encode cnf) = some req)
    (nodes : List Node) (hrun : ∀ n ∈ nodes, n.Running L) :
    ∃ out, discover L self rid (answersOf L asker req nodes) = .ok out ∧
      ∀ e, e ∈ out ↔ ∃ n ∈ nodes, Matches wgf n.ctx.workgroup ∧ Matches cnf n.ctx.name ∧ n.ctx.name ≠ self ∧
        e = { name := n.ctx.name, addr := n.addr, port := n.ctx.port } := by
  refine ⟨_, discovery_end_to_end hwf self wgf cnf asker rid ts req hrid hts hw0 hc0 hreq nodes hrun, ?_⟩
  intro e
  simp only [List.mem_map, List.mem_filter, Bool.and_eq_true, bne_iff_ne, ne_eq]
  constructor
  · rintro ⟨n, ⟨hn, ⟨h1, h2⟩, h3⟩, rfl⟩
    exact ⟨n, hn, (globMatch_iff _ _).1 h1, (globMatch_iff _ _).1 h2, h3, rfl⟩
  · rintro ⟨n, hn, h1, h2, h3, rfl⟩
    exact ⟨n, ⟨hn, ⟨(globMatch_iff _ _).2 h1, (globMatch_iff _ _).2 h2⟩, h3⟩, rfl⟩

/-- non-vacuity of `client_filters`: own answer kept; answer to another id, request packet, truncated answer
and the asker's own answer dropped -/
example : (discover genLayout ['m', 'e'] 77
      [(3, exResp 77), (4, exResp 78), (5, exReq), (6, (exResp 77).take 100), (8, exResp 77)]).toOption =
    some [{ name := exCtx.name, addr := 3, port := 40001 }, { name := exCtx.name, addr := 8, port := 40001 }] ∧
    (discover genLayout exCtx.name 77 [(3, exResp 77)]).toOption = some [] := by decide +kernel

/-- non-vacuity of `discovery_end_to_end`: three running contexts, one matching, one matching but the asker
itself, one in another workgroup -/
example : (∀ n ∈ exNodes, n.Running genLayout) ∧
    (discover genLayout ['m', 'e'] 0x1122334455667788 (answersOf genLayout 99 exReq exNodes)).toOption =
      some [{ name := exCtx.name, addr := 11, port := 40001 }] := by decide +kernel

/-- CPython corner cases reproduced by `globMatch` (each line checked against `fnmatch.fnmatchcase` on every run) -/
example : globMatch ['[', 'a', '-', '!', '!', 'c', ']'] ['b'] = true ∧ globMatch ['[', 'a', '-', '!', '!', 'c', ']'] ['c'] = false ∧
    globMatch ['[', ']', '-', 'a', ']'] ['^'] = true ∧ globMatch ['[', 'a'] ['[', 'a'] = true ∧
    globMatch ['[', '!', ']', ']'] ['x'] = true ∧ globMatch ['[', 'z', '-', 'a', ']'] ['m'] = false ∧
    globMatch ['[', '!', 'z', '-', 'a', ']'] ['m'] = true ∧ globMatch ['[', 'a', '-', ']'] ['-'] = true ∧
    globMatch ['*', 'a', '*', 'b', '?'] ['x', 'a', 'y', 'a', 'b', 'c'] = true ∧ globMatch ['A'] ['a'] = false := by decide +kernel

end QmiModel.Discovery
