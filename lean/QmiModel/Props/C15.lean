import QmiModel.Model.Scpi
import QmiModel.Model.Usbtmc
import QmiModel.Lemmas.C15Scpi
import QmiModel.Lemmas.C15Usbtmc
import QmiModel.Lemmas.C15UsbtmcRead
import QmiModel.Lemmas.C15UsbtmcTags
/-!
# C15 (part A) — SCPI and USBTMC carry payloads unchanged and reject corrupted replies

Property theorems only.  Everything is quantified over *all* payloads, all lengths,
all terminators, all `max_transfer_size ≥ 1`, all tag values and all splits of a reply
into transfers — no bounds; proofs are by induction over the byte lists / transfer lists.
-/
namespace QmiModel.C15
open QmiModel

/-! ## SCPI -/
section ScpiSec
open Scpi

/-- `write` hands the ASCII bytes of the command followed by the command terminator to the transport, in one call. -/
theorem scpi_write_sends_cmd_term (cfg : Cfg) (t : Tr) (cmd : List Nat) (h : ∀ c ∈ cmd, c < 128) :
    write cfg t cmd = (t.write (cmd.map UInt8.ofNat ++ cfg.cmdTerm), .ok ())
    ∧ written (write cfg t cmd).1.log = written t.log ++ (cmd.map UInt8.ofNat ++ cfg.cmdTerm) := by
  simp [write, encodeAscii, all_lt_of cmd h, Tr.write, written_app, written]

example : ∃ cmd : List Nat, (∀ c ∈ cmd, c < 128) ∧ cmd ≠ [] := ⟨[42, 73], by decide, by decide⟩

/-- `ask`: the device sees `cmd ++ command terminator`; the driver gets the reply minus the response terminator; bytes that
follow the reply stay in the buffer (stale bytes are dropped first when `discard` is set). -/
theorem scpi_ask_roundtrip (cfg : Cfg) (t : Tr) (cmd : List Nat) (reply rest : Bytes) (to : Option Nat) (discard : Bool)
    (hterm : cfg.respTerm ≠ []) (hcmd : ∀ c ∈ cmd, c < 128) (hreply : ∀ b ∈ reply, b.toNat < 128)
    (hfirst : FirstAtEnd cfg.respTerm reply) (hmsg : t.message = false)
    (hrx : discard = true ∨ t.rx = [])
    (hpend : t.pending = reply ++ cfg.respTerm ++ rest) :
    (ask cfg t cmd to discard).2 = .ok (reply.map UInt8.toNat)
    ∧ (ask cfg t cmd to discard).1.rx = rest
    ∧ written (ask cfg t cmd to discard).1.log = written t.log ++ (cmd.map UInt8.ofNat ++ cfg.cmdTerm) := by
  have hsplit := splitAfter_reply cfg.respTerm reply rest hterm hfirst
  have hpost := askPost_ok cfg reply hterm hreply
  simp only [List.append_assoc] at hsplit
  cases discard with
  | true =>
    simp [ask, write, encodeAscii, all_lt_of cmd hcmd, Tr.write, Tr.discard, Tr.readUntil, hpend, hsplit, hpost, hmsg,
      written_app, written]
  | false =>
    have hrx' : t.rx = [] := by simpa using hrx
    simp [ask, write, encodeAscii, all_lt_of cmd hcmd, Tr.write, Tr.readUntil, hpend, hsplit, hpost, hrx', hmsg,
      written_app, written]

-- non-vacuity: stale bytes discarded, reply with a CR inside, CR LF terminator, next reply left in the buffer
example : (ask { cmdTerm := [10], respTerm := [13, 10] } { rx := [57, 13, 10], pending := [49, 13, 50, 13, 10, 51] } [42, 73] (some 3) true).2.toOption
      = some [49, 13, 50]
    ∧ (ask { cmdTerm := [10], respTerm := [13, 10] } { rx := [57, 13, 10], pending := [49, 13, 50, 13, 10, 51] } [42, 73] (some 3) true).1.rx = [51] := by
  decide

example : FirstAtEnd [13, 10] [49, 13, 50] ∧ FirstAtEnd [10] [] := by
  constructor <;> intro k hk <;> (simp at hk; (try omega)) <;> (have : k = 0 ∨ k = 1 ∨ k = 2 := by omega) <;>
    rcases this with rfl | rfl | rfl <;> decide

/-- `ask` over a **message-based** transport (USBTMC, GPIB, VXI-11 without term char: `read_until` hands out the whole
device message): the driver gets the message minus its final terminator — *all* of it, however many times the
terminator occurs inside the payload. -/
theorem scpi_ask_message_roundtrip (cfg : Cfg) (t : Tr) (cmd : List Nat) (reply : Bytes) (to : Option Nat) (discard : Bool)
    (hterm : cfg.respTerm ≠ []) (hcmd : ∀ c ∈ cmd, c < 128) (hreply : ∀ b ∈ reply, b.toNat < 128)
    (hmsg : t.message = true) (hrx : discard = true ∨ t.rx = [])
    (hpend : t.pending = reply ++ cfg.respTerm) :
    (ask cfg t cmd to discard).2 = .ok (reply.map UInt8.toNat)
    ∧ (ask cfg t cmd to discard).1.rx = []
    ∧ written (ask cfg t cmd to discard).1.log = written t.log ++ (cmd.map UInt8.ofNat ++ cfg.cmdTerm) := by
  have hpost := askPost_ok cfg reply hterm hreply
  have hne : ¬ (reply = [] ∧ cfg.respTerm = []) := fun h => hterm h.2
  cases discard with
  | true =>
    simp [ask, write, encodeAscii, all_lt_of cmd hcmd, Tr.write, Tr.discard, Tr.readUntil, hpend, hpost, hmsg, hne,
      written_app, written]
  | false =>
    have hrx' : t.rx = [] := by simpa using hrx
    simp [ask, write, encodeAscii, all_lt_of cmd hcmd, Tr.write, Tr.readUntil, hpend, hpost, hrx', hmsg, hne,
      written_app, written]

-- non-vacuity: "line1\nline2\n" as one message: both lines reach the driver
example : (ask { cmdTerm := [10], respTerm := [10] } { rx := [], pending := [76, 49, 10, 76, 50, 10], message := true } [63] none false).2.toOption
    = some [76, 49, 10, 76, 50] := by decide

/-- a reply without the terminator at its end is an error, never data -/
theorem scpi_missing_terminator_errors (cfg : Cfg) (resp : Bytes) (h : endsWith resp cfg.respTerm = false) :
    askPost cfg resp = .error .instrument := by
  simp [askPost, h]

/-- Whatever the transport holds: if no terminator is in the stream, `ask` raises (time-out from a strict transport,
`QMI_InstrumentException` when a sloppy transport hands out the unterminated bytes) — it never returns data. -/
theorem scpi_ask_unterminated_errors (cfg : Cfg) (t : Tr) (cmd : List Nat) (to : Option Nat) (discard : Bool)
    (hno : splitAfter cfg.respTerm ((if discard then [] else t.rx) ++ t.pending) = none) :
    ∃ e, (ask cfg t cmd to discard).2 = .error e := by
  have hE := endsWith_false_of_splitAfter_none _ _ hno
  have key : ∀ t0 : Tr, splitAfter cfg.respTerm (t0.rx ++ t0.pending) = none →
      ∃ e, (match write cfg t0 cmd with
        | (t, .error e) => (t, Except.error e)
        | (t, .ok ()) =>
          match t.readUntil cfg.respTerm (effTimeout cfg to) with
          | (t, .error e) => (t, .error e)
          | (t, .ok resp) => (t, askPost cfg resp)).2 = .error e := by
    intro t0 h0
    simp only [write]
    cases encodeAscii cmd with
    | error e => exact ⟨e, rfl⟩
    | ok b =>
      simp only []
      have hrx : (t0.write (b ++ cfg.cmdTerm)).rx = t0.rx ++ t0.pending := rfl
      have h1 : splitAfter cfg.respTerm (t0.write (b ++ cfg.cmdTerm)).rx = none := by rw [hrx]; exact h0
      have hE1 := endsWith_false_of_splitAfter_none _ _ h1
      rcases readUntil_none (t0.write (b ++ cfg.cmdTerm)) cfg.respTerm (effTimeout cfg to) h1 with h | h
      · revert h
        cases (t0.write (b ++ cfg.cmdTerm)).readUntil cfg.respTerm (effTimeout cfg to) with
        | mk t2 r2 => intro h; simp only at h; subst h; exact ⟨_, rfl⟩
      · revert h
        cases (t0.write (b ++ cfg.cmdTerm)).readUntil cfg.respTerm (effTimeout cfg to) with
        | mk t2 r2 =>
          intro h; simp only at h; subst h
          exact ⟨.instrument, by simp [askPost, hE1]⟩
  cases discard with
  | true => exact key t.discard (by simpa [Tr.discard] using hno)
  | false => exact key t (by simpa using hno)

-- non-vacuity: no terminator in the stream — strict transport times out, sloppy transport hands the bytes out and `ask` raises
example : (ask { cmdTerm := [10], respTerm := [10] } { rx := [], pending := [49, 50] } [42] none false).2.toOption = none
    ∧ splitAfter [10] [49, 50] = none ∧ endsWith [49, 50] [10] = false
    ∧ (ask { cmdTerm := [10], respTerm := [10] } { rx := [], pending := [49, 50], sloppy := true } [42] none false).2.toOption = none := by
  decide

/-- Soundness of `ask`: a value is returned only for a response that really ends in the terminator, and the value is that
response without it. -/
theorem scpi_ask_sound (cfg : Cfg) (t t' : Tr) (cmd r : List Nat) (to : Option Nat) (discard : Bool)
    (h : ask cfg t cmd to discard = (t', .ok r)) :
    ∃ resp, endsWith resp cfg.respTerm = true ∧ decodeAscii (stripTail resp cfg.respTerm.length) = .ok r := by
  simp only [ask] at h
  split at h
  · simp at h
  · split at h
    · simp at h
    · rename_i resp _
      simp only [Prod.mk.injEq] at h
      refine ⟨resp, ?_⟩
      have h2 := h.2
      simp only [askPost] at h2
      split at h2
      · simp at h2
      · rename_i hE
        simp only [Bool.not_eq_true', Bool.not_eq_false] at hE
        exact ⟨by simpa using hE, h2⟩

/-- Round trip for **every** conforming block header (leading zeros in the length field included): `#`, a digit
`k ∈ 1..9`, `k` digits whose value is the length of `d`, then `d`, then (if asked for) the terminator. -/
theorem readBinary_roundtrip (cfg : Cfg) (t : Tr) (flag : Bool) (to : Option Nat) (k : UInt8) (ds d rest : Bytes)
    (hk1 : 49 ≤ k.toNat) (hk9 : k.toNat ≤ 57) (hlen : ds.length = k.toNat - 48)
    (hds : ∀ x ∈ ds, isDigit x = true) (hval : parseDec ds = d.length)
    (hrx : t.rx = 35 :: k :: (ds ++ (d ++ ((if flag then cfg.respTerm else []) ++ rest)))) :
    (readBinary cfg t flag to).2 = .ok d ∧ (readBinary cfg t flag to).1.rx = rest := by
  have hne : ds ≠ [] := by
    intro h; rw [h] at hlen; simp at hlen; omega
  have r1 := read_prefix t [35, k] _ (effTimeout cfg to) (by simpa using hrx)
  simp only [List.length_cons, List.length_nil, Nat.zero_add, Nat.reduceAdd] at r1
  have hpk : parseDec [k] = ds.length := by simp [parseDec, hlen]
  simp only [readBinary, r1]
  have hd1 := allDigits_single k (by omega) hk9
  have hd2 := allDigits_of ds hne hds
  have hnz : ds.length ≠ 0 := by simpa using hne
  simp only [bne_self_eq_false, Bool.false_eq_true, if_false, hd1, Bool.not_true, hpk, hnz]
  rw [read_prefix _ ds _ _ rfl]
  simp only [hd2, Bool.not_true, Bool.false_eq_true, if_false, hval]
  rw [read_prefix _ d _ _ rfl]
  cases flag with
  | true =>
    simp only [if_true]
    rw [read_prefix _ cfg.respTerm rest _ rfl]
    simp
  | false => simp

-- non-vacuity: a block with a zero-padded length field, "#3005hello\n", followed by the start of the next block
example : (readBinary { cmdTerm := [10], respTerm := [10] } { rx := [35, 51, 48, 48, 53, 104, 101, 108, 108, 111, 10, 35] } true none).2.toOption
      = some [104, 101, 108, 108, 111] := by decide

/-- The canonical device encoder (IEEE 488.2 definite length block + terminator) is decoded exactly, for every payload
whose length has 1..9 digits; whatever follows stays in the buffer. -/
theorem readBinary_encodeBlock (cfg : Cfg) (t : Tr) (to : Option Nat) (d rest : Bytes) (hlen : d.length < 10 ^ 9)
    (hrx : t.rx = encodeBlock cfg.respTerm d ++ rest) :
    (readBinary cfg t true to).2 = .ok d ∧ (readBinary cfg t true to).1.rx = rest := by
  obtain ⟨h1, h2, h3⟩ := decimal_spec d.length
  have hl : (decimal d.length).length ≤ 9 := by simpa [decimal] using digitsLE_length 8 d.length hlen
  have hl1 : 1 ≤ (decimal d.length).length := by
    cases hd : decimal d.length with
    | nil => exact absurd hd h1
    | cons _ _ => simp
  have hk : (UInt8.ofNat (48 + (decimal d.length).length)).toNat = 48 + (decimal d.length).length := by
    simp [UInt8.toNat_ofNat']; omega
  exact readBinary_roundtrip cfg t true to (UInt8.ofNat (48 + (decimal d.length).length)) (decimal d.length) d rest
    (by omega) (by omega) (by omega) h2 h3 (by simpa [encodeBlock, blockHeader] using hrx)

example : encodeBlock [10] [1, 2, 3] = [35, 49, 51, 1, 2, 3, 10] := by
  simp [encodeBlock, blockHeader, decimal, digitsLE_lt]

/-- malformed header: the first byte is not `#` -/
theorem readBinary_bad_hash (cfg : Cfg) (t : Tr) (flag : Bool) (to : Option Nat) (h0 h1 : UInt8) (rest : Bytes)
    (hrx : t.rx = h0 :: h1 :: rest) (h : h0 ≠ 35) :
    (readBinary cfg t flag to).2 = .error .instrument := by
  have r1 := read_prefix t [h0, h1] rest (effTimeout cfg to) (by simpa using hrx)
  simp only [List.length_cons, List.length_nil, Nat.zero_add, Nat.reduceAdd] at r1
  simp [readBinary, r1, h]

/-- malformed header: the digit count is not a digit, or is `0` (indefinite length) -/
theorem readBinary_bad_digit_count (cfg : Cfg) (t : Tr) (flag : Bool) (to : Option Nat) (h1 : UInt8) (rest : Bytes)
    (hrx : t.rx = 35 :: h1 :: rest) (h : isDigit h1 = false ∨ h1 = 48) :
    (readBinary cfg t flag to).2 = .error .instrument := by
  have r1 := read_prefix t [35, h1] rest (effTimeout cfg to) (by simpa using hrx)
  simp only [List.length_cons, List.length_nil, Nat.zero_add, Nat.reduceAdd] at r1
  rcases h with h | h
  · simp [readBinary, r1, allDigits, h]
  · subst h
    simp [readBinary, r1, allDigits, isDigit, parseDec]

/-- malformed length: some byte of the length field is not a digit -/
theorem readBinary_bad_length_field (cfg : Cfg) (t : Tr) (flag : Bool) (to : Option Nat) (k : UInt8) (ds rest : Bytes)
    (hk1 : 49 ≤ k.toNat) (hk9 : k.toNat ≤ 57) (hlen : ds.length = k.toNat - 48)
    (hbad : ∃ x ∈ ds, isDigit x = false)
    (hrx : t.rx = 35 :: k :: (ds ++ rest)) :
    (readBinary cfg t flag to).2 = .error .instrument := by
  have r1 := read_prefix t [35, k] (ds ++ rest) (effTimeout cfg to) (by simpa using hrx)
  simp only [List.length_cons, List.length_nil, Nat.zero_add, Nat.reduceAdd] at r1
  have hpk : parseDec [k] = ds.length := by simp [parseDec, hlen]
  have hd1 : allDigits [k] = true := by simp [allDigits, isDigit]; omega
  have hnz : ds.length ≠ 0 := by omega
  have hd2 : allDigits ds = false := by
    obtain ⟨x, hx, hxd⟩ := hbad
    simp only [allDigits, Bool.and_eq_false_imp, Bool.not_eq_true', List.all_eq_false]
    intro _
    exact ⟨x, hx, by simp [hxd]⟩
  simp only [readBinary, r1, bne_self_eq_false, Bool.false_eq_true, if_false, hd1, Bool.not_true, hpk, hnz]
  rw [read_prefix _ ds rest _ rfl]
  simp [hd2]

/-- missing / wrong terminator after the data -/
theorem readBinary_bad_tail (cfg : Cfg) (t : Tr) (to : Option Nat) (k : UInt8) (ds d tail rest : Bytes)
    (hk1 : 49 ≤ k.toNat) (hk9 : k.toNat ≤ 57) (hlen : ds.length = k.toNat - 48)
    (hds : ∀ x ∈ ds, isDigit x = true) (hval : parseDec ds = d.length)
    (htl : tail.length = cfg.respTerm.length) (hne : tail ≠ cfg.respTerm)
    (hrx : t.rx = 35 :: k :: (ds ++ (d ++ (tail ++ rest)))) :
    (readBinary cfg t true to).2 = .error .instrument := by
  have hnil : ds ≠ [] := by
    intro h; rw [h] at hlen; simp at hlen; omega
  have r1 := read_prefix t [35, k] (ds ++ (d ++ (tail ++ rest))) (effTimeout cfg to) (by simpa using hrx)
  simp only [List.length_cons, List.length_nil, Nat.zero_add, Nat.reduceAdd] at r1
  have hpk : parseDec [k] = ds.length := by simp [parseDec, hlen]
  have hd1 : allDigits [k] = true := by simp [allDigits, isDigit]; omega
  have hd2 : allDigits ds = true := by
    simp only [allDigits, Bool.and_eq_true, Bool.not_eq_true', List.all_eq_true]
    exact ⟨by cases ds <;> simp_all, hds⟩
  have hnz : ds.length ≠ 0 := by simpa using hnil
  simp only [readBinary, r1, bne_self_eq_false, Bool.false_eq_true, if_false, hd1, Bool.not_true, hpk, hnz]
  rw [read_prefix _ ds (d ++ (tail ++ rest)) _ rfl]
  simp only [hd2, Bool.not_true, Bool.false_eq_true, if_false, hval]
  rw [read_prefix _ d (tail ++ rest) _ rfl]
  simp only [if_true, ← htl]
  rw [read_prefix _ tail rest _ rfl]
  simp [hne]

-- non-vacuity of the four malformed-block theorems: "$15a\n", "#x5a\n", "#05a\n", "#2 5hello\n", "#15hello;"
example : (readBinary { cmdTerm := [10], respTerm := [10] } { rx := [36, 49, 53, 97, 10] } true none).2.toOption = none
    ∧ (readBinary { cmdTerm := [10], respTerm := [10] } { rx := [35, 120, 53, 97, 10] } true none).2.toOption = none
    ∧ (readBinary { cmdTerm := [10], respTerm := [10] } { rx := [35, 48, 53, 97, 10] } true none).2.toOption = none
    ∧ (readBinary { cmdTerm := [10], respTerm := [10] } { rx := [35, 50, 32, 53, 104, 101, 108, 108, 111, 10] } true none).2.toOption = none
    ∧ (readBinary { cmdTerm := [10], respTerm := [10] } { rx := [35, 49, 53, 104, 101, 108, 108, 111, 59] } true none).2.toOption = none := by
  decide

/-- Only three things can come out of `read_binary_data` on a contract-abiding transport: the data,
`QMI_InstrumentException`, or the transport's time-out. -/
theorem readBinary_total (cfg : Cfg) (t : Tr) (flag : Bool) (to : Option Nat) :
    (∃ d, (readBinary cfg t flag to).2 = .ok d) ∨ (readBinary cfg t flag to).2 = .error .instrument
      ∨ (readBinary cfg t flag to).2 = .error .timeout := by
  simp only [readBinary]
  rcases read_result t 2 (effTimeout cfg to) with ⟨t1, a, h1⟩ | ⟨t1, h1⟩
  · simp only [h1]
    have ha : a.length = 2 := by
      simp only [Tr.read] at h1
      split at h1
      · simp only [Prod.mk.injEq, Except.ok.injEq] at h1
        rw [← h1.2]; simp; omega
      · simp at h1
    match a, ha with
    | [h0, k], _ =>
      simp only []
      split
      · simp
      · split
        · simp
        · split
          · simp
          · rcases read_result t1 (parseDec [k]) (effTimeout cfg to) with ⟨t2, a2, h2⟩ | ⟨t2, h2⟩
            · simp only [h2]
              split
              · simp
              · rcases read_result t2 (parseDec a2) (effTimeout cfg to) with ⟨t3, a3, h3⟩ | ⟨t3, h3⟩
                · simp only [h3]
                  split
                  · rcases read_result t3 cfg.respTerm.length (effTimeout cfg to) with ⟨t4, a4, h4⟩ | ⟨t4, h4⟩
                    · simp only [h4]
                      split <;> simp
                    · simp [h4]
                  · simp
                · simp [h3]
            · simp [h2]
  · simp [h1]

/-- Soundness: whenever `read_binary_data` returns data, the stream really started with a well-formed block whose
data field is exactly what was returned, followed (if asked for) by the terminator; what follows is left in the buffer. -/
theorem readBinary_sound (cfg : Cfg) (t t' : Tr) (flag : Bool) (to : Option Nat) (d : Bytes)
    (h : readBinary cfg t flag to = (t', .ok d)) :
    ∃ k ds, 49 ≤ k.toNat ∧ k.toNat ≤ 57 ∧ ds.length = k.toNat - 48 ∧ (∀ x ∈ ds, isDigit x = true)
      ∧ parseDec ds = d.length
      ∧ t.rx = 35 :: k :: (ds ++ (d ++ ((if flag then cfg.respTerm else []) ++ t'.rx))) := by
  simp only [readBinary] at h
  split at h
  · simp at h
  · rename_i t1 header hr1
    obtain ⟨hrx1, hl1⟩ := read_ok_inv _ _ _ _ _ hr1
    split at h
    · simp at h
    · rename_i h0 h1
      split at h
      · simp at h
      · rename_i hh0
        split at h
        · simp at h
        · rename_i hdig1
          split at h
          · simp at h
          · rename_i hnz
            split at h
            · simp at h
            · rename_i t2 header2 hr2
              obtain ⟨hrx2, hl2⟩ := read_ok_inv _ _ _ _ _ hr2
              split at h
              · simp at h
              · rename_i hdig2
                split at h
                · simp at h
                · rename_i t3 data hr3
                  obtain ⟨hrx3, hl3⟩ := read_ok_inv _ _ _ _ _ hr3
                  -- header = [35, k]
                  have hh1 : ∃ k, h1 = [k] := by
                    simp only [List.length_cons] at hl1
                    match h1, hl1 with
                    | [k], _ => exact ⟨k, rfl⟩
                  obtain ⟨k, rfl⟩ := hh1
                  have h35 : h0 = 35 := by simpa using hh0
                  subst h35
                  obtain ⟨_, hk⟩ := allDigits_inv _ (by simpa using hdig1)
                  have hkd := hk k (by simp)
                  simp only [isDigit, Bool.and_eq_true, decide_eq_true_eq] at hkd
                  have hpk : parseDec [k] = k.toNat - 48 := by simp [parseDec]
                  rw [hpk] at hnz hl2
                  obtain ⟨_, hds⟩ := allDigits_inv _ (by simpa using hdig2)
                  split at h
                  · split at h
                    · simp at h
                    · rename_i t4 tail hr4
                      obtain ⟨hrx4, hl4⟩ := read_ok_inv _ _ _ _ _ hr4
                      split at h
                      · simp at h
                      · rename_i htail
                        simp only [Prod.mk.injEq, Except.ok.injEq] at h
                        obtain ⟨ht, hd⟩ := h
                        subst ht hd
                        have : tail = cfg.respTerm := by simpa using htail
                        subst this
                        have hflag : flag = true := by assumption
                        subst hflag
                        refine ⟨k, header2, by omega, hkd.2, hl2, hds, by rw [hl3], ?_⟩
                        rw [hrx1, hrx2, hrx3, hrx4]; simp
                  · rename_i hflag
                    simp only [Prod.mk.injEq, Except.ok.injEq] at h
                    obtain ⟨ht, hd⟩ := h
                    subst ht hd
                    have : flag = false := by simpa using hflag
                    subst this
                    refine ⟨k, header2, by omega, hkd.2, hl2, hds, by rw [hl3], ?_⟩
                    rw [hrx1, hrx2, hrx3]; simp

end ScpiSec

/-! ## USBTMC -/
section UsbtmcSec
open Usbtmc

/-- bTag cycle: always in 1..255 (never 0), never equal to the previous tag, 255 wraps to 1, otherwise +1; the third
header byte is the one's complement of the tag. -/
theorem btag_cycle (last : Nat) :
    1 ≤ nextTag last ∧ nextTag last ≤ 255
    ∧ (last ≤ 255 → nextTag last ≠ last)
    ∧ nextTag 255 = 1 ∧ nextTag 0 = 1
    ∧ (last < 255 → nextTag last = last + 1)
    ∧ (∀ msgid, bulkOutHeader msgid (nextTag last)
          = [UInt8.ofNat msgid, UInt8.ofNat (nextTag last), UInt8.ofNat (255 - nextTag last), 0])
    ∧ (UInt8.ofNat (nextTag last)).toNat + (UInt8.ofNat (invTag (nextTag last))).toNat = 255 := by
  refine ⟨nextTag_pos last, nextTag_le last, nextTag_ne last, by decide, by decide, ?_, ?_, ?_⟩
  · intro h; simp only [nextTag]; omega
  · intro msgid
    have := nextTag_le last
    simp only [bulkOutHeader, invTag]
    rw [Nat.mod_eq_of_lt (by omega)]
  · have := nextTag_le last
    simp only [UInt8.toNat_ofNat', invTag]; omega

/-- closed form of the tag after `n` further headers -/
theorem btag_after (last n : Nat) (h1 : 1 ≤ last) (h2 : last ≤ 255) : tagAfter last n = (last - 1 + n) % 255 + 1 :=
  tagAfter_closed n last h1 h2

example : tagAfter 254 1 = 255 ∧ tagAfter 254 2 = 1 ∧ tagAfter 0 1 = 1 ∧ tagAfter 255 255 = 255 := by decide +kernel

/-- an empty payload sends nothing and leaves the tag alone -/
theorem writeRaw_empty (mts last : Nat) (hm : 1 ≤ mts) :
    writeRaw mts none last [] = { last, sent := [] } := by
  rw [writeRaw_eq_loop _ _ _ hm]; simp [writeLoop]

/-- every Bulk-OUT transfer is a multiple of 4 bytes long — for every payload, every `max_transfer_size`,
with or without an endpoint fault -/
theorem writeRaw_aligned4 (mts : Nat) (fault : Option (Nat × Bool)) (last : Nat) (d : Bytes) :
    ∀ t ∈ (writeRaw mts fault last d).sent, t.length % 4 = 0 := by
  intro t ht
  simp only [writeRaw] at ht
  split at ht
  · simp at ht
  · exact writeLoop_aligned mts fault _ _ _ _ t ht

/-- EOM is set on the last transfer and only there; the number of transfers is ⌈len/max⌉; the tag advanced once per
transfer -/
theorem writeRaw_eom_only_last (mts last : Nat) (d : Bytes) (hm : 1 ≤ mts) (h32 : min mts d.length < 4294967296)
    (hd : d ≠ []) :
    (writeRaw mts none last d).sent.map eomByte
        = List.replicate ((writeRaw mts none last d).sent.length - 1) (some 0) ++ [some 1]
    ∧ (writeRaw mts none last d).sent.length = (d.length + mts - 1) / mts
    ∧ (writeRaw mts none last d).last = tagAfter last ((d.length + mts - 1) / mts) := by
  rw [writeRaw_eq_loop _ _ _ hm]
  exact writeLoop_eom mts hm d.length 0 last d (Nat.le_refl _) h32 hd

example : (writeRaw 4 none 254 [1, 2, 3, 4, 5]).sent.map eomByte = [some 0, some 1]
    ∧ (writeRaw 4 none 254 [1, 2, 3, 4, 5]).last = 1 := by decide

/-- **device_decodes_write**: a conforming device (USBTMC 1.0 §3.2: header fields, bTag ≠ 0 and ≠ previous, inverse,
TransferSize > 0, exact alignment padding, message ends at EOM) that has just seen tag `last` (or nothing) decodes from
the output of `write_raw d` exactly the message `d` — for all payloads and all `max_transfer_size ≥ 1`. -/
theorem device_decodes_write (mts last : Nat) (d : Bytes) (dv : Dev) (hm : 1 ≤ mts)
    (h32 : min mts d.length < 4294967296) (hlast : last ≤ 255)
    (hprev : dv.prev ≠ some (nextTag last)) (hacc : dv.acc = []) (hd : d ≠ []) :
    (writeRaw mts none last d).exc = none
    ∧ dv.run (writeRaw mts none last d).sent
        = some { prev := some (writeRaw mts none last d).last, acc := [], msgs := dv.msgs ++ [d] }
    ∧ 1 ≤ (writeRaw mts none last d).last ∧ (writeRaw mts none last d).last ≤ 255 := by
  rw [writeRaw_eq_loop _ _ _ hm]
  obtain ⟨h1, h2, h3, h4⟩ := writeLoop_dev mts hm d.length 0 last d dv (Nat.le_refl _) h32 hlast hprev hd
  refine ⟨h1, ?_, h2, h3⟩
  rw [h4, hacc]; rfl

example : (Dev.run {} (writeRaw 4 none 254 [1, 2, 3, 4, 5]).sent) = some { prev := some 1, acc := [], msgs := [[1, 2, 3, 4, 5]] } := by
  decide

/-- any number of `write_raw` calls in a row: the device decodes exactly the non-empty payloads, in order -/
theorem device_decodes_writes (mts : Nat) (hm : 1 ≤ mts) (h32 : mts < 4294967296) :
    ∀ (ds : List Bytes) (last : Nat) (dv : Dev), last ≤ 255 → dv.prev ≠ some (nextTag last) → dv.acc = [] →
      ∃ dv', dv.run (writeMany mts last ds).2 = some dv' ∧ dv'.acc = []
        ∧ dv'.msgs = dv.msgs ++ ds.filter (fun d => !d.isEmpty) := by
  intro ds
  induction ds with
  | nil => intro last dv _ _ hacc; exact ⟨dv, by simp [writeMany, Dev.run], hacc, by simp⟩
  | cons d ds ih =>
    intro last dv hlast hprev hacc
    simp only [writeMany]
    rw [Dev.run_append]
    by_cases hd : d = []
    · subst hd
      rw [writeRaw_empty _ _ hm]
      simp only [Dev.run]
      obtain ⟨dv', h1, h2, h3⟩ := ih last dv hlast hprev hacc
      exact ⟨dv', h1, h2, by simpa using h3⟩
    · obtain ⟨_, h2, h3, h4⟩ := device_decodes_write mts last d dv hm (by omega) hlast hprev hacc hd
      rw [h2]
      obtain ⟨dv', g1, g2, g3⟩ := ih (writeRaw mts none last d).last
        { prev := some (writeRaw mts none last d).last, acc := [], msgs := dv.msgs ++ [d] } h4
        (by simp only [ne_eq, Option.some.injEq]; exact (nextTag_ne _ h4).symm) rfl
      refine ⟨dv', g1, g2, ?_⟩
      have : (!d.isEmpty) = true := by cases d <;> simp_all
      simp [g3, this]


example : (({} : Dev).run (writeMany 2 254 [[1, 2, 3], [], [4]]).2).map Dev.msgs = some [[1, 2, 3], [4]] := by decide

/-- **readRaw_reassembles**: however a device splits a reply into transfers (any number of pieces, any piece sizes
including empty ones, any alignment padding, EOM on the last piece only) `read_raw()` returns exactly the concatenation
of the pieces, consumes exactly those transfers, and sends one request per transfer.  `TagsOk` (each transfer answers its
request) is demanded only of a tree that checks the Bulk-IN header (`cfg.checkHdr`); it is vacuous for the pinned tree. -/
theorem readRaw_reassembles (cfg : Cfg) (hr : cfg.rigol = false) (ha : cfg.advantest = false)
    (hm : cfg.mts < 4294967296) (last : Nat) (num : Int) (hnum : num ≤ 0)
    (pieces : List Piece) (lastP : Piece) (extra : List Ev)
    (hall : ∀ p ∈ pieces, p.eom = false ∧ p.payload.length < 4294967296)
    (he : lastP.eom = true) (hp : lastP.payload.length < 4294967296)
    (htags : TagsOk cfg last (pieces ++ [lastP])) :
    (readRaw cfg last num ((pieces ++ [lastP]).map (fun p => Ev.data p.bytes) ++ extra)).res
        = .ok ((pieces ++ [lastP]).map Piece.payload).flatten
    ∧ (readRaw cfg last num ((pieces ++ [lastP]).map (fun p => Ev.data p.bytes) ++ extra)).left = extra
    ∧ (readRaw cfg last num ((pieces ++ [lastP]).map (fun p => Ev.data p.bytes) ++ extra)).rs.reqs.length
        = pieces.length + 1
    ∧ (readRaw cfg last num ((pieces ++ [lastP]).map (fun p => Ev.data p.bytes) ++ extra)).rs.last
        = tagAfter last (pieces.length + 1) := by
  have hn : ¬ (0 < num ∧ num < (cfg.mts : Int)) := by omega
  simp only [readRaw, hn, if_false]
  have := readLoop_reassembles cfg hr ha pieces lastP extra { last, num, readLen := cfg.mts } hnum hm hall he hp htags
  simpa using this

example : (readRaw { mts := 4 } 254 (-1)
    [.data [2, 255, 0, 0, 2, 0, 0, 0, 0, 0, 0, 0, 10, 11, 0xAA], .data [2, 1, 254, 0, 1, 0, 0, 0, 1, 0, 0, 0, 12]]).res.toOption
      = some [10, 11, 12] := by decide

/-- `read_raw(num)` with `num > 0`, against a device that never sends more than is still wanted: the result is made of
whole transfers from the front of the reply, is never longer than `num`, and is exactly `num` bytes long unless the
message ended (EOM) first; the transfers not needed are not consumed. -/
theorem readRaw_num_prefix (cfg : Cfg) (hr : cfg.rigol = false) (ha : cfg.advantest = false)
    (hm : cfg.mts < 4294967296) (last : Nat) (num : Int) (hnum : 0 < num) (pieces : List Piece)
    (hconf : Conforms num pieces) (htags : TagsOk cfg last pieces)
    (hend : (pieces.map Piece.payload).flatten.length ≥ num.toNat ∨ ∃ p ∈ pieces, p.eom = true) :
    ∃ k, k ≤ pieces.length
      ∧ (readRaw cfg last num (pieces.map (fun p => Ev.data p.bytes))).res
          = .ok ((pieces.take k).map Piece.payload).flatten
      ∧ (readRaw cfg last num (pieces.map (fun p => Ev.data p.bytes))).left = (pieces.drop k).map (fun p => Ev.data p.bytes)
      ∧ ((pieces.take k).map Piece.payload).flatten.length ≤ num.toNat
      ∧ (((pieces.take k).map Piece.payload).flatten.length = num.toNat ∨ ∃ p ∈ pieces.take k, p.eom = true) := by
  simp only [readRaw]
  have hlen : (if 0 < num ∧ num < (cfg.mts : Int) then num.toNat else cfg.mts) < 4294967296 := by
    split
    · omega
    · exact hm
  have := readLoop_num cfg hr ha pieces
    { last, num, readLen := if 0 < num ∧ num < (cfg.mts : Int) then num.toNat else cfg.mts } hnum hlen hconf htags hend
  simpa using this

-- non-vacuity: 5-byte reply in pieces 2+1+2, `num = 3`: the first two transfers are consumed, the third is left
example : (readRaw { mts := 4 } 0 3 [.data [2, 1, 254, 0, 2, 0, 0, 0, 0, 0, 0, 0, 10, 11], .data [2, 2, 253, 0, 1, 0, 0, 0, 0, 0, 0, 0, 12],
      .data [2, 3, 252, 0, 2, 0, 0, 0, 1, 0, 0, 0, 13, 14]]).res.toOption = some [10, 11, 12]
    ∧ (readRaw { mts := 4 } 0 3 [.data [2, 1, 254, 0, 2, 0, 0, 0, 0, 0, 0, 0, 10, 11], .data [2, 2, 253, 0, 1, 0, 0, 0, 0, 0, 0, 0, 12],
      .data [2, 3, 252, 0, 2, 0, 0, 0, 1, 0, 0, 0, 13, 14]]).left.length = 1 := by decide

/-- **No wrong data, ever**: for every script of Bulk-IN outcomes whatsoever (valid, corrupted, truncated, endpoint errors),
`read_raw()` returns data exactly when the USBTMC §3.3 host rule `hostSpec` yields a message, and then that message; in all
other cases it raises. -/
theorem readRaw_refines_hostSpec (cfg : Cfg) (hr : cfg.rigol = false) (ha : cfg.advantest = false)
    (hm : cfg.mts < 4294967296) (last : Nat) (num : Int) (hnum : num ≤ 0) (script : List Ev) :
    (readRaw cfg last num script).res.toOption = hostSpec cfg.checkHdr last script [] := by
  have hn : ¬ (0 < num ∧ num < (cfg.mts : Int)) := by omega
  simp only [readRaw, hn, if_false]
  exact readLoop_refines_hostSpec cfg hr ha script { last, num, readLen := cfg.mts } hnum hm

/-- a reply that never reaches EOM raises (USB time-out after the last transfer, abort sequence names the last tag) -/
theorem readRaw_incomplete_times_out (cfg : Cfg) (hr : cfg.rigol = false) (ha : cfg.advantest = false)
    (hm : cfg.mts < 4294967296) (last : Nat) (num : Int) (hnum : num ≤ 0) (pieces : List Piece)
    (hall : ∀ p ∈ pieces, p.eom = false ∧ p.payload.length < 4294967296) (htags : TagsOk cfg last pieces) :
    (readRaw cfg last num (pieces.map (fun p => Ev.data p.bytes))).res = .error .usbTimeout
    ∧ (readRaw cfg last num (pieces.map (fun p => Ev.data p.bytes))).abortTag = some (tagAfter last (pieces.length + 1)) := by
  have hn : ¬ (0 < num ∧ num < (cfg.mts : Int)) := by omega
  simp only [readRaw, hn, if_false]
  exact readLoop_incomplete cfg hr ha pieces { last, num, readLen := cfg.mts } hnum hm hall htags

example : (readRaw { mts := 8 } 3 (-1) [.data [2, 4, 251, 0, 2, 0, 0, 0, 0, 0, 0, 0, 7, 8]]).res.toOption = none
    ∧ (readRaw { mts := 8 } 3 (-1) [.data [2, 4, 251, 0, 2, 0, 0, 0, 0, 0, 0, 0, 7, 8]]).abortTag = some 5 := by decide

/-- header corruption: a first transfer shorter than the 12-byte header raises `struct.error`, no data is returned -/
theorem readRaw_short_header_errors (cfg : Cfg) (hr : cfg.rigol = false) (hm : cfg.mts < 4294967296)
    (last : Nat) (num : Int) (resp : Bytes) (h : resp.length < 12) (script : List Ev) :
    (readRaw cfg last num (.data resp :: script)).res = .error .structError := by
  simp only [readRaw]
  apply readLoop_short_header cfg hr _ _ resp h
  simp only []
  split
  · rename_i h'; omega
  · exact hm


example : (readRaw { mts := 8 } 3 (-1) [.data [2, 4, 251, 0, 2, 0, 0]]).res.toOption = none := by decide

/-- USBTMC 1.0 §3.3.1.1: a transfer that carries fewer data bytes than its TransferSize claims (a corrupted length
field, or a short packet) never completes the message, whatever its EOM bit says: `read_raw` asks for more and, when
nothing comes, raises (no data is returned). -/
theorem readRaw_partial_transfer_never_completes (cfg : Cfg) (hr : cfg.rigol = false) (ha : cfg.advantest = false)
    (hm : cfg.mts < 4294967296) (last : Nat) (num : Int) (hnum : num ≤ 0)
    (h0 h1 h2 h3 attr r1 r2 r3 : UInt8) (ts : Nat) (body : Bytes) (hts : ts < 4294967296) (hshort : body.length < ts) :
    (readRaw cfg last num [.data (h0 :: h1 :: h2 :: h3 :: (le32 ts ++ (attr :: r1 :: r2 :: r3 :: body)))]).res.toOption
      = none := by
  rw [readRaw_refines_hostSpec cfg hr ha hm last num hnum]
  have htake : body.take ts = body := List.take_of_length_le (by omega)
  have hge : ¬ (ts ≤ body.length) := by omega
  simp only [hostSpec, le32, List.cons_append, List.nil_append, unpackResp, unLe32_le32 _ hts, htake]
  split
  · rfl
  · simp [hge, hostSpec]

example : (readRaw { mts := 8 } 3 (-1) [.data [2, 4, 251, 0, 9, 0, 0, 0, 1, 0, 0, 0, 7, 8]]).res.toOption = none := by decide

/-! ### Quirk read paths (non-conforming devices the code has special cases for) -/

/-- Advantest quirk: exactly one transfer is taken and its data returned, whether or not the device set EOM (these
devices never do); the following transfers are not touched. -/
theorem readRaw_advantest_single (cfg : Cfg) (hr : cfg.rigol = false) (ha : cfg.advantest = true)
    (hm : cfg.mts < 4294967296) (last : Nat) (num : Int) (p : Piece) (hp : p.payload.length < 4294967296)
    (script : List Ev) :
    (readRaw cfg last num (.data p.bytes :: script)).res = .ok p.payload
    ∧ (readRaw cfg last num (.data p.bytes :: script)).left = script
    ∧ (readRaw cfg last num (.data p.bytes :: script)).rs.reqs.length = 1 := by
  have hlen : (if 0 < num ∧ num < (cfg.mts : Int) then num.toNat else cfg.mts) < 4294967296 := by
    split
    · omega
    · exact hm
  simp only [readRaw]
  obtain ⟨h1, h2, h3⟩ := readLoop_advantest cfg hr ha
    { last, num, readLen := if 0 < num ∧ num < (cfg.mts : Int) then num.toNat else cfg.mts } hlen p hp script
  exact ⟨by simpa using h1, h2, by rw [h3]; simp⟩

example : (readRaw { mts := 63, advantest := true } 0 (-1) [.data [2, 1, 254, 0, 2, 0, 0, 0, 0, 0, 0, 0, 7, 8], .data [9]]).res.toOption
    = some [7, 8] := by decide

/-- RIGOL quirk, general form: the first packet carries the only header; the loop then waits for `T` bytes in all
(`T` = the header's TransferSize, or what the IEEE-block sub-quirk reads from the data), appending the header-less
packets that follow, and returns exactly the first `T` bytes of what the device sent — one request only.
Needed of the device: at least one data byte in the first packet, and the `T` bytes do arrive. -/
theorem readRaw_rigol_reassembles_general (cfg : Cfg) (hr : cfg.rigol = true) (ha : cfg.advantest = false)
    (hm : cfg.mts < 4294967296) (last : Nat) (num : Int) (hnum : num ≤ 0)
    (h0 h1 h2 h3 attr r1 r2 r3 : UInt8) (total : Nat) (body : Bytes) (htot : total < 4294967296)
    (hok : cfg.checkHdr = true → h0.toNat = MSGID_REQUEST_DEV_DEP_MSG_IN ∧ h1.toNat = nextTag last ∧ h2.toNat = invTag h1.toNat)
    (T : Nat) (hsz : ieeeSize cfg (body.take total) total = .ok (T : Int))
    (conts : List Bytes) (extra : List Ev)
    (hb0 : body.take total ≠ []) (hge : (body.take total ++ conts.flatten).length ≥ T) :
    (readRaw cfg last num (.data (rigolFirst h0 h1 h2 h3 attr r1 r2 r3 total body) :: (conts.map Ev.data ++ extra))).res
        = .ok ((body.take total ++ conts.flatten).take T)
    ∧ (readRaw cfg last num (.data (rigolFirst h0 h1 h2 h3 attr r1 r2 r3 total body) :: (conts.map Ev.data ++ extra))).rs.reqs.length = 1
    ∧ (readRaw cfg last num (.data (rigolFirst h0 h1 h2 h3 attr r1 r2 r3 total body) :: (conts.map Ev.data ++ extra))).rs.last
        = nextTag last := by
  have hn : ¬ (0 < num ∧ num < (cfg.mts : Int)) := by omega
  simp only [readRaw, hn, if_false]
  rw [readLoop_rigol_first cfg hr ha { last, num, readLen := cfg.mts } rfl hnum hm h0 h1 h2 h3 attr r1 r2 r3 total body htot
    hok T hsz]
  by_cases h : (body.take total).length ≥ T
  · rw [if_pos h]
    refine ⟨?_, by simp [rsReq], by simp [rsReq]⟩
    rw [List.take_append_of_le_length h]
  · rw [if_neg h]
    have := readLoop_rigol_conts cfg hr ha conts
      { rsReq cfg { last, num, readLen := cfg.mts } with readData := body.take total, ts := T, data := body.take total } extra
      hb0 hnum (by simpa using h) hge
    obtain ⟨g1, g2, g3⟩ := this
    exact ⟨g1, by rw [g2]; simp [rsReq], by rw [g3]; simp [rsReq]⟩

/-- RIGOL quirk without the IEEE-block sub-quirk (or data that do not start with `#`): the message is the first
`TransferSize` bytes of first-packet data ++ continuation packets. -/
theorem readRaw_rigol_reassembles (cfg : Cfg) (hr : cfg.rigol = true) (ha : cfg.advantest = false)
    (hm : cfg.mts < 4294967296) (last : Nat) (num : Int) (hnum : num ≤ 0)
    (h0 h1 h2 h3 attr r1 r2 r3 : UInt8) (total : Nat) (body : Bytes) (htot : total < 4294967296)
    (hok : cfg.checkHdr = true → h0.toNat = MSGID_REQUEST_DEV_DEP_MSG_IN ∧ h1.toNat = nextTag last ∧ h2.toNat = invTag h1.toNat)
    (hi : cfg.rigolIeee = false ∨ (body.take total).head? ≠ some 35)
    (conts : List Bytes) (extra : List Ev)
    (hb0 : body.take total ≠ []) (hge : (body.take total ++ conts.flatten).length ≥ total) :
    (readRaw cfg last num (.data (rigolFirst h0 h1 h2 h3 attr r1 r2 r3 total body) :: (conts.map Ev.data ++ extra))).res
        = .ok ((body.take total ++ conts.flatten).take total) := by
  have hsz : ieeeSize cfg (body.take total) total = .ok (total : Int) := by
    rcases hi with hi | hi
    · exact ieeeSize_off cfg hi _ _
    · exact ieeeSize_nohash cfg _ _ hi
  exact (readRaw_rigol_reassembles_general cfg hr ha hm last num hnum h0 h1 h2 h3 attr r1 r2 r3 total body htot hok total hsz
    conts extra hb0 hge).1

-- non-vacuity: 5-byte message, header says 5, first packet carries 2 bytes, two raw continuation packets (the last with
-- 3 trailing bytes that are cut off)
example : (readRaw { mts := 64, rigol := true } 9 (-1)
    [.data [2, 10, 245, 0, 5, 0, 0, 0, 1, 0, 0, 0, 65, 66], .data [67], .data [68, 69, 0, 0, 0]]).res.toOption
      = some [65, 66, 67, 68, 69] := by decide

/-- RIGOL IEEE-block sub-quirk: when the data of the first packet start with a block header `#<l><n as l digits>`, the
size of the message is `n + l + 2` whatever the USBTMC header claims, and exactly that many bytes are returned. -/
theorem readRaw_rigol_ieee_block (cfg : Cfg) (hr : cfg.rigol = true) (ha : cfg.advantest = false)
    (hie : cfg.rigolIeee = true) (hm : cfg.mts < 4294967296) (last : Nat) (num : Int) (hnum : num ≤ 0)
    (h0 h1 h2 h3 attr r1 r2 r3 : UInt8) (total : Nat) (htot : total < 4294967296)
    (hok : cfg.checkHdr = true → h0.toNat = MSGID_REQUEST_DEV_DEP_MSG_IN ∧ h1.toNat = nextTag last ∧ h2.toNat = invTag h1.toNat)
    (k : UInt8) (ds rest : Bytes) (hk1 : 49 ≤ k.toNat) (hk9 : k.toNat ≤ 57) (hlen : ds.length = k.toNat - 48)
    (hds : ∀ x ∈ ds, isDigit x = true) (hfit : (35 :: k :: (ds ++ rest)).length ≤ total)
    (conts : List Bytes) (extra : List Ev)
    (hge : ((35 :: k :: (ds ++ rest)) ++ conts.flatten).length ≥ decVal ds + (k.toNat - 48) + 2) :
    (readRaw cfg last num (.data (rigolFirst h0 h1 h2 h3 attr r1 r2 r3 total (35 :: k :: (ds ++ rest)))
        :: (conts.map Ev.data ++ extra))).res
      = .ok (((35 :: k :: (ds ++ rest)) ++ conts.flatten).take (decVal ds + (k.toNat - 48) + 2)) := by
  have htake : (35 :: k :: (ds ++ rest)).take total = 35 :: k :: (ds ++ rest) := List.take_of_length_le hfit
  have hsz := ieeeSize_block cfg hie k ds rest total hk1 hk9 hlen hds
  have := readRaw_rigol_reassembles_general cfg hr ha hm last num hnum h0 h1 h2 h3 attr r1 r2 r3 total
    (35 :: k :: (ds ++ rest)) htot hok (decVal ds + (k.toNat - 48) + 2) (by rw [htake]; exact hsz) conts extra
    (by rw [htake]; simp) (by rw [htake]; exact hge)
  rw [htake] at this
  exact this.1

-- non-vacuity: block "#15hello" — the USBTMC header claims 20 bytes, the block header says 5 + 1 + 2 = 8
example : (readRaw { mts := 64, rigol := true, rigolIeee := true } 9 (-1)
    [.data [2, 10, 245, 0, 20, 0, 0, 0, 1, 0, 0, 0, 35, 49, 53, 104, 101], .data [108, 108, 111, 10, 0]]).res.toOption
      = some [35, 49, 53, 104, 101, 108, 108, 111] := by decide

/-! ### Sessions: `ask_raw`, `trigger`, abort sequences — the bTag state across calls -/

/-- **session_tags_cycle**: whatever is called on one instrument in whatever order (`write_raw`, `read_raw`, `ask_raw`,
`trigger`), with any endpoint faults, any abort sequences in between and any device behaviour, the Bulk-OUT headers put
on the wire carry consecutive tags of the 1..255 cycle — never 0, never the previous tag again — and `last_btag` ends as
the tag of the last header.  In particular an abort does not disturb the framing of the next message. -/
theorem session_tags_cycle (cfg : Cfg) (hm : cfg.mts < 4294967296) (calls : List Call) (last : Nat) :
    (session cfg last calls).2.map tagOf = tagsFrom last (session cfg last calls).2.length
    ∧ (session cfg last calls).1 = tagAfter last (session cfg last calls).2.length
    ∧ ∀ t ∈ (session cfg last calls).2.map tagOf, t ≠ some 0 := by
  obtain ⟨h1, h2⟩ := session_tags cfg hm calls last
  refine ⟨h1, h2, ?_⟩
  rw [h1]
  exact tagsFrom_nonzero _ _

example : (session { mts := 2 } 254
    [.write [1, 2, 3] (some (1, true)) [1, 2, 1], .trigger true, .read (-1) [.timeout] [1], .write [9] none []]).2.map tagOf
      = [some 255, some 1, some 2, some 3, some 4] := by decide

/-- the abort sequences run on the control endpoint only: they leave `last_btag` and everything put on Bulk-OUT as the
plain call left them, and they name the tag of the transfer that timed out -/
theorem abort_keeps_framing_state (cfg : Cfg) (f : Option (Nat × Bool)) (last : Nat) (d : Bytes) (num : Int) (script : List Ev)
    (ctrl : List Nat) :
    (writeRawA cfg.mts f last d ctrl).1 = writeRaw cfg.mts f last d
    ∧ (readRawA cfg last num script ctrl).1.rs = (readRaw cfg last num script).rs
    ∧ (∀ t, (writeRaw cfg.mts f last d).abortTag = some t → t = (writeRaw cfg.mts f last d).last
        ∧ (writeRawA cfg.mts f last d ctrl).2.1.ctrl.head? = some (1, t)) := by
  refine ⟨writeRawA_fst _ _ _ _ _, readRawA_frame _ _ _ _ _, ?_⟩
  intro t ht
  constructor
  · exact writeRaw_abortTag _ _ _ _ t ht
  · simp only [writeRawA, ht, abortOut]
    cases hps : popStatus ctrl with
    | mk s0 c1 =>
      simp only []
      split <;> simp

/-- `trigger()` on a USB488 device: a 12-byte Bulk-OUT message MsgID 128, next tag, its complement, nine zero bytes -/
theorem trigger_usb488_frame (mts last : Nat) :
    (trigger true mts last).sent
      = [[128, UInt8.ofNat (nextTag last), UInt8.ofNat (255 - nextTag last), 0, 0, 0, 0, 0, 0, 0, 0, 0]]
    ∧ (trigger true mts last).last = nextTag last := by
  have := nextTag_le last
  simp only [trigger, packTrigger, if_true, bulkOutHeader, invTag, USB488_MSGID_TRIGGER]
  rw [Nat.mod_eq_of_lt (by omega)]
  simp

/-- `ask_raw`: the device decodes exactly the query, and the driver receives exactly the reply, however it is split —
the two halves share one tag sequence. -/
theorem askRaw_roundtrip (cfg : Cfg) (hr : cfg.rigol = false) (ha : cfg.advantest = false)
    (hm1 : 1 ≤ cfg.mts) (hm : cfg.mts < 4294967296) (last : Nat) (hlast : last ≤ 255) (d : Bytes) (hd : d ≠ [])
    (dv : Dev) (hprev : dv.prev ≠ some (nextTag last)) (hacc : dv.acc = [])
    (num : Int) (hnum : num ≤ 0) (pieces : List Piece) (lastP : Piece) (ctrl : List Nat)
    (hall : ∀ p ∈ pieces, p.eom = false ∧ p.payload.length < 4294967296)
    (he : lastP.eom = true) (hp : lastP.payload.length < 4294967296)
    (htags : TagsOk cfg (writeRaw cfg.mts none last d).last (pieces ++ [lastP])) :
    ∃ w wa r ra, askRaw cfg last d num none ((pieces ++ [lastP]).map (fun p => Ev.data p.bytes)) ctrl = ((w, wa), some (r, ra))
      ∧ dv.run w.sent = some { prev := some w.last, acc := [], msgs := dv.msgs ++ [d] }
      ∧ r.res = .ok ((pieces ++ [lastP]).map Piece.payload).flatten := by
  obtain ⟨e1, e2, _, _⟩ := device_decodes_write cfg.mts last d dv hm1 (by omega) hlast hprev hacc hd
  have hre := readRaw_reassembles cfg hr ha hm (writeRaw cfg.mts none last d).last num hnum pieces lastP [] hall he hp htags
  simp only [List.append_nil] at hre
  have hwa : writeRawA cfg.mts none last d ctrl = (writeRaw cfg.mts none last d, {}, ctrl) := by
    simp only [writeRawA, writeRaw_nofault_no_abort]
  have hro := readRawA_ok cfg (writeRaw cfg.mts none last d).last num ((pieces ++ [lastP]).map (fun p => Ev.data p.bytes)) ctrl _ hre.1
  simp only [askRaw, hwa, e1]
  generalize hq : readRawA cfg (writeRaw cfg.mts none last d).last num ((pieces ++ [lastP]).map (fun p => Ev.data p.bytes)) ctrl = q
  obtain ⟨r, ra, c'⟩ := q
  rw [hq] at hro
  simp only at hro
  exact ⟨_, _, r, ra, rfl, e2, by rw [hro]; exact hre.1⟩

/-! ### `read_stb`, `clear`, and the degenerate `max_transfer_size = 0` -/

/-- `read_stb()` hands out a status byte only if the control response reports success and repeats the request's tag, and
(when the interface has an interrupt endpoint) the interrupt packet carries that tag with bit 7 set; everything else
raises.  The tag stays within 2..128. -/
theorem readStb_sound (lastRstb b0 b1 b2 : Nat) (intr : Option (Nat × Nat)) (v : Nat)
    (h : (readStb lastRstb b0 b1 b2 intr).res = .ok v) :
    b0 = STATUS_SUCCESS ∧ b1 = nextRstbTag lastRstb
    ∧ (match intr with | none => v = b2 | some (r0, r1) => r0 = nextRstbTag lastRstb + 128 ∧ v = r1)
    ∧ 2 ≤ nextRstbTag lastRstb ∧ nextRstbTag lastRstb ≤ 128 := by
  have hr : 2 ≤ nextRstbTag lastRstb ∧ nextRstbTag lastRstb ≤ 128 := by
    simp only [nextRstbTag]; split <;> omega
  simp only [readStb] at h
  split at h
  · rename_i h0
    split at h
    · simp at h
    · rename_i h1
      have h1' : b1 = nextRstbTag lastRstb := by
        have : ¬ nextRstbTag lastRstb ≠ b1 := h1
        omega
      cases intr with
      | none =>
        simp only [Except.ok.injEq] at h
        exact ⟨h0, h1', h.symm, hr⟩
      | some p =>
        obtain ⟨r0, r1⟩ := p
        simp only [] at h
        split at h
        · simp at h
        · rename_i h2
          simp only [Except.ok.injEq] at h
          exact ⟨h0, h1', ⟨by omega, h.symm⟩, hr⟩
  · simp at h

/-- Observation outside the statement of C15 (USB488 §4.3.1 wants the READ_STATUS_BYTE tag in 2..127): after tag 127 the
code uses 128, for which the interrupt-packet test `resp[0] == tag + 128` can never hold. -/
theorem rstb_tag_128_witness : nextRstbTag 127 = 128
    ∧ ∀ r0 r1 b2, r0 < 256 → (readStb 127 1 128 b2 (some (r0, r1))).res.toOption = none := by
  refine ⟨by decide, ?_⟩
  intro r0 r1 b2 hr
  have : r0 ≠ 256 := by omega
  simp [readStb, nextRstbTag, STATUS_SUCCESS, this, Except.toOption]

/-- `clear()` never touches the bTag state (it has no access to it in the model: `clearSeq` does not take it), polls
CHECK_CLEAR_STATUS at least once after a successful INITIATE_CLEAR, and clears the Bulk-OUT halt exactly when
INITIATE_CLEAR succeeded; otherwise it raises. -/
theorem clearSeq_outcome (force : Bool) (ctrl : List Nat) :
    ((clearSeq force ctrl).exc = none ↔ ctrl.head? = some STATUS_SUCCESS)
    ∧ ((clearSeq force ctrl).clearedOut = true ↔ ctrl.head? = some STATUS_SUCCESS)
    ∧ ((clearSeq force ctrl).clearedIn = true ↔ (ctrl.head? = some STATUS_SUCCESS ∧ force = true)) := by
  cases ctrl with
  | nil => simp [clearSeq, popStatus, STATUS_SUCCESS]
  | cons s r =>
    by_cases h : s = STATUS_SUCCESS
    · simp [clearSeq, popStatus, h]
    · simp [clearSeq, popStatus, h]

/-- `max_transfer_size = 0` is not a configuration the code ever sets (1 MiB, or 63 for Advantest devices); with it
`write_raw` of a non-empty payload never returns (each block is empty, `num` never shrinks).  Recorded as a fact of the
model, checked against the real loop with an I/O budget; not a finding: C15 quantifies over payloads, not over this
attribute. -/
theorem writeRaw_mts0_never_returns (fault : Option (Nat × Bool)) (last : Nat) (d : Bytes) (hd : d ≠ []) :
    (writeRaw 0 fault last d).exc = some .hang := by
  have : d.isEmpty = false := by cases d <;> simp_all
  simp [writeRaw, this]

/-! ### Header integrity of Bulk-IN transfers (USBTMC 1.0 Table 8) — a genuine defect of the pinned tree

FULL STATEMENT (what C15 asks for; **false** of the pinned tree):

    theorem readRaw_rejects_header_mismatch (cfg : Cfg) (ha : cfg.advantest = false) … :
        unpackResp resp = some (m, t, ti, ts, a, d) →
        (m.toNat ≠ 2 ∨ t.toNat ≠ nextTag last ∨ ti.toNat ≠ invTag t.toNat) →
        (readRaw cfg last num (.data resp :: script)).res = .error .usbtmcMismatch

`read_raw` of the pinned tree never looks at MsgID / bTag / bTagInverse, so the late answer to an earlier (timed-out)
request, or what is left of a reply after a transfer was lost, is handed to the driver as the answer to the current
request.  `readRaw_tag_fields_unchecked` and `readRaw_stale_reply_accepted` are the negation witnesses (replayed on the
real code by the harness: known finding `u.read:bulk-in-header-mismatch-accepted:*`).  What is proved is the statement for
a tree that does check (`cfg.checkHdr = true`, the repair drafted in fixes/C15-usbtmc-bulk-in-header-check.diff); the
harness probes the code under test on every run and passes the answer to the model, so the theorems below are the ones
that apply as soon as the repair is in. -/

/-- Missing hypothesis w.r.t. the full statement: `cfg.checkHdr = true` (the tree validates the header). -/
theorem readRaw_rejects_header_mismatch_partial (cfg : Cfg) (hc : cfg.checkHdr = true) (ha : cfg.advantest = false)
    (hm : cfg.mts < 4294967296) (last : Nat) (num : Int) (resp : Bytes) (script : List Ev)
    (m t ti a : UInt8) (ts : Nat) (d : Bytes) (hu : unpackResp resp = some (m, t, ti, ts, a, d))
    (hbad : m.toNat ≠ MSGID_REQUEST_DEV_DEP_MSG_IN ∨ t.toNat ≠ nextTag last ∨ ti.toNat ≠ invTag t.toNat) :
    (readRaw cfg last num (.data resp :: script)).res = .error .usbtmcMismatch := by
  have hlen : (if 0 < num ∧ num < (cfg.mts : Int) then num.toNat else cfg.mts) < 4294967296 := by
    split
    · omega
    · exact hm
  simp only [readRaw]
  rw [readLoop]
  rw [reqStep_ok cfg _ (Or.inr rfl) hlen]
  have hcond : (m.toNat != MSGID_REQUEST_DEV_DEP_MSG_IN || t.toNat != nextTag last || ti.toNat != invTag t.toNat) = true := by
    rcases hbad with h | h | h <;> simp [h]
  simp [absorb, rsReq, hu, hc, ha, hcond]

-- non-vacuity, and the stale-reply scenario on a checking tree: the late answer (bTag 5) to the previous request raises
example : (readRaw { mts := 64, checkHdr := true } 5 (-1)
      [.data [2, 5, 250, 0, 5, 0, 0, 0, 1, 0, 0, 0, 83, 84, 65, 76, 69], .data [2, 6, 249, 0, 2, 0, 0, 0, 1, 0, 0, 0, 79, 75]]).res.toOption = none
    ∧ (readRaw { mts := 64, checkHdr := true } 5 (-1)
      [.data [2, 6, 249, 0, 2, 0, 0, 0, 1, 0, 0, 0, 79, 75]]).res.toOption = some [79, 75] := by decide

/-- Negation witness 1 (pinned tree, `checkHdr = false`): a reply whose MsgID is not DEV_DEP_MSG_IN, whose bTag is not the
request's and whose bTagInverse is not the complement is accepted.  (Also an instance of `readRaw_reassembles`, whose
`Piece`s have arbitrary first four bytes when nothing is checked.) -/
theorem readRaw_tag_fields_unchecked :
    ∃ reply : Bytes, reply.take 3 = [99, 77, 77]
      ∧ (readRaw { mts := 1024 } 5 (-1) [.data reply]).res.toOption = some [1, 2, 3] :=
  ⟨[99, 77, 77, 1, 3, 0, 0, 0, 1, 0, 0, 0, 1, 2, 3, 0], by decide, by decide⟩

/-- Negation witness 2 (pinned tree): wrong data.  `last_btag = 5`; the device first delivers the late answer "STALE" to
the previous request (bTag 5), then the answer "OK" to the current one (bTag 6): `read_raw()` returns "STALE" and leaves
the real answer behind for the next call. -/
theorem readRaw_stale_reply_accepted :
    (readRaw { mts := 64 } 5 (-1)
      [.data [2, 5, 250, 0, 5, 0, 0, 0, 1, 0, 0, 0, 83, 84, 65, 76, 69], .data [2, 6, 249, 0, 2, 0, 0, 0, 1, 0, 0, 0, 79, 75]]).res.toOption
      = some [83, 84, 65, 76, 69]
    ∧ (readRaw { mts := 64 } 5 (-1)
      [.data [2, 5, 250, 0, 5, 0, 0, 0, 1, 0, 0, 0, 83, 84, 65, 76, 69], .data [2, 6, 249, 0, 2, 0, 0, 0, 1, 0, 0, 0, 79, 75]]).left.length = 1 := by
  decide

end UsbtmcSec
end QmiModel.C15
