import QmiModel.Model.WakeSys
import QmiModel.Lemmas.C11
import QmiModel.Props.C11BigA
import QmiModel.Props.C11BigB
import QmiModel.Props.C11BigC
import QmiModel.Props.C11BigD0
import QmiModel.Props.C11BigD1
import QmiModel.Props.C11BigD2
import QmiModel.Props.C11BigD3
import QmiModel.Props.C11BigD4
import QmiModel.Props.C11BigD5
import QmiModel.Props.C11BigD6
import QmiModel.Props.C11BigD7
import QmiModel.Props.C11BigE
import QmiModel.Props.C11BigF0
import QmiModel.Props.C11BigF1
import QmiModel.Props.C11BigG0
import QmiModel.Props.C11BigG1
/-!
# C11 — a stop request always wakes a waiting task

Property theorems only.  The *programs* the theorems talk about are `QmiModel.Gen.SyncProgs` — regenerated from
`qmi/core/task.py` and `qmi/core/pubsub.py` on every run — so every obligation below is re-checked against the current
source: each `cert_*` is evaluated by the kernel (`decide +kernel`: the reachable set of the system is *computed* by the
model's `explore`, then closure under every thread's step and the state predicates are checked on it) and lifted to **all
runs, of any length, under every interleaving** by the generic `closure_sound`.

Systems (thread 0 = the task thread, which waits again and again; see `Model/WakeSys.lean`):

* `sysSleep`  — `self.sleep(d)`, one stop request
* `sysRecvN`  — `get_next_signal(None)`, one stop request, a signal publisher that may notify at any time
* `sysRecvT`  — `get_next_signal(t)` (time-outs caught, loop continues), one stop request, a publisher
* `sysLoop`   — `QMI_LoopTask.run` (period sleep, missed-period policies incl. self-stop), one stop request
* `sysSleep2` — `self.sleep(d)`, two concurrent stop requests (`stop()` and `_request_shutdown`)
* `sysAny`, `sysTwo`, `sysLoop2`, `sysAnyTwo` — free mixture of the three waits + publisher; two stop requests against
  `get_next_signal(None)`; the loop task with two stop requests; free mixture + two stop requests + publisher (4.6k
  states).  Their reachable sets are not computed by the kernel but supplied as tables (`Gen/WakeCert.lean`, written by
  the compiled driver on every run) and *checked* chunk by chunk (`Props/C11Big*.lean`, glued by `cert_chunks_sound`)
* `sysShareN`, `sysShareT` — as `sysRecvN` / `sysRecvT` (the latter with the publisher) plus a **bystander** blocked on the
  same receiver condition (a plain thread or another task sharing the receiver), which may park before or after the task:
  conditions keep their waiters in FIFO order and `notify(n)` wakes the `n` oldest only
* `sysRecv2` — a task that blocks on **two receivers in sequence** (free choice each time; waits end by signal or stop),
  one stop request, a publisher serving both: `_wait_cond` holds the *identity* of the registered condition
* `sysLoopW` — the loop task whose `loop_iteration` / `process_new_settings` / `publish_signals` may themselves wait
  (`sleep`, `get_next_signal(None | t)`): the hooks are calls from the generated `run()` into bodies supplied by the system
* `sysEarly st n` — stop request(s) for a task thread that is not inside `task.run()` (`_state = st`)

What "interleaving" means: every operation on a shared object (lock, condition, event, `_wait_cond` slot) is one step;
thread-local control flow is fused into the preceding step.  Time is abstract (a timed wait may time out whenever its lock
is free), so "is released without waiting out its timeout" is stated as: the release does not depend on any time-out step.
-/
namespace QmiModel.C11
open QmiModel.Wake QmiModel.Wake.Systems

/-! ## the state predicates, as propositions -/

/-- a stop request has completed, the flag is set, the task is parked (with or without timeout) and no notification is
    pending: it would wait out its timeout, or for ever -/
def LostWakeup (sys : Sys) (s : St) : Prop := lostWakeup sys s = true

/-- the task thread is parked in a wait -/
def TaskParked (s : St) : Prop := ∃ t, taskTh s = some t ∧ t.isParked = true

/-! ## per-system obligations — re-evaluated by the kernel whenever `Gen/SyncProgs.lean` changes -/

set_option maxRecDepth 200000 in
theorem cert_sleep : certB sysSleep (goodWaiter sysSleep) = true := by decide +kernel

set_option maxRecDepth 200000 in
theorem cert_recvN : certB sysRecvN (goodWaiter sysRecvN) = true := by decide +kernel

set_option maxRecDepth 200000 in
theorem cert_recvT : certB sysRecvT (goodWaiter sysRecvT) = true := by decide +kernel

set_option maxRecDepth 200000 in
theorem cert_loop : certB sysLoop (goodLoop sysLoop) = true := by decide +kernel

set_option maxRecDepth 200000 in
theorem cert_sleep2 : certB sysSleep2 (goodWaiter sysSleep2) = true := by decide +kernel

/-! `stop_task` reached in the other states of the task thread (`_TaskThread._state`), through the generated
`QMI_TaskRunner.stop` and `_TaskThread._request_shutdown`: not started yet (two concurrent requests), construction
failed, and already ended (normally / by an exception / stopped before start). -/

set_option maxRecDepth 200000 in
theorem cert_state_initial : certB (sysEarly Gen.SyncProgs.stInitial 1) (earlyGood (sysEarly Gen.SyncProgs.stInitial 1) Gen.SyncProgs.stInitial) = true := by
  decide +kernel

set_option maxRecDepth 200000 in
theorem cert_state_ready : certB (sysEarly Gen.SyncProgs.stReady 2) (earlyGood (sysEarly Gen.SyncProgs.stReady 2) Gen.SyncProgs.stReady) = true := by
  decide +kernel

set_option maxRecDepth 200000 in
theorem cert_state_exc_init : certB (sysEarly Gen.SyncProgs.stExcInit 1) (earlyGood (sysEarly Gen.SyncProgs.stExcInit 1) Gen.SyncProgs.stExcInit) = true := by
  decide +kernel

set_option maxRecDepth 200000 in
theorem cert_state_completed : certB (sysEarly Gen.SyncProgs.stCompleted 2) (earlyGood (sysEarly Gen.SyncProgs.stCompleted 2) Gen.SyncProgs.stCompleted) = true := by
  decide +kernel

set_option maxRecDepth 200000 in
theorem cert_state_exc_run : certB (sysEarly Gen.SyncProgs.stExcRun 1) (earlyGood (sysEarly Gen.SyncProgs.stExcRun 1) Gen.SyncProgs.stExcRun) = true := by
  decide +kernel

set_option maxRecDepth 200000 in
theorem cert_state_stopped : certB (sysEarly Gen.SyncProgs.stStoppedBeforeStart 1) (earlyGood (sysEarly Gen.SyncProgs.stStoppedBeforeStart 1) Gen.SyncProgs.stStoppedBeforeStart) = true := by
  decide +kernel

/-- **`stop_task` is total over the states of the task thread.**  Whatever `_state` is when the stop request(s) arrive —
    through `QMI_TaskRunner.stop` or `_request_shutdown` — no thread dies of an assertion or a misuse of a primitive, the
    requests never block for ever, and once they have all returned `_state` is "stopped before start" if the task had not
    been started (so `run()` is never called and the task never waits) and unchanged otherwise; for a task that had been
    started (running or ended) the flag is set, for one whose construction failed it is not touched. -/
theorem stop_task_total {st n : Nat}
    (h : (st, n) ∈ [(Gen.SyncProgs.stInitial, 1), (Gen.SyncProgs.stReady, 2), (Gen.SyncProgs.stExcInit, 1),
                    (Gen.SyncProgs.stCompleted, 2), (Gen.SyncProgs.stExcRun, 1), (Gen.SyncProgs.stStoppedBeforeStart, 1)]) :
    ∀ s, Reach (sysEarly st n) s → earlyGood (sysEarly st n) st s = true := by
  simp only [List.mem_cons, Prod.mk.injEq, List.not_mem_nil, or_false] at h
  rcases h with ⟨rfl, rfl⟩ | ⟨rfl, rfl⟩ | ⟨rfl, rfl⟩ | ⟨rfl, rfl⟩ | ⟨rfl, rfl⟩ | ⟨rfl, rfl⟩
  · exact cert_sound cert_state_initial
  · exact cert_sound cert_state_ready
  · exact cert_sound cert_state_exc_init
  · exact cert_sound cert_state_completed
  · exact cert_sound cert_state_exc_run
  · exact cert_sound cert_state_stopped


/-! ## the larger systems: chunk-wise checked certificates (`Props/C11Big*.lean`) glued by `cert_chunks_sound` -/
open QmiModel.Gen.WakeCert in
theorem any_good : ∀ s, Reach sysAny s → goodWaiter sysAny s = true := by
  refine cert_chunks_sound any_init ?_
  intro j hj
  have hl : certAny.length = 3 := by decide +kernel
  rw [hl] at hj
  match j, hj with
    | 0, _ => exact any_chunk_0
    | 1, _ => exact any_chunk_1
    | 2, _ => exact any_chunk_2
    | n + 3, h => omega

open QmiModel.Gen.WakeCert in
theorem two_good : ∀ s, Reach sysTwo s → goodWaiter sysTwo s = true := by
  refine cert_chunks_sound two_init ?_
  intro j hj
  have hl : certTwo.length = 4 := by decide +kernel
  rw [hl] at hj
  match j, hj with
    | 0, _ => exact two_chunk_0
    | 1, _ => exact two_chunk_1
    | 2, _ => exact two_chunk_2
    | 3, _ => exact two_chunk_3
    | n + 4, h => omega

open QmiModel.Gen.WakeCert in
theorem loop2_good : ∀ s, Reach sysLoop2 s → goodLoop sysLoop2 s = true := by
  refine cert_chunks_sound loop2_init ?_
  intro j hj
  have hl : certLoop2.length = 4 := by decide +kernel
  rw [hl] at hj
  match j, hj with
    | 0, _ => exact loop2_chunk_0
    | 1, _ => exact loop2_chunk_1
    | 2, _ => exact loop2_chunk_2
    | 3, _ => exact loop2_chunk_3
    | n + 4, h => omega

open QmiModel.Gen.WakeCert in
theorem anyTwo_good : ∀ s, Reach sysAnyTwo s → goodWaiter sysAnyTwo s = true := by
  refine cert_chunks_sound anyTwo_init ?_
  intro j hj
  have hl : certAnyTwo.length = 24 := by decide +kernel
  rw [hl] at hj
  match j, hj with
    | 0, _ => exact anyTwo_chunk_0
    | 1, _ => exact anyTwo_chunk_1
    | 2, _ => exact anyTwo_chunk_2
    | 3, _ => exact anyTwo_chunk_3
    | 4, _ => exact anyTwo_chunk_4
    | 5, _ => exact anyTwo_chunk_5
    | 6, _ => exact anyTwo_chunk_6
    | 7, _ => exact anyTwo_chunk_7
    | 8, _ => exact anyTwo_chunk_8
    | 9, _ => exact anyTwo_chunk_9
    | 10, _ => exact anyTwo_chunk_10
    | 11, _ => exact anyTwo_chunk_11
    | 12, _ => exact anyTwo_chunk_12
    | 13, _ => exact anyTwo_chunk_13
    | 14, _ => exact anyTwo_chunk_14
    | 15, _ => exact anyTwo_chunk_15
    | 16, _ => exact anyTwo_chunk_16
    | 17, _ => exact anyTwo_chunk_17
    | 18, _ => exact anyTwo_chunk_18
    | 19, _ => exact anyTwo_chunk_19
    | 20, _ => exact anyTwo_chunk_20
    | 21, _ => exact anyTwo_chunk_21
    | 22, _ => exact anyTwo_chunk_22
    | 23, _ => exact anyTwo_chunk_23
    | n + 24, h => omega

open QmiModel.Gen.WakeCert in
theorem recv2_good : ∀ s, Reach sysRecv2 s → goodWaiter sysRecv2 s = true := by
  refine cert_chunks_sound recv2_init ?_
  intro j hj
  have hl : certRecv2.length = 10 := by decide +kernel
  rw [hl] at hj
  match j, hj with
    | 0, _ => exact recv2_chunk_0
    | 1, _ => exact recv2_chunk_1
    | 2, _ => exact recv2_chunk_2
    | 3, _ => exact recv2_chunk_3
    | 4, _ => exact recv2_chunk_4
    | 5, _ => exact recv2_chunk_5
    | 6, _ => exact recv2_chunk_6
    | 7, _ => exact recv2_chunk_7
    | 8, _ => exact recv2_chunk_8
    | 9, _ => exact recv2_chunk_9
    | n + 10, h => omega

open QmiModel.Gen.WakeCert in
theorem loopW_good : ∀ s, Reach sysLoopW s → goodLoop sysLoopW s = true := by
  refine cert_chunks_sound loopW_init ?_
  intro j hj
  have hl : certLoopW.length = 6 := by decide +kernel
  rw [hl] at hj
  match j, hj with
    | 0, _ => exact loopW_chunk_0
    | 1, _ => exact loopW_chunk_1
    | 2, _ => exact loopW_chunk_2
    | 3, _ => exact loopW_chunk_3
    | 4, _ => exact loopW_chunk_4
    | 5, _ => exact loopW_chunk_5
    | n + 6, h => omega

open QmiModel.Gen.WakeCert in
theorem shareT_good : ∀ s, Reach sysShareT s → goodWaiter sysShareT s = true := by
  refine cert_chunks_sound shareT_init ?_
  intro j hj
  have hl : certShareT.length = 5 := by decide +kernel
  rw [hl] at hj
  match j, hj with
    | 0, _ => exact shareT_chunk_0
    | 1, _ => exact shareT_chunk_1
    | 2, _ => exact shareT_chunk_2
    | 3, _ => exact shareT_chunk_3
    | 4, _ => exact shareT_chunk_4
    | n + 5, h => omega

set_option maxRecDepth 200000 in
/-- a second waiter on the *same* condition (it parks before or after the task, any interleaving): the stop request must
    wake the task whatever its position in the condition's FIFO of waiters — `notify()` instead of `notify_all()` in
    `stop_task` falsifies this obligation -/
theorem cert_shareN : certB sysShareN (goodWaiter sysShareN) = true := by decide +kernel

/-- the systems with a generic waiting task -/
def waiterSystems : List Sys :=
  [sysSleep, sysRecvN, sysRecvT, sysSleep2, sysAny, sysTwo, sysAnyTwo, sysShareN, sysShareT, sysRecv2]

/-- the systems with the loop task -/
def loopSystems : List Sys := [sysLoop, sysLoop2, sysLoopW]

theorem waiter_good {sys : Sys} (h : sys ∈ waiterSystems) : ∀ s, Reach sys s → goodWaiter sys s = true := by
  simp only [waiterSystems, List.mem_cons, List.not_mem_nil, or_false] at h
  rcases h with rfl | rfl | rfl | rfl | rfl | rfl | rfl | rfl | rfl | rfl
  · exact cert_sound cert_sleep
  · exact cert_sound cert_recvN
  · exact cert_sound cert_recvT
  · exact cert_sound cert_sleep2
  · exact any_good
  · exact two_good
  · exact anyTwo_good
  · exact cert_sound cert_shareN
  · exact shareT_good
  · exact recv2_good

theorem loop_good {sys : Sys} (h : sys ∈ loopSystems) : ∀ s, Reach sys s → goodLoop sys s = true := by
  simp only [loopSystems, List.mem_cons, List.not_mem_nil, or_false] at h
  rcases h with rfl | rfl | rfl
  · exact cert_sound cert_loop
  · exact loop2_good
  · exact loopW_good

private theorem gw {sys : Sys} {s : St} (h : goodWaiter sys s = true) :
    lostWakeup sys s = false ∧ anyCrashed s = false ∧ stopSetsFlag sys s = true ∧ noParkAfterStop sys s = true ∧
    exitOnlyByStop s = true ∧ releasedB sys endedByStop s = true ∧ progress sys s = true ∧
    registrationDiscipline s = true := by
  simp only [goodWaiter, Bool.and_eq_true, Bool.not_eq_true'] at h
  obtain ⟨⟨⟨⟨⟨⟨⟨a, b⟩, c⟩, d⟩, e⟩, f⟩, g⟩, r⟩ := h
  exact ⟨a, b, c, d, e, f, g, r⟩

private theorem gl {sys : Sys} {s : St} (h : goodLoop sys s = true) :
    lostWakeup sys s = false ∧ anyCrashed s = false ∧ stopSetsFlag sys s = true ∧ noParkAfterStop sys s = true ∧
    loopExit s = true ∧ releasedB sys endedFinalised s = true ∧ progress sys s = true ∧
    registrationDiscipline s = true := by
  simp only [goodLoop, Bool.and_eq_true, Bool.not_eq_true'] at h
  obtain ⟨⟨⟨⟨⟨⟨⟨a, b⟩, c⟩, d⟩, e⟩, f⟩, g⟩, r⟩ := h
  exact ⟨a, b, c, d, e, f, g, r⟩

/-- all kernel-checked systems in which the task thread is inside `task.run()` -/
def allSystems : List Sys := loopSystems ++ waiterSystems

/-- the obligations common to the loop task and the generic waiting tasks -/
private theorem common {sys : Sys} (h : sys ∈ allSystems) (s : St) (hs : Reach sys s) :
    lostWakeup sys s = false ∧ anyCrashed s = false ∧ stopSetsFlag sys s = true ∧ noParkAfterStop sys s = true ∧
    progress sys s = true ∧ registrationDiscipline s = true := by
  simp only [allSystems, List.mem_append] at h
  rcases h with h | h
  · have g := gl (loop_good h s hs)
    exact ⟨g.1, g.2.1, g.2.2.1, g.2.2.2.1, g.2.2.2.2.2.2.1, g.2.2.2.2.2.2.2⟩
  · have g := gw (waiter_good h s hs)
    exact ⟨g.1, g.2.1, g.2.2.1, g.2.2.2.1, g.2.2.2.2.2.2.1, g.2.2.2.2.2.2.2⟩

/-! ## the property -/

/-- the generic lifting used by everything below (re-exported from `Lemmas/C11.lean`): a set containing the initial
    states and closed under every thread's step contains every reachable state -/
theorem closure_sound (sys : Sys) (S : St → Prop)
    (hinit : ∀ s ∈ inits sys, S s) (hclosed : ∀ s, S s → ∀ t ∈ succs sys s, S t) :
    ∀ s, Reach sys s → S s := QmiModel.Wake.closure_sound sys S hinit hclosed

/-- **No lost wake-up**, for `sleep()`, `get_next_signal()` with and without timeout, any mixture of them, and the loop
    task's period sleep, under every interleaving of one or two stop requests, the publisher and the task thread. -/
theorem no_lost_wakeup {sys : Sys} (h : sys ∈ allSystems) : ∀ s, Reach sys s → ¬ LostWakeup sys s := by
  intro s hs hl
  have := (common h s hs).1
  simp [LostWakeup, this] at hl

/-- no thread of the system ever dies of an error of the primitives (`notify` / `wait` / `release` on a lock it does not
    hold, use of a `None` condition, assertion) and a completed stop request has set the flag -/
theorem no_thread_error_and_flag_set {sys : Sys} (h : sys ∈ allSystems) :
    ∀ s, Reach sys s → anyCrashed s = false ∧ (stopperDone sys s = true → s.flag = true) := by
  intro s hs
  have key := common h s hs
  refine ⟨key.2.1, fun hd => ?_⟩
  have := key.2.2.1
  simp only [stopSetsFlag, hd, Bool.not_true, Bool.false_or] at this
  exact this

/-- **No deadlock**: as long as the task thread has not ended some thread can take a step (in particular the stop request
    never blocks for ever on a lock the waiting task holds, and vice versa). -/
theorem no_deadlock {sys : Sys} (h : sys ∈ allSystems) :
    ∀ s, Reach sys s → (∀ t, taskTh s = some t → t.finished = false) → succs sys s ≠ [] := by
  intro s hs hf
  have key := (common h s hs).2.2.2.2.1
  simp only [progress, Bool.or_eq_true, Bool.not_eq_true', List.isEmpty_eq_false_iff] at key
  rcases key with k | k
  · cases ht : taskTh s with
    | none => simp [ht] at k
    | some t => simp [ht, hf t ht] at k
  · exact k

/-- **Every wait registers its own condition and unregisters it on every exit path** (`wait_for_condition`, whichever of
    the receivers the task is blocking on, one after the other): whenever the task thread is parked on a receiver's
    condition, `_wait_cond` holds exactly that condition (lock `l` belongs to the condition with number `l - 1`), and whenever
    the task thread is outside `wait_for_condition` the slot is empty — no stale registration survives a wait, however it
    ended (signal, time-out, stop). -/
theorem registration_discipline {sys : Sys} (h : sys ∈ allSystems) :
    ∀ s, Reach sys s → ∀ t, taskTh s = some t →
      (∀ l n, t.park = .cond l n → 2 ≤ l → s.wc = l - 1) ∧ (t.inWaitFn = false → s.wc = 0) := by
  intro s hs t ht
  have key := (common h s hs).2.2.2.2.2
  simp only [registrationDiscipline, ht, Bool.and_eq_true, Bool.or_eq_true, beq_iff_eq] at key
  constructor
  · intro l n hp hl
    have k := key.1
    simp only [hp, Bool.or_eq_true, decide_eq_true_eq, beq_iff_eq] at k
    rcases k with k | k
    · omega
    · exact k
  · intro hi
    rcases key.2 with k | k
    · simp [hi] at k
    · exact k

/-- **A wait that starts after `stop()` does not park**: once a stop request has completed, a task thread that is not
    parked never parks again — whichever wait it enters next (`sleep`, `get_next_signal`, with or without timeout). -/
theorem wait_after_stop_does_not_park {sys : Sys} (h : sys ∈ allSystems) :
    ∀ s, Reach sys s → stopperDone sys s = true → ∀ t, taskTh s = some t → t.isParked = false →
      ∀ s' ∈ stepTh sys s 0, ∀ t', taskTh s' = some t' → t'.isParked = false := by
  intro s hs hd t ht hp s' hs' t' ht'
  have key := (common h s hs).2.2.2.1
  simp only [noParkAfterStop, ht, hd, hp, Bool.not_true, Bool.false_or, List.all_eq_true] at key
  have := key s' hs'
  simp only [ht', Bool.not_eq_true'] at this
  exact this

/-- **Released with the stop exception.**  (i) A generic waiting task only ever leaves its waiting loop through
    QMI_TaskStopException (never by a time-out or a normal return), and only after the flag was set.  (ii) From every
    reachable state in which a stop request has completed and no other thread is inside a critical section, the task
    **settles** (`Settles`, no bound on the number of steps): its own steps, none of them a time-out, lead on every branch
    and without parking anew to the task thread terminated by QMI_TaskStopException. -/
theorem released_with_stop_exception {sys : Sys} (h : sys ∈ waiterSystems) :
    ∀ s, Reach sys s →
      (∀ t, taskTh s = some t → t.finished = true → t.status = .raised .stop ∧ s.flag = true) ∧
      (stopperDone sys s = true → envQuiet s = true → Settles sys endedByStop s) := by
  intro s hs
  have g := gw (waiter_good h s hs)
  constructor
  · intro t ht hf
    have e := g.2.2.2.2.1
    simp only [exitOnlyByStop, ht] at e
    cases hst : t.status with
    | run => simp [Th.finished, hst] at hf
    | done => simp [hst] at e
    | crashed => simp [hst] at e
    | raised x =>
      cases x with
      | stop => simp only [hst] at e; exact ⟨rfl, e⟩
      | timeout => simp [hst] at e
  · intro hd hq
    have r := g.2.2.2.2.2.1
    simp only [releasedB, hd, hq, Bool.and_self, Bool.not_true, Bool.false_or] at r
    exact settles_sound r

/-- Corollary in terms of steps: from every reachable state in which a stop request has completed and no other thread is
    inside a critical section, the task thread reaches — by its own steps alone — a state in which it has ended with
    QMI_TaskStopException (and that state is reachable). -/
theorem released_reaches_stop_exception {sys : Sys} (h : sys ∈ waiterSystems) :
    ∀ s, Reach sys s → stopperDone sys s = true → envQuiet s = true →
      ∃ u, TaskSteps sys s u ∧ Reach sys u ∧ ∃ t, taskTh u = some t ∧ t.status = .raised .stop := by
  intro s hs hd hq
  obtain ⟨u, hu, hg, t, ht, _⟩ := ((released_with_stop_exception h s hs).2 hd hq).reaches
  refine ⟨u, hu, hu.reach hs, t, ht, ?_⟩
  simp only [endedByStop, ht, beq_iff_eq] at hg
  exact hg

/-- **`sleep()` is interruptible**: in `sysSleep` (and with two stop requests) there is no lost wake-up, a completed stop
    request leads — without any time-out — to QMI_TaskStopException, and a `sleep` entered after the stop does not park. -/
theorem sleep_interruptible {sys : Sys} (h : sys = sysSleep ∨ sys = sysSleep2) :
    ∀ s, Reach sys s →
      ¬ LostWakeup sys s ∧
      (stopperDone sys s = true → envQuiet s = true → Settles sys endedByStop s) := by
  intro s hs
  have hm : sys ∈ waiterSystems := by rcases h with rfl | rfl <;> simp [waiterSystems]
  exact ⟨no_lost_wakeup (by simp only [allSystems, List.mem_append]; exact Or.inr hm) s hs,
         (released_with_stop_exception hm s hs).2⟩

/-- **The loop task finalises** (one or two stop requests): `loop_finalize` never runs twice; when `QMI_LoopTask.run` has
    ended it has returned normally, the stop flag is set and `loop_finalize` ran exactly once; and once a stop request has
    completed the loop task settles — its own steps, none of them a time-out, lead without parking anew to that end. -/
theorem loop_task_finalises {sys : Sys} (h : sys ∈ loopSystems) :
    ∀ s, Reach sys s →
      s.fin ≤ 1 ∧
      (∀ t, taskTh s = some t → t.finished = true → t.status = .done ∧ s.flag = true ∧ s.fin = 1) ∧
      (stopperDone sys s = true → envQuiet s = true → Settles sys endedFinalised s) := by
  intro s hs
  have g := gl (loop_good h s hs)
  have e := g.2.2.2.2.1
  refine ⟨?_, ?_, ?_⟩
  · simp only [loopExit] at e
    cases ht : taskTh s with
    | none => simp [ht] at e
    | some t =>
      simp only [ht] at e
      cases hst : t.status with
      | run => simpa [hst] using e
      | done => simp only [hst, Bool.and_eq_true, beq_iff_eq] at e; omega
      | crashed => simp [hst] at e
      | raised x => simp [hst] at e
  · intro t ht hf
    simp only [loopExit, ht] at e
    cases hst : t.status with
    | run => simp [Th.finished, hst] at hf
    | done => simp only [hst, Bool.and_eq_true, beq_iff_eq] at e; exact ⟨rfl, e.1, e.2⟩
    | crashed => simp [hst] at e
    | raised x => simp [hst] at e
  · intro hd hq
    have r := g.2.2.2.2.2.1
    simp only [releasedB, hd, hq, Bool.and_self, Bool.not_true, Bool.false_or] at r
    exact settles_sound r

/-! ## non-vacuity

The hypotheses above are met by reachable, non-trivial states: in `sysRecvN` the schedule below parks the task in
`get_next_signal(None)` and then runs the stop request to completion — the resulting state has a completed stopper, the
flag set, the task parked, and (by `no_lost_wakeup`) a pending notification.  And the obligations *can* fail: for the
hand-made `stop_task` that looks up `_wait_cond` before setting the flag the same kind of schedule reaches a lost
wake-up. -/

/-- task: lock cond, lock wcl, read+assert slot, register, unlock wcl, read flag (false), park;
    stopper: lock/unlock state_cond, set flag, lock wcl, look up, unlock wcl, lock cond, notify_all, unlock cond -/
def parkThenStop : List (Nat × Nat) :=
  [(0,0),(0,0),(0,0),(0,0),(0,0),(0,0),(0,0), (1,0),(1,0),(1,0),(1,0),(1,0),(1,0),(1,0),(1,0),(1,0)]

example : ∃ s, Reach sysRecvN s ∧ stopperDone sysRecvN s = true ∧ s.flag = true ∧ envQuiet s = true ∧
    (∃ t, taskTh s = some t ∧ t.park = .cond 2 true) :=
  ⟨pathState sysRecvN parkThenStop, pathState_reach (by decide +kernel), by decide +kernel, by decide +kernel,
   by decide +kernel, by decide +kernel⟩

/-- `sleep()`: the task parks in `Event.wait`, then the stop request runs to completion: the task is parked, the flag is
    set — the hypotheses of `sleep_interruptible` / `released_with_stop_exception` hold in a reachable state -/
example : ∃ s, Reach sysSleep s ∧ stopperDone sysSleep s = true ∧ s.flag = true ∧ envQuiet s = true ∧
    (∃ t, taskTh s = some t ∧ t.park = .ev) :=
  ⟨pathState sysSleep [(0,0),(1,0),(1,0),(1,0),(1,0),(1,0),(1,0)], pathState_reach (by decide +kernel),
   by decide +kernel, by decide +kernel, by decide +kernel, by decide +kernel⟩

/-- the stop request completes before the task begins to wait: hypotheses of `wait_after_stop_does_not_park` -/
example : ∃ s, Reach sysSleep s ∧ stopperDone sysSleep s = true ∧
    (∃ t, taskTh s = some t ∧ t.isParked = false ∧ t.finished = false) :=
  ⟨pathState sysSleep [(1,0),(1,0),(1,0),(1,0),(1,0),(1,0)], pathState_reach (by decide +kernel),
   by decide +kernel, by decide +kernel⟩

/-- the loop task sleeps out its period, then the stop request completes: hypotheses of `loop_task_finalises` -/
example : ∃ s, Reach sysLoop s ∧ stopperDone sysLoop s = true ∧ envQuiet s = true ∧ s.fin = 0 ∧
    (∃ t, taskTh s = some t ∧ t.park = .ev) :=
  ⟨pathState sysLoop [(0,0),(0,0),(0,0),(0,0),(1,0),(1,0),(1,0),(1,0),(1,0),(1,0)], pathState_reach (by decide +kernel),
   by decide +kernel, by decide +kernel, by decide +kernel, by decide +kernel⟩

/-- stopper looks up the slot (empty) *before* the task registers; the task then registers, tests the flag (still clear)
    and parks; the stopper sets the flag and, having seen no condition, notifies nobody -/
def lookupThenPark : List (Nat × Nat) :=
  [(1,0),(1,0),(1,0),(1,0),(1,0), (0,0),(0,0),(0,0),(0,0),(0,0),(0,0),(0,0), (1,0)]

theorem lookup_before_flag_loses_wakeup : ∃ s, Reach sysLookupFirst s ∧ LostWakeup sysLookupFirst s :=
  ⟨pathState sysLookupFirst lookupThenPark, pathState_reach (by decide +kernel), by unfold LostWakeup; decide +kernel⟩

end QmiModel.C11
