import QmiModel.Model.Pipeline
import QmiModel.Gen.RpcShape
/-!
# C03 — calls on one object run one at a time, in the order they were issued

Property theorems only.  Every statement quantifies over **all reachable states** of the interleaving system
`QmiModel.Pipeline.step` (`Reach T s`: any number of caller threads, contexts, objects, requests, any
interleaving of callers, event loops and workers) and over every placement `T` of threads and objects on contexts.
Nothing is bounded.

* `fifo_pipeline`      for every caller `c` and object `o`: `(executed ++ cur ++ fifo ++ wire ++ ready ++ hand)|(c,o)`
                       (oldest stage first) `= issued|(c,o)`;
* `per_caller_order`   (+ `_started`, `_by_caller`): executions of `c`'s calls on `o` are a prefix of `c`'s issue sequence;
* `no_loss_no_dup`     (+ `found_is_on_route`, `executed_at_most_once`): every issued request is in exactly one place, once;
* `one_at_a_time`      (+ `pop_only_when_idle`, `busy_le_one`): started − completed executions on `o` ∈ {0, 1} after every
                       prefix of every run — **structural in the model** (one `cur` slot per object), see the section comment;
* `exec_only_by_worker` (+ `single_executing_thread`, `worker_stable`, `executed_only_by_finish`): only the one thread
                       created by `start` ever executes, and only `workerFinish` extends `executed`.

Assumption made explicit by the proof (`WF.ready_k`, `WF.wire_kd`): all calls of one thread to one object take the
same route, because a thread is bound to one context (`Topo.ctxOf`).  Without it a local call could overtake an
earlier remote call of the same thread; `enqLocal`/`enqRemote` choose the route from `T` alone.
-/
namespace QmiModel.Pipeline

/-! ## helpers -/

theorem upd_same {α : Type} (f : Nat → α) (k : Nat) (v : α) : upd f k v k = v := by simp [upd]

theorem upd_other {α : Type} (f : Nat → α) (k j : Nat) (v : α) (h : j ≠ k) : upd f k v j = f j := by
  simp [upd, h]

/-- every place holds only requests routed through it -/
structure WF (T : Topo) (s : State) : Prop where
  hand_c  : ∀ c x, s.hand c = some x → x.caller = c
  ready_k : ∀ k x, x ∈ s.ready k → T.ctxOf x.caller = k ∧ T.home x.obj ≠ k
  wire_kd : ∀ k d x, x ∈ s.wire k d → T.ctxOf x.caller = k ∧ T.home x.obj = d ∧ d ≠ k
  fifo_o  : ∀ o x, x ∈ s.fifo o → x.obj = o
  cur_o   : ∀ o x, s.cur o = some x → x.obj = o
  exec_o  : ∀ o x, x ∈ s.executed o → x.obj = o

/-- the inductive invariant -/
structure Inv (T : Topo) (s : State) : Prop where
  wf    : WF T s
  nodup : s.issued.Nodup
  pipe  : ∀ c o, (stages T s c o).filter (sel c o) = issuedBy s c o

theorem inv_init (T : Topo) : Inv T init := by
  refine ⟨⟨?_, ?_, ?_, ?_, ?_, ?_⟩, ?_, ?_⟩ <;> simp [init, stages, issuedBy]

private theorem sel_iff (c o : Nat) (x : Req) : sel c o x = true ↔ x.caller = c ∧ x.obj = o := by
  simp [sel]

private theorem sel_self (x : Req) : sel x.caller x.obj x = true := by simp [sel]

private theorem filter_sel_single (c o : Nat) (x : Req) :
    [x].filter (sel c o) = if x.caller = c ∧ x.obj = o then [x] else [] := by
  by_cases h : x.caller = c ∧ x.obj = o
  · simp [List.filter, (sel_iff c o x).2 h, h]
  · have : sel c o x = false := by
      cases hs : sel c o x
      · rfl
      · exact absurd ((sel_iff c o x).1 hs) h
    simp [List.filter, this, h]

theorem wf_step {T : Topo} {s s' : State} {a : Act} (h : step T s a = some s') (w : WF T s) : WF T s' := by
  cases a with
  | start o wk =>
    simp only [step] at h
    split at h
    · simp only [Option.some.injEq] at h; subst h
      exact ⟨w.hand_c, w.ready_k, w.wire_kd, w.fifo_o, w.cur_o, w.exec_o⟩
    · simp at h
  | issue c o r =>
    simp only [step] at h
    split at h
    · simp only [Option.some.injEq] at h; subst h
      refine ⟨?_, w.ready_k, w.wire_kd, w.fifo_o, w.cur_o, w.exec_o⟩
      intro c' x hx
      simp only [upd] at hx
      split at hx
      · next e => simp only [Option.some.injEq] at hx; subst hx; exact e.symm
      · exact w.hand_c c' x hx
    · simp at h
  | enqLocal c =>
    simp only [step] at h
    split at h
    · next x hx =>
      split at h
      · simp only [Option.some.injEq] at h; subst h
        refine ⟨?_, w.ready_k, w.wire_kd, ?_, w.cur_o, w.exec_o⟩
        · intro c' y hy
          simp only [upd] at hy
          split at hy
          · simp at hy
          · exact w.hand_c c' y hy
        · intro o y hy
          simp only [upd] at hy
          split at hy
          · next e =>
            simp only [List.mem_append, List.mem_singleton] at hy
            rcases hy with hy | rfl
            · subst e; exact w.fifo_o _ y hy
            · exact e.symm
          · exact w.fifo_o o y hy
      · simp at h
    · simp at h
  | enqRemote c =>
    simp only [step] at h
    split at h
    · next x hx =>
      split at h
      · simp at h
      · simp only [Option.some.injEq] at h; subst h
        refine ⟨?_, ?_, w.wire_kd, w.fifo_o, w.cur_o, w.exec_o⟩
        · intro c' y hy
          simp only [upd] at hy
          split at hy
          · simp at hy
          · exact w.hand_c c' y hy
        · intro k y hy
          simp only [upd] at hy
          split at hy
          · next e =>
            simp only [List.mem_append, List.mem_singleton] at hy
            rcases hy with hy | rfl
            · subst e; exact w.ready_k _ y hy
            · next hrem => rw [w.hand_c c y hx]; subst e; exact ⟨rfl, hrem⟩
          · exact w.ready_k k y hy
    · simp at h
  | loopRun k =>
    simp only [step] at h
    split at h
    · next x rest hx =>
      simp only [Option.some.injEq] at h; subst h
      have hxk := w.ready_k k x (by rw [hx]; exact List.mem_cons_self)
      refine ⟨w.hand_c, ?_, ?_, w.fifo_o, w.cur_o, w.exec_o⟩
      · intro k' y hy
        simp only [upd] at hy
        split at hy
        · next e => subst e; exact w.ready_k _ y (by rw [hx]; exact List.mem_cons_of_mem _ hy)
        · exact w.ready_k k' y hy
      · intro k' d y hy
        simp only [upd2] at hy
        split at hy
        · next e =>
          obtain ⟨e1, e2⟩ := e
          simp only [List.mem_append, List.mem_singleton] at hy
          rcases hy with hy | rfl
          · subst e1; subst e2; exact w.wire_kd _ _ y hy
          · subst e1; subst e2; exact ⟨hxk.1, rfl, hxk.2⟩
        · exact w.wire_kd k' d y hy
    · simp at h
  | wireDeliver k d =>
    simp only [step] at h
    split at h
    · next x rest hx =>
      simp only [Option.some.injEq] at h; subst h
      refine ⟨w.hand_c, w.ready_k, ?_, ?_, w.cur_o, w.exec_o⟩
      · intro k' d' y hy
        simp only [upd2] at hy
        split at hy
        · next e =>
          obtain ⟨e1, e2⟩ := e; subst e1; subst e2
          exact w.wire_kd _ _ y (by rw [hx]; exact List.mem_cons_of_mem _ hy)
        · exact w.wire_kd k' d' y hy
      · intro o y hy
        simp only [upd] at hy
        split at hy
        · next e =>
          simp only [List.mem_append, List.mem_singleton] at hy
          rcases hy with hy | rfl
          · subst e; exact w.fifo_o _ y hy
          · exact e.symm
        · exact w.fifo_o o y hy
    · simp at h
  | workerPop wk o =>
    simp only [step] at h
    split at h
    · split at h
      · next x rest hx =>
        simp only [Option.some.injEq] at h; subst h
        refine ⟨w.hand_c, w.ready_k, w.wire_kd, ?_, ?_, w.exec_o⟩
        · intro o' y hy
          simp only [upd] at hy
          split at hy
          · next e => subst e; exact w.fifo_o _ y (by rw [hx]; exact List.mem_cons_of_mem _ hy)
          · exact w.fifo_o o' y hy
        · intro o' y hy
          simp only [upd] at hy
          split at hy
          · next e =>
            simp only [Option.some.injEq] at hy; subst hy; subst e
            exact w.fifo_o _ x (by rw [hx]; exact List.mem_cons_self)
          · exact w.cur_o o' y hy
      · simp at h
    · simp at h
  | workerFinish wk o =>
    simp only [step] at h
    split at h
    · split at h
      · next x hx =>
        simp only [Option.some.injEq] at h; subst h
        refine ⟨w.hand_c, w.ready_k, w.wire_kd, w.fifo_o, ?_, ?_⟩
        · intro o' y hy
          simp only [upd] at hy
          split at hy
          · simp at hy
          · exact w.cur_o o' y hy
        · intro o' y hy
          simp only [upd] at hy
          split at hy
          · next e =>
            simp only [List.mem_append, List.mem_singleton] at hy
            rcases hy with hy | rfl
            · subst e; exact w.exec_o _ y hy
            · subst e; exact w.cur_o _ y hx
          · exact w.exec_o o' y hy
      · simp at h
    · simp at h


theorem pipe_step {T : Topo} {s s' : State} {a : Act} (h : step T s a = some s') (w : WF T s)
    (hp : ∀ c o, (stages T s c o).filter (sel c o) = issuedBy s c o) :
    ∀ c o, (stages T s' c o).filter (sel c o) = issuedBy s' c o := by
  intro c o
  have hp' := hp c o
  cases a with
  | start o0 wk =>
    simp only [step] at h
    split at h
    · simp only [Option.some.injEq] at h; subst h; exact hp'
    · simp at h
  | issue c0 o0 r0 =>
    simp only [step] at h
    split at h
    · next g =>
      simp only [Option.some.injEq] at h; subst h
      simp only [stages, issuedBy, List.filter_append, upd] at hp' ⊢
      by_cases hc : c = c0
      · subst hc
        rw [g.1] at hp'
        simp only [if_true, Option.toList, filter_sel_single] at hp' ⊢
        rw [← hp']; simp
      · have hx : sel c o ⟨c0, o0, r0⟩ = false := by
          simp [sel]; intro e; exact absurd e.symm hc
        simp only [if_neg hc, List.filter_cons, hx, List.filter_nil, List.append_nil, Bool.false_eq_true, if_false]
        exact hp'
    · simp at h
  | enqLocal c0 =>
    simp only [step] at h
    split at h
    · next x hx =>
      split at h
      · next hloc =>
        simp only [Option.some.injEq] at h; subst h
        have hxc := w.hand_c c0 x hx
        subst hxc
        simp only [stages, issuedBy, List.filter_append, upd] at hp' ⊢
        by_cases hs : sel c o x = true
        · obtain ⟨rfl, rfl⟩ := (sel_iff c o x).1 hs
          have hw : (s.wire (T.ctxOf x.caller) (T.home x.obj)).filter (sel x.caller x.obj) = [] := by
            rw [List.filter_eq_nil_iff]; intro y hy _
            exact (w.wire_kd _ _ y hy).2.2 hloc
          have hr : (s.ready (T.ctxOf x.caller)).filter (sel x.caller x.obj) = [] := by
            rw [List.filter_eq_nil_iff]; intro y hy hsy
            have := (sel_iff _ _ y).1 hsy
            have h2 := (w.ready_k _ y hy).2
            rw [this.2] at h2; exact h2 hloc
          rw [hx] at hp'
          simp only [hw, hr, if_true, Option.toList, List.filter_cons, hs, List.filter_nil, List.append_nil] at hp' ⊢
          rw [← hp']; simp [hs]
        · have hs' : sel c o x = false := by simpa using hs
          by_cases h1 : o = x.obj <;> by_cases h2 : c = x.caller
          all_goals simp_all [sel]
      · simp at h
    · simp at h
  | enqRemote c0 =>
    simp only [step] at h
    split at h
    · next x hx =>
      split at h
      · simp at h
      · next hrem =>
        simp only [Option.some.injEq] at h; subst h
        have hxc := w.hand_c c0 x hx
        subst hxc
        simp only [stages, issuedBy, List.filter_append, upd] at hp' ⊢
        by_cases hs : sel c o x = true
        · obtain ⟨rfl, rfl⟩ := (sel_iff c o x).1 hs
          rw [hx] at hp'
          simp only [if_true, Option.toList, List.filter_cons, hs, List.filter_nil, List.append_nil] at hp' ⊢
          rw [← hp']; simp [hs]
        · have hs' : sel c o x = false := by simpa using hs
          by_cases h1 : T.ctxOf c = T.ctxOf x.caller <;> by_cases h2 : c = x.caller
          all_goals simp_all [sel]
    · simp at h
  | loopRun k =>
    simp only [step] at h
    split at h
    · next x rest hx =>
      simp only [Option.some.injEq] at h; subst h
      have hxk := (w.ready_k k x (by rw [hx]; exact List.mem_cons_self)).1
      subst hxk
      simp only [stages, issuedBy, List.filter_append, upd, upd2] at hp' ⊢
      by_cases hs : sel c o x = true
      · obtain ⟨rfl, rfl⟩ := (sel_iff c o x).1 hs
        rw [hx] at hp'
        simp only [if_true, and_self, List.filter_cons, hs] at hp' ⊢
        rw [← hp']; simp [hs]
      · have hs' : sel c o x = false := by simpa using hs
        by_cases h1 : T.ctxOf c = T.ctxOf x.caller <;> by_cases h2 : T.home o = T.home x.obj
        all_goals simp_all [sel]
    · simp at h
  | wireDeliver k d =>
    simp only [step] at h
    split at h
    · next x rest hx =>
      simp only [Option.some.injEq] at h; subst h
      have hxk := (w.wire_kd k d x (by rw [hx]; exact List.mem_cons_self))
      obtain ⟨hk, hd, _⟩ := hxk
      subst hk; subst hd
      simp only [stages, issuedBy, List.filter_append, upd, upd2] at hp' ⊢
      by_cases hs : sel c o x = true
      · obtain ⟨rfl, rfl⟩ := (sel_iff c o x).1 hs
        rw [hx] at hp'
        simp only [if_true, and_self, List.filter_cons, hs] at hp' ⊢
        rw [← hp']; simp [hs]
      · have hs' : sel c o x = false := by simpa using hs
        by_cases h1 : T.ctxOf c = T.ctxOf x.caller <;> by_cases h2 : T.home o = T.home x.obj <;> by_cases h3 : o = x.obj
        all_goals simp_all [sel]
    · simp at h
  | workerPop wk o0 =>
    simp only [step] at h
    split at h
    · next g =>
      split at h
      · next x rest hx =>
        simp only [Option.some.injEq] at h; subst h
        have hxo := w.fifo_o o0 x (by rw [hx]; exact List.mem_cons_self)
        subst hxo
        simp only [stages, issuedBy, List.filter_append, upd] at hp' ⊢
        by_cases hs : sel c o x = true
        · obtain ⟨rfl, rfl⟩ := (sel_iff c o x).1 hs
          rw [hx, g.2] at hp'
          simp only [if_true, Option.toList, List.filter_cons, hs, List.filter_nil] at hp' ⊢
          rw [← hp']; simp
        · have hs' : sel c o x = false := by simpa using hs
          by_cases h3 : o = x.obj
          all_goals simp_all [sel]
      · simp at h
    · simp at h
  | workerFinish wk o0 =>
    simp only [step] at h
    split at h
    · split at h
      · next x hx =>
        simp only [Option.some.injEq] at h; subst h
        have hxo := w.cur_o o0 x hx
        subst hxo
        simp only [stages, issuedBy, List.filter_append, upd] at hp' ⊢
        by_cases hs : sel c o x = true
        · obtain ⟨rfl, rfl⟩ := (sel_iff c o x).1 hs
          rw [hx] at hp'
          simp only [if_true, Option.toList, List.filter_cons, hs, List.filter_nil] at hp' ⊢
          rw [← hp']; simp [hs]
        · have hs' : sel c o x = false := by simpa using hs
          by_cases h3 : o = x.obj
          all_goals simp_all [sel]
      · simp at h
    · simp at h

theorem issued_step {T : Topo} {s s' : State} {a : Act} (h : step T s a = some s') :
    s'.issued = s.issued ∨ ∃ x, x ∉ s.issued ∧ s'.issued = s.issued ++ [x] := by
  cases a <;> simp only [step] at h
  case issue c o r =>
    split at h
    · next g => simp only [Option.some.injEq] at h; subst h; exact Or.inr ⟨_, g.2, rfl⟩
    · simp at h
  all_goals
    repeat' split at h
    all_goals first
      | (simp only [Option.some.injEq] at h; subst h; exact Or.inl rfl)
      | (simp at h)

theorem inv_step {T : Topo} {s s' : State} {a : Act} (h : step T s a = some s') (i : Inv T s) : Inv T s' := by
  refine ⟨wf_step h i.wf, ?_, pipe_step h i.wf i.pipe⟩
  rcases issued_step h with e | ⟨x, hx, e⟩
  · rw [e]; exact i.nodup
  · rw [e, List.nodup_append]
    refine ⟨i.nodup, by simp, ?_⟩
    intro a ha b hb
    simp only [List.mem_singleton] at hb; subst hb
    intro e; subst e; exact hx ha

/-- the invariant holds in every reachable state -/
theorem inv_reach {T : Topo} {s : State} (r : Reach T s) : Inv T s := by
  induction r with
  | init => exact inv_init T
  | step _ h ih => exact inv_step h ih

/-- a run of enabled actions from a reachable state ends in a reachable state -/
theorem reach_run {T : Topo} {s s' : State} (r : Reach T s) (as : List Act) (h : run T s as = some s') :
    Reach T s' := by
  induction as generalizing s with
  | nil => simp only [run, Option.some.injEq] at h; subst h; exact r
  | cons a as ih =>
    simp only [run] at h
    split at h
    · next s1 h1 => exact ih (Reach.step r h1) h
    · simp at h

/-! ## The property theorems -/

/-- **FIFO pipeline.**  In every reachable state, for every caller thread `c` and object `o`: the requests of `c`
for `o` found in the stages `executed o, cur o, fifo o, wire, ready queue, hand of c` — concatenated **oldest
stage first** — are exactly the calls `c` issued to `o`, in issue order.  No stage reorders, drops or duplicates. -/
theorem fifo_pipeline {T : Topo} {s : State} (r : Reach T s) (c o : Nat) :
    (stages T s c o).filter (sel c o) = issuedBy s c o :=
  (inv_reach r).pipe c o

/-- every place holds only requests that are routed through it (so `stages T s x.caller x.obj` lists *all*
places where request `x` can be) -/
theorem routing {T : Topo} {s : State} (r : Reach T s) : WF T s := (inv_reach r).wf

/-- **Per-caller order.**  The executions on `o` of calls issued by `c` are a prefix of `c`'s issue sequence for
`o`: they happen in issue order, without gaps — for blocking calls, for non-blocking calls that were waited for
later, and for non-blocking calls nobody waits for (the model has no notion of waiting at all). -/
theorem per_caller_order {T : Topo} {s : State} (r : Reach T s) (c o : Nat) :
    (s.executed o).filter (sel c o) <+: issuedBy s c o := by
  have h := fifo_pipeline r c o
  simp only [stages, List.filter_append, List.append_assoc] at h
  exact ⟨_, h⟩

/-- the same for executions *started*: what was executed plus what is being executed is a prefix -/
theorem per_caller_order_started {T : Topo} {s : State} (r : Reach T s) (c o : Nat) :
    (s.executed o ++ (s.cur o).toList).filter (sel c o) <+: issuedBy s c o := by
  have h := fifo_pipeline r c o
  simp only [stages, List.filter_append, List.append_assoc] at h ⊢
  exact ⟨_, by simpa [List.append_assoc] using h⟩

/-- restricted to the caller alone: everything executed on `o` is addressed to `o`, so filtering `executed o`
by the caller gives the same list -/
theorem per_caller_order_by_caller {T : Topo} {s : State} (r : Reach T s) (c o : Nat) :
    (s.executed o).filter (fun x => x.caller == c) <+: issuedBy s c o := by
  have h := per_caller_order r c o
  have e : (s.executed o).filter (fun x => x.caller == c) = (s.executed o).filter (sel c o) := by
    apply List.filter_congr
    intro x hx
    have := (routing r).exec_o o x hx
    simp [sel, this]
  rw [e]; exact h

/-- **No loss, no duplication.**  Every issued request is in exactly one place, exactly once; nothing that was
not issued is anywhere. -/
theorem no_loss_no_dup {T : Topo} {s : State} (r : Reach T s) (x : Req) :
    occurrences T s x = if x ∈ s.issued then 1 else 0 := by
  have h := fifo_pipeline r x.caller x.obj
  have hn := (inv_reach r).nodup
  unfold occurrences
  have e1 : (stages T s x.caller x.obj).count x = ((stages T s x.caller x.obj).filter (sel x.caller x.obj)).count x :=
    (List.count_filter (sel_self x)).symm
  rw [e1, h, issuedBy, List.count_filter (sel_self x)]
  exact List.Nodup.count hn

/-- a request found in any place whatsoever is on its own route, i.e. is counted by `occurrences` -/
theorem found_is_on_route {T : Topo} {s : State} (r : Reach T s) (x : Req) :
    (∀ c, s.hand c = some x → c = x.caller) ∧
    (∀ k, x ∈ s.ready k → k = T.ctxOf x.caller) ∧
    (∀ k d, x ∈ s.wire k d → k = T.ctxOf x.caller ∧ d = T.home x.obj) ∧
    (∀ o, x ∈ s.fifo o → o = x.obj) ∧
    (∀ o, s.cur o = some x → o = x.obj) ∧
    (∀ o, x ∈ s.executed o → o = x.obj) := by
  have w := routing r
  refine ⟨fun c h => (w.hand_c c x h).symm, fun k h => (w.ready_k k x h).1.symm,
    fun k d h => ⟨(w.wire_kd k d x h).1.symm, (w.wire_kd k d x h).2.1.symm⟩,
    fun o h => (w.fifo_o o x h).symm, fun o h => (w.cur_o o x h).symm, fun o h => (w.exec_o o x h).symm⟩

/-- each request is executed at most once -/
theorem executed_at_most_once {T : Topo} {s : State} (r : Reach T s) (o : Nat) (x : Req) :
    (s.executed o).count x ≤ 1 := by
  by_cases ho : o = x.obj
  · subst ho
    have h := no_loss_no_dup r x
    unfold occurrences stages at h
    simp only [List.count_append] at h
    split at h <;> omega
  · have : x ∉ s.executed o := fun hx => ho ((routing r).exec_o o x hx).symm
    rw [List.count_eq_zero_of_not_mem this]; exact Nat.zero_le _

/-! ### one at a time

Single-workerness is **structural in the model**: `cur o : Option Req` can hold at most one request, there is one
`cur` per object, and `workerPop` is guarded by `cur o = none` (the worker loop is sequential: it pops only after the
previous request has been handled).  What the theorems below add is the trace-level reading — in every run, at
every moment, executions started on `o` minus executions completed on `o` is 0 or 1 — and that nothing but the
registered worker thread ever executes.  That the *code* has this structure (one `_RpcThread` per object, no other
thread calling the object's methods) is established by the refinement check and the overlap oracle of the harness. -/

theorem busy_le_one (s : State) (o : Nat) : busy s o ≤ 1 := by
  unfold busy; cases s.cur o <;> simp

/-- `workerPop` is enabled only for the registered worker, and only when it is idle -/
theorem pop_only_when_idle {T : Topo} {s s' : State} {w o : Nat} (h : step T s (.workerPop w o) = some s') :
    s.worker o = some w ∧ s.cur o = none ∧ ∃ x, s'.cur o = some x ∧ s.fifo o = x :: s'.fifo o := by
  simp only [step] at h
  split at h
  · next g =>
    split at h
    · next x rest hx =>
      simp only [Option.some.injEq] at h; subst h
      exact ⟨g.1, g.2, x, by simp [upd], by simp [upd, hx]⟩
    · simp at h
  · simp at h

theorem busy_step {T : Topo} {s s' : State} {a : Act} (h : step T s a = some s') (o : Nat) :
    isPop o a + busy s o = isFinish o a + busy s' o := by
  cases a <;> simp only [step] at h
  case workerPop w o0 =>
    split at h
    · next g =>
      split at h
      · simp only [Option.some.injEq] at h; subst h
        simp only [isPop, isFinish, busy, upd]
        by_cases e : o0 = o
        · subst e; simp [g.2]
        · have : ¬ o = o0 := fun h => e h.symm
          simp [e, this]
      · simp at h
    · simp at h
  case workerFinish w o0 =>
    split at h
    · split at h
      · next x hx =>
        simp only [Option.some.injEq] at h; subst h
        simp only [isPop, isFinish, busy, upd]
        by_cases e : o0 = o
        · subst e; simp [hx]
        · have : ¬ o = o0 := fun h => e h.symm
          simp [e, this]
      · simp at h
    · simp at h
  all_goals
    repeat' split at h
    all_goals first
      | (simp only [Option.some.injEq] at h; subst h; simp [isPop, isFinish, busy])
      | (simp at h)

theorem busy_run {T : Topo} {s s' : State} (as : List Act) (h : run T s as = some s') (o : Nat) :
    pops o as + busy s o = finishes o as + busy s' o := by
  induction as generalizing s with
  | nil => simp only [run, Option.some.injEq] at h; subst h; simp [pops, finishes]
  | cons a as ih =>
    simp only [run] at h
    split at h
    · next s1 h1 =>
      have := ih h
      have h2 := busy_step h1 o
      simp only [pops, finishes, List.map_cons, List.sum_cons] at this ⊢
      omega
    · simp at h

theorem run_append {T : Topo} {s s' : State} (pre suf : List Act) (h : run T s (pre ++ suf) = some s') :
    ∃ s1, run T s pre = some s1 ∧ run T s1 suf = some s' := by
  induction pre generalizing s with
  | nil => exact ⟨s, rfl, h⟩
  | cons a pre ih =>
    simp only [List.cons_append, run] at h ⊢
    split at h
    · next s1 h1 => exact ih h
    · simp at h

/-- **One at a time.**  In every run from the initial state, after every prefix of it, the number of executions
started on `o` exceeds the number completed by at most one (and never falls below it): the worker executes at most
one request at any time. -/
theorem one_at_a_time {T : Topo} {s : State} (as : List Act) (h : run T init as = some s) (o : Nat) :
    ∀ pre suf, as = pre ++ suf →
      finishes o pre ≤ pops o pre ∧ pops o pre ≤ finishes o pre + 1 := by
  intro pre suf e
  subst e
  obtain ⟨s1, h1, _⟩ := run_append pre suf h
  have hb := busy_run pre h1 o
  have h0 : busy init o = 0 := by simp [busy, init]
  have := busy_le_one s1 o
  omega

/-- **The code has the shape the model takes for granted** (obligation on the term generated from the current source
by `harness/tr_rpcshape.py`): one guarded creation + start of one `_RpcThread` per manager, no other thread started in
`rpc.py`, the request handlers called only from the worker loop, one `popleft` under `_cv` per iteration followed by
the handling in the same iteration, the fifo only appended to and popped from the left, `push_rpc_request` only from
`handle_message` under `_stop_lock`.  See `Model/RpcShape.lean` for the list. -/
theorem code_shape_single_worker : QmiModel.Gen.RpcShape.gen.ok = true := by decide

/-! ### only the worker executes -/

structure WInv (s : State) : Prop where
  by_worker : ∀ o w, w ∈ s.execBy o → s.worker o = some w
  len       : ∀ o, (s.execBy o).length = (s.executed o).length

theorem winv_init : WInv init := by constructor <;> simp [init]

/-- the worker of an object, once created, is never replaced (`start` is enabled only when there is none) -/
theorem worker_stable {T : Topo} {s s' : State} {a : Act} (h : step T s a = some s') (o w : Nat)
    (hw : s.worker o = some w) : s'.worker o = some w := by
  cases a <;> simp only [step] at h
  case start o0 w0 =>
    split at h
    · next g =>
      simp only [Option.some.injEq] at h; subst h
      simp only [upd]
      split
      · next e => subst e; rw [g] at hw; simp at hw
      · exact hw
    · simp at h
  all_goals
    repeat' split at h
    all_goals first
      | (simp only [Option.some.injEq] at h; subst h; exact hw)
      | (simp at h)

theorem winv_step {T : Topo} {s s' : State} {a : Act} (h : step T s a = some s') (i : WInv s) : WInv s' := by
  cases a <;> simp only [step] at h
  case start o0 w0 =>
    split at h
    · next g =>
      simp only [Option.some.injEq] at h; subst h
      refine ⟨?_, i.len⟩
      intro o w hw
      simp only [upd]
      split
      · next e => subst e; have := i.by_worker _ w hw; rw [g] at this; simp at this
      · exact i.by_worker o w hw
    · simp at h
  case workerFinish w0 o0 =>
    split at h
    · next g =>
      split at h
      · next x hx =>
        simp only [Option.some.injEq] at h; subst h
        refine ⟨?_, ?_⟩
        · intro o w hw
          simp only [upd] at hw
          split at hw
          · next e =>
            subst e
            simp only [List.mem_append, List.mem_singleton] at hw
            rcases hw with hw | rfl
            · exact i.by_worker _ w hw
            · exact g
          · exact i.by_worker o w hw
        · intro o
          simp only [upd]
          split
          · next e => subst e; simp [i.len]
          · exact i.len o
      · simp at h
    · simp at h
  all_goals
    repeat' split at h
    all_goals first
      | (simp only [Option.some.injEq] at h; subst h; exact ⟨i.by_worker, i.len⟩)
      | (simp at h)

/-- **Only the worker executes.**  In every reachable state, every execution recorded for `o` was performed by the
one thread registered as `o`'s worker (and there is one record per executed request). -/
theorem exec_only_by_worker {T : Topo} {s : State} (r : Reach T s) (o : Nat) :
    (∀ w, w ∈ s.execBy o → s.worker o = some w) ∧ (s.execBy o).length = (s.executed o).length := by
  have : WInv s := by
    induction r with
    | init => exact winv_init
    | step _ h ih => exact winv_step h ih
  exact ⟨this.by_worker o, this.len o⟩

/-- hence all executions on one object are by one and the same thread -/
theorem single_executing_thread {T : Topo} {s : State} (r : Reach T s) (o w w' : Nat)
    (h : w ∈ s.execBy o) (h' : w' ∈ s.execBy o) : w = w' := by
  have a := (exec_only_by_worker r o).1 w h
  have b := (exec_only_by_worker r o).1 w' h'
  rw [a] at b; exact Option.some.inj b

/-- no other action executes methods: `executed o` changes only by `workerFinish` of the registered worker, and
grows by exactly the request the worker was holding -/
theorem executed_only_by_finish {T : Topo} {s s' : State} {a : Act} (h : step T s a = some s') (o : Nat) :
    s'.executed o = s.executed o ∨
    ∃ w x, a = .workerFinish w o ∧ s.worker o = some w ∧ s.cur o = some x ∧ s'.executed o = s.executed o ++ [x] := by
  cases a <;> simp only [step] at h
  case workerFinish w0 o0 =>
    split at h
    · next g =>
      split at h
      · next x hx =>
        simp only [Option.some.injEq] at h; subst h
        by_cases e : o = o0
        · subst e; exact Or.inr ⟨w0, x, rfl, g, hx, by simp [upd]⟩
        · exact Or.inl (by simp [upd, e])
      · simp at h
    · simp at h
  all_goals
    repeat' split at h
    all_goals first
      | (simp only [Option.some.injEq] at h; subst h; exact Or.inl rfl)
      | (simp at h)

/-! ## Non-vacuity: concrete reachable states

Context 0 hosts object 0 (worker thread 9).  Caller 0 lives in context 0 (local calls); callers 1 and 2 live in
context 1 (calls over the event loop and the wire).  The run interleaves them, leaves one request in each stage,
and the hypotheses `Reach`/`run … = some _` of the theorems above are met by it. -/

def exT : Topo := { ctxOf := fun c => if c = 0 then 0 else 1, home := fun _ => 0 }

def exRun : List Act :=
  [.start 0 9, .issue 1 0 0, .enqRemote 1, .issue 2 0 0, .issue 0 0 0, .enqLocal 0, .enqRemote 2,
   .issue 1 0 1, .enqRemote 1, .loopRun 1, .workerPop 9 0, .loopRun 1, .wireDeliver 1 0, .workerFinish 9 0,
   .workerPop 9 0, .issue 0 0 1, .wireDeliver 1 0, .workerFinish 9 0, .issue 2 0 1, .enqRemote 2, .loopRun 1,
   .issue 1 0 2, .workerPop 9 0, .enqLocal 0]

example : (run exT init exRun).map (fun s => s.executed 0) = some [⟨0, 0, 0⟩, ⟨1, 0, 0⟩]
    ∧ (run exT init exRun).map (fun s => s.cur 0) = some (some ⟨2, 0, 0⟩)
    ∧ (run exT init exRun).map (fun s => s.fifo 0) = some [⟨0, 0, 1⟩]
    ∧ (run exT init exRun).map (fun s => s.wire 1 0) = some [⟨1, 0, 1⟩]
    ∧ (run exT init exRun).map (fun s => s.ready 1) = some [⟨2, 0, 1⟩]
    ∧ (run exT init exRun).map (fun s => s.hand 1) = some (some ⟨1, 0, 2⟩) := by
  decide

example : ∃ s, run exT init exRun = some s ∧ Reach exT s ∧ s.execBy 0 = [9, 9] ∧ pops 0 exRun = 3
    ∧ finishes 0 exRun = 2 := by
  cases h : run exT init exRun with
  | none => exact absurd h (by decide)
  | some s =>
    refine ⟨s, rfl, reach_run Reach.init exRun h, ?_, by decide, by decide⟩
    have : (run exT init exRun).map (fun s => s.execBy 0) = some [9, 9] := by decide
    rw [h] at this; simpa using this

/-- disabled actions: a second `start`, a pop while busy, a pop by a thread that is not the worker, an issue while
the previous call of the same thread is still in hand, a local enqueue of a remote call -/
example : (run exT init (exRun ++ [.start 0 8])).isNone ∧ (run exT init (exRun ++ [.workerPop 9 0])).isNone
    ∧ (run exT init [.start 0 9, .issue 0 0 0, .enqLocal 0, .workerPop 8 0]).isNone
    ∧ (run exT init [.issue 1 0 0, .issue 1 0 1]).isNone
    ∧ (run exT init [.issue 1 0 0, .enqLocal 1]).isNone := by
  decide

end QmiModel.Pipeline
