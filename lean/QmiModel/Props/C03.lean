import QmiModel.Lemmas.C03Pipe
import QmiModel.Gen.RpcShape
/-!
# C03 — calls on one object run one at a time, in the order they were issued

Property theorems only (invariants and their step lemmas: `Lemmas/C03Wf.lean`, `C03Held.lean`, `C03Pipe.lean`).
Every statement quantifies over **all reachable states** of the interleaving system `QmiModel.Pipeline.step`
(`Reach T s`: any number of caller threads, contexts, objects, requests, any interleaving of callers, event loops,
workers and of the removal of objects) and over every placement `T` of objects on contexts.  Nothing is bounded.

* `fifo_pipeline`      for every caller `c`, proxy context `k`, object `o`:
                       `(executed ++ cur ++ rejected ++ fifo ++ refused ++ heldL ++ wire ++ ready ++ heldC ++ hand)|(c,k,o)`
                       (oldest stage first) `= issued|(c,k,o)`;
* `per_route_order`    (+ `_started`): executions of `c`'s calls on `o` through `k` are a prefix of that issue sequence;
* `per_caller_order`   the property as stated (per thread and object), for a thread that uses proxies of one context;
* `cross_route_overtake` the hypothesis is necessary: a thread alternating between a peer proxy and a local proxy of
                       one object can see its calls executed out of issue order (witness, replayed on the code);
* `rejected_follow_executed`, `rejected_or_refused_not_executed`, `nothing_executes_after_leave`,
  `no_enqueue_after_stop`: object removal keeps the executed prefix in order, answers the *next* calls with an error,
                       never executes a call it answered with an error, and executes nothing after the worker left;
* `no_loss_no_dup`     (+ `found_is_on_route`, `executed_at_most_once`): every issued request is in exactly one place, once;
* `one_at_a_time`      (+ `pop_only_when_idle`, `busy_le_one`): started − completed executions on `o` ∈ {0, 1} after every
                       prefix of every run — **structural in the model** (one `cur` slot per object); that the *code* has
                       this structure is the obligation `code_shape_single_worker` on the term generated from the source;
* `exec_only_by_worker` (+ `single_executing_thread`, `worker_stable`, `executed_only_by_finish`): only the one thread
                       created by `start` ever executes, and only `workerFinish` extends `executed`.

Waiting is not an action of the model: whether, when and in which order futures of non-blocking calls are waited for
cannot influence the order of executions (that a future receives the reply of its own request is C01/C02's subject and
is checked by the harness on every waited call).
-/
namespace QmiModel.Pipeline

/-- the inductive invariant -/
structure Inv (T : Topo) (s : State) : Prop where
  wf    : WF T s
  flags : FInv s
  held  : HInv s
  nodup : s.issued.Nodup
  pipe  : ∀ c k o, (stages T s c k o).filter (sel c k o) = issuedBy s c k o

theorem inv_init (T : Topo) : Inv T init :=
  ⟨wf_init T, finv_init, hinv_init, by simp [init], by intro c k o; simp [init, stages, issuedBy]⟩

theorem issued_step {T : Topo} {s s' : State} {a : Act} (h : step T s a = some s') :
    s'.issued = s.issued ∨ ∃ x, x ∉ s.issued ∧ s'.issued = s.issued ++ [x] := by
  cases a <;> simp only [step] at h
  case issue c k o r =>
    split at h
    · next g => simp only [Option.some.injEq] at h; subst h; exact Or.inr ⟨_, g.2.2, rfl⟩
    · simp at h
  all_goals
    repeat' split at h
    all_goals first
      | (simp only [Option.some.injEq] at h; subst h; exact Or.inl rfl)
      | (simp at h)

theorem inv_step {T : Topo} {s s' : State} {a : Act} (h : step T s a = some s') (i : Inv T s) : Inv T s' := by
  refine ⟨wf_step h i.wf, finv_step h i.flags, hinv_step h i.wf i.flags i.held, ?_,
    pipe_step h i.wf i.flags i.held i.pipe⟩
  rcases issued_step h with e | ⟨x, hx, e⟩
  · rw [e]; exact i.nodup
  · rw [e, List.nodup_append]
    refine ⟨i.nodup, by simp, ?_⟩
    intro a ha b hb
    simp only [List.mem_singleton] at hb; subst hb
    intro e; subst e; exact hx ha

/-- the invariant holds in every reachable state -/
theorem inv_reach {T : Topo} {s : State} (r : Reach T s) : Inv T s := by
  induction r with
  | init => exact inv_init T
  | step _ h ih => exact inv_step h ih

/-- a run of enabled actions from a reachable state ends in a reachable state -/
theorem reach_run {T : Topo} {s s' : State} (r : Reach T s) (as : List Act) (h : run T s as = some s') :
    Reach T s' := by
  induction as generalizing s with
  | nil => simp only [run, Option.some.injEq] at h; subst h; exact r
  | cons a as ih =>
    simp only [run] at h
    split at h
    · next s1 h1 => exact ih (Reach.step r h1) h
    · simp at h

/-! ## The property theorems -/

/-- **FIFO pipeline.**  In every reachable state, for every caller thread `c`, proxy context `k` and object `o`: the
requests of that route found in `executed o, cur o, rejected o, fifo o, refused o, the delivering loop thread, the wire,
the ready queue, the delivering caller thread, the caller's hand` — concatenated **oldest stage first** — are exactly
the calls `c` issued to `o` through `k`, in issue order.  No stage reorders, drops or duplicates, also while the
object is being removed. -/
theorem fifo_pipeline {T : Topo} {s : State} (r : Reach T s) (c k o : Nat) :
    (stages T s c k o).filter (sel c k o) = issuedBy s c k o :=
  (inv_reach r).pipe c k o

/-- every place holds only requests that are routed through it -/
theorem routing {T : Topo} {s : State} (r : Reach T s) : WF T s := (inv_reach r).wf

/-- **Per-route order.**  The executions on `o` of calls issued by thread `c` through context `k` are a prefix of that
issue sequence: they happen in issue order, without gaps — blocking calls, non-blocking calls waited for in any order,
and non-blocking calls nobody waits for alike (the model has no action for waiting, so no execution can depend on it);
and this stays true while and after the object is removed. -/
theorem per_route_order {T : Topo} {s : State} (r : Reach T s) (c k o : Nat) :
    (s.executed o).filter (sel c k o) <+: issuedBy s c k o := by
  have h := fifo_pipeline r c k o
  simp only [stages, List.filter_append, List.append_assoc] at h
  exact ⟨_, h⟩

/-- the same for executions *started* -/
theorem per_route_order_started {T : Topo} {s : State} (r : Reach T s) (c k o : Nat) :
    (s.executed o ++ (s.cur o).toList).filter (sel c k o) <+: issuedBy s c k o := by
  have h := fifo_pipeline r c k o
  simp only [stages, List.filter_append, List.append_assoc] at h ⊢
  exact ⟨_, by simpa [List.append_assoc] using h⟩

/-- **Removal keeps the order.**  What `_reject_remaining_requests` answers with an error are exactly the *next* calls of
the route after the executed ones: executed, then being executed, then rejected is still a prefix of the issue order. -/
theorem rejected_follow_executed {T : Topo} {s : State} (r : Reach T s) (c k o : Nat) :
    (s.executed o ++ (s.cur o).toList ++ s.rejected o).filter (sel c k o) <+: issuedBy s c k o := by
  have h := fifo_pipeline r c k o
  simp only [stages, List.filter_append, List.append_assoc] at h ⊢
  exact ⟨_, by simpa [List.append_assoc] using h⟩

/-- **Per-caller order** — the property as stated, under the hypothesis that thread `c` makes all its calls through
proxies of one context `k` (the normal case: one context per process).  See `cross_route_overtake` for what
happens without it. -/
theorem per_caller_order {T : Topo} {s : State} (r : Reach T s) (c k o : Nat)
    (hone : ∀ x ∈ s.issued, x.caller = c → x.via = k) :
    (s.executed o).filter (fun x => x.caller == c) <+: s.issued.filter (fun x => x.caller == c && x.obj == o) := by
  have h := per_route_order r c k o
  have hsub : ∀ x ∈ s.executed o, x ∈ s.issued := by
    intro x hx
    have hxo := (routing r).exec_o o x hx
    have hp := fifo_pipeline r x.caller x.via o
    have : x ∈ (stages T s x.caller x.via o).filter (sel x.caller x.via o) := by
      rw [List.mem_filter]
      refine ⟨?_, by rw [← hxo]; exact sel_self x⟩
      simp only [stages, List.mem_append]
      exact Or.inl (Or.inl (Or.inl (Or.inl (Or.inl (Or.inl (Or.inl (Or.inl (Or.inl hx))))))))
    rw [hp] at this
    exact (List.mem_filter.1 this).1
  have e1 : (s.executed o).filter (fun x => x.caller == c) = (s.executed o).filter (sel c k o) := by
    apply List.filter_congr
    intro x hx
    have hxo := (routing r).exec_o o x hx
    by_cases hc : x.caller = c
    · have := hone x (hsub x hx) hc
      simp [sel, hc, this, hxo]
    · have hb : (x.caller == c) = false := by simp [hc]
      simp [sel, hb]
  have e2 : s.issued.filter (fun x => x.caller == c && x.obj == o) = issuedBy s c k o := by
    apply List.filter_congr
    intro x hx
    by_cases hc : x.caller = c
    · have := hone x hx hc
      simp [sel, hc, this]
    · have hb : (x.caller == c) = false := by simp [hc]
      simp [sel, hb]
  rw [e1, e2]; exact h

/-- **No loss, no duplication.**  Every issued request is in exactly one place (executed, being executed, rejected at
shutdown, queued, refused at delivery, or under way), exactly once; nothing that was not issued is anywhere. -/
theorem no_loss_no_dup {T : Topo} {s : State} (r : Reach T s) (x : Req) :
    occurrences T s x = if x ∈ s.issued then 1 else 0 := by
  have h := fifo_pipeline r x.caller x.via x.obj
  have hn := (inv_reach r).nodup
  unfold occurrences
  have e1 : (stages T s x.caller x.via x.obj).count x
      = ((stages T s x.caller x.via x.obj).filter (sel x.caller x.via x.obj)).count x :=
    (List.count_filter (sel_self x)).symm
  rw [e1, h, issuedBy, List.count_filter (sel_self x)]
  exact List.Nodup.count hn

/-- a request found in any place whatsoever is on its own route, i.e. is counted by `occurrences` -/
theorem found_is_on_route {T : Topo} {s : State} (r : Reach T s) (x : Req) :
    (∀ c, s.hand c = some x → c = x.caller) ∧
    (∀ c, s.heldC c = some x → c = x.caller) ∧
    (∀ k, x ∈ s.ready k → k = x.via) ∧
    (∀ k d, x ∈ s.wire k d → k = x.via ∧ d = T.home x.obj) ∧
    (∀ d, s.heldL d = some x → d = T.home x.obj) ∧
    (∀ o, x ∈ s.fifo o → o = x.obj) ∧
    (∀ o, s.cur o = some x → o = x.obj) ∧
    (∀ o, x ∈ s.executed o → o = x.obj) ∧
    (∀ o, x ∈ s.rejected o → o = x.obj) ∧
    (∀ o, x ∈ s.refused o → o = x.obj) := by
  have w := routing r
  exact ⟨fun c h => (w.hand_c c x h).symm, fun c h => (w.heldC_c c x h).1.symm, fun k h => (w.ready_k k x h).1.symm,
    fun k d h => ⟨(w.wire_kd k d x h).1.symm, (w.wire_kd k d x h).2.1.symm⟩, fun d h => (w.heldL_d d x h).1.symm,
    fun o h => (w.fifo_o o x h).symm, fun o h => (w.cur_o o x h).symm, fun o h => (w.exec_o o x h).symm,
    fun o h => (w.rej_o o x h).symm, fun o h => (w.ref_o o x h).symm⟩

private theorem count_pos_of_mem {l : List Req} {x : Req} (h : x ∈ l) : 1 ≤ l.count x :=
  List.count_pos_iff.2 h

/-- each request is executed at most once -/
theorem executed_at_most_once {T : Topo} {s : State} (r : Reach T s) (o : Nat) (x : Req) :
    (s.executed o).count x ≤ 1 := by
  by_cases ho : o = x.obj
  · subst ho
    have h := no_loss_no_dup r x
    unfold occurrences stages at h
    simp only [List.count_append] at h
    split at h <;> omega
  · have : x ∉ s.executed o := fun hx => ho ((routing r).exec_o o x hx).symm
    rw [List.count_eq_zero_of_not_mem this]; exact Nat.zero_le _

/-- a request that was answered with an error — rejected when the worker shut down, or refused at delivery — is never
executed, neither before nor after -/
theorem rejected_or_refused_not_executed {T : Topo} {s : State} (r : Reach T s) (o : Nat) (x : Req)
    (h : x ∈ s.rejected o ∨ x ∈ s.refused o) : x ∉ s.executed o ∧ s.cur o ≠ some x := by
  have w := routing r
  have ho : o = x.obj := by
    rcases h with h | h
    · exact (w.rej_o o x h).symm
    · exact (w.ref_o o x h).symm
  subst ho
  have hc := no_loss_no_dup r x
  unfold occurrences stages at hc
  simp only [List.count_append] at hc
  have hle : (if x ∈ s.issued then 1 else 0) ≤ 1 := by split <;> omega
  have h1 : 1 ≤ (s.rejected x.obj).count x + (s.refused x.obj).count x := by
    rcases h with h | h
    · have := count_pos_of_mem h; omega
    · have := count_pos_of_mem h; omega
  constructor
  · intro he
    have := count_pos_of_mem he
    omega
  · intro he
    have : 1 ≤ (s.cur x.obj).toList.count x := by rw [he]; simp
    omega

/-! ### removal -/

/-- **Nothing executes after the worker has left its loop**: from then on `executed o` never changes, the worker
holds no request, and it never comes back. -/
theorem nothing_executes_after_leave {T : Topo} {s s' : State} {a : Act} (r : Reach T s)
    (h : step T s a = some s') (o : Nat) (hl : s.left o = true) :
    s'.left o = true ∧ s'.executed o = s.executed o ∧ s.cur o = none ∧ s'.cur o = none := by
  have f := (inv_reach r).flags
  have f' := (inv_reach (Reach.step r h)).flags
  have hidle := f.left_idle o hl
  have hsh := f.left_shut o hl
  have hl' : s'.left o = true := by
    cases a <;> simp only [step] at h
    all_goals
      repeat' split at h
      all_goals first
        | (simp only [Option.some.injEq] at h; subst h; first | exact hl | (simp only [upd]; split <;> first | rfl | exact hl))
        | (simp at h)
  refine ⟨hl', ?_, hidle, f'.left_idle o hl'⟩
  cases a <;> simp only [step] at h
  case workerFinish w0 o0 =>
    split at h
    · split at h
      · next x hx =>
        simp only [Option.some.injEq] at h; subst h
        simp only [upd]
        split
        · next e => subst e; rw [hidle] at hx; simp at hx
        · rfl
      · simp at h
    · simp at h
  all_goals
    repeat' split at h
    all_goals first
      | (simp only [Option.some.injEq] at h; subst h; rfl)
      | (simp at h)

/-- once the object is stopped (`_running = False`) nothing enters its fifo any more -/
theorem no_enqueue_after_stop {T : Topo} {s s' : State} {a : Act} (h : step T s a = some s') (o : Nat)
    (hs : s.stopped o = true) : s'.stopped o = true ∧ ∃ n, s'.fifo o = (s.fifo o).drop n := by
  cases a <;> simp only [step] at h
  case pushLocal c0 =>
    split at h
    · next x hx =>
      split at h
      · simp only [Option.some.injEq] at h; subst h; exact ⟨hs, 0, by simp⟩
      · next hns =>
        simp only [Option.some.injEq] at h; subst h
        refine ⟨hs, 0, ?_⟩
        simp only [upd, List.drop_zero]
        split
        · next e => subst e; exact absurd hs hns
        · rfl
    · simp at h
  case pushWire d0 =>
    split at h
    · next x hx =>
      split at h
      · simp only [Option.some.injEq] at h; subst h; exact ⟨hs, 0, by simp⟩
      · next hns =>
        simp only [Option.some.injEq] at h; subst h
        refine ⟨hs, 0, ?_⟩
        simp only [upd, List.drop_zero]
        split
        · next e => subst e; exact absurd hs hns
        · rfl
    · simp at h
  case workerPop w0 o0 =>
    split at h
    · split at h
      · next x rest hx =>
        simp only [Option.some.injEq] at h; subst h
        refine ⟨hs, ?_⟩
        simp only [upd]
        split
        · next e => subst e; exact ⟨1, by rw [hx]; simp⟩
        · exact ⟨0, by simp⟩
      · simp at h
    · simp at h
  case rejectOne w0 o0 =>
    split at h
    · split at h
      · next x rest hx =>
        simp only [Option.some.injEq] at h; subst h
        refine ⟨hs, ?_⟩
        simp only [upd]
        split
        · next e => subst e; exact ⟨1, by rw [hx]; simp⟩
        · exact ⟨0, by simp⟩
      · simp at h
    · simp at h
  case stopMark o0 =>
    simp only [Option.some.injEq] at h; subst h
    refine ⟨?_, 0, by simp⟩
    simp only [upd]; split <;> first | rfl | exact hs
  all_goals
    repeat' split at h
    all_goals first
      | (simp only [Option.some.injEq] at h; subst h; exact ⟨hs, 0, by simp⟩)
      | (simp at h)

/-! ### one at a time

Single-workerness is **structural in the model**: `cur o : Option Req` can hold at most one request, there is one
`cur` per object, and `workerPop` is guarded by `cur o = none` (the worker loop is sequential: it pops only after the
previous request has been handled).  What the theorems below add is the trace-level reading — in every run, at
every moment, executions started on `o` minus executions completed on `o` is 0 or 1 — and that nothing but the
registered worker thread ever executes.  That the *code* has this structure (one `_RpcThread` per object, no other
thread calling the object's methods) is established by the refinement check and the overlap oracle of the harness. -/

theorem busy_le_one (s : State) (o : Nat) : busy s o ≤ 1 := by
  unfold busy; cases s.cur o <;> simp

/-- `workerPop` is enabled only for the registered worker, and only when it is idle -/
theorem pop_only_when_idle {T : Topo} {s s' : State} {w o : Nat} (h : step T s (.workerPop w o) = some s') :
    s.worker o = some w ∧ s.cur o = none ∧ ∃ x, s'.cur o = some x ∧ s.fifo o = x :: s'.fifo o := by
  simp only [step] at h
  split at h
  · next g =>
    split at h
    · next x rest hx =>
      simp only [Option.some.injEq] at h; subst h
      exact ⟨g.1, g.2.1, x, by simp [upd], by simp [upd, hx]⟩
    · simp at h
  · simp at h

theorem busy_step {T : Topo} {s s' : State} {a : Act} (h : step T s a = some s') (o : Nat) :
    isPop o a + busy s o = isFinish o a + busy s' o := by
  cases a <;> simp only [step] at h
  case workerPop w o0 =>
    split at h
    · next g =>
      split at h
      · simp only [Option.some.injEq] at h; subst h
        simp only [isPop, isFinish, busy, upd]
        by_cases e : o0 = o
        · subst e; simp [g.2.1]
        · have : ¬ o = o0 := fun h => e h.symm
          simp [e, this]
      · simp at h
    · simp at h
  case workerFinish w o0 =>
    split at h
    · split at h
      · next x hx =>
        simp only [Option.some.injEq] at h; subst h
        simp only [isPop, isFinish, busy, upd]
        by_cases e : o0 = o
        · subst e; simp [hx]
        · have : ¬ o = o0 := fun h => e h.symm
          simp [e, this]
      · simp at h
    · simp at h
  all_goals
    repeat' split at h
    all_goals first
      | (simp only [Option.some.injEq] at h; subst h; simp [isPop, isFinish, busy])
      | (simp at h)

theorem busy_run {T : Topo} {s s' : State} (as : List Act) (h : run T s as = some s') (o : Nat) :
    pops o as + busy s o = finishes o as + busy s' o := by
  induction as generalizing s with
  | nil => simp only [run, Option.some.injEq] at h; subst h; simp [pops, finishes]
  | cons a as ih =>
    simp only [run] at h
    split at h
    · next s1 h1 =>
      have := ih h
      have h2 := busy_step h1 o
      simp only [pops, finishes, List.map_cons, List.sum_cons] at this ⊢
      omega
    · simp at h

theorem run_append {T : Topo} {s s' : State} (pre suf : List Act) (h : run T s (pre ++ suf) = some s') :
    ∃ s1, run T s pre = some s1 ∧ run T s1 suf = some s' := by
  induction pre generalizing s with
  | nil => exact ⟨s, rfl, h⟩
  | cons a pre ih =>
    simp only [List.cons_append, run] at h ⊢
    split at h
    · next s1 h1 => exact ih h
    · simp at h

/-- **One at a time.**  In every run from the initial state, after every prefix of it, the number of executions
started on `o` exceeds the number completed by at most one (and never falls below it): the worker executes at most
one request at any time. -/
theorem one_at_a_time {T : Topo} {s : State} (as : List Act) (h : run T init as = some s) (o : Nat) :
    ∀ pre suf, as = pre ++ suf →
      finishes o pre ≤ pops o pre ∧ pops o pre ≤ finishes o pre + 1 := by
  intro pre suf e
  subst e
  obtain ⟨s1, h1, _⟩ := run_append pre suf h
  have hb := busy_run pre h1 o
  have h0 : busy init o = 0 := by simp [busy, init]
  have := busy_le_one s1 o
  omega

/-- **The code has the shape the model takes for granted** (obligation on the term generated from the current source
by `harness/tr_rpcshape.py`): one guarded creation + start of one `_RpcThread` per manager, no other thread started in
`rpc.py`, the request handlers called only from the worker loop, one `popleft` under `_cv` per iteration followed by
the handling in the same iteration, the fifo only appended to and popped from the left, `push_rpc_request` only from
`handle_message` under `_stop_lock`.  See `Model/RpcShape.lean` for the list. -/
theorem code_shape_single_worker : QmiModel.Gen.RpcShape.gen.ok = true := by decide

/-! ### only the worker executes -/

structure WInv (s : State) : Prop where
  by_worker : ∀ o w, w ∈ s.execBy o → s.worker o = some w
  len       : ∀ o, (s.execBy o).length = (s.executed o).length

theorem winv_init : WInv init := by constructor <;> simp [init]

/-- the worker of an object, once created, is never replaced (`start` is enabled only when there is none) -/
theorem worker_stable {T : Topo} {s s' : State} {a : Act} (h : step T s a = some s') (o w : Nat)
    (hw : s.worker o = some w) : s'.worker o = some w := by
  cases a <;> simp only [step] at h
  case start o0 w0 =>
    split at h
    · next g =>
      simp only [Option.some.injEq] at h; subst h
      simp only [upd]
      split
      · next e => subst e; rw [g] at hw; simp at hw
      · exact hw
    · simp at h
  all_goals
    repeat' split at h
    all_goals first
      | (simp only [Option.some.injEq] at h; subst h; exact hw)
      | (simp at h)

theorem winv_step {T : Topo} {s s' : State} {a : Act} (h : step T s a = some s') (i : WInv s) : WInv s' := by
  cases a <;> simp only [step] at h
  case start o0 w0 =>
    split at h
    · next g =>
      simp only [Option.some.injEq] at h; subst h
      refine ⟨?_, i.len⟩
      intro o w hw
      simp only [upd]
      split
      · next e => subst e; have := i.by_worker _ w hw; rw [g] at this; simp at this
      · exact i.by_worker o w hw
    · simp at h
  case workerFinish w0 o0 =>
    split at h
    · next g =>
      split at h
      · next x hx =>
        simp only [Option.some.injEq] at h; subst h
        refine ⟨?_, ?_⟩
        · intro o w hw
          simp only [upd] at hw
          split at hw
          · next e =>
            subst e
            simp only [List.mem_append, List.mem_singleton] at hw
            rcases hw with hw | rfl
            · exact i.by_worker _ w hw
            · exact g
          · exact i.by_worker o w hw
        · intro o
          simp only [upd]
          split
          · next e => subst e; simp [i.len]
          · exact i.len o
      · simp at h
    · simp at h
  all_goals
    repeat' split at h
    all_goals first
      | (simp only [Option.some.injEq] at h; subst h; exact ⟨i.by_worker, i.len⟩)
      | (simp at h)

/-- **Only the worker executes.**  In every reachable state, every execution recorded for `o` was performed by the
one thread registered as `o`'s worker (and there is one record per executed request). -/
theorem exec_only_by_worker {T : Topo} {s : State} (r : Reach T s) (o : Nat) :
    (∀ w, w ∈ s.execBy o → s.worker o = some w) ∧ (s.execBy o).length = (s.executed o).length := by
  have : WInv s := by
    induction r with
    | init => exact winv_init
    | step _ h ih => exact winv_step h ih
  exact ⟨this.by_worker o, this.len o⟩

/-- hence all executions on one object are by one and the same thread -/
theorem single_executing_thread {T : Topo} {s : State} (r : Reach T s) (o w w' : Nat)
    (h : w ∈ s.execBy o) (h' : w' ∈ s.execBy o) : w = w' := by
  have a := (exec_only_by_worker r o).1 w h
  have b := (exec_only_by_worker r o).1 w' h'
  rw [a] at b; exact Option.some.inj b

/-- no other action executes methods: `executed o` changes only by `workerFinish` of the registered worker, and
grows by exactly the request the worker was holding -/
theorem executed_only_by_finish {T : Topo} {s s' : State} {a : Act} (h : step T s a = some s') (o : Nat) :
    s'.executed o = s.executed o ∨
    ∃ w x, a = .workerFinish w o ∧ s.worker o = some w ∧ s.cur o = some x ∧ s'.executed o = s.executed o ++ [x] := by
  cases a <;> simp only [step] at h
  case workerFinish w0 o0 =>
    split at h
    · next g =>
      split at h
      · next x hx =>
        simp only [Option.some.injEq] at h; subst h
        by_cases e : o = o0
        · subst e; exact Or.inr ⟨w0, x, rfl, g, hx, by simp [upd]⟩
        · exact Or.inl (by simp [upd, e])
      · simp at h
    · simp at h
  all_goals
    repeat' split at h
    all_goals first
      | (simp only [Option.some.injEq] at h; subst h; exact Or.inl rfl)
      | (simp at h)

/-! ## Non-vacuity and witnesses: concrete reachable states

Context 0 hosts objects 0 and 1 (worker threads 9 and 8).  Caller 0 lives in context 0 (local calls) but also holds a
proxy of context 1 (a peer of context 0); callers 1 and 2 live in context 1. -/

def exT : Topo := { home := fun _ => 0 }

def exRun : List Act :=
  [.start 0 9, .issue 1 1 0 0, .enqRemote 1, .issue 2 1 0 0, .issue 0 0 0 0, .lookupLocal 0, .pushLocal 0, .enqRemote 2,
   .issue 1 1 0 1, .enqRemote 1, .loopRun 1, .workerPop 9 0, .loopRun 1, .lookupWire 1 0, .pushWire 0, .workerFinish 9 0,
   .workerPop 9 0, .issue 0 0 0 1, .lookupWire 1 0, .pushWire 0, .workerFinish 9 0, .issue 2 1 0 1, .enqRemote 2,
   .loopRun 1, .issue 1 1 0 2, .workerPop 9 0, .lookupLocal 0, .pushLocal 0]

example : (run exT init exRun).map (fun s => s.executed 0) = some [⟨0, 0, 0, 0⟩, ⟨1, 1, 0, 0⟩]
    ∧ (run exT init exRun).map (fun s => s.cur 0) = some (some ⟨2, 1, 0, 0⟩)
    ∧ (run exT init exRun).map (fun s => s.fifo 0) = some [⟨0, 0, 0, 1⟩]
    ∧ (run exT init exRun).map (fun s => s.wire 1 0) = some [⟨1, 1, 0, 1⟩]
    ∧ (run exT init exRun).map (fun s => s.ready 1) = some [⟨2, 1, 0, 1⟩]
    ∧ (run exT init exRun).map (fun s => s.hand 1) = some (some ⟨1, 1, 0, 2⟩) := by
  decide

example : ∃ s, run exT init exRun = some s ∧ Reach exT s ∧ s.execBy 0 = [9, 9] ∧ pops 0 exRun = 3
    ∧ finishes 0 exRun = 2 := by
  cases h : run exT init exRun with
  | none => exact absurd h (by decide)
  | some s =>
    refine ⟨s, rfl, reach_run Reach.init exRun h, ?_, by decide, by decide⟩
    have : (run exT init exRun).map (fun s => s.execBy 0) = some [9, 9] := by decide
    rw [h] at this; simpa using this

/-- removal in the middle of the traffic: one request executed, one rejected by the leaving worker, one refused
because the object is stopped when the loop thread pushes it, one refused at the handler lookup, one still queued
on the event loop of its context -/
def exStop : List Act :=
  exRun ++ [.lookupWire 1 0, .unregister 0, .workerFinish 9 0, .stopMark 0, .pushWire 0, .shutdownReq 0,
            .workerLeave 9 0, .rejectOne 9 0, .loopRun 1, .lookupWire 1 0, .enqRemote 1]

example : (run exT init exStop).map (fun s => s.executed 0) = some [⟨0, 0, 0, 0⟩, ⟨1, 1, 0, 0⟩, ⟨2, 1, 0, 0⟩]
    ∧ (run exT init exStop).map (fun s => s.rejected 0) = some [⟨0, 0, 0, 1⟩]
    ∧ (run exT init exStop).map (fun s => s.refused 0) = some [⟨1, 1, 0, 1⟩, ⟨2, 1, 0, 1⟩]
    ∧ (run exT init exStop).map (fun s => s.ready 1) = some [⟨1, 1, 0, 2⟩]
    ∧ (run exT init exStop).map (fun s => s.left 0) = some true := by
  decide

/-- disabled actions: a second `start`, a pop while busy, a pop by a thread that is not the worker, an issue while
the previous call of the same thread is still in hand, a local delivery of a remote call, a pop after the shutdown
request, an execution after the worker left, a shutdown request before `_running = False` -/
example : (run exT init (exRun ++ [.start 0 8])).isNone ∧ (run exT init (exRun ++ [.workerPop 9 0])).isNone
    ∧ (run exT init [.start 0 9, .issue 0 0 0 0, .lookupLocal 0, .pushLocal 0, .workerPop 8 0]).isNone
    ∧ (run exT init [.issue 1 1 0 0, .issue 1 1 0 1]).isNone
    ∧ (run exT init [.issue 1 1 0 0, .lookupLocal 1]).isNone
    ∧ (run exT init [.start 0 9, .issue 0 0 0 0, .lookupLocal 0, .pushLocal 0, .stopMark 0, .shutdownReq 0,
                     .workerPop 9 0]).isNone
    ∧ (run exT init (exStop ++ [.workerPop 9 0])).isNone
    ∧ (run exT init [.start 0 9, .shutdownReq 0]).isNone := by
  decide

/-- **Across routes the order is NOT guaranteed** (negation witness for the property read literally, without the
hypothesis of `per_caller_order`): thread 0 issues call #0 to object 0 through its proxy of peer context 1 and then
call #1 to the same object through its proxy of the object's own context 0; the local call is enqueued by the caller's
own thread while the first one still sits in the event-loop queue of context 1, and is executed first.  The harness
replays this history on the real code (known finding `order-across-routes`). -/
theorem cross_route_overtake :
    ∃ s, run exT init [.start 0 9, .issue 0 1 0 0, .enqRemote 0, .issue 0 0 0 1, .lookupLocal 0, .pushLocal 0,
                       .workerPop 9 0, .workerFinish 9 0, .loopRun 1, .lookupWire 1 0, .pushWire 0, .workerPop 9 0,
                       .workerFinish 9 0] = some s
      ∧ s.issued = [⟨0, 1, 0, 0⟩, ⟨0, 0, 0, 1⟩] ∧ s.executed 0 = [⟨0, 0, 0, 1⟩, ⟨0, 1, 0, 0⟩] := by
  cases h : run exT init [.start 0 9, .issue 0 1 0 0, .enqRemote 0, .issue 0 0 0 1, .lookupLocal 0, .pushLocal 0,
                       .workerPop 9 0, .workerFinish 9 0, .loopRun 1, .lookupWire 1 0, .pushWire 0, .workerPop 9 0,
                       .workerFinish 9 0] with
  | none => exact absurd h (by decide)
  | some s =>
    refine ⟨s, rfl, ?_, ?_⟩
    · have : (run exT init [.start 0 9, .issue 0 1 0 0, .enqRemote 0, .issue 0 0 0 1, .lookupLocal 0, .pushLocal 0,
                       .workerPop 9 0, .workerFinish 9 0, .loopRun 1, .lookupWire 1 0, .pushWire 0, .workerPop 9 0,
                       .workerFinish 9 0]).map (fun s => s.issued) = some [⟨0, 1, 0, 0⟩, ⟨0, 0, 0, 1⟩] := by decide
      rw [h] at this; simpa using this
    · have : (run exT init [.start 0 9, .issue 0 1 0 0, .enqRemote 0, .issue 0 0 0 1, .lookupLocal 0, .pushLocal 0,
                       .workerPop 9 0, .workerFinish 9 0, .loopRun 1, .lookupWire 1 0, .pushWire 0, .workerPop 9 0,
                       .workerFinish 9 0]).map (fun s => s.executed 0) = some [⟨0, 0, 0, 1⟩, ⟨0, 1, 0, 0⟩] := by decide
      rw [h] at this; simpa using this

/-- **No constraint across objects**: one thread issues a call to object 0 and then a call to object 1; both execution
orders are reachable (each object has its own worker), while the order *per object* is fixed by `per_route_order`. -/
example :
    (run exT init [.start 0 9, .start 1 8, .issue 0 0 0 0, .lookupLocal 0, .pushLocal 0, .issue 0 0 1 0, .lookupLocal 0,
                   .pushLocal 0, .workerPop 9 0, .workerFinish 9 0, .workerPop 8 1, .workerFinish 8 1]).isSome
    ∧ (run exT init [.start 0 9, .start 1 8, .issue 0 0 0 0, .lookupLocal 0, .pushLocal 0, .issue 0 0 1 0, .lookupLocal 0,
                   .pushLocal 0, .workerPop 8 1, .workerFinish 8 1, .workerPop 9 0, .workerFinish 9 0]).isSome := by
  decide

end QmiModel.Pipeline
