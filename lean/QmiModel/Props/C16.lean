import QmiModel.Lemmas.C16Strip
import QmiModel.Lemmas.C16Load
import QmiModel.Lemmas.C16Round
import QmiModel.Lemmas.C16Err
import QmiModel.Lemmas.C16Reval
import QmiModel.Lemmas.C16Check
import QmiModel.Gen.CfgDefs
import QmiModel.Gen.CfgRoutes
/-!
# C16 — configuration loads strictly and round-trips

Model: `QmiModel/Model/Config.lean`. Specifications the model is proved against:
`Toks`/`StrBody` (token lines), `HasDupKey`, `Admits` (what a type admits and to what it converts),
`Offends` (offending items) — `QmiModel/Lemmas/C16Spec.lean`, `C16Strip.lean`, `C16Load.lean`.

All statements quantify over every line / text / raw tree / type descriptor / data tree; nothing is bounded.
-/
namespace QmiModel.Config

/-! ## 1. Loading ignores exactly the comments -/

/-- **strip_exact**: in a line made of tokens followed by `#` and anything, exactly the tokens are kept.
A `#` inside a string literal belongs to a token (`Toks.str`), so it is data. -/
theorem strip_exact {toks : List Nat} (h : Toks toks) (rest : List Nat) :
    stripLine (toks ++ 35 :: rest) = toks := by
  simp [stripLine, scan_out_toks h, scan]

/-- a line without a comment — whatever `#`, `\"`, `\\` its strings contain — is left alone -/
theorem strip_no_comment {toks : List Nat} (h : Toks toks) : stripLine toks = toks := by
  have := scan_out_toks h []
  simp only [List.append_nil] at this
  simp [stripLine, this, scan]

-- non-vacuity: `{"a#\"": "#"} # c "` — hashes and an escaped quote inside strings, then a comment with a quote
example : Toks [123, 34, 97, 35, 92, 34, 34, 58, 32, 34, 35, 34, 125, 32] :=
  .ch (by decide) (by decide)
    (.str (b := [97, 35, 92, 34]) (.ch (by decide) (by decide) (.ch (by decide) (by decide) (.esc (by decide) .nil)))
      (.ch (by decide) (by decide) (.ch (by decide) (by decide)
        (.str (b := [35]) (.ch (by decide) (by decide) .nil)
          (.ch (by decide) (by decide) (.ch (by decide) (by decide) .nil))))))
example : stripLine ([123, 34, 97, 35, 92, 34, 34, 58, 32, 34, 35, 34, 125, 32] ++ 35 :: [32, 99, 32, 34]) =
    [123, 34, 97, 35, 92, 34, 34, 58, 32, 34, 35, 34, 125, 32] := by decide

/-- a source line: tokens, then possibly a comment -/
structure SrcLine where
  toks : List Nat
  comment : Option (List Nat)

def SrcLine.text (l : SrcLine) : List Nat :=
  l.toks ++ (match l.comment with | .none => [] | some c => 35 :: c)

def SrcLine.WF (l : SrcLine) : Prop :=
  Toks l.toks ∧ NoNL l.toks ∧ ∀ c, l.comment = some c → NoNL c

/-- **strip_comments_exact**: for every text whose lines are tokens with a comment appended to any of them,
`_strip_comments` returns the text without the comments — nothing more, nothing less. -/
theorem strip_comments_exact (L : List SrcLine) (hne : L ≠ []) (h : ∀ l ∈ L, l.WF) :
    stripComments (joinLines (L.map SrcLine.text)) = joinLines (L.map SrcLine.toks) := by
  have hnl : ∀ t ∈ L.map SrcLine.text, NoNL t := by
    intro t ht
    simp only [List.mem_map] at ht
    obtain ⟨l, hl, rfl⟩ := ht
    obtain ⟨_, h2, h3⟩ := h l hl
    unfold SrcLine.text
    cases hc : l.comment with
    | none => simpa using h2
    | some c =>
      refine NoNL.append h2 ?_
      intro x hx
      simp only [List.mem_cons] at hx
      rcases hx with rfl | hx
      · decide
      · exact h3 c hc x hx
  unfold stripComments
  rw [splitLines_joinLines _ (by simpa using hne) hnl, List.map_map]
  congr 1
  apply List.map_congr_left
  intro l hl
  obtain ⟨h1, _, _⟩ := h l hl
  simp only [Function.comp, SrcLine.text]
  cases l.comment with
  | none => simpa using strip_no_comment h1
  | some c => exact strip_exact h1 c

/-- **load_ignores_comments**: loading a text with comments gives the same result — value or exception — as loading
the text with the comments removed (`json.loads` is the parameter `jl`). -/
theorem load_ignores_comments (jl : List Nat → Option PV) (L : List SrcLine) (hne : L ≠ []) (h : ∀ l ∈ L, l.WF) :
    loadString jl (joinLines (L.map SrcLine.text)) = loadString jl (joinLines (L.map SrcLine.toks)) := by
  have h1 := strip_comments_exact L hne h
  have h2 := strip_comments_exact (L.map (fun l => (⟨l.toks, .none⟩ : SrcLine))) (by simpa using hne) (by
    intro l hl
    simp only [List.mem_map] at hl
    obtain ⟨l', hl', rfl⟩ := hl
    exact ⟨(h l' hl').1, (h l' hl').2.1, by intro c hc; cases hc⟩)
  have e1 : (L.map (fun l => (⟨l.toks, .none⟩ : SrcLine))).map SrcLine.text = L.map SrcLine.toks := by
    rw [List.map_map]; apply List.map_congr_left; intro l _; simp [SrcLine.text]
  have e2 : (L.map (fun l => (⟨l.toks, .none⟩ : SrcLine))).map SrcLine.toks = L.map SrcLine.toks := by
    rw [List.map_map]; rfl
  rw [e1, e2] at h2
  unfold loadString
  rw [h1, h2]

-- non-vacuity: two lines, the first with a comment
example : (⟨[123], some [32, 34]⟩ : SrcLine).WF ∧ (⟨[125], .none⟩ : SrcLine).WF :=
  ⟨⟨.ch (by decide) (by decide) .nil, by intro c hc; simp at hc; subst hc; decide,
    by intro c hc; cases hc; intro x hx; simp at hx; rcases hx with rfl | rfl <;> decide⟩,
   ⟨.ch (by decide) (by decide) .nil, by intro c hc; simp at hc; subst hc; decide, by intro c hc; cases hc⟩⟩

/-! ## 2. Duplicate keys are rejected -/

/-- **duplicate_key_rejected**: a raw parse tree with a duplicate key in any object, at any depth, is rejected -/
theorem duplicate_key_rejected (raw : PV) (h : HasDupKey raw) : loadTree raw = .error .valueError := by
  simp [loadTree, hookOk_false_of_hasDupKey h]

/-- loading succeeds exactly on duplicate-free top-level objects, and returns the tree unchanged -/
theorem load_ok_iff (raw j : PV) :
    loadTree raw = .ok j ↔ ¬ HasDupKey raw ∧ (∃ kvs, raw = .dict kvs) ∧ j = raw := by
  unfold loadTree
  cases hk : hookOk raw with
  | false =>
    have := hasDupKey_of_hookOk_false raw hk
    simp [this]
  | true =>
    have hnd := (hookOk_iff raw).1 hk
    cases raw <;> simp [hnd, eq_comm]

/-- a text whose parse tree has a duplicate key is rejected by `load_config_string` -/
theorem load_string_rejects_duplicates (jl : List Nat → Option PV) (s : List Nat) (raw : PV)
    (hp : jl (stripComments s) = some raw) (h : HasDupKey raw) : loadString jl s = .error .valueError := by
  simp [loadString, hp, duplicate_key_rejected raw h]

/-- `hasDup` is the negation of `Nodup` -/
theorem hasDup_spec (ks : List Str) : hasDup ks = true ↔ ¬ ks.Nodup := hasDup_iff ks

-- non-vacuity: `{"a": [{"b": 1, "b": 2}]}`
example : HasDupKey (.dict [([97], .list [.dict [([98], .int 1), ([98], .int 2)]])]) :=
  .inDict (k := [97]) (List.mem_cons_self) (.inList (List.mem_cons_self) (.here (by decide)))

/-! ## 3. Loading what `dump` produced returns the original data -/

/-- **strip_render_id**: `json.dumps(cfg, indent=4)` never contains anything the comment stripper removes -/
theorem strip_render_id (lvl : Nat) (j : PV) (h : clean j = true) :
    stripComments (joinLines (render lvl j)) = joinLines (render lvl j) := by
  have hg := render_good lvl j h
  unfold stripComments
  rw [splitLines_joinLines _ (render_ne_nil lvl j) (fun l hl => (hg l hl).2)]
  congr 1
  conv => rhs; rw [← List.map_id (render lvl j)]
  apply List.map_congr_left
  intro l hl
  exact strip_no_comment (hg l hl).1

mutual
theorem dumpable_of_clean : ∀ (j : PV), clean j = true → dumpable j = true
  | .none, _ => rfl
  | .bool _, _ => rfl
  | .int _, _ => rfl
  | .flt _, _ => rfl
  | .fltOfInt _, _ => rfl
  | .str _, _ => rfl
  | .list xs, h => by simp only [clean] at h; simp only [dumpable]; exact dumpableL_of_cleanL xs h
  | .tuple xs, h => by simp only [clean] at h; simp only [dumpable]; exact dumpableL_of_cleanL xs h
  | .dict kvs, h => by simp only [clean] at h; simp only [dumpable]; exact dumpableK_of_cleanK kvs h
  | .inst _ _, h => by simp [clean] at h
theorem dumpableL_of_cleanL : ∀ (xs : List PV), cleanL xs = true → dumpableL xs = true
  | [], _ => rfl
  | x :: xs, h => by
    simp only [cleanL, Bool.and_eq_true] at h
    simp [dumpableL, dumpable_of_clean x h.1, dumpableL_of_cleanL xs h.2]
theorem dumpableK_of_cleanK : ∀ (kvs : List (Str × PV)), cleanK kvs = true → dumpableK kvs = true
  | [], _ => rfl
  | (k, v) :: kvs, h => by
    simp only [cleanK, Bool.and_eq_true] at h
    simp [dumpableK, dumpable_of_clean v h.1, dumpableK_of_cleanK kvs h.2]
end

/-- **load_dump_roundtrip**: for every configuration dict `cfg` (string keys unique per object, as in any Python dict;
float literals as `repr` prints them), `load_config_string(dump_config_string(cfg)) = cfg` — given that `json.loads`
inverts `json.dumps` on this text (the third-party parameter). -/
theorem load_dump_roundtrip (jl : List Nat → Option PV) (kvs : List (Str × PV))
    (hclean : clean (.dict kvs) = true) (hnd : ¬ HasDupKey (.dict kvs))
    (hjson : jl (joinLines (render 0 (.dict kvs))) = some (.dict kvs)) :
    ∃ text, dumpString (.dict kvs) = .ok text ∧ loadString jl text = .ok (.dict kvs) := by
  refine ⟨joinLines (render 0 (.dict kvs)), by simp [dumpString, dumpable_of_clean _ hclean], ?_⟩
  unfold loadString
  rw [strip_render_id 0 _ hclean, hjson]
  exact (load_ok_iff _ _).2 ⟨hnd, ⟨kvs, rfl⟩, rfl⟩

-- non-vacuity: `{"a#": ["\"#", 1.5]}` is clean and duplicate-free; its rendering has four lines
example : clean (.dict [([97, 35], .list [.str [34, 35], .flt [49, 46, 53]])]) = true := by decide
example : (render 0 (.dict [([97, 35], .list [.str [34, 35], .flt [49, 46, 53]])])).length = 6 := by decide

/-! ## 4. Typed conversion: soundness and completeness against the specification -/

/-- **admits_iff**: `_parse_config_value` succeeds with `v` exactly when the declared type admits the data and the
specification converts it to `v` (integer→float, list→tuple, defaults) — for every type, data tree and path. -/
theorem admits_iff (τ : Ty) (j v : PV) (p : Path) : parseValue τ j p = .ok v ↔ Admits τ j v :=
  parse_ok_iff_admits τ j v p

/-- the conversion is a function of type and data: no value is altered in any other way -/
theorem admits_functional (τ : Ty) (j v v' : PV) (h : Admits τ j v) (h' : Admits τ j v') : v = v' := by
  have a := ok_of_admits τ j v h []
  have b := ok_of_admits τ j v' h' []
  rw [a] at b
  cases b; rfl

/-- results do not depend on the path argument (it only labels errors) -/
theorem ok_independent_of_path (τ : Ty) (j v : PV) (p q : Path) (h : parseValue τ j p = .ok v) :
    parseValue τ j q = .ok v := ok_path_indep τ j v p q h

/-- **roundtrip**: for every well-formed type and JSON data tree, a structure obtained by conversion converts back
(`config_struct_to_dict`) to data that parses to the *same* structure. -/
theorem roundtrip (τ : Ty) (hw : wf τ = true) (j v : PV) (p : Path) (hj : isJson j = true)
    (h : parseValue τ j p = .ok v) : ∀ q, parseValue τ (toDict v) q = .ok v := fun q =>
  ok_of_admits τ _ v (admits_round τ j v hw hj (admits_of_ok τ j p v h)) q

/-- the converted-back data is JSON again and is itself a fixed point: `toDict` of re-parsed data is unchanged -/
theorem roundtrip_stable (τ : Ty) (hw : wf τ = true) (j v : PV) (p : Path) (hj : isJson j = true)
    (h : parseValue τ j p = .ok v) : ∀ q v', parseValue τ (toDict v) q = .ok v' → toDict v' = toDict v := by
  intro q v' h'
  rw [roundtrip τ hw j v p hj h q] at h'
  cases h'; rfl

-- non-vacuity: a struct with a default, an `Optional`, a fixed tuple, an int→float conversion
set_option exponentiation.threshold 2000 in
example : parseValue
    (.struct [67] [([97], .float, some (.flt [49, 46, 48])), ([98], .opt (.tupleFix [.int, .float]), .none)])
    (.dict [([98], .list [.int 1, .int 2])]) [] =
    .ok (.inst [67] [([97], .flt [49, 46, 48]), ([98], .tuple [.int 1, .fltOfInt 2])]) := rfl
example : wf (.struct [67] [([97], .float, some (.flt [49, 46, 48])), ([98], .opt (.tupleFix [.int, .float]), .none)]) = true := by
  decide

/-! ## 5. Errors: which, when, and what they name -/

/-- **only_config_error** (full strength): whatever the type and the data, the only exception that leaves
`_parse_config_value` / `config_struct_from_dict` is a configuration error. -/
theorem only_config_error (τ : Ty) (j : PV) (p : Path) (e : PyExc)
    (h : parseValue τ j p = .error e) : ∃ c q, e = .config c q := by
  obtain ⟨r, k, _, he⟩ := err_spec τ j p e h
  exact ⟨k, p ++ r, he⟩

/-- every outcome is a structure or a configuration error — nothing else -/
theorem parse_total (τ : Ty) (j : PV) (p : Path) :
    (∃ v, parseValue τ j p = .ok v) ∨ (∃ c q, parseValue τ j p = .error (.config c q)) := by
  cases h : parseValue τ j p with
  | ok v => exact Or.inl ⟨v, rfl⟩
  | error e => obtain ⟨c, q, rfl⟩ := only_config_error τ j p e h; exact Or.inr ⟨c, q, rfl⟩

/-- **error_names_item**: a configuration error carries the path of an offending item — the reported path extends
the path of the call by a relative path `r` that leads to an item of exactly the reported kind (type mismatch /
missing required field / unknown field). -/
theorem error_names_item (τ : Ty) (j : PV) (p q : Path) (c : CfgKind)
    (h : parseValue τ j p = .error (.config c q)) : ∃ r, q = p ++ r ∧ Offends τ j r c := by
  obtain ⟨r, k, ho, he⟩ := err_spec τ j p _ h
  simp only [PyExc.config.injEq] at he
  obtain ⟨rfl, rfl⟩ := he
  exact ⟨r, rfl, ho⟩

/-- **offending_is_rejected**: *whenever* some item is unknown, missing without default or not admitted by its
declared type, conversion fails (for every path argument) — by `only_config_error`, with a configuration error. -/
theorem offending_is_rejected {τ : Ty} {j : PV} {r : Path} {k : CfgKind} (h : Offends τ j r k) (p : Path) :
    ∃ c q, parseValue τ j p = .error (.config c q) := by
  obtain ⟨e, he⟩ := offending_rejected h p
  obtain ⟨c, q, rfl⟩ := only_config_error τ j p e he
  exact ⟨c, q, he⟩

/-- conversion succeeds iff there is no offending item -/
theorem accepted_iff_no_offender (τ : Ty) (j : PV) (p : Path) :
    (∃ v, parseValue τ j p = .ok v) ↔ ¬ ∃ r k, Offends τ j r k := by
  constructor
  · rintro ⟨v, hv⟩ ⟨r, k, ho⟩
    obtain ⟨e, he⟩ := offending_rejected ho p
    rw [hv] at he; cases he
  · intro hno
    cases hp : parseValue τ j p with
    | ok v => exact ⟨v, rfl⟩
    | error e =>
      obtain ⟨r, k, ho, _⟩ := err_spec τ j p e hp
      exact absurd ⟨r, k, ho⟩ hno

/-- a value without `len()` (`None`, `bool`, `int`, `float`, an instance) in a fixed-length `Tuple[...]` field is a
type mismatch naming the item (before commit 98ede17 this class escaped as `TypeError`) -/
theorem nonsized_is_mismatch (ts : List Ty) (j : PV) (p : Path)
    (h : ∀ xs, j ≠ .list xs ∧ j ≠ .tuple xs) : parseValue (.tupleFix ts) j p = .error (.config .mismatch p) := by
  cases j with
  | list xs => exact absurd rfl (h xs).1
  | tuple xs => exact absurd rfl (h xs).2
  | _ => simp only [parseValue]; rfl

/-- an integer beyond the float range in a float field is a type mismatch naming the item (before commit f71d1e5
this class escaped as `OverflowError`) -/
theorem hugeint_is_mismatch (n : Int) (p : Path) (h : floatOverflow n = true) :
    parseValue .float (.int n) p = .error (.config .mismatch p) := by
  rw [parseValue_float_int]; simp [h, mismatch]

set_option exponentiation.threshold 2000 in
/-- the boundary of the float range is exact: `2^1024 − 2^970` does not convert, its predecessor does -/
theorem float_boundary :
    floatOverflow (2 ^ 1024 - 2 ^ 970) = true ∧ floatOverflow (2 ^ 1024 - 2 ^ 970 - 1) = false ∧
    floatOverflow (-(2 ^ 1024 - 2 ^ 970)) = true := by
  unfold floatOverflow; decide +kernel

-- non-vacuity: a wrong scalar two levels down is a configuration error with its path
example : parseValue (.struct [67] [([120], .list (.tupleFix [.int, .str]), .none)])
    (.dict [([120], .list [.list [.int 1, .str []], .list [.int 1, .int 2]])]) [] =
    .error (.config .mismatch [.field [120], .idx 1, .idx 1]) := rfl
-- the two formerly escaping inputs: `x: Tuple[int, int]` given `5`, `x: float` given `10**400`
example : parseValue (.struct [67] [([120], .tupleFix [.int, .int], .none)]) (.dict [([120], .int 5)]) [] =
    .error (.config .mismatch [.field [120]]) := rfl
set_option exponentiation.threshold 2000 in
example : parseValue .float (.int (10 ^ 400)) [] = .error (.config .mismatch []) :=
  hugeint_is_mismatch _ _ (by decide +kernel)
example : Offends (.struct [67] [([120], .tupleFix [.int, .int], .none)]) (.dict [([120], .int 5)]) [.field [120]] .mismatch :=
  .field (d := .none) (List.mem_cons_self) rfl (.mismatch rfl)

/-! ## 6. The keyword constructor validates every given value -/

theorem ctorFields_validates : ∀ (fs : List Field) (kw items : List (Str × PV)),
    ctorFields fs kw = .ok items →
    ∀ n t d x, (n, t, d) ∈ fs → assoc n kw = some x → ∃ y, Admits t x y
  | [], _, _, _, n, t, d, x, hm, _ => by simp at hm
  | (n', t', d') :: fs, kw, items, h, n, t, d, x, hm, ha => by
    simp only [ctorFields] at h
    simp only [List.mem_cons, Prod.mk.injEq] at hm
    cases ha' : assoc n' kw with
    | some x' =>
      simp only [ha'] at h
      cases hx : parseValue t' x' [] with
      | error e => simp [hx] at h
      | ok y =>
        cases hr : ctorFields fs kw with
        | error e => simp [hx, hr] at h
        | ok ys =>
          rcases hm with ⟨rfl, rfl, rfl⟩ | hm
          · rw [ha] at ha'; cases ha'; exact ⟨y, admits_of_ok _ _ _ _ hx⟩
          · exact ctorFields_validates fs kw ys hr n t d x hm ha
    | none =>
      simp only [ha'] at h
      cases d' with
      | none => simp at h
      | some dv =>
        cases hr : ctorFields fs kw with
        | error e => simp [hr] at h
        | ok ys =>
          rcases hm with ⟨rfl, rfl, rfl⟩ | hm
          · rw [ha] at ha'; cases ha'
          · exact ctorFields_validates fs kw ys hr n t d x hm ha

/-- **construct_validates**: a structure built by the `@configstruct` constructor only holds keyword values their
declared field types admit -/
theorem construct_validates (name : Str) (fs : List Field) (kw : List (Str × PV)) (v : PV)
    (h : construct (.struct name fs) kw = .ok v) :
    ∀ n t d x, (n, t, d) ∈ fs → assoc n kw = some x → ∃ y, Admits t x y := by
  simp only [construct] at h
  cases hc : ctorFields fs kw with
  | error e => simp [hc] at h
  | ok items => exact ctorFields_validates fs kw items hc

/-- **ctor_revalidation_noop**: the call `cls(**items)` that ends `_parse_config_struct` validates the already parsed
items once more (tuples as tuples, a nested instance through its own `init=True` items). For a well-formed structure type and
JSON data this second validation cannot fail and stores the items unchanged — so modelling it as "build the instance"
(`structResult`) is faithful. -/
theorem ctor_revalidation_noop (name : Str) (fs : List Field) (hw : wf (.struct name fs) = true)
    (kvs items : List (Str × PV)) (p : Path) (hj : isJsonK kvs = true) (h : parseFields fs kvs p = .ok items) :
    construct (.struct name fs) items = .ok (.inst name items) := by
  have hf := admitsF_of_ok fs kvs p items h
  have hkeys := hf.keys
  simp only [wf, Bool.and_eq_true, Bool.not_eq_eq_eq_not, Bool.not_true] at hw
  have hc := ctorFields_of_parsed fs kvs items hw.2 hj hf items
    (fun n y hm => assoc_of_nodup (by rw [hkeys]; exact hw.1) hm)
  have hu : firstUnknown (fieldNames fs) items = .none :=
    (firstUnknown_none _ _).2 (by rw [hkeys]; exact fun k hk => hk)
  simp [construct, hc, hu]

/-! ## 6b. The acceptance test `_check_config_struct_type`, and `config_struct_from_dict` as a whole -/

/-- **check_accepts_iff_supported**: the acceptance test passes exactly the documented field types (scalars, `Any`,
untyped `list`/`List`/`Tuple`/`dict`/`Dict`, `Optional[T]`, `List[T]`, `Dict[str, T]`, `Tuple[T, ...]`,
`Tuple[T1, …]`, nested structures) — for every annotation tree and every path argument. -/
theorem check_accepts_iff_supported (ρ : RawTy) (p : Path) : checkType ρ p = .ok () ↔ Supported ρ :=
  ⟨supported_of_check ρ p, fun h => check_of_supported ρ h p⟩

/-- what it rejects, it rejects with one of its three configuration errors, naming a position below its path -/
theorem check_only_config_error (ρ : RawTy) (p : Path) (e : PyExc) (h : checkType ρ p = .error e) :
    ∃ k r, e = .config k (p ++ r) ∧ (k = .badUnion ∨ k = .badKey ∨ k = .badType) := check_err ρ p e h

/-- **accepted_type_is_handled**: every accepted type is one `_parse_config_value` really recognises — no position
of it is the "unrecognised type" fall-through (`Ty.never`), so a type-mismatch error for an accepted structure is
always about the *data*. -/
theorem accepted_type_is_handled (ρ : RawTy) (p : Path) (h : checkType ρ p = .ok ()) (hi : allInit ρ = true) :
    ∃ τ, elabTy ρ = some τ ∧ noNever τ = true := elab_of_supported ρ (supported_of_check ρ p h) hi

/-- conversely the parser, fed a type the acceptance test would reject (the constructor does not run the test),
still raises nothing but configuration errors -/
theorem parseRaw_only_config_error (ρ : RawTy) (v : PV) (p : Path) (e : PyExc)
    (h : parseRaw ρ v p = some (.error e)) : ∃ c q, e = .config c q := by
  unfold parseRaw at h
  cases hτ : elabTy ρ with
  | none => simp [hτ] at h
  | some τ => simp [hτ] at h; exact only_config_error τ v p e h

-- the rejected classes, and what the parser makes of them
example : checkType (.union [.int, .str]) [] = .error (.config .badUnion []) := rfl
example : elabTy (.union [.int, .str, .noneType]) = some (.opt .str) := rfl          -- the last member wins
example : checkType (.listOf (.dictOf .int .int)) [] = .error (.config .badKey [.elem]) := rfl
example : checkType (.struct [67] [([102], .tupleFix [.int, .other], .none, true)]) [] =
    .error (.config .badType [.field [102], .idx 1]) := rfl
example : checkType .builtinTuple [] = .error (.config .badType []) ∧ elabTy .builtinTuple = some .tupleAny := ⟨rfl, rfl⟩
example : elabTy .noneType = some (.opt .never) ∧ elabTy .other = some .never := ⟨rfl, rfl⟩
-- a field with `init=False` is skipped by the test, whatever its type
example : checkType (.struct [67] [([102], .other, .none, false)]) [] = .ok () := rfl

/-- `config_struct_from_dict` with a class that is not a structure: `TypeError` (API misuse) -/
theorem fromDictFull_not_a_struct (ρ : RawTy) (data : PV) (h : ∀ n fs, ρ ≠ .struct n fs) :
    fromDictFull ρ data = some (.error .typeError) := by
  cases ρ with
  | struct n fs => exact absurd rfl (h n fs)
  | _ => rfl

/-- an unsupported structure is rejected before any data is looked at -/
theorem fromDictFull_rejects_unsupported (n : Str) (fs : List RawField) (data : PV)
    (h : ¬ Supported (.struct n fs)) :
    ∃ k r, fromDictFull (.struct n fs) data = some (.error (.config k r)) ∧
      (k = .badUnion ∨ k = .badKey ∨ k = .badType) := by
  cases hc : checkType (.struct n fs) [] with
  | ok u => cases u; exact absurd (supported_of_check _ _ hc) h
  | error e =>
    obtain ⟨k, r, he, hk⟩ := check_err _ _ e hc
    exact ⟨k, [] ++ r, by simp only [fromDictFull, hc, he], hk⟩

/-- **from_dict_is_parse**: for a supported structure and dict data, `config_struct_from_dict` is the recursive
parser started at the empty path — so every theorem of sections 4 and 5 applies to the public entry point. -/
theorem from_dict_is_parse (n : Str) (fs : List RawField) (kvs : List (Str × PV)) (τ : Ty)
    (hs : Supported (.struct n fs)) (hτ : elabTy (.struct n fs) = some τ) :
    fromDictFull (.struct n fs) (.dict kvs) = some (parseValue τ (.dict kvs) []) := by
  have hc := check_of_supported _ hs []
  simp only [elabTy] at hτ
  cases hf : elabF fs with
  | none => simp [hf] at hτ
  | some fs' =>
    simp [hf] at hτ; subst hτ
    simp only [fromDictFull, hc, elabTy, hf, Option.map_some, parseTop, parseValue_struct_dict]

/-- **toplevel_nondict_rejected**: data that is not a dict never yields a structure; what escapes is `TypeError`
or `AttributeError` (the unguarded `f.name in data`, `data[f.name]`, `data.keys()`), or "missing value" when the
`in` test happens to work (a `str`/`list` data) — the function's contract is `data: dict`. -/
theorem toplevel_nondict_rejected (n : Str) (fs : List RawField) (data : PV) (τ : Ty)
    (hs : Supported (.struct n fs)) (hτ : elabTy (.struct n fs) = some τ) (hd : ∀ kvs, data ≠ .dict kvs) :
    ∃ e, fromDictFull (.struct n fs) data = some (.error e) ∧
      (e = .typeError ∨ e = .attributeError ∨ ∃ f, e = .config .missing [.field f]) := by
  have hc := check_of_supported _ hs []
  simp only [elabTy] at hτ
  cases hf : elabF fs with
  | none => simp [hf] at hτ
  | some fs' =>
    have hdata : ∀ kvs, data ≠ .dict kvs := hd
    cases ht : topFields fs' data with
    | none =>
      refine ⟨.attributeError, ?_, Or.inr (Or.inl rfl)⟩
      cases data <;> first | exact absurd rfl (hdata _) | simp [fromDictFull, hc, elabTy, hf, parseTop, ht]
    | some e =>
      refine ⟨e, ?_, ?_⟩
      · cases data <;> first | exact absurd rfl (hdata _) | simp [fromDictFull, hc, elabTy, hf, parseTop, ht]
      · rcases topFields_kind fs' data e ht with h | ⟨f, h⟩
        · exact Or.inl h
        · exact Or.inr (Or.inr ⟨f, h⟩)

/-! ## 6c. `create_config_from_file`: which file, what is loaded, which errors -/

/-- the argument wins over `$QMI_CONFIG`; without either there is no file -/
theorem chooseFile_spec (arg env : Option Str) :
    chooseFile arg env = (match arg with | some f => some f | .none => env) := rfl

/-- no file name anywhere: the default configuration `CfgQmi()` -/
theorem createConfig_no_file (τ : Ty) (rf : Str → Option (List Nat)) (ab : Str → Str) (jl : List Nat → Option PV) :
    createConfig τ rf ab jl .none .none = construct τ [] := rfl

/-- … which for the shipped `CfgQmi` is the structure the empty document loads to -/
theorem createConfig_no_file_shipped (rf : Str → Option (List Nat)) (ab : Str → Str) (jl : List Nat → Option PV) :
    createConfig Gen.CfgQmi rf ab jl .none .none = fromDict Gen.CfgQmi (.dict []) := rfl

/-- the environment variable is used only when no argument is given -/
theorem createConfig_arg_wins (τ : Ty) (rf : Str → Option (List Nat)) (ab : Str → Str) (jl : List Nat → Option PV)
    (f : Str) (env : Option Str) :
    createConfig τ rf ab jl (some f) env = createConfig τ rf ab jl .none (some f) := rfl

/-- **createConfig_errors**: with a file name, the only exceptions are `OSError` (the file cannot be read), `ValueError`
(not JSON / duplicate key) and configuration errors -/
theorem createConfig_errors (τ : Ty) (rf : Str → Option (List Nat)) (ab : Str → Str) (jl : List Nat → Option PV)
    (f : Str) (env : Option Str) (e : PyExc) (h : createConfig τ rf ab jl (some f) env = .error e) :
    e = .osError ∨ e = .valueError ∨ ∃ c q, e = .config c q := by
  simp only [createConfig, chooseFile] at h
  cases hr : rf f with
  | none => simp [hr] at h; exact Or.inl h.symm
  | some text =>
    simp only [hr] at h
    cases hl : loadString jl text with
    | error e' =>
      simp [hl] at h; subst h
      unfold loadString at hl
      cases hj : jl (stripComments text) with
      | none => simp [hj] at hl; exact Or.inr (Or.inl hl.symm)
      | some raw =>
        simp only [hj, loadTree] at hl
        split at hl
        · cases raw <;> simp at hl <;> exact Or.inr (Or.inr ⟨_, _, hl.symm⟩)
        · simp at hl; exact Or.inr (Or.inl hl.symm)
    | ok cfg =>
      simp only [hl] at h
      cases cfg with
      | dict kvs => exact Or.inr (Or.inr (only_config_error τ _ [] e h))
      | _ => simp at h; exact Or.inr (Or.inr ⟨_, _, h.symm⟩)

/-- **createConfig_ok**: a loaded configuration is the document's data with `config_file` set to the absolute path of
the chosen file (overriding a `config_file` key of the document), converted as the specification `Admits` says -/
theorem createConfig_ok (τ : Ty) (rf : Str → Option (List Nat)) (ab : Str → Str) (jl : List Nat → Option PV)
    (f : Str) (env : Option Str) (v : PV) (h : createConfig τ rf ab jl (some f) env = .ok v) :
    ∃ text kvs, rf f = some text ∧ loadString jl text = .ok (.dict kvs) ∧
      assoc configFileKey (setKey configFileKey (.str (ab f)) kvs) = some (.str (ab f)) ∧
      Admits τ (.dict (setKey configFileKey (.str (ab f)) kvs)) v := by
  simp only [createConfig, chooseFile] at h
  cases hr : rf f with
  | none => simp [hr] at h
  | some text =>
    simp only [hr] at h
    cases hl : loadString jl text with
    | error e' => simp [hl] at h
    | ok cfg =>
      simp only [hl] at h
      cases cfg with
      | dict kvs => exact ⟨text, kvs, rfl, hl, assoc_setKey_same _ _ _, admits_of_ok τ _ [] v h⟩
      | _ => simp at h

/-- every other key of the document reaches the parser unchanged -/
theorem setKey_keeps_other_keys (k k' : Str) (v : PV) (kvs : List (Str × PV)) (hne : k' ≠ k) :
    assoc k' (setKey k v kvs) = assoc k' kvs := assoc_setKey_other k k' v kvs hne

/-! ## 6c'. `qmi.start(context_cfg=…)` and the other routes into the conversion -/

/-- a failure of `qmi.start(context_cfg=…)` is the failure of `config_struct_from_dict` on one of the given items -/
theorem context_cfg_error (ρ : RawTy) : ∀ (ctxs cfg : List (Str × PV)) (e : PyExc),
    applyContextCfg ρ ctxs cfg = some (.error e) → ∃ k d, (k, d) ∈ cfg ∧ fromDictFull ρ d = some (.error e)
  | _, [], e, h => by simp [applyContextCfg] at h
  | ctxs, (k, d) :: rest, e, h => by
    simp only [applyContextCfg] at h
    cases hf : fromDictFull ρ d with
    | none => simp [hf] at h
    | some r =>
      cases r with
      | error e' => simp [hf] at h; subst h; exact ⟨k, d, by simp, hf⟩
      | ok v =>
        simp only [hf] at h
        obtain ⟨k', d', hm, he⟩ := context_cfg_error ρ _ rest e h
        exact ⟨k', d', by simp [hm], he⟩

/-- when it succeeds, every given item converts -/
theorem context_cfg_ok (ρ : RawTy) : ∀ (ctxs cfg out : List (Str × PV)),
    applyContextCfg ρ ctxs cfg = some (.ok out) → ∀ k d, (k, d) ∈ cfg → ∃ v, fromDictFull ρ d = some (.ok v)
  | _, [], _, _, k, d, hm => by simp at hm
  | ctxs, (k0, d0) :: rest, out, h, k, d, hm => by
    simp only [applyContextCfg] at h
    cases hf : fromDictFull ρ d0 with
    | none => simp [hf] at h
    | some r =>
      cases r with
      | error e' => simp [hf] at h
      | ok v =>
        simp only [hf] at h
        simp only [List.mem_cons, Prod.mk.injEq] at hm
        rcases hm with ⟨rfl, rfl⟩ | hm
        · exact ⟨v, hf⟩
        · exact context_cfg_ok ρ _ rest out h k d hm

/-- **context_cfg_only_config_error**: per-context dicts given to `qmi.start` are refused with nothing but a
configuration error (which, by `error_names_item`, names the offending item) -/
theorem context_cfg_only_config_error (n : Str) (fs : List RawField) (τ : Ty)
    (hs : Supported (.struct n fs)) (hτ : elabTy (.struct n fs) = some τ)
    (ctxs cfg : List (Str × PV)) (hd : ∀ k d, (k, d) ∈ cfg → ∃ kvs, d = .dict kvs) (e : PyExc)
    (h : applyContextCfg (.struct n fs) ctxs cfg = some (.error e)) : ∃ c q, e = .config c q := by
  obtain ⟨k, d, hm, he⟩ := context_cfg_error _ ctxs cfg e h
  obtain ⟨kvs, rfl⟩ := hd k d hm
  rw [from_dict_is_parse n fs kvs τ hs hτ] at he
  simp only [Option.some.injEq] at he
  exact only_config_error τ _ [] e he

/-- **no_adhoc_constructor_calls** (regenerated from the source on every run): nowhere in `qmi/` is a `@configstruct`
class built as `Cls(**data)` — every route that turns a dict into a structure goes through `config_struct_from_dict`
(the constructor reports unknown keys with `TypeError` and names no item) -/
theorem no_adhoc_constructor_calls : Gen.adhocConstructorCalls = [] := by decide

/-- the two routes of `context_singleton` are the ones the model composes -/
theorem singleton_routes :
    ("qmi/core/context_singleton.py", "start", "CfgContext") ∈ Gen.conversionCalls ∧
    ("qmi/core/context_singleton.py", "create_config_from_file", "CfgQmi") ∈ Gen.conversionCalls := by decide

/-! ## 6c''. Files: a load depends on the current content of the file and on nothing else -/

/-- **load_after_write**: whatever was loaded, written or handed out before, loading a file gives what its current
text loads to -/
theorem load_after_write (jl : List Nat → Option PV) (fs : FS) (f : Str) (t : List Nat) :
    loadFile jl (fsWrite fs f t) f = loadString jl t := by
  simp [loadFile, fsWrite, fsRead]

/-- writing one file does not change what another file loads to -/
theorem load_other_file (jl : List Nat → Option PV) (fs : FS) (f g : Str) (t : List Nat) (h : f ≠ g) :
    loadFile jl (fsWrite fs f t) g = loadFile jl fs g := by
  simp [loadFile, fsWrite, fsRead, h]

/-- **dump_file_load_file**: `load_config_file` after `dump_config_file` returns the dumped data (json as parameter),
also when other files were written in between -/
theorem dump_file_load_file (jl : List Nat → Option PV) (fs fs' : FS) (f : Str) (kvs : List (Str × PV))
    (hclean : clean (.dict kvs) = true) (hnd : ¬ HasDupKey (.dict kvs))
    (hjson : jl (joinLines (render 0 (.dict kvs))) = some (.dict kvs))
    (hd : dumpFile fs (.dict kvs) f = .ok fs') : loadFile jl fs' f = .ok (.dict kvs) := by
  obtain ⟨text, h1, h2⟩ := load_dump_roundtrip jl kvs hclean hnd hjson
  simp only [dumpFile, h1] at hd
  cases hd
  rw [load_after_write]; exact h2

/-! ## 6d. Line terminators -/

/-- **strip_newline_style_irrelevant**: `\r`, `\n` (and therefore `\r\n`) are interchangeable line terminators: two
texts that differ only in which of the two characters ends a line strip to the same text -/
theorem strip_newline_style_irrelevant (s s' : List Nat) (h : nlNorm s = nlNorm s') :
    stripComments s = stripComments s' := by
  unfold stripComments
  rw [← splitLines_nlNorm s, ← splitLines_nlNorm s', h]

theorem load_newline_style_irrelevant (jl : List Nat → Option PV) (s s' : List Nat) (h : nlNorm s = nlNorm s') :
    loadString jl s = loadString jl s' := by
  unfold loadString; rw [strip_newline_style_irrelevant s s' h]

/-- what `dump_config_string` produces contains no carriage return: written in text mode and read back with
universal newlines (any platform), the file gives the same text again -/
theorem dump_has_no_cr (lvl : Nat) (j : PV) (h : clean j = true) : ∀ c ∈ joinLines (render lvl j), c ≠ 13 := by
  have hg := render_good lvl j h
  have key : ∀ (ls : List (List Nat)), (∀ l ∈ ls, NoNL l) → ∀ c ∈ joinLines ls, c ≠ 13 := by
    intro ls
    induction ls with
    | nil => intro _ c hc; simp [joinLines] at hc
    | cons l ls ih =>
      intro hl c hc
      cases ls with
      | nil => simp only [joinLines] at hc; exact (hl l (by simp) c hc).2
      | cons l2 ls2 =>
        simp only [joinLines, List.mem_append, List.mem_cons] at hc
        rcases hc with hc | rfl | hc
        · exact (hl l (by simp) c hc).2
        · decide
        · exact ih (fun x hx => hl x (by simp [hx])) c hc
  exact key _ (fun l hl => (hg l hl).2)

-- non-vacuity: `{#c\r}` and `{#c\n}`
example : nlNorm [123, 35, 99, 13, 125] = nlNorm [123, 35, 99, 10, 125] := by decide

/-! ## 7. The shipped configuration structures (regenerated from `config_defs.py` on every run) -/

/-- every shipped structure is well formed: distinct field names, every default survives the round trip -/
theorem shipped_wf : Gen.shipped.all wf = true := by decide

/-- **shipped_roundtrip**: the round trip holds for `CfgQmi`, `CfgContext`, `CfgLogging`, … as they are defined now -/
theorem shipped_roundtrip (τ : Ty) (hτ : τ ∈ Gen.shipped) (j v : PV) (p : Path) (hj : isJson j = true)
    (h : parseValue τ j p = .ok v) : ∀ q, parseValue τ (toDict v) q = .ok v :=
  roundtrip τ (by have := shipped_wf; rw [List.all_eq_true] at this; exact this τ hτ) j v p hj h

-- non-vacuity: `CfgLogging` is shipped; `{"rate_limit": 5}` loads (integer → float), `{"rate_limit": "x"}` names the item
example : Gen.CfgLogging ∈ Gen.shipped := by simp [Gen.shipped]
set_option exponentiation.threshold 2000 in
example : ∃ v, parseValue Gen.CfgLogging (.dict [([114, 97, 116, 101, 95, 108, 105, 109, 105, 116], .int 5)]) [] = .ok v :=
  ⟨_, rfl⟩
example : parseValue Gen.CfgLogging (.dict [([114, 97, 116, 101, 95, 108, 105, 109, 105, 116], .str [120])]) [] =
    .error (.config .mismatch [.field [114, 97, 116, 101, 95, 108, 105, 109, 105, 116]]) := rfl

/-- `CfgQmi()` (no configuration file) is what the empty document `{}` loads to -/
theorem cfgQmi_empty_document_is_default : fromDict Gen.CfgQmi (.dict []) = construct Gen.CfgQmi [] := rfl

end QmiModel.Config
