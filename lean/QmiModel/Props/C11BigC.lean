import QmiModel.Model.WakeSys
import QmiModel.Model.WakeEnc
import QmiModel.Gen.WakeCert
/-!
# C11 — chunk obligations of the larger systems (the loop task and two stop requests)

The reachable set of `sysLoop2` is not computed by the kernel: `Gen/WakeCert.lean` holds it as a table of packed states
(written by the compiled driver on every run); each theorem below re-checks one chunk of the table — every entry satisfies
the state obligations and all its successors are in the table again (`chunkOk`, see `Model/WakeEnc.lean`).  Glued in
`Props/C11.lean` by `cert_chunks_sound`.
-/
namespace QmiModel.C11
open QmiModel.Wake QmiModel.Wake.Systems QmiModel.Gen.WakeCert

set_option maxRecDepth 200000 in
theorem loop2_init : initOk sysLoop2 certLoop2 nbkLoop2 = true := by decide +kernel

set_option maxRecDepth 200000 in
theorem loop2_chunk_0 : chunkOk sysLoop2 (goodLoop sysLoop2) certLoop2 nbkLoop2 0 = true := by decide +kernel

set_option maxRecDepth 200000 in
theorem loop2_chunk_1 : chunkOk sysLoop2 (goodLoop sysLoop2) certLoop2 nbkLoop2 1 = true := by decide +kernel

set_option maxRecDepth 200000 in
theorem loop2_chunk_2 : chunkOk sysLoop2 (goodLoop sysLoop2) certLoop2 nbkLoop2 2 = true := by decide +kernel

set_option maxRecDepth 200000 in
theorem loop2_chunk_3 : chunkOk sysLoop2 (goodLoop sysLoop2) certLoop2 nbkLoop2 3 = true := by decide +kernel

end QmiModel.C11
