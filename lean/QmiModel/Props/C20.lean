import QmiModel.Lemmas.C20Binding
import QmiModel.Lemmas.C20BatchGet
import QmiModel.Lemmas.C20Parse
import QmiModel.Lemmas.C20Touch
import QmiModel.Lemmas.C20Case
import QmiModel.Lemmas.C20SetGet
/-!
# C20 — ADwin parameter names bind one-to-one; batch access equals single access

Property theorems only (helper lemmas: `Lemmas/C20*.lean`; model: `Model/Adbasic.lean`).
Everything is quantified over *all* symbol lists / file maps / layouts / name lists / value
assignments / device states — induction over the lists, no bounds.

| statement of the property                                   | theorem(s)                                              |
|---|---|
| each name denotes exactly one register                      | `binding_injective`, `name_denotes_one_register`        |
| no two names (ignoring case) denote the same register       | `binding_injective`, `names_resolve_injectively`        |
| the binding is what the program says                        | `binding_complete`                                      |
| a violating program is rejected, naming file and line       | `conflicting_definitions_rejected`, `violation_rejected_with_position`, `analyze_outcomes` |
| range merging                                               | `ranges_partition`                                      |
| batch write ≡ one at a time                                 | `batch_set_eq_single`, `start_with_params_eq_single`    |
| batch read ≡ one at a time, same values                     | `batch_get_eq_single`, `batch_get_eq_single_on_parsed_program`; outside the set-of-names domain: `batch_get_any_names`, `batch_get_drops_repeated_spelling`; error paths: second halves of `batch_set_eq_single` / `batch_get_eq_single` |
| touches exactly the bound registers                         | `touches_exactly_bound_registers`                       |
| through the real driver layer; registers that do not exist  | `validated_accessors_eq_library_semantics`, `batch_eq_single_validated`, `nonexistent_register_refused`, `set_then_get` |
| tables configured by hand; process start                   | `config_table_spec`, `start_with_params_eq_single`, `start_with_params_touches_every_parameter`, `start_with_params_writes_given_or_zero` |
| parsing yields a result                                     | `parse_terminates` (unconditional, ≤ `length fs + 1` opens), `include_cycle_parsed_once` |
-/
namespace QmiModel.Adbasic

/-! ## 1. The binding is one-to-one -/

private theorem upper_keys_nodup {τ : Type} [DecidableEq τ] (d : Dict Str τ)
    (h1 : OneToOne d) (h2 : (dictKeys d).Nodup) : ((dictKeys d).map upper).Nodup := by
  rw [List.Nodup, List.pairwise_map]
  refine List.Pairwise.imp_of_mem ?_ h2
  intro a b ha hb hne hu
  have ga := (dictGet_isSome_iff d a).2 ha
  have gb := (dictGet_isSome_iff d b).2 hb
  cases hga : dictGet d a with
  | none => rw [hga] at ga; simp at ga
  | some ta =>
    cases hgb : dictGet d b with
    | none => rw [hgb] at gb; simp at gb
    | some tb => exact hne ((h1 a b ta tb hga hgb).1 hu)

private theorem analyze_ok {syms : List Sym} {b : Binding} (h : analyze syms = .ok b) :
    ∃ sd sp, loopCls dataClass BState.empty syms = .ok sd ∧ b.data = sd.info ∧
      loopCls (parClass (dataInfoUpper b.data)) BState.empty syms = .ok sp ∧ b.param = sp.info := by
  unfold analyze extractData at h
  cases hd : loopCls dataClass BState.empty syms with
  | error e => rw [hd] at h; simp at h
  | ok sd =>
    rw [hd] at h
    simp only [extractPar] at h
    cases hp : loopCls (parClass (dataInfoUpper sd.info)) BState.empty syms with
    | error e => rw [hp] at h; simp at h
    | ok sp =>
      rw [hp] at h
      simp only at h
      injection h with h
      subst h
      exact ⟨sd, sp, rfl, rfl, hp, rfl⟩

/-- **binding_injective.** Whenever the analysis accepts a program, in the parameter table and in the
array table: names are pairwise distinct even ignoring letter case, and no two names denote the same
register (Par / FPar / array element, resp. Data array). -/
theorem binding_injective (syms : List Sym) (b : Binding) (h : analyze syms = .ok b) :
    OneToOne b.param ∧ OneToOne b.data ∧
    ((dictKeys b.param).map upper).Nodup ∧ ((dictKeys b.data).map upper).Nodup := by
  obtain ⟨sd, sp, hd, ed, hp, ep⟩ := analyze_ok h
  have id := (loopCls_ok dataClass syms binv_empty hd).1
  have ip := (loopCls_ok _ syms binv_empty hp).1
  rw [ed, ep]
  exact ⟨ip.oneToOne, id.oneToOne, upper_keys_nodup _ ip.oneToOne ip.nodup, upper_keys_nodup _ id.oneToOne id.nodup⟩

/-- hypotheses of `binding_injective` are satisfiable by a non-trivial program (two arrays, five parameters) -/
example : (match analyze
    [⟨"m.bas".toList, 1, "DATA_arr".toList, "Data_10".toList⟩, ⟨"m.bas".toList, 2, "PAR_one".toList, "Par_1".toList⟩,
     ⟨"m.bas".toList, 3, "par_Two".toList, "FPAR_1".toList⟩, ⟨"i.inc".toList, 1, "PAR_e1".toList, "data_ARR[1]".toList⟩,
     ⟨"i.inc".toList, 2, "PAR_e2".toList, "Data_arr[2]".toList⟩, ⟨"i.inc".toList, 3, "Pi".toList, "3.14159".toList⟩,
     ⟨"i.inc".toList, 4, "PAR_one".toList, "Par_01".toList⟩] with
    | .ok b => b.param == [("one".toList, .par 1), ("Two".toList, .fpar 1), ("e1".toList, .elem 10 1), ("e2".toList, .elem 10 2)]
               && b.data == [("arr".toList, 10)]
    | .error _ => false) = true := by decide +kernel

/-- **binding_complete.** An accepted program's binding contains exactly the definitions written in the
program (nothing is dropped, nothing invented). -/
theorem binding_complete (syms : List Sym) (b : Binding) (h : analyze syms = .ok b) :
    (∀ n i, dictGet b.data n = some i ↔ (n, i) ∈ defsOf dataClass syms) ∧
    (∀ n d, dictGet b.param n = some d ↔ (n, d) ∈ defsOf (parClass (dataInfoUpper b.data)) syms) := by
  obtain ⟨sd, sp, hd, ed, hp, ep⟩ := analyze_ok h
  rw [ed] at hp
  obtain ⟨_, _, d3, d4, _⟩ := loopCls_ok dataClass syms binv_empty hd
  obtain ⟨_, _, p3, p4, _⟩ := loopCls_ok _ syms binv_empty hp
  rw [ed, ep]
  constructor
  · intro n i
    constructor
    · intro hg
      rcases d4 n i hg with h1 | h1
      · simp [BState.empty, dictGet] at h1
      · exact h1
    · intro hm; exact d3 (n, i) hm
  · intro n d
    constructor
    · intro hg
      rcases p4 n d hg with h1 | h1
      · simp [BState.empty, dictGet] at h1
      · exact h1
    · intro hm; exact p3 (n, d) hm

/-- **conflicting_definitions_rejected.** If two definitions of the program cannot both be part of a
one-to-one binding (same name up to case but spelled differently, same name with two registers, two
names for one register), the analysis does not return a binding. -/
theorem conflicting_definitions_rejected (syms : List Sym) (b : Binding) (h : analyze syms = .ok b) :
    (∀ x ∈ defsOf dataClass syms, ∀ y ∈ defsOf dataClass syms, ¬ Conflicts x.1 x.2 y.1 y.2) ∧
    (∀ x ∈ defsOf (parClass (dataInfoUpper b.data)) syms, ∀ y ∈ defsOf (parClass (dataInfoUpper b.data)) syms,
        ¬ Conflicts x.1 x.2 y.1 y.2) := by
  obtain ⟨i1, i2, _, _⟩ := binding_injective syms b h
  obtain ⟨c1, c2⟩ := binding_complete syms b h
  constructor
  · intro x hx y hy hc
    have gx := (c1 x.1 x.2).2 hx
    have gy := (c1 y.1 y.2).2 hy
    have := i2 x.1 y.1 x.2 y.2 gx gy
    rcases hc with ⟨hu, hne⟩ | ⟨he, hne⟩ | ⟨hne, he⟩
    · exact hne (this.1 hu)
    · rw [he] at gx; exact hne (Option.some.inj (gx.symm.trans gy))
    · exact hne (this.2 he)
  · intro x hx y hy hc
    have gx := (c2 x.1 x.2).2 hx
    have gy := (c2 y.1 y.2).2 hy
    have := i1 x.1 y.1 x.2 y.2 gx gy
    rcases hc with ⟨hu, hne⟩ | ⟨he, hne⟩ | ⟨hne, he⟩
    · exact hne (this.1 hu)
    · rw [he] at gx; exact hne (Option.some.inj (gx.symm.trans gy))
    · exact hne (this.2 he)

/-- where and why a loop gave up: the error carries file, line and label of symbol `s`, and `s` names an
unknown array, or has an index `int()` cannot convert, or clashes with a definition that precedes it -/
def RejectedAt {τ : Type} (cls : Sym → Cls τ) (pre : List Sym) (s : Sym) (e : ParseErr) : Prop :=
  e.file = s.file ∧ e.line = s.line ∧ e.label = s.label ∧
  ((∃ a, cls s = .unknownArray a ∧ e.kind = .unknownArray ∧ e.extra = a) ∨
   (cls s = .tooLong ∧ e.kind = .invalidIndex) ∨
   (∃ name t, cls s = .defn name t ∧ e.kind ≠ .unknownArray ∧ e.kind ≠ .invalidIndex ∧
      ∃ nt ∈ defsOf cls pre, Conflicts nt.1 nt.2 name t))

private theorem rejectedAt_of_loop {τ : Type} [DecidableEq τ] (cls : Sym → Cls τ) (syms : List Sym) (e : ParseErr)
    (h : loopCls cls BState.empty syms = .error (.parse e)) :
    ∃ pre s post, syms = pre ++ s :: post ∧ RejectedAt cls pre s e := by
  obtain ⟨pre, s, post, st1, h1, h2, h3, h4, h5, h6⟩ := loopCls_error cls syms binv_empty h
  refine ⟨pre, s, post, h1, h3, h4, h5, ?_⟩
  rcases h6 with h6 | h6 | ⟨name, t, n', t', hc, hk, hk2, hg, hcf⟩
  · exact Or.inl h6
  · exact Or.inr (Or.inl h6)
  · refine Or.inr (Or.inr ⟨name, t, hc, hk, hk2, (n', t'), ?_, hcf⟩)
    rcases (loopCls_ok cls pre binv_empty h2).2.2.2.1 n' t' hg with h7 | h7
    · simp [BState.empty, dictGet] at h7
    · exact h7

/-- **violation_rejected_with_position.** Every parse error of the analysis names (file, line, label) a
symbol `s` of the program, everything before `s` was accepted, and `s` is a genuine violation: it refers
to an array nobody named, its index cannot be converted (more than 4300 digits), or it clashes
(`Conflicts`) with a definition earlier in the same pass. -/
theorem violation_rejected_with_position (syms : List Sym) (e : ParseErr)
    (h : analyze syms = .error (.parse e)) :
    ∃ pre s post, syms = pre ++ s :: post ∧
      (RejectedAt dataClass pre s e ∨
       ∃ di, extractData syms = .ok di ∧ RejectedAt (parClass (dataInfoUpper di)) pre s e) := by
  unfold analyze at h
  cases hd : extractData syms with
  | error e' =>
    rw [hd] at h
    simp only at h
    injection h with h
    subst h
    unfold extractData at hd
    cases hl : loopCls dataClass BState.empty syms with
    | ok sd => rw [hl] at hd; simp at hd
    | error e2 =>
      rw [hl] at hd
      simp only at hd
      injection hd with hd
      subst hd
      obtain ⟨pre, s, post, h1, h2⟩ := rejectedAt_of_loop dataClass syms e hl
      exact ⟨pre, s, post, h1, Or.inl h2⟩
  | ok di =>
    rw [hd] at h
    simp only [extractPar] at h
    cases hl : loopCls (parClass (dataInfoUpper di)) BState.empty syms with
    | ok sp => rw [hl] at h; simp at h
    | error e2 =>
      rw [hl] at h
      simp only at h
      injection h with h
      subst h
      obtain ⟨pre, s, post, h1, h2⟩ := rejectedAt_of_loop _ syms e hl
      exact ⟨pre, s, post, h1, Or.inr ⟨di, rfl, h2⟩⟩

/-- the hypothesis is satisfiable: a program whose third definition re-uses `Par_1` under another name -/
example : (match analyze
    [⟨"m.bas".toList, 4, "PAR_one".toList, "Par_1".toList⟩, ⟨"m.bas".toList, 5, "PAR_two".toList, "Par_2".toList⟩,
     ⟨"i.inc".toList, 9, "PAR_uno".toList, "par_01".toList⟩] with
    | .error (.parse e) => e.file == "i.inc".toList && e.line == 9 && e.kind == .dupRef
    | _ => false) = true := by decide +kernel

/-- **analyze_outcomes** (full strength since fix 53c483e). The analysis returns a binding or raises a
ParseException — nothing else escapes; together with `violation_rejected_with_position` every rejection
names file and line of a genuine violation. -/
theorem analyze_outcomes (syms : List Sym) :
    (∃ b, analyze syms = .ok b) ∨ (∃ e, analyze syms = .error (.parse e)) := by
  cases h : analyze syms with
  | ok b => exact Or.inl ⟨b, rfl⟩
  | error e => cases e with | parse e => exact Or.inr ⟨e, rfl⟩

/-- historical example (a constant, the input of the repaired finding): a 4301-digit index is now rejected
with the position of its `#Define` -/
example :
    (match analyze [⟨"m.bas".toList, 3, "PAR_big".toList, "Par_".toList ++ List.replicate 4301 '1'⟩] with
      | .error (.parse e) => e.file == "m.bas".toList && e.line == 3 && e.kind == .invalidIndex
      | _ => false) = true := by decide +kernel

/-! ## 2. `_find_sequential_ranges` -/

/-- **ranges_partition.** For every list of integers (any order, repeats allowed) the ranges are non-empty,
sorted, pairwise disjoint and *maximal* (two consecutive ranges are separated by at least one integer that is
not in the input), and their union is exactly the set of input values. -/
theorem ranges_partition (seq : List Nat) :
    (∀ r ∈ findRanges seq, r.1 ≤ r.2) ∧
    (findRanges seq).Pairwise (fun a b => a.2 + 1 < b.1) ∧
    (∀ n, n ∈ seq ↔ ∃ r ∈ findRanges seq, r.1 ≤ n ∧ n ≤ r.2) := by
  have hs := sorted_sortNat seq
  have hm := fun a => mem_sortNat a seq
  rw [findRanges_eq]
  cases hl : sortNat seq with
  | nil =>
    rw [hl] at hm
    refine ⟨by simp, by simp, ?_⟩
    intro n
    have := hm n
    simp at this
    simp [this]
  | cons x xs =>
    rw [hl] at hs hm
    have hp := List.pairwise_cons.1 hs
    simp only
    refine ⟨fun r hr => (rangesAux_bounds x x xs (Nat.le_refl _) hp.1 hp.2 r hr).2,
            rangesAux_separated x x xs (Nat.le_refl _) hp.1 hp.2, ?_⟩
    intro n
    rw [← hm n]
    have := covered_rangesAux x x xs (Nat.le_refl _) hp.1 hp.2 n
    simp only [covered] at this
    rw [this]
    simp only [List.mem_cons]
    constructor
    · rintro (h | h)
      · exact Or.inl ⟨by omega, by omega⟩
      · exact Or.inr h
    · rintro (h | h)
      · exact Or.inl (by omega)
      · exact Or.inr h

example : findRanges [7, 3, 1, 2, 9, 8, 3] = [(1, 3), (7, 9)] := by decide

/-! ## 3. Batch access equals one-at-a-time access -/

private theorem overlay_nil (data : Nat → Nat → Val) : overlay data [] = data := by
  funext d e; simp [overlay, pendGet, dictGet]

private theorem mem_keys_of_pendGet {γ : Type} (pd : Dict Nat (Dict Nat γ)) (d e : Nat) (x : γ)
    (h : pendGet pd d e = some x) : d ∈ sortNat (dictKeys pd) := by
  obtain ⟨m, hm, _⟩ := pendGet_some_key pd d e x h
  rw [mem_sortNat, ← dictGet_isSome_iff, hm]; rfl

private theorem keys_bound {γ : Type} (pd : Dict Nat (Dict Nat γ)) :
    ∀ d ∈ sortNat (dictKeys pd), (dictGet pd d).isSome := by
  intro d hd
  rw [mem_sortNat] at hd
  exact (dictGet_isSome_iff pd d).2 hd

/-- **batch_set_eq_single.** For *every* name table `b`, device state, and assignment list (any subset of
names in any order and spelling, any values):
* if writing the parameters one at a time succeeds, `set_par_multiple` succeeds too and leaves *exactly the
  same* Par, FPar and Data registers;
* if writing one at a time raises (unknown name → ValueError, non-integer for a Par → TypeError), the batch
  raises the same exception; Par/FPar registers agree with the one-at-a-time run up to that point, and —
  this is where the two differ — no array element has been written by the batch. -/
theorem batch_set_eq_single (b : Dict Str Desc) (dv : Dev) (params : List (Str × Val)) :
    (∀ dvF, setFold b params dv = ⟨dvF, .ok ()⟩ →
      ∃ dvB, setParMultiple b dv params = ⟨dvB, .ok ()⟩ ∧ SameRegs dvB dvF) ∧
    (∀ dvF x, setFold b params dv = ⟨dvF, .error x⟩ →
      ∃ dvB, setParMultiple b dv params = ⟨dvB, .error x⟩ ∧
        dvB.par = dvF.par ∧ dvB.fpar = dvF.fpar ∧ dvB.data = dv.data) := by
  obtain ⟨hok, herr⟩ := setPhase1_vs_fold b params { dev := dv, pdata := [] } dv rfl rfl (overlay_nil _).symm
  constructor
  · intro dvF hF
    obtain ⟨st', p1, p2, p3, p4, p5⟩ := hok dvF hF
    obtain ⟨dvB, a1, a2, a3, a4, a5⟩ := setArrays_spec st'.pdata (sortNat (dictKeys st'.pdata)) st'.dev (keys_bound _)
    refine ⟨dvB, by simp [setParMultiple, p1, a1], ⟨a2.trans p2, a3.trans p3, ?_⟩⟩
    rw [p4]
    funext d e
    simp only [overlay]
    cases hp : pendGet st'.pdata d e with
    | some v => exact a4 d e v (mem_keys_of_pendGet _ d e v hp) hp
    | none => exact a5 d e (Or.inr hp)
  · intro dvF x hF
    obtain ⟨dv', p1, p2, p3, p4⟩ := herr dvF x hF
    exact ⟨dv', by simp [setParMultiple, p1], p2, p3, p4⟩

/-- hypotheses satisfiable, non-trivially: two arrays, adjacent and non-adjacent elements, a Par and an FPar,
names spelled in other letter case, values written in "wrong" order -/
example :
    let b : Dict Str Desc := [("e1".toList, .elem 2 1), ("e2".toList, .elem 2 2), ("e4".toList, .elem 2 4),
      ("p".toList, .par 1), ("f".toList, .fpar 3), ("o".toList, .elem 3 7)]
    let ps : List (Str × Val) := [("E4".toList, .int 44), ("P".toList, .int 5), ("e1".toList, .flt 3),
      ("O".toList, .int 9), ("f".toList, .flt 1), ("e2".toList, .int 22)]
    (match (setFold b ps Dev.init).res with | .ok _ => true | .error _ => false) = true ∧
    (match (setParMultiple b Dev.init ps).res with | .ok _ => true | .error _ => false) = true ∧
    (setParMultiple b Dev.init ps).dev.log.reverse =
      [.setPar 1, .setFPar 3, .setData 2 1 2, .setData 2 4 1, .setData 3 7 1] ∧
    ((setParMultiple b Dev.init ps).dev.data 2 2).num = 44 := by
  refine ⟨by decide +kernel, by decide +kernel, by decide +kernel, by decide +kernel⟩

/-- **batch_get_eq_single.** For every name table, device state and list of names that are all bound and
that denote pairwise different registers (which is what a set of names does under a one-to-one binding,
see `names_resolve_injectively`): `get_par_multiple` succeeds, leaves every register as it was, and
returns a dict with the same keys and the same values as reading the names one at a time — namely the
current content of the register each name is bound to. If some name is unknown both raise ValueError. -/
theorem batch_get_eq_single (b : Dict Str Desc) (dv : Dev) (names : List Str) :
    ((∀ n ∈ names, (lookupCI b n).isSome) →
     (∀ n1 ∈ names, ∀ n2 ∈ names, lookupCI b n1 = lookupCI b n2 → n1 = n2) →
      ∃ dvB resB dvF resF,
        getParMultiple b dv names = ⟨dvB, .ok resB⟩ ∧ getFold b names dv [] = ⟨dvF, .ok resF⟩ ∧
        SameRegs dvB dv ∧ SameRegs dvF dv ∧
        (∀ k, dictGet resB k = dictGet resF k) ∧
        (∀ k, dictGet resB k = if k ∈ names then (lookupCI b k).map dv.readReg else none)) ∧
    ((∃ n ∈ names, lookupCI b n = none) →
      ∃ dvB dvF, getParMultiple b dv names = ⟨dvB, .error .valueError⟩ ∧
        getFold b names dv [] = ⟨dvF, .error .valueError⟩ ∧ SameRegs dvB dv ∧ SameRegs dvF dv) := by
  constructor
  · intro hb hinj
    obtain ⟨dvF, resF, f1, f2, f3⟩ := getFold_spec b names dv [] hb
    obtain ⟨st', p1, p2, p3, p4, p5, _⟩ := getPhase1_spec b names { dev := dv, result := [], pdata := [] } hb
    have pend0 : ∀ d e, pendGet ([] : Dict Nat (Dict Nat Str)) d e = none := by
      intro d e; simp [pendGet, dictGet]
    -- every pending name resolves to the element it is filed under
    have pres : ∀ d e n, pendGet st'.pdata d e = some n → n ∈ names ∧ lookupCI b n = some (.elem d e) := by
      intro d e n h
      rcases p4 d e n h with h1 | h1
      · exact h1
      · simp only at h1; rw [pend0] at h1; simp at h1
    have pinj : ∀ d e d' e' k, pendGet st'.pdata d e = some k → pendGet st'.pdata d' e' = some k → d = d' ∧ e = e' := by
      intro d e d' e' k h1 h2
      have a1 := (pres d e k h1).2
      have a2 := (pres d' e' k h2).2
      rw [a1] at a2
      injection a2 with a2
      injection a2 with a3 a4
      exact ⟨a3, a4⟩
    obtain ⟨dvB, resB, a1, a2, a3, a4⟩ := getArrays_spec st'.pdata (sortNat (dictKeys st'.pdata)) st'.dev st'.result
      (keys_bound _) pinj
    have key : ∀ k, dictGet resB k = if k ∈ names then (lookupCI b k).map dv.readReg else none := by
      intro k
      by_cases hk : k ∈ names
      · rw [if_pos hk]
        have hbk := hb k hk
        cases hl : lookupCI b k with
        | none => rw [hl] at hbk; simp at hbk
        | some r =>
          cases r with
          | elem d e =>
            obtain ⟨n', hn'⟩ := Option.isSome_iff_exists.1 (p5 d e ⟨k, hk, hl⟩)
            have hr := pres d e n' hn'
            have : n' = k := hinj n' hr.1 k hk (by rw [hr.2, hl])
            subst this
            rw [a3 d e n' (mem_keys_of_pendGet _ d e n' hn') hn', p2.data]
            rfl
          | par i =>
            have hnot : ∀ d e, d ∈ sortNat (dictKeys st'.pdata) → pendGet st'.pdata d e ≠ some k := by
              intro d e _ hc
              have := (pres d e k hc).2
              rw [hl] at this; simp at this
            rw [a4 k hnot, p3 k]
            have : k ∈ names ∧ ∃ r, lookupCI b k = some r ∧ r.isElem = false := ⟨hk, _, hl, rfl⟩
            rw [if_pos this, hl]
          | fpar i =>
            have hnot : ∀ d e, d ∈ sortNat (dictKeys st'.pdata) → pendGet st'.pdata d e ≠ some k := by
              intro d e _ hc
              have := (pres d e k hc).2
              rw [hl] at this; simp at this
            rw [a4 k hnot, p3 k]
            have : k ∈ names ∧ ∃ r, lookupCI b k = some r ∧ r.isElem = false := ⟨hk, _, hl, rfl⟩
            rw [if_pos this, hl]
      · rw [if_neg hk]
        have hnot : ∀ d e, d ∈ sortNat (dictKeys st'.pdata) → pendGet st'.pdata d e ≠ some k := by
          intro d e _ hc
          exact hk (pres d e k hc).1
        rw [a4 k hnot, p3 k]
        have : ¬ (k ∈ names ∧ ∃ r, lookupCI b k = some r ∧ r.isElem = false) := fun h => hk h.1
        rw [if_neg this]
        rfl
    refine ⟨dvB, resB, dvF, resF, by simp [getParMultiple, p1, a1], f1, a2.trans p2, f2, ?_, key⟩
    intro k
    rw [key k, f3 k]
    by_cases hk : k ∈ names <;> simp [hk, dictGet]
  · intro hu
    obtain ⟨dvF, f1, f2⟩ := getFold_unbound b names dv [] hu
    obtain ⟨dvB, p1, p2⟩ := getPhase1_unbound b names { dev := dv, result := [], pdata := [] } hu
    exact ⟨dvB, dvF, by simp [getParMultiple, p1], f1, p2, f2⟩

example :
    let b : Dict Str Desc := [("e1".toList, .elem 2 1), ("e2".toList, .elem 2 2), ("e4".toList, .elem 2 4),
      ("p".toList, .par 1), ("f".toList, .fpar 3), ("o".toList, .elem 3 7)]
    let ns : List Str := ["E4".toList, "p".toList, "e1".toList, "O".toList, "F".toList, "e2".toList]
    (∀ n ∈ ns, (lookupCI b n).isSome) ∧
    (getParMultiple b Dev.init ns).dev.log.reverse =
      [.getPar 1, .getFPar 3, .getData 2 1 2, .getData 2 4 1, .getData 3 7 1] ∧
    (match (getParMultiple b Dev.init ns).res with
      | .ok r => (dictGet r "E4".toList).map Val.num == some 4008 && r.length == 6
      | .error _ => false) = true := by
  refine ⟨by decide +kernel, by decide +kernel, by decide +kernel⟩

/-- **batch_get_any_names.** What `get_par_multiple` does for *every* list of bound names — repeats and
several spellings of one parameter included (outside the "set of names" of `batch_get_eq_single`):
registers stay untouched; every returned entry is correct (its key is one of the given names and its value
is the content of the register that name is bound to); and every requested register is returned under at
least one of the given spellings.  What can differ from reading one at a time is only *which spellings*
appear as keys: for an array element only the last spelling survives (`batch_get_drops_repeated_spelling`). -/
theorem batch_get_any_names (b : Dict Str Desc) (dv : Dev) (names : List Str)
    (hb : ∀ n ∈ names, (lookupCI b n).isSome) :
    ∃ dvB resB, getParMultiple b dv names = ⟨dvB, .ok resB⟩ ∧ SameRegs dvB dv ∧
      (∀ k v, dictGet resB k = some v → k ∈ names ∧ ∃ r, lookupCI b k = some r ∧ v = dv.readReg r) ∧
      (∀ n ∈ names, ∃ k ∈ names, lookupCI b k = lookupCI b n ∧
        dictGet resB k = (lookupCI b n).map dv.readReg) := by
  obtain ⟨st', p1, p2, p3, p4, p5, _⟩ := getPhase1_spec b names { dev := dv, result := [], pdata := [] } hb
  have pend0 : ∀ d e, pendGet ([] : Dict Nat (Dict Nat Str)) d e = none := by
    intro d e; simp [pendGet, dictGet]
  have pres : ∀ d e n, pendGet st'.pdata d e = some n → n ∈ names ∧ lookupCI b n = some (.elem d e) := by
    intro d e n h
    rcases p4 d e n h with h1 | h1
    · exact h1
    · simp only at h1; rw [pend0] at h1; simp at h1
  have pinj : ∀ d e d' e' k, pendGet st'.pdata d e = some k → pendGet st'.pdata d' e' = some k → d = d' ∧ e = e' := by
    intro d e d' e' k h1 h2
    have a1 := (pres d e k h1).2
    have a2 := (pres d' e' k h2).2
    rw [a1] at a2
    injection a2 with a2
    injection a2 with a3 a4
    exact ⟨a3, a4⟩
  obtain ⟨dvB, resB, a1, a2, a3, a4⟩ := getArrays_spec st'.pdata (sortNat (dictKeys st'.pdata)) st'.dev st'.result
    (keys_bound _) pinj
  refine ⟨dvB, resB, by simp [getParMultiple, p1, a1], a2.trans p2, ?_, ?_⟩
  · intro k v hk
    by_cases hex : ∃ d e, pendGet st'.pdata d e = some k
    · obtain ⟨d, e, hde⟩ := hex
      have hr := pres d e k hde
      rw [a3 d e k (mem_keys_of_pendGet _ d e k hde) hde] at hk
      injection hk with hk
      exact ⟨hr.1, .elem d e, hr.2, by rw [← hk, p2.data]; rfl⟩
    · have hnot : ∀ d e, d ∈ sortNat (dictKeys st'.pdata) → pendGet st'.pdata d e ≠ some k :=
        fun d e _ hc => hex ⟨d, e, hc⟩
      rw [a4 k hnot, p3 k] at hk
      by_cases hc : k ∈ names ∧ ∃ r, lookupCI b k = some r ∧ r.isElem = false
      · rw [if_pos hc] at hk
        obtain ⟨hkn, r, hr, _⟩ := hc
        rw [hr] at hk
        simp only [Option.map_some] at hk
        injection hk with hk
        exact ⟨hkn, r, hr, hk.symm⟩
      · rw [if_neg hc] at hk
        simp [dictGet] at hk
  · intro n hn
    have hbn := hb n hn
    cases hl : lookupCI b n with
    | none => rw [hl] at hbn; simp at hbn
    | some r =>
      cases r with
      | elem d e =>
        obtain ⟨n', hn'⟩ := Option.isSome_iff_exists.1 (p5 d e ⟨n, hn, hl⟩)
        have hr := pres d e n' hn'
        refine ⟨n', hr.1, hr.2, ?_⟩
        rw [a3 d e n' (mem_keys_of_pendGet _ d e n' hn') hn', p2.data]
        rfl
      | par i =>
        have hnot : ∀ d e, d ∈ sortNat (dictKeys st'.pdata) → pendGet st'.pdata d e ≠ some n := by
          intro d e _ hc
          have := (pres d e n hc).2
          rw [hl] at this; simp at this
        refine ⟨n, hn, by rw [hl], ?_⟩
        rw [a4 n hnot, p3 n]
        have : n ∈ names ∧ ∃ r, lookupCI b n = some r ∧ r.isElem = false := ⟨hn, _, hl, rfl⟩
        rw [if_pos this, hl]
      | fpar i =>
        have hnot : ∀ d e, d ∈ sortNat (dictKeys st'.pdata) → pendGet st'.pdata d e ≠ some n := by
          intro d e _ hc
          have := (pres d e n hc).2
          rw [hl] at this; simp at this
        refine ⟨n, hn, by rw [hl], ?_⟩
        rw [a4 n hnot, p3 n]
        have : n ∈ names ∧ ∃ r, lookupCI b n = some r ∧ r.isElem = false := ⟨hn, _, hl, rfl⟩
        rw [if_pos this, hl]

/-- the one observable difference outside the set-of-names domain (a constant example, replayed by the
harness): asked for `e1` and `E1` (one array element), the batch returns only the key `E1`, the one-at-a-time
fold returns both; for a Par both return both -/
theorem batch_get_drops_repeated_spelling :
    let b : Dict Str Desc := [("e1".toList, .elem 2 1), ("p".toList, .par 1)]
    (match (getParMultiple b Dev.init ["e1".toList, "E1".toList, "p".toList, "P".toList]).res,
           (getFold b ["e1".toList, "E1".toList, "p".toList, "P".toList] Dev.init []).res with
      | .ok rb, .ok rf => dictKeys rb == ["p".toList, "P".toList, "E1".toList] &&
                          dictKeys rf == ["e1".toList, "E1".toList, "p".toList, "P".toList]
      | _, _ => false) = true := by decide +kernel

/-- **touches_exactly_bound_registers.** A successful batch read or batch write performs device calls that
touch (element-wise, merged ranges expanded) *exactly* the registers bound to the given names: nothing
else is read or written (⊆), and no requested register is skipped (⊇).  `L` is the part of the access
log added by the call. -/
theorem touches_exactly_bound_registers (b : Dict Str Desc) (dv : Dev) :
    (∀ names dvB resB, getParMultiple b dv names = ⟨dvB, .ok resB⟩ →
      ∃ L, dvB.log = L ++ dv.log ∧ ∀ r, touchedBy L r ↔ ∃ n ∈ names, lookupCI b n = some r) ∧
    (∀ params dvB, setParMultiple b dv params = ⟨dvB, .ok ()⟩ →
      ∃ L, dvB.log = L ++ dv.log ∧ ∀ r, touchedBy L r ↔ ∃ nv ∈ params, lookupCI b nv.1 = some r) := by
  have pend0 : ∀ {γ : Type} d e, pendGet ([] : Dict Nat (Dict Nat γ)) d e = none := by
    intro γ d e; simp [pendGet, dictGet]
  constructor
  · intro names dvB resB h
    unfold getParMultiple at h
    cases h1 : getPhase1 b names { dev := dv, result := [], pdata := [] } with
    | error x => obtain ⟨d, e⟩ := x; rw [h1] at h; simp at h
    | ok st =>
      rw [h1] at h
      simp only at h
      cases h2 : getArrays st.pdata (sortNat (dictKeys st.pdata)) st.dev st.result with
      | error x => obtain ⟨d, e⟩ := x; rw [h2] at h; simp at h
      | ok p =>
        obtain ⟨dv', res'⟩ := p
        rw [h2] at h
        simp only at h
        injection h with hd hr
        subst hd
        obtain ⟨L1, a1, a2, a3⟩ := getPhase1_log b names _ _ h1
        obtain ⟨L2, b1, b2⟩ := getArrays_log _ _ _ _ _ _ h2
        refine ⟨L2 ++ L1, by rw [b1, a1]; simp, ?_⟩
        intro r
        rw [touchedBy_append, b2 r, a2 r]
        constructor
        · rintro (⟨d, e, he, _, hp⟩ | ⟨_, n, hn, hl⟩)
          · rcases (a3 d e).1 hp with h0 | ⟨n, hn, hl⟩
            · simp only at h0; rw [pend0] at h0; simp at h0
            · exact ⟨n, hn, by rw [he]; exact hl⟩
          · exact ⟨n, hn, hl⟩
        · rintro ⟨n, hn, hl⟩
          cases r with
          | par i => exact Or.inr ⟨rfl, n, hn, hl⟩
          | fpar i => exact Or.inr ⟨rfl, n, hn, hl⟩
          | elem d e =>
            have hp := (a3 d e).2 (Or.inr ⟨n, hn, hl⟩)
            obtain ⟨x, hx⟩ := Option.isSome_iff_exists.1 hp
            exact Or.inl ⟨d, e, rfl, mem_keys_of_pendGet _ d e x hx, hp⟩
  · intro params dvB h
    unfold setParMultiple at h
    cases h1 : setPhase1 b params { dev := dv, pdata := [] } with
    | error x => obtain ⟨d, e⟩ := x; rw [h1] at h; simp at h
    | ok st =>
      rw [h1] at h
      simp only at h
      cases h2 : setArrays st.pdata (sortNat (dictKeys st.pdata)) st.dev with
      | error x => obtain ⟨d, e⟩ := x; rw [h2] at h; simp at h
      | ok dv' =>
        rw [h2] at h
        simp only at h
        injection h with hd hr
        subst hd
        obtain ⟨L1, a1, a2, a3⟩ := setPhase1_log b params _ _ h1
        obtain ⟨L2, b1, b2⟩ := setArrays_log _ _ _ _ h2
        refine ⟨L2 ++ L1, by rw [b1, a1]; simp, ?_⟩
        intro r
        rw [touchedBy_append, b2 r, a2 r]
        constructor
        · rintro (⟨d, e, he, _, hp⟩ | ⟨_, nv, hn, hl⟩)
          · rcases (a3 d e).1 hp with h0 | ⟨nv, hn, hl⟩
            · simp only at h0; rw [pend0] at h0; simp at h0
            · exact ⟨nv, hn, by rw [he]; exact hl⟩
          · exact ⟨nv, hn, hl⟩
        · rintro ⟨nv, hn, hl⟩
          cases r with
          | par i => exact Or.inr ⟨rfl, nv, hn, hl⟩
          | fpar i => exact Or.inr ⟨rfl, nv, hn, hl⟩
          | elem d e =>
            have hp := (a3 d e).2 (Or.inr ⟨nv, hn, hl⟩)
            obtain ⟨x, hx⟩ := Option.isSome_iff_exists.1 hp
            exact Or.inl ⟨d, e, rfl, mem_keys_of_pendGet _ d e x hx, hp⟩

/-- `start_with_params(**kwargs)` writes every bound parameter (keyword value found ignoring case, else 0)
through `set_par_multiple`; so it too equals the one-at-a-time writes -/
theorem start_with_params_eq_single (b : Dict Str Desc) (dv : Dev) (kwargs : Dict Str Val) (dvF : Dev)
    (h : setFold b (startParams b kwargs) dv = ⟨dvF, .ok ()⟩) :
    ∃ dvB, setParMultiple b dv (startParams b kwargs) = ⟨dvB, .ok ()⟩ ∧ SameRegs dvB dvF :=
  (batch_set_eq_single b dv (startParams b kwargs)).1 dvF h

/-! ## 4. Parser and manager fit together: case-insensitive resolution is unambiguous -/

private theorem analyze_param_keys_nodup {syms : List Sym} {b : Binding} (h : analyze syms = .ok b) :
    (dictKeys b.param).Nodup := by
  obtain ⟨sd, sp, hd, ed, hp, ep⟩ := analyze_ok h
  rw [ep]
  exact (loopCls_ok _ syms binv_empty hp).1.nodup

/-- **name_denotes_one_register** (full strength since fix 5ae01c1: no ASCII hypothesis).  The parser
compares names with `.upper()` and so does `AdwinProcess` now.  For an accepted program: whatever spelling
`name` the caller uses, the case-insensitive look-up returns the register of *the* table entry that equals
`name` ignoring case — there is exactly one candidate, on the whole modelled alphabet. -/
theorem name_denotes_one_register (syms : List Sym) (b : Binding) (h : analyze syms = .ok b)
    (name key : Str) (d : Desc) (hk : dictGet b.param key = some d) (hl : upper name = upper key) :
    lookupCI b.param name = some d := by
  obtain ⟨one, _, _, _⟩ := binding_injective syms b h
  have hnd := analyze_param_keys_nodup h
  have hsome := lookupCI_isSome_of_mem b.param name key d (dictGet_mem _ _ _ hk) hl
  obtain ⟨d', hd'⟩ := Option.isSome_iff_exists.1 hsome
  obtain ⟨key', hm, hl'⟩ := lookupCI_some b.param name d' hd'
  have hk' := dictGet_of_mem_nodup b.param key' d' hnd hm
  have hkey := (one key' key d' d hk' hk).1 (hl'.symm.trans hl)
  subst hkey
  rw [hd', ← hk', hk]

/-- historical example (constants; the input of the repaired finding
`resolve:own-spelling-denotes-other-register:non-ascii`): U+212A KELVIN SIGN lower-cases to `k` but is its own
upper case.  `PAR_K Par_1` (Kelvin sign) and `PAR_k Par_2` are both accepted; each spelling now resolves to its own
register. -/
example :
    (match analyze [⟨"m.bas".toList, 1, "PAR_".toList ++ [Char.ofNat 0x212A], "Par_1".toList⟩,
                    ⟨"m.bas".toList, 2, "PAR_k".toList, "Par_2".toList⟩] with
      | .ok b => lookupCI b.param "k".toList == some (.par 2) && lookupCI b.param "K".toList == some (.par 2) &&
                 lookupCI b.param [Char.ofNat 0x212A] == some (.par 1)
      | .error _ => false) = true := by decide +kernel

/-- **names_resolve_injectively.** Under the binding of an accepted program, names that differ ignoring case
and are bound denote different registers — the hypothesis of `batch_get_eq_single` holds for every *set* of
names. -/
theorem names_resolve_injectively (syms : List Sym) (b : Binding) (h : analyze syms = .ok b) (names : List Str)
    (hb : ∀ n ∈ names, (lookupCI b.param n).isSome)
    (hci : ∀ n1 ∈ names, ∀ n2 ∈ names, upper n1 = upper n2 → n1 = n2) :
    ∀ n1 ∈ names, ∀ n2 ∈ names, lookupCI b.param n1 = lookupCI b.param n2 → n1 = n2 := by
  obtain ⟨one, _, _, _⟩ := binding_injective syms b h
  have hnd := analyze_param_keys_nodup h
  intro n1 h1 n2 h2 heq
  obtain ⟨d, hd⟩ := Option.isSome_iff_exists.1 (hb n1 h1)
  have hd2 : lookupCI b.param n2 = some d := by rw [← heq]; exact hd
  obtain ⟨k1, m1, l1⟩ := lookupCI_some b.param n1 d hd
  obtain ⟨k2, m2, l2⟩ := lookupCI_some b.param n2 d hd2
  have g1 := dictGet_of_mem_nodup b.param k1 d hnd m1
  have g2 := dictGet_of_mem_nodup b.param k2 d hnd m2
  have := (one k1 k2 d d g1 g2).2 rfl
  subst this
  exact hci n1 h1 n2 h2 (l1.trans l2.symm)

/-- **End to end.** For an accepted ADbasic program, any set of bound parameter names (in any spelling
and order): the batch read returns exactly what reading one at a time returns and changes no register. -/
theorem batch_get_eq_single_on_parsed_program (syms : List Sym) (b : Binding) (h : analyze syms = .ok b)
    (dv : Dev) (names : List Str)
    (hb : ∀ n ∈ names, (lookupCI b.param n).isSome)
    (hci : ∀ n1 ∈ names, ∀ n2 ∈ names, upper n1 = upper n2 → n1 = n2) :
    ∃ dvB resB dvF resF,
      getParMultiple b.param dv names = ⟨dvB, .ok resB⟩ ∧ getFold b.param names dv [] = ⟨dvF, .ok resF⟩ ∧
      SameRegs dvB dv ∧ SameRegs dvF dv ∧ (∀ k, dictGet resB k = dictGet resF k) :=
  let ⟨dvB, resB, dvF, resF, h1, h2, h3, h4, h5, _⟩ :=
    (batch_get_eq_single b.param dv names).1 hb (names_resolve_injectively syms b h names hb hci)
  ⟨dvB, resB, dvF, resF, h1, h2, h3, h4, h5⟩

/-! ## 4b. The validating driver (`Adwin_Base`), registers that do not exist, write-then-read -/

/-- **validated_accessors_eq_library_semantics.** `Adwin_Base` validates its arguments (Par/FPar index in
1..80, Data index in 1..200, first element ≥ 1, integer dtype for integer arrays) before calling the ADwin
library.  On names bound to registers that pass (`NamesOk`) and values that fit the array type (`ValuesOk`)
the validated accessors — batch and single — are *equal* to the unvalidated ones, so every theorem of
section 3 holds verbatim for them (`batch_eq_single_validated`). -/
theorem validated_accessors_eq_library_semantics (b : Dict Str Desc) (ty : Nat → Bool) (dv : Dev) :
    (∀ names, NamesOk b names →
      getParMultipleC b dv names = getParMultiple b dv names ∧
      ∀ res, getFoldC b names dv res = getFold b names dv res) ∧
    (∀ params, NamesOk b (params.map Prod.fst) → ValuesOk b ty params →
      setParMultipleC b ty dv params = setParMultiple b dv params ∧
      setFoldC b ty params dv = setFold b params dv) :=
  ⟨fun names h => ⟨getParMultipleC_eq b dv names h, fun res => getFoldC_eq b names dv res h⟩,
   fun params h hv => ⟨setParMultipleC_eq b ty dv params h hv, setFoldC_eq b ty params dv h hv⟩⟩

/-- **batch_eq_single_validated.** Batch ≡ one-at-a-time through the real driver layer: existing registers,
well-typed values, any assignment list (write) / any set of bound names (read). -/
theorem batch_eq_single_validated (b : Dict Str Desc) (ty : Nat → Bool) (dv : Dev) :
    (∀ params dvF, NamesOk b (params.map Prod.fst) → ValuesOk b ty params →
      setFoldC b ty params dv = ⟨dvF, .ok ()⟩ →
      ∃ dvB, setParMultipleC b ty dv params = ⟨dvB, .ok ()⟩ ∧ SameRegs dvB dvF) ∧
    (∀ names, NamesOk b names → (∀ n ∈ names, (lookupCI b n).isSome) →
      (∀ n1 ∈ names, ∀ n2 ∈ names, lookupCI b n1 = lookupCI b n2 → n1 = n2) →
      ∃ dvB resB dvF resF,
        getParMultipleC b dv names = ⟨dvB, .ok resB⟩ ∧ getFoldC b names dv [] = ⟨dvF, .ok resF⟩ ∧
        SameRegs dvB dv ∧ SameRegs dvF dv ∧ (∀ k, dictGet resB k = dictGet resF k)) := by
  constructor
  · intro params dvF h hv hF
    rw [setFoldC_eq b ty params dv h hv] at hF
    rw [setParMultipleC_eq b ty dv params h hv]
    exact (batch_set_eq_single b dv params).1 dvF hF
  · intro names h hb hinj
    rw [getParMultipleC_eq b dv names h, getFoldC_eq b names dv [] h]
    obtain ⟨dvB, resB, dvF, resF, h1, h2, h3, h4, h5, _⟩ := (batch_get_eq_single b dv names).1 hb hinj
    exact ⟨dvB, resB, dvF, resF, h1, h2, h3, h4, h5⟩

/-- **nonexistent_register_refused.** The parser accepts `Par_0`, `FPar_81`, `Data_201`, `Data_x[0]` …
(it knows nothing about the device).  Such a name denotes no hardware register — and it never denotes
*another* one: every access through it is refused with an exception before any device call, leaving the
registers and the access log exactly as they were. -/
theorem nonexistent_register_refused (b : Dict Str Desc) (ty : Nat → Bool) (dv : Dev) (n : Str) (r : Desc)
    (hl : lookupCI b n = some r) (hr : regOk r = false) :
    getParC b dv n = ⟨dv, .error .valueError⟩ ∧
    ∀ v, (setParC b ty dv n v).dev = dv ∧ ∃ x, (setParC b ty dv n v).res = .error x := by
  constructor
  · simp [getParC, hl, hr]
  · intro v
    unfold setParC
    rw [hl]
    cases r with
    | par i =>
      simp only [regOk] at hr
      cases v with
      | flt x => exact ⟨rfl, _, rfl⟩
      | int x => simp only [hr]; exact ⟨rfl, _, rfl⟩
    | fpar i => simp only [regOk] at hr; simp only [hr]; exact ⟨rfl, _, rfl⟩
    | elem d e => simp only [hr, Bool.false_and]; exact ⟨rfl, _, rfl⟩

example : regOk (.par 0) = false ∧ regOk (.fpar 81) = false ∧ regOk (.elem 201 1) = false ∧
    regOk (.elem 5 0) = false ∧ regOk (.par 80) = true ∧ regOk (.elem 200 1) = true := by decide

/-- **set_then_get.** After a successful batch write in which every register is assigned by one pair
(a set of names under a one-to-one binding), every register holds the value given for its name, and a
batch read of the same names returns exactly the values written. -/
theorem set_then_get (b : Dict Str Desc) (dv dvB : Dev) (params : List (Str × Val))
    (hinj : ∀ p ∈ params, ∀ q ∈ params, lookupCI b p.1 = lookupCI b q.1 → p = q)
    (h : setParMultiple b dv params = ⟨dvB, .ok ()⟩) :
    (∀ nv ∈ params, ∀ r, lookupCI b nv.1 = some r → dvB.readReg r = nv.2) ∧
    ((∀ nv ∈ params, (lookupCI b nv.1).isSome) →
      ∃ dvG resG, getParMultiple b dvB (params.map Prod.fst) = ⟨dvG, .ok resG⟩ ∧ SameRegs dvG dvB ∧
        ∀ nv ∈ params, dictGet resG nv.1 = some nv.2) := by
  -- the fold cannot have failed, or the batch would have failed too
  have hfold : ∃ dvF, setFold b params dv = ⟨dvF, .ok ()⟩ := by
    cases hf : setFold b params dv with
    | mk dvF res =>
      cases res with
      | ok u => exact ⟨dvF, rfl⟩
      | error x =>
        obtain ⟨dvB', hB, _⟩ := (batch_set_eq_single b dv params).2 dvF x hf
        rw [hB] at h
        injection h with _ h2
        simp at h2
  obtain ⟨dvF, hF⟩ := hfold
  obtain ⟨dvB', hB, hsame⟩ := (batch_set_eq_single b dv params).1 dvF hF
  rw [hB] at h
  injection h with h1 _
  subst h1
  have hreg : ∀ nv ∈ params, ∀ r, lookupCI b nv.1 = some r → dvB'.readReg r = nv.2 := by
    intro nv hnv r hr
    rw [hsame.readReg r]
    exact setFold_readReg b params dv dvF hF hinj nv hnv r hr
  refine ⟨hreg, ?_⟩
  intro hb
  have hb' : ∀ n ∈ params.map Prod.fst, (lookupCI b n).isSome := by
    intro n hn
    obtain ⟨nv, hnv, rfl⟩ := List.mem_map.1 hn
    exact hb nv hnv
  have hinj' : ∀ n1 ∈ params.map Prod.fst, ∀ n2 ∈ params.map Prod.fst, lookupCI b n1 = lookupCI b n2 → n1 = n2 := by
    intro n1 h1 n2 h2 he
    obtain ⟨p, hp, rfl⟩ := List.mem_map.1 h1
    obtain ⟨q, hq, rfl⟩ := List.mem_map.1 h2
    rw [hinj p hp q hq he]
  obtain ⟨dvG, resG, _, _, g1, _, g3, _, _, g6⟩ := (batch_get_eq_single b dvB' (params.map Prod.fst)).1 hb' hinj'
  refine ⟨dvG, resG, g1, g3, ?_⟩
  intro nv hnv
  have hmem : nv.1 ∈ params.map Prod.fst := List.mem_map_of_mem (f := Prod.fst) hnv
  rw [g6 nv.1, if_pos hmem]
  obtain ⟨r, hr⟩ := Option.isSome_iff_exists.1 (hb nv hnv)
  rw [hr]
  simp only [Option.map_some]
  rw [hreg nv hnv r hr]

/-! ## 4c. Tables configured by hand, and the process-start path -/

/-- keys are pairwise different even ignoring case -/
private def CIInj (p : Dict Str Desc) : Prop :=
  ∀ k1 d1 k2 d2, (k1, d1) ∈ p → (k2, d2) ∈ p → upper k1 = upper k2 → k1 = k2

private theorem cfgInsert_spec (items : List (Str × Desc)) (p0 p : Dict Str Desc)
    (hn : (dictKeys p0).Nodup) (hci : CIInj p0) (h : cfgInsert p0 items = .ok p) :
    (dictKeys p).Nodup ∧ CIInj p ∧ (∀ nd ∈ items, dictGet p nd.1 = some nd.2) ∧
    (∀ n d, dictGet p0 n = some d → dictGet p n = some d) ∧
    (∀ n d, dictGet p n = some d → dictGet p0 n = some d ∨ (n, d) ∈ items) := by
  induction items generalizing p0 with
  | nil =>
    simp only [cfgInsert] at h
    injection h with h; subst h
    exact ⟨hn, hci, by simp, fun _ _ h => h, fun _ _ h => Or.inl h⟩
  | cons nd rest ih =>
    obtain ⟨n, d⟩ := nd
    simp only [cfgInsert] at h
    split at h
    · simp at h
    · rename_i hfree
      have hfresh : ∀ k x, (k, x) ∈ p0 → upper n ≠ upper k := by
        intro k x hm hu
        exact hfree (lookupCI_isSome_of_mem p0 n k x hm hu)
      have hnone : dictGet p0 n = none := by
        cases hg : dictGet p0 n with
        | none => rfl
        | some x => exact absurd rfl (hfresh n x (dictGet_mem _ _ _ hg))
      have hci' : CIInj (dictSet p0 n d) := by
        intro k1 d1 k2 d2 m1 m2 hu
        rcases mem_dictSet p0 n d _ m1 with e1 | e1 <;> rcases mem_dictSet p0 n d _ m2 with e2 | e2
        · injection e1 with a1 _; injection e2 with a2 _; rw [a1, a2]
        · injection e1 with a1 _; subst a1; exact absurd hu (hfresh k2 d2 e2)
        · injection e2 with a2 _; subst a2; exact absurd hu.symm (hfresh k1 d1 e1)
        · exact hci k1 d1 k2 d2 e1 e2 hu
      obtain ⟨i1, ic, i2, i3, i4⟩ := ih (dictSet p0 n d) (dictKeys_nodup_dictSet _ _ _ hn) hci' h
      refine ⟨i1, ic, ?_, ?_, ?_⟩
      · intro nd hnd
        rcases List.mem_cons.1 hnd with rfl | hnd
        · exact i3 n d (dictGet_dictSet_self _ _ _)
        · exact i2 nd hnd
      · intro m x hm
        apply i3
        rw [dictGet_dictSet]
        by_cases e : n = m
        · subst e; rw [hnone] at hm; simp at hm
        · simp [e, hm]
      · intro m x hm
        rcases i4 m x hm with h1 | h1
        · rw [dictGet_dictSet] at h1
          by_cases e : n = m
          · subst e
            simp only [if_true] at h1
            injection h1 with h1
            subst h1
            exact Or.inr List.mem_cons_self
          · simp only [e, if_false] at h1
            exact Or.inl h1
        · exact Or.inr (List.mem_cons_of_mem _ h1)

/-- **config_table_spec** (case-insensitive uniqueness since fix e4893fe). `ProgramInfo.from_config` with
explicitly configured parameters builds exactly the table the three configuration sections describe; its
names are pairwise different even ignoring letter case, so every spelling of a configured name resolves to
that name's own register.  (Two configured names may still share a register — the configuration path has no
such check; the batch theorems of section 3 do not need it.) -/
theorem config_table_spec (par fpar : Dict Str Nat) (parArray : Dict Str (Nat × Nat)) (p : Dict Str Desc)
    (h : fromConfig par fpar parArray = .ok p) :
    (dictKeys p).Nodup ∧ (∀ n d, dictGet p n = some d ↔ (n, d) ∈ cfgItems par fpar parArray) ∧
    (∀ key d name, dictGet p key = some d → upper name = upper key → lookupCI p name = some d) := by
  obtain ⟨h1, hc, h2, _, h4⟩ := cfgInsert_spec _ [] p (by simp [dictKeys]) (by intro _ _ _ _ m; simp at m) h
  refine ⟨h1, fun n d => ⟨?_, fun hm => h2 (n, d) hm⟩, ?_⟩
  · intro hg
    rcases h4 n d hg with h0 | h0
    · simp [dictGet] at h0
    · exact h0
  · intro key d name hk hu
    have hm := dictGet_mem _ _ _ hk
    obtain ⟨d', hd'⟩ := Option.isSome_iff_exists.1 (lookupCI_isSome_of_mem p name key d hm hu)
    obtain ⟨key', hm', hu'⟩ := lookupCI_some p name d' hd'
    have : key' = key := hc key' d' key d hm' hm (hu'.symm.trans hu)
    subst this
    rw [hd', ← dictGet_of_mem_nodup p key' d' h1 hm', hk]

/-- historical example (constants; the input of the repaired finding `…:configured-table`):
`par = {bar: 80}`, `fpar = {Bar: 80}` is now rejected, naming `Bar` -/
example : (match fromConfig [("bar".toList, 80)] [("Bar".toList, 80)] [] with
    | .error n => n == "Bar".toList
    | .ok _ => false) = true := by decide +kernel

/-- **start_with_params_touches_every_parameter.** The parameter part of `start_with_params(**kwargs)`:
a successful call writes exactly the registers of *all* bound names (zero-fill for names without keyword)
and nothing else. -/
theorem start_with_params_touches_every_parameter (b : Dict Str Desc) (dv dvB : Dev) (kwargs : Dict Str Val)
    (h : setParMultiple b dv (startParams b kwargs) = ⟨dvB, .ok ()⟩) :
    ∃ L, dvB.log = L ++ dv.log ∧ ∀ r, touchedBy L r ↔ ∃ key ∈ dictKeys b, lookupCI b key = some r := by
  obtain ⟨L, h1, h2⟩ := (touches_exactly_bound_registers b dv).2 (startParams b kwargs) dvB h
  refine ⟨L, h1, fun r => ?_⟩
  rw [h2 r]
  simp only [startParams, dictKeys, List.mem_map]
  constructor
  · rintro ⟨nv, ⟨kv, hkv, rfl⟩, hl⟩
    exact ⟨kv.1, ⟨kv, hkv, rfl⟩, hl⟩
  · rintro ⟨key, ⟨kv, hkv, rfl⟩, hl⟩
    exact ⟨_, ⟨kv, hkv, rfl⟩, hl⟩

/-- **start_with_params_writes_given_or_zero.** For the table of an accepted program: after the parameter
part of `start_with_params(**kwargs)` succeeded, *every* program parameter's register holds the value of
the keyword that equals its name ignoring case — whatever spelling the caller used (the first such
keyword, if the caller gave several spellings) — and the integer `0` exactly when no spelling of the name
was given.  (Together with `start_with_params_eq_single`: the same as `set_par` one name at a time, then start.) -/
theorem start_with_params_writes_given_or_zero (syms : List Sym) (b : Binding) (h : analyze syms = .ok b)
    (dv dvB : Dev) (kwargs : Dict Str Val)
    (hs : setParMultiple b.param dv (startParams b.param kwargs) = ⟨dvB, .ok ()⟩) :
    ∀ key d, dictGet b.param key = some d →
      dvB.readReg d = (match lookupCI kwargs key with | some v => v | none => .int 0) := by
  obtain ⟨one, _, _, _⟩ := binding_injective syms b h
  have hnd := analyze_param_keys_nodup h
  have own : ∀ key d, (key, d) ∈ b.param → lookupCI b.param key = some d := fun key d hm =>
    name_denotes_one_register syms b h key key d (dictGet_of_mem_nodup b.param key d hnd hm) rfl
  have hinj : ∀ p ∈ startParams b.param kwargs, ∀ q ∈ startParams b.param kwargs,
      lookupCI b.param p.1 = lookupCI b.param q.1 → p = q := by
    intro p hp q hq he
    simp only [startParams, List.mem_map] at hp hq
    obtain ⟨⟨k1, d1⟩, m1, rfl⟩ := hp
    obtain ⟨⟨k2, d2⟩, m2, rfl⟩ := hq
    simp only at he ⊢
    rw [own k1 d1 m1, own k2 d2 m2] at he
    injection he with he
    have := (one k1 k2 d1 d2 (dictGet_of_mem_nodup _ _ _ hnd m1) (dictGet_of_mem_nodup _ _ _ hnd m2)).2 he
    subst this
    rfl
  intro key d hk
  have hm := dictGet_mem _ _ _ hk
  have hmem : (key, (match lookupCI kwargs key with | some v => v | none => Val.int 0)) ∈ startParams b.param kwargs := by
    simp only [startParams, List.mem_map]
    exact ⟨(key, d), hm, rfl⟩
  exact (set_then_get b.param dv dvB _ hinj hs).1 _ hmem d (own key d hm)

/-! ## 5. The include walk -/

/-- **parse_terminates** (full strength since fix 48b63c7: no acyclicity hypothesis).
`parse_adbasic_program` keeps a FIFO work-list and the set of normalised paths already parsed.  For *every*
finite file map, top file and include directory — include cycles, self-includes and diamonds included —
the walk ends within `length fs + 1` calls of `open()` (every successful open consumes a not yet parsed
entry of the map), with a symbol list or the `OSError` of a file that cannot be opened, and the result is
the same for every larger budget. -/
theorem parse_terminates (fs : Files) (incDir top : Str) :
    ∀ n, fs.length < n →
      parseProgram n fs top incDir ≠ .outOfFuel ∧
      parseProgram n fs top incDir = parseProgram (fs.length + 1) fs top incDir := by
  have hbase : parseLoop fs incDir (fs.length + 1) [top] [] [] ≠ .outOfFuel :=
    parseLoop_terminates fs incDir _ _ _ _ (by have := unseen_le_length fs []; omega)
  intro n hn
  have := parseLoop_mono fs incDir _ [top] [] [] hbase n (by omega)
  unfold parseProgram
  rw [this]
  exact ⟨hbase, rfl⟩

private def exFiles : Files :=
  [("prog/main.bas".toList, "#Include .\\inc\\b.inc ' first\n#Define PAR_a Par_1\n#Include sub\\c.inc\n".toList),
   ("prog/inc/b.inc".toList, "#Define PAR_b FPar_2\r\n#include ..\\sub\\c.inc\r\n#Include ADwinGoldII.inc\r\n".toList),
   ("prog/sub/c.inc".toList, "#Define DATA_arr Data_5\n#Define PAR_c Data_arr[3]\n".toList)]

/-- a three-file program with a diamond (c.inc is reached twice, parsed once): all four definitions, once -/
example :
    (match parseProgram 4 exFiles "prog/main.bas".toList "prog".toList with
      | .ok syms => syms.map (·.label) == ["PAR_a".toList, "PAR_b".toList, "DATA_arr".toList, "PAR_c".toList]
      | _ => false) = true := by decide +kernel

/-- the program of DESIGN §7(n): `a.bas` includes `.\inc\b.inc`, which includes `..\a.bas` -/
def cycFiles : Files :=
  [("a.bas".toList, "#Define PAR_one Par_1\n#Include .\\inc\\b.inc\n".toList),
   ("inc/b.inc".toList, "#Define PAR_two Par_2\n#Include ..\\a.bas\n".toList)]

/-- **include_cycle_parsed_once** (historical example about a constant: the input of the repaired finding
`parse:never-terminates:include-cycle`).  The two-file include cycle is now parsed with two opens and yields
each definition once; so does a file that includes itself. -/
theorem include_cycle_parsed_once :
    (match parseProgram 3 cycFiles "a.bas".toList [] with
      | .ok syms => syms.map (fun s => (s.file, s.line, s.label)) ==
          [("a.bas".toList, 1, "PAR_one".toList), ("inc/b.inc".toList, 1, "PAR_two".toList)]
      | _ => false) = true ∧
    (match parseProgram 2 [("prog/main.bas".toList, "#Include .\\main.bas ' itself\n#Define PAR_x Par_1\n".toList)]
        "prog/main.bas".toList "prog".toList with
      | .ok syms => syms.map (·.label) == ["PAR_x".toList]
      | _ => false) = true := by
  constructor <;> decide +kernel

end QmiModel.Adbasic
