import QmiModel.Model.RecvQueue
/-!
# C09 — receiver queue: bounded, oldest first, losses are countable

Property theorems only.  All statements quantify over *every* capacity ≥ 1
(the constructor asserts `max_queue_length > 0`), both discard policies and
*every* finite operation sequence (induction over the op list, no bound).
-/
namespace QmiModel.RecvQueue

/-- The inductive invariant of the ghost-instrumented receiver. -/
structure Inv (g : Ghost) : Prop where
  len_le   : g.r.q.length ≤ g.r.cap
  q_sorted : (g.r.q.map Sig.seq).Pairwise (· < ·)
  q_lt     : ∀ s ∈ g.r.q, s.seq < g.r.next
  d_sorted : g.delivered.Pairwise (· < ·)
  d_lt_q   : ∀ d ∈ g.delivered, ∀ s ∈ g.r.q, d < s.seq
  account  : (g.delivered ++ g.dropped ++ g.discarded ++ g.r.q.map Sig.seq).Perm (List.range g.r.next)

theorem inv_init (cap : Nat) (pol : Policy) : Inv (ginit cap pol) := by
  constructor <;> simp [ginit, init]

private theorem lt_next_of_account {g : Ghost} (h : Inv g) {n : Nat}
    (hn : n ∈ g.delivered ++ g.dropped ++ g.discarded ++ g.r.q.map Sig.seq) : n < g.r.next := by
  have := (h.account.mem_iff (a := n)).1 hn
  simpa using this

theorem inv_step (g : Ghost) (o : Op) (_hcap : 1 ≤ g.r.cap) (h : Inv g) : Inv (gstep g o) := by
  cases o with
  | recv t =>
    simp only [gstep, recv]
    split
    · -- queue full, DISCARD_NEW: the arrival is dropped
      refine ⟨h.len_le, h.q_sorted, fun s hs => Nat.lt_succ_of_lt (h.q_lt s hs), h.d_sorted, h.d_lt_q, ?_⟩
      simp only [List.range_succ]
      have := h.account
      refine List.Perm.trans ?_ (this.append_right [g.r.next])
      simp only [List.append_assoc]
      refine List.Perm.append_left _ (List.Perm.append_left _ ?_)
      refine List.Perm.trans (List.perm_append_comm_assoc _ _ _) ?_
      refine List.Perm.append_left _ ?_
      exact List.perm_append_comm
    · -- appended through the bounded deque
      have hsorted : (((g.r.q ++ [⟨g.r.next, t⟩] : List Sig)).map Sig.seq).Pairwise (· < ·) := by
        simp only [List.map_append, List.map_cons, List.map_nil]
        rw [List.pairwise_append]
        refine ⟨h.q_sorted, by simp, ?_⟩
        intro a ha b hb
        simp only [List.mem_map] at ha
        obtain ⟨s, hs, rfl⟩ := ha
        simp only [List.mem_singleton] at hb
        subst hb
        exact h.q_lt s hs
      refine ⟨?_, ?_, ?_, h.d_sorted, ?_, ?_⟩
      · simp only [dequeAppend, List.length_drop, List.length_append, List.length_cons, List.length_nil]
        have := h.len_le
        omega
      · simp only [dequeAppend, List.map_drop]
        exact hsorted.sublist (List.drop_sublist _ _)
      · intro s hs
        simp only [dequeAppend] at hs
        have hs' := List.mem_of_mem_drop hs
        simp only [List.mem_append, List.mem_singleton] at hs'
        rcases hs' with hs' | rfl
        · exact Nat.lt_succ_of_lt (h.q_lt s hs')
        · exact Nat.lt_succ_self _
      · intro d hd s hs
        simp only [dequeAppend] at hs
        have hs' := List.mem_of_mem_drop hs
        simp only [List.mem_append, List.mem_singleton] at hs'
        rcases hs' with hs' | rfl
        · exact h.d_lt_q d hd s hs'
        · exact lt_next_of_account h (by simp [hd])
      · simp only [dequeAppend, List.range_succ]
        have hacc := (h.account.append_right [g.r.next])
        refine List.Perm.trans ?_ hacc
        -- both sides: delivered ++ dropped ++ [stuff] ; reorganise
        have hsplit : ((g.r.q ++ [⟨g.r.next, t⟩] : List Sig).map Sig.seq) =
            ((g.r.q ++ [⟨g.r.next, t⟩] : List Sig).take ((g.r.q ++ [⟨g.r.next, t⟩] : List Sig).length - g.r.cap)).map Sig.seq
            ++ ((g.r.q ++ [⟨g.r.next, t⟩] : List Sig).drop ((g.r.q ++ [⟨g.r.next, t⟩] : List Sig).length - g.r.cap)).map Sig.seq := by
          rw [← List.map_append, List.take_append_drop]
        have hrhs : g.delivered ++ g.dropped ++ g.discarded ++ g.r.q.map Sig.seq ++ [g.r.next]
            = g.delivered ++ g.dropped ++ g.discarded ++ ((g.r.q ++ [⟨g.r.next, t⟩] : List Sig).map Sig.seq) := by
          simp
        rw [hrhs, hsplit]
        generalize ((g.r.q ++ [⟨g.r.next, t⟩] : List Sig).take _).map Sig.seq = X
        generalize ((g.r.q ++ [⟨g.r.next, t⟩] : List Sig).drop _).map Sig.seq = Y
        simp only [List.append_assoc]
        refine List.Perm.append_left _ (List.Perm.append_left _ ?_)
        -- X ++ discarded ++ Y ~ discarded ++ X ++ Y
        exact (List.perm_append_comm_assoc X g.discarded Y)
  | get =>
    simp only [gstep, getNext]
    cases hq : g.r.q with
    | nil =>
      have : ({ r := g.r, delivered := g.delivered, dropped := g.dropped, discarded := g.discarded } : Ghost) = g := rfl
      simpa [this] using h
    | cons s rest =>
      have hs := h.q_sorted
      have hlen := h.len_le
      have hqlt := h.q_lt
      have hdq := h.d_lt_q
      have hacc := h.account
      rw [hq] at hs hlen hqlt hdq hacc
      simp only [List.map_cons, List.pairwise_cons] at hs
      refine ⟨?_, hs.2, ?_, ?_, ?_, ?_⟩
      · simp only [List.length_cons] at hlen; simp; omega
      · intro x hx; exact hqlt x (List.mem_cons_of_mem _ hx)
      · rw [List.pairwise_append]
        refine ⟨h.d_sorted, by simp, ?_⟩
        intro a ha b hb
        simp only [List.mem_singleton] at hb; subst hb
        exact hdq a ha s (List.mem_cons_self)
      · intro d hd x hx
        simp only [List.mem_append, List.mem_singleton] at hd
        rcases hd with hd | rfl
        · exact hdq d hd x (List.mem_cons_of_mem _ hx)
        · exact hs.1 _ (List.mem_map_of_mem (f := Sig.seq) hx)
      · refine List.Perm.trans ?_ hacc
        simp only [List.append_assoc, List.map_cons]
        refine List.Perm.append_left _ ?_
        -- [s.seq] ++ dropped ++ discarded ++ rest ~ dropped ++ discarded ++ s.seq :: rest
        have : g.dropped ++ (g.discarded ++ s.seq :: rest.map Sig.seq)
             = (g.dropped ++ g.discarded) ++ ([s.seq] ++ rest.map Sig.seq) := by simp
        rw [this]
        have h2 : [s.seq] ++ (g.dropped ++ (g.discarded ++ rest.map Sig.seq))
             = [s.seq] ++ ((g.dropped ++ g.discarded) ++ rest.map Sig.seq) := by simp
        rw [h2]
        exact List.perm_append_comm_assoc _ _ _
  | discard =>
    simp only [gstep, discardAll]
    refine ⟨by simp, by simp, by simp, h.d_sorted, by simp, ?_⟩
    simpa using h.account
  | len => exact h
  | ready => exact h

theorem cap_gstep (g : Ghost) (o : Op) : (gstep g o).r.cap = g.r.cap := by
  cases o <;> simp only [gstep, recv, getNext, discardAll]
  · split <;> rfl
  · cases g.r.q <;> rfl

theorem cap_grun (g : Ghost) (ops : List Op) : (grun g ops).r.cap = g.r.cap := by
  induction ops generalizing g with
  | nil => rfl
  | cons o os ih => simp only [grun, List.foldl_cons] at *; rw [ih, cap_gstep]

/-- the invariant holds in every state reachable by any op sequence -/
theorem inv_reachable (cap : Nat) (pol : Policy) (hcap : 1 ≤ cap) (ops : List Op) :
    Inv (grun (ginit cap pol) ops) := by
  suffices ∀ g, 1 ≤ g.r.cap → Inv g → Inv (grun g ops) from this _ hcap (inv_init cap pol)
  induction ops with
  | nil => intro g _ h; exact h
  | cons o os ih =>
    intro g hc h
    exact ih (gstep g o) (by rw [cap_gstep]; exact hc) (inv_step g o hc h)

/-! ## The property theorems -/

/-- never holds more than its configured maximum -/
theorem len_le_cap (cap : Nat) (pol : Policy) (hcap : 1 ≤ cap) (ops : List Op) :
    (grun (ginit cap pol) ops).r.q.length ≤ cap := by
  have h := (inv_reachable cap pol hcap ops).len_le
  rw [cap_grun] at h; exact h

/-- the queue is ordered by arrival number: `get_next_signal` hands out the oldest -/
theorem queue_sorted (cap : Nat) (pol : Policy) (hcap : 1 ≤ cap) (ops : List Op) :
    ((grun (ginit cap pol) ops).r.q.map Sig.seq).Pairwise (· < ·) :=
  (inv_reachable cap pol hcap ops).q_sorted

/-- `getNext` returns the head of the queue (oldest), or times out iff the queue is empty -/
theorem getNext_total (r : RQ) :
    (r.q = [] ∧ getNext r = (r, none)) ∨
    (∃ s rest, r.q = s :: rest ∧ getNext r = ({ r with q := rest }, some s)) := by
  unfold getNext
  cases r.q with
  | nil => exact Or.inl ⟨rfl, rfl⟩
  | cons s rest => exact Or.inr ⟨s, rest, rfl, rfl⟩

/-- the numbers a reader sees are strictly increasing -/
theorem seq_strict_mono_out (cap : Nat) (pol : Policy) (hcap : 1 ≤ cap) (ops : List Op) :
    (grun (ginit cap pol) ops).delivered.Pairwise (· < ·) :=
  (inv_reachable cap pol hcap ops).d_sorted

/-- every arrival number below `next` is in exactly one of delivered / dropped / discarded / queued -/
theorem accounting (cap : Nat) (pol : Policy) (hcap : 1 ≤ cap) (ops : List Op) :
    let g := grun (ginit cap pol) ops
    (g.delivered ++ g.dropped ++ g.discarded ++ g.r.q.map Sig.seq).Perm (List.range g.r.next) :=
  (inv_reachable cap pol hcap ops).account

/-- no arrival number is counted twice -/
theorem accounting_nodup (cap : Nat) (pol : Policy) (hcap : 1 ≤ cap) (ops : List Op) :
    let g := grun (ginit cap pol) ops
    (g.delivered ++ g.dropped ++ g.discarded ++ g.r.q.map Sig.seq).Nodup :=
  (accounting cap pol hcap ops).nodup_iff.2 List.nodup_range

/-- **each gap equals the number of signals lost**: for two consecutive
numbers `a`, `b` handed to the reader, every number strictly in between was
lost (dropped by the policy or discarded), and — by `accounting_nodup` — each
exactly once; there are `b - a - 1` of them. -/
theorem gap_is_lost (cap : Nat) (pol : Policy) (hcap : 1 ≤ cap) (ops : List Op)
    (pre post : List Nat) (a b : Nat)
    (hd : (grun (ginit cap pol) ops).delivered = pre ++ a :: b :: post) :
    ∀ n, a < n → n < b →
      n ∈ (grun (ginit cap pol) ops).dropped ++ (grun (ginit cap pol) ops).discarded := by
  intro n han hnb
  have hinv := inv_reachable cap pol hcap ops
  generalize grun (ginit cap pol) ops = g at *
  have hbn : b < g.r.next := lt_next_of_account hinv (by simp [hd])
  have hn : n ∈ List.range g.r.next := by simp; omega
  have hmem := (hinv.account.mem_iff (a := n)).2 hn
  simp only [List.mem_append] at hmem ⊢
  rcases hmem with ((hm | hm) | hm) | hm
  · -- delivered: impossible, a and b are adjacent in a strictly increasing list
    exfalso
    have hs := hinv.d_sorted
    rw [hd] at hm hs
    rw [List.pairwise_append] at hs
    obtain ⟨_, hs2, hs3⟩ := hs
    simp only [List.pairwise_cons] at hs2
    simp only [List.mem_append, List.mem_cons] at hm
    rcases hm with hm | rfl | rfl | hm
    · have := hs3 n hm a (by simp); omega
    · omega
    · omega
    · have := hs2.2.1 n hm; omega
  · exact Or.inl hm
  · exact Or.inr hm
  · -- still queued: impossible, everything delivered is older than everything queued
    exfalso
    simp only [List.mem_map] at hm
    obtain ⟨s, hs, rfl⟩ := hm
    have := hinv.d_lt_q b (by simp [hd]) s hs
    omega

private theorem range_filter_between (a b N : Nat) :
    ((List.range N).filter (fun n => decide (a < n) && decide (n < b))).length = min b N - (a + 1) := by
  induction N with
  | zero => simp
  | succ N ih =>
    rw [List.range_succ, List.filter_append, List.length_append, ih]
    by_cases h : a < N ∧ N < b
    · simp [h.1, h.2]; omega
    · have : (decide (a < N) && decide (N < b)) = false := by
        simp only [Bool.and_eq_false_iff, decide_eq_false_iff_not]; omega
      simp [this]; omega

/-- the count form of `gap_is_lost` -/
theorem gap_count (cap : Nat) (pol : Policy) (hcap : 1 ≤ cap) (ops : List Op)
    (pre post : List Nat) (a b : Nat)
    (hd : (grun (ginit cap pol) ops).delivered = pre ++ a :: b :: post) :
    (((grun (ginit cap pol) ops).dropped ++ (grun (ginit cap pol) ops).discarded).filter
        (fun n => decide (a < n) && decide (n < b))).length = b - a - 1 := by
  have hinv := inv_reachable cap pol hcap ops
  have hlost := gap_is_lost cap pol hcap ops pre post a b hd
  generalize grun (ginit cap pol) ops = g at *
  have hbn : b < g.r.next := lt_next_of_account hinv (by simp [hd])
  have hperm := (hinv.account.filter (fun n => decide (a < n) && decide (n < b))).length_eq
  rw [range_filter_between] at hperm
  have hnd : (g.delivered ++ g.dropped ++ g.discarded ++ g.r.q.map Sig.seq).Nodup :=
    hinv.account.nodup_iff.2 List.nodup_range
  -- nothing strictly between a and b is delivered or still queued
  have hdel : g.delivered.filter (fun n => decide (a < n) && decide (n < b)) = [] := by
    rw [List.filter_eq_nil_iff]
    intro n hn hp
    simp only [Bool.and_eq_true, decide_eq_true_eq] at hp
    have hl := hlost n hp.1 hp.2
    have : n ∈ g.dropped ++ g.discarded := hl
    simp only [List.append_assoc] at hnd
    have := (List.nodup_append.1 hnd).2.2 n hn n (by simp only [List.mem_append] at hl ⊢; rcases hl with h | h; exact Or.inl h; exact Or.inr (Or.inl h))
    exact this rfl
  have hq : (g.r.q.map Sig.seq).filter (fun n => decide (a < n) && decide (n < b)) = [] := by
    rw [List.filter_eq_nil_iff]
    intro n hn hp
    simp only [Bool.and_eq_true, decide_eq_true_eq] at hp
    simp only [List.mem_map] at hn
    obtain ⟨s, hs, rfl⟩ := hn
    have := hinv.d_lt_q b (by simp [hd]) s hs
    omega
  simp only [List.filter_append, hdel, hq, List.nil_append, List.append_nil, List.append_assoc] at hperm
  simp only [List.filter_append]
  rw [hperm]
  omega

/-- full queue + DISCARD_NEW: the arrival is dropped, queue unchanged, number consumed -/
theorem policy_new (r : RQ) (t : Nat) (hfull : r.q.length = r.cap) (hp : r.pol = .new) :
    (recv r t).q = r.q ∧ (recv r t).next = r.next + 1 := by
  simp [recv, hfull, hp]

/-- full queue + DISCARD_OLD: the oldest goes, the arrival is queued last -/
theorem policy_old (r : RQ) (t : Nat) (hcap : 1 ≤ r.cap) (hfull : r.q.length = r.cap) (hp : r.pol = .old) :
    (recv r t).q = r.q.drop 1 ++ [⟨r.next, t⟩] ∧ (recv r t).next = r.next + 1 := by
  have hne : r.q ≠ [] := by intro h; rw [h] at hfull; simp at hfull; omega
  obtain ⟨x, xs, hx⟩ := List.exists_cons_of_ne_nil hne
  have hk : (r.q ++ [(⟨r.next, t⟩ : Sig)]).length - r.cap = 1 := by simp; omega
  simp only [recv, hp, dequeAppend, hk]
  rw [hx]; simp

/-- not full: the arrival is queued last, nothing is lost -/
theorem recv_not_full (r : RQ) (t : Nat) (h : r.q.length < r.cap) :
    (recv r t).q = r.q ++ [⟨r.next, t⟩] ∧ (recv r t).next = r.next + 1 := by
  have : ¬ (r.q.length = r.cap ∧ r.pol = .new) := by omega
  have hk : (r.q ++ [(⟨r.next, t⟩ : Sig)]).length - r.cap = 0 := by simp; omega
  simp only [recv, this, dequeAppend, hk]
  simp

/-- the ghost run and the plain run agree on the receiver state -/
theorem grun_r (g : Ghost) (ops : List Op) : (grun g ops).r = (run g.r ops).1 := by
  induction ops generalizing g with
  | nil => rfl
  | cons o os ih =>
    simp only [grun, List.foldl_cons, run]
    have := ih (gstep g o)
    simp only [grun] at this
    rw [this]
    congr 2
    cases o <;> simp only [gstep, step, getNext]
    · split <;> rfl
    · cases g.r.q <;> rfl

/-! ## Non-vacuity: a concrete reachable state exercising full-queue drops of both kinds -/

example : (grun (ginit 2 .old) [.recv 7, .recv 8, .recv 9, .get, .discard, .recv 1, .get]).delivered = [1, 3]
    ∧ (grun (ginit 2 .old) [.recv 7, .recv 8, .recv 9, .get, .discard, .recv 1, .get]).dropped = [0]
    ∧ (grun (ginit 2 .old) [.recv 7, .recv 8, .recv 9, .get, .discard, .recv 1, .get]).discarded = [2] := by
  decide

example : (grun (ginit 1 .new) [.recv 7, .recv 8, .get, .recv 9, .get]).delivered = [0, 2]
    ∧ (grun (ginit 1 .new) [.recv 7, .recv 8, .get, .recv 9, .get]).dropped = [1] := by
  decide

end QmiModel.RecvQueue
