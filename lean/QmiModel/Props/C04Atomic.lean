import QmiModel.Gen.TokenProg
import QmiModel.Model.Lock
/-!
# C04 — `make_unique_token` is atomic enough: distinct counter values under every interleaving

The system model (`Model/Lock.lean: freshToken`) treats one `make_unique_token()` call as a single action.  This file
justifies that for the code as it is: the statement list of the function is generated from its AST
(`Gen/TokenProg.lean`), the obligation `gen_prog_atomic` says the counter read and its write-back both sit inside the
`with self._unique_counters_lock:` block, and `tokens_distinct_all_schedules` proves — for any number of threads and
*every* schedule of statement-level steps — that no two calls return the same counter value.  `gen_token_shape` ties the
string format used by `mkToken` to the `return` expression.
-/
namespace QmiModel.TokenProg

/-- inductive invariant of `atomicProg` under every interleaving -/
structure TInv (s : TS) : Prop where
  pc_le : ∀ i, s.pc i ≤ 4
  done_pc : ∀ i, s.done i = true → s.pc i = 4
  holder : ∀ i, (1 ≤ s.pc i ∧ s.pc i ≤ 3) ↔ s.lock = some i
  rd : ∀ i, s.pc i = 2 → s.nr i = s.counter + 1
  wr_le : ∀ i, 3 ≤ s.pc i → 1 ≤ s.nr i ∧ s.nr i ≤ s.counter
  wr_ne : ∀ i j, i ≠ j → 3 ≤ s.pc i → 3 ≤ s.pc j → s.nr i ≠ s.nr j

theorem TInv_init : TInv TS.init := by
  constructor <;> simp [TS.init]

theorem TInv_step {s : TS} (h : TInv s) (i : Nat) : TInv (tstep atomicProg s i) := by
  unfold tstep
  split
  · exact h
  · have hpc := h.pc_le i
    obtain ⟨a, b, c, d, e, f⟩ := h
    have hcases : s.pc i = 0 ∨ s.pc i = 1 ∨ s.pc i = 2 ∨ s.pc i = 3 ∨ s.pc i = 4 := by omega
    rcases hcases with h0 | h1 | h2 | h3 | h4
    · simp only [h0, atomicProg, List.getElem?_cons_zero]
      cases hl : s.lock with
      | some k => simp only [hl]; exact ⟨a, b, c, d, e, f⟩
      | none =>
        simp only [hl]
        constructor <;> simp only [upd] <;> grind
    · simp only [h1, atomicProg, List.getElem?_cons_succ, List.getElem?_cons_zero]
      constructor <;> simp only [upd] <;> grind
    · simp only [h2, atomicProg, List.getElem?_cons_succ, List.getElem?_cons_zero]
      constructor <;> simp only [upd] <;> grind
    · simp only [h3, atomicProg, List.getElem?_cons_succ, List.getElem?_cons_zero]
      constructor <;> simp only [upd] <;> grind
    · simp only [h4, atomicProg, List.getElem?_cons_succ, List.getElem?_cons_zero]
      constructor <;> simp only [upd] <;> grind

theorem TInv_run (sched : List Nat) : ∀ s, TInv s → TInv (trun atomicProg s sched) := by
  induction sched with
  | nil => intro s h; exact h
  | cons i rest ih => intro s h; exact ih _ (TInv_step h i)

/-- **every interleaving**: any number of threads, any schedule of statement-level steps — two calls that have
returned carry different counter values -/
theorem tokens_distinct_all_schedules (sched : List Nat) (i j : Nat) (hij : i ≠ j)
    (hi : (trun atomicProg TS.init sched).done i = true) (hj : (trun atomicProg TS.init sched).done j = true) :
    (trun atomicProg TS.init sched).nr i ≠ (trun atomicProg TS.init sched).nr j := by
  have h := TInv_run sched TS.init TInv_init
  have pi := h.done_pc i hi
  have pj := h.done_pc j hj
  exact h.wr_ne i j hij (by omega) (by omega)

/-- round-robin schedule of three threads -/
def rr3 : List Nat := (List.range 45).map (· % 3)

/-- non-vacuity: three threads interleaved statement by statement, all returned, values 1, 2, 3 in lock order -/
example : (trun atomicProg TS.init rr3).done 0 = true ∧ (trun atomicProg TS.init rr3).done 1 = true ∧
    (trun atomicProg TS.init rr3).done 2 = true ∧ (trun atomicProg TS.init rr3).nr 0 = 1 ∧
    (trun atomicProg TS.init rr3).nr 1 = 2 ∧ (trun atomicProg TS.init rr3).nr 2 = 3 := by decide

/-- the mutual exclusion the proof rests on: at most one thread is between `acquire` and `release` -/
theorem critical_section_exclusive (sched : List Nat) (i j : Nat)
    (hi : 1 ≤ (trun atomicProg TS.init sched).pc i ∧ (trun atomicProg TS.init sched).pc i ≤ 3)
    (hj : 1 ≤ (trun atomicProg TS.init sched).pc j ∧ (trun atomicProg TS.init sched).pc j ≤ 3) : i = j := by
  have h := TInv_run sched TS.init TInv_init
  have a := (h.holder i).1 hi
  have b := (h.holder j).1 hj
  rw [a] at b; cases b; rfl

/-- OBLIGATION on the generated program: `make_unique_token` reads and writes back the counter inside the lock -/
theorem gen_prog_atomic : Gen.TokenProg.prog = atomicProg := by decide

/-- OBLIGATION on the generated return expression: the token string is `prefix + _instance_id + "_" + str(nr)` -/
theorem gen_token_shape : Gen.TokenProg.shape = tokenShape := by decide

/-- decimal rendering of a natural number is injective (the counter never wraps and never loses digits) -/
theorem decimal_injective {n m : Nat} (h : toString n = toString m) : n = m := by
  simp only [Nat.toString_eq_repr] at h
  have h2 : Nat.toDigits 10 n = Nat.toDigits 10 m := by
    rw [← Nat.toList_repr, ← Nat.toList_repr, h]
  have hn := Nat.ofDigitChars_toDigits (b := 10) (n := n) (by omega) (by omega)
  have hm := Nat.ofDigitChars_toDigits (b := 10) (n := m) (by omega) (by omega)
  rw [h2] at hn
  omega

/-- OBLIGATION, semantic form: the token string as generated from the `return` expression is defined for every
counter value and is an **injective function of the counter** (same prefix, same instance identifier): token number
`k + 65536` can never equal token number `k`.  A masked / fixed-width / wrapped rendering of the counter is emitted by
the translator as `counterOther` and fails here. -/
theorem gen_token_render_injective (pfx instanceId : String) (n m : Nat) :
    (render Gen.TokenProg.shape pfx instanceId n).isSome ∧
    (render Gen.TokenProg.shape pfx instanceId n = render Gen.TokenProg.shape pfx instanceId m → n = m) := by
  rw [gen_token_shape]
  simp only [render, tokenShape, List.foldl_cons, List.foldl_nil, renderPart, Option.isSome_some, true_and,
    Option.some.injEq]
  intro h
  exact decimal_injective ((String.append_right_inj _).1 h)

/-- the system model's `mkToken` is this rendering with the prefix `$lock_` -/
theorem mkToken_eq_render (name nonce : String) (n : Nat) :
    render tokenShape "$lock_" nonce n = some (QmiModel.Lock.mkToken name nonce n).tok := by
  simp [render, tokenShape, renderPart, QmiModel.Lock.mkToken]

/-- what the obligation rejects (a constant, not the source): a 16-bit rendering is not even representable as a
function the model knows, and numerically `k + 65536` and `k` agree modulo 2^16 -/
example : render [.pfx, .instanceId, .lit "_", .counterOther "nr & 0xffff :04x"] "$lock_" "ab" 1 = none ∧
    (1 + 65536) % 65536 = 1 % 65536 := by decide

/-- OBLIGATION on the generated identifier sources: `_instance_id` (assigned exactly once, in `__init__`) contains at
least 48 bits from the OS entropy source — not the seedable global PRNG, a clock, a pid or anything else a client
program can bring into the same state twice.  This is the checkable part of the freshness hypothesis
(`(ctxs.map Ctx.nonce).Nodup`) of `auto_tokens_distinct` / `only_holder_executes`; that two draws of 48 OS-random bits
differ is the residual (probabilistic) assumption. -/
theorem gen_instance_id_from_os_entropy : fromOsEntropy Gen.TokenProg.idSources = true := by decide

/-- what the obligation rejects (constants, not the source) -/
example : fromOsEntropy [.globalPrng] = false ∧ fromOsEntropy [.clock, .pid] = false ∧
    fromOsEntropy [.osEntropy 2] = false ∧ fromOsEntropy [.pid, .osEntropy 16] = true := by decide

/-- hence the theorem holds of the program as generated from the source -/
theorem gen_tokens_distinct (sched : List Nat) (i j : Nat) (hij : i ≠ j)
    (hi : (trun Gen.TokenProg.prog TS.init sched).done i = true)
    (hj : (trun Gen.TokenProg.prog TS.init sched).done j = true) :
    (trun Gen.TokenProg.prog TS.init sched).nr i ≠ (trun Gen.TokenProg.prog TS.init sched).nr j := by
  rw [gen_prog_atomic] at hi hj ⊢
  exact tokens_distinct_all_schedules sched i j hij hi hj

/-- why the obligation matters (a constant, not the source): with the write-back moved out of the `with` block two
threads can return the same value -/
def racyProg : List Instr := [.acquire, .read, .release, .write, .ret]

theorem racy_prog_collides :
    (trun racyProg TS.init [0, 0, 0, 1, 1, 1, 1, 1, 0, 0]).done 0 = true ∧
    (trun racyProg TS.init [0, 0, 0, 1, 1, 1, 1, 1, 0, 0]).done 1 = true ∧
    (trun racyProg TS.init [0, 0, 0, 1, 1, 1, 1, 1, 0, 0]).nr 0 = (trun racyProg TS.init [0, 0, 0, 1, 1, 1, 1, 1, 0, 0]).nr 1 := by
  decide

end QmiModel.TokenProg
