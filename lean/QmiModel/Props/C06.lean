import QmiModel.Lemmas.C06Frame
import QmiModel.Lemmas.C06Hs
/-!
# C06 — peer connections deliver whole messages in order and contain bad peers

Property theorems only (model: `Model/Frame.lean`, helper lemmas: `Lemmas/C06Frame.lean`).  Everything is
quantified over *all* byte strings, segmentations, payload lists, handler tables, pending tables and
connection tables — induction over lists, no bounds.  `env.decode` (what pickle makes of a payload), the
handler table and `MAX_MESSAGE_SIZE` are arbitrary parameters.
-/
namespace QmiModel.Frame

/-! ## 1. However the byte stream is cut into segments -/

/-- **chunking invariance**: receiving `a` and then `b` is receiving `a ++ b` (same final connection state —
    buffer, peer identity, pending table, closed flag — and the same events in the same order). -/
theorem chunking_invariance (env : Env) (c : Conn) (a b : Bytes) :
    feed env c (a ++ b) = ((feed env (feed env c a).1 b).1, (feed env c a).2 ++ (feed env (feed env c a).1 b).2) :=
  feed_append env c a b

/-- **all segmentations**: feeding any non-empty list of segments one by one is feeding their concatenation
    (segments may be empty, single bytes, or hold many frames). -/
theorem all_segmentations (env : Env) (c : Conn) (d : Bytes) (ds : List Bytes) :
    feedAll env c (d :: ds) = feed env c (d :: ds).flatten := by
  rw [feedAll_cons, List.flatten_cons]

/-- two segmentations of the same stream are indistinguishable -/
theorem segmentation_irrelevant (env : Env) (c : Conn) (xs ys : List Bytes)
    (hx : xs ≠ []) (hy : ys ≠ []) (h : xs.flatten = ys.flatten) :
    feedAll env c xs = feedAll env c ys := by
  obtain ⟨x, xs', rfl⟩ := List.exists_cons_of_ne_nil hx
  obtain ⟨y, ys', rfl⟩ := List.exists_cons_of_ne_nil hy
  rw [all_segmentations, all_segmentations, h]

/-- down to single bytes -/
theorem single_bytes (env : Env) (c : Conn) (b : UInt8) (bs : Bytes) :
    feedAll env c ((b :: bs).map fun x => [x]) = feed env c (b :: bs) := by
  rw [List.map_cons, all_segmentations]
  congr 1
  induction bs generalizing b with
  | nil => rfl
  | cons b2 bs ih => simp only [List.map_cons, List.flatten_cons, List.singleton_append] at ih ⊢; rw [ih]

/-! ## 2. Exactly the messages that were sent, complete, unmodified, in order -/

/-- what a sender writes for one payload is read back as exactly that payload (`send_message` → `_receive_data`):
    the frame loop hands `p`, byte for byte, to `_process_message` and goes on with the rest -/
theorem frame_roundtrip (env : Env) (s : PState) (p rest : Bytes)
    (hmax : p.length ≤ env.maxSize) (h64 : env.maxSize < 2 ^ 64) :
    consume env s (frame p ++ rest) =
      match (processMessage env s p).err with
      | some w => ⟨(processMessage env s p).st, rest, (processMessage env s p).evs, some w⟩
      | none => ⟨(consume env (processMessage env s p).st rest).st, (consume env (processMessage env s p).st rest).buf,
                 (processMessage env s p).evs ++ (consume env (processMessage env s p).st rest).evs,
                 (consume env (processMessage env s p).st rest).err⟩ :=
  consume_frame env s p rest hmax (by omega)

/-- **delivers exactly**: an open connection (either direction, any pending table) that has not seen a
    handshake yet receives the peer's handshake `hp` followed by the frames of payloads `ps`, which decode to
    well-addressed messages `ms`.  Then: not closed, buffer empty, peer identity = the handshake's, and the
    messages handed to `deliver_message` are exactly `ms`, in order, each changed only in its source context
    (→ the local alias of the peer). -/
theorem delivers_exactly (env : Env) (c : Conn)
    (hopen : c.closed = false) (hbuf : c.buf = []) (hpeer : c.st.peer = none)
    (hp : Bytes) (pn : Name) (ver : Nat) (server : Bool) (ps : List Bytes) (ms : List Msg)
    (h64 : env.maxSize < 2 ^ 64) (hsz : ∀ p ∈ hp :: ps, p.length ≤ env.maxSize)
    (hhs : env.decode hp = .handshake (some pn) ver server) (hdir : server = !c.st.incoming)
    (hdec : ps.map env.decode = ms.map Decoded.msg)
    (hvalid : ∀ m ∈ ms, m.dst.ctx = env.ctxName ∧ m.src.ctx = pn) :
    (feed env c (frames (hp :: ps))).1.closed = false ∧
    (feed env c (frames (hp :: ps))).1.buf = [] ∧
    (feed env c (frames (hp :: ps))).1.st.peer = some pn ∧
    attempts (feed env c (frames (hp :: ps))).2 = ms.map (rewriteSrc c.st.alias) := by
  have hproc := processMessage_handshake env c.st hp pn ver server hpeer hhs hdir
  obtain ⟨v1, v2, v3, _, v5⟩ := procAll_valid env pn ps { c.st with peer := some pn, ver := some ver } ms rfl hdec hvalid
  have hall : procAll env c.st (hp :: ps) =
      ⟨(procAll env { c.st with peer := some pn, ver := some ver } ps).st,
       (procAll env { c.st with peer := some pn, ver := some ver } ps).evs,
       (procAll env { c.st with peer := some pn, ver := some ver } ps).err⟩ := by
    simp only [procAll, hproc, List.nil_append]
  have hc := consume_frames env h64 (hp :: ps) c.st [] hsz (by rw [hall]; exact v1)
  rw [List.append_nil, consume_nil] at hc
  unfold feed
  simp only [hopen, hbuf, List.nil_append, Bool.false_eq_true, ↓reduceIte]
  rw [hc, hall]
  simp only [List.append_nil]
  exact ⟨trivial, trivial, v2, by rw [v5]⟩

/-- … and therefore for **every segmentation** of that stream -/
theorem delivers_exactly_any_segmentation (env : Env) (c : Conn)
    (hopen : c.closed = false) (hbuf : c.buf = []) (hpeer : c.st.peer = none)
    (hp : Bytes) (pn : Name) (ver : Nat) (server : Bool) (ps : List Bytes) (ms : List Msg)
    (h64 : env.maxSize < 2 ^ 64) (hsz : ∀ p ∈ hp :: ps, p.length ≤ env.maxSize)
    (hhs : env.decode hp = .handshake (some pn) ver server) (hdir : server = !c.st.incoming)
    (hdec : ps.map env.decode = ms.map Decoded.msg)
    (hvalid : ∀ m ∈ ms, m.dst.ctx = env.ctxName ∧ m.src.ctx = pn)
    (chunks : List Bytes) (hne : chunks ≠ []) (hcut : chunks.flatten = frames (hp :: ps)) :
    (feedAll env c chunks).1.closed = false ∧ (feedAll env c chunks).1.buf = [] ∧
    attempts (feedAll env c chunks).2 = ms.map (rewriteSrc c.st.alias) := by
  obtain ⟨d, ds, rfl⟩ := List.exists_cons_of_ne_nil hne
  rw [all_segmentations, hcut]
  obtain ⟨h1, h2, _, h4⟩ := delivers_exactly env c hopen hbuf hpeer hp pn ver server ps ms h64 hsz hhs hdir hdec hvalid
  exact ⟨h1, h2, h4⟩

/-! ## 3. A peer that breaks the protocol is disconnected; nothing of the offending message is delivered -/

/-- **violation closes**: after any run of frames `good` that were processed without exception (handshake,
    messages — or nothing at all), bytes that break the protocol (`Offending`: wrong marker at the frame
    boundary / length over the limit / a frame whose payload is rejected) close the connection.  The events
    are those of the preceding frames, then the violation, the removal from the peer map, and the error
    replies for the requests pending at that moment — nothing of the offending frame or of anything behind it. -/
theorem violation_closes (env : Env) (c : Conn) (hopen : c.closed = false) (hbuf : c.buf = [])
    (h64 : env.maxSize < 2 ^ 64) (good : List Bytes) (bad : Bytes) (w : Why)
    (hsz : ∀ p ∈ good, p.length ≤ env.maxSize) (hgood : (procAll env c.st good).err = none)
    (hbad : Offending env (procAll env c.st good).st bad w) :
    (feed env c (frames good ++ bad)).1.closed = true ∧
    ∃ stc : PState, stc.pending = (procAll env c.st good).st.pending ∧
      (feed env c (frames good ++ bad)).2 =
        (procAll env c.st good).evs ++ .violation w :: .removed c.st.alias :: closeEvs env stc := by
  obtain ⟨s', buf, hcons, hpend, halias⟩ := consume_offending env h64 _ bad w hbad
  have hc := consume_frames env h64 good c.st bad hsz hgood
  rw [hcons] at hc
  unfold feed
  simp only [hopen, hbuf, List.nil_append, Bool.false_eq_true, ↓reduceIte]
  rw [hc]
  simp only [List.append_nil]
  refine ⟨shutdown_closed env _, s', hpend, ?_⟩
  simp only [shutdown, closeEvs, closeConn, clearPending_eq_map, halias, (procAll_alias env good c.st).1]

/-- nothing the peer sent at or after the violation reaches `deliver_message`: what is attempted after the
    preceding frames are only error replies built from the pending table -/
theorem violation_delivers_nothing_more (env : Env) (c : Conn) (hopen : c.closed = false) (hbuf : c.buf = [])
    (h64 : env.maxSize < 2 ^ 64) (good : List Bytes) (bad : Bytes) (w : Why)
    (hsz : ∀ p ∈ good, p.length ≤ env.maxSize) (hgood : (procAll env c.st good).err = none)
    (hbad : Offending env (procAll env c.st good).st bad w) :
    ∃ tail, attempts (feed env c (frames good ++ bad)).2 = attempts (procAll env c.st good).evs ++ tail ∧
      ∀ m ∈ tail, ∃ e ∈ (procAll env c.st good).st.pending, ∃ pe, m = errReplyFor pe e := by
  obtain ⟨_, stc, hp, hev⟩ := violation_closes env c hopen hbuf h64 good bad w hsz hgood hbad
  refine ⟨attempts (closeEvs env stc), ?_, ?_⟩
  · rw [hev]
    simp only [attempts, List.filterMap_append, List.filterMap_cons, Ev.attempt]
  · intro m hm
    rw [closeEvs, attempts_clearEv, List.mem_map] at hm
    obtain ⟨e, he, rfl⟩ := hm
    exact ⟨e, hp ▸ he, stc.peer, rfl⟩

/-- and for **every segmentation** of such a stream: same closed connection, same events -/
theorem violation_closes_any_segmentation (env : Env) (c : Conn) (stream : Bytes)
    (chunks : List Bytes) (hne : chunks ≠ []) (hcut : chunks.flatten = stream) :
    feedAll env c chunks = feed env c stream := by
  obtain ⟨d, ds, rfl⟩ := List.exists_cons_of_ne_nil hne
  rw [all_segmentations, hcut]

/-! the individual faults of the property statement, as instances of `Offending` -/

theorem wrong_marker_offends (env : Env) (s : PState) (b : UInt8) (rest : Bytes) (hb : b ≠ 0x50) :
    Offending env s (b :: rest) .marker := .marker b rest hb

theorem oversize_offends (env : Env) (s : PState) (n : Nat) (rest : Bytes) (hn : env.maxSize < n) (h : n < 2 ^ 64) :
    Offending env s (0x50 :: (leBytes 8 n ++ rest)) .oversize := .oversize n rest hn h

/-- the size limit is exact: a frame of exactly `maxSize` bytes is *not* a violation (see `frame_roundtrip`),
    one byte more is -/
theorem size_limit_exact (env : Env) (s : PState) (rest : Bytes) (h : env.maxSize + 1 < 2 ^ 64) :
    Offending env s (0x50 :: (leBytes 8 (env.maxSize + 1) ++ rest)) .oversize :=
  .oversize _ rest (Nat.lt_succ_self _) h

theorem undecodable_offends (env : Env) (s : PState) (p rest : Bytes) (hsz : p.length ≤ env.maxSize)
    (hd : env.decode p = .undecodable) : Offending env s (frame p ++ rest) .undecodable :=
  .payload p rest _ hsz (by rw [processMessage_undecodable env s p hd])

theorem not_a_message_offends (env : Env) (s : PState) (p rest : Bytes) (hsz : p.length ≤ env.maxSize)
    (hd : env.decode p = .notMessage) : Offending env s (frame p ++ rest) .notMessage :=
  .payload p rest _ hsz (by rw [processMessage_notMessage env s p hd])

theorem missing_handshake_offends (env : Env) (s : PState) (p rest : Bytes) (m : Msg) (hsz : p.length ≤ env.maxSize)
    (hp : s.peer = none) (hd : env.decode p = .msg m) : Offending env s (frame p ++ rest) .expectedHandshake :=
  .payload p rest _ hsz (by rw [processMessage_missing_handshake env s p m hp hd])

/-- a handshake received when the peer is already known is a violation -/
theorem second_handshake_offends_known (env : Env) (s : PState) (p rest : Bytes) (pn : Name) (name : Option Name)
    (ver : Nat) (server : Bool) (hsz : p.length ≤ env.maxSize) (hp : s.peer = some pn)
    (hd : env.decode p = .handshake name ver server) : Offending env s (frame p ++ rest) .secondHandshake :=
  .payload p rest _ hsz (by rw [processMessage_second_handshake env s p pn name ver server hp hd])

/-- **repeated handshake** at full strength: on a connection that had not shaken hands, after *any* accepted
    handshake `hp1` (whatever it says) and any run `good` of frames processed without exception, *any* further
    handshake frame is a violation.  (Before fix 849271e this was false: a handshake without a context name
    could be repeated.) -/
theorem second_handshake_offends (env : Env) (s : PState) (hp1 : Bytes) (good : List Bytes) (p rest : Bytes)
    (n1 n2 : Option Name) (v1 v2 : Nat) (sv1 sv2 : Bool)
    (hfresh : s.peer = none) (hd1 : env.decode hp1 = .handshake n1 v1 sv1)
    (hok : (procAll env s (hp1 :: good)).err = none)
    (hsz : p.length ≤ env.maxSize) (hd : env.decode p = .handshake n2 v2 sv2) :
    Offending env (procAll env s (hp1 :: good)).st (frame p ++ rest) .secondHandshake := by
  simp only [procAll] at hok ⊢
  cases he : (processMessage env s hp1).err with
  | some w => simp [he] at hok
  | none =>
    simp only [he] at hok ⊢
    obtain ⟨pn, hpn⟩ := processMessage_handshake_sets_peer env s hp1 n1 v1 sv1 hfresh hd1 he
    exact second_handshake_offends_known env _ p rest pn n2 v2 sv2 hsz (procAll_peer_some env good _ pn hpn) hd

/-- a handshake that does not name the peer is itself a violation (fix 849271e) -/
theorem nameless_handshake_offends (env : Env) (s : PState) (p rest : Bytes) (ver : Nat) (server : Bool)
    (hsz : p.length ≤ env.maxSize) (hp : s.peer = none) (hd : env.decode p = .handshake none ver server) :
    Offending env s (frame p ++ rest) .badHandshakeName :=
  .payload p rest _ hsz (by rw [processMessage_nameless_handshake env s p ver server hp hd])

theorem wrong_direction_handshake_offends (env : Env) (s : PState) (p rest : Bytes) (pn : Name) (ver : Nat)
    (server : Bool) (hsz : p.length ≤ env.maxSize) (hp : s.peer = none)
    (hd : env.decode p = .handshake (some pn) ver server) (hdir : server = s.incoming) :
    Offending env s (frame p ++ rest) (if s.incoming then .serverHsFromClient else .clientHsAsClient) :=
  .payload p rest _ hsz (processMessage_wrong_direction env s p pn ver server hp hd hdir).2

theorem foreign_destination_offends (env : Env) (s : PState) (p rest : Bytes) (m : Msg) (pn : Name)
    (hsz : p.length ≤ env.maxSize) (hp : s.peer = some pn) (hd : env.decode p = .msg m)
    (hdst : m.dst.ctx ≠ env.ctxName) : Offending env s (frame p ++ rest) .badDestination :=
  .payload p rest _ hsz (by rw [processMessage_foreign_destination env s p m pn hp hd hdst])

theorem foreign_source_offends (env : Env) (s : PState) (p rest : Bytes) (m : Msg) (pn : Name)
    (hsz : p.length ≤ env.maxSize) (hp : s.peer = some pn) (hd : env.decode p = .msg m)
    (hdst : m.dst.ctx = env.ctxName) (hsrc : m.src.ctx ≠ pn) : Offending env s (frame p ++ rest) .badSource :=
  .payload p rest _ hsz (by rw [processMessage_foreign_source env s p m pn hp hd hdst hsrc])

/-! ## 4. A closed connection stays closed and silent -/

theorem closed_is_absorbing (env : Env) (c : Conn) (h : c.closed = true) (d : Bytes) :
    feed env c d = (c, []) ∧ onRecv env c d = (c, []) := by
  simp [feed, onRecv, h]

theorem closed_stays_closed (env : Env) (c : Conn) (h : c.closed = true) (ds : List Bytes) :
    feedAll env c ds = (c, []) := by
  induction ds with
  | nil => rfl
  | cons d ds ih => simp only [feedAll, (closed_is_absorbing env c h d).1, ih, List.append_nil]

/-- once `feed` has closed a connection, nothing that arrives later has any effect -/
theorem after_close_nothing (env : Env) (c : Conn) (d : Bytes) (h : (feed env c d).1.closed = true) (ds : List Bytes) :
    feedAll env (feed env c d).1 ds = ((feed env c d).1, []) :=
  closed_stays_closed env _ h ds

/-! ## 5. Every request still pending on a closed connection fails with a delivery error -/

/-- **pending all failed** (full strength, any handler table, any handler behaviour): `close()` empties the
    pending table and makes **exactly one** `deliver_message(error reply)` per entry, in table order, each an
    error reply carrying the entry's request id and addressed to the requester.  (Before fix 6a33dc7 this needed
    the hypothesis that no handler answers an error reply with an unexpected exception.) -/
theorem pending_all_failed (env : Env) (c : Conn) :
    (closeConn env c).conn.closed = true ∧ (closeConn env c).conn.st.pending = [] ∧
    (closeConn env c).evs = c.st.pending.map (clearEv env c.st.peer) ∧
    attempts (closeConn env c).evs = c.st.pending.map (errReplyFor c.st.peer) ∧
    (∀ e ∈ c.st.pending, (errReplyFor c.st.peer e).kind = .errReply ∧ (errReplyFor c.st.peer e).rid = e.1 ∧
        (errReplyFor c.st.peer e).dst = e.2.1) := by
  rw [closeConn_eq env c]
  exact ⟨rfl, rfl, rfl, attempts_clearEv env _ _, fun e _ => ⟨rfl, rfl, rfl⟩⟩

/-- nothing but those deliveries happens in `close()`: no event is an exception leaving the callback -/
theorem close_never_escapes (env : Env) (c : Conn) : Ev.escaped ∉ (closeConn env c).evs := by
  rw [closeConn_eq env c]
  simp only [List.mem_map, not_exists, not_and]
  intro e _ he
  unfold clearEv at he
  generalize deliverLocal env (errReplyFor c.st.peer e) = o at he
  cases o <;> simp [Outcome.ev] at he

/-- however the connection is lost inside `_handle_read` (EOF or any exception), it ends with an empty pending
    table -/
theorem loss_fails_all_pending (env : Env) (c : Conn) (d : Bytes)
    (hopen : c.closed = false) (hclosed : (onRecv env c d).1.closed = true) :
    (onRecv env c d).1.st.pending = [] := by
  unfold onRecv at hclosed ⊢
  simp only [hopen, Bool.false_eq_true, ↓reduceIte] at hclosed ⊢
  by_cases hd : d.isEmpty = true
  · simp only [hd, ↓reduceIte, shutdown, closeConn_eq env c]
  · simp only [hd, Bool.false_eq_true, ↓reduceIte] at hclosed ⊢
    unfold feed at hclosed ⊢
    simp only [hopen, Bool.false_eq_true, ↓reduceIte] at hclosed ⊢
    generalize consume env c.st (c.buf ++ d) = r at *
    obtain ⟨rst, rbuf, revs, rerr⟩ := r
    cases rerr with
    | none => simp at hclosed
    | some w => simp only [shutdown, closeConn_eq]

/-- the peer goes away (recv returns b""): removed from the peer map, then exactly one error reply per
    pending request, in table order; table empty afterwards -/
theorem eof_fails_pending (env : Env) (c : Conn) (hopen : c.closed = false) :
    onRecv env c [] = ({ st := { c.st with pending := [] }, buf := [], closed := true },
                       .eof :: .removed c.st.alias :: c.st.pending.map (clearEv env c.st.peer)) := by
  simp only [onRecv, hopen, Bool.false_eq_true, ↓reduceIte, List.isEmpty_nil, shutdown, closeConn_eq env c]

/-- a protocol violation with requests pending: exactly one error reply for each request that had not been
    answered by one of the preceding frames -/
theorem violation_fails_pending (env : Env) (c : Conn) (hopen : c.closed = false) (hbuf : c.buf = [])
    (h64 : env.maxSize < 2 ^ 64) (good : List Bytes) (bad : Bytes) (w : Why)
    (hsz : ∀ p ∈ good, p.length ≤ env.maxSize) (hgood : (procAll env c.st good).err = none)
    (hbad : Offending env (procAll env c.st good).st bad w) :
    (feed env c (frames good ++ bad)).1.st.pending = [] ∧
    ∃ tail, (feed env c (frames good ++ bad)).2 =
        (procAll env c.st good).evs ++ .violation w :: .removed c.st.alias :: tail ∧
      ∃ pe, attempts tail = (procAll env c.st good).st.pending.map (errReplyFor pe) := by
  obtain ⟨hcl, stc, hp, hev⟩ := violation_closes env c hopen hbuf h64 good bad w hsz hgood hbad
  refine ⟨?_, closeEvs env stc, hev, stc.peer, ?_⟩
  · have := loss_fails_all_pending env c (frames good ++ bad) hopen
    by_cases hd : (frames good ++ bad).isEmpty = true
    · have hnil : frames good ++ bad = [] := List.isEmpty_iff.mp hd
      have hb : bad = [] := (List.append_eq_nil_iff.mp hnil).2
      exfalso
      generalize hx : bad = x at hbad
      cases hbad <;> simp [frame, hb] at hx
    · simp only [onRecv, hopen, hd, Bool.false_eq_true, ↓reduceIte] at this
      exact this hcl
  · rw [closeEvs, attempts_clearEv, hp]

/-- a local `disconnect_from_peer`: same — table emptied, one error reply per entry, entry gone from the peer map -/
theorem disconnect_fails_pending (w : World) (name : Name) (id : Nat) (c : Conn)
    (hp : w.peers.lookup name = some id) (hc : w.conns.lookup id = some c) :
    ∃ w', w.disconnect name = some (w', .removed c.st.alias :: c.st.pending.map (clearEv w.env c.st.peer)) ∧
      w'.peers.lookup name = none ∧
      w'.conns.lookup id = some { st := { c.st with pending := [] }, buf := [], closed := true } := by
  refine ⟨{ w with conns := setConn id { st := { c.st with pending := [] }, buf := [], closed := true } w.conns,
                   peers := erasePeer name w.peers }, ?_, ?_, ?_⟩
  · simp only [World.disconnect, hp, hc, shutdown, closeConn_eq]
  · exact lookup_erasePeer_eq _ _
  · exact lookup_setConn_eq _ _ _

/-! ## 6. The context and its other connections keep working -/

/-- **isolation**: one `_handle_read` of connection `i` — whatever bytes arrive, including a violation that
    closes `i` — leaves the handler table / context name / size limit (`env`), the alias counter, every
    other connection object (buffer, peer identity, pending table, closed flag) and every other entry of the
    peer map exactly as they were. -/
theorem isolation (w : World) (i : Nat) (d : Bytes) :
    (w.recv i d).1.env = w.env ∧ (w.recv i d).1.counter = w.counter ∧
    (∀ j, j ≠ i → (w.recv i d).1.conns.lookup j = w.conns.lookup j) ∧
    (∀ c, w.conns.lookup i = some c → ∀ a, a ≠ c.st.alias → (w.recv i d).1.peers.lookup a = w.peers.lookup a) := by
  unfold World.recv
  cases hc : w.conns.lookup i with
  | none => exact ⟨rfl, rfl, fun _ _ => rfl, fun c h => by cases h⟩
  | some c =>
    refine ⟨rfl, rfl, fun j hj => lookup_setConn_ne i j _ _ hj, fun c' hc' a ha => ?_⟩
    cases hc'
    simp only
    split
    · exact lookup_erasePeer_ne _ _ _ ha
    · rfl

/-- what another connection `j` does with its next bytes (new state, events) does not depend on anything that
    happened on connection `i` in between -/
theorem isolation_events (w : World) (i j : Nat) (hij : j ≠ i) (a b : Bytes) :
    ((w.recv i a).1.recv j b).2 = (w.recv j b).2 ∧
    ((w.recv i a).1.recv j b).1.conns.lookup j = (w.recv j b).1.conns.lookup j := by
  have hl : (w.recv i a).1.conns.lookup j = w.conns.lookup j := (isolation w i a).2.2.1 j hij
  have henv : (w.recv i a).1.env = w.env := (isolation w i a).1
  generalize w.recv i a = r at hl henv
  obtain ⟨w', es⟩ := r
  simp only at hl henv
  unfold World.recv
  simp only [hl, henv]
  cases hj : w.conns.lookup j with
  | none => exact ⟨rfl, hl⟩
  | some cj => exact ⟨rfl, by simp only [lookup_setConn_eq]⟩

/-- the closed connection is gone from the peer map (`has_peer_context` is false) — a later send to that
    alias is answered by a local error reply (see `World.send`, branch `none`) -/
theorem closed_peer_is_unknown (w : World) (i : Nat) (d : Bytes) (c : Conn)
    (hc : w.conns.lookup i = some c) (hopen : c.closed = false)
    (hclosed : (onRecv w.env c d).1.closed = true) :
    (w.recv i d).1.peers.lookup c.st.alias = none := by
  unfold World.recv
  simp only [hc, hclosed, hopen, Bool.not_false, Bool.and_self, ↓reduceIte]
  exact lookup_erasePeer_eq _ _

/-- sending touches nothing but the addressed connection's pending table -/
theorem send_isolation (w : World) (m : Msg) (payload : Bytes) (ok : Bool) :
    (w.send m payload ok).1.env = w.env ∧ (w.send m payload ok).1.peers = w.peers ∧
    ∀ id, w.peers.lookup m.dst.ctx = some id → ∀ j, j ≠ id → (w.send m payload ok).1.conns.lookup j = w.conns.lookup j := by
  unfold World.send
  cases hp : w.peers.lookup m.dst.ctx with
  | none => exact ⟨rfl, rfl, fun id h => by cases h⟩
  | some id =>
    simp only []
    cases hc : w.conns.lookup id with
    | none => exact ⟨rfl, rfl, fun _ _ _ _ => rfl⟩
    | some c =>
      simp only []
      cases hpn : c.st.peer with
      | none => exact ⟨rfl, rfl, fun _ _ _ _ => rfl⟩
      | some pn =>
        simp only []
        split
        · exact ⟨rfl, rfl, fun _ _ _ _ => rfl⟩
        · split
          · exact ⟨rfl, rfl, fun _ _ _ _ => rfl⟩
          · refine ⟨rfl, rfl, fun id' hid j hj => ?_⟩
            cases hid
            exact lookup_setConn_ne _ _ _ _ hj

/-- a request that cannot be sent (socket error, too big, connection not ready — every exception of
    `conn.send_message` since dc3d515) is answered at once by exactly one local error reply to the requester -/
theorem unsendable_request_fails (env : Env) (m : Msg) (pn : Option Name) (canSend : Bool) (h : m.kind = .request) :
    attempts (sendFailure env m pn canSend) =
      [{ kind := .errReply, rid := m.rid, src := m.dst, dst := m.src, body := .sendFailed }] := by
  simp only [sendFailure, localErr, h, ↓reduceIte, attempts, List.filterMap_cons, List.filterMap_nil]
  generalize deliverLocal env _ = o
  cases o <;> rfl

/-- a reply that cannot be sent is replaced by an error reply to the peer (same request id, same addresses),
    provided the connection can still send; nothing is delivered locally -/
theorem unsendable_reply_replaced (env : Env) (m : Msg) (pn : Name) (h : m.kind = .reply) :
    sendFailure env m (some pn) true =
      [.sentErr { kind := .errReply, rid := m.rid, src := m.src, dst := ⟨pn, m.dst.obj⟩, body := .sendFailed }] := by
  simp [sendFailure, h]

/-! ## 7a. The blocking client-side reader (`receive_handshake`) -/

/-- **the handshake reader is exact for every segmentation**: the peer's stream is `frame p ++ tail`; the
    socket hands it out in any non-empty pieces, none longer than `receive_handshake` asked for (`Serves` —
    the byte counts asked for are the model's `hsNeed buf - len buf`, compared with the real calls on every
    run).  As soon as the pieces cover the first frame the reader has returned, exactly as if `frame p` had
    come in one piece (`hsDone`: payload `p` handed to `_process_message`, buffer empty), and the pieces it
    consumed are exactly `frame p` — `tail` is still in the socket for the event-driven reader. -/
theorem handshake_reader_exact (env : Env) (s : PState) (p tail : Bytes) (chunks : List Bytes) (avail : Bytes)
    (hsz : p.length ≤ env.maxSize) (h64 : p.length < 2 ^ 64)
    (hs : Serves [] avail chunks) (heq : avail = frame p ++ tail)
    (hcover : 9 + p.length ≤ chunks.flatten.length) :
    recvHs env s [] chunks = hsDone env s p ∧
    (chunks.take (recvHsReqs env [] chunks).length).flatten = frame p :=
  recvHs_exact env s p tail chunks avail hsz h64 hs heq hcover

/-- until then it only waits (never an error, never a partial frame processed) -/
theorem handshake_reader_waits_or_done (env : Env) (s : PState) (p tail : Bytes) (chunks : List Bytes) (avail : Bytes)
    (hsz : p.length ≤ env.maxSize) (h64 : p.length < 2 ^ 64)
    (hs : Serves [] avail chunks) (heq : avail = frame p ++ tail) :
    (recvHs env s [] chunks).err = some .needMore ∨ recvHs env s [] chunks = hsDone env s p := by
  rcases recvHs_exact_aux env s p tail hsz h64 chunks [] avail hs (by simpa using heq) (by simp) with h | h
  · exact Or.inl h
  · exact Or.inr h.1

/-! ## 8. Establishing connections: `connect_to_peer`, `_TcpServer` / `add_incoming_connection` -/

theorem connect_invalid_name_refused (w : World) (id n : Nat) (chunks : List Bytes) :
    w.connect id (.client n) chunks = (w, [], some .invalidName) ∧
    w.connect id (.dollar n) chunks = (w, [], some .invalidName) := by
  simp [World.connect]

theorem connect_duplicate_refused (w : World) (id k : Nat) (chunks : List Bytes)
    (h : (w.peers.lookup (.ctx k)).isSome = true) :
    w.connect id (.ctx k) chunks = (w, [], some .duplicate) := by
  simp [World.connect, h]

/-- **connect succeeds exactly**: the server's stream starts with a server handshake naming the expected
    peer; however the socket cuts it, the new connection is registered under that name, open, with the peer
    identity set and an empty buffer (everything behind the handshake is still in the socket), the client
    handshake was sent, and a differing version only produces the warning. -/
theorem connect_succeeds (w : World) (id k : Nat) (chunks : List Bytes) (avail hp tail : Bytes) (ver : Nat)
    (hfree : w.peers.lookup (.ctx k) = none)
    (hsz : hp.length ≤ w.env.maxSize) (h64 : hp.length < 2 ^ 64)
    (hs : Serves [] avail chunks) (heq : avail = frame hp ++ tail) (hcover : 9 + hp.length ≤ chunks.flatten.length)
    (hd : w.env.decode hp = .handshake (some (.ctx k)) ver true) :
    w.connect id (.ctx k) chunks =
      ({ w with conns := setConn id { st := { alias := .ctx k, incoming := false, peer := some (.ctx k),
                                              ver := some ver, pending := [] }, buf := [], closed := false } w.conns,
                peers := w.peers ++ [(.ctx k, id)] },
       .sentHs false :: (if some ver ≠ some w.env.version then [.versionWarning] else []), none) ∧
    (w.connect id (.ctx k) chunks).1.peers.lookup (.ctx k) = some id := by
  obtain ⟨hr, _⟩ := recvHs_exact w.env (Conn.fresh (.ctx k) false).st hp tail chunks avail hsz h64 hs heq hcover
  have hproc := processMessage_handshake w.env (Conn.fresh (.ctx k) false).st hp (.ctx k) ver true rfl hd rfl
  have hdone : hsDone w.env (Conn.fresh (.ctx k) false).st hp =
      ⟨{ alias := .ctx k, incoming := false, peer := some (.ctx k), ver := some ver, pending := [] }, [], none⟩ := by
    simp only [hsDone, hproc]; rfl
  have hmain : w.connect id (.ctx k) chunks =
      ({ w with conns := setConn id { st := { alias := .ctx k, incoming := false, peer := some (.ctx k),
                                              ver := some ver, pending := [] }, buf := [], closed := false } w.conns,
                peers := w.peers ++ [(.ctx k, id)] },
       .sentHs false :: (if some ver ≠ some w.env.version then [.versionWarning] else []), none) := by
    simp only [World.connect, hfree, Option.isSome_none, Bool.false_eq_true, ↓reduceIte, hr, hdone]
    simp
  refine ⟨hmain, ?_⟩
  rw [hmain]
  exact lookup_append_new _ _ _ hfree

/-- the handshake names somebody else: refused, closed, nothing registered -/
theorem connect_wrong_name_refused (w : World) (id k : Nat) (other : Name) (chunks : List Bytes)
    (avail hp tail : Bytes) (ver : Nat)
    (hfree : w.peers.lookup (.ctx k) = none) (hother : other ≠ .ctx k)
    (hsz : hp.length ≤ w.env.maxSize) (h64 : hp.length < 2 ^ 64)
    (hs : Serves [] avail chunks) (heq : avail = frame hp ++ tail) (hcover : 9 + hp.length ≤ chunks.flatten.length)
    (hd : w.env.decode hp = .handshake (some other) ver true) :
    (w.connect id (.ctx k) chunks).2.2 = some .wrongName ∧
    (w.connect id (.ctx k) chunks).1.peers = w.peers ∧
    ((w.connect id (.ctx k) chunks).1.conns.lookup id).map (·.closed) = some true := by
  obtain ⟨hr, _⟩ := recvHs_exact w.env (Conn.fresh (.ctx k) false).st hp tail chunks avail hsz h64 hs heq hcover
  have hproc := processMessage_handshake w.env (Conn.fresh (.ctx k) false).st hp other ver true rfl hd rfl
  have hdone : hsDone w.env (Conn.fresh (.ctx k) false).st hp =
      ⟨{ alias := .ctx k, incoming := false, peer := some other, ver := some ver, pending := [] }, [], none⟩ := by
    simp only [hsDone, hproc]; rfl
  have hne : (some other : Option Name) ≠ some (.ctx k) := by simpa using hother
  simp only [World.connect, hfree, Option.isSome_none, Bool.false_eq_true, ↓reduceIte, hr, hdone, hne, ne_eq,
    not_false_eq_true, closeConn_eq, lookup_setConn_eq, Option.map_some]
  exact ⟨trivial, trivial, trivial⟩

/-- **whatever goes wrong in `connect_to_peer`, nothing is registered**: the peer map is unchanged and the
    connection object (if one was made) is closed -/
theorem connect_failure_registers_nothing (w : World) (id : Nat) (name : Name) (chunks : List Bytes) (e : ConnectErr)
    (h : (w.connect id name chunks).2.2 = some e) :
    (w.connect id name chunks).1.peers = w.peers ∧
    ((w.connect id name chunks).1 = w ∨
     ((w.connect id name chunks).1.conns.lookup id).map (·.closed) = some true) := by
  cases name with
  | client n => simp [World.connect]
  | dollar n => simp [World.connect]
  | ctx k =>
    unfold World.connect at h ⊢
    simp only [Bool.false_eq_true, ↓reduceIte] at h ⊢
    by_cases hdup : (w.peers.lookup (.ctx k)).isSome = true
    · simp [hdup]
    · simp only [hdup, Bool.false_eq_true, ↓reduceIte] at h ⊢
      generalize recvHs w.env (Conn.fresh (.ctx k) false).st [] chunks = r at h ⊢
      obtain ⟨st, buf, err⟩ := r
      cases err with
      | some e' =>
        refine ⟨by first | rfl | trivial, Or.inr ?_⟩
        simp [closeConn_eq, lookup_setConn_eq]
      | none =>
        simp only [] at h ⊢
        by_cases hn : st.peer ≠ some (.ctx k)
        · simp only [hn, ne_eq, not_false_eq_true, ↓reduceIte]
          refine ⟨by first | rfl | trivial, Or.inr ?_⟩
          simp [closeConn_eq, lookup_setConn_eq]
        · simp only [hn, ↓reduceIte] at h
          simp at h

/-- `add_incoming_connection`: the handshake cannot be sent → closed, nothing registered, no event -/
theorem accept_failure_registers_nothing (w : World) (id : Nat) :
    (w.accept id false).1.peers = w.peers ∧ (w.accept id false).2 = [] ∧
    ((w.accept id false).1.conns.lookup id).map (·.closed) = some true := by
  simp [World.accept, closeConn_eq, lookup_setConn_eq, Conn.fresh]

/-- every `$client_<n>` alias in the peer map was handed out by the counter -/
def AliasesBelow (w : World) : Prop := ∀ n id, (Name.client n, id) ∈ w.peers → n ≤ w.counter

theorem lookup_none_of_not_mem (l : List (Name × Nat)) (a : Name) (h : ∀ id, (a, id) ∉ l) : l.lookup a = none := by
  induction l with
  | nil => rfl
  | cons e rest ih =>
    obtain ⟨k, v⟩ := e
    have hk : (a == k) = false := by
      simp; intro hak; exact h v (by rw [hak]; exact List.mem_cons_self)
    simp only [List.lookup, hk]
    exact ih (fun id hm => h id (List.mem_cons_of_mem _ hm))

/-- **a new incoming connection gets a fresh alias**: it collides with no existing entry, it is registered
    under it, and every other entry of the peer map is untouched -/
theorem accept_alias_fresh (w : World) (id : Nat) (hinv : AliasesBelow w) :
    w.peers.lookup (.client (w.counter + 1)) = none ∧
    (w.accept id true).1.peers.lookup (.client (w.counter + 1)) = some id ∧
    (∀ a, a ≠ .client (w.counter + 1) → (w.accept id true).1.peers.lookup a = w.peers.lookup a) ∧
    AliasesBelow (w.accept id true).1 := by
  have hnone : w.peers.lookup (.client (w.counter + 1)) = none :=
    lookup_none_of_not_mem _ _ (fun id hm => by have := hinv _ _ hm; omega)
  refine ⟨hnone, ?_, ?_, ?_⟩
  · simp only [World.accept, ↓reduceIte]; exact lookup_append_new _ _ _ hnone
  · intro a ha; simp only [World.accept, ↓reduceIte]; exact lookup_append_other _ _ _ _ ha
  · intro n i hm
    simp only [World.accept, ↓reduceIte, List.mem_append, List.mem_singleton, Prod.mk.injEq, Name.client.injEq] at hm ⊢
    rcases hm with hm | ⟨rfl, _⟩
    · have := hinv _ _ hm; omega
    · omega

theorem mem_erasePeer (a : Name) (l : List (Name × Nat)) (x : Name × Nat) (h : x ∈ erasePeer a l) : x ∈ l := by
  induction l with
  | nil => simp [erasePeer] at h
  | cons e rest ih =>
    simp only [erasePeer] at h
    split at h
    · exact List.mem_cons_of_mem _ (ih h)
    · rcases List.mem_cons.mp h with rfl | h'
      · exact List.mem_cons_self
      · exact List.mem_cons_of_mem _ (ih h')

/-- the alias invariant survives every operation of the socket manager -/
theorem aliasesBelow_preserved (w : World) (hinv : AliasesBelow w) :
    (∀ i d, AliasesBelow (w.recv i d).1) ∧ (∀ id ok, AliasesBelow (w.accept id ok).1) ∧
    (∀ m p ok, AliasesBelow (w.send m p ok).1) ∧
    (∀ name w' es, w.disconnect name = some (w', es) → AliasesBelow w') ∧
    (∀ id name chunks, AliasesBelow (w.connect id name chunks).1) := by
  refine ⟨?_, ?_, ?_, ?_, ?_⟩
  · intro i d n id hm
    unfold World.recv at hm ⊢
    cases hc : w.conns.lookup i with
    | none => simp only [hc] at hm ⊢; exact hinv _ _ hm
    | some c =>
      simp only [hc] at hm ⊢
      split at hm
      · exact hinv _ _ (mem_erasePeer _ _ _ hm)
      · exact hinv _ _ hm
  · intro id ok
    cases ok with
    | true => exact (accept_alias_fresh w id hinv).2.2.2
    | false =>
      intro n i hm
      simp only [World.accept, Bool.false_eq_true, ↓reduceIte] at hm ⊢
      have := hinv _ _ hm; omega
  · intro m p ok n id hm
    have hp : (w.send m p ok).1.peers = w.peers ∧ (w.send m p ok).1.counter = w.counter := by
      unfold World.send
      split
      · exact ⟨rfl, rfl⟩
      · split
        · exact ⟨rfl, rfl⟩
        · split
          · exact ⟨rfl, rfl⟩
          · split
            · exact ⟨rfl, rfl⟩
            · split <;> exact ⟨rfl, rfl⟩
    rw [hp.1] at hm; rw [hp.2]; exact hinv _ _ hm
  · intro name w' es h n id hm
    unfold World.disconnect at h
    cases hp : w.peers.lookup name with
    | none => simp [hp] at h
    | some i =>
      cases hc : w.conns.lookup i with
      | none => simp [hp, hc] at h
      | some c =>
        simp only [hp, hc, Option.some.injEq, Prod.mk.injEq] at h
        obtain ⟨rfl, _⟩ := h
        exact hinv _ _ (mem_erasePeer _ _ _ hm)
  · intro id name chunks n i hm
    cases name with
    | client m => simp only [World.connect, ↓reduceIte] at hm ⊢; exact hinv _ _ hm
    | dollar m => simp only [World.connect, ↓reduceIte] at hm ⊢; exact hinv _ _ hm
    | ctx k =>
      unfold World.connect at hm ⊢
      simp only [Bool.false_eq_true, ↓reduceIte] at hm ⊢
      by_cases hdup : (w.peers.lookup (.ctx k)).isSome = true
      · simp only [hdup, ↓reduceIte] at hm ⊢; exact hinv _ _ hm
      · simp only [hdup, Bool.false_eq_true, ↓reduceIte] at hm ⊢
        generalize recvHs w.env (Conn.fresh (.ctx k) false).st [] chunks = r at hm ⊢
        obtain ⟨st, buf, err⟩ := r
        cases err with
        | some e' => exact hinv _ _ hm
        | none =>
          simp only [] at hm ⊢
          by_cases hn : st.peer ≠ some (.ctx k)
          · simp only [hn, ne_eq, not_false_eq_true, ↓reduceIte] at hm ⊢; exact hinv _ _ hm
          · simp only [hn, ↓reduceIte, List.mem_append, List.mem_singleton, Prod.mk.injEq, reduceCtorEq, false_and,
              or_false] at hm ⊢
            exact hinv _ _ hm


/-! ## 9. Any interleaving of the connections' segments -/

/-- **interleaving is irrelevant**: run any sequence of `_handle_read` calls on any connections in any order
    (`World.run`).  For every connection `i`, its final state and the sequence of its events are those of the
    run that contains only `i`'s own segments: what happens on the other connections — including violations,
    closes and their error replies — and how the event loop interleaves them makes no difference. -/
theorem interleaving_irrelevant (w : World) (i : Nat) (ops : List (Nat × Bytes)) :
    (World.run w ops).1.conns.lookup i = (World.run w (ops.filter fun o => o.1 == i)).1.conns.lookup i ∧
    (World.run w ops).2.filter (fun e => e.1 == i) = (World.run w (ops.filter fun o => o.1 == i)).2 :=
  run_projection i ops w w rfl rfl

/-- two merges of the same per-connection segment sequences are indistinguishable on every connection -/
theorem any_two_merges_agree (w : World) (i : Nat) (ops1 ops2 : List (Nat × Bytes))
    (h : ops1.filter (fun o => o.1 == i) = ops2.filter (fun o => o.1 == i)) :
    (World.run w ops1).1.conns.lookup i = (World.run w ops2).1.conns.lookup i ∧
    (World.run w ops1).2.filter (fun e => e.1 == i) = (World.run w ops2).2.filter (fun e => e.1 == i) := by
  obtain ⟨a1, a2⟩ := interleaving_irrelevant w i ops1
  obtain ⟨b1, b2⟩ := interleaving_irrelevant w i ops2
  rw [a1, a2, b1, b2, h]
  exact ⟨rfl, rfl⟩

/-! ## 9a. Router / context stop (`_SocketManager.close_all`) -/

/-- **stop fails every pending request of every connection**: after `close_all` the peer map is empty and
    every connection that was registered — incoming or outgoing, in whatever order they were registered, however
    many there are — is closed with an empty pending table (its peer sees EOF); other connection objects are
    untouched -/
theorem close_all_closes_every_connection (w : World) :
    w.closeAll.1.peers = [] ∧
    (∀ a id c, (a, id) ∈ w.peers → w.conns.lookup id = some c →
      ∃ c', w.closeAll.1.conns.lookup id = some c' ∧ c'.closed = true ∧ c'.st.pending = [] ∧
        c'.st.alias = c.st.alias ∧ c'.st.peer = c.st.peer) ∧
    (∀ j, (∀ a, (a, j) ∉ w.peers) → w.closeAll.1.conns.lookup j = w.conns.lookup j) := by
  refine ⟨rfl, ?_, ?_⟩
  · intro a id c hm hc
    exact closeIds_closes w.env _ w.conns id c (List.mem_map.mpr ⟨(a, id), hm, rfl⟩) hc
  · intro j hj
    apply closeIds_lookup_other
    intro hmem
    obtain ⟨⟨a, i⟩, hm, rfl⟩ := List.mem_map.mp hmem
    exact hj a hm

/-- … and (one registration per connection object) the local side sees exactly one error reply per pending
    request of each connection, connection after connection in registration order, nothing else -/
theorem close_all_fails_pending (w : World) (hnd : (w.peers.map (·.2)).Nodup) :
    w.closeAll.2 = (w.peers.map (·.2)).flatMap (fun id =>
      match w.conns.lookup id with
      | some c => c.st.pending.map (clearEv w.env c.st.peer)
      | none => []) :=
  closeIds_events w.env _ w.conns hnd

/-! ## 10. Non-vacuity: the hypotheses above are met by concrete, non-trivial states -/

/-- example surroundings: context `n0`, limit 10 bytes, payload `[1]` = client handshake of `n5`,
    `[2]` = a request of `n5.3` to `n0.1`, `[3]` = a reply of `n5.3` to request 9 of `n0.4`, `[4]` = a message
    claiming to come from `n6`; handlers for objects 1 and 4 — the latter answers error replies with an
    unexpected exception -/
def exEnv : Env :=
  { ctxName := .ctx 0, maxSize := 10,
    decode := fun p =>
      if p = [1] then .handshake (some (.ctx 5)) 0 false
      else if p = [2] then .msg ⟨.request, 7, ⟨.ctx 5, 3⟩, ⟨.ctx 0, 1⟩, .tag 42⟩
      else if p = [3] then .msg ⟨.reply, 9, ⟨.ctx 5, 3⟩, ⟨.ctx 0, 4⟩, .tag 43⟩
      else if p = [4] then .msg ⟨.other, 0, ⟨.ctx 6, 3⟩, ⟨.ctx 0, 1⟩, .tag 44⟩
      else .undecodable,
    handlers := [(1, .accept), (4, .crashOnErr)] }

/-- an incoming connection on which two requests (9, 10) of local object 4 are pending -/
def exConn : Conn :=
  { st := { alias := .client 1, incoming := true, peer := none, ver := none,
            pending := [(9, ⟨.ctx 0, 4⟩, ⟨.ctx 5, 3⟩), (10, ⟨.ctx 0, 4⟩, ⟨.ctx 5, 8⟩)] },
    buf := [], closed := false }

/-- `delivers_exactly` applies: handshake, a request, a reply -/
example :
    attempts (feed exEnv exConn (frames [[1], [2], [3]])).2 =
      [⟨.request, 7, ⟨.client 1, 3⟩, ⟨.ctx 0, 1⟩, .tag 42⟩, ⟨.reply, 9, ⟨.client 1, 3⟩, ⟨.ctx 0, 4⟩, .tag 43⟩] :=
  (delivers_exactly exEnv exConn rfl rfl rfl [1] (.ctx 5) 0 false [[2], [3]]
    [⟨.request, 7, ⟨.ctx 5, 3⟩, ⟨.ctx 0, 1⟩, .tag 42⟩, ⟨.reply, 9, ⟨.ctx 5, 3⟩, ⟨.ctx 0, 4⟩, .tag 43⟩]
    (by decide) (by decide) rfl rfl rfl (by decide)).2.2.2

/-- … cut into single bytes, or into two segments in the middle of a header: same result (computed) -/
example : feedAll exEnv exConn ((frames [[1], [2], [3]]).map fun b => [b]) = feed exEnv exConn (frames [[1], [2], [3]]) := by
  decide
example : feedAll exEnv exConn [(frames [[1], [2], [3]]).take 13, (frames [[1], [2], [3]]).drop 13]
    = feed exEnv exConn (frames [[1], [2], [3]]) := by
  decide

/-- `violation_closes` applies: after handshake, request and the reply to request 9, a message with a foreign
    source closes the connection; request 10 — still pending — gets its error reply, the frame behind the
    offending one (`[2]` again) is not delivered -/
example :
    (feed exEnv exConn (frames [[1], [2], [3]] ++ (frame [4] ++ frame [2]))).1.closed = true ∧
    attempts (feed exEnv exConn (frames [[1], [2], [3]] ++ (frame [4] ++ frame [2]))).2 =
      [⟨.request, 7, ⟨.client 1, 3⟩, ⟨.ctx 0, 1⟩, .tag 42⟩, ⟨.reply, 9, ⟨.client 1, 3⟩, ⟨.ctx 0, 4⟩, .tag 43⟩,
       ⟨.errReply, 10, ⟨.ctx 5, 8⟩, ⟨.ctx 0, 4⟩, .closedWaiting (some (.ctx 5))⟩] := by
  decide

example : Offending exEnv (procAll exEnv exConn.st [[1], [2], [3]]).st (frame [4] ++ frame [2]) .badSource :=
  foreign_source_offends exEnv _ [4] (frame [2]) ⟨.other, 0, ⟨.ctx 6, 3⟩, ⟨.ctx 0, 1⟩, .tag 44⟩ (.ctx 5)
    (by decide) (by decide) rfl rfl (by decide)

example : (procAll exEnv exConn.st [[1], [2], [3]]).err = none := by decide

/-- `pending_all_failed` on a table whose first requester (object 4) raises an unexpected exception on its error
    reply: both entries are still answered and the table is cleared -/
example : attempts (closeConn exEnv { exConn with st := { exConn.st with peer := some (.ctx 5) } }).evs =
      [⟨.errReply, 9, ⟨.ctx 5, 3⟩, ⟨.ctx 0, 4⟩, .closedWaiting (some (.ctx 5))⟩,
       ⟨.errReply, 10, ⟨.ctx 5, 8⟩, ⟨.ctx 0, 4⟩, .closedWaiting (some (.ctx 5))⟩] ∧
    (closeConn exEnv exConn).conn.st.pending = [] ∧
    deliverLocal exEnv ⟨.errReply, 9, ⟨.ctx 5, 3⟩, ⟨.ctx 0, 4⟩, .closedWaiting (some (.ctx 5))⟩ = .handled .crash := by
  decide

/-- `second_handshake_offends` / `nameless_handshake_offends` apply: `[1]` twice, and a handshake without a name -/
example : Offending exEnv (procAll exEnv exConn.st [[1], [2]]).st (frame [1] ++ []) .secondHandshake :=
  second_handshake_offends exEnv exConn.st [1] [[2]] [1] [] (some (.ctx 5)) (some (.ctx 5)) 0 0 false false
    rfl rfl (by decide) (by decide) rfl

example : (feed { exEnv with decode := fun _ => .handshake none 0 false } exConn (frame [1] ++ frame [1])).1.closed = true := by
  decide

/-- a world with two connections: feeding garbage to connection 0 closes it and leaves connection 1 and its
    peer-map entry alone (hypotheses of `isolation` / `closed_peer_is_unknown` are satisfiable) -/
def exWorld : World :=
  { env := exEnv, conns := [(0, exConn), (1, { exConn with st := { exConn.st with alias := .client 2 } })],
    peers := [(.client 1, 0), (.client 2, 1)], counter := 2 }

example : ((exWorld.recv 0 [0x51]).1.conns.lookup 0).map (·.closed) = some true ∧
    (exWorld.recv 0 [0x51]).1.peers.lookup (.client 1) = none ∧
    (exWorld.recv 0 [0x51]).1.peers.lookup (.client 2) = some 1 ∧
    (exWorld.recv 0 [0x51]).1.conns.lookup 1 = exWorld.conns.lookup 1 := by
  decide

/-- `handshake_reader_exact` / `connect_succeeds` apply: payload `[5]` is the server handshake of `n7`; the socket
    hands out one byte, then the 8 length bytes, then the payload; one more byte (`0x50`) stays in the socket -/
def exEnv2 : Env := { exEnv with decode := fun p => if p = [5] then .handshake (some (.ctx 7)) 3 true else exEnv.decode p }

example : Serves [] ([0x50] ++ (((frame [5]).drop 1).take 8 ++ ([5] ++ [0x50])))
    [[0x50], ((frame [5]).drop 1).take 8, [5]] :=
  .cons [] [0x50] _ _ (by decide) (by decide)
    (.cons [0x50] (((frame [5]).drop 1).take 8) _ _ (by decide) (by decide)
      (.cons _ [5] [0x50] [] (by decide) (by decide) (.nil _ _)))

example : (World.connect { exWorld with env := exEnv2 } 5 (.ctx 7) [[0x50], ((frame [5]).drop 1).take 8, [5]]).2.2 = none ∧
    (World.connect { exWorld with env := exEnv2 } 5 (.ctx 7) [[0x50], ((frame [5]).drop 1).take 8, [5]]).1.peers.lookup (.ctx 7) = some 5 ∧
    (World.connect { exWorld with env := exEnv2 } 5 (.ctx 7) [[0x50], ((frame [5]).drop 1).take 8, [5]]).2.1 = [.sentHs false, .versionWarning] ∧
    (World.connect { exWorld with env := exEnv2 } 6 (.ctx 8) [[0x50], ((frame [5]).drop 1).take 8, [5]]).2.2 = some .wrongName := by
  decide

example : AliasesBelow exWorld := by
  intro n id hm
  simp only [exWorld, List.mem_cons, Prod.mk.injEq, Name.client.injEq, List.not_mem_nil, or_false] at hm
  rcases hm with ⟨rfl, _⟩ | ⟨rfl, _⟩ <;> decide

/-- an interleaving: garbage on connection 0 between the segments of connection 1 -/
example : ((World.run exWorld [(1, frame [1]), (0, [0x51]), (1, frame [2])]).2.filter fun e => e.1 == 1) =
    (World.run exWorld [(1, frame [1]), (1, frame [2])]).2 := by
  decide

/-- `close_all` on the example world: both connections closed, 2 + 2 error replies, in registration order -/
example : (exWorld.closeAll.1.conns.map fun e => (e.1, e.2.closed, e.2.st.pending.length)) = [(0, true, 0), (1, true, 0)] ∧
    (attempts exWorld.closeAll.2).map (·.rid) = [9, 10, 9, 10] ∧ exWorld.closeAll.1.peers = [] ∧
    (exWorld.peers.map (·.2)).Nodup := by
  decide

end QmiModel.Frame
