import QmiModel.Lemmas.C06Frame
/-!
# C06 — peer connections deliver whole messages in order and contain bad peers

Property theorems only (model: `Model/Frame.lean`, helper lemmas: `Lemmas/C06Frame.lean`).  Everything is
quantified over *all* byte strings, segmentations, payload lists, handler tables, pending tables and
connection tables — induction over lists, no bounds.  `env.decode` (what pickle makes of a payload), the
handler table and `MAX_MESSAGE_SIZE` are arbitrary parameters.
-/
namespace QmiModel.Frame

/-! ## 1. However the byte stream is cut into segments -/

/-- **chunking invariance**: receiving `a` and then `b` is receiving `a ++ b` (same final connection state —
    buffer, peer identity, pending table, closed flag — and the same events in the same order). -/
theorem chunking_invariance (env : Env) (c : Conn) (a b : Bytes) :
    feed env c (a ++ b) = ((feed env (feed env c a).1 b).1, (feed env c a).2 ++ (feed env (feed env c a).1 b).2) :=
  feed_append env c a b

/-- **all segmentations**: feeding any non-empty list of segments one by one is feeding their concatenation
    (segments may be empty, single bytes, or hold many frames). -/
theorem all_segmentations (env : Env) (c : Conn) (d : Bytes) (ds : List Bytes) :
    feedAll env c (d :: ds) = feed env c (d :: ds).flatten := by
  rw [feedAll_cons, List.flatten_cons]

/-- two segmentations of the same stream are indistinguishable -/
theorem segmentation_irrelevant (env : Env) (c : Conn) (xs ys : List Bytes)
    (hx : xs ≠ []) (hy : ys ≠ []) (h : xs.flatten = ys.flatten) :
    feedAll env c xs = feedAll env c ys := by
  obtain ⟨x, xs', rfl⟩ := List.exists_cons_of_ne_nil hx
  obtain ⟨y, ys', rfl⟩ := List.exists_cons_of_ne_nil hy
  rw [all_segmentations, all_segmentations, h]

/-- down to single bytes -/
theorem single_bytes (env : Env) (c : Conn) (b : UInt8) (bs : Bytes) :
    feedAll env c ((b :: bs).map fun x => [x]) = feed env c (b :: bs) := by
  rw [List.map_cons, all_segmentations]
  congr 1
  induction bs generalizing b with
  | nil => rfl
  | cons b2 bs ih => simp only [List.map_cons, List.flatten_cons, List.singleton_append] at ih ⊢; rw [ih]

/-! ## 2. Exactly the messages that were sent, complete, unmodified, in order -/

/-- what a sender writes for one payload is read back as exactly that payload (`send_message` → `_receive_data`):
    the frame loop hands `p`, byte for byte, to `_process_message` and goes on with the rest -/
theorem frame_roundtrip (env : Env) (s : PState) (p rest : Bytes)
    (hmax : p.length ≤ env.maxSize) (h64 : env.maxSize < 2 ^ 64) :
    consume env s (frame p ++ rest) =
      match (processMessage env s p).err with
      | some w => ⟨(processMessage env s p).st, rest, (processMessage env s p).evs, some w⟩
      | none => ⟨(consume env (processMessage env s p).st rest).st, (consume env (processMessage env s p).st rest).buf,
                 (processMessage env s p).evs ++ (consume env (processMessage env s p).st rest).evs,
                 (consume env (processMessage env s p).st rest).err⟩ :=
  consume_frame env s p rest hmax (by omega)

/-- **delivers exactly**: an open connection (either direction, any pending table) that has not seen a
    handshake yet receives the peer's handshake `hp` followed by the frames of payloads `ps`, which decode to
    well-addressed messages `ms`.  Then: not closed, buffer empty, peer identity = the handshake's, and the
    messages handed to `deliver_message` are exactly `ms`, in order, each changed only in its source context
    (→ the local alias of the peer). -/
theorem delivers_exactly (env : Env) (c : Conn)
    (hopen : c.closed = false) (hbuf : c.buf = []) (hpeer : c.st.peer = none)
    (hp : Bytes) (pn : Name) (ver : Nat) (server : Bool) (ps : List Bytes) (ms : List Msg)
    (h64 : env.maxSize < 2 ^ 64) (hsz : ∀ p ∈ hp :: ps, p.length ≤ env.maxSize)
    (hhs : env.decode hp = .handshake (some pn) ver server) (hdir : server = !c.st.incoming)
    (hdec : ps.map env.decode = ms.map Decoded.msg)
    (hvalid : ∀ m ∈ ms, m.dst.ctx = env.ctxName ∧ m.src.ctx = pn) :
    (feed env c (frames (hp :: ps))).1.closed = false ∧
    (feed env c (frames (hp :: ps))).1.buf = [] ∧
    (feed env c (frames (hp :: ps))).1.st.peer = some pn ∧
    attempts (feed env c (frames (hp :: ps))).2 = ms.map (rewriteSrc c.st.alias) := by
  have hproc := processMessage_handshake env c.st hp (some pn) ver server hpeer hhs hdir
  obtain ⟨v1, v2, v3, _, v5⟩ := procAll_valid env pn ps { c.st with peer := some pn, ver := some ver } ms rfl hdec hvalid
  have hall : procAll env c.st (hp :: ps) =
      ⟨(procAll env { c.st with peer := some pn, ver := some ver } ps).st,
       (procAll env { c.st with peer := some pn, ver := some ver } ps).evs,
       (procAll env { c.st with peer := some pn, ver := some ver } ps).err⟩ := by
    simp only [procAll, hproc, List.nil_append]
  have hc := consume_frames env h64 (hp :: ps) c.st [] hsz (by rw [hall]; exact v1)
  rw [List.append_nil, consume_nil] at hc
  unfold feed
  simp only [hopen, hbuf, List.nil_append, Bool.false_eq_true, ↓reduceIte]
  rw [hc, hall]
  simp only [List.append_nil]
  exact ⟨trivial, trivial, v2, by rw [v5]⟩

/-- … and therefore for **every segmentation** of that stream -/
theorem delivers_exactly_any_segmentation (env : Env) (c : Conn)
    (hopen : c.closed = false) (hbuf : c.buf = []) (hpeer : c.st.peer = none)
    (hp : Bytes) (pn : Name) (ver : Nat) (server : Bool) (ps : List Bytes) (ms : List Msg)
    (h64 : env.maxSize < 2 ^ 64) (hsz : ∀ p ∈ hp :: ps, p.length ≤ env.maxSize)
    (hhs : env.decode hp = .handshake (some pn) ver server) (hdir : server = !c.st.incoming)
    (hdec : ps.map env.decode = ms.map Decoded.msg)
    (hvalid : ∀ m ∈ ms, m.dst.ctx = env.ctxName ∧ m.src.ctx = pn)
    (chunks : List Bytes) (hne : chunks ≠ []) (hcut : chunks.flatten = frames (hp :: ps)) :
    (feedAll env c chunks).1.closed = false ∧ (feedAll env c chunks).1.buf = [] ∧
    attempts (feedAll env c chunks).2 = ms.map (rewriteSrc c.st.alias) := by
  obtain ⟨d, ds, rfl⟩ := List.exists_cons_of_ne_nil hne
  rw [all_segmentations, hcut]
  obtain ⟨h1, h2, _, h4⟩ := delivers_exactly env c hopen hbuf hpeer hp pn ver server ps ms h64 hsz hhs hdir hdec hvalid
  exact ⟨h1, h2, h4⟩

/-! ## 3. A peer that breaks the protocol is disconnected; nothing of the offending message is delivered -/

/-- **violation closes**: after any run of frames `good` that were processed without exception (handshake,
    messages — or nothing at all), bytes that break the protocol (`Offending`: wrong marker at the frame
    boundary / length over the limit / a frame whose payload is rejected) close the connection.  The events
    are those of the preceding frames, then the violation, the removal from the peer map, and the error
    replies for the requests pending at that moment — nothing of the offending frame or of anything behind it. -/
theorem violation_closes (env : Env) (c : Conn) (hopen : c.closed = false) (hbuf : c.buf = [])
    (h64 : env.maxSize < 2 ^ 64) (good : List Bytes) (bad : Bytes) (w : Why)
    (hsz : ∀ p ∈ good, p.length ≤ env.maxSize) (hgood : (procAll env c.st good).err = none)
    (hbad : Offending env (procAll env c.st good).st bad w) :
    (feed env c (frames good ++ bad)).1.closed = true ∧
    ∃ stc : PState, stc.pending = (procAll env c.st good).st.pending ∧
      (feed env c (frames good ++ bad)).2 =
        (procAll env c.st good).evs ++ .violation w :: .removed c.st.alias :: closeEvs env stc := by
  obtain ⟨s', buf, hcons, hpend, halias⟩ := consume_offending env h64 _ bad w hbad
  have hc := consume_frames env h64 good c.st bad hsz hgood
  rw [hcons] at hc
  unfold feed
  simp only [hopen, hbuf, List.nil_append, Bool.false_eq_true, ↓reduceIte]
  rw [hc]
  simp only [List.append_nil]
  refine ⟨shutdown_closed env _, s', hpend, ?_⟩
  simp only [shutdown, closeEvs, closeConn, halias, (procAll_alias env good c.st).1, List.cons_append]

/-- nothing the peer sent at or after the violation reaches `deliver_message`: what is attempted after the
    preceding frames are only error replies built from the pending table -/
theorem violation_delivers_nothing_more (env : Env) (c : Conn) (hopen : c.closed = false) (hbuf : c.buf = [])
    (h64 : env.maxSize < 2 ^ 64) (good : List Bytes) (bad : Bytes) (w : Why)
    (hsz : ∀ p ∈ good, p.length ≤ env.maxSize) (hgood : (procAll env c.st good).err = none)
    (hbad : Offending env (procAll env c.st good).st bad w) :
    ∃ tail, attempts (feed env c (frames good ++ bad)).2 = attempts (procAll env c.st good).evs ++ tail ∧
      ∀ m ∈ tail, ∃ e ∈ (procAll env c.st good).st.pending, ∃ pe, m = errReplyFor pe e := by
  obtain ⟨_, stc, hp, hev⟩ := violation_closes env c hopen hbuf h64 good bad w hsz hgood hbad
  refine ⟨attempts (closeEvs env stc), ?_, ?_⟩
  · rw [hev]
    simp only [attempts, List.filterMap_append, List.filterMap_cons, Ev.attempt]
  · intro m hm
    obtain ⟨e, he, rfl⟩ := closeEvs_attempts env stc m hm
    exact ⟨e, hp ▸ he, stc.peer, rfl⟩

/-- and for **every segmentation** of such a stream: same closed connection, same events -/
theorem violation_closes_any_segmentation (env : Env) (c : Conn) (stream : Bytes)
    (chunks : List Bytes) (hne : chunks ≠ []) (hcut : chunks.flatten = stream) :
    feedAll env c chunks = feed env c stream := by
  obtain ⟨d, ds, rfl⟩ := List.exists_cons_of_ne_nil hne
  rw [all_segmentations, hcut]

/-! the individual faults of the property statement, as instances of `Offending` -/

theorem wrong_marker_offends (env : Env) (s : PState) (b : UInt8) (rest : Bytes) (hb : b ≠ 0x50) :
    Offending env s (b :: rest) .marker := .marker b rest hb

theorem oversize_offends (env : Env) (s : PState) (n : Nat) (rest : Bytes) (hn : env.maxSize < n) (h : n < 2 ^ 64) :
    Offending env s (0x50 :: (leBytes 8 n ++ rest)) .oversize := .oversize n rest hn h

/-- the size limit is exact: a frame of exactly `maxSize` bytes is *not* a violation (see `frame_roundtrip`),
    one byte more is -/
theorem size_limit_exact (env : Env) (s : PState) (rest : Bytes) (h : env.maxSize + 1 < 2 ^ 64) :
    Offending env s (0x50 :: (leBytes 8 (env.maxSize + 1) ++ rest)) .oversize :=
  .oversize _ rest (Nat.lt_succ_self _) h

theorem undecodable_offends (env : Env) (s : PState) (p rest : Bytes) (hsz : p.length ≤ env.maxSize)
    (hd : env.decode p = .undecodable) : Offending env s (frame p ++ rest) .undecodable :=
  .payload p rest _ hsz (by rw [processMessage_undecodable env s p hd])

theorem not_a_message_offends (env : Env) (s : PState) (p rest : Bytes) (hsz : p.length ≤ env.maxSize)
    (hd : env.decode p = .notMessage) : Offending env s (frame p ++ rest) .notMessage :=
  .payload p rest _ hsz (by rw [processMessage_notMessage env s p hd])

theorem missing_handshake_offends (env : Env) (s : PState) (p rest : Bytes) (m : Msg) (hsz : p.length ≤ env.maxSize)
    (hp : s.peer = none) (hd : env.decode p = .msg m) : Offending env s (frame p ++ rest) .expectedHandshake :=
  .payload p rest _ hsz (by rw [processMessage_missing_handshake env s p m hp hd])

/-- a repeated handshake — *partial*: the missing hypothesis is that the first handshake gave a context name
    (`s.peer = some pn`).  The full statement "any handshake after a completed handshake is a violation" is
    **false** of the code as it is: `repeated_handshake_accepted_after_nameless_handshake` (§7). -/
theorem second_handshake_offends_partial (env : Env) (s : PState) (p rest : Bytes) (pn : Name) (name : Option Name)
    (ver : Nat) (server : Bool) (hsz : p.length ≤ env.maxSize) (hp : s.peer = some pn)
    (hd : env.decode p = .handshake name ver server) : Offending env s (frame p ++ rest) .secondHandshake :=
  .payload p rest _ hsz (by rw [processMessage_second_handshake env s p pn name ver server hp hd])

theorem wrong_direction_handshake_offends (env : Env) (s : PState) (p rest : Bytes) (name : Option Name) (ver : Nat)
    (server : Bool) (hsz : p.length ≤ env.maxSize) (hp : s.peer = none)
    (hd : env.decode p = .handshake name ver server) (hdir : server = s.incoming) :
    Offending env s (frame p ++ rest) (if s.incoming then .serverHsFromClient else .clientHsAsClient) :=
  .payload p rest _ hsz (processMessage_wrong_direction env s p name ver server hp hd hdir).2

theorem foreign_destination_offends (env : Env) (s : PState) (p rest : Bytes) (m : Msg) (pn : Name)
    (hsz : p.length ≤ env.maxSize) (hp : s.peer = some pn) (hd : env.decode p = .msg m)
    (hdst : m.dst.ctx ≠ env.ctxName) : Offending env s (frame p ++ rest) .badDestination :=
  .payload p rest _ hsz (by rw [processMessage_foreign_destination env s p m pn hp hd hdst])

theorem foreign_source_offends (env : Env) (s : PState) (p rest : Bytes) (m : Msg) (pn : Name)
    (hsz : p.length ≤ env.maxSize) (hp : s.peer = some pn) (hd : env.decode p = .msg m)
    (hdst : m.dst.ctx = env.ctxName) (hsrc : m.src.ctx ≠ pn) : Offending env s (frame p ++ rest) .badSource :=
  .payload p rest _ hsz (by rw [processMessage_foreign_source env s p m pn hp hd hdst hsrc])

/-! ## 4. A closed connection stays closed and silent -/

theorem closed_is_absorbing (env : Env) (c : Conn) (h : c.closed = true) (d : Bytes) :
    feed env c d = (c, []) ∧ onRecv env c d = (c, []) := by
  simp [feed, onRecv, h]

theorem closed_stays_closed (env : Env) (c : Conn) (h : c.closed = true) (ds : List Bytes) :
    feedAll env c ds = (c, []) := by
  induction ds with
  | nil => rfl
  | cons d ds ih => simp only [feedAll, (closed_is_absorbing env c h d).1, ih, List.append_nil]

/-- once `feed` has closed a connection, nothing that arrives later has any effect -/
theorem after_close_nothing (env : Env) (c : Conn) (d : Bytes) (h : (feed env c d).1.closed = true) (ds : List Bytes) :
    feedAll env (feed env c d).1 ds = ((feed env c d).1, []) :=
  closed_stays_closed env _ h ds

/-! ## 5. Every request still pending on a closed connection fails with a delivery error -/

theorem attempts_clearEv (env : Env) (peer : Option Name) (l : List (Nat × Addr × Addr)) :
    attempts (l.map (clearEv env peer)) = l.map (errReplyFor peer) := by
  induction l with
  | nil => rfl
  | cons e rest ih =>
    have hat : Ev.attempt (clearEv env peer e) = some (errReplyFor peer e) := by
      unfold clearEv; cases deliverLocal env (errReplyFor peer e) <;> rfl
    simp only [attempts, List.map_cons, List.filterMap_cons, hat] at ih ⊢
    rw [ih]

/-- **pending all failed** — *partial*: under the hypothesis `HandlersKeepContract env` (no registered
    handler answers an error reply with an exception other than `QMI_MessageDeliveryException`, which is the
    documented contract of `handle_message`), `close()` empties the pending table and makes **exactly one**
    `deliver_message(error reply)` per entry, in table order, addressed to the requester, carrying the
    request id; no exception leaves `close()`.

    The unconditional statement
      `∀ env c, (closeConn env c).conn.st.pending = [] ∧ attempts (closeConn env c).evs = c.st.pending.map …`
    is **false** of the code: see `pending_not_all_failed_when_handler_raises`. -/
theorem pending_all_failed_partial (env : Env) (c : Conn) (h : HandlersKeepContract env) :
    (closeConn env c).conn.closed = true ∧ (closeConn env c).conn.st.pending = [] ∧
    (closeConn env c).escaped = false ∧
    attempts (closeConn env c).evs = c.st.pending.map (errReplyFor c.st.peer) ∧
    (∀ e ∈ c.st.pending, (errReplyFor c.st.peer e).kind = .errReply ∧ (errReplyFor c.st.peer e).rid = e.1 ∧
        (errReplyFor c.st.peer e).dst = e.2.1) := by
  rw [closeConn_ok env c h]
  exact ⟨rfl, rfl, rfl, attempts_clearEv env _ _, fun e _ => ⟨rfl, rfl, rfl⟩⟩

theorem closeEvs_ok (env : Env) (st : PState) (h : HandlersKeepContract env) :
    closeEvs env st = st.pending.map (clearEv env st.peer) := by
  simp only [closeEvs, closeConn_ok env _ h, escapedEv, Bool.false_eq_true, ↓reduceIte, List.append_nil]

/-- however the connection is lost inside `_handle_read` (EOF or any exception), it ends with an empty pending
    table -/
theorem loss_fails_all_pending_partial (env : Env) (c : Conn) (h : HandlersKeepContract env) (d : Bytes)
    (hopen : c.closed = false) (hclosed : (onRecv env c d).1.closed = true) :
    (onRecv env c d).1.st.pending = [] := by
  unfold onRecv at hclosed ⊢
  simp only [hopen, Bool.false_eq_true, ↓reduceIte] at hclosed ⊢
  by_cases hd : d.isEmpty = true
  · simp only [hd, ↓reduceIte, shutdown, closeConn_ok env c h]
  · simp only [hd, Bool.false_eq_true, ↓reduceIte] at hclosed ⊢
    unfold feed at hclosed ⊢
    simp only [hopen, Bool.false_eq_true, ↓reduceIte] at hclosed ⊢
    generalize consume env c.st (c.buf ++ d) = r at *
    obtain ⟨rst, rbuf, revs, rerr⟩ := r
    cases rerr with
    | none => simp at hclosed
    | some w => simp only [shutdown, closeConn_ok env _ h]

/-- the peer goes away (recv returns b""): removed from the peer map, then exactly one error reply per
    pending request, in table order; table empty afterwards; nothing leaves the callback -/
theorem eof_fails_pending_partial (env : Env) (c : Conn) (h : HandlersKeepContract env) (hopen : c.closed = false) :
    onRecv env c [] = ({ st := { c.st with pending := [] }, buf := [], closed := true },
                       .eof :: .removed c.st.alias :: c.st.pending.map (clearEv env c.st.peer)) := by
  simp only [onRecv, hopen, Bool.false_eq_true, ↓reduceIte, List.isEmpty_nil, shutdown, closeConn_ok env c h,
    List.append_nil]

/-- a protocol violation with requests pending: exactly one error reply for each request that had not been
    answered by one of the preceding frames -/
theorem violation_fails_pending_partial (env : Env) (c : Conn) (h : HandlersKeepContract env)
    (hopen : c.closed = false) (hbuf : c.buf = [])
    (h64 : env.maxSize < 2 ^ 64) (good : List Bytes) (bad : Bytes) (w : Why)
    (hsz : ∀ p ∈ good, p.length ≤ env.maxSize) (hgood : (procAll env c.st good).err = none)
    (hbad : Offending env (procAll env c.st good).st bad w) :
    (feed env c (frames good ++ bad)).1.st.pending = [] ∧
    ∃ tail, (feed env c (frames good ++ bad)).2 =
        (procAll env c.st good).evs ++ .violation w :: .removed c.st.alias :: tail ∧
      ∃ pe, attempts tail = (procAll env c.st good).st.pending.map (errReplyFor pe) := by
  obtain ⟨hcl, stc, hp, hev⟩ := violation_closes env c hopen hbuf h64 good bad w hsz hgood hbad
  refine ⟨?_, closeEvs env stc, hev, stc.peer, ?_⟩
  · have := loss_fails_all_pending_partial env c h (frames good ++ bad) hopen
    by_cases hd : (frames good ++ bad).isEmpty = true
    · have hnil : frames good ++ bad = [] := List.isEmpty_iff.mp hd
      have hb : bad = [] := (List.append_eq_nil_iff.mp hnil).2
      exfalso
      generalize hx : bad = x at hbad
      cases hbad <;> simp [frame, hb] at hx
    · simp only [onRecv, hopen, hd, Bool.false_eq_true, ↓reduceIte] at this
      exact this hcl
  · rw [closeEvs_ok env stc h, attempts_clearEv, hp]

/-- the *unconditional* `pending_all_failed` is false of the code as it is: a handler that answers the first
    error reply with an unexpected exception aborts `_clear_pending_requests`; the second request never gets
    its error reply, the table is not cleared and the exception leaves `close()`. -/
theorem pending_not_all_failed_when_handler_raises :
    ∃ (env : Env) (c : Conn), c.st.pending.length = 2 ∧ (closeConn env c).escaped = true ∧
      (closeConn env c).conn.st.pending = c.st.pending ∧ (attempts (closeConn env c).evs).length = 1 :=
  ⟨{ ctxName := .ctx 0, maxSize := 10, decode := fun _ => .undecodable, handlers := [(1, .crashOnErr), (2, .accept)] },
   { st := { alias := .client 1, incoming := true, peer := some (.ctx 5), ver := some 0,
             pending := [(7, ⟨.ctx 0, 1⟩, ⟨.ctx 5, 9⟩), (8, ⟨.ctx 0, 2⟩, ⟨.ctx 5, 9⟩)] },
     buf := [], closed := false },
   by decide⟩

/-! ## 6. The context and its other connections keep working -/

/-- **isolation**: one `_handle_read` of connection `i` — whatever bytes arrive, including a violation that
    closes `i` — leaves the handler table / context name / size limit (`env`), the alias counter, every
    other connection object (buffer, peer identity, pending table, closed flag) and every other entry of the
    peer map exactly as they were. -/
theorem isolation (w : World) (i : Nat) (d : Bytes) :
    (w.recv i d).1.env = w.env ∧ (w.recv i d).1.counter = w.counter ∧
    (∀ j, j ≠ i → (w.recv i d).1.conns.lookup j = w.conns.lookup j) ∧
    (∀ c, w.conns.lookup i = some c → ∀ a, a ≠ c.st.alias → (w.recv i d).1.peers.lookup a = w.peers.lookup a) := by
  unfold World.recv
  cases hc : w.conns.lookup i with
  | none => exact ⟨rfl, rfl, fun _ _ => rfl, fun c h => by cases h⟩
  | some c =>
    refine ⟨rfl, rfl, fun j hj => lookup_setConn_ne i j _ _ hj, fun c' hc' a ha => ?_⟩
    cases hc'
    simp only
    split
    · exact lookup_erasePeer_ne _ _ _ ha
    · rfl

/-- what another connection `j` does with its next bytes (new state, events) does not depend on anything that
    happened on connection `i` in between -/
theorem isolation_events (w : World) (i j : Nat) (hij : j ≠ i) (a b : Bytes) :
    ((w.recv i a).1.recv j b).2 = (w.recv j b).2 ∧
    ((w.recv i a).1.recv j b).1.conns.lookup j = (w.recv j b).1.conns.lookup j := by
  have hl : (w.recv i a).1.conns.lookup j = w.conns.lookup j := (isolation w i a).2.2.1 j hij
  have henv : (w.recv i a).1.env = w.env := (isolation w i a).1
  generalize w.recv i a = r at hl henv
  obtain ⟨w', es⟩ := r
  simp only at hl henv
  unfold World.recv
  simp only [hl, henv]
  cases hj : w.conns.lookup j with
  | none => exact ⟨rfl, hl⟩
  | some cj => exact ⟨rfl, by simp only [lookup_setConn_eq]⟩

/-- the closed connection is gone from the peer map (`has_peer_context` is false) — a later send to that
    alias is answered by a local error reply (see `World.send`, branch `none`) -/
theorem closed_peer_is_unknown (w : World) (i : Nat) (d : Bytes) (c : Conn)
    (hc : w.conns.lookup i = some c) (hopen : c.closed = false)
    (hclosed : (onRecv w.env c d).1.closed = true) :
    (w.recv i d).1.peers.lookup c.st.alias = none := by
  unfold World.recv
  simp only [hc, hclosed, hopen, Bool.not_false, Bool.and_self, ↓reduceIte]
  exact lookup_erasePeer_eq _ _

/-- sending touches nothing but the addressed connection's pending table -/
theorem send_isolation (w : World) (m : Msg) (payload : Bytes) (ok : Bool) :
    (w.send m payload ok).1.env = w.env ∧ (w.send m payload ok).1.peers = w.peers ∧
    ∀ id, w.peers.lookup m.dst.ctx = some id → ∀ j, j ≠ id → (w.send m payload ok).1.conns.lookup j = w.conns.lookup j := by
  unfold World.send
  cases hp : w.peers.lookup m.dst.ctx with
  | none => exact ⟨rfl, rfl, fun id h => by cases h⟩
  | some id =>
    simp only []
    cases hc : w.conns.lookup id with
    | none => exact ⟨rfl, rfl, fun _ _ _ _ => rfl⟩
    | some c =>
      simp only []
      cases hpn : c.st.peer with
      | none => exact ⟨rfl, rfl, fun _ _ _ _ => rfl⟩
      | some pn =>
        simp only []
        split
        · exact ⟨rfl, rfl, fun _ _ _ _ => rfl⟩
        · split
          · exact ⟨rfl, rfl, fun _ _ _ _ => rfl⟩
          · refine ⟨rfl, rfl, fun id' hid j hj => ?_⟩
            cases hid
            exact lookup_setConn_ne _ _ _ _ hj

/-! ## 7. What the code does *not* guarantee (negative results, witnesses replayed by the harness) -/

/-- "a repeated handshake ⇒ disconnected" is false of the code as it is: a handshake whose context name is
    `None` leaves `peer_context_name` unset, so the next handshake is taken for the first one. -/
theorem repeated_handshake_accepted_after_nameless_handshake :
    ∃ (env : Env) (p : Bytes), env.decode p = .handshake none 0 false ∧ p.length ≤ env.maxSize ∧
      (feed env (Conn.fresh (.client 1) true) (frame p ++ frame p)).1.closed = false ∧
      (feed env (Conn.fresh (.client 1) true) (frame p ++ frame p)).1.buf = [] := by
  refine ⟨{ ctxName := .ctx 0, maxSize := 10, decode := fun _ => .handshake none 0 false, handlers := [] }, [1],
    rfl, by decide, ?_, ?_⟩ <;> decide

/-! ## 8. Non-vacuity: the hypotheses above are met by concrete, non-trivial states -/

/-- a handler table whose handlers accept or refuse (raise `QMI_MessageDeliveryException`) keeps the contract -/
theorem keepContract_of_handlers (env : Env)
    (h : ∀ e ∈ env.handlers, e.2 ≠ .crash ∧ e.2 ≠ .crashOnErr) : HandlersKeepContract env := by
  intro m hk
  unfold deliverLocal
  split
  · simp
  · cases hl : env.handlers.lookup m.dst.obj with
    | none => simp
    | some hk' =>
      have hmem : ∃ o, (o, hk') ∈ env.handlers := by
        generalize env.handlers = l at hl
        induction l with
        | nil => simp [List.lookup] at hl
        | cons e rest ih =>
          obtain ⟨k, v⟩ := e
          simp only [List.lookup] at hl
          split at hl
          · cases hl; exact ⟨k, List.mem_cons_self⟩
          · obtain ⟨o, ho⟩ := ih hl; exact ⟨o, List.mem_cons_of_mem _ ho⟩
      obtain ⟨o, ho⟩ := hmem
      have := h _ ho
      simp only [ne_eq, Outcome.handled.injEq]
      cases hk' <;> simp_all [HKind.on]

/-- example surroundings: context `n0`, limit 10 bytes, payload `[1]` = client handshake of `n5`,
    `[2]` = a request of `n5.3` to `n0.1`, `[3]` = a reply of `n5.3` to request 9 of `n0.4`, `[4]` = a message
    claiming to come from `n6`; handlers for objects 1 and 4 -/
def exEnv : Env :=
  { ctxName := .ctx 0, maxSize := 10,
    decode := fun p =>
      if p = [1] then .handshake (some (.ctx 5)) 0 false
      else if p = [2] then .msg ⟨.request, 7, ⟨.ctx 5, 3⟩, ⟨.ctx 0, 1⟩, .tag 42⟩
      else if p = [3] then .msg ⟨.reply, 9, ⟨.ctx 5, 3⟩, ⟨.ctx 0, 4⟩, .tag 43⟩
      else if p = [4] then .msg ⟨.other, 0, ⟨.ctx 6, 3⟩, ⟨.ctx 0, 1⟩, .tag 44⟩
      else .undecodable,
    handlers := [(1, .accept), (4, .refuseReq)] }

/-- an incoming connection on which two requests (9, 10) of local object 4 are pending -/
def exConn : Conn :=
  { st := { alias := .client 1, incoming := true, peer := none, ver := none,
            pending := [(9, ⟨.ctx 0, 4⟩, ⟨.ctx 5, 3⟩), (10, ⟨.ctx 0, 4⟩, ⟨.ctx 5, 8⟩)] },
    buf := [], closed := false }

example : HandlersKeepContract exEnv := keepContract_of_handlers exEnv (by decide)

/-- `delivers_exactly` applies: handshake, a request, a reply -/
example :
    attempts (feed exEnv exConn (frames [[1], [2], [3]])).2 =
      [⟨.request, 7, ⟨.client 1, 3⟩, ⟨.ctx 0, 1⟩, .tag 42⟩, ⟨.reply, 9, ⟨.client 1, 3⟩, ⟨.ctx 0, 4⟩, .tag 43⟩] :=
  (delivers_exactly exEnv exConn rfl rfl rfl [1] (.ctx 5) 0 false [[2], [3]]
    [⟨.request, 7, ⟨.ctx 5, 3⟩, ⟨.ctx 0, 1⟩, .tag 42⟩, ⟨.reply, 9, ⟨.ctx 5, 3⟩, ⟨.ctx 0, 4⟩, .tag 43⟩]
    (by decide) (by decide) rfl rfl rfl (by decide)).2.2.2

/-- … cut into single bytes, or into two segments in the middle of a header: same result (computed) -/
example : feedAll exEnv exConn ((frames [[1], [2], [3]]).map fun b => [b]) = feed exEnv exConn (frames [[1], [2], [3]]) := by
  decide
example : feedAll exEnv exConn [(frames [[1], [2], [3]]).take 13, (frames [[1], [2], [3]]).drop 13]
    = feed exEnv exConn (frames [[1], [2], [3]]) := by
  decide

/-- `violation_closes` applies: after handshake, request and the reply to request 9, a message with a foreign
    source closes the connection; request 10 — still pending — gets its error reply, the frame behind the
    offending one (`[2]` again) is not delivered -/
example :
    (feed exEnv exConn (frames [[1], [2], [3]] ++ (frame [4] ++ frame [2]))).1.closed = true ∧
    attempts (feed exEnv exConn (frames [[1], [2], [3]] ++ (frame [4] ++ frame [2]))).2 =
      [⟨.request, 7, ⟨.client 1, 3⟩, ⟨.ctx 0, 1⟩, .tag 42⟩, ⟨.reply, 9, ⟨.client 1, 3⟩, ⟨.ctx 0, 4⟩, .tag 43⟩,
       ⟨.errReply, 10, ⟨.ctx 5, 8⟩, ⟨.ctx 0, 4⟩, .closedWaiting (some (.ctx 5))⟩] := by
  decide

example : Offending exEnv (procAll exEnv exConn.st [[1], [2], [3]]).st (frame [4] ++ frame [2]) .badSource :=
  foreign_source_offends exEnv _ [4] (frame [2]) ⟨.other, 0, ⟨.ctx 6, 3⟩, ⟨.ctx 0, 1⟩, .tag 44⟩ (.ctx 5)
    (by decide) (by decide) rfl rfl (by decide)

example : (procAll exEnv exConn.st [[1], [2], [3]]).err = none := by decide

/-- a world with two connections: feeding garbage to connection 0 closes it and leaves connection 1 and its
    peer-map entry alone (hypotheses of `isolation` / `closed_peer_is_unknown` are satisfiable) -/
def exWorld : World :=
  { env := exEnv, conns := [(0, exConn), (1, { exConn with st := { exConn.st with alias := .client 2 } })],
    peers := [(.client 1, 0), (.client 2, 1)], counter := 2 }

example : ((exWorld.recv 0 [0x51]).1.conns.lookup 0).map (·.closed) = some true ∧
    (exWorld.recv 0 [0x51]).1.peers.lookup (.client 1) = none ∧
    (exWorld.recv 0 [0x51]).1.peers.lookup (.client 2) = some 1 ∧
    (exWorld.recv 0 [0x51]).1.conns.lookup 1 = exWorld.conns.lookup 1 := by
  decide

end QmiModel.Frame



