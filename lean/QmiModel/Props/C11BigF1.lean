import QmiModel.Model.WakeSys
import QmiModel.Model.WakeEnc
import QmiModel.Gen.WakeCert
/-!
# C11 — chunk obligations of the larger systems (a task waiting on two receivers in sequence — part 2 of 2)

The reachable set of `sysRecv2` is not computed by the kernel: `Gen/WakeCert.lean` holds it as a table of packed states
(written by the compiled driver on every run); each theorem below re-checks one chunk of the table — every entry satisfies
the state obligations and all its successors are in the table again (`chunkOk`, see `Model/WakeEnc.lean`).  Glued in
`Props/C11.lean` by `cert_chunks_sound`.
-/
namespace QmiModel.C11
open QmiModel.Wake QmiModel.Wake.Systems QmiModel.Gen.WakeCert

set_option maxRecDepth 200000 in
theorem recv2_chunk_5 : chunkOk sysRecv2 (goodWaiter sysRecv2) certRecv2 nbkRecv2 5 = true := by decide +kernel

set_option maxRecDepth 200000 in
theorem recv2_chunk_6 : chunkOk sysRecv2 (goodWaiter sysRecv2) certRecv2 nbkRecv2 6 = true := by decide +kernel

set_option maxRecDepth 200000 in
theorem recv2_chunk_7 : chunkOk sysRecv2 (goodWaiter sysRecv2) certRecv2 nbkRecv2 7 = true := by decide +kernel

set_option maxRecDepth 200000 in
theorem recv2_chunk_8 : chunkOk sysRecv2 (goodWaiter sysRecv2) certRecv2 nbkRecv2 8 = true := by decide +kernel

set_option maxRecDepth 200000 in
theorem recv2_chunk_9 : chunkOk sysRecv2 (goodWaiter sysRecv2) certRecv2 nbkRecv2 9 = true := by decide +kernel

end QmiModel.C11
