import QmiModel.Model.WakeSys
import QmiModel.Model.WakeEnc
import QmiModel.Gen.WakeCert
/-!
# C11 — chunk obligations of the larger systems (free mixture of waits, two stop requests, publisher — part 6 of 8)

The reachable set of `sysAnyTwo` is not computed by the kernel: `Gen/WakeCert.lean` holds it as a table of packed states
(written by the compiled driver on every run); each theorem below re-checks one chunk of the table — every entry satisfies
the state obligations and all its successors are in the table again (`chunkOk`, see `Model/WakeEnc.lean`).  Glued in
`Props/C11.lean` by `cert_chunks_sound`.
-/
namespace QmiModel.C11
open QmiModel.Wake QmiModel.Wake.Systems QmiModel.Gen.WakeCert

set_option maxRecDepth 200000 in
theorem anyTwo_chunk_15 : chunkOk sysAnyTwo (goodWaiter sysAnyTwo) certAnyTwo nbkAnyTwo 15 = true := by decide +kernel

set_option maxRecDepth 200000 in
theorem anyTwo_chunk_16 : chunkOk sysAnyTwo (goodWaiter sysAnyTwo) certAnyTwo nbkAnyTwo 16 = true := by decide +kernel

set_option maxRecDepth 200000 in
theorem anyTwo_chunk_17 : chunkOk sysAnyTwo (goodWaiter sysAnyTwo) certAnyTwo nbkAnyTwo 17 = true := by decide +kernel

end QmiModel.C11
