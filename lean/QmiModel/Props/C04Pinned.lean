import QmiModel.Props.C04
/-!
# C04 — negation witnesses that describe the defect of the pinned tree's FORCE_RELEASE cell

TREE-SPECIFIC.  `harness/props/c04.py` adds this module to the obligations exactly when its translator sees the real
`_RpcThread._handle_lock_rpc_request` raise on (FORCE_RELEASE, unlocked) — DESIGN §7(a).  On a tree where that cell is
repaired the module is not built (there is nothing left to witness) and `Props/C04.lean` alone carries the property,
with `gen_eq_spec_of_fix` / `lock_requests_total_of_fix` discharged by `force_unlocked_dichotomy`.
-/
namespace QmiModel.Lock

/-- what the pinned tree does in that cell: `UnboundLocalError` escapes the handler (and `_RpcThread.run`).
`return_token` is never assigned in the FORCE_RELEASE branch when `_locking_token is None`. -/
theorem force_unlocked_crashes : ForceUnlockedCrashes := by
  intro srv req
  cases req <;> simp [lockStep, lockStepWith, Gen.LockFsm.table, relOf]

/-- negation witness of the full statement: FORCE_RELEASE on an unlocked object does not answer -/
theorem gen_eq_spec_false :
    ¬ (∀ (srv : String) (owner : Option Token) (a : Act) (req : Option Token), issuable a req →
        lockStep srv owner a req = .ok (lockSpec srv owner a req)) := by
  intro h
  have := h "srv" none .forceRelease none (by simp [issuable])
  rw [force_unlocked_crashes] at this
  cases this

/-- negation witness of `lock_requests_total` (full statement in `Props/C04.lean` §6) -/
theorem lock_requests_total_false :
    ¬ (∀ (s : Sys) (op : Op), s.dead = none → op.isLockOp = true →
        (step s op).1.dead = none ∧ (step s op).2 ≠ .hang) := by
  intro h
  have := h wFree (.forceUnlock 0) (by decide) (by decide)
  revert this
  decide

/-- the failing history as the implementation shows it: the force-unlock is never answered and neither is anything
after it -/
theorem force_unlock_unlocked_disables_object :
    (run (init "srv") [.newCtx "cli", .newProxy 1, .forceUnlock 0, .isLocked 0, .lock 0 none, .call 0 false]).2
      = [.idx 1, .idx 0, .hang, .hang, .hang, .hang] ∧
    (exec (init "srv") [.newCtx "cli", .newProxy 1, .forceUnlock 0]).dead = some .unboundLocalError := by
  decide

end QmiModel.Lock
